/-
Helper lemmas for C02: closed forms of the `BitMask` functions on a normalised
`(lsb, msb)` pair (bit-level obligations discharged by `bv_decide` with symbolic 64-bit
`lsb`, `msb`, old word and value), the normalisation lemma, bit-index bridging.
-/
import CamVerif.Model.BitMask
import CamVerif.Spec.Codec
import CamVerif.Proofs.C01
import Std.Tactic.BVDecide
namespace CamVerif.Proofs.C02
open CamVerif CamVerif.Reg CamVerif.BitMask CamVerif.Spec.Codec

/-! ## `Res` plumbing for `bv_decide` -/

def getD {α : Type} (x : R α) (d : α) : α :=
  match x with
  | .ok a => a
  | _ => d

@[simp] theorem getD_ok {α : Type} (a d : α) : getD (.ok a : R α) d = a := rfl
@[simp] theorem getD_err {α : Type} (e : Err) (d : α) : getD (.err e : R α) d = d := rfl
@[simp] theorem getD_panic {α : Type} (d : α) : getD (.panic : R α) d = d := rfl

theorem eq_ok_of {α : Type} (x : R α) (a d : α) (h1 : x.isOk = true) (h2 : getD x d = a) :
    x = .ok a := by
  cases x <;> simp_all [Res.isOk, getD]

/-! ## Pure closed forms (the *specification* of the field on 64-bit vectors) -/

/-- the field's bit mask: `w = m - l + 1` ones starting at bit `l`
(`1 <<< 64 = 0` in `BitVec`, so the full-width case needs no exception) -/
def fieldMask (l m : BitVec 64) : BitVec 64 := ((1#64 <<< (m - l + 1)) - 1) <<< l

/-- smallest value of the field through the `i64` API -/
def specMin (s : Sign) (l m : BitVec 64) : BitVec 64 :=
  match s with
  | .signed => -(1#64 <<< (m - l))
  | .unsigned => 0

/-- largest value of the field through the `i64` API (unsigned 64-bit: `i64::MAX`) -/
def specMax (s : Sign) (l m : BitVec 64) : BitVec 64 :=
  match s with
  | .signed => (1#64 <<< (m - l)) - 1
  | .unsigned => if m - l = 63 then BitVec.intMax 64 else (1#64 <<< (m - l + 1)) - 1

/-- the field read out of a word: logical extraction, sign extension when signed -/
def specExtract (s : Sign) (l m : BitVec 64) (w : BitVec 64) : BitVec 64 :=
  match s with
  | .unsigned => (w &&& fieldMask l m) >>> l
  | .signed => ((w <<< (63 - m)).sshiftRight' (63 - m + l))

/-- the word after storing `v` in the field -/
def specMerge (l m : BitVec 64) (old v : BitVec 64) : BitVec 64 :=
  (old &&& ~~~fieldMask l m) ||| ((v <<< l) &&& fieldMask l m)

/-! ## Machine operations succeed under their side conditions -/

theorem subU_ok (p : Profile) (a b : BitVec 64) (h : b ≤ a) : subU p a b = .ok (a - b) := by
  simp [subU, h]

theorem addU_ok (p : Profile) (a b : BitVec 64) (h : a ≤ a + b) : addU p a b = .ok (a + b) := by
  simp [addU, h]

theorem shlW_ok (p : Profile) (x k : BitVec 64) (h : k < 64) : shlW p x k = .ok (x <<< k) := by
  unfold shlW shiftAmount; rw [if_pos h]; rfl

theorem lshrW_ok (p : Profile) (x k : BitVec 64) (h : k < 64) : lshrW p x k = .ok (x >>> k) := by
  unfold lshrW shiftAmount; rw [if_pos h]; rfl

theorem ashrW_ok (p : Profile) (x k : BitVec 64) (h : k < 64) :
    ashrW p x k = .ok (x.sshiftRight' k) := by
  unfold ashrW shiftAmount; rw [if_pos h]; rfl

theorem subI_ok (p : Profile) (a b : BitVec 64) (h : ssubOvf a b = false) : subI p a b = .ok (a - b) := by
  simp [subI, h]

theorem negI_ok (p : Profile) (a : BitVec 64) (h : a ≠ 0x8000000000000000#64) : negI p a = .ok (-a) := by
  unfold negI
  rw [if_neg]
  intro h'; apply h; rw [h']; decide

theorem I64_MIN_eq : I64_MIN = 0x8000000000000000#64 := by decide
theorem I64_MAX_eq : I64_MAX = 0x7fffffffffffffff#64 := by decide

/-! ## Closed forms of the core functions on a normalised pair `l ≤ m < 64` -/

theorem maskCore_eq (p : Profile) (l m : BitVec 64) (h1 : l ≤ m) (h2 : m < 64) :
    maskCore p l m = .ok (fieldMask l m) := by
  simp only [maskCore, subU_ok p m l h1, Res.bind_ok]
  by_cases hd : m - l = 63
  · simp only [hd, if_true, Res.pure_eq, fieldMask]
    congr 1
    bv_decide
  · simp only [hd, if_false]
    rw [addU_ok p _ _ (by bv_decide)]
    simp only [Res.bind_ok]
    rw [shlW_ok p _ _ (by bv_decide)]
    simp only [Res.bind_ok]
    rw [subU_ok p _ _ (by bv_decide)]
    simp only [Res.bind_ok]
    rw [shlW_ok p _ _ (by bv_decide)]
    rfl

theorem minCore_eq (p : Profile) (l m : BitVec 64) (s : Sign) (h1 : l ≤ m) (h2 : m < 64) :
    minCore p l m s = .ok (specMin s l m) := by
  cases s
  · simp only [minCore, subU_ok p m l h1, Res.bind_ok, specMin]
    by_cases hd : m - l = 63
    · simp only [hd, if_true, Res.pure_eq, I64_MIN_eq]
      congr 1
    · simp only [hd, if_false]
      rw [shlW_ok p _ _ (by bv_decide)]
      simp only [Res.bind_ok]
      rw [negI_ok p _ (by bv_decide)]
      rfl
  · rfl

theorem maxCore_eq (p : Profile) (l m : BitVec 64) (s : Sign) (h1 : l ≤ m) (h2 : m < 64) :
    maxCore p l m s = .ok (specMax s l m) := by
  simp only [maxCore, subU_ok p m l h1, Res.bind_ok]
  by_cases hd : m - l = 63
  · simp only [hd, if_true, Res.pure_eq, I64_MAX_eq]
    cases s <;> simp only [specMax, hd, if_true] <;> congr 1
  · simp only [hd, if_false]
    cases s
    · simp only []
      rw [shlW_ok p _ _ (by bv_decide)]
      simp only [Res.bind_ok]
      rw [subI_ok p _ _ (by simp only [ssubOvf]; bv_decide)]
      rfl
    · simp only []
      rw [addU_ok p _ _ (by bv_decide)]
      simp only [Res.bind_ok]
      rw [shlW_ok p _ _ (by bv_decide)]
      simp only [Res.bind_ok]
      rw [subU_ok p _ _ (by bv_decide)]
      simp only [specMax, hd, if_false]
      rfl


/-- the code's sign extension (test the top field bit, or in the complement of the field
mask) agrees with "shift the field to the top and shift back arithmetically" -/
theorem signExtend_agrees_top (l m w : BitVec 64) (h1 : l ≤ m) (h2 : m < 64)
    (htop : ((w &&& fieldMask l m) >>> l).sshiftRight' (m - l) = 1) :
    ((w &&& fieldMask l m) >>> l) ||| ((-1) ^^^ (fieldMask l m >>> l)) =
      (w <<< (63 - m)).sshiftRight' (63 - m + l) := by
  simp only [fieldMask] at *
  bv_decide (config := { timeout := 120 })

theorem signExtend_agrees_notop (l m w : BitVec 64) (h1 : l ≤ m) (h2 : m < 64)
    (htop : ¬ ((w &&& fieldMask l m) >>> l).sshiftRight' (m - l) = 1) :
    ((w &&& fieldMask l m) >>> l) = (w <<< (63 - m)).sshiftRight' (63 - m + l) := by
  simp only [fieldMask] at *
  bv_decide (config := { timeout := 120 })

theorem applyCore_eq (p : Profile) (l m w : BitVec 64) (s : Sign) (h1 : l ≤ m) (h2 : m < 64) :
    applyCore p (fieldMask l m) l m w s = .ok (specExtract s l m w) := by
  have hl : l < 64 := by bv_decide
  have hd : m - l < 64 := by bv_decide
  simp only [applyCore]
  rw [lshrW_ok p _ _ hl]
  simp only [Res.bind_ok]
  rw [lshrW_ok p _ _ hl]
  simp only [Res.bind_ok]
  cases s
  · simp only [subU_ok p m l h1, Res.bind_ok]
    rw [ashrW_ok p _ _ hd]
    simp only [Res.bind_ok, specExtract]
    split
    · rename_i htop
      simp only [Res.pure_eq]; congr 1
      exact signExtend_agrees_top l m w h1 h2 htop
    · rename_i htop
      simp only [Res.pure_eq]; congr 1
      exact signExtend_agrees_notop l m w h1 h2 htop
  · simp only [Res.pure_eq, specExtract]

/-! ## Bit indices: `getLsbD` with a `Nat` index versus shifting by a 64-bit index -/

/-- bit `i` of `x`, with the index as a 64-bit vector (the form `bv_decide` reasons about) -/
def bitAt (x i : BitVec 64) : Bool := ((x >>> i) &&& 1#64 == 1#64)

theorem and_one_eq (y : BitVec 64) : (y &&& 1#64 == 1#64) = y.getLsbD 0 := by
  bv_decide

theorem bitAt_eq (x i : BitVec 64) : bitAt x i = x.getLsbD i.toNat := by
  unfold bitAt
  rw [and_one_eq, BitVec.ushiftRight_eq', BitVec.getLsbD_ushiftRight]
  simp

theorem getLsbD_eq_bitAt (x : BitVec 64) (i : Nat) (hi : i < 64) :
    x.getLsbD i = bitAt x (BitVec.ofNat 64 i) := by
  rw [bitAt_eq, BitVec.toNat_ofNat, Nat.mod_eq_of_lt (by omega)]

theorem ofNat_lt_64 (i : Nat) (hi : i < 64) : BitVec.ofNat 64 i < 64 := by
  rw [BitVec.lt_def, BitVec.toNat_ofNat, Nat.mod_eq_of_lt (by omega)]
  exact hi

/-! ## Pure facts about the specification functions (all by `bv_decide`, symbolic `l`, `m`) -/

theorem fieldMask_bitAt (l m i : BitVec 64) (h1 : l ≤ m) (h2 : m < 64) (hi : i < 64) :
    bitAt (fieldMask l m) i = (decide (l ≤ i) && decide (i ≤ m)) := by
  simp only [fieldMask, bitAt]
  bv_decide

theorem specMerge_bitAt (l m old v i : BitVec 64) (h1 : l ≤ m) (h2 : m < 64) (hi : i < 64) :
    bitAt (specMerge l m old v) i =
      if l ≤ i ∧ i ≤ m then bitAt v (i - l) else bitAt old i := by
  simp only [specMerge, fieldMask, bitAt]
  split
  · rename_i h; obtain ⟨ha, hb⟩ := h; bv_decide
  · rename_i h
    have h' : ¬ (l ≤ i) ∨ ¬ (i ≤ m) := by
      by_cases ha : l ≤ i
      · right; intro hb; exact h ⟨ha, hb⟩
      · left; exact ha
    rcases h' with h' | h' <;> bv_decide

theorem specMerge_outside (l m old v : BitVec 64) :
    specMerge l m old v &&& ~~~fieldMask l m = old &&& ~~~fieldMask l m := by
  simp only [specMerge]
  generalize fieldMask l m = M
  bv_decide

theorem specExtract_merge (s : Sign) (l m old v : BitVec 64) (h1 : l ≤ m) (h2 : m < 64)
    (hmin : (specMin s l m).sle v = true) (hmax : v.sle (specMax s l m) = true) :
    specExtract s l m (specMerge l m old v) = v := by
  cases s <;> simp only [specExtract, specMerge, fieldMask, specMin, specMax] at *
  · bv_decide (config := { timeout := 120 })
  · split at hmax <;> bv_decide (config := { timeout := 120 })

theorem specExtract_merge_disjoint (s : Sign) (l1 m1 l2 m2 old v : BitVec 64)
    (h1 : l1 ≤ m1) (h2 : m1 < 64) (h3 : l2 ≤ m2) (h4 : m2 < 64) (hdis : m1 < l2 ∨ m2 < l1) :
    specExtract s l2 m2 (specMerge l1 m1 old v) = specExtract s l2 m2 old := by
  cases s <;> simp only [specExtract, specMerge, fieldMask] <;>
    rcases hdis with hdis | hdis <;> bv_decide (config := { timeout := 120 })

theorem fieldMask_disjoint (l1 m1 l2 m2 : BitVec 64)
    (h1 : l1 ≤ m1) (h2 : m1 < 64) (h3 : l2 ≤ m2) (h4 : m2 < 64) (hdis : m1 < l2 ∨ m2 < l1) :
    fieldMask l1 m1 &&& fieldMask l2 m2 = 0 := by
  simp only [fieldMask]
  rcases hdis with hdis | hdis <;> bv_decide (config := { timeout := 120 })

/-! ## The range in mathematical integers (kernel-only arithmetic) -/

theorem sub_toNat (l m : BitVec 64) (h1 : l ≤ m) : (m - l).toNat = m.toNat - l.toNat := by
  rw [BitVec.le_def] at h1
  rw [BitVec.toNat_sub]
  have := m.isLt; have := l.isLt
  omega

theorem one_shl_toNat (k : BitVec 64) (hk : k.toNat < 64) : (1#64 <<< k).toNat = 2 ^ k.toNat := by
  rw [BitVec.shiftLeft_eq', BitVec.toNat_shiftLeft, Nat.shiftLeft_eq]
  simp only [BitVec.toNat_ofNat, Nat.reducePow, Nat.reduceMod, Nat.one_mul]
  apply Nat.mod_eq_of_lt
  exact Nat.pow_lt_pow_right (by omega) hk

theorem specMin_toInt (s : Sign) (l m : BitVec 64) (h1 : l ≤ m) (h2 : m < 64) :
    (specMin s l m).toInt = fieldMin s (fieldWidth l.toNat m.toNat) := by
  have hd := sub_toNat l m h1
  have hm : m.toNat < 64 := by rw [BitVec.lt_def] at h2; exact h2
  cases s
  · simp only [specMin, fieldMin, fieldWidth, Nat.add_sub_cancel]
    have hk : (m - l).toNat < 64 := by omega
    have hx := one_shl_toNat (m - l) hk
    have hp1 : 1 ≤ 2 ^ (m - l).toNat := Nat.one_le_two_pow
    have hp2 : 2 ^ (m - l).toNat ≤ 2 ^ 63 := Nat.pow_le_pow_right (by omega) (by omega)
    rw [BitVec.toInt_eq_toNat_cond, BitVec.toNat_neg, hx, ← hd]
    have : ((2 : Int) ^ (m - l).toNat) = ((2 ^ (m - l).toNat : Nat) : Int) := by simp
    rw [this]
    generalize 2 ^ (m - l).toNat = P at *
    simp only [Nat.reducePow] at *
    split <;> omega
  · simp [specMin, fieldMin]

/-- `max` is the top of the field's range; the one exception is the unsigned 64-bit field,
reported as `i64::MAX`. -/
theorem specMax_toInt (s : Sign) (l m : BitVec 64) (h1 : l ≤ m) (h2 : m < 64) :
    (specMax s l m).toInt =
      if s = .unsigned ∧ fieldWidth l.toNat m.toNat = 64 then 2 ^ 63 - 1
      else fieldMax s (fieldWidth l.toNat m.toNat) := by
  have hd := sub_toNat l m h1
  have hm : m.toNat < 64 := by rw [BitVec.lt_def] at h2; exact h2
  have hk : (m - l).toNat < 64 := by omega
  cases s
  · simp only [specMax, fieldMax, fieldWidth, Nat.add_sub_cancel, reduceCtorEq, false_and, if_false]
    have hx := one_shl_toNat (m - l) hk
    have hp1 : 1 ≤ 2 ^ (m - l).toNat := Nat.one_le_two_pow
    have hp2 : 2 ^ (m - l).toNat ≤ 2 ^ 63 := Nat.pow_le_pow_right (by omega) (by omega)
    rw [BitVec.toInt_eq_toNat_cond, BitVec.toNat_sub, hx, ← hd]
    have : ((2 : Int) ^ (m - l).toNat) = ((2 ^ (m - l).toNat : Nat) : Int) := by simp
    rw [this]
    generalize 2 ^ (m - l).toNat = P at *
    simp only [Nat.reducePow, show (1 : BitVec 64).toNat = 1 from rfl] at *
    split <;> omega
  · simp only [specMax, fieldMax, fieldWidth, true_and]
    by_cases h63 : m - l = 63
    · have : (m - l).toNat = 63 := by rw [h63]; rfl
      rw [if_pos h63, if_pos (by omega)]
      decide
    · have hne : (m - l).toNat ≠ 63 := by
        intro h; apply h63; apply BitVec.eq_of_toNat_eq; rw [h]; rfl
      rw [if_neg h63, if_neg (by omega)]
      have hk1 : (m - l + 1).toNat = (m - l).toNat + 1 := by
        rw [BitVec.toNat_add]; simp only [Nat.reducePow, show (1 : BitVec 64).toNat = 1 from rfl]; omega
      have hx := one_shl_toNat (m - l + 1) (by omega)
      have hp1 : 1 ≤ 2 ^ (m - l + 1).toNat := Nat.one_le_two_pow
      have hp2 : 2 ^ (m - l + 1).toNat ≤ 2 ^ 63 := Nat.pow_le_pow_right (by omega) (by omega)
      rw [BitVec.toInt_eq_toNat_cond, BitVec.toNat_sub, hx, ← hd, ← hk1]
      have : ((2 : Int) ^ (m - l + 1).toNat) = ((2 ^ (m - l + 1).toNat : Nat) : Int) := by simp
      rw [this]
      generalize 2 ^ (m - l + 1).toNat = P at *
      simp only [Nat.reducePow, show (1 : BitVec 64).toNat = 1 from rfl] at *
      split <;> omega

/-! ## Normalisation of raw `LSB`/`MSB`/`Bit` numbers -/

/-- normalised bit position: little-endian numbering is kept, big-endian numbering
(bit 0 = most significant) is mirrored: `8·len - 1 - raw` -/
def normB (n : Nat) (e : Endianness) (raw : BitVec 64) : BitVec 64 :=
  match e with
  | .le => raw
  | .be => BitVec.ofNat 64 (8 * n - 1) - raw

/-- **Well-formedness** of a bit-field description for an `n`-byte register: supported
length, both raw positions inside the register, and the normalised pair ordered
`l ≤ m` (for the single-`Bit` form `l = m`). -/
def WF (n : Nat) (e : Endianness) (bm : BitMask) : Prop :=
  IntLen n ∧ bm.rawLsb.toNat < 8 * n ∧ bm.rawMsb.toNat < 8 * n ∧
    normB n e bm.rawLsb ≤ normB n e bm.rawMsb

instance (n : Nat) (e : Endianness) (bm : BitMask) : Decidable (WF n e bm) := by
  unfold WF; exact inferInstance

theorem lenUsize_nat (n : Nat) (h : n < 2 ^ 63) : lenUsize (n : Int) = BitVec.ofNat 64 n := by
  unfold lenUsize
  rw [C01.asUsize_of_nonneg _ (by omega) (by omega)]
  simp

theorem normB_toNat (n : Nat) (hn : IntLen n) (e : Endianness) (raw : BitVec 64)
    (hr : raw.toNat < 8 * n) :
    (normB n e raw).toNat = (match e with | .le => raw.toNat | .be => 8 * n - 1 - raw.toNat) := by
  cases e
  · rfl
  · simp only [normB]
    rw [BitVec.toNat_sub, BitVec.toNat_ofNat]
    rcases hn with rfl | rfl | rfl | rfl <;> simp only [Nat.reducePow, Nat.reduceMul, Nat.reduceSub, Nat.reduceMod] <;> omega

theorem normB_lt_64 (n : Nat) (hn : IntLen n) (e : Endianness) (raw : BitVec 64)
    (hr : raw.toNat < 8 * n) : normB n e raw < 64 := by
  rw [BitVec.lt_def, normB_toNat n hn e raw hr]
  cases e <;> rcases hn with rfl | rfl | rfl | rfl <;> simp only [] <;>
    (show _ < 64; omega)

theorem mul8U_lit (p : Profile) (k : BitVec 64) (h : (k <<< 3) >>> 3 = k) :
    mul8U p k = .ok (k <<< 3) := by
  unfold mul8U; rw [if_pos h]

theorem normalise_lit (p : Profile) (k bits : BitVec 64) (hmul : (k <<< 3) >>> 3 = k)
    (hbits : k <<< 3 = bits) (e : Endianness) (raw : BitVec 64) (hr : raw < bits) :
    normalise p raw k e = .ok (match e with | .le => raw | .be => bits - 1 - raw) := by
  unfold normalise
  rw [mul8U_lit p _ hmul, hbits]
  simp only [Res.bind_ok]
  cases e
  · rfl
  · simp only []
    rw [subU_ok p _ _ (by bv_decide)]
    simp only [Res.bind_ok]
    rw [subU_ok p _ _ (by bv_decide)]
    congr 1
    bv_decide

theorem normalise_eq (p : Profile) (n : Nat) (hn : IntLen n) (e : Endianness) (raw : BitVec 64)
    (hr : raw.toNat < 8 * n) :
    normalise p raw (lenUsize (n : Int)) e = .ok (normB n e raw) := by
  have hlt : n < 2 ^ 63 := by rcases hn with rfl | rfl | rfl | rfl <;> decide
  rw [lenUsize_nat n hlt]
  rcases hn with rfl | rfl | rfl | rfl
  · rw [normalise_lit p 1#64 8#64 (by decide) (by decide) e raw (by rw [BitVec.lt_def]; simpa using hr)]
    cases e <;> rfl
  · rw [normalise_lit p 2#64 16#64 (by decide) (by decide) e raw (by rw [BitVec.lt_def]; simpa using hr)]
    cases e <;> rfl
  · rw [normalise_lit p 4#64 32#64 (by decide) (by decide) e raw (by rw [BitVec.lt_def]; simpa using hr)]
    cases e <;> rfl
  · rw [normalise_lit p 8#64 64#64 (by decide) (by decide) e raw (by rw [BitVec.lt_def]; simpa using hr)]
    cases e <;> rfl

/-! ## The seven `BitMask` functions under `WF`: no panic, closed forms -/

section
variable (p : Profile) (n : Nat) (e : Endianness) (bm : BitMask) (wf : WF n e bm)
include wf

theorem wf_le : normB n e bm.rawLsb ≤ normB n e bm.rawMsb := wf.2.2.2
theorem wf_lt : normB n e bm.rawMsb < 64 := normB_lt_64 n wf.1 e _ wf.2.2.1

theorem lsb_eq : bm.lsb p (lenUsize (n : Int)) e = .ok (normB n e bm.rawLsb) :=
  normalise_eq p n wf.1 e _ wf.2.1

theorem msb_eq : bm.msb p (lenUsize (n : Int)) e = .ok (normB n e bm.rawMsb) :=
  normalise_eq p n wf.1 e _ wf.2.2.1

theorem min_eq (s : Sign) : bm.min p (lenUsize (n : Int)) e s =
    .ok (specMin s (normB n e bm.rawLsb) (normB n e bm.rawMsb)) := by
  simp only [BitMask.min, lsb_eq p n e bm wf, msb_eq p n e bm wf, Res.bind_ok,
    minCore_eq p _ _ s (wf_le n e bm wf) (wf_lt n e bm wf)]

theorem max_eq (s : Sign) : bm.max p (lenUsize (n : Int)) e s =
    .ok (specMax s (normB n e bm.rawLsb) (normB n e bm.rawMsb)) := by
  simp only [BitMask.max, lsb_eq p n e bm wf, msb_eq p n e bm wf, Res.bind_ok,
    maxCore_eq p _ _ s (wf_le n e bm wf) (wf_lt n e bm wf)]

theorem mask_eq : bm.mask p (lenUsize (n : Int)) e =
    .ok (fieldMask (normB n e bm.rawLsb) (normB n e bm.rawMsb)) := by
  simp only [BitMask.mask, lsb_eq p n e bm wf, msb_eq p n e bm wf, Res.bind_ok,
    maskCore_eq p _ _ (wf_le n e bm wf) (wf_lt n e bm wf)]

theorem applyMask_eq (s : Sign) (w : BitVec 64) : bm.applyMask p w (lenUsize (n : Int)) e s =
    .ok (specExtract s (normB n e bm.rawLsb) (normB n e bm.rawMsb) w) := by
  simp only [BitMask.applyMask, mask_eq p n e bm wf, lsb_eq p n e bm wf, msb_eq p n e bm wf,
    Res.bind_ok, applyCore_eq p _ _ w s (wf_le n e bm wf) (wf_lt n e bm wf)]

theorem maskedValue_eq (s : Sign) (old v : BitVec 64) :
    bm.maskedValue p old v (lenUsize (n : Int)) e s =
      if (specMax s (normB n e bm.rawLsb) (normB n e bm.rawMsb)).slt v = true ∨
         v.slt (specMin s (normB n e bm.rawLsb) (normB n e bm.rawMsb)) = true
      then .err .invalidData
      else .ok (specMerge (normB n e bm.rawLsb) (normB n e bm.rawMsb) old v) := by
  have hl : normB n e bm.rawLsb < 64 := by
    have h1 := wf_le n e bm wf; have h2 := wf_lt n e bm wf
    bv_decide
  simp only [BitMask.maskedValue, max_eq p n e bm wf, min_eq p n e bm wf, mask_eq p n e bm wf,
    lsb_eq p n e bm wf, Res.bind_ok]
  by_cases h1 : (specMax s (normB n e bm.rawLsb) (normB n e bm.rawMsb)).slt v = true
  · simp [h1]
  · by_cases h2 : v.slt (specMin s (normB n e bm.rawLsb) (normB n e bm.rawMsb)) = true
    · simp [h1, h2]
    · simp only [h1, h2, Bool.false_eq_true, if_false, Res.pure_eq, Res.bind_ok, or_self,
        shlW_ok p v _ hl]
      rfl

end

end CamVerif.Proofs.C02
