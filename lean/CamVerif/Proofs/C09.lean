/-
Helper lemmas for C09 (command packet layout): offset arithmetic on byte lists,
the length folds of the stacked constructors, the stacked entry decoders, and the
fixed-size sink invariant.
-/
import CamVerif.Model.Cmd
import CamVerif.Spec.GenCP
namespace CamVerif.C09
open CamVerif CamVerif.Cmd
open CamVerif.Spec.GenCP (slice uintAt readEntriesAt writeEntriesAt)

/-! ### slices of appended byte lists -/

theorem slice_skip (a b : Bytes) (off n : Nat) (h : a.length ≤ off) :
    slice (a ++ b) off n = slice b (off - a.length) n := by
  simp only [slice]
  rw [List.drop_append, List.drop_of_length_le h, List.nil_append]

theorem slice_here (a b : Bytes) (n : Nat) (h : a.length = n) : slice (a ++ b) 0 n = a := by
  simp only [slice, List.drop_zero]; exact List.take_left' h

theorem slice_all (a : Bytes) (n : Nat) (h : a.length = n) : slice a 0 n = a := by
  simp only [slice, List.drop_zero]; rw [← h, List.take_length]

theorem uintAt_skip (a b : Bytes) (off n : Nat) (h : a.length ≤ off) :
    uintAt (a ++ b) off n = uintAt b (off - a.length) n := by
  simp only [uintAt, slice_skip _ _ _ _ h]

theorem uintAt_here (len x : Nat) (b : Bytes) :
    uintAt (toLE len x ++ b) 0 len = x % 256 ^ len := by
  simp only [uintAt]; rw [slice_here _ _ _ (toLE_length _ _), fromLE_toLE]

theorem uintAt_all (len x : Nat) : uintAt (toLE len x) 0 len = x % 256 ^ len := by
  simp only [uintAt]; rw [slice_all _ _ (toLE_length _ _), fromLE_toLE]

/-! ### the packet header -/

/-- The 12 header bytes written by `CommandPacket::serialize` + `CommandCcd::serialize`. -/
def hdr (c : Cmd) (id : Nat) : Bytes :=
  toLE 4 PREFIX_MAGIC ++ toLE 2 FLAG_REQUEST_ACK ++ toLE 2 c.kindId ++ toLE 2 c.scdLen ++ toLE 2 id

@[simp] theorem hdr_length (c : Cmd) (id : Nat) : (hdr c id).length = 12 := by
  simp [hdr]

theorem serialize_eq (c : Cmd) (id : Nat) : c.serialize id = hdr c id ++ c.scdBytes := by
  simp [Cmd.serialize, hdr]

theorem hdr_magic (c : Cmd) (id : Nat) (scd : Bytes) :
    uintAt (hdr c id ++ scd) 0 4 = 0x43563355 := by
  simp [hdr, uintAt_here, PREFIX_MAGIC]

theorem hdr_flag (c : Cmd) (id : Nat) (scd : Bytes) :
    uintAt (hdr c id ++ scd) 4 2 = 0x4000 := by
  simp [hdr, uintAt_skip, uintAt_here, FLAG_REQUEST_ACK]

theorem hdr_kind (c : Cmd) (id : Nat) (scd : Bytes) :
    uintAt (hdr c id ++ scd) 6 2 = c.kindId := by
  have : c.kindId % 65536 = c.kindId := by cases c <;> rfl
  simp [hdr, uintAt_skip, uintAt_here, this]

theorem hdr_scdLen (c : Cmd) (id : Nat) (scd : Bytes) :
    uintAt (hdr c id ++ scd) 8 2 = c.scdLen % 65536 := by
  simp [hdr, uintAt_skip, uintAt_here]

theorem hdr_id (c : Cmd) (id : Nat) (scd : Bytes) :
    uintAt (hdr c id ++ scd) 10 2 = id % 65536 := by
  simp [hdr, uintAt_skip, uintAt_here]

/-! ### length folds of the constructors -/

theorem foldl_len12 (es : List ReadMem) (k : Nat) :
    es.foldl (fun acc _ => acc + 12) k = k + 12 * es.length := by
  induction es generalizing k with
  | nil => simp
  | cons e es ih => simp only [List.foldl_cons, ih, List.length_cons]; omega

/-- total SCD bytes of a write entry list: Σ (12 + data_len) -/
def wsum : List WriteMem → Nat
  | [] => 0
  | w :: ws => 12 + w.dataLen + wsum ws

theorem foldl_wlen (ws : List WriteMem) (k : Nat) :
    ws.foldl (fun acc c => acc + 12 + c.dataLen) k = k + wsum ws := by
  induction ws generalizing k with
  | nil => simp [wsum]
  | cons w ws ih => simp only [List.foldl_cons, ih, wsum]; omega

theorem wsum_ge (ws : List WriteMem) : 12 * ws.length ≤ wsum ws := by
  induction ws with
  | nil => simp [wsum]
  | cons w ws ih => simp only [wsum, List.length_cons]; omega

/-- Σ read_length -/
def rsum : List ReadMem → Nat
  | [] => 0
  | e :: es => e.readLength + rsum es

theorem rsum_eq (es : List ReadMem) :
    rsum es = ((es.map fun e => (e.address, e.readLength)).map (·.2)).sum := by
  induction es with
  | nil => rfl
  | cons e es ih => simp [rsum, ih]

theorem ackLenFold_ok (es : List ReadMem) (acc : Nat) (h : acc + rsum es ≤ U16_MAX) :
    ReadMemStacked.ackLenFold es acc = .ok (acc + rsum es) := by
  induction es generalizing acc with
  | nil => simp [ReadMemStacked.ackLenFold, rsum]
  | cons e es ih =>
    simp only [rsum, U16_MAX] at h
    have h1 : acc + e.readLength ≤ U16_MAX := by simp only [U16_MAX]; omega
    simp only [ReadMemStacked.ackLenFold, if_pos h1, rsum]
    rw [ih _ (by simp only [U16_MAX]; omega), Nat.add_assoc]

theorem ackLenFold_err (es : List ReadMem) (acc : Nat) (h : U16_MAX < acc + rsum es)
    (hacc : acc ≤ U16_MAX) :
    ReadMemStacked.ackLenFold es acc = .err .invalidPacket := by
  induction es generalizing acc with
  | nil => simp only [rsum, U16_MAX] at h hacc; omega
  | cons e es ih =>
    simp only [rsum, U16_MAX] at h hacc
    by_cases h1 : acc + e.readLength ≤ U16_MAX
    · simp only [ReadMemStacked.ackLenFold, if_pos h1]
      exact ih _ (by simp only [U16_MAX]; omega) h1
    · simp only [ReadMemStacked.ackLenFold, if_neg h1]

/-! ### SCD byte counts -/

theorem readScd_length (e : ReadMem) : e.scdBytes.length = 12 := by
  simp [ReadMem.scdBytes]

theorem readFlat_length (es : List ReadMem) :
    (es.map ReadMem.scdBytes).flatten.length = 12 * es.length := by
  induction es with
  | nil => rfl
  | cons e es ih =>
    simp only [List.map_cons, List.flatten_cons, List.length_append, readScd_length, ih,
      List.length_cons]
    omega

theorem writeStacked_length (w : WriteMem) : w.stackedBytes.length = 12 + w.data.length := by
  simp [WriteMem.stackedBytes]; omega

/-! ### stacked entry decoders on serialized entries -/

theorem readEntriesAt_flat (pre post : Bytes) (es : List ReadMem) (off : Nat)
    (hoff : pre.length = off)
    (ht : ∀ e ∈ es, e.address < 2 ^ 64 ∧ e.readLength < 2 ^ 16) :
    readEntriesAt (pre ++ ((es.map ReadMem.scdBytes).flatten ++ post)) off es.length =
      some (es.map fun e => (e.address, e.readLength)) := by
  induction es generalizing pre off with
  | nil => simp [readEntriesAt]
  | cons e es ih =>
    subst hoff
    obtain ⟨ha, hl⟩ := ht e (List.mem_cons_self ..)
    have ih' := ih (pre ++ e.scdBytes) (pre.length + 12) (by simp [readScd_length])
      (fun x hx => ht x (List.mem_cons_of_mem _ hx))
    simp only [List.append_assoc] at ih'
    simp only [List.map_cons, List.flatten_cons, List.length_cons, readEntriesAt,
      List.append_assoc, ih']
    have h8 : uintAt (pre ++ (e.scdBytes ++ ((es.map ReadMem.scdBytes).flatten ++ post)))
        (pre.length + 8) 2 = 0 := by
      simp [ReadMem.scdBytes, uintAt_skip, uintAt_here]
    have h0 : uintAt (pre ++ (e.scdBytes ++ ((es.map ReadMem.scdBytes).flatten ++ post)))
        pre.length 8 = e.address := by
      simp [ReadMem.scdBytes, uintAt_skip, uintAt_here]
      exact ha
    have h10 : uintAt (pre ++ (e.scdBytes ++ ((es.map ReadMem.scdBytes).flatten ++ post)))
        (pre.length + 10) 2 = e.readLength := by
      simp [ReadMem.scdBytes, uintAt_skip, uintAt_here]
      exact hl
    simp [h8, h0, h10]

theorem writeEntriesAt_flat (pre : Bytes) (ws : List WriteMem) (off fuel : Nat)
    (hoff : pre.length = off) (hfuel : ws.length ≤ fuel)
    (ht : ∀ w ∈ ws, w.address < 2 ^ 64 ∧ w.dataLen = w.data.length ∧ w.data.length < 2 ^ 16) :
    writeEntriesAt (pre ++ (ws.map WriteMem.stackedBytes).flatten)
        (pre ++ (ws.map WriteMem.stackedBytes).flatten).length fuel off =
      some (ws.map fun w => (w.address, w.data)) := by
  induction ws generalizing pre off fuel with
  | nil =>
    subst hoff
    cases fuel <;> simp [writeEntriesAt]
  | cons w ws ih =>
    subst hoff
    obtain ⟨ha, hdl, hl⟩ := ht w (List.mem_cons_self ..)
    cases fuel with
    | zero => simp at hfuel
    | succ fuel =>
      have ih' := ih (pre ++ w.stackedBytes) (pre.length + (12 + w.data.length)) fuel
        (by simp [writeStacked_length]) (by simpa using hfuel)
        (fun x hx => ht x (List.mem_cons_of_mem _ hx))
      simp only [List.append_assoc] at ih'
      have h8 : uintAt (pre ++ (w.stackedBytes ++ (ws.map WriteMem.stackedBytes).flatten))
          (pre.length + 8) 2 = 0 := by
        simp [WriteMem.stackedBytes, uintAt_skip, uintAt_here]
      have h0 : uintAt (pre ++ (w.stackedBytes ++ (ws.map WriteMem.stackedBytes).flatten))
          pre.length 8 = w.address := by
        simp [WriteMem.stackedBytes, uintAt_skip, uintAt_here]
        exact ha
      have h10 : uintAt (pre ++ (w.stackedBytes ++ (ws.map WriteMem.stackedBytes).flatten))
          (pre.length + 10) 2 = w.data.length := by
        simp [WriteMem.stackedBytes, uintAt_skip, uintAt_here, hdl]
        exact hl
      have hd : slice (pre ++ (w.stackedBytes ++ (ws.map WriteMem.stackedBytes).flatten))
          (pre.length + 12) w.data.length = w.data := by
        rw [slice_skip _ _ _ _ (by omega)]
        simp only [WriteMem.stackedBytes, List.append_assoc]
        rw [slice_skip _ _ _ _ (by simp), slice_skip _ _ _ _ (by simp),
          slice_skip _ _ _ _ (by simp)]
        simp only [toLE_length]
        have : pre.length + 12 - pre.length - 8 - 2 - 2 = 0 := by omega
        rw [this, slice_here _ _ _ rfl]
      have hlen : (pre ++ (w.stackedBytes ++ (ws.map WriteMem.stackedBytes).flatten)).length =
          pre.length + (12 + w.data.length) + (ws.map WriteMem.stackedBytes).flatten.length := by
        simp only [List.length_append, writeStacked_length]; omega
      simp only [List.map_cons, List.flatten_cons, writeEntriesAt, h8, h10, h0, hd]
      rw [if_neg (by rw [hlen]; omega), if_neg (by rw [hlen]; omega)]
      simp only [ne_eq, not_true_eq_false, if_false]
      rw [if_neg (by rw [hlen]; omega)]
      have e1 : pre.length + 12 + w.data.length = pre.length + (12 + w.data.length) := by omega
      rw [e1, ih']

/-! ### the fixed-size sink (`impl Write for &mut [u8]`) -/

theorem sink_write_take (cap : Nat) (X bs : Bytes) :
    (Sink.mk cap (X.take cap)).write bs = ⟨cap, (X ++ bs).take cap⟩ := by
  simp only [Sink.write, Sink.mk.injEq, true_and]
  by_cases h : cap ≤ X.length
  · rw [List.length_take, Nat.min_eq_left h, Nat.sub_self, List.take_zero, List.append_nil,
      List.take_append_of_le_length h]
  · have h' : X.length ≤ cap := by omega
    rw [List.take_of_length_le h', List.take_append]
    rw [List.take_of_length_le h']

theorem sink_writeAll_take (cap : Nat) (X bs : Bytes) :
    (Sink.mk cap (X.take cap)).writeAll bs =
      if (X ++ bs).length ≤ cap ∨ bs = [] then .ok ⟨cap, (X ++ bs).take cap⟩
      else .err .bufferIo := by
  simp only [Sink.writeAll, sink_write_take, List.length_take, List.length_append]
  by_cases h : bs.length ≤ cap - min cap X.length
  · rw [if_pos h, if_pos]
    by_cases hb : bs = []
    · exact Or.inr hb
    · left
      have : 0 < bs.length := List.length_pos_iff.mpr hb
      omega
  · rw [if_neg h, if_neg]
    intro h2
    rcases h2 with h2 | h2
    · omega
    · subst h2; simp at h

/-- Invariant of `writeStackedEntries` on a sink that so far holds `X.take cap`. -/
theorem writeStackedEntries_take (cap : Nat) (ws : List WriteMem) (X : Bytes) :
    writeStackedEntries ws ⟨cap, X.take cap⟩ =
        .ok ⟨cap, (X ++ (ws.map WriteMem.stackedBytes).flatten).take cap⟩ ∨
    (writeStackedEntries ws ⟨cap, X.take cap⟩ = .err .bufferIo ∧
      cap < (X ++ (ws.map WriteMem.stackedBytes).flatten).length) := by
  induction ws generalizing X with
  | nil => left; simp [writeStackedEntries]
  | cons w ws ih =>
    simp only [writeStackedEntries, sink_write_take, sink_writeAll_take, List.map_cons,
      List.flatten_cons]
    have hassoc : X ++ toLE 8 w.address ++ toLE 2 0 ++ toLE 2 w.dataLen ++ w.data =
        X ++ w.stackedBytes := by
      simp [WriteMem.stackedBytes]
    rw [hassoc]
    by_cases h : (X ++ w.stackedBytes).length ≤ cap ∨ w.data = []
    · rw [if_pos h]
      simp only [Res.bind_ok]
      have := ih (X ++ w.stackedBytes)
      simpa only [List.append_assoc] using this
    · rw [if_neg h]
      right
      refine ⟨rfl, ?_⟩
      simp only [List.length_append] at h ⊢
      omega

theorem foldl_write_take (cap : Nat) (es : List ReadMem) (X : Bytes) :
    es.foldl (fun s e => s.write e.scdBytes) (Sink.mk cap (X.take cap)) =
      ⟨cap, (X ++ (es.map ReadMem.scdBytes).flatten).take cap⟩ := by
  induction es generalizing X with
  | nil => simp
  | cons e es ih =>
    simp only [List.foldl_cons, sink_write_take, ih, List.map_cons, List.flatten_cons,
      List.append_assoc]

/-- Invariant of the SCD serializers on a fixed-size sink. -/
theorem serializeScdSink_take (c : Cmd) (cap : Nat) (X : Bytes) :
    c.serializeScdSink ⟨cap, X.take cap⟩ = .ok ⟨cap, (X ++ c.scdBytes).take cap⟩ ∨
    (c.serializeScdSink ⟨cap, X.take cap⟩ = .err .bufferIo ∧ cap < (X ++ c.scdBytes).length) := by
  cases c with
  | readMem r => left; simp [Cmd.serializeScdSink, Cmd.scdBytes, sink_write_take]
  | writeMem w =>
    simp only [Cmd.serializeScdSink, Cmd.scdBytes, sink_write_take, sink_writeAll_take]
    by_cases h : (X ++ toLE 8 w.address ++ w.data).length ≤ cap ∨ w.data = []
    · rw [if_pos h]; left; simp
    · rw [if_neg h]; right
      refine ⟨rfl, ?_⟩
      simp only [List.length_append] at h ⊢
      omega
  | readMemStacked s =>
    left; simp [Cmd.serializeScdSink, Cmd.scdBytes, foldl_write_take]
  | writeMemStacked s =>
    simpa only [Cmd.serializeScdSink, Cmd.scdBytes] using writeStackedEntries_take cap s.entries X

/-- Header part of `serializeSink`: after the five header writes the sink holds
`(hdr c id).take cap`. -/
theorem serializeSink_eq (c : Cmd) (id cap : Nat) :
    c.serializeSink id cap =
      (c.serializeScdSink ⟨cap, (hdr c id).take cap⟩ >>= fun s => pure s.out) := by
  have h0 : (Sink.mk cap []) = Sink.mk cap (([] : Bytes).take cap) := by simp
  simp only [Cmd.serializeSink]
  rw [h0]
  simp only [sink_write_take, List.nil_append, hdr]

end CamVerif.C09
