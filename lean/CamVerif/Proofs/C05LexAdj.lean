/-
Helper lemmas for C05 (character level, third part): tokens written with no white space between
them.  Every `lexOne` lemma of C05Lex / C05LexHex is re-proved for an arbitrary continuation that
cannot extend the token (`Stop`), and the composition lemma for pieces with possibly empty gaps.
-/
import CamVerif.Proofs.C05LexFloat
set_option linter.unusedSectionVars false
set_option linter.unusedSimpArgs false
set_option linter.unusedVariables false
namespace CamVerif.Formula.Proofs
open CamVerif CamVerif.Formula CamVerif.Formula.Spec

variable {F : Type} [FloatOps F]

/-- the continuation does not start with `a`, `l`, `g` (so a raw `&` before it is not an escape) -/
def RawOK (rest : List Char) : Prop := ∀ c r, rest = c :: r → c ≠ 'a' ∧ c ≠ 'l' ∧ c ≠ 'g'

theorem nextChar_amp_raw (rest : List Char) (h : RawOK rest) : nextChar ('&' :: rest) = some ('&', rest) := by
  cases rest with
  | nil => rfl
  | cons c r =>
    obtain ⟨h1, h2, h3⟩ := h c r rfl
    exact nextChar_amp c r h1 h2 h3

/-! ### operators -/

theorem lexOne_sym_gen (s : Sym) (f : Nat → Bool) (rest : List Char) (hstop : Stop (symExt s) rest)
    (hraw : Lit.endsRawAmp (F := F) (.canon (.sym s) f) = true → RawOK rest) :
    (lexOne (escape f 0 (symChars s) ++ rest) : Option (Tok F × List Char)) = some (.sym s, rest) ∧
      ∃ r, nextChar (escape f 0 (symChars s) ++ rest) = some ((symChars s).headD ' ', r) := by
  have hr : Lit.endsRawAmp (F := F) (.canon (.sym s) f) = true → nextChar ('&' :: rest) = some ('&', rest) :=
    fun h => nextChar_amp_raw rest (hraw h)
  have hnil : nextChar [] = none := rfl
  have hamp : nextChar ['&'] = some ('&', []) := rfl
  rcases hstop with rfl | ⟨c, r, hc, hext⟩
  · cases s <;> cases h0 : f 0 <;> cases h1 : f 1 <;>
      simp [symChars, escape, escChar, h0, h1, lexOne, eatChar, nextChar_plain, nextChar_amp,
        nextChar_escAmp, nextChar_escLt, nextChar_escGt, hnil, hamp]
  · cases s <;> cases h0 : f 0 <;> cases h1 : f 1 <;>
      (try simp [Lit.endsRawAmp, h0, h1] at hr) <;>
      (try simp [symExt] at hext) <;>
      simp [symChars, escape, escChar, h0, h1, lexOne, eatChar, nextChar_plain, nextChar_amp,
        nextChar_escAmp, nextChar_escLt, nextChar_escGt, *] <;>
      done

/-! ### identifiers -/

theorem lexOne_ident_gen (c : Char) (cs : List Char) (rest : List Char)
    (hc : isAlpha c = true) (hcs : cs.all isIdentCont = true) (hstop : Stop isIdentCont rest) :
    (lexOne (c :: cs ++ rest) : Option (Tok F × List Char)) =
      some (.ident (String.ofList (c :: cs)), rest) ∧
      ∃ r, nextChar (c :: cs ++ rest) = some (c, r) := by
  have ne : ∀ x, isAlpha x = false → c ≠ x := fun x hx => ne_of_pred isAlpha c x hc hx
  have hn : nextChar (c :: (cs ++ rest)) = some (c, cs ++ rest) :=
    nextChar_plain c _ (ne '&' (by decide))
  have hew : ∀ n, cs.length ≤ n → eatWhile isIdentCont n (cs ++ rest) = (cs, rest) := by
    intro n hn
    apply eatWhile_pre
    · exact hn
    · intro x hx
      have h1 : isIdentCont x = true := by simpa using (List.all_eq_true.mp hcs) x hx
      exact ⟨h1, ne_of_pred isIdentCont x '&' h1 (by decide)⟩
    · exact hstop
  refine ⟨?_, _, hn⟩
  simp only [List.cons_append, lexOne, hn]
  simp [ne '(' (by decide), ne ')' (by decide), ne '+' (by decide), ne '-' (by decide), ne '*' (by decide),
    ne '/' (by decide), ne '%' (by decide), ne '&' (by decide), ne '|' (by decide), ne '^' (by decide),
    ne '~' (by decide), ne '=' (by decide), ne ':' (by decide), ne '?' (by decide), ne '<' (by decide),
    ne '>' (by decide), ne '.' (by decide), hc, hew _ (show cs.length ≤ cs.length + rest.length + 1 by omega)]

/-! ### decimal integers -/

theorem lexOne_int_gen (d : Char) (ds : List Char) (rest : List Char)
    (hd : isDigit d = true) (hds : ds.all isDigit = true) (hstop : Stop intExt rest)
    (hle : digitsToNat (d :: ds) ≤ I64_MAX) :
    (lexOne (d :: ds ++ rest) : Option (Tok F × List Char)) =
      some (.int (BitVec.ofNat 64 (digitsToNat (d :: ds))), rest) ∧
      ∃ r, nextChar (d :: ds ++ rest) = some (d, r) := by
  have ne : ∀ x, isDigit x = false → d ≠ x := fun x hx => ne_of_pred isDigit d x hd hx
  have hn : nextChar (d :: (ds ++ rest)) = some (d, ds ++ rest) :=
    nextChar_plain d _ (ne '&' (by decide))
  have hall : ∀ x ∈ ds, isDigit x = true := fun x hx => by simpa using (List.all_eq_true.mp hds) x hx
  have hst : ∀ (q : Char → Bool), (∀ c, intExt c = false → q c = false) → Stop q rest := by
    intro q hq
    rcases hstop with h | ⟨c, r, h1, h2⟩
    · exact Or.inl h
    · exact Or.inr ⟨c, r, h1, hq c h2⟩
  have hew : ∀ n, ds.length ≤ n → eatWhile isNumCont n (ds ++ rest) = (ds, rest) := by
    intro n hn
    apply eatWhile_pre
    · exact hn
    · intro x hx
      exact ⟨digit_numCont x (hall x hx), ne_of_pred isDigit x '&' (hall x hx) (by decide)⟩
    · exact hst isNumCont (fun c hc => by simp [intExt] at hc; exact hc.1.1.1.1)
  -- the character after the first digit is a digit, or does not extend: neither `x` nor `X`
  have hx : ∀ y, (y = 'x' ∨ y = 'X') → eatChar y (ds ++ rest) = none := by
    intro y hy
    apply eatChar_none_of_stop
    cases ds with
    | nil =>
      rcases hst (fun c => c = y) (fun c hc => by
        simp [intExt] at hc; rcases hy with rfl | rfl <;> simp [hc]) with h | ⟨c, r, h1, h2⟩
      · exact Or.inl h
      · exact Or.inr ⟨c, r, h1, by simpa using h2⟩
    | cons z zs =>
      have hz := hall z (by simp)
      refine Or.inr ⟨z, _, nextChar_plain z _ (ne_of_pred isDigit z '&' hz (by decide)), ?_⟩
      rcases hy with rfl | rfl
      · exact ne_of_pred isDigit z 'x' hz (by decide)
      · exact ne_of_pred isDigit z 'X' hz (by decide)
  have hexp : ∀ n, eatExponent n rest = none := by
    intro n
    rcases hstop with rfl | ⟨c, r, h1, h2⟩
    · rfl
    · simp [intExt] at h2
      simp [eatExponent, h1, h2]
  refine ⟨?_, _, hn⟩
  simp only [List.cons_append, lexOne, hn]
  simp [ne '(' (by decide), ne ')' (by decide), ne '+' (by decide), ne '-' (by decide), ne '*' (by decide),
    ne '/' (by decide), ne '%' (by decide), ne '&' (by decide), ne '|' (by decide), ne '^' (by decide),
    ne '~' (by decide), ne '=' (by decide), ne ':' (by decide), ne '?' (by decide), ne '<' (by decide),
    ne '>' (by decide), ne '.' (by decide), digit_not_alpha d hd, hd, hx 'x' (Or.inl rfl), hx 'X' (Or.inr rfl),
    hew _ (show ds.length ≤ ds.length + rest.length + 1 by omega), hexp, hall, intTok, hle]
  intro x hx hfalse
  rw [hall x hx] at hfalse
  cases hfalse

/-! ### hexadecimal literals -/

theorem lexOne_hex_gen (bigX : Bool) (hs : List Char) (rest : List Char)
    (hne : hs ≠ []) (hall : hs.all isHexDigit = true) (hstop : Stop isHexDigit rest) :
    (lexOne ('0' :: (if bigX then 'X' else 'x') :: hs ++ rest) : Option (Tok F × List Char)) =
      some (hexTok false (hexToNat hs), rest) ∧
      ∃ r, nextChar ('0' :: (if bigX then 'X' else 'x') :: hs ++ rest) = some ('0', r) := by
  have hew : ∀ n, hs.length ≤ n → eatWhile isHexDigit n (hs ++ rest) = (hs, rest) := by
    intro n hn
    apply eatWhile_pre
    · exact hn
    · intro x hx
      have h1 : isHexDigit x = true := by simpa using (List.all_eq_true.mp hall) x hx
      exact ⟨h1, ne_of_pred isHexDigit x '&' h1 (by decide)⟩
    · exact hstop
  have hem : hs.isEmpty = false := by cases hs <;> simp_all
  have hn0 : ∀ r, nextChar ('0' :: r) = some ('0', r) := fun r => nextChar_plain '0' r (by decide)
  have hnx : ∀ r, nextChar ('x' :: r) = some ('x', r) := fun r => nextChar_plain 'x' r (by decide)
  have hnX : ∀ r, nextChar ('X' :: r) = some ('X', r) := fun r => nextChar_plain 'X' r (by decide)
  have hd0 : isDigit '0' = true := by decide
  have ha0 : isAlpha '0' = false := by decide
  refine ⟨?_, _, hn0 _⟩
  cases bigX
  · simp only [Bool.false_eq_true, if_false, List.cons_append, lexOne, hn0, eatChar, hnx]
    simp [hd0, ha0, hem, hew _ (show hs.length ≤ hs.length + rest.length + 1 + 1 by omega)]
  · simp only [if_true, List.cons_append, lexOne, hn0, eatChar, hnX]
    simp [hd0, ha0, hem, hew _ (show hs.length ≤ hs.length + rest.length + 1 + 1 by omega)]

/-! ### one literal -/

theorem space_not_ext (l : Lit F) (hok : l.Ok) (sp : Char) (hs : isSpace sp = true) : l.ext sp = false := by
  cases l with
  | canon t f =>
    cases t with
    | sym s => exact of_space (symExt s) (by cases s <;> decide) sp hs
    | ident s => exact space_not_identCont sp hs
    | int i => exact of_space intExt (by decide) sp hs
    | float x => exact absurd hok (by simp [Lit.Ok, Spellable])
    | bad => exact absurd hok (by simp [Lit.Ok, Spellable])
    | nofuel => exact absurd hok (by simp [Lit.Ok, Spellable])
  | hex X z up v => exact space_not_hexDigit sp hs
  | float t =>
    have hd := space_not_digit sp hs
    have hn := space_not_numCont sp hs
    have h1 := ne_of_pred isSpace sp 'e' hs (by decide)
    have h2 := ne_of_pred isSpace sp 'E' hs (by decide)
    cases he : t.exp <;> simp [Lit.ext, FloatText.ext, he, hd, hn, h1, h2]

theorem lit_chars_head (l : Lit F) (hok : l.Ok) :
    ∃ h tl, l.chars = h :: tl ∧ (l.startsALG = false → h ≠ 'a' ∧ h ≠ 'l' ∧ h ≠ 'g') := by
  cases l with
  | canon t f =>
    cases t with
    | sym s =>
      cases s <;> cases h0 : f 0 <;>
        simp [Lit.chars, tokChars, escape, escChar, symChars, h0]
    | ident s =>
      obtain ⟨c, cs, h1, h2, h3⟩ := hok
      refine ⟨c, cs, by simp [Lit.chars, tokChars, h1], ?_⟩
      simp [Lit.startsALG, h1]
      exact fun a b c => ⟨a, b, c⟩
    | int i =>
      obtain ⟨d, ds, h1, h2, h3, h4⟩ := decDigits_ok i.toNat
      refine ⟨d, ds, by simp [Lit.chars, tokChars, h1], fun _ => ?_⟩
      exact ⟨ne_of_pred isDigit d 'a' h2 (by decide), ne_of_pred isDigit d 'l' h2 (by decide),
        ne_of_pred isDigit d 'g' h2 (by decide)⟩
    | float x => exact absurd hok (by simp [Lit.Ok, Spellable])
    | bad => exact absurd hok (by simp [Lit.Ok, Spellable])
    | nofuel => exact absurd hok (by simp [Lit.Ok, Spellable])
  | hex X z up v =>
    exact ⟨'0', _, rfl, fun _ => by decide⟩
  | float t =>
    obtain ⟨h1, h2, h3, h4, h5, h6⟩ := hok
    cases hip : t.ip with
    | cons d ds =>
      have hd : isDigit d = true := all_mem h1 d (by simp [hip])
      refine ⟨d, ds ++ ((if t.dot then '.' :: t.fp else []) ++ (match t.exp with | none => [] | some x => x.chars)),
        by simp [Lit.chars, FloatText.chars, hip]; cases t.exp <;> rfl, fun _ => ?_⟩
      exact ⟨ne_of_pred isDigit d 'a' hd (by decide), ne_of_pred isDigit d 'l' hd (by decide),
        ne_of_pred isDigit d 'g' hd (by decide)⟩
    | nil =>
      have hfp : t.fp ≠ [] := by rcases h4 with h | h; exact absurd hip h; exact h
      have hdot : t.dot = true := by
        cases hd : t.dot with
        | true => rfl
        | false => exact absurd (h3 hd) hfp
      exact ⟨'.', t.fp ++ (match t.exp with | none => [] | some x => x.chars),
        by simp [Lit.chars, FloatText.chars, hip, hdot]; cases t.exp <;> rfl, fun _ => by decide⟩

theorem head_not_space (l : Lit F) (hok : l.Ok) : isSpace l.head = false := by
  cases l with
  | canon t f =>
    cases t with
    | sym s => cases s <;> rfl
    | ident s =>
      obtain ⟨c, cs, h1, h2, h3⟩ := hok
      simp only [Lit.head, h1, List.headD_cons]
      exact alpha_not_space c h2
    | int i =>
      obtain ⟨d, ds, h1, h2, h3, h4⟩ := decDigits_ok i.toNat
      simp only [Lit.head, h1, List.headD_cons]
      exact digit_not_space d h2
    | float x => exact absurd hok (by simp [Lit.Ok, Spellable])
    | bad => exact absurd hok (by simp [Lit.Ok, Spellable])
    | nofuel => exact absurd hok (by simp [Lit.Ok, Spellable])
  | hex X z up v => rfl
  | float t =>
    cases hip : t.ip with
    | cons d ds =>
      have hd : isDigit d = true := all_mem hok.1 d (by simp [hip])
      simp only [Lit.head, FloatText.head, hip, List.headD_cons]
      exact digit_not_space d hd
    | nil => simp only [Lit.head, FloatText.head, hip]; rfl

theorem lit_tok_ne_bad (l : Lit F) (hok : l.Ok) : l.tok ≠ .bad ∧ l.tok ≠ .nofuel := by
  cases l with
  | canon t f => cases t <;> simp_all [Lit.Ok, Spellable, Lit.tok]
  | hex X z up v => simp [Lit.tok]
  | float t => simp [Lit.tok, FloatText.tok]

theorem lit_chars_ascii (l : Lit F) (hok : l.Ok) : ∀ c ∈ l.chars, c.toNat < 128 := by
  cases l with
  | canon t f => exact tok_ascii t f hok
  | hex X z up v => exact hexChars_ascii X z up v.toNat
  | float t => exact floatChars_ascii t hok

theorem lexOne_lit_gen (l : Lit F) (hok : l.Ok) (rest : List Char) (hstop : Stop l.ext rest)
    (hraw : l.endsRawAmp = true → RawOK rest) :
    (lexOne (l.chars ++ rest) : Option (Tok F × List Char)) = some (l.tok, rest) ∧
      ∃ r, nextChar (l.chars ++ rest) = some (l.head, r) := by
  cases l with
  | canon t f =>
    cases t with
    | sym s => exact lexOne_sym_gen s f rest hstop hraw
    | ident s =>
      obtain ⟨c, cs, h1, h2, h3⟩ := hok
      have := lexOne_ident_gen (F := F) c cs rest h2 h3 hstop
      simp only [Lit.chars, Lit.tok, Lit.head, tokChars, h1, List.headD_cons]
      rw [← h1, String.ofList_toList] at this
      rw [h1] at this
      exact this
    | int i =>
      obtain ⟨d, ds, h1, h2, h3, h4⟩ := decDigits_ok i.toNat
      have hle : digitsToNat (d :: ds) ≤ I64_MAX := by rw [h4]; exact hok
      have := lexOne_int_gen (F := F) d ds rest h2 h3 hstop hle
      simp only [Lit.chars, Lit.tok, Lit.head, tokChars, h1, List.headD_cons]
      rw [h4] at this
      simpa using this
    | float x => exact absurd hok (by simp [Lit.Ok, Spellable])
    | bad => exact absurd hok (by simp [Lit.Ok, Spellable])
    | nofuel => exact absurd hok (by simp [Lit.Ok, Spellable])
  | hex X z up v =>
    obtain ⟨h1, h2, h3⟩ := hexDigits_ok up v.toNat
    have hall : (List.replicate z '0' ++ hexDigits up v.toNat).all isHexDigit = true := by
      rw [List.all_eq_true]
      intro c hc
      rcases List.mem_append.mp hc with hc | hc
      · rw [(List.mem_replicate.mp hc).2]; decide
      · exact h2 c hc
    have hne : List.replicate z '0' ++ hexDigits up v.toNat ≠ [] := by
      intro h; exact h3 (List.append_eq_nil_iff.mp h).2
    have := lexOne_hex_gen (F := F) X _ rest hne hall hstop
    rw [hexToNat_leading_zeros, h1] at this
    have hv : (hexTok false v.toNat : Tok F) = .int v := by
      simp [hexTok, v.isLt]
    rw [hv] at this
    simpa [Lit.chars, Lit.tok, Lit.head, hexChars] using this
  | float t => exact lexOne_float_gen t hok rest hstop

/-! ### all pieces -/

def lbody (ps : List (LitPiece F)) : List Char := ps.flatMap (fun p => p.lit.chars ++ p.gap)

def PieceOk (p : LitPiece F) : Prop := p.lit.Ok ∧ p.gap.all isSpace = true

theorem chainOk_tail (p : LitPiece F) (ps : List (LitPiece F)) (h : chainOk (p :: ps) = true) :
    chainOk ps = true := by
  cases ps with
  | nil => rfl
  | cons q qs => simp [chainOk] at h; exact h.2

theorem conds (ps : List (LitPiece F)) : ∀ (p : LitPiece F), (∀ q ∈ p :: ps, PieceOk q) →
    chainOk (p :: ps) = true →
    Stop p.lit.ext (p.gap ++ lbody ps) ∧ (p.lit.endsRawAmp = true → RawOK (p.gap ++ lbody ps)) := by
  induction ps with
  | nil =>
    intro p hok _
    obtain ⟨hl, hg⟩ := hok p (by simp)
    cases hgp : p.gap with
    | nil => exact ⟨Or.inl (by simp [lbody]), fun _ c r h => by simp [lbody] at h⟩
    | cons sp g =>
      rw [hgp] at hg
      have hs : isSpace sp = true := by simpa using (List.all_eq_true.mp hg) sp (by simp)
      refine ⟨Or.inr ⟨sp, _, nextChar_plain sp _ (ne_of_pred isSpace sp '&' hs (by decide)),
        space_not_ext p.lit hl sp hs⟩, fun _ c r h => ?_⟩
      simp only [List.cons_append, List.cons.injEq] at h
      rw [← h.1]
      exact ⟨ne_of_pred isSpace sp 'a' hs (by decide), ne_of_pred isSpace sp 'l' hs (by decide),
        ne_of_pred isSpace sp 'g' hs (by decide)⟩
  | cons q qs ih =>
    intro p hok hch
    obtain ⟨hl, hg⟩ := hok p (by simp)
    cases hgp : p.gap with
    | cons sp g =>
      rw [hgp] at hg
      have hs : isSpace sp = true := by simpa using (List.all_eq_true.mp hg) sp (by simp)
      refine ⟨Or.inr ⟨sp, _, nextChar_plain sp _ (ne_of_pred isSpace sp '&' hs (by decide)),
        space_not_ext p.lit hl sp hs⟩, fun _ c r h => ?_⟩
      simp only [List.cons_append, List.cons.injEq] at h
      rw [← h.1]
      exact ⟨ne_of_pred isSpace sp 'a' hs (by decide), ne_of_pred isSpace sp 'l' hs (by decide),
        ne_of_pred isSpace sp 'g' hs (by decide)⟩
    | nil =>
      have hokq : ∀ x ∈ q :: qs, PieceOk x := fun x hx => hok x (by simp [hx])
      have hlq := (hokq q (by simp)).1
      obtain ⟨hsq, hrq⟩ := ih q hokq (chainOk_tail p _ hch)
      obtain ⟨_, r, hhead⟩ := lexOne_lit_gen q.lit hlq _ hsq hrq
      have hsep : separable p.lit q.lit = true := by
        simp [chainOk, hgp] at hch; exact hch.1
      simp only [separable, Bool.and_eq_true, Bool.not_eq_true', Bool.and_eq_false_iff] at hsep
      have hb : [] ++ lbody (q :: qs) = q.lit.chars ++ (q.gap ++ lbody qs) := by simp [lbody]
      rw [hb]
      refine ⟨Or.inr ⟨q.lit.head, r, hhead, hsep.1⟩, fun hamp c r' h => ?_⟩
      have hst : q.lit.startsALG = false := by
        rcases hsep.2 with h | h
        · rw [hamp] at h; cases h
        · exact h
      obtain ⟨hd, tl, hc1, hc2⟩ := lit_chars_head q.lit hlq
      rw [hc1] at h
      simp only [List.cons_append, List.cons.injEq] at h
      rw [← h.1]
      exact hc2 hst

theorem lexAux_step (t : Tok F) (r : List Char) (fuel : Nat) (h1 : t ≠ .bad) :
    (match (some (t, r) : Option (Tok F × List Char)) with
      | none => []
      | some (.bad, _) => [.bad]
      | some (t, r) => t :: lexAux fuel r) = t :: lexAux fuel r := by
  cases t <;> simp_all

theorem lexAux_lits (ps : List (LitPiece F)) :
    (∀ p ∈ ps, PieceOk p) → chainOk ps = true →
    ∀ (g0 : List Char) (fuel : Nat), g0.all isSpace = true → ps.length < fuel →
      (lexAux fuel (g0 ++ lbody ps) : List (Tok F)) = ps.map (·.lit.tok) := by
  induction ps with
  | nil =>
    intro _ _ g0 fuel hg hf
    cases fuel with
    | zero => omega
    | succ f =>
      have : skipSpace (g0 ++ lbody ([] : List (LitPiece F))) = [] := skipSpace_gap g0 [] hg (Or.inl rfl)
      simp [lexAux, this, lexOne, nextChar]
  | cons p ps ih =>
    intro hok hch g0 fuel hg hf
    cases fuel with
    | zero => omega
    | succ f =>
      obtain ⟨hl, hgs⟩ := hok p (by simp)
      obtain ⟨hstop, hraw⟩ := conds ps p hok hch
      obtain ⟨h1, r, h2⟩ := lexOne_lit_gen p.lit hl _ hstop hraw
      have hb : lbody (p :: ps) = p.lit.chars ++ (p.gap ++ lbody ps) := by simp [lbody]
      have hk : skipSpace (g0 ++ lbody (p :: ps)) = p.lit.chars ++ (p.gap ++ lbody ps) := by
        rw [hb]; exact skipSpace_gap g0 _ hg (Or.inr ⟨_, r, h2, head_not_space p.lit hl⟩)
      have hrec := ih (fun q hq => hok q (by simp [hq])) (chainOk_tail p ps hch) p.gap f hgs
        (by simpa using hf)
      unfold lexAux
      rw [hk, h1]
      have hnb := lit_tok_ne_bad p.lit hl
      cases htok : p.lit.tok with
      | sym s => simp [hrec, htok]
      | ident s => simp [hrec, htok]
      | int i => simp [hrec, htok]
      | float x => simp [hrec, htok]
      | bad => exact absurd htok hnb.1
      | nofuel => exact absurd htok hnb.2

theorem lbody_length (ps : List (LitPiece F)) (h : ∀ p ∈ ps, PieceOk p) :
    ps.length ≤ (lbody ps).length := by
  induction ps with
  | nil => simp [lbody]
  | cons p ps ih =>
    obtain ⟨hd, tl, hc, _⟩ := lit_chars_head p.lit (h p (by simp)).1
    have := ih (fun q hq => h q (by simp [hq]))
    simp only [lbody, List.flatMap_cons, List.length_append, List.length_cons, hc] at this ⊢
    omega

/-- the lexer on pieces with possibly empty gaps -/
theorem lex_gapfree_aux (lead : List Char) (ps : List (LitPiece F)) (hl : lead.all isSpace = true)
    (h : ∀ p ∈ ps, PieceOk p) (hch : chainOk ps = true) :
    (lex (printLits lead ps) : List (Tok F)) = ps.map (·.lit.tok) := by
  have hb := lbody_length ps h
  unfold lex
  have : printLits lead ps = lead ++ lbody ps := rfl
  rw [this]
  exact lexAux_lits ps h hch lead _ hl (by simp only [List.length_append]; omega)

theorem parseChars_gapfree (lead : List Char) (ps : List (LitPiece F)) (hl : lead.all isSpace = true)
    (h : ∀ p ∈ ps, PieceOk p) (hch : chainOk ps = true) :
    (parseChars (printLits lead ps) : R (Expr F)) = parseToks (ps.map (·.lit.tok)) := by
  have hascii : (printLits lead ps).any (fun c => decide (c.toNat ≥ 128)) = false := by
    rw [List.any_eq_false]
    intro c hc
    have : printLits lead ps = lead ++ lbody ps := rfl
    rw [this, List.mem_append] at hc
    have : c.toNat < 128 := by
      rcases hc with hc | hc
      · exact space_ascii lead hl c hc
      · simp only [lbody, List.mem_flatMap, List.mem_append] at hc
        obtain ⟨p, hp, hc | hc⟩ := hc
        · exact lit_chars_ascii p.lit (h p hp).1 c hc
        · exact space_ascii p.gap (h p hp).2 c hc
    simp; omega
  unfold parseChars
  simp only [hascii, Bool.false_eq_true, if_false, lex_gapfree_aux lead ps hl h hch]
  split
  · next hc =>
    exfalso
    obtain ⟨t, ht, hm⟩ := List.any_eq_true.mp hc
    obtain ⟨p, hp, rfl⟩ := List.mem_map.mp ht
    have := (lit_tok_ne_bad p.lit (h p hp).1).2
    cases hpt : p.lit.tok <;> simp_all
  · rfl

/-! ### non-empty gaps everywhere: the chain condition is vacuous -/

theorem chainOk_of_gaps (ps : List (LitPiece F)) (h : ∀ p ∈ ps, p.gap ≠ []) : chainOk ps = true := by
  induction ps with
  | nil => rfl
  | cons p ps ih =>
    cases ps with
    | nil => rfl
    | cons q qs =>
      have hp : p.gap.isEmpty = false := by
        have := h p (by simp)
        cases hg : p.gap <;> simp_all
      simp [chainOk, hp]
      exact ih (fun x hx => h x (by simp [hx]))

theorem lex_printLits_aux (lead : List Char) (ps : List (LitPiece F)) (hl : lead.all isSpace = true)
    (h : ∀ p ∈ ps, p.lit.Ok ∧ GoodGap p.gap) :
    (lex (printLits lead ps) : List (Tok F)) = ps.map (·.lit.tok) :=
  lex_gapfree_aux lead ps hl (fun p hp => ⟨(h p hp).1, (h p hp).2.2⟩)
    (chainOk_of_gaps ps (fun p hp => (h p hp).2.1))

theorem parseChars_printLits (lead : List Char) (ps : List (LitPiece F)) (hl : lead.all isSpace = true)
    (h : ∀ p ∈ ps, p.lit.Ok ∧ GoodGap p.gap) :
    (parseChars (printLits lead ps) : R (Expr F)) = parseToks (ps.map (·.lit.tok)) :=
  parseChars_gapfree lead ps hl (fun p hp => ⟨(h p hp).1, (h p hp).2.2⟩)
    (chainOk_of_gaps ps (fun p hp => (h p hp).2.1))

end CamVerif.Formula.Proofs
