/-
C12 helper lemmas: progress of the loop (`loop_never_blocks`) and the variant behind `stop_bounded`.
-/
import CamVerif.Proofs.C12
namespace CamVerif.StreamLoop

/-! ### The loop always has an enabled step of its own -/

theorem loop_step_exists {P : Params} (A : Assembler) (script : List Item) {s : State}
    (hp : PoolOK P s) (h1 : s.pc ≠ .exited) (h2 : s.pc ≠ .dead) :
    ∃ a, a.isLoop = true ∧ (step P A script s a).isSome = true := by
  cases hpc : s.pc with
  | top =>
    refine ⟨.checkCancel, rfl, ?_⟩
    simp only [step, stepCheckCancel, hpc, if_true]
    split <;> rfl
  | obtain =>
    cases hr : s.reuse with
    | some b => exact ⟨.obtainReuse, rfl, by simp [step, stepObtainReuse, hpc, hr]⟩
    | none =>
      cases hb : s.back with
      | nil => exact ⟨.obtainAlloc, rfl, by simp [step, stepObtainAlloc, hpc, hr, hb]⟩
      | cons m rest => exact ⟨.obtainBack, rfl, by simp [step, stepObtainBack, hpc, hr, hb]⟩
  | submit k =>
    simp only [PoolOK, hpc] at hp
    have hk : k < P.layout.length := hp.1
    refine ⟨.submitOk, rfl, ?_⟩
    simp only [step, stepSubmitOk, hpc, List.getElem?_eq_getElem hk]
    split <;> rfl
  | poll =>
    simp only [PoolOK, hpc] at hp
    have hne : s.pending ≠ [] := by
      rcases hp.2 with ⟨_, _, h⟩ | ⟨_, pre, suf, _, h, _⟩
      · intro h0; rw [h0, layout_eq] at h; simp [slotsOf] at h
      · intro h0; rw [h0] at h; simp [slotsOf] at h
    refine ⟨.pollPending, rfl, ?_⟩
    cases hpd : s.pending with
    | nil => exact absurd hpd hne
    | cons x r => simp [step, stepPollPending, hpc, hpd]
  | parse =>
    refine ⟨.parse, rfl, ?_⟩
    simp only [step, stepParse, hpc, if_true]
    split
    · split
      · split
        · rfl
        · split <;> rfl
      · rfl
    · rfl
  | send m =>
    refine ⟨.trySend, rfl, ?_⟩
    simp only [step, stepTrySend, hpc]
    split <;> split <;> rfl
  | drop c =>
    simp only [PoolOK, hpc] at hp
    by_cases hc : c < s.pending.length
    · exact ⟨.cancelNext, rfl, by simp [step, stepCancelNext, hpc, hc]⟩
    · cases hpd : s.pending with
      | nil => exact ⟨.iterEnd, rfl, by simp [step, stepIterEnd, hpc, hpd]⟩
      | cons x r =>
        refine ⟨.reapOne, rfl, ?_⟩
        have : c = (x :: r).length := by rw [hpd] at hp hc; omega
        simp [step, stepReapOne, hpc, hpd, this]
  | exiting => exact ⟨.exit, rfl, by simp [step, stepExit, hpc]⟩
  | exited => exact absurd hpc h1
  | dead => exact absurd hpc h2

/-! ### Controller / loop consistency -/

structure CtlOK (s : State) : Prop where
  exit_ok : (s.pc = .exiting ∨ s.pc = .exited) → s.ctl = .stopOk ∨ s.ctl = .closed
  ok_exit : s.ctl = .stopOk → (s.pc = .exiting ∨ s.pc = .exited)
  err_dead : s.ctl = .stopErr → s.pc = .dead
  closed_exit : s.ctl = .closed → s.pc = .exited

theorem CtlOK_init (P : Params) : CtlOK (init P) := by
  constructor <;> simp [init]

theorem CtlOK_step {P : Params} {A : Assembler} {script : List Item} {s s' : State} {a : Step}
    (h : CtlOK s) (hs : step P A script s a = some s') : CtlOK s' := by
  obtain ⟨h1, h2, h3, h4⟩ := h
  cases a <;> simp only [step] at hs <;> step_split <;>
    (constructor <;> simp_all)

/-! ### Variant for `stop_bounded` -/

/-- Upper bound on the number of loop steps before the loop thread is gone, once the controller
is parked in `stop`. -/
def phi (P : Params) (s : State) : Nat :=
  match s.pc with
  | .exited | .dead => 0
  | .exiting => 1
  | .top => 2
  | .drop c => (s.pending.length - c) + s.pending.length * (P.maxLate + 1) + (P.maxLate - s.late) + 3
  | .send _ => s.pending.length * (P.maxLate + 2) + P.maxLate + 4
  | .parse => P.maxLate + 5
  | .poll => s.pending.length * (P.maxLate + 2) + P.maxLate + 5
  | .submit k => (P.T - k) + P.T * (P.maxLate + 2) + P.maxLate + 5
  | .obtain => P.T + P.T * (P.maxLate + 2) + P.maxLate + 6

/-- `B(params)`: linear in the number of transfers per frame (and in the cancellation latency of
the USB stack: every cancelled transfer may need up to `maxLate` extra polls to be reaped). -/
def stopBound (P : Params) : Nat := P.T + P.T * (P.maxLate + 2) + P.maxLate + 6

theorem pend_le_step {P : Params} {A : Assembler} {script : List Item} {s s' : State} {a : Step}
    (hp : PoolOK P s) (h : s.pending.length ≤ P.T) (hs : step P A script s a = some s') :
    s'.pending.length ≤ P.T := by
  cases a <;> simp only [step] at hs
  case submitOk =>
    unfold stepSubmitOk at hs
    split at hs
    · next k hpc =>
      have hl := pending_length_of_submit hp hpc
      simp only [PoolOK, hpc] at hp
      have := hp.1
      split at hs
      · split at hs <;> (injection hs with hs; subst hs) <;> simp <;> omega
      · cases hs
    · cases hs
  all_goals (step_split <;> simp_all <;> omega)

theorem phi_le_bound {P : Params} {s : State} (hp : PoolOK P s) (hl : s.pending.length ≤ P.T) :
    phi P s ≤ stopBound P := by
  have hT := T_ge_two P
  have h1 : s.pending.length * (P.maxLate + 2) ≤ P.T * (P.maxLate + 2) := Nat.mul_le_mul_right _ hl
  have h2 : s.pending.length * (P.maxLate + 1) + s.pending.length = s.pending.length * (P.maxLate + 2) := by
    rw [← Nat.mul_succ]
  unfold phi stopBound
  split <;> omega

/-- A loop step strictly decreases the variant unless it is the cancellation check of a loop that
is not being stopped. -/
theorem phi_loop_step {P : Params} {A : Assembler} {script : List Item} {s s' : State} {a : Step}
    (hp : PoolOK P s) (hc : CtlOK s) (hctl : s.ctl ≠ .running ∧ s.ctl ≠ .calling)
    (ha : a.isLoop = true) (hs : step P A script s a = some s') : phi P s' < phi P s := by
  have hT := T_ge_two P
  have hsub : ∀ k, s.pc = .submit k → s.pending.length = k ∧ k < P.T := by
    intro k hk; refine ⟨pending_length_of_submit hp hk, ?_⟩
    simp only [PoolOK, hk] at hp; exact hp.1
  obtain ⟨c1, c2, c3, c4⟩ := hc
  cases a <;> simp [Step.isLoop] at ha <;> simp only [step] at hs
  case checkCancel =>
    unfold stepCheckCancel at hs
    split at hs
    · next hpc =>
      split at hs <;> (injection hs with hs; subst hs)
      · simp [phi, hpc]
      · next hne =>
        exfalso
        cases hct : s.ctl with
        | running => exact hctl.1 hct
        | calling => exact hctl.2 hct
        | stopping => exact hne hct
        | stopOk => rcases c2 hct with h | h <;> rw [hpc] at h <;> cases h
        | stopErr => have := c3 hct; rw [hpc] at this; cases this
        | closed => have := c4 hct; rw [hpc] at this; cases this
    · cases hs
  case submitOk =>
    unfold stepSubmitOk at hs
    split at hs
    · next k hpc =>
      obtain ⟨hl, hk⟩ := hsub k hpc
      split at hs
      · split at hs <;> (injection hs with hs; subst hs)
        · simp only [phi, hpc]; omega
        · next hge =>
          have hkT : k + 1 = P.T := by omega
          simp only [phi, hpc, List.length_append, List.length_cons, List.length_nil, hl, hkT]; omega
      · cases hs
    · cases hs
  case submitFail e =>
    unfold stepSubmitFail at hs
    split at hs
    · next k hpc =>
      obtain ⟨hl, hk⟩ := hsub k hpc
      have h1 : k * (P.maxLate + 2) ≤ P.T * (P.maxLate + 2) := Nat.mul_le_mul_right _ (by omega)
      have h2 : k * (P.maxLate + 1) + k = k * (P.maxLate + 2) := by rw [← Nat.mul_succ]
      split at hs
      · split at hs <;> (injection hs with hs; subst hs) <;> simp only [phi, hpc, hl] <;> omega
      · cases hs
    · cases hs
  case pollOk =>
    unfold stepPollOk at hs
    split at hs
    · next hpc =>
      split at hs
      · next x rest d hpend hitem =>
        split at hs
        · injection hs with hs; subst hs
          strip_gap
          by_cases hr : rest = []
          · subst hr; simp only [phi, hpc, hpend, if_true, List.length_cons, List.length_nil]; omega
          · simp only [phi, hpc, hpend, if_neg hr, List.length_cons, Nat.succ_mul]; omega
        · cases hs
      · cases hs
    · cases hs
  case pollOverflow =>
    unfold stepPollOverflow at hs
    split at hs
    · next hpc =>
      split at hs
      · next x rest d hpend hitem =>
        split at hs
        · cases hs
        · injection hs with hs; subst hs
          simp only [phi, hpc, hpend, List.length_cons, Nat.succ_mul]; omega
      · cases hs
    · cases hs
  case pollFault =>
    unfold stepPollFault at hs
    split at hs
    · next hpc =>
      split at hs
      · next x rest e hpend hitem =>
        injection hs with hs; subst hs
        simp only [phi, hpc, hpend, List.length_cons, Nat.succ_mul]; omega
      · cases hs
    · cases hs
  case trySend =>
    unfold stepTrySend at hs
    split at hs
    · next m hpc =>
      have h2 : s.pending.length * (P.maxLate + 1) + s.pending.length = s.pending.length * (P.maxLate + 2) := by
        rw [← Nat.mul_succ]
      split at hs <;> split at hs <;> (injection hs with hs; subst hs) <;> simp only [phi, hpc] <;> omega
    · cases hs
  case cancelNext =>
    unfold stepCancelNext at hs
    split at hs
    · next c hpc =>
      split at hs
      · injection hs with hs; subst hs; simp only [phi, hpc]; omega
      · cases hs
    · cases hs
  case reapOne =>
    unfold stepReapOne at hs
    split at hs
    · next c hpc =>
      split at hs
      · next x rest hpend =>
        split at hs
        · next hcl =>
          injection hs with hs; subst hs
          simp only [phi, hpc, hpend, List.length_cons, Nat.succ_mul] at hcl ⊢; omega
        · cases hs
      · cases hs
    · cases hs
  case reapFault =>
    unfold stepReapFault at hs
    split at hs
    · next c hpc =>
      split at hs
      · next x rest e hpend hitem =>
        split at hs
        · next hcl =>
          injection hs with hs; subst hs
          simp only [phi, hpc, hpend, List.length_cons, Nat.succ_mul] at hcl ⊢; omega
        · cases hs
      · cases hs
    · cases hs
  case reapLate =>
    unfold stepReapLate at hs
    split at hs
    · next c hpc =>
      split at hs
      · next hg => injection hs with hs; subst hs; simp only [phi, hpc]; omega
      · cases hs
    · cases hs
  all_goals (
    step_split <;>
    (simp_all [phi, PoolOK] <;> omega))

/-- Steps of the receiver and the controller do not change the variant. -/
theorem phi_other_step {P : Params} {A : Assembler} {script : List Item} {s s' : State} {a : Step}
    (ha : a.isLoop = false) (hs : step P A script s a = some s') :
    phi P s' = phi P s ∧ s'.pc = s.pc ∧ s'.pending = s.pending ∧ s'.sentLog = s.sentLog := by
  cases a <;> simp [Step.isLoop] at ha <;> simp only [step] at hs <;> step_split <;>
    simp [phi]

/-- Once parked (or returned), the controller never goes back to `running`/`calling`. -/
theorem ctl_stays {P : Params} {A : Assembler} {script : List Item} {s s' : State} {a : Step}
    (hctl : s.ctl ≠ .running ∧ s.ctl ≠ .calling) (hs : step P A script s a = some s') :
    s'.ctl ≠ .running ∧ s'.ctl ≠ .calling := by
  cases a <;> simp only [step] at hs <;> step_split <;> simp_all

/-- Nothing is enqueued by a loop that has left (or is leaving) `run`. -/
theorem no_enqueue_after_exit {P : Params} {A : Assembler} {script : List Item} {s s' : State} {a : Step}
    (h : s.pc = .exiting ∨ s.pc = .exited ∨ s.pc = .dead) (hs : step P A script s a = some s') :
    s'.sentLog = s.sentLog ∧ (s'.pc = .exiting ∨ s'.pc = .exited ∨ s'.pc = .dead) := by
  cases a <;> simp only [step] at hs <;> step_split <;> simp_all

def countLoop (as : List Step) : Nat := (as.filter (·.isLoop)).length

end CamVerif.StreamLoop
