/-
C01 with caching ON, part 4: typed (IntReg) round trip through a register with ANY addressing
(`pIndex`), by a coherence invariant that every read path of the interpreter preserves.
-/
import CamVerif.Proofs.C01CachedRO
namespace CamVerif.Proofs.C01Cached
open CamVerif CamVerif.Cache CamVerif.C04 CamVerif.Spec.Codec

/-! ## typed round trip through a register with any addressing -/

/-- the device holds `buf` at `[a, a+l)` and register `n`'s cache entry for that key is absent
or equal to `buf` -/
def Coh (n : NodeId) (a : Int) (l : Nat) (buf : Bytes) (s : St Store) : Prop :=
  s.dev.peek a l = some buf ∧ (s.cache.get n a l = none ∨ s.cache.get n a l = some buf)

def Keeps {α : Type} (J : St Store → Prop) (m : M Store α) : Prop := ∀ s, J s → J (m s).2

theorem keeps_same {α : Type} {J : St Store → Prop} {m : M Store α} (h : ∀ s, (m s).2 = s) :
    Keeps J m := fun s hs => by rw [h]; exact hs

theorem keeps_bind {α β : Type} {J : St Store → Prop} {m : M Store α} {f : α → M Store β}
    (hm : Keeps J m) (hf : ∀ a, Keeps J (f a)) : Keeps J (m >>= f) := by
  intro s hs
  rw [bind_apply]
  cases h : (m s).1 with
  | ok a => exact hf a _ (hm s hs)
  | err e => exact hm s hs
  | panic => exact hm s hs

variable {p : Profile} {g : Graph}

theorem keeps_readAndCache (n : NodeId) (a : Int) (l : Nat) (buf : Bytes) (m : NodeId) (r : Reg)
    (am : Int) (buflen : Nat) :
    Keeps (Coh n a l buf) (readAndCache defaultCache g m r am buflen) := by
  intro s hs
  rw [readAndCache_eq]
  split
  · exact hs
  split
  · have hpc : s.dev.peek am r.len = none ∨ ∃ bs, s.dev.peek am r.len = some bs := by
      cases s.dev.peek am r.len with
      | none => exact Or.inl rfl
      | some bs => exact Or.inr ⟨bs, rfl⟩
    rcases hpc with hp | ⟨bs, hp⟩
    · rw [hp]; exact hs
    · rw [hp]
      refine ⟨hs.1, ?_⟩
      dsimp only
      by_cases hm : r.mode ≠ .noCache
      · rw [if_pos hm]
        show Store.get (Store.cache s.cache m am r.len bs) n a l = none ∨
          Store.get (Store.cache s.cache m am r.len bs) n a l = some buf
        rw [get_cache]
        by_cases hk : n = m ∧ a = am ∧ l = r.len
        · rw [if_pos hk]
          obtain ⟨_, rfl, rfl⟩ := hk
          right
          rw [← hs.1, hp]
        · rw [if_neg hk]; exact hs.2
      · rw [if_neg hm]; exact hs.2
  · exact hs

theorem keeps_cachedRead (n : NodeId) (a : Int) (l : Nat) (buf : Bytes) (m : NodeId) (r : Reg)
    (am : Int) : Keeps (Coh n a l buf) (cachedRead defaultCache g m r am) := by
  intro s hs
  unfold cachedRead
  split
  · exact hs
  · exact keeps_readAndCache n a l buf m r am r.len s hs

theorem keeps_regAddr {J : St Store → Prop} {ev : NodeId → M Store Int} (hev : ∀ m, Keeps J (ev m))
    (r : Reg) : Keeps J (regAddr p ev r) := by
  unfold regAddr
  cases r.sel with
  | none => exact keeps_same (fun _ => rfl)
  | some so =>
    obtain ⟨s, off⟩ := so
    exact keeps_bind (hev s) (fun k => keeps_bind (keeps_same (fun _ => rfl))
      (fun _ => keeps_same (fun _ => rfl)))

theorem keeps_evalInt (n : NodeId) (a : Int) (l : Nat) (buf : Bytes) (fuel : Nat) :
    ∀ m, Keeps (Coh n a l buf) (evalInt defaultCache p g fuel m) := by
  induction fuel with
  | zero => intro m; simp only [evalInt]; exact keeps_same (fun _ => rfl)
  | succ f ih =>
    intro m
    simp only [evalInt]
    cases g[m]? with
    | none => exact keeps_same (fun _ => rfl)
    | some nd =>
      cases nd with
      | port => exact keeps_same (fun _ => rfl)
      | command _ _ => exact keeps_same (fun _ => rfl)
      | integer pv _ => exact ih pv
      | enumeration pv _ => exact ih pv
      | boolean _ _ _ => exact keeps_same (fun _ => rfl)
      | ctls _ => exact keeps_same (fun _ => rfl)
      | reg r =>
        dsimp only
        have hw : Keeps (Coh n a l buf) (withCacheOrRead defaultCache p g (evalInt defaultCache p g f) m r) := by
          unfold withCacheOrRead
          exact keeps_bind (keeps_regAddr ih r) (fun am => keeps_cachedRead n a l buf m r am)
        cases r.kind with
        | int e s => exact keeps_bind hw (fun _ => keeps_same (fun _ => rfl))
        | masked e s lsb msb =>
          dsimp only
          refine keeps_bind hw (fun _ => ?_)
          refine keeps_bind (keeps_same (fun _ => rfl)) (fun _ => ?_)
          refine keeps_bind (keeps_same (fun _ => rfl)) (fun lw => ?_)
          obtain ⟨l', w⟩ := lw
          exact keeps_same (fun _ => rfl)
        | float _ => exact keeps_same (fun _ => rfl)
        | string => exact keeps_same (fun _ => rfl)
        | raw => exact keeps_same (fun _ => rfl)

/-- after a successful `writeAt` the register's own key is cached as `buf` or absent -/
theorem writeAt_ok_coh {s s' : St Store} {n : NodeId} {r : Reg} {a : Int} {buf : Bytes}
    (hlen : buf.length = r.len) (hw : writeAt defaultCache g n r a buf s = (.ok (), s')) :
    Coh n a r.len buf s' ∧ g[r.port]? = some .port := by
  obtain ⟨_, _, hpk⟩ := writeAt_ok_effect hw
  rw [hlen] at hpk
  rw [writeAt_eq] at hw
  split at hw
  · rename_i hport
    obtain ⟨h1, h2⟩ := Prod.mk.inj hw
    refine ⟨⟨hpk, ?_⟩, hport⟩
    rw [← h2]
    show Store.get (if _ then Store.cache _ n a r.len buf else Store.invalidateOf _ n) n a r.len = none ∨
      Store.get (if _ then Store.cache _ n a r.len buf else Store.invalidateOf _ n) n a r.len = some buf
    split
    · right; rw [get_cache, if_pos ⟨rfl, rfl, rfl⟩]
    · left; rw [get_invalidateOf, if_pos rfl]
  · cases hw

/-- in a coherent state, with the address evaluating to `a`, the cached read path yields `buf` -/
theorem wcor_of_coh {n : NodeId} {r : Reg} {a : Int} {buf : Bytes} {s : St Store} {f : Nat}
    (hport : g[r.port]? = some .port) (hc : Coh n a r.len buf s)
    (ha : (regAddr p (evalInt defaultCache p g f) r s).1 = .ok a) :
    (withCacheOrRead defaultCache p g (evalInt defaultCache p g f) n r s).1 = .ok buf := by
  have hc2 := keeps_regAddr (p := p) (keeps_evalInt (p := p) (g := g) n a r.len buf f) r s hc
  unfold withCacheOrRead
  rw [bind_apply, ha]
  dsimp only
  show (match Store.get (regAddr p (evalInt defaultCache p g f) r s).2.cache n a r.len with
    | some bs => (Res.ok bs, (regAddr p (evalInt defaultCache p g f) r s).2)
    | none => readAndCache defaultCache g n r a r.len (regAddr p (evalInt defaultCache p g f) r s).2).1 = _
  rcases hc2.2 with hg | hg
  · have hg' : Store.get (regAddr p (evalInt defaultCache p g f) r s).2.cache n a r.len = none := hg
    rw [hg']
    dsimp only
    rw [readAndCache_eq, if_neg (by simp), if_pos hport, hc2.1]
  · have hg' : Store.get (regAddr p (evalInt defaultCache p g f) r s).2.cache n a r.len = some buf := hg
    rw [hg']

/-- **cached_int_roundtrip_dyn** -/
theorem cached_int_roundtrip_dyn {s s' : St Store} {n : NodeId} {r : Reg}
    (hn : g[n]? = some (.reg r)) {e : Cache.Endian} {sg : Cache.Sign} (hk : r.kind = .int e sg)
    {v : Int} (hv : -(2 ^ 63 : Int) ≤ v ∧ v < 2 ^ 63) (hr : InRange r.len (sTo sg) v) {u : Val}
    (h : run defaultCache p g s (.setValue n (.int v)) = (.ok u, s')) :
    ∃ a pre, s'.dev.log = ⟨true, a, r.len, image r.len (eTo e) v, true⟩ :: (pre ++ s.dev.log) ∧
      ((regAddr p (evalInt defaultCache p g g.length) r s').1 = .ok a →
        (run defaultCache p g s' (.value n)).1 = .ok (.int v)) := by
  simp only [run, evalOp, opSetValue, hn, hk, fuelOf, setInt] at h
  obtain ⟨_, h1, h2⟩ := bind_ok_inv h
  obtain ⟨_, hs'⟩ := pure_ok_inv h2
  have h1' := pair_eta h1
  rw [← hs'] at h1'
  clear h h1 h2 hs'
  obtain ⟨_, _, h3⟩ := bind_ok_inv h1'
  obtain ⟨buf, hb, h4⟩ := bind_ok_inv h3
  have hb' : Cache.bytesFromInt v r.len e sg = .ok buf := hb
  have hil : IntLen r.len := by
    apply Classical.byContradiction
    intro hc
    unfold Cache.bytesFromInt at hb'
    rw [if_neg (fun hh => hc ((validIntLen_iff _).mp hh))] at hb'
    cases hb'
  rw [cache_bytesFromInt_is_image v hv r.len hil e sg] at hb'
  injection hb' with hb'
  subst hb'
  obtain ⟨hlen, a, ha, hw⟩ := writeAndCache_inv h4
  obtain ⟨hlog, _, _⟩ := writeAt_ok_effect hw
  obtain ⟨hcoh, hport⟩ := writeAt_ok_coh hlen hw
  obtain ⟨pre, hpre⟩ := grows_regAddr p (grows_evalInt defaultCache p g (g.length)) r
    (⟨Store.invalidateBy s.cache n, s.dev⟩ : St Store)
  refine ⟨a, pre, ?_, ?_⟩
  · rw [hlog, hlen]
    congr 1
  · intro hst
    have hw2 := wcor_of_coh (p := p) hport hcoh hst
    simp only [run, evalOp, opValue, hn, hk, fuelOf, evalInt]
    rw [bind_apply, bind_apply, hw2]
    dsimp only [M.lift]
    rw [cache_intFromSlice_is_reading _ (by rw [hlen]; exact hil), reading_image v hv r.len hil _ _ hr]
    rfl

end CamVerif.Proofs.C01Cached
