/-
C17 helper lemmas, part 8: register base and register kinds whose address list embeds
IntSwissKnife declarations (`AddrK`, `RegK`).
-/
import CamVerif.Proofs.C17Kinds2
import CamVerif.Proofs.C17Struct
import CamVerif.Proofs.C17Document
set_option linter.unusedSimpArgs false
set_option linter.unusedSectionVars false
namespace CamVerif.XmlParse
variable {F : Type} [FloatLit F]
variable [TextFrag]

/-- `AddressKind::parse` on one rendered address particle, embedded knife included -/
theorem pAddressKind_itemK (pr : Profile) (x : AddrK F) (rest : Cur) (st : St F) :
    pAddressKind pr (mkNode x.body.1.tag x.body.2 :: rest) st =
      (addrKS pr x st).bind fun r => .ok (r.1, rest, r.2) := by
  cases x with
  | plain a =>
    simp only [AddrK.body, addrKS, Res.bind_ok']
    exact pAddressKind_item pr a rest st
  | knife k =>
    simp [AddrK.body, AddrTag.tag, addrKS, pAddressKind, P.bind_def, P.bind_def',
      peekElem_node, nextElem_node, onChild_def, pIntSwissKnife_render, storeNode_eq]
    cases storeNodeS pr (specIntSwissKnife k st).1.attr.id
        (.intSwissKnife (specIntSwissKnife k st).1) (specIntSwissKnife k st).2 <;>
      simp [pure_apply]

theorem whileSome_manyAddrK (pr : Profile) (vs : List (AddrK F)) (segs : List Seg) (st : St F)
    (h1 : canStart cs!"Address" segs = false) (h2 : canStart cs!"IntSwissKnife" segs = false)
    (h3 : canStart cs!"pAddress" segs = false) (h4 : canStart cs!"pIndex" segs = false) (n : Nat)
    (hn : (flat (.manyAddr (vs.map AddrK.body) :: segs)).length + 1 ≤ n) :
    whileSome (addrStep pr) n (flat (.manyAddr (vs.map AddrK.body) :: segs)) st =
      (listR (addrKS pr) vs st).bind fun r => .ok (r.1, flat segs, r.2) := by
  induction vs generalizing st n with
  | nil =>
    cases n with
    | zero => omega
    | succ n => simp [whileSome, addrStep_skip pr segs st h1 h2 h3 h4, listR]
  | cons a as ih =>
    cases n with
    | zero => omega
    | succ n =>
      have hle' : (flat (Seg.manyAddr (List.map AddrK.body as) :: segs)).length + 1 ≤ n := by
        simp at hn ⊢; omega
      simp only [List.map_cons, flat_manyAddr_cons, whileSome, addrStep_hit, pAddressKind_itemK,
        listR]
      cases addrKS pr a st with
      | ok r =>
        simp only [Res.bind_ok', ih _ _ hle']
        cases listR (addrKS pr) as r.2 <;> simp
      | err x => rfl
      | panic => rfl

set_option maxRecDepth 4000 in
theorem pRegBase_segsK (pr : Profile) (m : RegK F) (rest : List Seg) (st : St F)
    (h : noneStart regTags rest = true) :
    pRegBase pr (flat (m.segs ++ rest)) st =
      (specRegK pr m st).bind fun r => .ok (r.1, flat rest, r.2) := by
  have hc : ∀ t ∈ regTags, canStart t rest = false := fun t ht => canStart_false_of_noneStart h ht
  simp only [regTags, elemTags, List.cons_append, List.nil_append, List.forall_mem_cons,
    List.not_mem_nil, false_imp_iff, implies_true, and_true] at hc
  obtain ⟨_, _, _, _, _, _, _, _, _, _, _, _, _, _, _, _, hInv, hStr, hA, hK, hPA, hPI, hAM, hCa, hPT⟩ := hc
  let tail : List Seg :=
    [ .opt cs!"Streamable" (m.streamable.map fun b => tb b.text),
      .manyAddr (m.addrs.map AddrK.body),
      .one2 cs!"Length" cs!"pLength" (irBody IntLit.text m.length),
      .opt cs!"AccessMode" (m.accessMode.map fun a => tb a.text),
      .one cs!"pPort" (tb m.pPort),
      .opt cs!"Cachable" (m.cacheable.map fun c => tb c.text),
      .opt cs!"PollingTime" (m.pollingTime.map fun l => tb l.text),
      .many cs!"pInvalidator" (m.pInvalidators.map tb) ]
  have hsegs : m.segs ++ rest = m.elem.segs [] ++ (tail ++ rest) := by
    simp [RegK.segs, tail, List.append_assoc]
  have h0 := pElemBase_segs m.elem [] (tail ++ rest) st (by
    simp [noneStart, elemTags, canStart, tail])
  have e1 := fun st n hn => whileSome_manyAddrK (F := F) pr m.addrs
    (.one2 cs!"Length" cs!"pLength" (irBody IntLit.text m.length) ::
      .opt cs!"AccessMode" (m.accessMode.map fun a => tb a.text) ::
      .one cs!"pPort" (tb m.pPort) ::
      .opt cs!"Cachable" (m.cacheable.map fun c => tb c.text) ::
      .opt cs!"PollingTime" (m.pollingTime.map fun l => tb l.text) ::
      .many cs!"pInvalidator" (m.pInvalidators.map tb) :: rest) st (by rfl) (by rfl) (by rfl)
      (by rfl) n hn
  simp only [addrStep] at e1
  have e2 := fun st => parseWhile_manyNodeId (F := F) cs!"pInvalidator" m.pInvalidators rest st hInv
  rw [hsegs]
  simp only [tail, List.cons_append, List.nil_append] at h0 ⊢
  simp only [pRegBase, P.bind_def, h0, Res.bind_ok']
  simp (config := { maxDischargeDepth := 3 }) [parseIfD_def, parseIf_optBool, canStart]
  rw [e1 _ _ (by
    have := length_flat_cons_ge (.opt cs!"Streamable" (m.streamable.map fun b => tb b.text))
      (.manyAddr (m.addrs.map AddrK.body) ::
        .one2 cs!"Length" cs!"pLength" (irBody IntLit.text m.length) ::
        .opt cs!"AccessMode" (m.accessMode.map fun a => tb a.text) ::
        .one cs!"pPort" (tb m.pPort) ::
        .opt cs!"Cachable" (m.cacheable.map fun c => tb c.text) ::
        .opt cs!"PollingTime" (m.pollingTime.map fun l => tb l.text) ::
        .many cs!"pInvalidator" (m.pInvalidators.map tb) :: rest)
    simp only [flat_append, List.length_append]; omega)]
  simp only [specRegK]
  cases listR (addrKS pr) m.addrs (specElem m.elem [] st).2 with
  | ok a =>
    simp (config := { maxDischargeDepth := 3 }) [pImmOrPInt_ir, parseIfD_def,
      parseIf_optTable _ _ lookup_accessMode, parseIf_optTable _ _ lookup_cachingMode, pNodeId_node,
      parseIf_optU64, e2, canStart, hAM, hCa, hPT, hInv, specElem, listS, pure_apply, P.fail]
  | err x => rfl
  | panic => rfl


theorem pIntRegK_render (pr : Profile) (m : IntRegK F) (st : St F) :
    pIntReg pr m.attr.render m.children st =
      (specIntRegK pr m st).bind fun r => .ok (r.1, [], r.2) := by
  have h := pRegBase_segsK pr m.reg
    (intRegTail m.sign m.endianness m.unit m.representation m.pSelected) (specAttr m.attr st).2 (by rfl)
  simp only [intRegTail] at h
  simp only [pIntReg, IntRegK.children, intRegTail, P.bind_def, pAttrBase_render, Res.bind_ok', h,
    specIntRegK]
  cases specRegK pr m.reg (specAttr m.attr st).2 with
  | ok r =>
    simp (config := { maxDischargeDepth := 3 }) [parseIfD_def, parseIf_optTable _ _ lookup_sign,
      parseIf_optTable _ _ lookup_endianness, parseIf_optString, parseIf_optTable _ _ lookup_intRepr,
      parseWhile_manyNodeId_last, canStart, storeInvalidators_eq, pure_apply]
  | err x => rfl
  | panic => rfl

theorem pMaskedIntRegK_render (pr : Profile) (m : MaskedK F) (st : St F) :
    pMaskedIntReg pr m.attr.render m.children st =
      (specMaskedK pr m st).bind fun r => .ok (r.1, [], r.2) := by
  have hch : m.children = flat (m.reg.segs ++ (m.bitMask.segs ++
      intRegTail m.sign m.endianness m.unit m.representation m.pSelected)) := by
    simp [MaskedK.children, List.append_assoc]
  have h := pRegBase_segsK pr m.reg (m.bitMask.segs ++
      intRegTail m.sign m.endianness m.unit m.representation m.pSelected) (specAttr m.attr st).2 (by
        simp [noneStart, regTags, elemTags, canStart_bitSegs])
  have e := fun st => pBitMask_segs (F := F) m.bitMask
    (intRegTail m.sign m.endianness m.unit m.representation m.pSelected) st
  rw [hch]
  simp only [intRegTail] at h e ⊢
  simp only [pMaskedIntReg, P.bind_def, pAttrBase_render, Res.bind_ok', h, specMaskedK]
  cases specRegK pr m.reg (specAttr m.attr st).2 with
  | ok r =>
    simp (config := { maxDischargeDepth := 3 }) [e, parseIfD_def, parseIf_optTable _ _ lookup_sign,
      parseIf_optTable _ _ lookup_endianness, parseIf_optString, parseIf_optTable _ _ lookup_intRepr,
      parseWhile_manyNodeId_last, canStart, storeInvalidators_eq, pure_apply]
  | err x => rfl
  | panic => rfl

theorem pPlainRegK_render (pr : Profile) (m : PlainRegK F) (st : St F) :
    pPlainReg pr m.attr.render m.children st =
      (specPlainRegK pr m st).bind fun r => .ok (r.1, [], r.2) := by
  have h := pRegBase_segsK pr m.reg [] (specAttr m.attr st).2 (noneStart_nil _)
  simp only [List.append_nil] at h
  simp only [pPlainReg, PlainRegK.children, P.bind_def, pAttrBase_render, Res.bind_ok', h,
    specPlainRegK]
  cases specRegK pr m.reg (specAttr m.attr st).2 with
  | ok r => simp [storeInvalidators_eq, pure_apply]
  | err x => rfl
  | panic => rfl

theorem pFloatRegK_render (pr : Profile) (m : FloatRegK F) (st : St F) :
    pFloatReg pr m.attr.render m.children st =
      (specFloatRegK pr m st).bind fun r => .ok (r.1, [], r.2) := by
  have h := pRegBase_segsK pr m.reg
    [ .opt cs!"Endianess" (m.endianness.map fun x => tb x.text),
      .opt cs!"Unit" (m.unit.map tb),
      .opt cs!"Representation" (m.representation.map fun r => tb r.text),
      .opt cs!"DisplayNotation" (m.displayNotation.map fun r => tb r.text),
      .opt cs!"DisplayPrecision" (m.displayPrecision.map fun l => tb l.text) ]
    (specAttr m.attr st).2 (by rfl)
  simp only [pFloatReg, FloatRegK.children, P.bind_def, pAttrBase_render, Res.bind_ok', h,
    specFloatRegK]
  cases specRegK pr m.reg (specAttr m.attr st).2 with
  | ok r =>
    simp (config := { maxDischargeDepth := 3 }) [parseIfD_def,
      parseIf_optTable _ _ lookup_endianness, parseIf_optString,
      parseIf_optTable _ _ lookup_floatRepr, parseIf_optTable _ _ lookup_displayNotation,
      parseIf_optI64_last, canStart, storeInvalidators_eq, pure_apply]
  | err x => rfl
  | panic => rfl


theorem pStructRegK_children (pr : Profile) (m : StructK F) (st : St F) :
    pStructReg pr m.children st =
      (specRegK pr m.reg st).bind fun r =>
        .ok (⟨r.1, m.endianness.getD .le, (listS specEntry m.entries r.2).1⟩, [],
          (listS specEntry m.entries r.2).2) := by
  have h := pRegBase_segsK pr m.reg
    [ .opt cs!"Endianess" (m.endianness.map fun x => tb x.text),
      .many cs!"StructEntry" (m.entries.map EntryM.body) ] st (by rfl)
  have e1 := fun st => parseIf_optTable (F := F) _ _ lookup_endianness cs!"Endianess" m.endianness
    [.many cs!"StructEntry" (m.entries.map EntryM.body)] st (by rfl)
  have hlen : m.entries.length + 1 ≤ m.children.length + 1 := by
    simp only [StructK.children, flat_append, List.length_append]
    have : (flat [Seg.opt cs!"Endianess" (m.endianness.map fun x => tb x.text),
        Seg.many cs!"StructEntry" (m.entries.map EntryM.body)]).length ≥ m.entries.length := by
      have := length_flat_cons_ge (Seg.opt cs!"Endianess" (m.endianness.map fun x => tb x.text))
        [Seg.many cs!"StructEntry" (m.entries.map EntryM.body)]
      rw [length_flat_many] at this
      simpa using this
    omega
  have e2 := fun st => pStructEntries_many (F := F) pr m.entries st (m.children.length + 1) hlen
  simp only [StructK.children] at e2 ⊢
  simp only [pStructReg, P.bind_def, h]
  cases specRegK pr m.reg st with
  | ok r => simp [parseIfD_def, e1, e2, pure_apply]
  | err x => rfl
  | panic => rfl

/-! ### knife-free registers: the `RegK` normal form is the `RegM` one -/

theorem listR_plain (pr : Profile) (as : List AddrM) (st : St F) :
    listR (addrKS pr) (as.map (AddrK.plain (F := F))) st = .ok (listS addrS as st) := by
  induction as generalizing st with
  | nil => rfl
  | cons a as ih => simp [listR, addrKS, ih, listS]

theorem specRegK_toK (pr : Profile) (m : RegM) (st : St F) :
    specRegK pr (m.toK (F := F)) st = .ok (specReg m st) := by
  simp [specRegK, RegM.toK, listR_plain, specReg]

/-! ### debug assertions on: a successful parse stored every embedded knife -/

/-- the knife `k` is in the store of `st'` as its normal form, under the id its `Name` got in a
state `st'` extends -/
def KnifeStored (st' : St F) (k : IntSwissKnifeM F) : Prop :=
  ∃ s : St F, Stored st' (specIntSwissKnife k s).1.attr.id (.intSwissKnife (specIntSwissKnife k s).1) ∧
    (specIntSwissKnife k s).1.attr.id = (internS k.attr.name s).1 ∧ (internS k.attr.name s).2.le st'

theorem KnifeStored.keeps {a b : St F} (h : Keeps a b) {k : IntSwissKnifeM F}
    (hk : KnifeStored a k) : KnifeStored b k := by
  obtain ⟨s, h1, h2, h3⟩ := hk
  exact ⟨s, h.2 _ _ h1, h2, St.le_trans h3 h.1⟩

theorem addrKS_dev (pr : Profile) (hdev : pr.debugAsserts = true) (x : AddrK F) (st : St F)
    (ak : AddressKind) (st' : St F) (h : addrKS pr x st = .ok (ak, st')) :
    Keeps st st' ∧ ∀ k, x = .knife k → KnifeStored st' k ∧
      ak = .intSwissKnife (specIntSwissKnife k st).1.attr.id := by
  cases x with
  | plain a =>
    simp only [addrKS, Res.ok.injEq] at h
    have h2 : st' = (addrS a st).2 := by rw [h]
    rw [h2]
    exact ⟨(growsF_addrS a st).keeps, fun k hk => by cases hk⟩
  | knife k =>
    simp only [addrKS] at h
    cases hs : storeNodeS pr (specIntSwissKnife k st).1.attr.id
        (.intSwissKnife (specIntSwissKnife k st).1) (specIntSwissKnife k st).2 with
    | ok s1 =>
      rw [hs] at h
      simp only [Res.bind_ok', Res.ok.injEq, Prod.mk.injEq] at h
      obtain ⟨rfl, rfl⟩ := h
      obtain ⟨k1, f1⟩ := storeNodeS_dev pr hdev _ _ _ _ hs
      have g := (grows_specAttr k.attr (Grows.refl st)).trans (grows_specIntSwissKnife k st)
      refine ⟨g.keeps.trans k1, ?_⟩
      intro k' hk'
      cases hk'
      exact ⟨⟨st, f1, rfl, St.le_trans (grows_specIntSwissKnife k st).1 k1.1⟩, rfl⟩
    | err x => rw [hs] at h; cases h
    | panic => rw [hs] at h; cases h

theorem listR_addrKS_dev (pr : Profile) (hdev : pr.debugAsserts = true) (vs : List (AddrK F))
    (st : St F) (aks : List AddressKind) (st' : St F) (h : listR (addrKS pr) vs st = .ok (aks, st')) :
    Keeps st st' ∧ ∀ k, AddrK.knife k ∈ vs → KnifeStored st' k ∧
      ∃ s : St F, AddressKind.intSwissKnife (specIntSwissKnife k s).1.attr.id ∈ aks := by
  induction vs generalizing st aks with
  | nil =>
    simp only [listR, Res.ok.injEq, Prod.mk.injEq] at h
    obtain ⟨_, rfl⟩ := h
    exact ⟨Keeps.refl _, fun k hk => by simp at hk⟩
  | cons x xs ih =>
    simp only [listR] at h
    cases hx : addrKS pr x st with
    | ok r =>
      rw [hx] at h
      simp only [Res.bind_ok'] at h
      cases hr : listR (addrKS pr) xs r.2 with
      | ok rs =>
        rw [hr] at h
        simp only [Res.bind_ok', Res.ok.injEq, Prod.mk.injEq] at h
        obtain ⟨rfl, rfl⟩ := h
        obtain ⟨k1, f1⟩ := addrKS_dev pr hdev x st r.1 r.2 (by rw [hx])
        obtain ⟨k2, f2⟩ := ih r.2 rs.1 (by rw [hr])
        refine ⟨k1.trans k2, ?_⟩
        intro k hk
        rcases List.mem_cons.mp hk with hk | hk
        · obtain ⟨g1, g2⟩ := f1 k hk.symm
          exact ⟨g1.keeps k2, st, by rw [g2]; simp⟩
        · obtain ⟨g1, s, g2⟩ := f2 k hk
          exact ⟨g1, s, by simp [g2]⟩
      | err y => rw [hr] at h; cases h
      | panic => rw [hr] at h; cases h
    | err y => rw [hx] at h; cases h
    | panic => rw [hx] at h; cases h

theorem specRegK_dev (pr : Profile) (hdev : pr.debugAsserts = true) (m : RegK F) (st : St F)
    (r : RegBase) (st' : St F) (h : specRegK pr m st = .ok (r, st')) :
    Keeps st st' ∧ ∀ k, AddrK.knife k ∈ m.addrs → KnifeStored st' k ∧
      ∃ s : St F, AddressKind.intSwissKnife (specIntSwissKnife k s).1.attr.id ∈ r.addressKinds := by
  simp only [specRegK] at h
  cases ha : listR (addrKS pr) m.addrs (specElem m.elem [] st).2 with
  | ok a =>
    rw [ha] at h
    simp only [Res.bind_ok', Res.ok.injEq, Prod.mk.injEq] at h
    obtain ⟨rfl, rfl⟩ := h
    obtain ⟨k1, f1⟩ := listR_addrKS_dev pr hdev _ _ a.1 a.2 (by rw [ha])
    have k2 : Keeps a.2 (listS internS m.pInvalidators
        (internS m.pPort (irIntS m.length a.2).2).2).2 :=
      (grows_listS growsF_internS _ (grows_internS _ (growsF_irIntS _ _))).keeps
    refine ⟨((grows_specElem m.elem [] (Grows.refl st)).keeps.trans k1).trans k2, ?_⟩
    intro k hk
    obtain ⟨g1, g2⟩ := f1 k hk
    exact ⟨g1.keeps k2, g2⟩
  | err y => rw [ha] at h; cases h
  | panic => rw [ha] at h; cases h

end CamVerif.XmlParse
