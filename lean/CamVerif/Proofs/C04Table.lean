/-
C04 helper lemmas, part 7:
* the invalidator table (`pInvalidator` registrations) is never changed by any operation —
  in particular not by `clear_cache` — on EVERY description;
* `Command::execute` invalidates the listers of the Command node BEFORE the device write: they
  have no cache entry afterwards whatever the write reported (the `SimA` post-condition of
  `C04Via`, exported for `execute`);
* device lemmas for the "applied, acknowledge lost" write.
-/
import CamVerif.Proofs.C04Via
namespace CamVerif.C04
open CamVerif CamVerif.Cache

/-! ### the invalidator table is constant -/

/-- "the table is `T`" is preserved by every store primitive, `clear` included -/
theorem storeInv_invalidators (g : Graph) (T : List (NodeId × List NodeId)) :
    StoreInv g (fun c => c.invalidators = T) where
  invBy c n h := by rw [invalidators_invalidateBy]; exact h
  invOf c n h := by rw [invalidators_invalidateOf]; exact h
  clear c h := by rw [invalidators_clear]; exact h
  cache c n r a d _ _ h := by rw [invalidators_cache]; exact h

/-- `TableOk` depends on the table only -/
theorem tableOk_congr {g : Graph} {c c' : Store} (h : c'.invalidators = c.invalidators)
    (hT : TableOk g c) : TableOk g c' :=
  fun t r m ht hm => by rw [targets_congr h]; exact hT t r m ht hm

/-- one operation leaves the table alone -/
theorem invalidators_run (p : Profile) (g : Graph) (s : St Store) (op : Op) :
    (run defaultCache p g s op).2.cache.invalidators = s.cache.invalidators :=
  keeps_evalOp (storeInv_invalidators g s.cache.invalidators) (fuelOf g) op s rfl

/-- a history leaves the table alone -/
theorem invalidators_runHist (p : Profile) (g : Graph) (s : St Store) (h : List Op) :
    (runHist defaultCache p g s h).2.cache.invalidators = s.cache.invalidators :=
  keeps_runHist (storeInv_invalidators g s.cache.invalidators) h s rfl

/-! ### histories with clears -/

theorem histOk_insert_clear {g : Graph} {h1 h2 : List Op} (hH : HistOk g (h1 ++ h2)) :
    HistOk g (h1 ++ .clearCache :: h2) := by
  intro n a d hm
  refine hH n a d ?_
  rcases List.mem_append.mp hm with h | h
  · exact List.mem_append_left _ h
  · rcases List.mem_cons.mp h with h | h
    · cases h
    · exact List.mem_append_right _ h

theorem declaredFor_insert_clear {p : Profile} {g : Graph} {h1 h2 : List Op}
    (hH : DeclaredFor p g (h1 ++ h2)) : DeclaredFor p g (h1 ++ .clearCache :: h2) := by
  unfold DeclaredFor declaredForB at *
  rw [List.all_append] at hH ⊢
  rw [List.all_cons]
  simpa only [opOk, Bool.true_and] using hH

/-! ### `Command::execute`: the listers are dropped before the write -/

/-- `execute` of a declared Command: results agree with the uncached build, the states stay
related, and every register outside the operation's footprint that lists the Command node has
NO cache entry afterwards — whatever the device write reported. -/
theorem execute_simA {p : Profile} {g : Graph} {n pv : NodeId} {cv : Int}
    (hn : g[n]? = some (.command pv cv)) (hop : opOk p g (.execute n) = true)
    {sC : St Store} {sU : St Unit} (hR : Rel p g sC sU) :
    (run defaultCache p g sC (.execute n)).1 = (run sinkCache p g sU (.execute n)).1 ∧
      Rel p g (run defaultCache p g sC (.execute n)).2 (run sinkCache p g sU (.execute n)).2 ∧
      AbsS (SJ g (protectedOf g pv) [n]) (run defaultCache p g sC (.execute n)).2.cache := by
  unfold run
  simp only [evalOp, opExecute, hn]
  simp only [opOk, hn] at hop
  have h := simA_bind (simA_invBy_feature (p := p) (protectedOf g pv) [] n)
    (fun _ => simA_bind (simA_setInt (protectedOf g pv) (fuelOf g) [n] pv cv hop
        (fun x hx => prot_wcone_lo pv x hx))
      (fun _ => simA_pure Val.unit) (fun _ h => h)) (fun _ h => h)
  exact h sC sU hR (absS_nil _ _)

/-! ### the device: a write that is applied although it reports failure -/

theorem leftover_lost_ack (data junk : Bytes) {m : Nat} (hm : data.length ≤ m) :
    Dev.leftover data (m, junk) = data := by
  unfold Dev.leftover
  dsimp only
  rw [List.take_of_length_le hm, List.take_append_of_le_length (Nat.le_refl _), List.take_length]

/-- the `k`-th write attempt with plan `k ↦ (m, junk)`, `m ≥ len`, on an otherwise acceptable
range: the device reports an error and holds exactly the written bytes -/
theorem write_lost_ack (d : Dev) (a : Int) (data junk : Bytes) {m : Nat}
    (hal : d.allowed a data.length = true) (hp : alGet d.wcount d.rejP = some (m, junk))
    (hm : data.length ≤ m) :
    (d.write a data).1 = .err .device ∧ (d.write a data).2.mem = patch d.mem a.toNat data := by
  unfold Dev.write
  rw [if_pos hal, hp]
  dsimp only
  rw [leftover_lost_ack data junk hm]
  exact ⟨rfl, rfl⟩

end CamVerif.C04
