/-
C12 helper lemmas: every invariant is re-established by a restart (`restartState`), so that the
theorems hold in every session of a history with any number of sessions.
-/
import CamVerif.Proofs.C12Order
import CamVerif.Proofs.C12Stop
import CamVerif.Proofs.C12Keep
import CamVerif.Proofs.C12Intact
import CamVerif.Proofs.C12Bytes
namespace CamVerif.StreamLoop

/-- A loop that has returned from `run` has released the buffer it kept for reuse. -/
def ExitClean (s : State) : Prop := s.pc = .exited → s.reuse = none

theorem ExitClean_init (P : Params) : ExitClean (init P) := by simp [ExitClean, init]

theorem ExitClean_restart (P' : Params) (s : State) : ExitClean (restartState P' s) := by
  simp [ExitClean, restartState, init]

theorem ExitClean_step {P : Params} {A : Assembler} {script : List Item} {s s' : State} {a : Step}
    (h : ExitClean s) (hs : step P A script s a = some s') : ExitClean s' := by
  cases a <;> simp only [step] at hs <;> step_split <;> simp_all [ExitClean]

theorem ReuseOK_restart (P' : Params) (s : State) : ReuseOK (restartState P' s) := by
  simp [ReuseOK, restartState, init]

/-- Ownership carries over a restart: the receiver keeps what it holds, what the old channels still
contained is freed with them, the loop had released everything (`pc = exited`). -/
theorem Own_restart {P : Params} (P' : Params) {s : State} (hp : PoolOK P s) (he : ExitClean s)
    (hpc : s.pc = .exited) (h : Own s) : Own (restartState P' s) := by
  intro i
  have hi := h i
  have hreuse := he hpc
  simp only [PoolOK, hpc] at hp
  simp only [owned, loopOwned, chanOwned, rxOwned, backOwned, hp.2, hreuse, hpc, inHand, optId_none,
    List.count_append, List.count_nil] at hi
  have hn : (restartState P' s).nextBuf = s.nextBuf := rfl
  rw [hn]
  simp only [owned, loopOwned, chanOwned, rxOwned, backOwned, restartState, init, inHand, optId_none,
    List.count_append, List.count_nil, List.filterMap_nil, List.map_nil]
  by_cases hlt : i < s.nextBuf
  · rw [if_pos hlt] at hi ⊢; omega
  · rw [if_neg hlt] at hi ⊢; omega

theorem Order_restart (P' : Params) (s : State) : Order P' (restartState P' s) := by
  constructor <;> simp [restartState, init, okMsgs]

theorem CtlOK_restart (P' : Params) (s : State) : CtlOK (restartState P' s) := by
  constructor <;> simp [restartState, init]

theorem KeepUp_restart (P' : Params) (s : State) : KeepUp P' (restartState P' s) := by
  intro _; simp [restartState, init, segStarts]

theorem Seg_restart (P' : Params) (script : List Item) (s : State) :
    Seg P' script (restartState P' s) := by
  constructor <;> simp [restartState, init]

theorem Asmd_restart (P' : Params) (A : Assembler) (s : State) : Asmd A (restartState P' s) := by
  constructor <;> simp [restartState, init]

theorem Contig_restart (P' : Params) (s : State) : Contig P' (restartState P' s) := by
  constructor <;> simp [restartState, init]

end CamVerif.StreamLoop
