/-
Helper lemmas for C05 (character level): float literal text.  The lexer hands exactly the
mantissa digits and the exponent of a well-formed float literal to `FloatOps.ofDec`.
-/
import CamVerif.Proofs.C05LexHex
set_option linter.unusedSectionVars false
set_option linter.unusedSimpArgs false
set_option linter.unusedVariables false
namespace CamVerif.Formula.Proofs
open CamVerif CamVerif.Formula CamVerif.Formula.Spec

variable {F : Type} [FloatOps F]

/-- the continuation is empty or starts with a decoded character that does not extend the token -/
def Stop (ext : Char → Bool) (rest : List Char) : Prop :=
  rest = [] ∨ ∃ c r, nextChar rest = some (c, r) ∧ ext c = false

theorem Stop.mono {p q : Char → Bool} {rest : List Char} (h : Stop p rest)
    (hq : ∀ c, p c = false → q c = false) : Stop q rest := by
  rcases h with h | ⟨c, r, h1, h2⟩
  · exact Or.inl h
  · exact Or.inr ⟨c, r, h1, hq c h2⟩

theorem takeWhile_app (p : Char → Bool) (l r : List Char) (x : Char) (hl : ∀ c ∈ l, p c = true)
    (hx : p x = false) : (l ++ x :: r).takeWhile p = l ∧ (l ++ x :: r).dropWhile p = x :: r := by
  induction l with
  | nil => simp [List.takeWhile, List.dropWhile, hx]
  | cons a l ih =>
    have ha := hl a (by simp)
    have := ih (fun c hc => hl c (by simp [hc]))
    simp [List.takeWhile, List.dropWhile, ha, this.1, this.2]

theorem takeWhile_all (p : Char → Bool) (l : List Char) (hl : ∀ c ∈ l, p c = true) :
    l.takeWhile p = l ∧ l.dropWhile p = [] := by
  induction l with
  | nil => simp
  | cons a l ih =>
    have ha := hl a (by simp)
    have := ih (fun c hc => hl c (by simp [hc]))
    simp [List.takeWhile, List.dropWhile, ha, this.1, this.2]

theorem all_mem {p : Char → Bool} {l : List Char} (h : l.all p = true) : ∀ c ∈ l, p c = true :=
  fun c hc => by simpa using (List.all_eq_true.mp h) c hc

/-! ### the exponent -/

theorem eatExponent_none (n : Nat) (rest : List Char)
    (hstop : Stop (fun c => c = 'e' || c = 'E') rest) : eatExponent n rest = none := by
  rcases hstop with rfl | ⟨c, r, h1, h2⟩
  · rfl
  · simp at h2
    simp [eatExponent, h1, h2]

theorem exponent_value (x : ExpPart) (hne : x.digits ≠ []) (hd : x.digits.all isDigit = true) :
    exponent (x.signChars ++ x.digits) = some x.value := by
  have hem : x.digits.isEmpty = false := by cases h : x.digits <;> simp_all
  cases hs : x.sign with
  | some b =>
    cases b <;> simp [ExpPart.signChars, ExpPart.value, hs, exponent, hem]
  | none =>
    cases hdg : x.digits with
    | nil => exact absurd hdg hne
    | cons d ds =>
      have hdd : isDigit d = true := all_mem hd d (by simp [hdg])
      have n1 := ne_of_pred isDigit d '+' hdd (by decide)
      have n2 := ne_of_pred isDigit d '-' hdd (by decide)
      simp only [ExpPart.signChars, ExpPart.value, hs, List.nil_append]
      unfold exponent
      split
      · next h => simp at h; exact absurd h.1 n1
      · next h => simp at h; exact absurd h.1 n2
      · simp [hdg]

theorem eatExponent_some (x : ExpPart) (hne : x.digits ≠ []) (hd : x.digits.all isDigit = true)
    (rest : List Char) (hstop : Stop isDigit rest) (n : Nat) (hn : x.digits.length ≤ n) :
    eatExponent n (x.chars ++ rest) = some (x.signChars ++ x.digits, rest) := by
  have hew : eatWhile isDigit n (x.digits ++ rest) = (x.digits, rest) := by
    apply eatWhile_pre
    · exact hn
    · intro c hc
      have h1 := all_mem hd c hc
      exact ⟨h1, ne_of_pred isDigit c '&' h1 (by decide)⟩
    · exact hstop
  have he : ∀ r, nextChar ((if x.bigE then 'E' else 'e') :: r) = some ((if x.bigE then 'E' else 'e'), r) := by
    intro r; cases x.bigE <;> exact nextChar_plain _ r (by decide)
  have hee : ((if x.bigE then 'E' else 'e') = 'e' ∨ (if x.bigE then 'E' else 'e') = 'E') := by
    cases x.bigE <;> simp
  simp only [ExpPart.chars, List.cons_append, eatExponent, he]
  cases hs : x.sign with
  | some b =>
    cases b
    · have hp : ∀ r, nextChar ('+' :: r) = some ('+', r) := fun r => nextChar_plain _ r (by decide)
      simp [ExpPart.signChars, hs, hp, hew, hee]
    · have hp : ∀ r, nextChar ('-' :: r) = some ('-', r) := fun r => nextChar_plain _ r (by decide)
      simp [ExpPart.signChars, hs, hp, hew, hee]
  | none =>
    cases hdg : x.digits with
    | nil => exact absurd hdg hne
    | cons d ds =>
      have hdd : isDigit d = true := all_mem hd d (by simp [hdg])
      have n1 := ne_of_pred isDigit d '+' hdd (by decide)
      have n2 := ne_of_pred isDigit d '-' hdd (by decide)
      have hp : ∀ r, nextChar (d :: r) = some (d, r) :=
        fun r => nextChar_plain _ r (ne_of_pred isDigit d '&' hdd (by decide))
      rw [hdg] at hew
      simp only [List.cons_append] at hew
      simp [ExpPart.signChars, hs, hp, hew, hee, n1, n2]

/-! ### the mantissa -/

theorem mantissa_ok (t : FloatText) (hok : t.Ok) :
    mantissa (t.ip ++ (if t.dot then '.' :: t.fp else [])) = some (t.ip, t.fp) := by
  obtain ⟨h1, h2, h3, h4, _, _⟩ := hok
  have hd : isDigit '.' = false := by decide
  cases hdot : t.dot with
  | true =>
    obtain ⟨a, b⟩ := takeWhile_app isDigit t.ip t.fp '.' (all_mem h1) hd
    simp only [if_true, mantissa, a, b]
    have : (!t.ip.isEmpty || !t.fp.isEmpty) = true := by
      rcases h4 with h | h
      · cases hh : t.ip <;> simp_all
      · cases hh : t.fp <;> simp_all
    simp [h2, this]
  | false =>
    have hfp := h3 hdot
    have hip : t.ip ≠ [] := by
      rcases h4 with h | h
      · exact h
      · exact absurd hfp h
    obtain ⟨a, b⟩ := takeWhile_all isDigit t.ip (all_mem h1)
    have hem : t.ip.isEmpty = false := by cases hh : t.ip <;> simp_all
    simp [mantissa, a, b, hem, hfp]

theorem floatTok_ok (t : FloatText) (hok : t.Ok) :
    (floatTok (t.ip ++ (if t.dot then '.' :: t.fp else []))
      (t.exp.map (fun x => x.signChars ++ x.digits)) : Tok F) = t.tok := by
  have hm := mantissa_ok t hok
  cases he : t.exp with
  | none => simp [floatTok, hm, FloatText.tok, FloatText.expValue, he]
  | some x =>
    obtain ⟨hne, hd⟩ := hok.2.2.2.2.2 x he
    simp [floatTok, hm, FloatText.tok, FloatText.expValue, he, exponent_value x hne hd]

/-! ### the lexer on float literal text -/

theorem eatChar_none_of_stop (x : Char) (rest : List Char)
    (h : rest = [] ∨ ∃ c r, nextChar rest = some (c, r) ∧ c ≠ x) : eatChar x rest = none := by
  rcases h with rfl | ⟨c, r, h1, h2⟩
  · rfl
  · simp [eatChar, h1, h2]

theorem numCont_ne (c x : Char) (h : isNumCont c = true) (hx : isNumCont x = false) : c ≠ x :=
  ne_of_pred isNumCont c x h hx

theorem expChars_head (x : ExpPart) (r : List Char) :
    ∃ c, nextChar (x.chars ++ r) = some (c, x.signChars ++ x.digits ++ r) ∧ (c = 'e' ∨ c = 'E') := by
  cases hb : x.bigE
  · exact ⟨'e', by simp [ExpPart.chars, hb, nextChar_plain], Or.inl rfl⟩
  · exact ⟨'E', by simp [ExpPart.chars, hb, nextChar_plain], Or.inr rfl⟩

/-- first character of `s ++ tail` when `s` consists of digits and dots and `tail` is empty or
starts with a character `q` holds for -/
theorem first_of (s tail : List Char) (hs : ∀ c ∈ s, isNumCont c = true) (y : Char) (hy : isNumCont y = false)
    (ht : tail = [] ∨ ∃ c r, nextChar tail = some (c, r) ∧ c ≠ y) :
    s ++ tail = [] ∨ ∃ c r, nextChar (s ++ tail) = some (c, r) ∧ c ≠ y := by
  cases s with
  | nil => simpa using ht
  | cons a s =>
    have ha := hs a (by simp)
    exact Or.inr ⟨a, _, nextChar_plain a _ (numCont_ne a '&' ha (by decide)), numCont_ne a y ha hy⟩

theorem lexOne_num_core (d : Char) (s tail : List Char) (hd : isDigit d = true)
    (hs : s.all isNumCont = true) (htail : Stop isNumCont tail)
    (hx : ∀ y, y = 'x' ∨ y = 'X' → s ++ tail = [] ∨ ∃ c r, nextChar (s ++ tail) = some (c, r) ∧ c ≠ y) :
    (lexOne (d :: s ++ tail) : Option (Tok F × List Char)) =
      some (match eatExponent ((s ++ tail).length + 1) tail with
        | some (ex, r'') => (floatTok (d :: s) (some ex), r'')
        | none =>
          if s.all isDigit then (intTok false (digitsToNat (d :: s)), tail)
          else (floatTok (d :: s) none, tail)) := by
  have ne : ∀ x, isDigit x = false → d ≠ x := fun x hx => ne_of_pred isDigit d x hd hx
  have hn : nextChar (d :: (s ++ tail)) = some (d, s ++ tail) :=
    nextChar_plain d _ (ne '&' (by decide))
  have hew : eatWhile isNumCont ((s ++ tail).length + 1) (s ++ tail) = (s, tail) := by
    apply eatWhile_pre
    · simp; omega
    · intro x hx
      have h1 := all_mem hs x hx
      exact ⟨h1, numCont_ne x '&' h1 (by decide)⟩
    · exact htail
  have hx1 := eatChar_none_of_stop 'x' _ (hx 'x' (Or.inl rfl))
  have hx2 := eatChar_none_of_stop 'X' _ (hx 'X' (Or.inr rfl))
  simp only [List.cons_append, lexOne, hn]
  simp only [ne '(' (by decide), ne ')' (by decide), ne '+' (by decide), ne '-' (by decide), ne '*' (by decide),
    ne '/' (by decide), ne '%' (by decide), ne '&' (by decide), ne '|' (by decide), ne '^' (by decide),
    ne '~' (by decide), ne '=' (by decide), ne ':' (by decide), ne '?' (by decide), ne '<' (by decide),
    ne '>' (by decide), ne '.' (by decide), digit_not_alpha d hd, hd, if_false, if_true, hx1, hx2, hew,
    Bool.false_eq_true, ite_self]
  split <;> simp_all

theorem lexOne_dot_core (fp tail : List Char) (hfp : fp.all isDigit = true) (htail : Stop isDigit tail) :
    (lexOne ('.' :: fp ++ tail) : Option (Tok F × List Char)) =
      some (match eatExponent ((fp ++ tail).length + 1) tail with
        | some (ex, r'') => (floatTok ('.' :: fp) (some ex), r'')
        | none => (floatTok ('.' :: fp) none, tail)) := by
  have hn : nextChar ('.' :: (fp ++ tail)) = some ('.', fp ++ tail) := nextChar_plain '.' _ (by decide)
  have hew : eatWhile isDigit ((fp ++ tail).length + 1) (fp ++ tail) = (fp, tail) := by
    apply eatWhile_pre
    · simp; omega
    · intro x hx
      have h1 := all_mem hfp x hx
      exact ⟨h1, ne_of_pred isDigit x '&' h1 (by decide)⟩
    · exact htail
  simp only [List.cons_append, lexOne, hn, hew]
  simp only [Char.reduceEq, if_false, if_true, Char.isValue]
  split <;> simp_all

theorem digit_numCont' (c : Char) (h : isNumCont c = false) : isDigit c = false := by
  cases hd : isDigit c with
  | false => rfl
  | true => simp [isNumCont, hd] at h

/-- **the lexer on a well-formed float literal** followed by anything that cannot extend it -/
theorem lexOne_float_gen (t : FloatText) (hok : t.Ok) (rest : List Char) (hstop : Stop t.ext rest) :
    (lexOne (t.chars ++ rest) : Option (Tok F × List Char)) = some (t.tok, rest) ∧
      ∃ r, nextChar (t.chars ++ rest) = some (t.head, r) := by
  have hft := floatTok_ok (F := F) t hok
  obtain ⟨h1, h2, h3, h4, h5, h6⟩ := hok
  have hdotNC : isNumCont '.' = true := by decide
  cases hip : t.ip with
  | cons d ds =>
    have hd : isDigit d = true := all_mem h1 d (by simp [hip])
    have hds : ∀ c ∈ ds, isDigit c = true := fun c hc => all_mem h1 c (by simp [hip, hc])
    have hhead : ∀ r, nextChar (d :: r) = some (d, r) :=
      fun r => nextChar_plain d r (ne_of_pred isDigit d '&' hd (by decide))
    have hs : (ds ++ (if t.dot then '.' :: t.fp else [])).all isNumCont = true := by
      rw [List.all_eq_true]
      intro c hc
      rcases List.mem_append.mp hc with hc | hc
      · exact digit_numCont c (hds c hc)
      · cases hdot : t.dot
        · simp [hdot] at hc
        · simp only [hdot, if_true, List.mem_cons] at hc
          rcases hc with rfl | hc
          · exact hdotNC
          · exact digit_numCont c (all_mem h2 c hc)
    rw [hip] at hft
    cases he : t.exp with
    | none =>
      have hdot : t.dot = true := by rcases h5 with h | h; exact h; simp [he] at h
      have hext : t.ext = fun c => isNumCont c || c = 'e' || c = 'E' := by
        funext c; simp [FloatText.ext, he]
      have hst : Stop (fun c => isNumCont c || c = 'e' || c = 'E') rest := by
        rw [hext] at hstop; exact hstop
      have hform : t.chars ++ rest = d :: (ds ++ (if t.dot then '.' :: t.fp else [])) ++ rest := by
        simp [FloatText.chars, hip, he]
      rw [hform]
      refine ⟨?_, _, by simpa [FloatText.head, hip] using hhead _⟩
      rw [lexOne_num_core (F := F) d _ rest hd hs (hst.mono (fun c hc => by simp at hc; exact hc.1.1))]
      · rw [eatExponent_none _ rest (hst.mono (fun c hc => by simp at hc; simp [hc]))]
        have hnd : (ds ++ (if t.dot then '.' :: t.fp else [])).all isDigit = false := by
          rw [List.all_eq_false]
          exact ⟨'.', by simp [hdot], by decide⟩
        simp only [hnd, Bool.false_eq_true, if_false]
        rw [he] at hft
        simpa using congrArg (fun x => some (x, rest)) hft
      · intro y hy
        cases ds with
        | nil =>
          have hl : ([] ++ (if t.dot = true then '.' :: t.fp else [])) ++ rest = '.' :: (t.fp ++ rest) := by
            simp [hdot]
          rw [hl]
          refine Or.inr ⟨'.', _, nextChar_plain '.' _ (by decide), ?_⟩
          rcases hy with rfl | rfl <;> decide
        | cons z zs =>
          have hz := hds z (by simp)
          refine Or.inr ⟨z, _, nextChar_plain z _ (ne_of_pred isDigit z '&' hz (by decide)), ?_⟩
          rcases hy with rfl | rfl
          · exact ne_of_pred isDigit z 'x' hz (by decide)
          · exact ne_of_pred isDigit z 'X' hz (by decide)
    | some x =>
      obtain ⟨hne, hxd⟩ := h6 x he
      have hext : t.ext = isDigit := by
        funext c; simp [FloatText.ext, he]
      have hst : Stop isDigit rest := by rw [hext] at hstop; exact hstop
      have hform : t.chars ++ rest = d :: (ds ++ (if t.dot then '.' :: t.fp else [])) ++ (x.chars ++ rest) := by
        simp [FloatText.chars, hip, he]
      rw [hform]
      refine ⟨?_, _, by simpa [FloatText.head, hip] using hhead _⟩
      obtain ⟨c, hc1, hc2⟩ := expChars_head x rest
      have hcn : isNumCont c = false := by rcases hc2 with rfl | rfl <;> decide
      rw [lexOne_num_core (F := F) d _ (x.chars ++ rest) hd hs (Or.inr ⟨c, _, hc1, hcn⟩)]
      · rw [eatExponent_some x hne hxd rest hst _ (by simp [ExpPart.chars]; omega)]
        rw [he] at hft
        simpa using congrArg (fun x => some (x, rest)) hft
      · intro y hy
        apply first_of _ _ (all_mem hs) y (by rcases hy with rfl | rfl <;> decide)
        refine Or.inr ⟨c, _, hc1, ?_⟩
        rcases hy with rfl | rfl <;> rcases hc2 with rfl | rfl <;> decide
  | nil =>
    have hfp : t.fp ≠ [] := by rcases h4 with h | h; exact absurd hip h; exact h
    have hdot : t.dot = true := by
      cases hd : t.dot with
      | true => rfl
      | false => exact absurd (h3 hd) hfp
    rw [hip, hdot] at hft
    simp only [if_true, List.nil_append] at hft
    have hhead : ∀ r, nextChar ('.' :: r) = some ('.', r) := fun r => nextChar_plain '.' r (by decide)
    cases he : t.exp with
    | none =>
      have hext : t.ext = fun c => isNumCont c || c = 'e' || c = 'E' := by
        funext c; simp [FloatText.ext, he]
      have hst : Stop (fun c => isNumCont c || c = 'e' || c = 'E') rest := by
        rw [hext] at hstop; exact hstop
      have hform : t.chars ++ rest = '.' :: t.fp ++ rest := by
        simp [FloatText.chars, hip, he, hdot]
      rw [hform]
      refine ⟨?_, _, by simpa [FloatText.head, hip] using hhead _⟩
      rw [lexOne_dot_core (F := F) t.fp rest h2
        (hst.mono (fun c hc => by simp at hc; exact digit_numCont' c hc.1.1))]
      rw [eatExponent_none _ rest (hst.mono (fun c hc => by simp at hc; simp [hc]))]
      rw [he] at hft
      simpa using congrArg (fun x => some (x, rest)) hft
    | some x =>
      obtain ⟨hne, hxd⟩ := h6 x he
      have hext : t.ext = isDigit := by
        funext c; simp [FloatText.ext, he]
      have hst : Stop isDigit rest := by rw [hext] at hstop; exact hstop
      have hform : t.chars ++ rest = '.' :: t.fp ++ (x.chars ++ rest) := by
        simp [FloatText.chars, hip, he, hdot]
      rw [hform]
      refine ⟨?_, _, by simpa [FloatText.head, hip] using hhead _⟩
      obtain ⟨c, hc1, hc2⟩ := expChars_head x rest
      have hcn : isDigit c = false := by rcases hc2 with rfl | rfl <;> decide
      rw [lexOne_dot_core (F := F) t.fp (x.chars ++ rest) h2 (Or.inr ⟨c, _, hc1, hcn⟩)]
      rw [eatExponent_some x hne hxd rest hst _ (by simp [ExpPart.chars]; omega)]
      rw [he] at hft
      simpa using congrArg (fun x => some (x, rest)) hft

theorem floatChars_ascii (t : FloatText) (hok : t.Ok) : ∀ c ∈ t.chars, c.toNat < 128 := by
  obtain ⟨h1, h2, _, _, _, h6⟩ := hok
  have dg : ∀ c, isDigit c = true → c.toNat < 128 := fun c h => by have := digit_range c h; omega
  intro c hc
  simp only [FloatText.chars, List.mem_append] at hc
  rcases hc with hc | hc | hc
  · exact dg c (all_mem h1 c hc)
  · cases hdot : t.dot
    · simp [hdot] at hc
    · simp only [hdot, if_true, List.mem_cons] at hc
      rcases hc with rfl | hc
      · decide
      · exact dg c (all_mem h2 c hc)
  · cases he : t.exp with
    | none => simp [he] at hc
    | some x =>
      simp only [he, ExpPart.chars, ExpPart.signChars, List.mem_cons, List.mem_append] at hc
      rcases hc with rfl | hc | hc
      · cases x.bigE <;> decide
      · cases hs : x.sign with
        | none => simp [hs] at hc
        | some b => cases b <;> simp [hs] at hc <;> (rw [hc]; decide)
      · exact dg c (all_mem (h6 x he).2 c hc)

end CamVerif.Formula.Proofs
