/-
C04 helper lemmas, part 6: feature-level declarations.  A register that lists a FEATURE on the
path of the operation has no cache entry from the moment the feature invalidates itself until
the device write, provided the operation does not touch it (footprint); the simulation then
goes through with `PairOk` supplied by `regOk` instead of `Declared`.
-/
import CamVerif.Proofs.C04Keeps
namespace CamVerif.C04
open CamVerif CamVerif.Cache

/-- the registers in `S` have no cache entry -/
def AbsS (S : NodeId → Prop) (c : Store) : Prop := ∀ t, S t → ∀ a l, c.get t a l = none

section KA
variable {p : Profile} {g : Graph} {S : NodeId → Prop}

theorem absS_invBy (c : Store) (n : NodeId) (h : AbsS S c) : AbsS S (c.invalidateBy n) :=
  fun t ht a l => by rw [get_invalidateBy]; split; rfl; exact h t ht a l

theorem absS_invOf (c : Store) (n : NodeId) (h : AbsS S c) : AbsS S (c.invalidateOf n) :=
  fun t ht a l => by rw [get_invalidateOf]; split; rfl; exact h t ht a l

theorem absS_cache (c : Store) {n : NodeId} (hS : ¬ S n) (a : Int) (l : Nat) (d : Bytes)
    (h : AbsS S c) : AbsS S (c.cache n a l d) :=
  fun t ht a' l' => by
    rw [get_cache]
    split
    · rename_i e
      exact absurd (e.1 ▸ ht) hS
    · exact h t ht a' l'

theorem kA_invBy (n : NodeId) : Keeps (AbsS S) (invBy defaultCache n) :=
  fun s hs => absS_invBy _ n hs

theorem kA_invOf (n : NodeId) : Keeps (AbsS S) (invOf defaultCache n) :=
  fun s hs => absS_invOf _ n hs

theorem kA_readAndCache {n : NodeId} (hS : ¬ S n) (r : Reg) (a : Int) (buflen : Nat) :
    Keeps (AbsS S) (readAndCache defaultCache g n r a buflen) := by
  intro s hs
  rw [readAndCache_eq]
  split
  · exact hs
  split
  · split
    · dsimp only
      split
      · exact absS_cache _ hS _ _ _ hs
      · exact hs
    · exact hs
  · exact hs

theorem kA_cachedRead {n : NodeId} (hS : ¬ S n) (r : Reg) (a : Int) :
    Keeps (AbsS S) (cachedRead defaultCache g n r a) := by
  intro s hs
  unfold cachedRead
  split
  · exact hs
  · exact kA_readAndCache hS r a r.len s hs

theorem kA_writeAt {n : NodeId} (hS : ¬ S n) (r : Reg) (a : Int) (buf : Bytes) :
    Keeps (AbsS S) (writeAt defaultCache g n r a buf) := by
  intro s hs
  rw [writeAt_eq]
  have h2 := absS_invBy _ r.port (absS_invBy _ n hs)
  split
  · dsimp only
    split
    · exact absS_cache _ hS _ _ _ (absS_invOf _ n h2)
    · exact absS_invOf _ n h2
  · exact absS_invBy _ n hs

theorem kA_regAddr {ev : NodeId → M Store Int} (r : Reg)
    (hev : ∀ s off, r.sel = some (s, off) → Keeps (AbsS S) (ev s)) :
    Keeps (AbsS S) (regAddr p ev r) := by
  unfold regAddr
  cases hs : r.sel with
  | none => exact keeps_pure _
  | some so =>
    obtain ⟨s, off⟩ := so
    exact keeps_bind (hev s off hs) (fun k => keeps_bind (keeps_lift _) (fun _ => keeps_lift _))

theorem kA_evalInt (fuel : Nat) :
    ∀ n, (∀ x, x ∈ cone g fuel n → ¬ S x) → Keeps (AbsS S) (evalInt defaultCache p g fuel n) := by
  induction fuel with
  | zero => intro n _; simp only [evalInt]; exact keeps_panic
  | succ f ih =>
    intro n hc
    simp only [evalInt]
    cases hn : g[n]? with
    | none => exact keeps_panic
    | some nd =>
      cases nd with
      | port => exact keeps_fail _
      | command _ _ => exact keeps_fail _
      | boolean _ _ _ => exact keeps_fail _
      | ctls _ => exact keeps_fail _
      | integer pv _ =>
        refine ih pv (fun x hx => hc x ?_)
        simp only [cone, hn]; exact hx
      | enumeration pv _ =>
        refine ih pv (fun x hx => hc x ?_)
        simp only [cone, hn]; exact hx
      | reg r =>
        dsimp only
        have hSn : ¬ S n := hc n (by simp only [cone, hn]; exact List.mem_cons_self)
        have hw : Keeps (AbsS S) (withCacheOrRead defaultCache p g (evalInt defaultCache p g f) n r) := by
          unfold withCacheOrRead
          refine keeps_bind (kA_regAddr r (fun s off hs => ih s (fun x hx => hc x ?_)))
            (fun a => kA_cachedRead hSn r a)
          simp only [cone, hn, hs]
          exact List.mem_cons_of_mem _ hx
        cases r.kind with
        | int e s => exact keeps_bind hw (fun _ => keeps_lift _)
        | masked e s lsb msb =>
          dsimp only
          refine keeps_bind hw (fun _ => ?_)
          refine keeps_bind (keeps_lift _) (fun _ => ?_)
          refine keeps_bind (keeps_lift _) (fun lw => ?_)
          obtain ⟨l, w⟩ := lw
          exact keeps_pure _
        | float _ => exact keeps_fail _
        | string => exact keeps_fail _
        | raw => exact keeps_fail _

end KA

/-! ### simulation with an absence precondition -/

section SimA
variable {p : Profile} {g : Graph}

/-- like `Sim`, started in a cached state where the registers `S` have no entry and ending in
one where the registers `S'` have none -/
def SimA (p : Profile) (g : Graph) {α : Type} (S S' : NodeId → Prop) (mC : M Store α)
    (mU : M Unit α) : Prop :=
  ∀ sC sU, Rel p g sC sU → AbsS S sC.cache →
    (mC sC).1 = (mU sU).1 ∧ Rel p g (mC sC).2 (mU sU).2 ∧ AbsS S' (mC sC).2.cache

theorem simA_of {α : Type} {P : α → Prop} {S : NodeId → Prop} {mC : M Store α} {mU : M Unit α}
    (h : Sim p g P mC mU) (hk : Keeps (AbsS S) mC) : SimA p g S S mC mU := by
  intro sC sU hR hA
  obtain ⟨h1, h2, _⟩ := h sC sU hR
  exact ⟨h1, h2, hk sC hA⟩

theorem simA_bind {α β : Type} {S S' S'' : NodeId → Prop} {mC : M Store α} {mU : M Unit α}
    {fC : α → M Store β} {fU : α → M Unit β} (hm : SimA p g S S' mC mU)
    (hf : ∀ a, SimA p g S' S'' (fC a) (fU a)) (hw : ∀ t, S'' t → S' t) :
    SimA p g S S'' (mC >>= fC) (mU >>= fU) := by
  intro sC sU hR hA
  obtain ⟨h1, h2, h3⟩ := hm sC sU hR hA
  rw [bind_apply, bind_apply, ← h1]
  cases hC : (mC sC).1 with
  | ok a => exact hf a _ _ h2 h3
  | err e => exact ⟨rfl, h2, fun t ht => h3 t (hw t ht)⟩
  | panic => exact ⟨rfl, h2, fun t ht => h3 t (hw t ht)⟩

theorem simA_post {α : Type} {S S' S'' : NodeId → Prop} {mC : M Store α} {mU : M Unit α}
    (h : SimA p g S S' mC mU) (hw : ∀ t, S'' t → S' t) : SimA p g S S'' mC mU := by
  intro sC sU hR hA
  obtain ⟨h1, h2, h3⟩ := h sC sU hR hA
  exact ⟨h1, h2, fun t ht => h3 t (hw t ht)⟩

theorem simA_fail {α : Type} {S : NodeId → Prop} (e : Err) :
    SimA p g S S (M.fail e : M Store α) (M.fail e) :=
  simA_of (P := fun _ => True) (sim_fail e) (keeps_fail e)

theorem simA_panic {α : Type} {S : NodeId → Prop} :
    SimA p g S S (M.panic : M Store α) M.panic :=
  simA_of (P := fun _ => True) sim_panic keeps_panic

theorem simA_pure {α : Type} {S : NodeId → Prop} (a : α) :
    SimA p g S S (M.pure a : M Store α) (M.pure a) :=
  simA_of (P := fun _ => True) (sim_pure a trivial) (keeps_pure a)

theorem simA_lift {α : Type} {S : NodeId → Prop} (r : R α) :
    SimA p g S S (M.lift r : M Store α) (M.lift r) :=
  simA_of (P := fun _ => True) (sim_lift r (fun _ _ => trivial)) (keeps_lift r)

theorem simA_ite {α : Type} {S S' : NodeId → Prop} {c : Prop} [Decidable c] {aC bC : M Store α}
    {aU bU : M Unit α} (h1 : SimA p g S S' aC aU) (h2 : SimA p g S S' bC bU) :
    SimA p g S S' (if c then aC else bC) (if c then aU else bU) := by
  split <;> assumption

/-- the registers outside the footprint (`U`) that list one of the features `J` -/
def SJ (g : Graph) (U : NodeId → Bool) (J : List NodeId) (t : NodeId) : Prop :=
  U t = true ∧ ∃ rt, g[t]? = some (.reg rt) ∧ ∃ j, j ∈ J ∧ j ∈ rt.invs

theorem sJ_mono {U : NodeId → Bool} {J : List NodeId} (n : NodeId) (t : NodeId)
    (h : SJ g U J t) : SJ g U (n :: J) t := by
  obtain ⟨h1, rt, h2, j, h3, h4⟩ := h
  exact ⟨h1, rt, h2, j, List.mem_cons_of_mem _ h3, h4⟩

/-- a feature invalidates itself: afterwards its listers outside the footprint have no entry -/
theorem simA_invBy_feature (U : NodeId → Bool) (J : List NodeId) (n : NodeId) :
    SimA p g (SJ g U J) (SJ g U (n :: J)) (invBy defaultCache n) (invBy sinkCache n) := by
  intro sC sU hR hA
  refine ⟨rfl, ⟨hR.1, inv_invalidateBy hR.2 n⟩, ?_⟩
  intro t ht a l
  show (Store.invalidateBy sC.cache n).get t a l = none
  rw [get_invalidateBy]
  split
  · rfl
  · rename_i hnt
    obtain ⟨h1, rt, h2, j, h3, h4⟩ := ht
    rcases List.mem_cons.mp h3 with rfl | h3
    · exact absurd (hR.2.table t rt j h2 h4) hnt
    · exact hA t ⟨h1, rt, h2, j, h3, h4⟩ a l

/-- `regOk` gives `PairOk` in every state where the listers of `J` have no entry -/
theorem pairOk_of_regOk {U : NodeId → Bool} {J : List NodeId} {n : NodeId} {r : Reg}
    (h : regOk p g U J n r = true) {c : Store} (hA : AbsS (SJ g U J) c) : PairOk p g c n r := by
  intro t rt a' l' bs hrt hmode h1 h2 hget
  unfold regOk at h
  rw [List.all_eq_true] at h
  have := h t (List.mem_range.mpr (lt_length_of_getElem? hrt))
  rw [hrt] at this
  simp only [Bool.or_eq_true, beq_iff_eq, Bool.not_eq_true', List.contains_iff_mem,
    Bool.and_eq_true, List.any_eq_true] at this
  rcases this with (((h | h) | h) | h) | h
  · exact absurd h hmode
  · exact h
  · exact absurd h h1
  · exact absurd h h2
  · obtain ⟨hu, j, hj, hl⟩ := h
    have := hA t ⟨hu, rt, hrt, j, hj, hl⟩ a' l'
    rw [this] at hget
    cases hget

theorem simA_writeAt {S : NodeId → Prop} {n : NodeId} {r : Reg} {a : Int} {buf : Bytes}
    (hn : g[n]? = some (.reg r)) (hk : KeyAddr p g r a) (hlen : buf.length = r.len)
    (hS : ¬ S n) (hP : ∀ c, AbsS S c → PairOk p g c n r) :
    SimA p g S S (writeAt defaultCache g n r a buf) (writeAt sinkCache g n r a buf) := by
  intro sC sU hR hA
  obtain ⟨h1, h2⟩ := sim_writeAt_at hn hk hlen hR (hP _ hA)
  exact ⟨h1, h2, kA_writeAt hS r a buf sC hA⟩


theorem simA_writeAndCache {S : NodeId → Prop} (f : Nat) {n : NodeId} {r : Reg}
    (hn : g[n]? = some (.reg r)) (hS : ¬ S n)
    (hsel : ∀ s off, r.sel = some (s, off) → ∀ x, x ∈ cone g f s → ¬ S x)
    (hP : ∀ c, AbsS S c → PairOk p g c n r) (buf : Bytes) :
    SimA p g S S (writeAndCache defaultCache p g (evalInt defaultCache p g f) n r buf)
      (writeAndCache sinkCache p g (evalInt sinkCache p g f) n r buf) := by
  unfold writeAndCache
  by_cases h : buf.length ≠ r.len
  · rw [if_pos h, if_pos h]
    exact simA_fail _
  · rw [if_neg h, if_neg h]
    have hlen : buf.length = r.len := Classical.byContradiction h
    intro sC sU hR hA
    obtain ⟨h1, h2, h3⟩ := sim_regAddr (p := p) (g := g) (sim_evalInt f) r sC sU hR
    have hA' := kA_regAddr (p := p) r (fun s off hs => kA_evalInt (p := p) f s (hsel s off hs)) sC hA
    rw [bind_apply, bind_apply, ← h1]
    cases hC : (regAddr p (evalInt defaultCache p g f) r sC).1 with
    | ok a => exact simA_writeAt hn (h3 a hC) hlen hS hP _ _ h2 hA'
    | err e => exact ⟨rfl, h2, hA'⟩
    | panic => exact ⟨rfl, h2, hA'⟩

theorem simA_withCacheOrRead {S : NodeId → Prop} (f : Nat) {n : NodeId} {r : Reg}
    (hn : g[n]? = some (.reg r)) (hS : ¬ S n)
    (hsel : ∀ s off, r.sel = some (s, off) → ∀ x, x ∈ cone g f s → ¬ S x) :
    SimA p g S S (withCacheOrRead defaultCache p g (evalInt defaultCache p g f) n r)
      (withCacheOrRead sinkCache p g (evalInt sinkCache p g f) n r) := by
  refine simA_of (sim_withCacheOrRead (sim_evalInt f) hn) ?_
  unfold withCacheOrRead
  exact keeps_bind (kA_regAddr r (fun s off hs => kA_evalInt f s (hsel s off hs)))
    (fun a => kA_cachedRead hS r a)

theorem simA_forEachM {S : NodeId → Prop} {fC : NodeId → M Store Unit} {fU : NodeId → M Unit Unit}
    (cs : List NodeId) (hf : ∀ c, c ∈ cs → SimA p g S S (fC c) (fU c)) :
    SimA p g S S (forEachM fC cs) (forEachM fU cs) := by
  induction cs with
  | nil => exact simA_pure _
  | cons c cs ih =>
    exact simA_bind (hf c List.mem_cons_self)
      (fun _ => ih (fun c' hc' => hf c' (List.mem_cons_of_mem _ hc'))) (fun _ h => h)

theorem not_sJ_of_unprotected {U : NodeId → Bool} {J : List NodeId} {x : NodeId}
    (h : U x = false) : ¬ SJ g U J x := fun hs => by
  have h1 := hs.1
  rw [h] at h1
  cases h1

/-- register case shared by `setInt` and the typed register writes -/
theorem simA_regWrite (U : NodeId → Bool) (J : List NodeId) (f : Nat) {n : NodeId} {r : Reg}
    (hn : g[n]? = some (.reg r)) (hv : regOk p g U J n r = true) (hU : U n = false)
    (hsel : ∀ s off, r.sel = some (s, off) → ∀ x, x ∈ cone g f s → U x = false) (buf : Bytes) :
    SimA p g (SJ g U J) (SJ g U J)
      (writeAndCache defaultCache p g (evalInt defaultCache p g f) n r buf)
      (writeAndCache sinkCache p g (evalInt sinkCache p g f) n r buf) :=
  simA_writeAndCache f hn (not_sJ_of_unprotected hU)
    (fun s off hs x hx => not_sJ_of_unprotected (hsel s off hs x hx))
    (fun _ hA => pairOk_of_regOk hv hA) buf

theorem simA_setInt (U : NodeId → Bool) (fuel : Nat) :
    ∀ J n v, viaOk p g U fuel J n = true → (∀ x, x ∈ wcone g fuel n → U x = false) →
      SimA p g (SJ g U J) (SJ g U J) (setInt defaultCache p g fuel n v)
        (setInt sinkCache p g fuel n v) := by
  induction fuel with
  | zero => intro J n v _ _; simp only [setInt]; exact simA_panic
  | succ f ih =>
    intro J n v hv hc
    simp only [setInt]
    cases hn : g[n]? with
    | none => exact simA_panic
    | some nd =>
      cases nd with
      | port => exact simA_fail _
      | command _ _ => exact simA_fail _
      | boolean _ _ _ => exact simA_fail _
      | ctls _ => exact simA_fail _
      | integer pv cs =>
        dsimp only
        simp only [viaOk, hn, Bool.and_eq_true, List.all_eq_true] at hv
        have hcp : ∀ x, x ∈ wcone g f pv → U x = false := fun x hx => hc x (by
          simp only [wcone, hn]; exact List.mem_append_left _ hx)
        have hcc : ∀ c, c ∈ cs → ∀ x, x ∈ wcone g f c → U x = false := fun c hcm x hx => hc x (by
          simp only [wcone, hn]
          exact List.mem_append_right _ (List.mem_flatMap.mpr ⟨c, hcm, hx⟩))
        have body : SimA p g (SJ g U (n :: J)) (SJ g U (n :: J))
            (setInt defaultCache p g f pv v >>= fun _ =>
              forEachM (fun c => setInt defaultCache p g f c v) cs)
            (setInt sinkCache p g f pv v >>= fun _ =>
              forEachM (fun c => setInt sinkCache p g f c v) cs) :=
          simA_bind (ih (n :: J) pv v hv.1 hcp)
            (fun _ => simA_forEachM cs (fun c hcm => ih (n :: J) c v (hv.2 c hcm) (hcc c hcm)))
            (fun _ h => h)
        exact simA_post (simA_bind (simA_invBy_feature U J n) (fun _ => body) (fun _ h => h))
          (sJ_mono n)
      | enumeration pv vals =>
        dsimp only
        simp only [viaOk, hn] at hv
        have hcp : ∀ x, x ∈ wcone g f pv → U x = false := fun x hx => hc x (by
          simp only [wcone, hn]; exact hx)
        refine simA_ite ?_ (simA_fail _)
        exact simA_post (simA_bind (simA_invBy_feature U J n)
          (fun _ => ih (n :: J) pv v hv hcp) (fun _ h => h)) (sJ_mono n)
      | reg r =>
        dsimp only
        simp only [viaOk, hn] at hv
        have hU : U n = false := hc n (by simp only [wcone, hn]; exact List.mem_cons_self)
        have hsel : ∀ s off, r.sel = some (s, off) → ∀ x, x ∈ cone g f s → U x = false :=
          fun s off hs x hx => hc x (by
            simp only [wcone, hn, hs]; exact List.mem_cons_of_mem _ hx)
        have hinv : SimA p g (SJ g U J) (SJ g U J) (invBy defaultCache n) (invBy sinkCache n) :=
          simA_of (sim_invBy n) (kA_invBy n)
        cases hk : r.kind with
        | int e s =>
          dsimp only
          refine simA_bind hinv (fun _ => ?_) (fun _ h => h)
          refine simA_bind (simA_lift _) (fun buf => ?_) (fun _ h => h)
          exact simA_regWrite U J f hn hv hU hsel buf
        | masked e s lsb msb =>
          dsimp only
          refine simA_bind hinv (fun _ => ?_) (fun _ h => h)
          refine simA_bind (simA_withCacheOrRead f hn (not_sJ_of_unprotected hU)
            (fun s off hs x hx => not_sJ_of_unprotected (hsel s off hs x hx))) (fun bs => ?_)
            (fun _ h => h)
          refine simA_bind (simA_lift _) (fun old => ?_) (fun _ h => h)
          refine simA_bind (simA_lift _) (fun lw => ?_) (fun _ h => h)
          obtain ⟨l, w⟩ := lw
          dsimp only
          refine simA_bind (simA_lift _) (fun nv => ?_) (fun _ h => h)
          refine simA_bind (simA_lift _) (fun buf => ?_) (fun _ h => h)
          exact simA_regWrite U J f hn hv hU hsel buf
        | float _ => exact simA_fail _
        | string => exact simA_fail _
        | raw => exact simA_fail _


/-! ### operations and histories -/

theorem absS_nil (U : NodeId → Bool) (c : Store) : AbsS (SJ g U []) c :=
  fun t ht _ _ => by
    obtain ⟨_, _, _, j, hj, _⟩ := ht
    cases hj

theorem prot_wcone_lo (e x : NodeId) (h : x ∈ wcone g (fuelOf g) e) : protectedOf g e x = false := by
  unfold protectedOf footprint
  simp only [Bool.not_eq_false', List.contains_iff_mem]
  exact List.mem_append_left _ h

theorem prot_wcone_hi (e x : NodeId) (h : x ∈ wcone g (fuelOf g + 1) e) :
    protectedOf g e x = false := by
  unfold protectedOf footprint
  simp only [Bool.not_eq_false', List.contains_iff_mem]
  exact List.mem_append_right _ h

/-- a typed / raw register write at entry register `n` -/
theorem simA_regWrite_entry {n : NodeId} {r : Reg} (hn : g[n]? = some (.reg r))
    (hv : regOk p g (protectedOf g n) [] n r = true) (buf : Bytes) :
    SimA p g (SJ g (protectedOf g n) []) (SJ g (protectedOf g n) [])
      (writeAndCache defaultCache p g (evalInt defaultCache p g (fuelOf g)) n r buf)
      (writeAndCache sinkCache p g (evalInt sinkCache p g (fuelOf g)) n r buf) := by
  refine simA_regWrite _ [] (fuelOf g) hn hv (prot_wcone_hi n n ?_) (fun s off hs x hx => prot_wcone_hi n x ?_) buf
  · simp only [wcone, hn]; exact List.mem_cons_self
  · simp only [wcone, hn, hs]; exact List.mem_cons_of_mem _ hx

theorem run_of_simA {α : Type} {S S' : NodeId → Prop} {mC : M Store α} {mU : M Unit α}
    (h : SimA p g S S' mC mU) {sC : St Store} {sU : St Unit} (hR : Rel p g sC sU)
    (hA : AbsS S sC.cache) : (mC sC).1 = (mU sU).1 ∧ Rel p g (mC sC).2 (mU sU).2 :=
  ⟨(h sC sU hR hA).1, (h sC sU hR hA).2.1⟩

theorem run_of_sim {α : Type} {P : α → Prop} {mC : M Store α} {mU : M Unit α}
    (h : Sim p g P mC mU) {sC : St Store} {sU : St Unit} (hR : Rel p g sC sU) :
    (mC sC).1 = (mU sU).1 ∧ Rel p g (mC sC).2 (mU sU).2 :=
  ⟨(h sC sU hR).1, (h sC sU hR).2.1⟩

/-- one public operation under `opOk` -/
theorem sim_run_via (op : Op) (hop : opOk p g op = true) {sC : St Store} {sU : St Unit}
    (hR : Rel p g sC sU) :
    (run defaultCache p g sC op).1 = (run sinkCache p g sU op).1 ∧
      Rel p g (run defaultCache p g sC op).2 (run sinkCache p g sU op).2 := by
  unfold run
  cases op with
  | value n => exact run_of_sim (sim_opValue (fuelOf g) n) hR
  | read n l => exact run_of_sim (sim_opRead (fuelOf g) n l) hR
  | isDone n => exact run_of_sim (sim_opIsDone (fuelOf g) n) hR
  | address n => exact run_of_sim (sim_opAddress (fuelOf g) n) hR
  | isReadable n => exact run_of_sim (sim_opIsReadable (fuelOf g) n) hR
  | isWritable n => exact run_of_sim (sim_opIsWritable (fuelOf g) n) hR
  | portRead n a l =>
    exact run_of_sim (sim_bind (sim_portRead n a l) (fun bs _ => sim_pure (P := fun _ => True) _ trivial)) hR
  | clearCache =>
    exact run_of_sim (sim_bind sim_clearCache (fun _ _ => sim_pure (P := fun _ => True) _ trivial)) hR
  | portWrite n a d =>
    have hP : PortDeclared g n := hop
    exact run_of_sim (sim_bind (sim_portWrite hP a d) (fun _ _ => sim_pure (P := fun _ => True) _ trivial)) hR
  | write n d =>
    simp only [evalOp, opWrite]
    cases hn : g[n]? with
    | none => exact run_of_sim (P := fun _ => True) (sim_fail _) hR
    | some nd =>
      cases nd with
      | reg r =>
        simp only [opOk, hn] at hop
        exact run_of_simA (simA_bind (simA_regWrite_entry hn hop d) (fun _ => simA_pure _) (fun _ h => h))
          hR (absS_nil _ _)
      | _ => exact run_of_sim (P := fun _ => True) (sim_fail _) hR
  | execute n =>
    simp only [evalOp, opExecute]
    cases hn : g[n]? with
    | none => exact run_of_sim (P := fun _ => True) (sim_fail _) hR
    | some nd =>
      cases nd with
      | command pv cv =>
        simp only [opOk, hn] at hop
        have h := simA_bind (simA_invBy_feature (p := p) (protectedOf g pv) [] n)
          (fun _ => simA_bind (simA_setInt (protectedOf g pv) (fuelOf g) [n] pv cv hop
              (fun x hx => prot_wcone_lo pv x hx))
            (fun _ => simA_pure Val.unit) (fun _ h => h)) (fun _ h => h)
        exact run_of_simA h hR (absS_nil _ _)
      | _ => exact run_of_sim (P := fun _ => True) (sim_fail _) hR
  | setValue n v =>
    simp only [evalOp, opSetValue]
    cases hn : g[n]? with
    | none => exact run_of_sim (P := fun _ => True) (sim_fail _) hR
    | some nd =>
      have hset : ∀ i, viaOk p g (protectedOf g n) (fuelOf g) [] n = true →
          ((setInt defaultCache p g (fuelOf g) n i >>= fun _ => (M.pure Val.unit : M Store Val)) sC).1 =
            ((setInt sinkCache p g (fuelOf g) n i >>= fun _ => (M.pure Val.unit : M Unit Val)) sU).1 ∧
          Rel p g
            ((setInt defaultCache p g (fuelOf g) n i >>= fun _ => (M.pure Val.unit : M Store Val)) sC).2
            ((setInt sinkCache p g (fuelOf g) n i >>= fun _ => (M.pure Val.unit : M Unit Val)) sU).2 :=
        fun i hv => run_of_simA (simA_bind (simA_setInt (protectedOf g n) (fuelOf g) [] n i hv
            (fun x hx => prot_wcone_lo n x hx)) (fun _ => simA_pure Val.unit) (fun _ h => h))
          hR (absS_nil _ _)
      cases nd with
      | port => exact run_of_sim (P := fun _ => True) (sim_fail _) hR
      | command _ _ => exact run_of_sim (P := fun _ => True) (sim_fail _) hR
      | ctls _ => exact run_of_sim (P := fun _ => True) (sim_fail _) hR
      | integer pv cs =>
        simp only [opOk, hn] at hop
        cases v with
        | int i => exact hset i hop
        | _ => exact run_of_sim (P := fun _ => True) (sim_fail _) hR
      | enumeration pv vals =>
        simp only [opOk, hn] at hop
        cases v with
        | int i => exact hset i hop
        | _ => exact run_of_sim (P := fun _ => True) (sim_fail _) hR
      | boolean pv on off =>
        simp only [opOk, hn] at hop
        cases v with
        | bool b =>
          have h := simA_bind (simA_invBy_feature (p := p) (protectedOf g pv) [] n)
            (fun _ => simA_bind (simA_setInt (protectedOf g pv) (fuelOf g) [n] pv
                (if b then on else off) hop (fun x hx => prot_wcone_lo pv x hx))
              (fun _ => simA_pure Val.unit) (fun _ h => h)) (fun _ h => h)
          exact run_of_simA h hR (absS_nil _ _)
        | _ => exact run_of_sim (P := fun _ => True) (sim_fail _) hR
      | reg r =>
        simp only [opOk, hn] at hop
        have hreg : regOk p g (protectedOf g n) [] n r = true := by
          simpa only [fuelOf, viaOk, hn] using hop
        have hinv : SimA p g (SJ g (protectedOf g n) []) (SJ g (protectedOf g n) [])
            (invBy defaultCache n) (invBy sinkCache n) := simA_of (sim_invBy n) (kA_invBy n)
        dsimp only
        cases hk : r.kind with
        | int e s =>
          cases v with
          | int i => exact hset i hop
          | _ => exact run_of_sim (P := fun _ => True) (sim_fail _) hR
        | masked e s lsb msb =>
          cases v with
          | int i => exact hset i hop
          | _ => exact run_of_sim (P := fun _ => True) (sim_fail _) hR
        | float e =>
          cases v with
          | flt w bits =>
            exact run_of_simA (simA_bind hinv (fun _ => simA_bind (simA_lift _) (fun buf =>
              simA_bind (simA_regWrite_entry hn hreg buf) (fun _ => simA_pure Val.unit)
                (fun _ h => h)) (fun _ h => h)) (fun _ h => h)) hR (absS_nil _ _)
          | _ => exact run_of_sim (P := fun _ => True) (sim_fail _) hR
        | string =>
          cases v with
          | str sb =>
            exact run_of_simA (simA_bind (simA_lift _) (fun buf => simA_bind hinv (fun _ =>
              simA_bind (simA_regWrite_entry hn hreg buf) (fun _ => simA_pure Val.unit)
                (fun _ h => h)) (fun _ h => h)) (fun _ h => h)) hR (absS_nil _ _)
          | _ => exact run_of_sim (P := fun _ => True) (sim_fail _) hR
        | raw => cases v <;> exact run_of_sim (P := fun _ => True) (sim_fail _) hR

/-- a whole history, declared operation by operation -/
theorem sim_runHist_via (h : List Op) (hH : declaredForB p g h = true) :
    ∀ {sC : St Store} {sU : St Unit}, Rel p g sC sU →
      (runHist defaultCache p g sC h).1 = (runHist sinkCache p g sU h).1 ∧
        Rel p g (runHist defaultCache p g sC h).2 (runHist sinkCache p g sU h).2 := by
  induction h with
  | nil => intro sC sU hR; exact ⟨rfl, hR⟩
  | cons op rest ih =>
    intro sC sU hR
    simp only [declaredForB, List.all_cons, Bool.and_eq_true] at hH
    obtain ⟨h1, h2⟩ := sim_run_via op hH.1 hR
    rw [runHist_cons, runHist_cons, ← h1]
    obtain ⟨h3, h4⟩ := ih hH.2 h2
    cases hr : (run defaultCache p g sC op).1 with
    | panic => exact ⟨rfl, h2⟩
    | ok v => exact ⟨by dsimp only; rw [h3], h4⟩
    | err e => exact ⟨by dsimp only; rw [h3], h4⟩


/-! ### `Declared` + `HistOk` is the special case without feature-level declarations -/

theorem regOk_of_declared (hD : Declared p g) (U : NodeId → Bool) (J : List NodeId) {n : NodeId}
    {rw : Reg} (hn : g[n]? = some (.reg rw)) : regOk p g U J n rw = true := by
  unfold regOk
  rw [List.all_eq_true]
  intro t ht
  cases hg : g[t]? with
  | none => rfl
  | some nd =>
    cases nd with
    | reg rt =>
      unfold Declared declaredB at hD
      rw [List.all_eq_true] at hD
      have h1 := hD n (List.mem_range.mpr (lt_length_of_getElem? hn))
      rw [List.all_eq_true] at h1
      have h2 := h1 t ht
      unfold pairDeclared at h2
      rw [hn, hg] at h2
      dsimp only at h2 ⊢
      rw [h2]
      rfl
    | _ => rfl

theorem viaOk_of_declared (hD : Declared p g) (U : NodeId → Bool) (fuel : Nat) :
    ∀ J n, viaOk p g U fuel J n = true := by
  induction fuel with
  | zero => intro J n; rfl
  | succ f ih =>
    intro J n
    simp only [viaOk]
    cases hn : g[n]? with
    | none => rfl
    | some nd =>
      cases nd with
      | reg rw => exact regOk_of_declared hD U J hn
      | integer pv cs =>
        dsimp only
        rw [ih, Bool.true_and, List.all_eq_true]
        intro c _
        exact ih _ c
      | enumeration pv _ => exact ih _ pv
      | _ => rfl

theorem declaredFor_of_declared (hD : Declared p g) (h : List Op) (hH : HistOk g h) :
    DeclaredFor p g h := by
  unfold DeclaredFor declaredForB
  rw [List.all_eq_true]
  intro op hop
  cases op with
  | setValue n v =>
    simp only [opOk]
    cases g[n]? with
    | none => exact viaOk_of_declared hD _ _ _ _
    | some nd => cases nd <;> exact viaOk_of_declared hD _ _ _ _
  | execute n =>
    simp only [opOk]
    cases g[n]? with
    | none => rfl
    | some nd => cases nd <;> first | rfl | exact viaOk_of_declared hD _ _ _ _
  | write n d =>
    simp only [opOk]
    cases hn : g[n]? with
    | none => rfl
    | some nd =>
      cases nd with
      | reg rw => exact regOk_of_declared hD _ _ hn
      | _ => rfl
  | portWrite n a d => exact hH n a d hop
  | _ => rfl

end SimA
end CamVerif.C04
