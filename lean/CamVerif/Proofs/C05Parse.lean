/-
Helper lemmas for C05 (parsing): the recursive-descent ladder of the model inverts the
minimal-parenthesis printer of `Spec.Formula`.
-/
import CamVerif.Model.Formula
import CamVerif.Spec.Formula
set_option linter.unusedSectionVars false
namespace CamVerif.Formula.Proofs
open CamVerif CamVerif.Formula CamVerif.Formula.Spec

variable {F : Type} [FloatOps F]

/-! ### `eat` -/

theorem eat_hit (s : Sym) (r : List (Tok F)) : eat s (.sym s :: r) = .ok (true, r) := by
  simp [eat]

theorem eat_miss (s s' : Sym) (r : List (Tok F)) (h : s' ≠ s) :
    eat s (.sym s' :: r) = .ok (false, .sym s' :: r) := by
  simp [eat, h]

/-- Tokens that begin a primary expression. -/
def PrimaryStart : List (Tok F) → Prop
  | .sym .lparen :: _ => True
  | .ident _ :: _ => True
  | .int _ :: _ => True
  | .float _ :: _ => True
  | _ => False

theorem eat_primaryStart (s : Sym) (hs : s ≠ .lparen) (ts : List (Tok F)) (h : PrimaryStart ts) :
    eat s ts = .ok (false, ts) := by
  match ts, h with
  | .sym .lparen :: r, _ => exact eat_miss _ _ _ (fun h => hs h.symm)
  | .ident _ :: _, _ => rfl
  | .int _ :: _, _ => rfl
  | .float _ :: _, _ => rfl

/-! ### what may follow a sub-expression -/

/-- `rest` does not continue a parse at precedence context `ctx`
(13 primary, 12 power, 11 unary, 1..10 ladder rows, 0 whole expression). -/
def Follow (ctx : Nat) (rest : List (Tok F)) : Prop :=
  eat .lparen rest = .ok (false, rest) ∧
  (ctx ≤ 12 → eat .doubleStar rest = .ok (false, rest)) ∧
  (ctx ≤ 11 → ∀ row ∈ ladder.drop (ctx - 1), eatRow row rest = .ok (none, rest)) ∧
  (ctx = 0 → eat .question rest = .ok (false, rest))

theorem Follow.mono {c c' : Nat} {rest : List (Tok F)} (h : Follow c rest) (hc : c ≤ c') (h0 : c' ≠ 0) :
    Follow c' rest := by
  obtain ⟨h1, h2, h3, _⟩ := h
  refine ⟨h1, fun hh => h2 (by omega), fun hh row hrow => h3 (by omega) row ?_, fun hh => absurd hh h0⟩
  have : ladder.drop (c' - 1) = (ladder.drop (c - 1)).drop (c' - 1 - (c - 1)) := by
    rw [List.drop_drop]; congr 1; omega
  rw [this] at hrow
  exact List.mem_of_mem_drop hrow

theorem eatRow_nil (row : Row) : eatRow row ([] : List (Tok F)) = .ok (none, []) := by
  induction row with
  | nil => rfl
  | cons so row ih => obtain ⟨s, o⟩ := so; simp [eatRow, eat, ih]

theorem follow_nil (c : Nat) : Follow c ([] : List (Tok F)) :=
  ⟨rfl, fun _ => rfl, fun _ row _ => eatRow_nil row, fun _ => rfl⟩

theorem eatRow_miss (row : Row) (s : Sym) (r : List (Tok F)) (h : ∀ so ∈ row, so.1 ≠ s) :
    eatRow row (.sym s :: r) = .ok (none, .sym s :: r) := by
  induction row with
  | nil => rfl
  | cons so row ih =>
    obtain ⟨s', o⟩ := so
    have h1 : s ≠ s' := fun hh => h (s', o) (by simp) hh.symm
    simp only [eatRow, eat_miss s' s r h1, Res.bind_ok, Bool.false_eq_true, if_false]
    exact ih (fun so hso => h so (by simp [hso]))

/-- `)`, `:` end every context. -/
theorem follow_close (c : Nat) (s : Sym) (hs : s = .rparen ∨ s = .colon) (r : List (Tok F)) :
    Follow c (.sym s :: r) := by
  refine ⟨eat_miss _ _ _ ?_, fun _ => eat_miss _ _ _ ?_, fun _ row hrow => eatRow_miss _ _ _ ?_,
    fun _ => eat_miss _ _ _ ?_⟩
  · rcases hs with rfl | rfl <;> decide
  · rcases hs with rfl | rfl <;> decide
  · have hrow' : row ∈ ladder := List.mem_of_mem_drop hrow
    have key : ∀ row ∈ ladder, ∀ so ∈ row, so.1 ≠ Sym.rparen ∧ so.1 ≠ Sym.colon := by decide
    intro so hso
    rcases hs with rfl | rfl
    · exact (key row hrow' so hso).1
    · exact (key row hrow' so hso).2
  · rcases hs with rfl | rfl <;> decide


/-! ### the loop of one ladder row -/

/-- first operand, then the loop with `K` units of loop fuel -/
def G (next : P F) (row : Row) (K : Nat) (ts : List (Tok F)) : Res Err (Expr F × List (Tok F)) := do
  let (l, ts') ← next ts
  binLoop next row K l ts'

theorem binLevel_eq (next : P F) (row : Row) (ts : List (Tok F)) :
    binLevel next row ts = G next row (ts.length + 1) ts := rfl

theorem G_ok (next : P F) (row : Row) (K : Nat) (ts rest : List (Tok F)) (x : Expr F)
    (h : next ts = .ok (x, rest)) : G next row K ts = binLoop next row K x rest := by
  simp [G, h]

theorem binLoop_stop (next : P F) (row : Row) (K : Nat) (acc : Expr F) (rest : List (Tok F))
    (h : eatRow row rest = .ok (none, rest)) : binLoop next row (K + 1) acc rest = .ok (acc, rest) := by
  simp [binLoop, h]

theorem binLoop_step (next : P F) (row : Row) (K : Nat) (acc : Expr F) (ts ts' : List (Tok F))
    (op : BinOpKind) (h : eatRow row ts = .ok (some op, ts')) :
    binLoop next row (K + 1) acc ts =
      (next ts' >>= fun r => binLoop next row K (.binOp op acc r.1) r.2) := by
  simp only [binLoop, h, Res.bind_ok]

/-! ### contexts -/

/-- The parser responsible for precedence context `ctx` at recursion fuel `n + 1`. -/
def ctxP (n ctx : Nat) : P F :=
  if ctx = 0 then pExpr (n + 1)
  else if ctx ≤ 11 then ladderP (pUnop (n + 1)) (ladder.drop (ctx - 1))
  else if ctx = 12 then powBody (pUnop n) (pExpr n)
  else primaryBody (pExpr n)

theorem pUnop_succ (n : Nat) : (pUnop (n + 1) : P F) = unopBody (pUnop n) (pExpr n) := by
  simp [pUnop]
theorem pExpr_succ (n : Nat) :
    (pExpr (n + 1) : P F) = exprBody (unopBody (pUnop n) (pExpr n)) (pExpr n) := by
  simp [pExpr]

theorem ctxP_ladder (n c : Nat) (h1 : 1 ≤ c) (h2 : c ≤ 10) :
    (ctxP n c : P F) = binLevel (ctxP n (c + 1)) (ladder.getD (c - 1) []) := by
  have hlen : c - 1 < ladder.length := by simp [ladder]; omega
  have hd : ladder.drop (c - 1) = ladder[c - 1] :: ladder.drop (c - 1 + 1) :=
    List.drop_eq_getElem_cons hlen
  have hc : c - 1 + 1 = c + 1 - 1 := by omega
  unfold ctxP
  rw [if_neg (by omega), if_pos (by omega), if_neg (by omega), if_pos (by omega), hd, hc]
  simp only [ladderP]
  congr 1
  simp [List.getD, hlen]

theorem lift_one (n c : Nat) (hc : c ≤ 12) (ts rest : List (Tok F)) (x : Expr F)
    (h : ctxP n (c + 1) ts = .ok (x, rest)) (hps : c = 11 → PrimaryStart ts)
    (hf : Follow c rest) : ctxP n c ts = .ok (x, rest) := by
  obtain ⟨_, f2, f3, f4⟩ := hf
  by_cases h12 : c = 12
  · subst h12
    simp only [ctxP] at h ⊢
    simp only [show ¬ (13 = 0) by omega, show ¬ (13 ≤ 11) by omega, show ¬ (13 = 12) by omega,
      show ¬ (12 = 0) by omega, show ¬ (12 ≤ 11) by omega, if_false, if_true] at h ⊢
    simp [powBody, h, f2 (by omega)]
  by_cases h11 : c = 11
  · subst h11
    simp only [ctxP] at h ⊢
    simp only [show ¬ (12 = 0) by omega, show ¬ (12 ≤ 11) by omega,
      show ¬ (11 = 0) by omega, show (11 ≤ 11) by omega, if_false, if_true] at h ⊢
    have hd : ladder.drop (11 - 1) = [] := by decide
    rw [hd]
    simp only [ladderP, pUnop_succ]
    have hp := hps rfl
    have e1 := eat_primaryStart .tilde (by decide) ts hp
    have e2 := eat_primaryStart .minus (by decide) ts hp
    have e3 := eat_primaryStart .plus (by decide) ts hp
    simp [unopBody, e1, e2, e3, h]
  by_cases h0 : c = 0
  · subst h0
    simp only [ctxP] at h ⊢
    simp only [show ¬ (0 + 1 = 0) by omega, show (0 + 1 ≤ 11) by omega, if_false, if_true] at h ⊢
    have hd : ladder.drop (0 + 1 - 1) = ladder := rfl
    rw [hd] at h
    rw [pExpr_succ]
    rw [pUnop_succ] at h
    simp [exprBody, h, f4 rfl]
  · rw [ctxP_ladder n c (by omega) (by omega), binLevel_eq, G_ok _ _ _ _ _ _ h]
    apply binLoop_stop
    have hlen : c - 1 < ladder.length := by simp [ladder]; omega
    have hmem : ladder.getD (c - 1) [] ∈ ladder.drop (c - 1) := by
      have hg : ladder.getD (c - 1) [] = ladder[c - 1] := by simp [List.getD, hlen]
      rw [hg, List.drop_eq_getElem_cons hlen]
      exact List.mem_cons_self
    exact f3 (by omega) _ hmem

theorem lift (n : Nat) (k c' : Nat) (hc : c' + k ≤ 13) (ts rest : List (Tok F)) (x : Expr F)
    (h : ctxP n (c' + k) ts = .ok (x, rest)) (hps : c' ≤ 11 → 12 ≤ c' + k → PrimaryStart ts)
    (hf : Follow c' rest) : ctxP n c' ts = .ok (x, rest) := by
  induction k generalizing c' with
  | zero => exact h
  | succ k ih =>
    apply lift_one n c' (by omega) ts rest x _ (fun h11 => hps (by omega) (by omega)) hf
    apply ih (c' + 1) (by omega)
    · rw [show c' + 1 + k = c' + (k + 1) by omega]; exact h
    · intro h1 h2; exact hps (by omega) (by omega)
    · exact hf.mono (by omega) (by omega)


/-! ### facts about the printer and the table -/

theorem prec_range (op : BinOpKind) (h : op ≠ .pow) : 1 ≤ prec op ∧ prec op ≤ 10 := by
  cases op <;> first | (exact absurd rfl h) | decide

theorem prec_pow : prec .pow = 12 := by decide

theorem eatRow_hit (op : BinOpKind) (h : op ≠ .pow) (ts : List (Tok F)) :
    eatRow (ladder.getD (prec op - 1) []) (.sym (symOf op) :: ts) = .ok (some op, ts) := by
  cases op <;> first | (exact absurd rfl h) | rfl

theorem follow_op (op : BinOpKind) (h : op ≠ .pow) (r : List (Tok F)) :
    Follow (prec op + 1) (.sym (symOf op) :: r) := by
  refine ⟨?_, fun _ => ?_, fun _ row hrow => eatRow_miss _ _ _ ?_, fun h0 => by omega⟩
  · cases op <;> first | (exact absurd rfl h) | rfl
  · cases op <;> first | (exact absurd rfl h) | rfl
  · revert row
    cases op <;> first | (exact absurd rfl h) | decide

theorem follow_13 (s : Sym) (hs : s ≠ .lparen) (r : List (Tok F)) : Follow 13 (.sym s :: r) :=
  ⟨eat_miss _ _ _ hs, fun h => by omega, fun h => by omega, fun h => by omega⟩

theorem follow_question (c : Nat) (hc : 1 ≤ c) (r : List (Tok F)) : Follow c (.sym .question :: r) := by
  refine ⟨rfl, fun _ => rfl, fun _ row hrow => eatRow_miss _ _ _ ?_, fun h0 => by omega⟩
  have hrow' : row ∈ ladder := List.mem_of_mem_drop hrow
  have key : ∀ row ∈ ladder, ∀ so ∈ row, so.1 ≠ Sym.question := by decide
  exact key row hrow'

theorem follow_11_of_12 {rest : List (Tok F)} (h : Follow 12 rest) : Follow 11 rest :=
  ⟨h.1, fun _ => h.2.1 (by omega), fun _ row hrow => by simp [ladder] at hrow, fun h0 => by omega⟩

theorem printAt_paren (c : Nat) (hc : c ≤ 13) (e : Expr F) (h : natPrec e < c) :
    printAt c e = .sym .lparen :: (printAt 0 e ++ [.sym .rparen]) := by
  cases e with
  | binOp op l r => simp only [natPrec] at h; simp [printAt, parenIf, h]
  | unOp k x =>
    cases k <;> simp only [natPrec, PRIMARY_PREC, UNARY_PREC] at h <;>
      first | (simp [printAt, parenIf, UNARY_PREC, h]; done) | omega
  | ite c' t e' => simp only [natPrec, TERNARY_PREC] at h; simp [printAt, parenIf, TERNARY_PREC, h]
  | int i => simp only [natPrec, PRIMARY_PREC] at h; omega
  | float f => simp only [natPrec, PRIMARY_PREC] at h; omega
  | ident s => simp only [natPrec, PRIMARY_PREC] at h; omega

/-- Without parentheses the printed form does not depend on the context. -/
theorem printAt_raw (c c' : Nat) (e : Expr F) (h : c ≤ natPrec e) (h' : c' ≤ natPrec e) :
    printAt c e = printAt c' e := by
  cases e with
  | binOp op l r =>
    simp only [natPrec] at h h'
    simp [printAt, parenIf, Nat.not_lt.mpr h, Nat.not_lt.mpr h']
  | unOp k x =>
    cases k <;> simp only [natPrec, PRIMARY_PREC, UNARY_PREC] at h h' <;>
      simp [printAt, parenIf, UNARY_PREC, Nat.not_lt.mpr h, Nat.not_lt.mpr h']
  | ite c'' t e' =>
    simp only [natPrec, TERNARY_PREC] at h h'
    simp [printAt, parenIf, TERNARY_PREC, Nat.not_lt.mpr h, Nat.not_lt.mpr h']
  | int i => rfl
  | float f => rfl
  | ident s => rfl

theorem natPrec_le (e : Expr F) : natPrec e ≤ 13 := by
  cases e with
  | binOp op l r => simp only [natPrec]; cases op <;> decide
  | unOp k x => cases k <;> simp only [natPrec] <;> decide
  | ite c t e => simp only [natPrec]; decide
  | int i => simp only [natPrec]; decide
  | float f => simp only [natPrec]; decide
  | ident s => simp only [natPrec]; decide

theorem printAt_length_pos (c : Nat) (e : Expr F) : 0 < (printAt c e).length := by
  cases e with
  | binOp op l r =>
    simp only [printAt, parenIf]
    split <;> split <;> simp <;> omega
  | unOp k x => cases k <;> simp only [printAt, parenIf] <;> (try split) <;> simp
  | ite c t e => simp only [printAt, parenIf]; split <;> simp <;> omega
  | int i => simp [printAt]
  | float f => simp [printAt]
  | ident s => simp [printAt]

theorem primaryStart_printAt (c : Nat) (hc : 12 ≤ c) (e : Expr F) (rest : List (Tok F)) :
    PrimaryStart (printAt c e ++ rest) := by
  induction e generalizing c rest with
  | binOp op l r ihl ihr =>
    by_cases hp : prec op < c
    · simp [printAt, parenIf, hp, PrimaryStart]
    · have hpow : op = .pow := by
        by_cases hne : op = .pow
        · exact hne
        · exfalso
          have := (prec_range op hne).2
          omega
      subst hpow
      simp only [printAt, parenIf, hp, if_true, Bool.false_eq_true, if_false, decide_false,
        List.append_assoc]
      exact ihl PRIMARY_PREC (by decide) _
  | unOp k x ih =>
    cases k <;> simp [printAt, parenIf, UNARY_PREC, show 11 < c by omega, PrimaryStart]
  | ite c' t e' => simp [printAt, parenIf, TERNARY_PREC, show 0 < c by omega, PrimaryStart]
  | int i => simp [printAt, PrimaryStart]
  | float f => simp [printAt, PrimaryStart]
  | ident s => simp [printAt, PrimaryStart]


/-! ### from the natural context to every context -/

theorem ctxP_0 (m : Nat) : (ctxP m 0 : P F) = pExpr (m + 1) := by simp [ctxP]
theorem ctxP_11 (m : Nat) : (ctxP m 11 : P F) = pUnop (m + 1) := by
  have hd : ladder.drop (11 - 1) = [] := by decide
  simp [ctxP, hd, ladderP]
theorem ctxP_12 (n : Nat) : (ctxP n 12 : P F) = powBody (pUnop n) (pExpr n) := by simp [ctxP]
theorem ctxP_13 (n : Nat) : (ctxP n 13 : P F) = primaryBody (pExpr n) := by simp [ctxP]

/-- `e` is read back from its print at precedence context `c`, whatever admissible input follows. -/
def ParsesAt (e : Expr F) (c : Nat) : Prop :=
  ∀ n, (printAt c e).length ≤ n → ∀ rest, Follow c rest →
    ctxP n c (printAt c e ++ rest) = .ok (e, rest)

theorem from_natural (e : Expr F) (hnat : ParsesAt e (natPrec e)) : ∀ c, c ≤ 13 → ParsesAt e c := by
  have hp := natPrec_le e
  have raw : ∀ c, c ≤ natPrec e → ParsesAt e c := by
    intro c hc n hn rest hf
    have heq := printAt_raw c (natPrec e) e hc (Nat.le_refl _)
    rw [heq] at hn ⊢
    obtain ⟨k, hk⟩ : ∃ k, natPrec e = c + k := ⟨natPrec e - c, by omega⟩
    by_cases hk0 : k = 0
    · subst hk0
      have hce : c = natPrec e := by omega
      subst hce
      exact hnat n hn rest hf
    · apply lift n k c (by omega) _ _ _ _ _ hf
      · rw [← hk]; exact hnat n hn rest (hf.mono (by omega) (by omega))
      · intro _ h12; rw [← hk] at h12; exact primaryStart_printAt _ h12 e rest
  intro c hc
  by_cases hcp : c ≤ natPrec e
  · exact raw c hcp
  · intro n hn rest hf
    have hpar := printAt_paren c hc e (by omega)
    rw [hpar] at hn ⊢
    simp only [List.length_cons, List.length_append, List.length_nil] at hn
    have h13 : ctxP n 13 (.sym .lparen :: (printAt 0 e ++ [.sym .rparen]) ++ rest) = .ok (e, rest) := by
      obtain ⟨m, rfl⟩ : ∃ m, n = m + 1 := ⟨n - 1, by omega⟩
      have h0 := raw 0 (Nat.zero_le _) m (by omega) (.sym .rparen :: rest)
        (follow_close 0 _ (Or.inl rfl) _)
      rw [ctxP_0] at h0
      rw [ctxP_13]
      simp only [List.cons_append, List.append_assoc, List.nil_append]
      simp [primaryBody, eat_hit, h0, expect]
    obtain ⟨k, hk⟩ : ∃ k, 13 = c + k := ⟨13 - c, by omega⟩
    apply lift n k c (by omega) _ _ _ _ _ hf
    · rw [← hk]; exact h13
    · intro _ _; simp [PrimaryStart]


/-! ### left-associative chains -/

/-- number of operators of level `c` on the left spine of `e` -/
def chain (c : Nat) : Expr F → Nat
  | .binOp op l _ => if prec op = c then chain c l + 1 else 0
  | _ => 0

theorem chain_other (c : Nat) (e : Expr F) (h : natPrec e ≠ c) : chain c e = 0 := by
  cases e <;> simp_all [chain, natPrec]

theorem printAt_bin (op : BinOpKind) (hop : op ≠ .pow) (l r : Expr F) :
    printAt (prec op) (.binOp op l r) =
      printAt (prec op) l ++ .sym (symOf op) :: printAt (prec op + 1) r := by
  simp [printAt, parenIf, hop]

theorem chain_le (c : Nat) (hc : c ≤ 10) (e : Expr F) : chain c e ≤ (printAt c e).length := by
  induction e with
  | binOp op l r ihl _ =>
    simp only [chain]
    split
    · next h =>
      have hop : op ≠ .pow := by intro hh; subst hh; rw [prec_pow] at h; omega
      subst h
      rw [printAt_bin op hop]
      simp only [List.length_append, List.length_cons]
      omega
    · omega
  | _ => simp [chain]

theorem printAt_succ_of_ne (c : Nat) (hc : c ≤ 12) (e : Expr F) (h : natPrec e ≠ c) :
    printAt c e = printAt (c + 1) e := by
  by_cases hlt : natPrec e < c
  · rw [printAt_paren c (by omega) e hlt, printAt_paren (c + 1) (by omega) e (by omega)]
  · exact printAt_raw c (c + 1) e (by omega) (by omega)

def ChainAt (e : Expr F) (c : Nat) : Prop :=
  ∀ n, (printAt c e).length ≤ n → ∀ K rest, Follow (c + 1) rest →
    G (ctxP n (c + 1)) (ladder.getD (c - 1) []) (K + chain c e) (printAt c e ++ rest) =
      binLoop (ctxP n (c + 1)) (ladder.getD (c - 1) []) K e rest

theorem chainAt_of_parses (e : Expr F) (c : Nat) (hc : c ≤ 10) (hne : natPrec e ≠ c)
    (h : ParsesAt e (c + 1)) : ChainAt e c := by
  intro n hn K rest hf
  rw [chain_other c e hne, printAt_succ_of_ne c (by omega) e hne] at *
  exact G_ok _ _ _ _ _ _ (h n hn rest hf)

theorem parsesAt_of_chain (e : Expr F) (c : Nat) (h1 : 1 ≤ c) (h2 : c ≤ 10) (hch : ChainAt e c) :
    ParsesAt e c := by
  intro n hn rest hf
  have hle := chain_le c h2 e
  rw [ctxP_ladder n c h1 h2, binLevel_eq]
  have hlen : (printAt c e ++ rest).length + 1 =
      ((printAt c e ++ rest).length - chain c e) + 1 + chain c e := by
    simp only [List.length_append]; omega
  rw [hlen, hch n hn _ rest (hf.mono (by omega) (by omega))]
  apply binLoop_stop
  have hlen' : c - 1 < ladder.length := by simp [ladder]; omega
  have hmem : ladder.getD (c - 1) [] ∈ ladder.drop (c - 1) := by
    have hg : ladder.getD (c - 1) [] = ladder[c - 1] := by simp [List.getD, hlen']
    rw [hg, List.drop_eq_getElem_cons hlen']
    exact List.mem_cons_self
  exact hf.2.2.1 (by omega) _ hmem

theorem finish (e : Expr F) (hnat : ParsesAt e (natPrec e))
    (hchain : ∀ c, 1 ≤ c → c ≤ 10 → natPrec e = c → ChainAt e c) :
    (∀ c, c ≤ 13 → ParsesAt e c) ∧ (∀ c, 1 ≤ c → c ≤ 10 → ChainAt e c) := by
  have all := from_natural e hnat
  refine ⟨all, fun c h1 h2 => ?_⟩
  by_cases hc : natPrec e = c
  · exact hchain c h1 h2 hc
  · exact chainAt_of_parses e c h2 hc (all (c + 1) (by omega))

/-! ### the natural context of every constructor -/

theorem printAt_func (c : Nat) (k : UnOpKind) (x : Expr F) (h1 : k ≠ .neg) (h2 : k ≠ .not) :
    printAt c (.unOp k x) = .ident (funcName k) :: .sym .lparen :: (printAt 0 x ++ [.sym .rparen]) ∧
    natPrec (.unOp k x) = 13 ∧ funcOf (funcName k) = some k ∧ funcName k ≠ "PI" ∧ funcName k ≠ "E" := by
  cases k <;> first | (exact absurd rfl h1) | (exact absurd rfl h2) | (refine ⟨rfl, rfl, ?_, ?_, ?_⟩ <;> decide)

theorem parses_func (k : UnOpKind) (x : Expr F) (h1 : k ≠ .neg) (h2 : k ≠ .not)
    (ih : ParsesAt x 0) : ParsesAt (.unOp k x) 13 := by
  intro n hn rest hf
  obtain ⟨hpr, _, hfn, hpi, he⟩ := printAt_func 13 k x h1 h2
  rw [hpr] at hn ⊢
  simp only [List.length_cons, List.length_append, List.length_nil] at hn
  obtain ⟨m, rfl⟩ : ∃ m, n = m + 1 := ⟨n - 1, by omega⟩
  have h0 := ih m (by omega) (.sym .rparen :: rest) (follow_close 0 _ (Or.inl rfl) _)
  rw [ctxP_0] at h0
  rw [ctxP_13]
  simp only [List.cons_append, List.append_assoc, List.nil_append]
  simp [primaryBody, eat, hpi, he, hfn, h0, expect]

theorem parses_prefix (k : UnOpKind) (s : Sym) (x : Expr F)
    (hk : (k = .neg ∧ s = .minus) ∨ (k = .not ∧ s = .tilde))
    (ih : ParsesAt x 11) : ParsesAt (.unOp k x) 11 := by
  intro n hn rest hf
  have hpr : printAt 11 (.unOp k x) = .sym s :: printAt 11 x := by
    rcases hk with ⟨rfl, rfl⟩ | ⟨rfl, rfl⟩ <;> simp [printAt, parenIf, UNARY_PREC]
  rw [hpr] at hn ⊢
  simp only [List.length_cons] at hn
  obtain ⟨m, rfl⟩ : ∃ m, n = m + 1 := ⟨n - 1, by omega⟩
  have h0 := ih m (by omega) rest hf
  rw [ctxP_11] at h0
  rw [ctxP_11, pUnop_succ]
  rcases hk with ⟨rfl, rfl⟩ | ⟨rfl, rfl⟩ <;> simp [unopBody, eat, h0]

theorem parses_pow (l r : Expr F) (ihl : ParsesAt l 13) (ihr : ParsesAt r 11) :
    ParsesAt (.binOp .pow l r) 12 := by
  intro n hn rest hf
  have hpr : printAt 12 (.binOp .pow l r) = printAt 13 l ++ .sym .doubleStar :: printAt 11 r := by
    simp [printAt, parenIf, prec_pow, PRIMARY_PREC, UNARY_PREC]
  rw [hpr] at hn ⊢
  simp only [List.length_cons, List.length_append] at hn
  have hl := ihl n (by omega) (.sym .doubleStar :: (printAt 11 r ++ rest)) (follow_13 _ (by decide) _)
  have hpos := printAt_length_pos 13 l
  obtain ⟨m, rfl⟩ : ∃ m, n = m + 1 := ⟨n - 1, by omega⟩
  have hr := ihr m (by omega) rest (follow_11_of_12 hf)
  rw [ctxP_13] at hl
  rw [ctxP_11] at hr
  rw [ctxP_12]
  simp only [List.append_assoc, List.cons_append]
  simp [powBody, hl, eat_hit, hr]

theorem parses_ite (c t e : Expr F) (ihc : ParsesAt c 1) (iht : ParsesAt t 0) (ihe : ParsesAt e 0) :
    ParsesAt (.ite c t e) 0 := by
  intro n hn rest hf
  have hpr : printAt 0 (.ite c t e) =
      printAt 1 c ++ .sym .question :: (printAt 0 t ++ .sym .colon :: printAt 0 e) := by
    simp [printAt, parenIf, TERNARY_PREC]
  rw [hpr] at hn ⊢
  simp only [List.length_cons, List.length_append] at hn
  have hc := ihc n (by omega) (.sym .question :: (printAt 0 t ++ .sym .colon :: (printAt 0 e ++ rest)))
    (follow_question 1 (by omega) _)
  have hpos := printAt_length_pos 1 c
  obtain ⟨m, rfl⟩ : ∃ m, n = m + 1 := ⟨n - 1, by omega⟩
  have ht := iht m (by omega) (.sym .colon :: (printAt 0 e ++ rest)) (follow_close 0 _ (Or.inr rfl) _)
  have he := ihe m (by omega) rest hf
  rw [ctxP_0] at ht he
  have hc' : ladderP (unopBody (pUnop (m + 1)) (pExpr (m + 1))) ladder
      (printAt 1 c ++ .sym .question :: (printAt 0 t ++ .sym .colon :: (printAt 0 e ++ rest))) =
      .ok (c, .sym .question :: (printAt 0 t ++ .sym .colon :: (printAt 0 e ++ rest))) := by
    have := hc
    simp only [ctxP] at this
    rw [pUnop_succ] at this
    exact this
  rw [ctxP_0, pExpr_succ]
  simp only [List.append_assoc, List.cons_append]
  simp [exprBody, hc', eat_hit, ht, he, expect]

theorem chain_bin (op : BinOpKind) (hop : op ≠ .pow) (l r : Expr F)
    (ihl : ChainAt l (prec op)) (ihr : ParsesAt r (prec op + 1)) :
    ChainAt (.binOp op l r) (prec op) := by
  intro n hn K rest hf
  rw [printAt_bin op hop] at hn ⊢
  simp only [List.length_cons, List.length_append] at hn
  have hch : chain (prec op) (.binOp op l r) = chain (prec op) l + 1 := by simp [chain]
  rw [hch, List.append_assoc, List.cons_append, ← Nat.add_assoc, Nat.add_right_comm K _ 1]
  rw [ihl n (by omega) (K + 1) _ (follow_op op hop _)]
  rw [binLoop_step _ _ _ _ _ _ _ (eatRow_hit op hop _)]
  rw [ihr n (by omega) rest hf]
  rfl


/-! ### main induction -/

theorem parse_print_all (e : Expr F) (hwf : LegalIdents e) :
    (∀ c, c ≤ 13 → ParsesAt e c) ∧ (∀ c, 1 ≤ c → c ≤ 10 → ChainAt e c) := by
  induction e with
  | int i =>
    apply finish
    · intro n hn rest hf
      show ctxP n 13 _ = _
      rw [ctxP_13]; simp [printAt, primaryBody, eat]
    · intro c h1 h2 h; simp [natPrec, PRIMARY_PREC] at h; omega
  | float f =>
    apply finish
    · intro n hn rest hf
      show ctxP n 13 _ = _
      rw [ctxP_13]; simp [printAt, primaryBody, eat]
    · intro c h1 h2 h; simp [natPrec, PRIMARY_PREC] at h; omega
  | ident s =>
    apply finish
    · intro n hn rest hf
      show ctxP n 13 _ = _
      rw [ctxP_13]
      simp only [LegalIdents] at hwf
      have e1 : eat .lparen (.ident s :: rest) = .ok (false, .ident s :: rest) := rfl
      have e2 : eat .lparen rest = .ok (false, rest) := hf.1
      simp [printAt, primaryBody, e1, e2, hwf.1, hwf.2]
    · intro c h1 h2 h; simp [natPrec, PRIMARY_PREC] at h; omega
  | unOp k x ih =>
    have ihx := ih hwf
    by_cases hneg : k = .neg
    · subst hneg
      apply finish
      · exact parses_prefix .neg .minus x (Or.inl ⟨rfl, rfl⟩) (ihx.1 11 (by omega))
      · intro c h1 h2 h; simp [natPrec, UNARY_PREC] at h; omega
    · by_cases hnot : k = .not
      · subst hnot
        apply finish
        · exact parses_prefix .not .tilde x (Or.inr ⟨rfl, rfl⟩) (ihx.1 11 (by omega))
        · intro c h1 h2 h; simp [natPrec, UNARY_PREC] at h; omega
      · have hn13 := (printAt_func 13 k x hneg hnot).2.1
        apply finish
        · rw [hn13]; exact parses_func k x hneg hnot (ihx.1 0 (by omega))
        · intro c h1 h2 h; omega
  | ite c t e ihc iht ihe =>
    simp only [LegalIdents] at hwf
    apply finish
    · exact parses_ite c t e ((ihc hwf.1).1 1 (by omega)) ((iht hwf.2.1).1 0 (by omega))
        ((ihe hwf.2.2).1 0 (by omega))
    · intro c' h1 h2 h; simp [natPrec, TERNARY_PREC] at h; omega
  | binOp op l r ihl ihr =>
    simp only [LegalIdents] at hwf
    have hl := ihl hwf.1
    have hr := ihr hwf.2
    by_cases hop : op = .pow
    · subst hop
      apply finish
      · show ParsesAt _ (prec .pow)
        rw [prec_pow]
        exact parses_pow l r (hl.1 13 (by omega)) (hr.1 11 (by omega))
      · intro c h1 h2 h; simp only [natPrec, prec_pow] at h; omega
    · obtain ⟨p1, p2⟩ := prec_range op hop
      have hch := chain_bin op hop l r (hl.2 (prec op) p1 p2) (hr.1 (prec op + 1) (by omega))
      apply finish
      · exact parsesAt_of_chain _ (prec op) p1 p2 hch
      · intro c h1 h2 h
        simp only [natPrec] at h
        subst h
        exact hch

/-- The parser inverts the minimal-parenthesis printer (token level). -/
theorem parseToks_printMin (e : Expr F) (hwf : LegalIdents e) :
    parseToks (printMin e) = .ok e := by
  have h := (parse_print_all e hwf).1 0 (by omega) (printMin e).length (Nat.le_refl _) []
    (follow_nil 0)
  rw [ctxP_0] at h
  simp only [printMin, List.append_nil] at h
  simp [parseToks, printMin, h]


/-- A degenerate float implementation, used only to run lexer + parser inside the kernel on
concrete strings (`decide +kernel` needs a closed term). -/
def unitFloatOps : FloatOps Unit where
  add _ _ := ()
  sub _ _ := ()
  mul _ _ := ()
  div _ _ := ()
  rem _ _ := ()
  powf _ _ := ()
  ofInt _ := ()
  toInt _ := 0
  feq _ _ := true
  flt _ _ := false
  fle _ _ := true
  neg _ := ()
  abs _ := ()
  sin _ := ()
  cos _ := ()
  tan _ := ()
  asin _ := ()
  acos _ := ()
  atan _ := ()
  exp _ := ()
  ln _ := ()
  log10 _ := ()
  sqrt _ := ()
  trunc _ := ()
  floor _ := ()
  ceil _ := ()
  round _ := ()
  ofDec _ _ := ()
  pi := ()
  e := ()

end CamVerif.Formula.Proofs




