/-
C04 helper lemmas, part 8: the register primitives at an ARBITRARY cache key.

`cachedRead`, `readAndCache` and `writeAt` take the register record and the address as
arguments and never look the node up in the description, so they also describe a register whose
address and length are evaluated at access time (node-valued `<pLength>`, `<pAddress>`, an
embedded `IntSwissKnife`, `pIndex` with `pOffset`): the access then runs the primitive with
`{ r with len := L }` at address `a`, for whatever `(a, L)` the sources yield at that moment.
The statements below are therefore about every key `(n, a, r.len)`, with no `KeyAddr` / `KeysOk`
hypothesis: only `Coherent` and, for the write, "what survives the invalidations is disjoint
from the written range or is the very key the write refreshes".
-/
import CamVerif.Proofs.C04Table
namespace CamVerif.C04
open CamVerif CamVerif.Cache

/-- a read at any key returns, when it succeeds, exactly the bytes the device holds for that
range now (hit: by coherence; miss: just read) -/
theorem cachedRead_anykey_device {g : Graph} {s : St Store} (hC : Coherent s.cache s.dev)
    (n : NodeId) (r : Reg) (a : Int) {bs : Bytes}
    (h : (cachedRead defaultCache g n r a s).1 = .ok bs) : s.dev.peek a r.len = some bs := by
  unfold cachedRead at h
  cases hg : defaultCache.get s.cache n a r.len with
  | some x =>
    rw [hg] at h
    cases h
    exact hC n a r.len _ hg
  | none =>
    rw [hg] at h
    dsimp only at h
    rw [readAndCache_eq] at h
    rw [if_neg (by simp)] at h
    split at h
    · cases hp : s.dev.peek a r.len with
      | some x => rw [hp] at h; cases h; rfl
      | none => rw [hp] at h; cases h
    · cases h

/-- a read at any key keeps the cache coherent and does not change device bytes -/
theorem cachedRead_anykey_coherent {g : Graph} {s : St Store} (hC : Coherent s.cache s.dev)
    (n : NodeId) (r : Reg) (a : Int) :
    Coherent (cachedRead defaultCache g n r a s).2.cache (cachedRead defaultCache g n r a s).2.dev ∧
      (cachedRead defaultCache g n r a s).2.dev.mem = s.dev.mem := by
  unfold cachedRead
  cases hg : defaultCache.get s.cache n a r.len with
  | some x => exact ⟨hC, rfl⟩
  | none =>
    dsimp only
    rw [readAndCache_eq, if_neg (by simp)]
    split
    · cases hp : s.dev.peek a r.len with
      | some x =>
        refine ⟨?_, rfl⟩
        intro n' a' l' bs hget
        have hpk : ∀ a'' l'', Dev.peek { s.dev with log := ⟨false, a, r.len, x, true⟩ :: s.dev.log } a'' l'' =
            s.dev.peek a'' l'' := fun _ _ => rfl
        show Dev.peek _ a' l' = some bs
        rw [hpk]
        dsimp only at hget
        split at hget
        · change (Store.cache s.cache n a r.len x).get n' a' l' = some bs at hget
          rw [get_cache] at hget
          split at hget
          · rename_i e
            obtain ⟨_, rfl, rfl⟩ := e
            cases hget
            exact hp
          · exact hC n' a' l' bs hget
        · exact hC n' a' l' bs hget
      | none => exact ⟨fun n' a' l' bs hget => hC n' a' l' bs hget, rfl⟩
    · exact ⟨hC, rfl⟩

/-- "Whatever the write through `n` at `(a, len)` does not drop is harmless": every cache entry
whose range meets the written range belongs to a register the write invalidates (it lists `n`
or `n`'s port) or to `n` itself (since the repair of F-C04-4 the write drops every entry of `n`,
under whatever key, before it caches the written data). -/
def WriteCovered (c : Store) (n : NodeId) (r : Reg) (a : Int) : Prop :=
  ∀ t a' l' bs, c.get t a' l' = some bs → overlaps a r.len a' l' = true →
    t ∈ c.targets n ∨ t ∈ c.targets r.port ∨ t = n

/-- a write at any key keeps the cache coherent when it is covered — whatever the device does
with it (accepted, rejected, partially applied) and whatever `pPort` names -/
theorem writeAt_anykey_coherent {g : Graph} {s : St Store} (hC : Coherent s.cache s.dev)
    (n : NodeId) (r : Reg) (a : Int) (buf : Bytes) (hlen : buf.length = r.len)
    (hW : WriteCovered s.cache n r a) :
    Coherent (writeAt defaultCache g n r a buf s).2.cache (writeAt defaultCache g n r a buf s).2.dev := by
  rw [writeAt_eq]
  have hT : ∀ m, (Store.invalidateBy s.cache n).targets m = s.cache.targets m :=
    fun m => targets_congr (invalidators_invalidateBy _ _) m
  split
  · -- the port is a port: the device sees the write
    intro t a' l' bs hget
    dsimp only at hget ⊢
    -- what the entry was before the final cache / invalidate_of step
    have key : ∀ bs', (Store.invalidateBy (Store.invalidateBy s.cache n) r.port).get t a' l' = some bs' →
        s.cache.get t a' l' = some bs' ∧ t ∉ s.cache.targets n ∧ t ∉ s.cache.targets r.port := by
      intro bs' h
      rw [get_invalidateBy, hT] at h
      split at h
      · cases h
      · rename_i h2
        rw [get_invalidateBy] at h
        split at h
        · cases h
        · rename_i h1
          exact ⟨h, h1, h2⟩
    split at hget
    · rename_i hok
      change (Store.cache _ n a r.len buf).get t a' l' = some bs at hget
      rw [get_cache] at hget
      split at hget
      · rename_i e
        obtain ⟨rfl, rfl, rfl⟩ := e
        cases hget
        rw [← hlen]
        exact peek_write_same hok.1
      · change (Store.invalidateOf _ n).get t a' l' = some bs at hget
        rw [get_invalidateOf] at hget
        split at hget
        · cases hget
        rename_i hne
        obtain ⟨h0, h1, h2⟩ := key bs hget
        have hdis : overlaps a buf.length a' l' = false := by
          cases ho : overlaps a buf.length a' l' with
          | false => rfl
          | true =>
            rw [hlen] at ho
            rcases hW t a' l' bs h0 ho with h | h | rfl
            · exact absurd h h1
            · exact absurd h h2
            · exact absurd rfl hne
        rw [peek_write_frame hdis]
        exact hC t a' l' bs h0
    · rename_i hnok
      change (Store.invalidateOf _ n).get t a' l' = some bs at hget
      rw [get_invalidateOf] at hget
      split at hget
      · cases hget
      · rename_i hne
        obtain ⟨h0, h1, h2⟩ := key bs hget
        have hdis : overlaps a buf.length a' l' = false := by
          cases ho : overlaps a buf.length a' l' with
          | false => rfl
          | true =>
            rw [hlen] at ho
            rcases hW t a' l' bs h0 ho with h | h | rfl
            · exact absurd h h1
            · exact absurd h h2
            · exact absurd rfl hne
        rw [peek_write_frame hdis]
        exact hC t a' l' bs h0
  · -- `pPort` is not a port: nothing reaches the device
    intro t a' l' bs hget
    dsimp only at hget ⊢
    change (Store.invalidateBy s.cache n).get t a' l' = some bs at hget
    rw [get_invalidateBy] at hget
    split at hget
    · cases hget
    · exact hC t a' l' bs hget

/-- the matching declaration for registers whose key varies: every OTHER register that owns a
cache entry lists the writer or the writer's port -/
theorem writeCovered_of_all_listed {c : Store} {n : NodeId} {r : Reg} (a : Int)
    (h : ∀ t a' l' bs, t ≠ n → c.get t a' l' = some bs → t ∈ c.targets n ∨ t ∈ c.targets r.port) :
    WriteCovered c n r a :=
  fun t a' l' bs hg _ => by
    by_cases htn : t = n
    · exact .inr (.inr htn)
    · rcases h t a' l' bs htn hg with h | h
      · exact .inl h
      · exact .inr (.inl h)

/-- only entries that meet the written range matter -/
theorem writeCovered_of_overlapping_listed {c : Store} {n : NodeId} {r : Reg} {a : Int}
    (h : ∀ t a' l' bs, t ≠ n → c.get t a' l' = some bs → overlaps a r.len a' l' = true →
      t ∈ c.targets n ∨ t ∈ c.targets r.port) :
    WriteCovered c n r a :=
  fun t a' l' bs hg ho => by
    by_cases htn : t = n
    · exact .inr (.inr htn)
    · rcases h t a' l' bs htn hg ho with h | h
      · exact .inl h
      · exact .inr (.inl h)

end CamVerif.C04
