/-
Helper lemmas for the C11 growth round: buffers that agree outside a byte range decode to the
same fields outside that range (used for "the decoder ignores the device-supplied size field"),
profile independence of the chunk walk, and the unpacking of a successful `verifBuildPayload`.
-/
import CamVerif.Proofs.C11Stream
namespace CamVerif.C11
open CamVerif CamVerif.Stream

/-- `b` and `b'` are the same packet except (possibly) for the bytes `[lo, hi)`. -/
def AgreeOutside (lo hi : Nat) (b b' : Bytes) : Prop :=
  b.length = b'.length ∧ b.take lo = b'.take lo ∧ b.drop hi = b'.drop hi

theorem le_congr_hi {b b' : Bytes} {hi : Nat} (h : b.drop hi = b'.drop hi) (off n : Nat)
    (ho : hi ≤ off) : le b off n = le b' off n := by
  unfold le
  have e : off = hi + (off - hi) := by omega
  rw [e, ← List.drop_drop, ← List.drop_drop, h]

theorem le_congr_lo {b b' : Bytes} {lo : Nat} (h : b.take lo = b'.take lo) (off n : Nat)
    (ho : off + n ≤ lo) : le b off n = le b' off n := by
  unfold le
  have e : ∀ l : Bytes, (l.drop off).take n = ((l.take lo).drop off).take n := by
    intro l
    rw [List.drop_take, List.take_take]
    congr 1
    omega
  rw [e b, e b', h]

theorem drop_congr_hi {b b' : Bytes} {hi : Nat} (h : b.drop hi = b'.drop hi) (k : Nat)
    (hk : hi ≤ k) : b.drop k = b'.drop k := by
  have e : k = hi + (k - hi) := by omega
  rw [e, ← List.drop_drop, ← List.drop_drop, h]

/-- The walk does not depend on the build profile: its `usize` arithmetic never overflows
(`u32 as usize + 4 < 2^64`), so checked and wrapping arithmetic coincide. -/
theorem chunkWalk_profile_indep (p q : Profile) (buf : Bytes) :
    ∀ fuel off, off ≤ buf.length → off < 2 ^ 64 →
      chunkWalk p buf fuel off = chunkWalk q buf fuel off := by
  intro fuel
  induction fuel with
  | zero => intro off _ _; simp [chunkWalk]
  | succ k ih =>
    intro off hl h64
    by_cases h4 : off < 4
    · rw [chunkWalk_lt4 p buf k off h4, chunkWalk_lt4 q buf k off h4]
    · rw [chunkWalk_step p buf k off (by omega) hl h64, chunkWalk_step q buf k off (by omega) hl h64]
      split
      · rfl
      · split
        · rfl
        · exact ih _ (by omega) (by omega)

theorem chunkWalkRun_profile_indep (p q : Profile) (buf : Bytes) (off : Nat)
    (hl : off ≤ buf.length) (h64 : off < 2 ^ 64) :
    chunkWalkRun p buf off = chunkWalkRun q buf off := by
  unfold chunkWalkRun
  rw [chunkWalk_profile_indep p q buf _ _ hl h64]

/-- A length field that claims more than what precedes it (in particular every field in
`0xFFFF_FFFC ..= 0xFFFF_FFFF` for `valid < 2^32`) is an error, never a panic or a wrap. -/
theorem chunkWalkRun_oversize (p : Profile) (buf : Bytes) (valid n : Nat) (h4 : 4 ≤ valid)
    (hl : valid ≤ buf.length) (h64 : valid < 2 ^ 64)
    (hn : Spec.StreamLayout.chunkLenAt Spec.StreamLayout.chunkLengthOrder buf (valid - 4) = some n)
    (hbig : valid < n + 8) : chunkWalkRun p buf valid = .err .invalidPayload := by
  unfold chunkWalkRun
  rw [chunkWalk_step p buf valid valid h4 hl h64]
  rw [chunkLenAt_eq buf (valid - 4) (by omega)] at hn
  cases hn
  rw [if_pos hbig]

/-- A successful `verifBuildPayload` = both packets parse and `build` succeeds. -/
theorem verifBuild_unpack {p : Profile} {lb tb buf : Bytes} {recv : Nat} {pl : Payload}
    (h : verifBuildPayload p lb tb buf recv = .ok pl) :
    ∃ l t, Leader.parse lb = .ok l ∧ Trailer.parse tb = .ok t ∧ t.validPayloadSize < 2 ^ 64 ∧
      build p l t buf recv = .ok pl := by
  unfold verifBuildPayload at h
  obtain ⟨l, hl, h⟩ := bind_eq_ok.mp h
  obtain ⟨t, ht, h⟩ := bind_eq_ok.mp h
  have ht' := mapErr_eq_ok.mp ht
  obtain ⟨_, _, _, _, _, hv, _⟩ := Trailer.parse_ok ht'
  exact ⟨l, t, mapErr_eq_ok.mp hl, ht', by rw [hv]; exact le_lt tb 20 8, h⟩

end CamVerif.C11
