/-
Helper lemmas for C06 `open_negotiates`: `open` / `initialize_config` against a conforming
device whose control requests succeed (`CtlOk`) and whose bootstrap registers are readable.
Each bootstrap register is read with ONE ReadMem transaction (register lengths 4 / 8 are far
below the chunk size of the initial 128/128 configuration).
-/
import CamVerif.Proofs.C06Ops
namespace CamVerif.C06
open CamVerif CamVerif.Control CamVerif.Spec.Conf

/-- What the specification says about the control requests of a conforming device: claiming /
releasing the interface, SET_FEATURE(ENDPOINT_HALT) and clearing a halt succeed, leave the
memory and the command counter alone, never put anything into the bulk-in pipe, and clearing
the halt of the IN endpoint flushes whatever was still queued there. -/
structure CtlOk {σ M : Type} (dev : Dev σ) (view : σ → View M) : Prop where
  ok : ∀ st r, (dev.ctl st r).2 = none
  mem : ∀ st r, (view (dev.ctl st r).1).mem = (view st).mem
  txn : ∀ st r, (view (dev.ctl st r).1).txn = (view st).txn
  keeps_empty : ∀ st r, (view st).queue = [] → (view (dev.ctl st r).1).queue = []
  flush : ∀ st, (view (dev.ctl st .clearHaltIn).1).queue = []

/-- the reference device satisfies it -/
theorem refDev_ctlOk {M : Type} [MemLike M] (lim : Limits) (plan : Nat → Nat) (ms : Nat) :
    CtlOk (refDev (M := M) lim plan ms) refView where
  ok st r := by cases r <;> rfl
  mem st r := by cases r <;> rfl
  txn st r := by cases r <;> rfl
  keeps_empty st r h := by
    cases r <;> simp only [refDev, refView] at h ⊢ <;> first | exact h | rfl
  flush st := rfl

section
variable {σ M : Type} [MemLike M] {dev : Dev σ} {view : σ → View M} {lim : Limits}
  {plan : Nat → Nat} {ms : Nat}

/-- one control request against a `CtlOk` device -/
theorem ctlReq_ok (hk : CtlOk dev view) (s : St σ) (r : CtlReq) :
    ∃ d', ctlReq dev s r = (⟨s.h, d', .ctl r (ctlTimeout s.h.cfg r) none :: s.logRev⟩, .ok ()) ∧
      (view d').mem = (view s.d).mem ∧ (view d').txn = (view s.d).txn ∧
      ((view s.d).queue = [] → (view d').queue = []) ∧
      (r = .clearHaltIn → (view d').queue = []) := by
  have h1 := hk.ok s.d r
  have h2 := hk.mem s.d r
  have h3 := hk.txn s.d r
  have h4 := hk.keeps_empty s.d r
  have h5 := hk.flush s.d
  rcases hd : dev.ctl s.d r with ⟨d', e⟩
  rw [hd] at h1 h2 h3 h4
  simp only at h1 h2 h3 h4
  subst h1
  refine ⟨d', by simp only [ctlReq, hd, St.push], h2, h3, h4, ?_⟩
  intro hr
  subst hr
  rw [hd] at h5
  exact h5

/-- State reached after the bootstrap transactions `steps` (started with the counters `pr0`
and the log `base`): log and counters are those of the run, the device memory is `mem`,
nothing is queued, the handle is open with the configuration `cfg`. -/
structure Chain (view : σ → View M) (plan : Nat → Nat) (ms t : Nat) (pr0 : Prog)
    (base : List Ev) (mem : M) (cfg : Config) (steps : List Step) (s : St σ) : Prop where
  log : s.logRev = (runEvents plan ms t steps pr0).1.reverse ++ base
  prog : (⟨s.h.nextReqId, s.h.bufLen, (view s.d).txn⟩ : Prog) = (runEvents plan ms t steps pr0).2
  mem : (view s.d).mem = mem
  queue : (view s.d).queue = []
  cfg : s.h.cfg = cfg
  opened : s.h.opened = true
  id16 : s.h.nextReqId < 2 ^ 16

/-- Reading one register of `n` bytes (`0 < n ≤` chunk size of the configuration in force)
is ONE ReadMem transaction for exactly that register. -/
theorem chain_readReg (hc : Conforming dev view lim plan ms) (p : Profile) {t : Nat}
    {pr0 : Prog} {base : List Ev} {mem : M} {cfg : Config} {steps : List Step} {s : St σ}
    (hch : Chain view plan ms t pr0 base mem cfg steps s) (a n : Nat)
    (hcfgc : 24 ≤ cfg.maxCmd) (hcfga : 12 < cfg.maxAck)
    (hnm : n ≤ min (cfg.maxAck - 12) 65535) (ht : cfg.xfer = t) (hplan : ∀ i, plan i < cfg.retry)
    (hn : 0 < n) (hsp : a + n ≤ 2 ^ 64) (hack : 12 + n ≤ lim.maxAck) (hcmd : 24 ≤ lim.maxCmd)
    (hms : ms < 2 ^ 16) :
    ∃ s', readReg dev p s a n = (s', .ok (fromLE (readRange mem a n))) ∧
      Chain view plan ms t pr0 base mem cfg (steps ++ [readStep mem ⟨a, n⟩]) s' ∧
      s'.h.abrm = s.h.abrm := by
  obtain ⟨hlog, hprog, hmem, hq, hcfg, hop, hid⟩ := hch
  obtain ⟨s1, hs1, hh1, hm1, hq1, ht1, hl1⟩ :=
    sendCmd_read hc p s a n [] (by omega) (by omega) hid hms (by rw [hcfg]; exact hcfgc) hcmd hack
      hsp hq (fun _ h => by simp at h) (by rw [hcfg]; simpa using hplan _)
  have hva : verifyAddressRange a n = .ok () := by
    simp only [verifyAddressRange]; rw [if_neg (by omega), if_pos (by omega)]
  have h12 : Cmd.ACK_HEADER_LENGTH = 12 := rfl
  have hch' : (Cmd.ReadMem.mk a 0).chunks cfg.maxAck =
      .ok ⟨a, 0, cfg.maxAck - Cmd.ACK_HEADER_LENGTH⟩ := by
    simp only [Cmd.ReadMem.chunks]; rw [if_neg (by omega)]
  have hm : Cmd.maximumReadLength p cfg.maxAck = .ok (min (cfg.maxAck - 12) 65535) := by
    rw [C10.maximumReadLength_ok p cfg.maxAck (by omega)]; rfl
  have hmpos : min (cfg.maxAck - 12) 65535 ≠ 0 := by omega
  have hmin : min (min (cfg.maxAck - 12) 65535) n = n := by omega
  have hgt : ¬ n > U16_MAX := by simp only [U16_MAX]; omega
  have hadd : (addW p 64 a 0 : R Nat) = .ok a := by
    simp only [addW, Nat.add_zero]; rw [if_pos (by omega)]
  have hadd2 : (addW p 64 0 n : R Nat) = .ok n := by
    simp only [addW, Nat.zero_add]; rw [if_pos (by omega)]
  obtain ⟨f, hf⟩ : ∃ f, n = f + 1 := ⟨n - 1, by omega⟩
  have hloop : readLoop dev p (min (cfg.maxAck - 12) 65535) a (n + 1) 0 n s [] =
      (s1, .ok (readRange (view s.d).mem a n)) := by
    rw [readLoop]
    simp only [if_neg (Nat.ne_of_gt hn), hmin, if_neg hgt, hadd, hs1, readRange_length, ne_eq,
      not_true_eq_false, if_false, hadd2, Nat.sub_self]
    rw [hf, readLoop]
    simp
  refine ⟨s1, ?_, ⟨?_, ?_, by rw [hm1, hmem], hq1, by rw [hh1]; exact hcfg, by rw [hh1]; exact hop,
    by rw [hh1]; exact Nat.mod_lt _ (by omega)⟩, by rw [hh1]⟩
  · have hopn : ¬ ((!s.h.opened) = true) := by simp [hop]
    simp only [readReg, Control.read, if_neg hopn, hva, hcfg, hch', hm, if_neg hmpos, hloop,
      readRange_length, ne_eq, not_true_eq_false, if_false, hmem]
  · rw [hl1, hlog, runEvents_append]
    have hp2 : (runEvents plan ms t steps pr0).2 = ⟨s.h.nextReqId, s.h.bufLen, (view s.d).txn⟩ :=
      hprog.symm
    simp only [hp2, runEvents, readStep, Cmd.Cmd.cmdLen, Cmd.Cmd.scdLen, Cmd.CCD_LEN,
      Cmd.Cmd.maximumAckLen, Cmd.Cmd.ackScdLen, Cmd.ACK_HEADER_LENGTH,
      Cmd.MINIMUM_ACK_SCD_LENGTH, Nat.reduceAdd, List.append_nil, List.reverse_append,
      List.append_assoc, hcfg, ht, hmem]
  · rw [runEvents_append]
    have hp2 : (runEvents plan ms t steps pr0).2 = ⟨s.h.nextReqId, s.h.bufLen, (view s.d).txn⟩ :=
      hprog.symm
    simp only [hp2, runEvents, readStep, Cmd.Cmd.cmdLen, Cmd.Cmd.scdLen, Cmd.CCD_LEN,
      Cmd.Cmd.maximumAckLen, Cmd.Cmd.ackScdLen, Cmd.ACK_HEADER_LENGTH,
      Cmd.MINIMUM_ACK_SCD_LENGTH, Nat.reduceAdd, hh1, ht1]

/-- The bootstrap registers of the device memory `mem`: SBRM address `sbrm` (the SBRM lies in
the address space), advertised maximum command / acknowledge lengths `L` and maximum device
response time `T` (ms). -/
structure Boot (mem : M) (L : Limits) (T sbrm : Nat) : Prop where
  sbrm_addr : fromLE (readRange mem 0x01D8 8) = sbrm
  sbrm_fits : sbrm + 0x18 + 4 ≤ 2 ^ 64
  max_cmd : fromLE (readRange mem (sbrm + 0x14) 4) = L.maxCmd
  max_ack : fromLE (readRange mem (sbrm + 0x18) 4) = L.maxAck
  resp : fromLE (readRange mem 0x01CC 4) = T

/-- the register reads of `initialize_config`, one transaction each: the ABRM device capability
(only while it is not cached), the SBRM address, the U3VCP capability, the maximum device
response time, the maximum command and acknowledge transfer lengths. -/
def bootSteps (mem : M) (sbrm : Nat) (cached : Bool) : List Step :=
  (if cached then [] else [readStep mem ⟨0x01C4, 8⟩]) ++
    [readStep mem ⟨0x01D8, 8⟩, readStep mem ⟨sbrm + 0x4, 8⟩, readStep mem ⟨0x01CC, 4⟩,
     readStep mem ⟨sbrm + 0x14, 4⟩, readStep mem ⟨sbrm + 0x18, 4⟩]

theorem initializeConfig_conforming (hc : Conforming dev view lim plan ms) (p : Profile)
    (s : St σ) (T sbrm : Nat) (hboot : Boot (view s.d).mem lim T sbrm)
    (hop : s.h.opened = true) (hmc : s.h.cfg.maxCmd = 128) (hma : s.h.cfg.maxAck = 128)
    (hid : s.h.nextReqId < 2 ^ 16) (hq : (view s.d).queue = [])
    (hplan : ∀ i, plan i < s.h.cfg.retry) (hcmd : 24 ≤ lim.maxCmd) (hack : 20 ≤ lim.maxAck)
    (hms : ms < 2 ^ 16) :
    ∃ s', initializeConfig dev p s = (s', .ok ()) ∧
      s'.h.cfg = { s.h.cfg with timeoutMs := T, maxCmd := lim.maxCmd, maxAck := lim.maxAck } ∧
      s'.h.opened = true ∧ s'.h.abrm.isSome = true ∧ s'.h.nextReqId < 2 ^ 16 ∧
      (view s'.d).mem = (view s.d).mem ∧ (view s'.d).queue = [] ∧
      s'.logRev = (runEvents plan ms s.h.cfg.xfer
          (bootSteps (view s.d).mem sbrm s.h.abrm.isSome)
          ⟨s.h.nextReqId, s.h.bufLen, (view s.d).txn⟩).1.reverse ++ s.logRev ∧
      (⟨s'.h.nextReqId, s'.h.bufLen, (view s'.d).txn⟩ : Prog) =
        (runEvents plan ms s.h.cfg.xfer (bootSteps (view s.d).mem sbrm s.h.abrm.isSome)
          ⟨s.h.nextReqId, s.h.bufLen, (view s.d).txn⟩).2 := by
  obtain ⟨hb1, hb2, hb3, hb4, hb5⟩ := hboot
  -- common side conditions of the six register reads
  have c1 : 24 ≤ s.h.cfg.maxCmd := by omega
  have c2 : 12 < s.h.cfg.maxAck := by omega
  have c4 : ∀ n, n ≤ 8 → n ≤ min (s.h.cfg.maxAck - 12) 65535 := by intro n h; omega
  have hch0 : Chain view plan ms s.h.cfg.xfer ⟨s.h.nextReqId, s.h.bufLen, (view s.d).txn⟩
      s.logRev (view s.d).mem s.h.cfg [] s :=
    ⟨by simp [runEvents], by simp [runEvents], rfl, hq, rfl, hop, hid⟩
  -- 1. the ABRM device capability (cached or read)
  have hA : ∃ sA, abrm dev p s = (sA, .ok (sA.h.abrm.getD 0)) ∧ sA.h.abrm.isSome = true ∧
      Chain view plan ms s.h.cfg.xfer ⟨s.h.nextReqId, s.h.bufLen, (view s.d).txn⟩ s.logRev
        (view s.d).mem s.h.cfg (if s.h.abrm.isSome then [] else [readStep (view s.d).mem ⟨0x01C4, 8⟩])
        sA := by
    cases hab : s.h.abrm with
    | some v =>
      exact ⟨s, by simp [abrm, hab], by simp [hab], by simpa using hch0⟩
    | none =>
      obtain ⟨s1, hs1, hc1, _⟩ := chain_readReg hc p hch0 0x01C4 8 c1 c2 (c4 8 (by omega)) rfl
        hplan (by omega) (by omega) (by omega) hcmd hms
      refine ⟨{ s1 with h := { s1.h with abrm := some (fromLE (readRange (view s.d).mem 0x01C4 8)) } },
        ?_, rfl, ?_⟩
      · simp only [abrm, hab, ABRM_DEVICE_CAPABILITY, hs1]
        rfl
      · obtain ⟨g1, g2, g3, g4, g5, g6, g7⟩ := hc1
        exact ⟨by simpa using g1, by simpa using g2, g3, g4, g5, g6, g7⟩
  obtain ⟨sA, hsA, habS, hcA⟩ := hA
  -- 2. SBRM address
  obtain ⟨s2, hs2, hc2, hab2⟩ := chain_readReg hc p hcA 0x01D8 8 c1 c2 (c4 8 (by omega)) rfl hplan
    (by omega) (by omega) (by omega) hcmd hms
  rw [hb1] at hs2
  -- 3. U3VCP capability
  obtain ⟨s3, hs3, hc3, hab3⟩ := chain_readReg hc p hc2 (sbrm + 0x4) 8 c1 c2 (c4 8 (by omega)) rfl
    hplan (by omega) (by omega) (by omega) hcmd hms
  -- 4. response time
  obtain ⟨s4, hs4, hc4, hab4⟩ := chain_readReg hc p hc3 0x01CC 4 c1 c2 (c4 4 (by omega)) rfl hplan
    (by omega) (by omega) (by omega) hcmd hms
  rw [hb5] at hs4
  -- 5./6. maximum command / acknowledge lengths
  obtain ⟨s5, hs5, hc5, hab5⟩ := chain_readReg hc p hc4 (sbrm + 0x14) 4 c1 c2 (c4 4 (by omega)) rfl
    hplan (by omega) (by omega) (by omega) hcmd hms
  rw [hb3] at hs5
  obtain ⟨s6, hs6, hc6, hab6⟩ := chain_readReg hc p hc5 (sbrm + 0x18) 4 c1 c2 (c4 4 (by omega)) rfl
    hplan (by omega) (by omega) (by omega) hcmd hms
  rw [hb4] at hs6
  have hra : ∀ off, off ≤ 0x18 → registerAddress sbrm off = .ok (sbrm + off) := by
    intro off h; simp only [registerAddress]; rw [if_pos (by omega)]
  refine ⟨{ s6 with h := { s6.h with cfg := { s6.h.cfg with
      timeoutMs := T, maxCmd := lim.maxCmd, maxAck := lim.maxAck } } }, ?_, ?_, hc6.opened, ?_,
    hc6.id16, hc6.mem, hc6.queue, ?_, ?_⟩
  · simp only [initializeConfig, hsA, ABRM_SBRM_ADDRESS, hs2, readSbrmReg,
      SBRM_U3VCP_CAPABILITY_REGISTER, hra 0x4 (by omega), hs3, ABRM_MAXIMUM_DEVICE_RESPONSE_TIME,
      hs4, SBRM_MAXIMUM_COMMAND_TRANSFER_LENGTH, hra 0x14 (by omega), hs5,
      SBRM_MAXIMUM_ACKNOWLEDGE_TRANSFER_LENGTH, hra 0x18 (by omega), hs6]
  · simp only [hc6.cfg]
  · simp only [hab6, hab5, hab4, hab3, hab2, habS]
  · have := hc6.log
    simp only [bootSteps, List.append_assoc, List.cons_append, List.nil_append] at this ⊢
    exact this
  · have := hc6.prog
    simp only [bootSteps, List.append_assoc, List.cons_append, List.nil_append] at this ⊢
    exact this

/-- the five control requests `open` issues before it talks GenCP (newest first) -/
def openCtlEvents (t : Nat) : List Ev :=
  [.ctl .clearHaltOut 0 none, .ctl .clearHaltIn 0 none, .ctl .setHaltOut t none,
   .ctl .setHaltIn t none, .ctl .claim 0 none]

theorem open_conforming (hc : Conforming dev view lim plan ms) (hk : CtlOk dev view)
    (p : Profile) (s : St σ) (T sbrm : Nat) (hboot : Boot (view s.d).mem lim T sbrm)
    (hclosed : s.h.opened = false) (hid : s.h.nextReqId < 2 ^ 16)
    (hplan : ∀ i, plan i < s.h.cfg.retry) (hcmd : 24 ≤ lim.maxCmd) (hack : 20 ≤ lim.maxAck)
    (hms : ms < 2 ^ 16) :
    ∃ s', Control.open dev p s = (s', .ok ()) ∧
      s'.h.cfg = { s.h.cfg with timeoutMs := T, maxCmd := lim.maxCmd, maxAck := lim.maxAck } ∧
      s'.h.opened = true ∧ s'.h.abrm.isSome = true ∧ s'.h.nextReqId < 2 ^ 16 ∧
      (view s'.d).mem = (view s.d).mem ∧ (view s'.d).queue = [] ∧
      s'.logRev = (runEvents plan ms s.h.cfg.xfer
          (bootSteps (view s.d).mem sbrm s.h.abrm.isSome)
          ⟨s.h.nextReqId, s.h.bufLen, (view s.d).txn⟩).1.reverse ++
        (openCtlEvents s.h.cfg.xfer ++ s.logRev) ∧
      (⟨s'.h.nextReqId, s'.h.bufLen, (view s'.d).txn⟩ : Prog) =
        (runEvents plan ms s.h.cfg.xfer (bootSteps (view s.d).mem sbrm s.h.abrm.isSome)
          ⟨s.h.nextReqId, s.h.bufLen, (view s.d).txn⟩).2 := by
  obtain ⟨d1, e1, m1, t1, _, _⟩ := ctlReq_ok hk s .claim
  let s1 : St σ := ⟨{ s.h with opened := true }, d1,
    .ctl .claim (ctlTimeout s.h.cfg .claim) none :: s.logRev⟩
  obtain ⟨d2, e2, m2, t2, _, _⟩ := ctlReq_ok hk s1 .setHaltIn
  let s2 : St σ := ⟨s1.h, d2, .ctl .setHaltIn (ctlTimeout s1.h.cfg .setHaltIn) none :: s1.logRev⟩
  obtain ⟨d3, e3, m3, t3, _, _⟩ := ctlReq_ok hk s2 .setHaltOut
  let s3 : St σ := ⟨s2.h, d3, .ctl .setHaltOut (ctlTimeout s2.h.cfg .setHaltOut) none :: s2.logRev⟩
  obtain ⟨d4, e4, m4, t4, _, q4⟩ := ctlReq_ok hk s3 .clearHaltIn
  let s4 : St σ := ⟨s3.h, d4, .ctl .clearHaltIn (ctlTimeout s3.h.cfg .clearHaltIn) none :: s3.logRev⟩
  obtain ⟨d5, e5, m5, t5, q5, _⟩ := ctlReq_ok hk s4 .clearHaltOut
  let s5 : St σ := ⟨⟨s4.h.nextReqId, ⟨s4.h.cfg.timeoutMs, s4.h.cfg.retry, 128, 128⟩, s4.h.bufLen,
    s4.h.opened, s4.h.abrm⟩, d5,
    .ctl .clearHaltOut (ctlTimeout s4.h.cfg .clearHaltOut) none :: s4.logRev⟩
  have hmem5 : (view s5.d).mem = (view s.d).mem := by
    simp only [s5, s4, s3, s2, s1] at m5 m4 m3 m2 m1 ⊢
    rw [m5, m4, m3, m2, m1]
  have htxn5 : (view s5.d).txn = (view s.d).txn := by
    simp only [s5, s4, s3, s2, s1] at t5 t4 t3 t2 t1 ⊢
    rw [t5, t4, t3, t2, t1]
  have hq5 : (view s5.d).queue = [] := q5 (q4 rfl)
  obtain ⟨s', hs', hcfg', hop', hab', hid', hm', hq', hl', hp'⟩ :=
    initializeConfig_conforming hc p s5 T sbrm (by rw [hmem5]; exact hboot) rfl rfl rfl hid hq5
      hplan hcmd hack hms
  refine ⟨s', ?_, ?_, hop', hab', hid', by rw [hm', hmem5], hq', ?_, ?_⟩
  · have hnop : ¬ (s.h.opened = true) := by simp [hclosed]
    simp only [Control.open, if_neg hnop, e1, initializeChannel]
    simp only [s1] at e2
    simp only [e2]
    simp only [s2, s1] at e3
    simp only [e3]
    simp only [s3, s2, s1] at e4
    simp only [e4]
    simp only [s4, s3, s2, s1] at e5
    simp only [e5]
    have hd : Config.default.maxCmd = 128 ∧ Config.default.maxAck = 128 := ⟨rfl, rfl⟩
    simp only [s5, s4, s3, s2, s1] at hs'
    simp only [hd.1, hd.2, hs']
  · rw [hcfg']
  · rw [hl', hmem5, htxn5]
    simp only [s5, s4, s3, s2, s1, openCtlEvents, ctlTimeout, Config.xfer, List.cons_append,
      List.nil_append]
  · rw [hp', hmem5, htxn5]
    simp only [s5, s4, s3, s2, s1, Config.xfer]

end

end CamVerif.C06
