/-
Helper lemmas for C11: normal forms of the stream parsers of `CamVerif.Model.Stream`
(every parser is rewritten into "length tests + fields at fixed offsets"), the bridge
between the model's field reader `le` and the absolute-offset readers of
`CamVerif.Spec.StreamLayout`, and the chunk-walk invariants.
-/
import CamVerif.Model.Stream
import CamVerif.Spec.StreamLayout
namespace CamVerif.C11
open CamVerif CamVerif.Stream
open CamVerif.Gen.PixelFormat (PixelFormat decode)

/-- Little-endian field of `n` bytes at offset `off`, in the model's vocabulary
(`fromLE` of the sub-list). -/
def le (b : Bytes) (off n : Nat) : Nat := fromLE ((b.drop off).take n)

theorem le_lt (b : Bytes) (off n : Nat) : le b off n < 256 ^ n := by
  unfold le
  have h := fromLE_lt ((b.drop off).take n)
  have hl : ((b.drop off).take n).length ≤ n := by simp [List.length_take]; omega
  exact Nat.lt_of_lt_of_le h (Nat.pow_le_pow_right (by decide) hl)

theorem le_drop (b : Bytes) (k off n : Nat) : le (b.drop k) off n = le b (k + off) n := by
  unfold le
  rw [List.drop_drop]

/-! ### Readers -/

theorem readLE_pos (n : Nat) (hn : 0 < n) (b : Bytes) (pos : Nat) :
    Cursor.readLE n ⟨b, pos⟩ =
      if pos + n ≤ b.length then .ok (le b pos n, ⟨b, pos + n⟩) else .err .bufferIo := by
  unfold Cursor.readLE le
  by_cases h : pos ≤ b.length
  · simp only [Nat.min_eq_left h]
    by_cases h2 : pos + n ≤ b.length
    · rw [if_pos (by omega), if_pos h2]
    · rw [if_neg (by omega), if_neg h2]
  · have : min pos b.length = b.length := Nat.min_eq_right (by omega)
    simp only [this]
    rw [if_neg (by omega), if_neg (by omega)]

theorem sliceReadLE_eq (n : Nat) (s : Bytes) :
    sliceReadLE n s = if n ≤ s.length then .ok (le s 0 n, s.drop n) else .err .bufferIo := by
  simp [sliceReadLE, le]

/-! ### Normal forms of the parsers -/

/-- tactic closing the "nested ifs = normal form" goals -/
macro "parser_nf" : tactic =>
  `(tactic| (
    simp only [Res.bind_ite, Res.bind_ok, Res.bind_err, Res.pure_eq, Nat.zero_add, Nat.reduceAdd,
      le_drop, List.length_drop]
    repeat' split
    all_goals first | rfl | omega | contradiction | (simp_all; done)))

theorem Leader.parse_eq (b : Bytes) : Leader.parse b =
    if b.length < 4 then .err .bufferIo
    else if le b 0 4 ≠ LEADER_MAGIC then .err .invalidPacket
    else if b.length < 20 then .err .bufferIo
    else match PayloadType.tryFrom (le b 18 2) with
      | .ok t => .ok ⟨le b 6 2, le b 8 8, t, b.drop 20⟩
      | .err e => .err e
      | .panic => .panic := by
  simp only [Leader.parse, parsePrefix, readLE_pos _ (by decide : 0 < 4),
    readLE_pos _ (by decide : 0 < 2), readLE_pos _ (by decide : 0 < 8), Cursor.rest]
  parser_nf

theorem Trailer.parse_eq (b : Bytes) : Trailer.parse b =
    if b.length < 4 then .err .bufferIo
    else if le b 0 4 ≠ TRAILER_MAGIC then .err .invalidPacket
    else if b.length < 18 then .err .bufferIo
    else match PayloadStatus.tryFrom (le b 16 2) with
      | .ok s =>
        if b.length < 28 then .err .bufferIo
        else .ok ⟨le b 6 2, le b 8 8, s, le b 20 8, b.drop 28⟩
      | .err e => .err e
      | .panic => .panic := by
  simp only [Trailer.parse, parsePrefix, readLE_pos _ (by decide : 0 < 4),
    readLE_pos _ (by decide : 0 < 2), readLE_pos _ (by decide : 0 < 8), Cursor.rest]
  parser_nf

theorem ImageLeader.fromBytes_eq (b : Bytes) : ImageLeader.fromBytes b =
    if b.length < 12 then .err .bufferIo
    else match pixelFormatTryFrom (le b 8 4) with
      | .ok f =>
        if b.length < 32 then .err .bufferIo
        else .ok ⟨le b 0 8, f, le b 12 4, le b 16 4, le b 20 4, le b 24 4, le b 28 2⟩
      | .err e => .err e
      | .panic => .panic := by
  simp only [ImageLeader.fromBytes, readLE_pos _ (by decide : 0 < 4),
    readLE_pos _ (by decide : 0 < 2), readLE_pos _ (by decide : 0 < 8)]
  parser_nf

theorem ImageExtendedChunkLeader.fromBytes_eq (b : Bytes) :
    ImageExtendedChunkLeader.fromBytes b = ImageLeader.fromBytes b := rfl

theorem ChunkLeader.fromBytes_eq (b : Bytes) : ChunkLeader.fromBytes b =
    if b.length < 8 then .err .bufferIo else .ok ⟨le b 0 8⟩ := by
  simp only [ChunkLeader.fromBytes, readLE_pos _ (by decide : 0 < 8)]
  parser_nf

theorem ImageTrailer.fromBytes_eq (b : Bytes) : ImageTrailer.fromBytes b =
    if b.length < 4 then .err .bufferIo else .ok ⟨le b 0 4⟩ := by
  simp only [ImageTrailer.fromBytes, sliceReadLE_eq]
  parser_nf

theorem ImageExtendedChunkTrailer.fromBytes_eq (b : Bytes) : ImageExtendedChunkTrailer.fromBytes b =
    if b.length < 8 then .err .bufferIo else .ok ⟨le b 0 4, le b 4 4⟩ := by
  simp only [ImageExtendedChunkTrailer.fromBytes, sliceReadLE_eq]
  parser_nf

theorem ChunkTrailer.fromBytes_eq (b : Bytes) : ChunkTrailer.fromBytes b =
    if b.length < 4 then .err .bufferIo else .ok ⟨le b 0 4⟩ := by
  simp only [ChunkTrailer.fromBytes, sliceReadLE_eq]
  parser_nf

theorem PayloadType.tryFrom_ne_panic (v : Nat) : PayloadType.tryFrom v ≠ .panic := by
  unfold PayloadType.tryFrom; repeat' split
  all_goals simp

theorem PayloadStatus.tryFrom_ne_panic (v : Nat) : PayloadStatus.tryFrom v ≠ .panic := by
  unfold PayloadStatus.tryFrom; repeat' split
  all_goals simp

theorem pixelFormatTryFrom_ne_panic (v : Nat) : pixelFormatTryFrom v ≠ .panic := by
  unfold pixelFormatTryFrom; split <;> simp

theorem pixelFormatTryFrom_ok {v : Nat} {f : PixelFormat} :
    pixelFormatTryFrom v = .ok f ↔ decode v = some f := by
  unfold pixelFormatTryFrom; split <;> simp_all

/-! ### Bridge to the absolute-offset readers of `Spec.StreamLayout` -/

section Bridge
open CamVerif.Spec.StreamLayout

theorem u8At_of_lt (b : Bytes) (i : Nat) (h : i < b.length) : u8At b i = some b[i].toNat := by
  simp [u8At, List.getElem?_eq_getElem h]

theorem u8At_none (b : Bytes) (i : Nat) (h : b.length ≤ i) : u8At b i = none := by
  simp [u8At, h]

theorem le_succ (b : Bytes) (i n : Nat) (h : i < b.length) :
    le b i (n + 1) = b[i].toNat + 256 * le b (i + 1) n := by
  unfold le
  rw [List.drop_eq_getElem_cons h, List.take_succ_cons, fromLE]

theorem le_zero (b : Bytes) (i : Nat) : le b i 0 = 0 := by simp [le, fromLE]

theorem u16At_eq (b : Bytes) (i : Nat) (h : i + 2 ≤ b.length) : u16At b i = some (le b i 2) := by
  simp [u16At, u8At_of_lt b i (by omega), u8At_of_lt b (i + 1) (by omega),
    le_succ b i 1 (by omega), le_succ b (i + 1) 0 (by omega), le_zero]

theorem u16At_isSome (b : Bytes) (i : Nat) : (u16At b i).isSome ↔ i + 2 ≤ b.length := by
  constructor
  · intro h
    by_cases h2 : i + 2 ≤ b.length
    · exact h2
    · exfalso
      by_cases h1 : i < b.length
      · simp [u16At, u8At_of_lt b i h1, u8At_none b (i + 1) (by omega)] at h
      · simp [u16At, u8At_none b i (by omega)] at h
  · intro h; simp [u16At_eq b i h]

theorem le_split (b : Bytes) (i m n : Nat) (h : i + m ≤ b.length) :
    le b i (m + n) = le b i m + 256 ^ m * le b (i + m) n := by
  induction m generalizing i with
  | zero => simp [le_zero]
  | succ k ih =>
    have : k + 1 + n = (k + n) + 1 := by omega
    rw [this, le_succ b i (k + n) (by omega), le_succ b i k (by omega), ih (i + 1) (by omega)]
    have : i + 1 + k = i + (k + 1) := by omega
    rw [this, Nat.pow_succ]
    rw [Nat.mul_add, ← Nat.mul_assoc, Nat.mul_comm 256 (256 ^ k), Nat.add_assoc]

theorem u32At_eq (b : Bytes) (i : Nat) (h : i + 4 ≤ b.length) : u32At b i = some (le b i 4) := by
  simp [u32At, u16At_eq b i (by omega), u16At_eq b (i + 2) (by omega), le_split b i 2 2 (by omega)]

theorem u64At_eq (b : Bytes) (i : Nat) (h : i + 8 ≤ b.length) : u64At b i = some (le b i 8) := by
  simp [u64At, u32At_eq b i (by omega), u32At_eq b (i + 4) (by omega), le_split b i 4 4 (by omega)]

theorem take4_drop (b : Bytes) (i : Nat) (h : i + 4 ≤ b.length) :
    (b.drop i).take 4 = [b[i], b[i + 1], b[i + 2], b[i + 3]] := by
  rw [List.drop_eq_getElem_cons (by omega : i < b.length), List.take_succ_cons,
    List.drop_eq_getElem_cons (by omega : i + 1 < b.length), List.take_succ_cons,
    List.drop_eq_getElem_cons (by omega : i + 1 + 1 < b.length), List.take_succ_cons,
    List.drop_eq_getElem_cons (by omega : i + 1 + 1 + 1 < b.length), List.take_succ_cons,
    List.take_zero]

theorem u32BEAt_eq (b : Bytes) (i : Nat) (h : i + 4 ≤ b.length) :
    u32BEAt b i = some (fromBE ((b.drop i).take 4)) := by
  rw [take4_drop b i h]
  simp [u32BEAt, u8At_of_lt b i (by omega), u8At_of_lt b (i + 1) (by omega),
    u8At_of_lt b (i + 2) (by omega), u8At_of_lt b (i + 3) (by omega), fromBE, fromLE]
  omega

/-- The ONE place where the transcribed byte order of the chunk length meets the model's
`u32::from_be_bytes`: it checks only while `chunkLengthOrder = .big`. -/
theorem chunkLenAt_eq (b : Bytes) (i : Nat) (h : i + 4 ≤ b.length) :
    chunkLenAt chunkLengthOrder b i = some (fromBE ((b.drop i).take 4)) := by
  simp only [chunkLenAt, chunkLengthOrder]
  exact u32BEAt_eq b i h

theorem fromBE4_lt (b : Bytes) (i : Nat) : fromBE ((b.drop i).take 4) < 2 ^ 32 := by
  unfold fromBE
  have h := fromLE_lt ((b.drop i).take 4).reverse
  have hl : ((b.drop i).take 4).reverse.length ≤ 4 := by simp [List.length_take]; omega
  have := Nat.pow_le_pow_right (by decide : 0 < 256) hl
  omega

theorem chunkWalk_lt4 (p : Profile) (buf : Bytes) (fuel off : Nat) (h : off < 4) :
    chunkWalk p buf (fuel + 1) off = some (.err .invalidPayload) := by
  simp [chunkWalk, CHUNK_SIZE_LEN, h]

theorem chunkWalk_step (p : Profile) (buf : Bytes) (fuel off : Nat) (h4 : 4 ≤ off)
    (hlen : off ≤ buf.length) (h64 : off < 2 ^ 64) :
    chunkWalk p buf (fuel + 1) off =
      if off < fromBE ((buf.drop (off - 4)).take 4) + 8 then some (.err .invalidPayload)
      else if off - 8 - fromBE ((buf.drop (off - 4)).take 4) = 0 then
        some (.ok (fromBE ((buf.drop (off - 4)).take 4)))
      else chunkWalk p buf fuel (off - 8 - fromBE ((buf.drop (off - 4)).take 4)) := by
  have hn := fromBE4_lt buf (off - 4)
  generalize hN : fromBE ((buf.drop (off - 4)).take 4) = n at hn ⊢
  have hadd1 : (addW p 64 (off - 4) 4 : SR Nat) = .ok off := by
    simp only [addW]; rw [if_pos (by omega)]; congr 1; omega
  have hadd2 : (addW p 64 n 4 : SR Nat) = .ok (n + 4) := by
    simp only [addW]; rw [if_pos (by omega)]
  have hsub : off - (off - 4) = 4 := by omega
  have hlen4 : ((buf.drop (off - 4)).take 4).length = 4 := by
    simp [List.length_take, List.length_drop]; omega
  rw [chunkWalk]
  have hc : (off - 4 ≤ off ∧ off ≤ buf.length) := ⟨by omega, hlen⟩
  simp only [CHUNK_SIZE_LEN, CHUNK_ID_LEN, hadd1, hsub, hlen4, hN, hadd2, if_neg (by omega : ¬ off < 4),
    hc, and_self, not_true_eq_false, if_false, ne_eq]
  by_cases h1 : off < n + 8
  · rw [if_pos (by omega), if_pos h1]
  · rw [if_neg (by omega), if_neg h1]
    have : off - 4 - (n + 4) = off - 8 - n := by omega
    rw [this]

theorem chunkWalk_isSome (p : Profile) (buf : Bytes) :
    ∀ fuel off, off < fuel → (chunkWalk p buf fuel off).isSome = true := by
  intro fuel
  induction fuel with
  | zero => intro off h; omega
  | succ k ih =>
    intro off h
    rw [chunkWalk]
    dsimp only
    repeat' split
    all_goals first | rfl | (apply ih; simp only [CHUNK_SIZE_LEN, CHUNK_ID_LEN] at *; omega)

/-- Soundness of the walk: under `off ≤ |buf|` it never panics, and an `ok s` result means
`buf[0..off)` is a well-formed chunk sequence whose FIRST chunk has `s` data bytes. -/
theorem chunkWalk_sound (p : Profile) (buf : Bytes) :
    ∀ fuel off, off ≤ buf.length → off < 2 ^ 64 → ∀ r, chunkWalk p buf fuel off = some r →
      r ≠ .panic ∧ ∀ s, r = .ok s →
        s + 8 ≤ off ∧ ∃ ns, ChunksBack buf off ns ∧ ns.getLast? = some s := by
  intro fuel
  induction fuel with
  | zero => intro off _ _ r h; simp [chunkWalk] at h
  | succ k ih =>
    intro off hlen h64 r h
    by_cases h4 : off < 4
    · rw [chunkWalk_lt4 p buf k off h4] at h
      cases h
      exact ⟨by simp, by intro s hs; cases hs⟩
    · rw [chunkWalk_step p buf k off (by omega) hlen h64] at h
      have hbe := chunkLenAt_eq buf (off - 4) (by omega)
      generalize fromBE ((buf.drop (off - 4)).take 4) = n at h hbe
      by_cases h1 : off < n + 8
      · rw [if_pos h1] at h
        cases h
        exact ⟨by simp, by intro s hs; cases hs⟩
      · rw [if_neg h1] at h
        by_cases h2 : off - 8 - n = 0
        · rw [if_pos h2] at h
          cases h
          refine ⟨by simp, ?_⟩
          intro s hs
          cases hs
          refine ⟨by omega, [n], ?_, rfl⟩
          exact ⟨by omega, hbe, h2⟩
        · rw [if_neg h2] at h
          obtain ⟨hnp, hok⟩ := ih (off - 8 - n) (by omega) (by omega) r h
          refine ⟨hnp, ?_⟩
          intro s hs
          obtain ⟨hle, ns, hch, hlast⟩ := hok s hs
          refine ⟨by omega, n :: ns, ⟨by omega, hbe, hch⟩, ?_⟩
          cases ns with
          | nil => simp at hlast
          | cons m ms => simpa [List.getLast?_cons_cons] using hlast

/-- Completeness of the walk: every well-formed non-empty chunk sequence is accepted and the
walk returns the data size of its first chunk. -/
theorem chunkWalk_complete (p : Profile) (buf : Bytes) :
    ∀ ns off fuel s, ChunksBack buf off ns → ns.getLast? = some s → off ≤ buf.length →
      off < 2 ^ 64 → off < fuel → chunkWalk p buf fuel off = some (.ok s) := by
  intro ns
  induction ns with
  | nil => intro off fuel s _ h; simp at h
  | cons n rest ih =>
    intro off fuel s hch hlast hlen h64 hfuel
    obtain ⟨h8, hbe, hrest⟩ := hch
    cases fuel with
    | zero => omega
    | succ k =>
      rw [chunkWalk_step p buf k off (by omega) hlen h64]
      rw [chunkLenAt_eq buf (off - 4) (by omega)] at hbe
      cases hbe
      generalize fromBE ((buf.drop (off - 4)).take 4) = n at *
      rw [if_neg (by omega)]
      cases rest with
      | nil =>
        have h0 : off - 8 - n = 0 := hrest
        rw [if_pos h0]
        simp at hlast
        rw [hlast]
      | cons m ms =>
        have hm : m + 8 ≤ off - 8 - n := hrest.1
        rw [if_neg (by omega)]
        exact ih (off - 8 - n) k s hrest (by simpa [List.getLast?_cons_cons] using hlast)
          (by omega) (by omega) (by omega)

theorem chunkWalkRun_eq (p : Profile) (buf : Bytes) (off : Nat) :
    ∃ r, chunkWalk p buf (off + 1) off = some r ∧ chunkWalkRun p buf off = r := by
  have h := chunkWalk_isSome p buf (off + 1) off (by omega)
  unfold chunkWalkRun
  cases hw : chunkWalk p buf (off + 1) off with
  | none => rw [hw] at h; cases h
  | some r => exact ⟨r, rfl, rfl⟩

end Bridge

/-! ### Spec vocabulary for the model's enums -/

section SpecMaps
open CamVerif.Spec

def specType : PayloadType → StreamLayout.PayloadType
  | .image => .image
  | .imageExtendedChunk => .imageExtendedChunk
  | .chunk => .chunk

def specStatus : PayloadStatus → StreamLayout.Status
  | .success => .success
  | .dataDiscarded => .dataDiscarded
  | .dataOverrun => .dataOverrun

theorem tryFrom_type_spec (v : Nat) (t : PayloadType) :
    PayloadType.tryFrom v = .ok t ↔ StreamLayout.payloadTypeOfCode v = some (specType t) := by
  unfold PayloadType.tryFrom StreamLayout.payloadTypeOfCode
  repeat' split
  all_goals cases t <;> simp [specType]


theorem tryFrom_status_spec (v : Nat) (t : PayloadStatus) :
    PayloadStatus.tryFrom v = .ok t ↔ StreamLayout.statusOfCode v = some (specStatus t) := by
  unfold PayloadStatus.tryFrom StreamLayout.statusOfCode
  repeat' split
  all_goals cases t <;> simp [specStatus]

theorem genericLeader_length (b : Bytes) (g : StreamLayout.GenericLeader)
    (h : StreamLayout.genericLeader b = some g) : 20 ≤ b.length := by
  by_cases h20 : 20 ≤ b.length
  · exact h20
  · exfalso
    have : StreamLayout.u16At b 18 = none := by
      have := u16At_isSome b 18
      cases hx : StreamLayout.u16At b 18 with
      | none => rfl
      | some v => rw [hx] at this; simp at this; omega
    simp [StreamLayout.genericLeader, this] at h


theorem u16At_none (b : Bytes) (i : Nat) (h : ¬ i + 2 ≤ b.length) : StreamLayout.u16At b i = none := by
  cases hx : StreamLayout.u16At b i with
  | none => rfl
  | some v => exact absurd ((u16At_isSome b i).mp (by rw [hx]; rfl)) h

theorem u32At_none (b : Bytes) (i : Nat) (h : ¬ i + 4 ≤ b.length) : StreamLayout.u32At b i = none := by
  simp [StreamLayout.u32At, u16At_none b (i + 2) (by omega)]

theorem u64At_none (b : Bytes) (i : Nat) (h : ¬ i + 8 ≤ b.length) : StreamLayout.u64At b i = none := by
  simp [StreamLayout.u64At, u32At_none b (i + 4) (by omega)]

theorem genericTrailer_length (b : Bytes) (g : StreamLayout.GenericTrailer)
    (h : StreamLayout.genericTrailer b = some g) : 28 ≤ b.length := by
  by_cases h28 : 28 ≤ b.length
  · exact h28
  · exfalso
    simp [StreamLayout.genericTrailer, u64At_none b 20 (by omega)] at h

theorem imageLeader_length (b : Bytes) (s : StreamLayout.ImageLeader)
    (h : StreamLayout.imageLeader b = some s) : 52 ≤ b.length := by
  by_cases h52 : 52 ≤ b.length
  · exact h52
  · exfalso
    simp [StreamLayout.imageLeader, u16At_none b 50 (by omega)] at h

end SpecMaps

/-! ### `Res` plumbing -/

theorem bind_eq_ok {ε α β : Type} {x : Res ε α} {f : α → Res ε β} {y : β} :
    (x >>= f) = .ok y ↔ ∃ a, x = .ok a ∧ f a = .ok y := by
  cases x <;> simp

theorem bind_ne_panic {ε α β : Type} {x : Res ε α} {f : α → Res ε β}
    (hx : x ≠ .panic) (hf : ∀ a, x = .ok a → f a ≠ .panic) : (x >>= f) ≠ .panic := by
  cases x with
  | ok a => simpa using hf a rfl
  | err e => simp
  | panic => exact absurd rfl hx

theorem mapErr_eq_ok {α : Type} {x : R α} {a : α} : mapErr x = .ok a ↔ x = .ok a := by
  cases x <;> simp [mapErr]

theorem mapErr_ok' {α : Type} {x : R α} {a : α} (h : x = .ok a) : mapErr x = .ok a := by
  rw [h]; rfl

theorem mapErr_ne_panic {α : Type} {x : R α} (h : x ≠ .panic) : mapErr x ≠ .panic := by
  cases x <;> simp_all [mapErr]

/-! ### The parsers never panic -/

theorem Leader.parse_ne_panic (b : Bytes) : Leader.parse b ≠ .panic := by
  rw [Leader.parse_eq]
  intro h
  repeat' (split at h)
  all_goals first | (cases h; done) | exact absurd ‹_› (PayloadType.tryFrom_ne_panic _)

theorem Trailer.parse_ne_panic (b : Bytes) : Trailer.parse b ≠ .panic := by
  rw [Trailer.parse_eq]
  intro h
  repeat' (split at h)
  all_goals first | (cases h; done) | exact absurd ‹_› (PayloadStatus.tryFrom_ne_panic _)

theorem ImageLeader.fromBytes_ne_panic (b : Bytes) : ImageLeader.fromBytes b ≠ .panic := by
  rw [ImageLeader.fromBytes_eq]
  intro h
  repeat' (split at h)
  all_goals first | (cases h; done) | exact absurd ‹_› (pixelFormatTryFrom_ne_panic _)

theorem ChunkLeader.fromBytes_ne_panic (b : Bytes) : ChunkLeader.fromBytes b ≠ .panic := by
  rw [ChunkLeader.fromBytes_eq]; intro h; split at h <;> cases h

theorem ImageTrailer.fromBytes_ne_panic (b : Bytes) : ImageTrailer.fromBytes b ≠ .panic := by
  rw [ImageTrailer.fromBytes_eq]; intro h; split at h <;> cases h

theorem ImageExtendedChunkTrailer.fromBytes_ne_panic (b : Bytes) :
    ImageExtendedChunkTrailer.fromBytes b ≠ .panic := by
  rw [ImageExtendedChunkTrailer.fromBytes_eq]; intro h; split at h <;> cases h

theorem ChunkTrailer.fromBytes_ne_panic (b : Bytes) : ChunkTrailer.fromBytes b ≠ .panic := by
  rw [ChunkTrailer.fromBytes_eq]; intro h; split at h <;> cases h

/-! ### ok-characterisations -/

theorem Leader.parse_ok {b : Bytes} {l : Leader} (h : Leader.parse b = .ok l) :
    20 ≤ b.length ∧ le b 0 4 = 0x4C563355 ∧ PayloadType.tryFrom (le b 18 2) = .ok l.payloadType ∧
    l.leaderSize = le b 6 2 ∧ l.blockId = le b 8 8 ∧ l.raw = b.drop 20 := by
  rw [Leader.parse_eq] at h
  repeat' (split at h)
  all_goals first | (cases h; done) | skip
  cases h
  refine ⟨by omega, by simp only [LEADER_MAGIC] at *; omega, ‹_›, rfl, rfl, rfl⟩

theorem Trailer.parse_ok {b : Bytes} {t : Trailer} (h : Trailer.parse b = .ok t) :
    28 ≤ b.length ∧ le b 0 4 = 0x54563355 ∧ PayloadStatus.tryFrom (le b 16 2) = .ok t.payloadStatus ∧
    t.trailerSize = le b 6 2 ∧ t.blockId = le b 8 8 ∧ t.validPayloadSize = le b 20 8 ∧
    t.raw = b.drop 28 := by
  rw [Trailer.parse_eq] at h
  repeat' (split at h)
  all_goals first | (cases h; done) | skip
  cases h
  refine ⟨by omega, by simp only [TRAILER_MAGIC] at *; omega, ‹_›, rfl, rfl, rfl, rfl⟩

theorem ImageLeader.fromBytes_ok {b : Bytes} {il : ImageLeader} (h : ImageLeader.fromBytes b = .ok il) :
    32 ≤ b.length ∧ decode (le b 8 4) = some il.pixelFormat ∧ il.timestamp = le b 0 8 ∧
    il.width = le b 12 4 ∧ il.height = le b 16 4 ∧ il.xOffset = le b 20 4 ∧ il.yOffset = le b 24 4 ∧
    il.xPadding = le b 28 2 := by
  rw [ImageLeader.fromBytes_eq] at h
  repeat' (split at h)
  all_goals first | (cases h; done) | skip
  cases h
  refine ⟨by omega, pixelFormatTryFrom_ok.mp ‹_›, rfl, rfl, rfl, rfl, rfl, rfl⟩

theorem ChunkLeader.fromBytes_ok {b : Bytes} {cl : ChunkLeader} (h : ChunkLeader.fromBytes b = .ok cl) :
    8 ≤ b.length ∧ cl.timestamp = le b 0 8 := by
  rw [ChunkLeader.fromBytes_eq] at h
  split at h
  · cases h
  · cases h; exact ⟨by omega, rfl⟩

theorem ImageTrailer.fromBytes_ok {b : Bytes} {x : ImageTrailer} (h : ImageTrailer.fromBytes b = .ok x) :
    4 ≤ b.length ∧ x.actualHeight = le b 0 4 := by
  rw [ImageTrailer.fromBytes_eq] at h
  split at h
  · cases h
  · cases h; exact ⟨by omega, rfl⟩

theorem ImageExtendedChunkTrailer.fromBytes_ok {b : Bytes} {x : ImageExtendedChunkTrailer}
    (h : ImageExtendedChunkTrailer.fromBytes b = .ok x) :
    8 ≤ b.length ∧ x.actualHeight = le b 0 4 ∧ x.chunkLayoutId = le b 4 4 := by
  rw [ImageExtendedChunkTrailer.fromBytes_eq] at h
  split at h
  · cases h
  · cases h; exact ⟨by omega, rfl, rfl⟩

theorem ChunkTrailer.fromBytes_ok {b : Bytes} {x : ChunkTrailer} (h : ChunkTrailer.fromBytes b = .ok x) :
    4 ≤ b.length ∧ x.chunkLayoutId = le b 0 4 := by
  rw [ChunkTrailer.fromBytes_eq] at h
  split at h
  · cases h
  · cases h; exact ⟨by omega, rfl⟩

end CamVerif.C11
