/-
Helper lemmas for C20, part 3: typed registers (default `Register::write`/`read`, scalar,
string and byte codecs).
-/
import CamVerif.Proofs.C20Raw
namespace CamVerif.Memory

/-! ### slices -/

theorem slice_ok (m : Bytes) {s e : Nat} (h : s ≤ e) (he : e ≤ m.length) :
    slice m s e = .ok ((m.drop s).take (e - s)) := by simp [slice, h, he]

theorem splice_ok (m : Bytes) {s e : Nat} (d : Bytes) (h : s ≤ e) (he : e ≤ m.length)
    (hd : d.length = e - s) : splice m s e d = .ok (m.take s ++ d ++ m.drop e) := by
  simp [splice, h, he, hd]

theorem spliced_length (m d : Bytes) (s n : Nat) (he : s + n ≤ m.length) (hd : d.length = n) :
    (m.take s ++ d ++ m.drop (s + n)).length = m.length := by
  simp only [List.length_append, List.length_take, List.length_drop]; omega

theorem spliced_slice (m d : Bytes) (s n : Nat) (he : s + n ≤ m.length) (hd : d.length = n) :
    ((m.take s ++ d ++ m.drop (s + n)).drop s).take n = d := by
  have h1 : (m.take s).length = s := by simp; omega
  rw [List.append_assoc, List.drop_append_of_le_length (by omega), List.drop_of_length_le (by omega),
    List.nil_append, List.take_append_of_le_length (by omega), ← hd, List.take_length]

theorem spliced_outside (m d : Bytes) (s n i : Nat) (he : s + n ≤ m.length) (hd : d.length = n)
    (hi : i < s ∨ s + n ≤ i) : (m.take s ++ d ++ m.drop (s + n))[i]? = m[i]? := by
  rcases hi with hi | hi
  · rw [List.append_assoc, List.getElem?_append_left (by simp; omega), List.getElem?_take_of_lt hi]
  · rw [List.getElem?_append_right (by simp; omega)]
    simp only [List.length_append, List.length_take, List.getElem?_drop]
    congr 1; omega

/-- The default `Register::write` followed by the default `Register::read`, for any codec whose
`serialize` produces exactly `len` bytes that `parse` maps back to the value. -/
theorem default_roundtrip {α : Type} (address len : Nat) (ar : AccessRight)
    (parse : Bytes → R α) (ser : α → R Bytes) (v : α) (d memory : Bytes)
    (hs : ser v = .ok d) (hd : d.length = len) (hp : parse d = .ok v)
    (hin : address + len ≤ memory.length) :
    let r : Register α := ⟨address, len, ar, parse, ser, defaultWrite address len ser,
      defaultWriteSt address len ser⟩
    let memory' := memory.take address ++ d ++ memory.drop (address + len)
    r.write v memory = .ok memory' ∧ r.read memory' = .ok v ∧ memory'.length = memory.length ∧
    ∀ i, i < address ∨ address + len ≤ i → memory'[i]? = memory[i]? := by
  intro r memory'
  have hlen : memory'.length = memory.length := spliced_length memory d address len hin hd
  refine ⟨?_, ?_, hlen, fun i hi => spliced_outside memory d address len i hin hd hi⟩
  · show defaultWrite address len ser v memory = _
    simp only [defaultWrite, hs]
    rw [splice_ok memory d (by omega) hin (by omega)]
  · show Register.read r memory' = _
    simp only [Register.read, Register.rangeEnd, r]
    rw [slice_ok memory' (by omega) (by omega), Nat.add_sub_cancel_left,
      spliced_slice memory d address len hin hd]
    exact hp

/-- when `serialize` refuses the value the default `write` returns that error. -/
theorem default_write_err {α : Type} (address len : Nat) (ser : α → R Bytes) (v : α) (memory : Bytes)
    (e : MemErr) (hs : ser v = .err e) : defaultWrite address len ser v memory = .err e := by
  simp [defaultWrite, hs]

/-! ### scalars -/

theorem pow256 (size : Nat) : 256 ^ size = 2 ^ (8 * size) := by
  rw [Nat.pow_mul]

theorem wordBytes_length (e : Endian) (size x : Nat) : (wordBytes e size x).length = size := by
  cases e <;> simp [wordBytes]

theorem readWord_wordBytes (e : Endian) (size x : Nat) :
    readWord e size (wordBytes e size x) = .ok (x % 256 ^ size) := by
  have hl := wordBytes_length e size x
  have ht : (wordBytes e size x).take size = wordBytes e size x :=
    List.take_of_length_le (by omega)
  simp only [readWord, hl, Nat.lt_irrefl, if_false, ht]
  cases e
  · simp [wordBytes, fromLE_toLE]
  · simp [wordBytes, fromBE_toBE]

theorem scalar_codec (e : Endian) (size : Nat) (v : BitVec (8 * size)) :
    scalarSerialize e size v = .ok (wordBytes e size v.toNat) ∧
    scalarParse e size (wordBytes e size v.toNat) = .ok v := by
  refine ⟨rfl, ?_⟩
  simp only [scalarParse, readWord_wordBytes]
  have : v.toNat % 256 ^ size = v.toNat := Nat.mod_eq_of_lt (by rw [pow256]; exact v.isLt)
  rw [this, BitVec.ofNat_toNat, BitVec.setWidth_eq]

/-! ### strings -/

theorem findIdx_noNul (s rest : Bytes) (h : ∀ b ∈ s, b ≠ 0) :
    (s ++ rest).findIdx? (· == 0) = (rest.findIdx? (· == 0)).map (· + s.length) := by
  induction s with
  | nil => simp
  | cons b bs ih =>
    have hb : (b == 0) = false := by simpa using h b (by simp)
    simp only [List.cons_append, List.findIdx?_cons, hb, Bool.false_eq_true, if_false, List.length_cons]
    rw [ih (fun x hx => h x (by simp [hx]))]
    cases rest.findIdx? (· == 0) <;> simp; omega

theorem isAscii_take (s : Bytes) (n : Nat) (h : isAscii s = true) : isAscii (s.take n) = true := by
  simp only [isAscii, List.all_eq_true] at *
  exact fun x hx => h x (List.mem_of_mem_take hx)

/-- ASCII, NUL-free, not longer than the register: serialized to `len` bytes (zero padded) and
parsed back to the same string. -/
theorem str_codec (len : Nat) (s : Bytes) (hascii : isAscii s = true) (hnul : ∀ b ∈ s, b ≠ 0)
    (hlen : s.length ≤ len) :
    ∃ d, strSerialize len s = .ok d ∧ d.length = len ∧ d = s ++ List.replicate (len - s.length) 0 ∧
      strParse len d = .ok s := by
  refine ⟨s ++ List.replicate (len - s.length) 0, ?_, by simp; omega, rfl, ?_⟩
  · simp only [strSerialize, hascii, Bool.not_true, Bool.false_eq_true, if_false]
    by_cases h : s.length < len
    · simp [h]
    · have : s.length = len := by omega
      simp [this]
  · simp only [strParse, findIdx_noNul s _ hnul]
    by_cases h : s.length < len
    · have hrep : List.replicate (len - s.length) (0 : UInt8) = 0 :: List.replicate (len - s.length - 1) 0 := by
        rw [← List.replicate_succ]; congr 1; omega
      rw [hrep]
      have h0 : ((0 : UInt8) == 0) = true := by decide
      simp only [List.findIdx?_cons, h0, if_true, Option.map_some, Nat.zero_add, List.length_append,
        List.length_cons, List.length_replicate]
      rw [if_pos (by omega), List.take_left' rfl, if_pos hascii]
    · have hz : len - s.length = 0 := by omega
      have hsl : s.length = len := by omega
      simp only [hz, List.replicate_zero, List.findIdx?_nil, Option.map_none, List.append_nil]
      rw [if_pos (by omega), List.take_of_length_le (by omega), if_pos hascii]

theorem str_refused (len : Nat) (s : Bytes) (h : isAscii s = false ∨ len < s.length) :
    strSerialize len s = .err .invalidRegisterData := by
  unfold strSerialize
  by_cases ha : isAscii s = true
  · rcases h with h | h
    · simp [ha] at h
    · have h1 : ¬ s.length < len := by omega
      simp [ha, h1, h]
  · simp [ha]

/-! ### bytes -/

theorem bytes_codec (len : Nat) (b : Bytes) (h : b.length = len) :
    bytesSerialize len b = .ok b ∧ bytesParse b = .ok b := by
  simp [bytesSerialize, bytesParse, h]

theorem bytes_refused (len : Nat) (b : Bytes) (h : b.length ≠ len) :
    bytesSerialize len b = .err .invalidRegisterData := by
  simp [bytesSerialize, h]

/-! ### memory level -/

/-- a typed write through the `#[memory]` struct: image replaced by the register's `write`,
protection/observers untouched, observers of `notify_all(T::range())` fired. -/
theorem mem_write_ok {α : Type} (m : Mem) (r : Register α) (v : α) (raw' : Bytes)
    (h : r.write v m.raw = .ok raw') :
    m.write r v = .ok ({ m with raw := raw' }, m.notifyAll r.address (r.address + r.length)) := by
  simp [Mem.write, h, Register.rangeEnd]

theorem mem_write_err {α : Type} (m : Mem) (r : Register α) (v : α) (e : MemErr)
    (h : r.write v m.raw = .err e) : m.write r v = .err e := by
  simp [Mem.write, h]

/-! ### `new()` and the representation invariant -/

open MemoryProtection in
theorem setAccessRight_sizes (mp mp' : MemoryProtection) (a : Nat) (r : AccessRight)
    (h : mp.setAccessRight a r = .ok mp') :
    mp'.memorySize = mp.memorySize ∧ mp'.inner.length = mp.inner.length := by
  unfold setAccessRight at h
  split at h
  · cases h
  · cases h; simp

open MemoryProtection in
theorem setAccessRightFrom_sizes (r : AccessRight) (mp mp' : MemoryProtection) (a n : Nat)
    (h : setAccessRightFrom r mp a n = .ok mp') :
    mp'.memorySize = mp.memorySize ∧ mp'.inner.length = mp.inner.length := by
  induction n generalizing mp a with
  | zero => cases h; exact ⟨rfl, rfl⟩
  | succ k ih =>
    simp only [setAccessRightFrom] at h
    split at h
    · next mp1 h1 =>
      have := setAccessRight_sizes mp mp1 a r h1
      have := ih mp1 (a + 1) h
      omega
    · cases h
    · cases h

open MemoryProtection in
theorem initProtection_sizes (rs : List RegInit) (mp mp' : MemoryProtection)
    (h : initProtection rs mp = .ok mp') :
    mp'.memorySize = mp.memorySize ∧ mp'.inner.length = mp.inner.length := by
  induction rs generalizing mp with
  | nil => cases h; exact ⟨rfl, rfl⟩
  | cons r rs ih =>
    simp only [initProtection] at h
    split at h
    · next mp1 h1 =>
      have := setAccessRightFrom_sizes _ _ _ _ _ h1
      have := ih mp1 h
      omega
    · cases h
    · cases h

/-- an initialiser that keeps the image length (every generated `write` does) -/
def RegInit.LengthPreserving (r : RegInit) : Prop :=
  ∀ w, r.init = some w → ∀ raw raw', w raw = .ok raw' → raw'.length = raw.length

theorem initRaw_length (rs : List RegInit) (raw raw' : Bytes) (hp : ∀ r ∈ rs, r.LengthPreserving)
    (h : initRaw rs raw = .ok raw') : raw'.length = raw.length := by
  induction rs generalizing raw with
  | nil => cases h; rfl
  | cons r rs ih =>
    simp only [initRaw] at h
    split at h
    · exact ih raw (fun x hx => hp x (by simp [hx])) h
    · next w hw =>
      split at h
      · next raw1 h1 =>
        have := hp r (by simp) w hw raw raw1 h1
        have := ih raw1 (fun x hx => hp x (by simp [hx])) h
        omega
      · cases h

theorem initFragments_sizes (fs : List Fragment) (raw raw' : Bytes) (mp mp' : MemoryProtection)
    (hp : ∀ f ∈ fs, ∀ r ∈ f.regs, r.LengthPreserving)
    (h : initFragments fs raw mp = .ok (raw', mp')) :
    raw'.length = raw.length ∧ mp'.memorySize = mp.memorySize ∧ mp'.inner.length = mp.inner.length := by
  induction fs generalizing raw mp with
  | nil => cases h; exact ⟨rfl, rfl, rfl⟩
  | cons f fs ih =>
    simp only [initFragments] at h
    split at h
    · cases h
    · cases h
    · next mp1 h1 =>
      split at h
      · cases h
      · cases h
      · next raw1 h2 =>
        have := initProtection_sizes _ _ _ h1
        have := initRaw_length _ _ _ (hp f (by simp)) h2
        have := ih raw1 mp1 (fun g hg => hp g (by simp [hg])) h
        omega

open MemoryProtection in
theorem new_wf (frags : List Fragment) (m : Mem) (hp : ∀ f ∈ frags, ∀ r ∈ f.regs, r.LengthPreserving)
    (h : Mem.new frags = .ok m) :
    m.WF ∧ memorySize frags = some m.raw.length ∧ m.observers = [] := by
  unfold Mem.new at h
  split at h
  · cases h
  · next n hn =>
    split at h
    · next raw mp h1 =>
      cases h
      obtain ⟨h2, h3, h4⟩ := initFragments_sizes _ _ _ _ _ hp h1
      have hc := new_capacity n
      simp only [List.length_replicate] at h2
      refine ⟨⟨by simp only [h3, h2]; rfl, ?_⟩, by rw [hn, h2], rfl⟩
      simp only [capacity, h4, h2] at hc ⊢
      exact hc.1
    · cases h
    · cases h

/-- the default `write` and the bit-field `write` keep the image length -/
theorem defaultWrite_length {α} (address len : Nat) (ser : α → R Bytes) (v : α) (raw raw' : Bytes)
    (h : defaultWrite address len ser v raw = .ok raw') : raw'.length = raw.length := by
  unfold defaultWrite at h
  split at h
  · exact splice_length _ _ _ _ _ h
  · cases h
  · cases h

theorem bfWrite_length {w : Nat} (e : Endian) (sg : Bool) (lsb msb : Nat) (mn mx : Int) (address len : Nat)
    (data : BitVec w) (raw raw' : Bytes)
    (h : bfWrite e sg w lsb msb mn mx address len data raw = .ok raw') : raw'.length = raw.length := by
  unfold bfWrite at h
  split at h
  · cases h
  · cases h
  · split at h
    · cases h
    · cases h
    · next cur hc =>
      split at h
      · cases h
      · cases h
      · cases h
        unfold slice at hc
        split at hc
        · next hcond =>
          cases hc
          simp only [writeWordFront, List.length_append, List.length_take, List.length_drop]
          omega
        · cases hc

/-! ### State after `new()` -/

section AfterNew
open MemoryProtection

/-- declared right of byte `i` after initialisation: the `access =` of the LAST register (in
initialisation order) whose range covers `i`, else what was there before -/
def specRight (regs : List RegInit) (i : Nat) (dflt : AccessRight) : AccessRight :=
  regs.foldl (fun acc r => if r.address ≤ i ∧ i < r.address + r.length then r.access else acc) dflt

theorem specRight_append (a b : List RegInit) (i : Nat) (d : AccessRight) :
    specRight (a ++ b) i d = specRight b i (specRight a i d) := by
  simp [specRight, List.foldl_append]

theorem initProtection_cells (regs : List RegInit) (mp : MemoryProtection)
    (hin : ∀ r ∈ regs, r.address + r.length ≤ mp.capacity) :
    ∃ mp', initProtection regs mp = .ok mp' ∧ mp'.capacity = mp.capacity ∧
      mp'.memorySize = mp.memorySize ∧ ∀ i, mp'.cell i = specRight regs i (mp.cell i) := by
  induction regs generalizing mp with
  | nil => exact ⟨mp, rfl, rfl, rfl, fun i => rfl⟩
  | cons r rs ih =>
    obtain ⟨mp1, h1, hs1, hl1, hc1⟩ := setAccessRightFrom_ok r.access mp r.address r.length (hin r (by simp))
    have hcap1 : mp1.capacity = mp.capacity := by simp [capacity, hl1]
    obtain ⟨mp2, h2, hcap2, hs2, hc2⟩ := ih mp1 (fun x hx => by rw [hcap1]; exact hin x (by simp [hx]))
    refine ⟨mp2, ?_, by omega, by omega, fun i => ?_⟩
    · simp only [initProtection, setAccessRightWithRange, rangeCount_le (Nat.le_add_right _ _),
        Nat.add_sub_cancel_left, h1]
      exact h2
    · rw [hc2, hc1]
      simp only [specRight, List.foldl_cons]

theorem initRaw_append (a b : List RegInit) (raw : Bytes) :
    initRaw (a ++ b) raw = match initRaw a raw with
      | .ok raw1 => initRaw b raw1
      | .err e => .err e
      | .panic => .panic := by
  induction a generalizing raw with
  | nil => rfl
  | cons r rs ih =>
    simp only [List.cons_append, initRaw]
    cases r.init with
    | none => exact ih raw
    | some w =>
      simp only
      cases w raw with
      | ok raw1 => exact ih raw1
      | err e => rfl
      | panic => rfl

/-- the initialisers of `rs` keep the image length and the bytes `a .. a+n` -/
def KeepRange (rs : List RegInit) (a n : Nat) : Prop :=
  ∀ q ∈ rs, ∀ w, q.init = some w → ∀ x x', w x = .ok x' →
    x'.length = x.length ∧ (x'.drop a).take n = (x.drop a).take n

theorem initRaw_keeps (rs : List RegInit) (raw raw' : Bytes) (a n : Nat) (hk : KeepRange rs a n)
    (h : initRaw rs raw = .ok raw') :
    raw'.length = raw.length ∧ (raw'.drop a).take n = (raw.drop a).take n := by
  induction rs generalizing raw with
  | nil => cases h; exact ⟨rfl, rfl⟩
  | cons r rs ih =>
    simp only [initRaw] at h
    split at h
    · exact ih raw (fun q hq => hk q (by simp [hq])) h
    · next w hw =>
      split at h
      · next raw1 h1 =>
        obtain ⟨h2, h3⟩ := hk r (by simp) w hw raw raw1 h1
        obtain ⟨h4, h5⟩ := ih raw1 (fun q hq => hk q (by simp [hq])) h
        exact ⟨by omega, by rw [h5, h3]⟩
      · cases h

theorem initFragments_eq (fs : List Fragment) (raw raw' : Bytes) (mp mp' : MemoryProtection)
    (h : initFragments fs raw mp = .ok (raw', mp')) :
    initRaw (fs.flatMap (·.regs)) raw = .ok raw' ∧ initProtection (fs.flatMap (·.regs)) mp = .ok mp' := by
  induction fs generalizing raw mp with
  | nil => cases h; exact ⟨rfl, rfl⟩
  | cons f fs ih =>
    simp only [initFragments] at h
    split at h
    · cases h
    · cases h
    · next mp1 h1 =>
      split at h
      · cases h
      · cases h
      · next raw1 h2 =>
        obtain ⟨h3, h4⟩ := ih raw1 mp1 h
        constructor
        · simp only [List.flatMap_cons, initRaw_append, h2]; exact h3
        · simp only [List.flatMap_cons]
          clear h2 h3 h
          generalize f.regs = rs at h1 ⊢
          induction rs generalizing mp with
          | nil => cases h1; exact h4
          | cons r rs ih2 =>
            rw [List.cons_append]
            rw [initProtection] at h1 ⊢
            split at h1
            · next mpa ha => exact ih2 mpa h1
            · cases h1
            · cases h1

theorem read_congr {α} (r : Register α) (x y : Bytes) (hl : x.length = y.length)
    (hs : (x.drop r.address).take r.length = (y.drop r.address).take r.length) : r.read x = r.read y := by
  simp only [Register.read, slice, Register.rangeEnd, hl, Nat.add_sub_cancel_left, hs]

/-- cells after `new()` -/
theorem new_cells (frags : List Fragment) (m : Mem) (n : Nat) (hn : memorySize frags = some n)
    (hin : ∀ f ∈ frags, ∀ r ∈ f.regs, r.address + r.length ≤ n) (h : Mem.new frags = .ok m) :
    ∀ i, m.protection.cell i = specRight (frags.flatMap (·.regs)) i .NA := by
  unfold Mem.new at h
  rw [hn] at h
  simp only at h
  split at h
  · next raw mp h1 =>
    cases h
    obtain ⟨_, h3⟩ := initFragments_eq _ _ _ _ _ h1
    have hc := new_capacity n
    obtain ⟨mp', h4, _, _, h5⟩ := initProtection_cells (frags.flatMap (·.regs)) (MemoryProtection.new n)
      (fun r hr => by
        obtain ⟨f, hf, hrf⟩ := List.mem_flatMap.mp hr
        have := hin f hf r hrf; omega)
    rw [h3] at h4; cases h4
    intro i
    rw [h5, new_cell]
  · cases h
  · cases h

/-- `new()` then a typed read returns the declared init value, provided no later initialiser
touches the register's bytes -/
theorem new_read_init {α} (frags : List Fragment) (m : Mem) (h : Mem.new frags = .ok m)
    (reg : Register α) (v : α) (pre post : List RegInit) (r : RegInit)
    (hsplit : frags.flatMap (·.regs) = pre ++ r :: post) (hr : r.init = some (reg.write v))
    (hrt : ∀ x x', reg.write v x = .ok x' → reg.read x' = .ok v)
    (hpost : KeepRange post reg.address reg.length) : m.read reg = .ok v := by
  unfold Mem.new at h
  split at h
  · cases h
  · next n hn =>
    split at h
    · next raw mp h1 =>
      cases h
      obtain ⟨h2, _⟩ := initFragments_eq _ _ _ _ _ h1
      rw [hsplit, initRaw_append] at h2
      split at h2
      · next raw1 hpre =>
        simp only [initRaw, hr] at h2
        split at h2
        · next raw2 hw =>
          obtain ⟨hl, hs⟩ := initRaw_keeps post raw2 raw reg.address reg.length hpost h2
          show reg.read raw = .ok v
          rw [read_congr reg raw raw2 hl hs]
          exact hrt _ _ hw
        · cases h2
      · cases h2
      · cases h2
    · cases h
    · cases h

end AfterNew

end CamVerif.Memory
