/-
C01 with caching ON, part 2 (composition with C04's cache model, imported, not edited):
StringReg, raw Register, FloatReg round trips / footprints under the DEFAULT cache store,
and the footprint of cached READS (`value()` of every register kind, `IRegister::read`).

All statements: constant-address registers (`r.sel = none`), every caching mode, ANY state
(so any prior history / cache content), any description around the register.
-/
import CamVerif.Proofs.C01Cached
namespace CamVerif.Proofs.C01Cached
open CamVerif CamVerif.Cache CamVerif.C04 CamVerif.Spec.Codec

/-! ## pure bridges: C04's string / float codecs against `Spec.Codec` and `Model.Reg` -/

/-- C04's `StringReg::set_value` check-and-pad succeeds exactly on the representable strings
and then yields the NUL-padded image of the independent codec -/
theorem cache_bytesFromStr_ok_iff (s : Bytes) (n : Nat) (buf : Bytes) :
    Cache.bytesFromStr s n = .ok buf ↔ Representable n s ∧ buf = strImage n s := by
  unfold Cache.bytesFromStr Representable strImage
  constructor
  · intro h
    split at h
    · cases h
    split at h
    · cases h
    split at h
    · cases h
    rename_i h1 h2 h3
    injection h with h
    refine ⟨⟨fun b hb => ⟨?_, ?_⟩, by omega⟩, h.symm⟩
    · apply Classical.byContradiction
      intro hc
      exact h1 (List.any_eq_true.mpr ⟨b, hb, by simpa using hc⟩)
    · intro hc
      exact h2 (List.any_eq_true.mpr ⟨b, hb, by simp [hc]⟩)
  · rintro ⟨⟨hall, hlen⟩, rfl⟩
    have h1 : ¬ (s.any (· ≥ 128) = true) := by
      intro hc
      obtain ⟨b, hb, hb2⟩ := List.any_eq_true.mp hc
      have := (hall b hb).1
      simp only [ge_iff_le, decide_eq_true_eq] at hb2
      exact absurd this (by simpa using hb2)
    have h2 : ¬ (s.any (· == 0) = true) := by
      intro hc
      obtain ⟨b, hb, hb2⟩ := List.any_eq_true.mp hc
      exact (hall b hb).2 (by simpa using hb2)
    rw [if_neg h1, if_neg h2, if_neg (by omega)]

/-- the NUL-free prefix of the padded image is the string -/
theorem strFromSlice_strImage (s : Bytes) (n : Nat) (h : Representable n s) :
    Cache.strFromSlice (strImage n s) = s := by
  unfold Cache.strFromSlice strImage
  have hs : ∀ b ∈ s, (decide (b ≠ 0)) = true := fun b hb => by simpa using (h.1 b hb).2
  rw [List.takeWhile_append_of_pos hs]
  cases hk : n - s.length with
  | zero => simp
  | succ k => simp [List.replicate_succ]

/-- bit pattern that C04's `Val.flt` carries for the float `x` in a register of `len` bytes -/
def fltBits {F : Type} [Reg.FloatOps F] (x : F) (len : Nat) : Nat :=
  if len = 8 then (Reg.FloatOps.toBits x).toNat else (Reg.FloatOps.narrowBits32 x).toNat

/-- the float a `Val.flt width bits` denotes (`f64::from_bits` / widening of `f32::from_bits`) -/
def fltOf {F : Type} [Reg.FloatOps F] (width bits : Nat) : F :=
  if width = 8 then Reg.FloatOps.ofBits (BitVec.ofNat 64 bits)
  else Reg.FloatOps.widenBits32 (BitVec.ofNat 32 bits)

theorem fltBits_lt {F : Type} [Reg.FloatOps F] (x : F) (len : Nat) (hl : FloatLen len) :
    fltBits x len < 2 ^ (8 * len) := by
  unfold fltBits
  rcases hl with rfl | rfl
  · rw [if_neg (by decide)]; exact (Reg.FloatOps.narrowBits32 x).isLt
  · rw [if_pos rfl]; exact (Reg.FloatOps.toBits x).isLt

/-- **bridge (float encode)**: C04's `bytes_from_float` on the bit pattern of `x` is C01's
`bytes_from_float` on `x` (which `float_layout` shows to be the IEEE byte layout) -/
theorem cache_bytesFromFloat_is_reg {F : Type} [Reg.FloatOps F] (x : F) (len : Nat)
    (hl : FloatLen len) (e : Cache.Endian) (buf : Bytes) :
    Cache.bytesFromFloat (fltBits x len) len e = .ok buf ↔
      Reg.bytesFromFloat x len (eTo e) = .ok buf := by
  have hlt := fltBits_lt x len hl
  unfold Cache.bytesFromFloat
  rw [Nat.mod_eq_of_lt hlt, toEndian_eq]
  unfold fltBits
  rcases hl with rfl | rfl
  · simp [Reg.bytesFromFloat]
  · simp [Reg.bytesFromFloat]

/-- **bridge (float decode)**: C04's `float_from_slice` carries the bit pattern whose float is
C01's `float_from_slice` -/
theorem cache_floatFromSlice_is_reg {F : Type} [Reg.FloatOps F] (bs : Bytes)
    (hl : FloatLen bs.length) (e : Cache.Endian) :
    Cache.floatFromSlice bs e = .ok (.flt bs.length (fromEndian e bs)) ∧
    Reg.floatFromSlice (F := F) bs (eTo e) = .ok (fltOf bs.length (fromEndian e bs)) := by
  unfold Cache.floatFromSlice Reg.floatFromSlice fltOf
  rw [fromEndian_eq]
  rcases hl with h | h <;> rw [h] <;> simp

/-! ## primitives under the default store -/

section
variable {p : Profile} {g : Graph}

/-- a successful `writeAt` is exactly one device write of exactly `buf` at `a` -/
theorem writeAt_ok_effect {s s' : St Store} {n : NodeId} {r : Reg} {a : Int} {buf : Bytes}
    (hw : writeAt defaultCache g n r a buf s = (.ok (), s')) :
    s'.dev.log = ⟨true, a, buf.length, buf, true⟩ :: s.dev.log ∧
    s'.dev.mem = patch s.dev.mem a.toNat buf ∧
    s'.dev.peek a buf.length = some buf := by
  rw [writeAt_eq] at hw
  split at hw
  · obtain ⟨h1, h2⟩ := Prod.mk.inj hw
    have hok : s.dev.writeOk a buf.length = true := by
      rw [write_fst] at h1
      split at h1
      · assumption
      · cases h1
    have hdev : s'.dev = (s.dev.write a buf).2 := by rw [← h2]
    have hpk := peek_write_same hok
    rw [← hdev] at hpk
    rw [write_of_ok hok] at hdev
    exact ⟨by rw [hdev], by rw [hdev], hpk⟩
  · cases hw

/-- a successful `write_and_cache` on a constant-address register is a successful `writeAt` -/
theorem writeAndCache_static_inv {ev : NodeId → M Store Int} {s s' : St Store} {n : NodeId}
    {r : Reg} (hsel : r.sel = none) {buf : Bytes}
    (h : writeAndCache defaultCache p g ev n r buf s = (.ok (), s')) :
    buf.length = r.len ∧ writeAt defaultCache g n r r.base buf s = (.ok (), s') := by
  unfold writeAndCache at h
  by_cases hl : buf.length ≠ r.len
  · rw [if_pos hl] at h; cases h
  · have hlen : buf.length = r.len := Classical.byContradiction hl
    refine ⟨hlen, ?_⟩
    rw [if_neg hl, regAddr_static _ hsel, bind_apply] at h
    exact h

/-- the cached read path at a known address: either served from the cache — then NOTHING
changes (no device access, no log entry) — or exactly one device read attempt of
`[a, a+len)`; the device memory never changes -/
theorem cachedRead_footprint (n : NodeId) (r : Reg) (a : Int) (s : St Store) :
    (∃ bs, s.cache.get n a r.len = some bs ∧ cachedRead defaultCache g n r a s = (.ok bs, s)) ∨
    (s.cache.get n a r.len = none ∧ (cachedRead defaultCache g n r a s).2.dev.mem = s.dev.mem ∧
      (((cachedRead defaultCache g n r a s).2.dev.log = s.dev.log ∧
          ∃ x, (cachedRead defaultCache g n r a s).1 = .err x) ∨
        (∃ data ok, (cachedRead defaultCache g n r a s).2.dev.log =
            ⟨false, a, r.len, data, ok⟩ :: s.dev.log ∧
          (ok = true → s.dev.peek a r.len = some data ∧
            (cachedRead defaultCache g n r a s).1 = .ok data) ∧
          (ok = false → (cachedRead defaultCache g n r a s).1 = .err .device)))) := by
  have hdef : cachedRead defaultCache g n r a s =
      (match Store.get s.cache n a r.len with
        | some bs => (Res.ok bs, s)
        | none => readAndCache defaultCache g n r a r.len s) := rfl
  have hcases : Store.get s.cache n a r.len = none ∨ ∃ bs, Store.get s.cache n a r.len = some bs := by
    cases Store.get s.cache n a r.len with
    | none => exact Or.inl rfl
    | some bs => exact Or.inr ⟨bs, rfl⟩
  rcases hcases with hg | ⟨bs, hg⟩
  · right
    refine ⟨hg, ?_⟩
    rw [hdef, hg]
    dsimp only
    rw [readAndCache_eq, if_neg (by simp)]
    by_cases hport : g[r.port]? = some .port
    · rw [if_pos hport]
      have hpc : s.dev.peek a r.len = none ∨ ∃ bs, s.dev.peek a r.len = some bs := by
        cases s.dev.peek a r.len with
        | none => exact Or.inl rfl
        | some bs => exact Or.inr ⟨bs, rfl⟩
      rcases hpc with hp | ⟨bs, hp⟩
      · rw [hp]
        exact ⟨rfl, Or.inr ⟨[], false, rfl, (fun h => by cases h), (fun _ => rfl)⟩⟩
      · rw [hp]
        exact ⟨rfl, Or.inr ⟨bs, true, rfl, (fun _ => ⟨rfl, rfl⟩), (fun h => by cases h)⟩⟩
    · rw [if_neg hport]
      exact ⟨rfl, Or.inl ⟨rfl, _, rfl⟩⟩
  · left
    exact ⟨bs, hg, by rw [hdef, hg]⟩

/-- a continuation that never touches the state -/
def Neutral {α β : Type} (f : α → M Store β) : Prop := ∀ a t, (f a t).2 = t

theorem neutral_bind_state {α β : Type} (m : M Store α) {f : α → M Store β} (hf : Neutral f)
    (s : St Store) : ((m >>= f) s).2 = (m s).2 := by
  rw [bind_apply]
  cases h : (m s).1 with
  | ok a => exact hf a _
  | err e => rfl
  | panic => rfl

theorem neutral_lift {α β : Type} (k : α → R β) : Neutral (fun a => (M.lift (k a) : M Store β)) :=
  fun _ _ => rfl

theorem neutral_pure {α β : Type} (k : α → β) : Neutral (fun a => (M.pure (k a) : M Store β)) :=
  fun _ _ => rfl

theorem neutral_bind {α β γ : Type} {f : α → M Store β} {h : α → β → M Store γ}
    (hf : Neutral f) (hh : ∀ a, Neutral (h a)) : Neutral (fun a => f a >>= h a) := by
  intro a t
  rw [neutral_bind_state _ (hh a), hf]

/-- `value()` of a constant-address register of any kind leaves the state that its single
`with_cache_or_read` leaves -/
theorem opValue_state {s : St Store} {n : NodeId} {r : Reg} (hn : g[n]? = some (.reg r))
    (hsel : r.sel = none) (hk : r.kind ≠ .raw) :
    (run defaultCache p g s (.value n)).2 = (cachedRead defaultCache g n r r.base s).2 := by
  cases hkind : r.kind with
  | raw => exact absurd hkind hk
  | int e sg =>
    simp only [run, evalOp, opValue, hn, hkind, fuelOf, evalInt]
    rw [neutral_bind_state _ (neutral_pure _), neutral_bind_state _ (neutral_lift _),
      wcor_static _ _ _ hsel]
  | masked e sg lsb msb =>
    simp only [run, evalOp, opValue, hn, hkind, fuelOf, evalInt]
    rw [neutral_bind_state _ (neutral_pure _)]
    rw [neutral_bind_state, wcor_static _ _ _ hsel]
    refine neutral_bind (neutral_lift _) (fun bs => ?_)
    refine neutral_bind (neutral_lift _) (fun v => ?_)
    intro lw t
    rfl
  | float e =>
    simp only [run, evalOp, opValue, hn, hkind]
    rw [neutral_bind_state _ (neutral_lift _), wcor_static _ _ _ hsel]
  | string =>
    simp only [run, evalOp, opValue, hn, hkind]
    rw [neutral_bind_state _ (neutral_pure _), wcor_static _ _ _ hsel]

end

/-! ## StringReg -/

section
variable {p : Profile} {g : Graph}

/-- a successful `set_value(str)` on a constant-address StringReg is: check and pad, then
`invalidate_cache_by(self)`, then a successful `writeAt` of the padded image -/
theorem setValue_str_inv {s s' : St Store} {n : NodeId} {r : Reg} (hn : g[n]? = some (.reg r))
    (hsel : r.sel = none) (hk : r.kind = .string) {str : Bytes} {u : Val}
    (h : run defaultCache p g s (.setValue n (.str str)) = (.ok u, s')) :
    Representable r.len str ∧ (strImage r.len str).length = r.len ∧
      writeAt defaultCache g n r r.base (strImage r.len str)
        ⟨Store.invalidateBy s.cache n, s.dev⟩ = (.ok (), s') := by
  simp only [run, evalOp, opSetValue, hn, hk] at h
  obtain ⟨buf, hb, h2⟩ := bind_ok_inv h
  have hb' : Cache.bytesFromStr str r.len = .ok buf := hb
  obtain ⟨hrep, rfl⟩ := (cache_bytesFromStr_ok_iff _ _ _).mp hb'
  obtain ⟨_, _, h3⟩ := bind_ok_inv h2
  obtain ⟨_, hw, h4⟩ := bind_ok_inv h3
  obtain ⟨_, hs'⟩ := pure_ok_inv h4
  have hw' := pair_eta hw
  rw [← hs'] at hw'
  obtain ⟨hlen, hwa⟩ := writeAndCache_static_inv hsel hw'
  exact ⟨hrep, hlen, hwa⟩

/-- **cached_string_roundtrip** -/
theorem cached_string_roundtrip {s s' : St Store} {n : NodeId} {r : Reg}
    (hn : g[n]? = some (.reg r)) (hsel : r.sel = none) (hk : r.kind = .string) {str : Bytes}
    {u : Val} (h : run defaultCache p g s (.setValue n (.str str)) = (.ok u, s')) :
    Representable r.len str ∧
    s'.dev.log = ⟨true, r.base, r.len, strImage r.len str, true⟩ :: s.dev.log ∧
    s'.dev.mem = patch s.dev.mem r.base.toNat (strImage r.len str) ∧
    (run defaultCache p g s' (.value n)).1 = .ok (.str str) := by
  obtain ⟨hrep, hlen, hw⟩ := setValue_str_inv hn hsel hk h
  obtain ⟨hlog, hmem, _⟩ := writeAt_ok_effect hw
  rw [hlen] at hlog
  refine ⟨hrep, hlog, hmem, ?_⟩
  have hvis := own_write_visible hlen hw
  simp only [run, evalOp, opValue, hn, hk]
  rw [bind_apply, wcor_static _ _ _ hsel, hvis]
  show Res.ok (Val.str (Cache.strFromSlice (strImage r.len str))) = _
  rw [strFromSlice_strImage _ _ hrep]

/-- a string that is not representable is refused with the device AND the cache untouched -/
theorem cached_string_refused {s : St Store} {n : NodeId} {r : Reg}
    (hn : g[n]? = some (.reg r)) (hk : r.kind = .string) {str : Bytes}
    (hrep : ¬ Representable r.len str) :
    run defaultCache p g s (.setValue n (.str str)) = (.err .invalidData, s) := by
  have hb : Cache.bytesFromStr str r.len = .err .invalidData := by
    cases hb : Cache.bytesFromStr str r.len with
    | ok buf => exact absurd ((cache_bytesFromStr_ok_iff _ _ _).mp hb).1 hrep
    | panic =>
      unfold Cache.bytesFromStr at hb
      split at hb
      · cases hb
      split at hb
      · cases hb
      split at hb <;> cases hb
    | err e =>
      unfold Cache.bytesFromStr at hb
      split at hb
      · injection hb with hb; rw [hb]
      split at hb
      · injection hb with hb; rw [hb]
      split at hb
      · injection hb with hb; rw [hb]
      · cases hb
  simp only [run, evalOp, opSetValue, hn, hk]
  rw [bind_apply]
  have hl : (M.lift (Cache.bytesFromStr str r.len) : M Store Bytes) s = (.err .invalidData, s) := by
    unfold M.lift; rw [hb]
  rw [hl]

end

/-! ## raw Register -/

section
variable {p : Profile} {g : Graph}

/-- **cached_raw_roundtrip** -/
theorem cached_raw_roundtrip {s s' : St Store} {n : NodeId} {r : Reg}
    (hn : g[n]? = some (.reg r)) (hsel : r.sel = none) {buf : Bytes} {u : Val}
    (h : run defaultCache p g s (.write n buf) = (.ok u, s')) :
    buf.length = r.len ∧
    s'.dev.log = ⟨true, r.base, r.len, buf, true⟩ :: s.dev.log ∧
    s'.dev.mem = patch s.dev.mem r.base.toNat buf ∧
    (cachedRead defaultCache g n r r.base s').1 = .ok buf ∧
    (run defaultCache p g s' (.read n r.len)).1 = .ok (.bytes buf) ∧
    (run defaultCache p g s' (.read n r.len)).2.dev.log =
      ⟨false, r.base, r.len, buf, true⟩ :: s'.dev.log := by
  obtain ⟨hlen, hw⟩ := opWrite_static_inv hn hsel h
  obtain ⟨hlog, hmem, hpk⟩ := writeAt_ok_effect hw
  rw [hlen] at hlog hpk
  have hport : g[r.port]? = some .port := by
    rw [writeAt_eq] at hw
    split at hw
    · assumption
    · cases hw
  refine ⟨hlen, hlog, hmem, own_write_visible hlen hw, ?_, ?_⟩
  · simp only [run, evalOp, opRead, hn]
    rw [regAddr_static _ hsel, bind_apply]
    show ((readAndCache defaultCache g n r r.base r.len >>= fun buf => M.pure (Val.bytes buf)) s').1 = _
    rw [bind_apply, readAndCache_eq, if_neg (by simp), if_pos hport, hpk]
    rfl
  · simp only [run, evalOp, opRead, hn]
    rw [regAddr_static _ hsel, bind_apply]
    show ((readAndCache defaultCache g n r r.base r.len >>= fun buf => M.pure (Val.bytes buf)) s').2.dev.log = _
    rw [bind_apply, readAndCache_eq, if_neg (by simp), if_pos hport, hpk]
    rfl

/-- a raw write whose buffer is not exactly `length` bytes is refused, nothing touched -/
theorem cached_raw_bad_buffer_refused {s : St Store} {n : NodeId} {r : Reg}
    (hn : g[n]? = some (.reg r)) {buf : Bytes} (hl : buf.length ≠ r.len) :
    run defaultCache p g s (.write n buf) = (.err .invalidBuffer, s) := by
  simp only [run, evalOp, opWrite, hn]
  rw [bind_apply]
  unfold writeAndCache
  rw [if_pos hl]
  rfl

end

/-! ## FloatReg -/

section
variable {p : Profile} {g : Graph}

theorem setValue_flt_inv {s s' : St Store} {n : NodeId} {r : Reg} (hn : g[n]? = some (.reg r))
    (hsel : r.sel = none) {e : Cache.Endian} (hk : r.kind = .float e) {w bits : Nat} {u : Val}
    (h : run defaultCache p g s (.setValue n (.flt w bits)) = (.ok u, s')) :
    ∃ buf, Cache.bytesFromFloat bits r.len e = .ok buf ∧ buf.length = r.len ∧
      writeAt defaultCache g n r r.base buf ⟨Store.invalidateBy s.cache n, s.dev⟩ = (.ok (), s') := by
  simp only [run, evalOp, opSetValue, hn, hk] at h
  obtain ⟨_, _, h2⟩ := bind_ok_inv h
  obtain ⟨buf, hb, h3⟩ := bind_ok_inv h2
  have hb' : Cache.bytesFromFloat bits r.len e = .ok buf := hb
  obtain ⟨_, hw, h4⟩ := bind_ok_inv h3
  obtain ⟨_, hs'⟩ := pure_ok_inv h4
  have hw' := pair_eta hw
  rw [← hs'] at hw'
  obtain ⟨hlen, hwa⟩ := writeAndCache_static_inv hsel hw'
  exact ⟨buf, hb', hlen, hwa⟩

/-- **cached_float_roundtrip** -/
theorem cached_float_roundtrip {F : Type} [Reg.FloatOps F] {s s' : St Store} {n : NodeId}
    {r : Reg} (hn : g[n]? = some (.reg r)) (hsel : r.sel = none) {e : Cache.Endian}
    (hk : r.kind = .float e) (x : F) {w : Nat} {u : Val}
    (h : run defaultCache p g s (.setValue n (.flt w (fltBits x r.len))) = (.ok u, s')) :
    FloatLen r.len ∧
    ∃ img, Reg.bytesFromFloat x r.len (eTo e) = .ok img ∧
      s'.dev.log = ⟨true, r.base, r.len, img, true⟩ :: s.dev.log ∧
      s'.dev.mem = patch s.dev.mem r.base.toNat img ∧
      ∃ k, (run defaultCache p g s' (.value n)).1 = .ok (.flt r.len k) ∧
        Reg.floatFromSlice (F := F) img (eTo e) = .ok (fltOf r.len k) := by
  obtain ⟨buf, hb, hlen, hw⟩ := setValue_flt_inv hn hsel hk h
  have hfl : FloatLen r.len := by
    unfold Cache.bytesFromFloat at hb
    split at hb
    · rename_i hc
      simp only [Bool.or_eq_true, beq_iff_eq] at hc
      exact hc.symm
    · cases hb
  refine ⟨hfl, buf, (cache_bytesFromFloat_is_reg x r.len hfl e buf).mp hb, ?_⟩
  obtain ⟨hlog, hmem, _⟩ := writeAt_ok_effect hw
  rw [hlen] at hlog
  refine ⟨hlog, hmem, fromEndian e buf, ?_, ?_⟩
  · have hvis := own_write_visible hlen hw
    simp only [run, evalOp, opValue, hn, hk]
    rw [bind_apply, wcor_static _ _ _ hsel, hvis]
    show Cache.floatFromSlice buf e = _
    rw [(cache_floatFromSlice_is_reg (F := F) buf (by rw [hlen]; exact hfl) e).1, hlen]
  · have := (cache_floatFromSlice_is_reg (F := F) buf (by rw [hlen]; exact hfl) e).2
    rw [hlen] at this
    exact this

end

/-! ## the footprint of cached reads -/

section
variable {p : Profile} {g : Graph}

/-- **cached_value_footprint** -/
theorem cached_value_footprint {s : St Store} {n : NodeId} {r : Reg}
    (hn : g[n]? = some (.reg r)) (hsel : r.sel = none) (hk : r.kind ≠ .raw) :
    let s' := (run defaultCache p g s (.value n)).2
    s'.dev.mem = s.dev.mem ∧
    ((∃ bs, s.cache.get n r.base r.len = some bs) → s' = s) ∧
    (s'.dev.log = s.dev.log ∨
      ∃ data ok, s'.dev.log = ⟨false, r.base, r.len, data, ok⟩ :: s.dev.log ∧
        (ok = true → s.dev.peek r.base r.len = some data)) := by
  intro s'
  have hs' : s' = (cachedRead defaultCache g n r r.base s).2 := opValue_state hn hsel hk
  rcases cachedRead_footprint (g := g) n r r.base s with ⟨bs, hget, hcr⟩ | ⟨hget, hmem, hlog⟩
  · rw [hcr] at hs'
    exact ⟨(by rw [hs']), (fun _ => hs'), Or.inl (by rw [hs'])⟩
  · refine ⟨(by rw [hs']; exact hmem), (fun ⟨bs, hb⟩ => by rw [hget] at hb; cases hb), ?_⟩
    rcases hlog with ⟨hl, _⟩ | ⟨data, ok, hl, hok, _⟩
    · exact Or.inl (by rw [hs']; exact hl)
    · exact Or.inr ⟨data, ok, (by rw [hs']; exact hl), (fun h => (hok h).1)⟩

end

/-! ## every `set_value` / `write`, whatever its outcome, stays inside the register -/

/-- device `d'` is device `d`, or differs from it by exactly one write ATTEMPT at `(a, l)`:
one W log entry for `(a, l)`, memory changed at most by a patch of at most `l` bytes at `a`;
when the attempt succeeded the patch is exactly the logged data, `l` bytes long -/
def OneW (a : Int) (l : Nat) (d d' : Dev) : Prop :=
  d' = d ∨ ∃ data ok x, x.length ≤ l ∧ d'.log = ⟨true, a, l, data, ok⟩ :: d.log ∧
    d'.mem = patch d.mem a.toNat x ∧ (ok = true → x = data ∧ data.length = l)

theorem patch_nil (m : Bytes) (a : Nat) : patch m a [] = m := by
  unfold patch
  simp

theorem write_oneW (d : Dev) (a : Int) (data : Bytes) : OneW a data.length d (d.write a data).2 := by
  right
  unfold Dev.write
  by_cases hal : d.allowed a data.length = true
  · rw [if_pos hal]
    have hc : alGet d.wcount d.rejP = none ∨ ∃ mj, alGet d.wcount d.rejP = some mj := by
      cases alGet d.wcount d.rejP with
      | none => exact Or.inl rfl
      | some mj => exact Or.inr ⟨mj, rfl⟩
    rcases hc with hc | ⟨mj, hc⟩
    · rw [hc]
      exact ⟨data, true, data, Nat.le_refl _, rfl, rfl, fun _ => ⟨rfl, rfl⟩⟩
    · rw [hc]
      exact ⟨Dev.leftover data mj, false, Dev.leftover data mj, leftover_length data mj, rfl, rfl,
        (fun h => by cases h)⟩
  · rw [if_neg hal]
    exact ⟨[], false, [], Nat.zero_le _, rfl, (by rw [patch_nil]), (fun h => by cases h)⟩

/-- **frame**: a `OneW` step on a register that lies inside the device image leaves the image
length and every byte outside `[a, a+l)` unchanged -/
theorem oneW_frame {a : Int} {l : Nat} {d d' : Dev} (h : OneW a l d d') (h0 : 0 ≤ a)
    (h1 : a + l ≤ d.mem.length) :
    d'.mem.length = d.mem.length ∧
    ∀ i : Nat, (i < a.toNat ∨ a.toNat + l ≤ i) → d'.mem[i]? = d.mem[i]? := by
  rcases h with rfl | ⟨data, ok, x, hx, _, hmem, _⟩
  · exact ⟨rfl, fun _ _ => rfl⟩
  · have hin : a.toNat + x.length ≤ d.mem.length := by omega
    rw [hmem]
    refine ⟨length_patch _ _ _ hin, fun i hi => ?_⟩
    rw [getElem?_patch _ _ _ _ hin]
    rcases hi with hi | hi
    · rw [if_pos hi]
    · rw [if_neg (by omega), if_neg (by omega)]

section
variable {p : Profile} {g : Graph}

theorem writeAt_oneW (n : NodeId) (r : Reg) (a : Int) (buf : Bytes) (s : St Store) :
    OneW a buf.length s.dev (writeAt defaultCache g n r a buf s).2.dev := by
  rw [writeAt_eq]
  split
  · exact write_oneW s.dev a buf
  · exact Or.inl rfl

/-- a computation that never touches the device -/
def DevNeutral {α : Type} (m : M Store α) : Prop := ∀ s, (m s).2.dev = s.dev

theorem oneW_bind_left {α β : Type} {a : Int} {l : Nat} {m : M Store α} {f : α → M Store β}
    (hm : DevNeutral m) (hf : ∀ x s, OneW a l s.dev (f x s).2.dev) (s : St Store) :
    OneW a l s.dev ((m >>= f) s).2.dev := by
  rw [bind_apply]
  cases h : (m s).1 with
  | ok x => have := hf x (m s).2; rw [hm s] at this; exact this
  | err e => exact Or.inl (hm s)
  | panic => exact Or.inl (hm s)

theorem oneW_bind_right {α β : Type} {a : Int} {l : Nat} {m : M Store α} {f : α → M Store β}
    (hm : ∀ s, OneW a l s.dev (m s).2.dev) (hf : ∀ x, DevNeutral (f x)) (s : St Store) :
    OneW a l s.dev ((m >>= f) s).2.dev := by
  rw [bind_apply]
  cases h : (m s).1 with
  | ok x => rw [hf x]; exact hm s
  | err e => exact hm s
  | panic => exact hm s

theorem writeAndCache_static_oneW (ev : NodeId → M Store Int) (n : NodeId) {r : Reg}
    (hsel : r.sel = none) (buf : Bytes) (s : St Store) :
    OneW r.base r.len s.dev (writeAndCache defaultCache p g ev n r buf s).2.dev := by
  unfold writeAndCache
  by_cases hl : buf.length ≠ r.len
  · rw [if_pos hl]; exact Or.inl rfl
  · have hlen : buf.length = r.len := Classical.byContradiction hl
    rw [if_neg hl, regAddr_static _ hsel, bind_apply]
    have := writeAt_oneW (g := g) n r r.base buf s
    rw [hlen] at this
    exact this

/-- **cached_write_footprint**: raw `IRegister::write`, whatever its outcome -/
theorem cached_write_footprint {n : NodeId} {r : Reg} (hn : g[n]? = some (.reg r))
    (hsel : r.sel = none) (buf : Bytes) (s : St Store) :
    OneW r.base r.len s.dev (run defaultCache p g s (.write n buf)).2.dev := by
  simp only [run, evalOp, opWrite, hn]
  exact oneW_bind_right (writeAndCache_static_oneW _ n hsel buf) (fun _ _ => rfl) s

/-- **cached_set_footprint**: `set_value` of an IntReg / FloatReg / StringReg (and the refused
call on a raw Register), whatever the value and whatever its outcome -/
theorem cached_set_footprint {n : NodeId} {r : Reg} (hn : g[n]? = some (.reg r))
    (hsel : r.sel = none) (hk : ∀ e sg l m, r.kind ≠ .masked e sg l m) (v : Val) (s : St Store) :
    OneW r.base r.len s.dev (run defaultCache p g s (.setValue n v)).2.dev := by
  cases hkind : r.kind with
  | masked e sg l m => exact absurd hkind (hk e sg l m)
  | raw => cases v <;> (simp only [run, evalOp, opSetValue, hn, hkind]; exact Or.inl rfl)
  | int e sg =>
    cases v with
    | int i =>
      simp only [run, evalOp, opSetValue, hn, hkind, fuelOf, setInt]
      refine oneW_bind_right ?_ (fun _ _ => rfl) s
      refine oneW_bind_left (fun _ => rfl) (fun _ => ?_)
      refine oneW_bind_left (fun _ => rfl) (fun buf => ?_)
      exact writeAndCache_static_oneW _ n hsel buf
    | _ => simp only [run, evalOp, opSetValue, hn, hkind]; exact Or.inl rfl
  | float e =>
    cases v with
    | flt w bits =>
      simp only [run, evalOp, opSetValue, hn, hkind]
      refine oneW_bind_left (fun _ => rfl) (fun _ => ?_) s
      refine oneW_bind_left (fun _ => rfl) (fun buf => ?_)
      exact oneW_bind_right (writeAndCache_static_oneW _ n hsel buf) (fun _ _ => rfl)
    | _ => simp only [run, evalOp, opSetValue, hn, hkind]; exact Or.inl rfl
  | string =>
    cases v with
    | str str =>
      simp only [run, evalOp, opSetValue, hn, hkind]
      refine oneW_bind_left (fun _ => rfl) (fun buf => ?_) s
      refine oneW_bind_left (fun _ => rfl) (fun _ => ?_)
      exact oneW_bind_right (writeAndCache_static_oneW _ n hsel buf) (fun _ _ => rfl)
    | _ => simp only [run, evalOp, opSetValue, hn, hkind]; exact Or.inl rfl

/-- **cached_read_footprint**: raw `IRegister::read`, whatever its outcome: never served from
the cache, never changes device memory, at most one R entry for exactly `(address, length)` -/
theorem cached_read_footprint {n : NodeId} {r : Reg} (hn : g[n]? = some (.reg r))
    (hsel : r.sel = none) (buflen : Nat) (s : St Store) :
    let s' := (run defaultCache p g s (.read n buflen)).2
    s'.dev.mem = s.dev.mem ∧
    (s'.dev.log = s.dev.log ∨
      ∃ data ok, s'.dev.log = ⟨false, r.base, r.len, data, ok⟩ :: s.dev.log ∧
        (ok = true → s.dev.peek r.base r.len = some data)) := by
  intro s'
  have hs' : s' = (readAndCache defaultCache g n r r.base buflen s).2 := by
    show (run defaultCache p g s (.read n buflen)).2 = _
    simp only [run, evalOp, opRead, hn]
    rw [regAddr_static _ hsel, bind_apply]
    show ((readAndCache defaultCache g n r r.base buflen >>= fun buf => M.pure (Val.bytes buf)) s).2 = _
    rw [neutral_bind_state _ (neutral_pure _)]
  rw [hs', readAndCache_eq]
  split
  · exact ⟨rfl, Or.inl rfl⟩
  split
  · have hpc : s.dev.peek r.base r.len = none ∨ ∃ bs, s.dev.peek r.base r.len = some bs := by
      cases s.dev.peek r.base r.len with
      | none => exact Or.inl rfl
      | some bs => exact Or.inr ⟨bs, rfl⟩
    rcases hpc with hp | ⟨bs, hp⟩
    · rw [hp]; exact ⟨rfl, Or.inr ⟨[], false, rfl, (fun h => by cases h)⟩⟩
    · rw [hp]; exact ⟨rfl, Or.inr ⟨bs, true, rfl, (fun _ => rfl)⟩⟩
  · exact ⟨rfl, Or.inl rfl⟩

end

/-! ## address evaluation: `<Address> + <pIndex Offset=off>selector</pIndex>` -/

theorem mulI64_exact (p : Profile) (a b : Int) (h : I64_MIN ≤ a * b ∧ a * b ≤ I64_MAX) :
    mulI64 p a b = .ok (a * b) := by unfold mulI64; rw [if_pos h]

theorem addI64_exact (p : Profile) (a b : Int) (h : I64_MIN ≤ a + b ∧ a + b ≤ I64_MAX) :
    addI64 p a b = .ok (a + b) := by unfold addI64; rw [if_pos h]

/-- `toI64 ∘ ofI64` is reduction into the `i64` range modulo `2^64` -/
theorem wrap_spec (x : Int) :
    I64_MIN ≤ toI64 (ofI64 x) ∧ toI64 (ofI64 x) ≤ I64_MAX ∧
      ∃ q : Int, toI64 (ofI64 x) = x + q * 2 ^ 64 := by
  unfold toI64 ofI64 I64_MIN I64_MAX
  simp only [Nat.reducePow, Int.reducePow]
  have h1 : 0 ≤ x % 18446744073709551616 := Int.emod_nonneg _ (by decide)
  have h2 : x % 18446744073709551616 < 18446744073709551616 := Int.emod_lt_of_pos _ (by decide)
  have h3 : x = 18446744073709551616 * (x / 18446744073709551616) + x % 18446744073709551616 :=
    (Int.mul_ediv_add_emod x _).symm
  split
  · refine ⟨by omega, by omega, -(x / 18446744073709551616), ?_⟩
    omega
  · refine ⟨by omega, by omega, -(x / 18446744073709551616) - 1, ?_⟩
    omega

section
variable {p : Profile} {g : Graph}

/-- `RegisterBase::address` of a selector-addressed register, spelled out -/
theorem regAddr_sel_eq {ev : NodeId → M Store Int} {r : Reg} {sn : NodeId} {off : Int}
    (hsel : r.sel = some (sn, off)) (s : St Store) :
    regAddr p ev r s =
      match (ev sn s).1 with
      | .ok k =>
        (match mulI64 p k off with
          | .ok pr => addI64 p r.base pr
          | .err e => .err e
          | .panic => .panic, (ev sn s).2)
      | .err e => (.err e, (ev sn s).2)
      | .panic => (.panic, (ev sn s).2) := by
  unfold regAddr
  rw [hsel]
  dsimp only
  rw [bind_apply]
  cases h : (ev sn s).1 with
  | err e => rfl
  | panic => rfl
  | ok k =>
    dsimp only
    rw [bind_apply]
    unfold M.lift
    dsimp only
    cases mulI64 p k off <;> rfl

/-- **address_exact**: when `base + k·off` (selector value `k`) is computable in `i64`, that is
the address — in both build profiles -/
theorem address_exact {ev : NodeId → M Store Int} {r : Reg} {sn : NodeId} {off : Int}
    (hsel : r.sel = some (sn, off)) {s : St Store} {k : Int} (hk : (ev sn s).1 = .ok k)
    (h1 : I64_MIN ≤ k * off ∧ k * off ≤ I64_MAX)
    (h2 : I64_MIN ≤ r.base + k * off ∧ r.base + k * off ≤ I64_MAX) :
    regAddr p ev r s = (.ok (r.base + k * off), (ev sn s).2) := by
  rw [regAddr_sel_eq hsel, hk]
  dsimp only
  rw [mulI64_exact p _ _ h1]
  dsimp only
  rw [addI64_exact p _ _ h2]

/-- **address_overflow_checked**: with overflow checks (the `dev` profile) an address sum or
product that leaves `i64` is a panic, after the selector was read and before any access of
the register itself -/
theorem address_overflow_checked {ev : NodeId → M Store Int} {r : Reg} {sn : NodeId} {off : Int}
    (hp : p.overflowChecks = true)
    (hsel : r.sel = some (sn, off)) {s : St Store} {k : Int} (hk : (ev sn s).1 = .ok k)
    (hov : ¬ (I64_MIN ≤ k * off ∧ k * off ≤ I64_MAX) ∨
      ¬ (I64_MIN ≤ r.base + k * off ∧ r.base + k * off ≤ I64_MAX)) :
    regAddr p ev r s = (.panic, (ev sn s).2) := by
  rw [regAddr_sel_eq hsel, hk]
  dsimp only
  by_cases h1 : I64_MIN ≤ k * off ∧ k * off ≤ I64_MAX
  · rw [mulI64_exact p _ _ h1]
    dsimp only
    rcases hov with hov | hov
    · exact absurd h1 hov
    · unfold addI64; rw [if_neg hov, if_pos hp]
  · unfold mulI64; rw [if_neg h1, if_pos hp]

/-- **address_overflow_wraps**: without overflow checks (release) the address is an `i64`
congruent to `base + k·off` modulo `2^64` — the register is then accessed THERE -/
theorem address_overflow_wraps {ev : NodeId → M Store Int} {r : Reg} {sn : NodeId} {off : Int}
    (hp : p.overflowChecks = false)
    (hsel : r.sel = some (sn, off)) {s : St Store} {k : Int} (hk : (ev sn s).1 = .ok k) :
    ∃ a q : Int, regAddr p ev r s = (.ok a, (ev sn s).2) ∧ I64_MIN ≤ a ∧ a ≤ I64_MAX ∧
      a = r.base + k * off + q * 2 ^ 64 := by
  rw [regAddr_sel_eq hsel, hk]
  dsimp only
  have hm : ∃ pr q1 : Int, mulI64 p k off = .ok pr ∧ pr = k * off + q1 * 2 ^ 64 := by
    unfold mulI64
    split
    · exact ⟨_, 0, rfl, by omega⟩
    · rw [hp]
      obtain ⟨_, _, q, hq⟩ := wrap_spec (k * off)
      exact ⟨_, q, rfl, hq⟩
  obtain ⟨pr, q1, hpr, hq1⟩ := hm
  rw [hpr]
  dsimp only
  unfold addI64
  split
  · rename_i hin
    exact ⟨_, q1, rfl, hin.1, hin.2, by rw [hq1]; omega⟩
  · rw [hp]
    obtain ⟨hlo, hhi, q, hq⟩ := wrap_spec (r.base + pr)
    refine ⟨_, q + q1, rfl, hlo, hhi, ?_⟩
    rw [hq, hq1, Int.add_mul]
    omega

/-- a successful `write_and_cache` (any addressing): the address is evaluated first, then the
register is written at that address -/
theorem writeAndCache_inv {ev : NodeId → M Store Int} {s s' : St Store} {n : NodeId}
    {r : Reg} {buf : Bytes}
    (h : writeAndCache defaultCache p g ev n r buf s = (.ok (), s')) :
    buf.length = r.len ∧ ∃ a, (regAddr p ev r s).1 = .ok a ∧
      writeAt defaultCache g n r a buf (regAddr p ev r s).2 = (.ok (), s') := by
  unfold writeAndCache at h
  by_cases hl : buf.length ≠ r.len
  · rw [if_pos hl] at h; cases h
  · have hlen : buf.length = r.len := Classical.byContradiction hl
    rw [if_neg hl] at h
    obtain ⟨a, ha, hw⟩ := bind_ok_inv h
    exact ⟨hlen, a, ha, hw⟩

/-- **cached_write_footprint_dyn**: a successful raw write through a register with ANY
addressing (constant or `pIndex`): the last device access is exactly one write of exactly
`buf` at `[a, a+length)` where `a` is what `RegisterBase::address` evaluated to in the state
before (accesses `pre` before it are those of the address evaluation, i.e. selector reads) -/
theorem cached_write_footprint_dyn {s s' : St Store} {n : NodeId} {r : Reg}
    (hn : g[n]? = some (.reg r)) {buf : Bytes} {u : Val}
    (h : run defaultCache p g s (.write n buf) = (.ok u, s')) :
    buf.length = r.len ∧
    ∃ a pre, (run defaultCache p g s (.address n)).1 = .ok (.int a) ∧
      s'.dev.log = ⟨true, a, r.len, buf, true⟩ :: (pre ++ s.dev.log) ∧
      s'.dev.peek a r.len = some buf := by
  simp only [run, evalOp, opWrite, hn] at h
  obtain ⟨_, hu, h2⟩ := bind_ok_inv h
  obtain ⟨_, hs'⟩ := pure_ok_inv h2
  have hw' := pair_eta hu
  rw [← hs'] at hw'
  obtain ⟨hlen, a, ha, hw⟩ := writeAndCache_inv hw'
  obtain ⟨hlog, _, hpk⟩ := writeAt_ok_effect hw
  obtain ⟨pre, hpre⟩ := grows_regAddr p (grows_evalInt defaultCache p g (fuelOf g)) r s
  rw [hlen] at hlog hpk
  refine ⟨hlen, a, pre, ?_, by rw [hlog, hpre], hpk⟩
  simp only [run, evalOp, opAddress, hn]
  rw [bind_apply, ha]
  rfl

end

end CamVerif.Proofs.C01Cached
