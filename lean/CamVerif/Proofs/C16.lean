/-
Helper lemmas for C16: a small program logic for the camera monad `M`
(`EmitsAt` rules for the effect trace, Hoare triples for state invariants).
-/
import CamVerif.Spec.Camera
namespace CamVerif.Camera

/-! ### Unfolding the monad -/

theorem bind_apply {α β : Type} (x : M α) (f : α → M β) (s : State) :
    (x >>= f) s = match x s with
      | (.ok a, s') => f a s'
      | (.err e, s') => (.err e, s')
      | (.panic, s') => (.panic, s') := rfl

theorem pure_apply {α : Type} (a : α) (s : State) : (pure a : M α) s = (.ok a, s) := rfl

theorem bind_of_ok {α β : Type} {x : M α} {f : α → M β} {s s' : State} {a : α}
    (h : x s = (.ok a, s')) : (x >>= f) s = f a s' := by
  rw [bind_apply, h]

theorem bind_of_err {α β : Type} {x : M α} {f : α → M β} {s s' : State} {e : Err}
    (h : x s = (.err e, s')) : (x >>= f) s = (.err e, s') := by
  rw [bind_apply, h]

theorem bind_of_panic {α β : Type} {x : M α} {f : α → M β} {s s' : State}
    (h : x s = (.panic, s')) : (x >>= f) s = (.panic, s') := by
  rw [bind_apply, h]

theorem getDev_bind {β : Type} (f : Dev → M β) (s : State) : (getDev >>= f) s = f s.dev s := rfl

/-- state after a successful sub-operation -/
def okSt (k : Sub) (upd : Dev → Dev) (s : State) : State :=
  { dev := upd s.dev, counter := s.counter + 1, trace := s.trace ++ [⟨k, .ok⟩] }

/-- state after a failed sub-operation -/
def failSt (k : Sub) (o : Out) (fu : Dev → Dev) (s : State) : State :=
  { dev := fu s.dev, counter := s.counter + 1, trace := s.trace ++ [⟨k, o⟩] }

theorem subOp_ok {env : Env} {k : Sub} {no : Bool} {onFail : Out → Err} {upd fu : Dev → Dev}
    {s : State} (h : outcome env no s = .ok) :
    subOp env k no onFail upd fu s = (.ok (), okSt k upd s) := by
  simp [subOp, h, okSt]

theorem subOp_fail {env : Env} {k : Sub} {no : Bool} {onFail : Out → Err} {upd fu : Dev → Dev}
    {s : State} (h : outcome env no s ≠ .ok) :
    subOp env k no onFail upd fu s =
      (.err (onFail (outcome env no s)), failSt k (outcome env no s) fu s) := by
  unfold subOp
  cases h' : outcome env no s <;> simp_all [failSt]

theorem outcome_false_ne_notOpened (env : Env) (s : State) : outcome env false s ≠ .notOpened := by
  unfold outcome
  split <;> simp

/-! ### `AllOk` -/

@[simp] theorem allOk_nil : AllOk [] := by simp [AllOk]

@[simp] theorem allOk_append (a b : List Effect) : AllOk (a ++ b) ↔ AllOk a ∧ AllOk b := by
  simp only [AllOk, List.mem_append]
  constructor
  · intro h
    exact ⟨fun e he => h e (Or.inl he), fun e he => h e (Or.inr he)⟩
  · rintro ⟨h1, h2⟩ e (he | he)
    · exact h1 e he
    · exact h2 e he

@[simp] theorem allOk_singleton (e : Effect) : AllOk [e] ↔ e.out = .ok := by
  simp [AllOk]

/-! ### `EmitsAt` rules -/

theorem emitsAt_pure {α : Type} (a : α) (s : State) : EmitsAt (pure a : M α) [] s :=
  ⟨[], by simp [pure_apply], by simp [pure_apply], by simp [pure_apply, CallShape],
    List.prefix_refl _, fun _ _ => rfl⟩

theorem emitsAt_modify (f : Dev → Dev) (s : State) : EmitsAt (modifyDev f) [] s :=
  ⟨[], by simp [modifyDev], by simp [modifyDev], by simp [modifyDev, CallShape],
    List.prefix_refl _, fun _ _ => rfl⟩

theorem emitsAt_throw {α : Type} {e : Err} (h : Logical e) (subs : List Sub) (s : State) :
    EmitsAt (throwErr e : M α) subs s :=
  ⟨[], by simp [throwErr], by simp [throwErr], by simp [throwErr, CallShape, h],
    List.nil_prefix, fun a ha => by simp [throwErr] at ha⟩

theorem emitsAt_panic {α : Type} (subs : List Sub) (s : State) : EmitsAt (panicM : M α) subs s :=
  ⟨[], by simp [panicM], by simp [panicM], by simp [panicM, CallShape],
    List.nil_prefix, fun a ha => by simp [panicM] at ha⟩

theorem emitsAt_paramsCtxt (s : State) : EmitsAt paramsCtxt [] s := by
  unfold paramsCtxt
  cases h : s.dev.ctxt with
  | none =>
    exact ⟨[], by simp [h], by simp [h], by simp [h, CallShape, Logical], List.nil_prefix,
      fun a ha => by simp [h] at ha⟩
  | some x =>
    exact ⟨[], by simp [h], by simp [h], by simp [h, CallShape], List.nil_prefix, fun _ _ => rfl⟩

theorem emitsAt_expectNode (b : Bool) (s : State) : EmitsAt (expectNode b) [] s := by
  unfold expectNode
  split
  · exact emitsAt_pure () s
  · exact emitsAt_throw (by simp [Logical]) [] s

theorem emitsAt_subOp {env : Env} {k : Sub} {no : Bool} {onFail : Out → Err} {upd fu : Dev → Dev}
    (h : ∀ o, o ≠ .ok → (no = false → o ≠ .notOpened) → onFail o = errOf ⟨k, o⟩) (s : State) :
    EmitsAt (subOp env k no onFail upd fu) [k] s := by
  by_cases ho : outcome env no s = .ok
  · rw [EmitsAt, subOp_ok ho]
    exact ⟨[⟨k, .ok⟩], rfl, rfl, by simp [CallShape], List.prefix_refl _, fun _ _ => rfl⟩
  · rw [EmitsAt, subOp_fail ho]
    refine ⟨[⟨k, outcome env no s⟩], rfl, rfl, ?_, List.prefix_refl _, fun a ha => by simp at ha⟩
    refine Or.inr ⟨[], _, rfl, by simp, ho, ?_⟩
    apply h _ ho
    intro hno
    subst hno
    exact outcome_false_ne_notOpened env s

theorem emitsAt_bind {α β : Type} {m : M α} {f : α → M β} {l1 l2 subs : List Sub} {s : State}
    (hs : subs = l1 ++ l2) (h1 : EmitsAt m l1 s)
    (h2 : ∀ a s', m s = (.ok a, s') → EmitsAt (f a) l2 s') : EmitsAt (m >>= f) subs s := by
  subst hs
  obtain ⟨seg1, ht1, hc1, hsh1, hp1, hok1⟩ := h1
  rcases hm : m s with ⟨r, s'⟩
  rw [hm] at ht1 hc1 hsh1 hok1
  cases r with
  | ok a =>
    obtain ⟨seg2, ht2, hc2, hsh2, hp2, hok2⟩ := h2 a s' hm
    have hall1 : AllOk seg1 := hsh1
    have hmap1 : seg1.map (·.sub) = l1 := hok1 a rfl
    rw [EmitsAt, bind_of_ok hm]
    refine ⟨seg1 ++ seg2, ?_, ?_, ?_, ?_, ?_⟩
    · rw [ht2]; simp only at ht1; rw [ht1, List.append_assoc]
    · rw [hc2]; simp only at hc1; rw [hc1, List.length_append, Nat.add_assoc]
    · rcases hr : (f a s').1 with b | e | _
      · rw [hr] at hsh2
        exact (allOk_append _ _).2 ⟨hall1, hsh2⟩
      · rw [hr] at hsh2
        rcases hsh2 with ⟨hall2, hlog⟩ | ⟨pre, e', hseg, hpre, hne, he⟩
        · exact Or.inl ⟨(allOk_append _ _).2 ⟨hall1, hall2⟩, hlog⟩
        · refine Or.inr ⟨seg1 ++ pre, e', ?_, (allOk_append _ _).2 ⟨hall1, hpre⟩, hne, he⟩
          rw [hseg, List.append_assoc]
      · rw [hr] at hsh2
        exact (allOk_append _ _).2 ⟨hall1, hsh2⟩
    · rw [List.map_append, hmap1]
      exact (List.prefix_append_right_inj l1).2 hp2
    · intro b hb
      rw [List.map_append, hmap1, hok2 b hb]
  | err e =>
    rw [EmitsAt, bind_of_err hm]
    exact ⟨seg1, ht1, hc1, hsh1, List.IsPrefix.trans hp1 (List.prefix_append _ _),
      fun a ha => by simp at ha⟩
  | panic =>
    rw [EmitsAt, bind_of_panic hm]
    exact ⟨seg1, ht1, hc1, hsh1, List.IsPrefix.trans hp1 (List.prefix_append _ _),
      fun a ha => by simp at ha⟩

/-- bind whose continuation does not depend on where the first part ended -/
theorem emitsAt_bind' {α β : Type} {m : M α} {f : α → M β} {l1 l2 subs : List Sub} {s : State}
    (hs : subs = l1 ++ l2) (h1 : EmitsAt m l1 s) (h2 : ∀ a s', EmitsAt (f a) l2 s') :
    EmitsAt (m >>= f) subs s :=
  emitsAt_bind hs h1 (fun a s' _ => h2 a s')

/-! ### Effects of every camera call -/

theorem ctrlErr_spec (k : Sub) (hk : errOf ⟨k, .notOpened⟩ = .controlNotOpened)
    (hk' : errOf ⟨k, .fault⟩ = .controlIo) :
    ∀ o, o ≠ Out.ok → (true = false → o ≠ .notOpened) → ctrlErr o = errOf ⟨k, o⟩ := by
  intro o ho _
  cases o <;> simp_all [ctrlErr]

theorem emitsAt_ctrlOpenOp (env : Env) (s : State) : EmitsAt (ctrlOpenOp env) [.ctrlOpen] s :=
  emitsAt_subOp (by intro o ho hn; cases o <;> simp_all [ctrlErr, errOf]) s
theorem emitsAt_ctrlCloseOp (env : Env) (s : State) : EmitsAt (ctrlCloseOp env) [.ctrlClose] s :=
  emitsAt_subOp (by intro o ho hn; cases o <;> simp_all [ctrlErr, errOf]) s
theorem emitsAt_strmOpenOp (env : Env) (s : State) : EmitsAt (strmOpenOp env) [.strmOpen] s := by
  unfold strmOpenOp
  rw [EmitsAt, getDev_bind, ← EmitsAt]
  exact
  emitsAt_subOp (by intro o ho hn; simp [errOf]) s
theorem emitsAt_strmCloseOp (env : Env) (s : State) : EmitsAt (strmCloseOp env) [.strmClose] s :=
  emitsAt_subOp (by intro o ho hn; simp [errOf]) s
theorem emitsAt_enableOp (env : Env) (s : State) : EmitsAt (enableOp env) [.enable] s :=
  emitsAt_subOp (by intro o ho hn; cases o <;> simp_all [ctrlErr, errOf]) s
theorem emitsAt_disableOp (env : Env) (s : State) : EmitsAt (disableOp env) [.disable] s :=
  emitsAt_subOp (by intro o ho hn; cases o <;> simp_all [ctrlErr, errOf]) s
theorem emitsAt_loopStartOp (env : Env) (cap : Nat) (s : State) :
    EmitsAt (loopStartOp env cap) [.loopStart] s := by
  unfold loopStartOp
  refine emitsAt_bind' (l1 := [.loopStart]) (l2 := []) rfl
    (emitsAt_subOp (by intro o ho hn; simp [errOf]) s) (fun _ s1 => ?_)
  rw [EmitsAt, getDev_bind, ← EmitsAt]
  split
  · exact emitsAt_throw (by simp [Logical]) [] s1
  · exact emitsAt_modify _ s1
theorem emitsAt_loopStopOp (env : Env) (s : State) : EmitsAt (loopStopOp env) [.loopStop] s := by
  unfold loopStopOp
  rw [EmitsAt, getDev_bind, ← EmitsAt]
  exact emitsAt_subOp (by intro o ho hn; simp [errOf]) s
theorem emitsAt_lockSetOp (env : Env) (v : Nat) (s : State) : EmitsAt (lockSetOp env v) [.lockSet v] s :=
  emitsAt_subOp (by intro o ho hn; simp [errOf, nodeErr]) s
theorem emitsAt_acqStartOp (env : Env) (s : State) : EmitsAt (acqStartOp env) [.acqStart] s :=
  emitsAt_subOp (by intro o ho hn; simp [errOf, nodeErr]) s
theorem emitsAt_acqStopOp (env : Env) (s : State) : EmitsAt (acqStopOp env) [.acqStop] s :=
  emitsAt_subOp (by intro o ho hn; simp [errOf, nodeErr]) s

theorem emitsAt_genapiOp (env : Env) (s : State) : EmitsAt (genapiOp env) [.genapi] s := by
  unfold genapiOp
  exact emitsAt_bind' (l1 := [.genapi]) (l2 := []) rfl
    (emitsAt_subOp (by intro o ho hn; cases o <;> simp_all [ctrlErr, errOf]) s)
    (fun _ s' => emitsAt_pure _ s')

theorem emitsAt_handlePair (b : Bool) {c s' : M Unit} {kc ks : Sub}
    (hc : ∀ s, EmitsAt c [kc] s) (hs : ∀ s, EmitsAt s' [ks] s) (s : State) :
    EmitsAt (handlePair b c s') (pairSubs b kc ks) s := by
  cases b
  · simp only [handlePair, pairSubs, Bool.false_eq_true, if_false]
    exact emitsAt_bind' (l1 := [ks]) (l2 := [kc]) rfl (hs s) (fun _ s1 => hc s1)
  · simp only [handlePair, pairSubs, if_true]
    exact emitsAt_bind' (l1 := [kc]) (l2 := [ks]) rfl (hc s) (fun _ s1 => hs s1)

theorem emitsAt_openCam (env : Env) (s : State) :
    EmitsAt (openCam env) (pairSubs env.openCtrlFirst .ctrlOpen .strmOpen) s :=
  emitsAt_handlePair _ (emitsAt_ctrlOpenOp env) (emitsAt_strmOpenOp env) s

theorem emitsAt_loadContext (env : Env) (s : State) : EmitsAt (loadContext env) [.genapi] s := by
  unfold loadContext
  refine emitsAt_bind' (l1 := [.genapi]) (l2 := []) rfl (emitsAt_genapiOp env s) (fun x s' => ?_)
  split
  · exact emitsAt_modify _ s'
  · exact emitsAt_throw (by simp [Logical]) [] s'

/-- the part of `start_streaming` after the three guards -/
theorem emitsAt_startBody (env : Env) (cap : Nat) (s : State) :
    EmitsAt (do
      enableOp env
      let x ← paramsCtxt
      expectNode x.lockOk
      lockSetOp env 1
      expectNode x.startOk
      acqStartOp env
      loopStartOp env cap) startSeq s := by
  refine emitsAt_bind' (l1 := [.enable]) (l2 := [.lockSet 1, .acqStart, .loopStart]) rfl
    (emitsAt_enableOp env s) (fun _ s1 => ?_)
  refine emitsAt_bind' (l1 := []) (l2 := [.lockSet 1, .acqStart, .loopStart]) rfl
    (emitsAt_paramsCtxt s1) (fun x s2 => ?_)
  refine emitsAt_bind' (l1 := []) (l2 := [.lockSet 1, .acqStart, .loopStart]) rfl
    (emitsAt_expectNode _ s2) (fun _ s3 => ?_)
  refine emitsAt_bind' (l1 := [.lockSet 1]) (l2 := [.acqStart, .loopStart]) rfl
    (emitsAt_lockSetOp env 1 s3) (fun _ s4 => ?_)
  refine emitsAt_bind' (l1 := []) (l2 := [.acqStart, .loopStart]) rfl
    (emitsAt_expectNode _ s4) (fun _ s5 => ?_)
  exact emitsAt_bind' (l1 := [.acqStart]) (l2 := [.loopStart]) rfl
    (emitsAt_acqStartOp env s5) (fun _ s6 => emitsAt_loopStartOp env cap s6)

theorem emitsAt_startStreaming (env : Env) (cap : Nat) (s : State) :
    EmitsAt (startStreaming env cap) (expectedSubs env (.start cap) s.dev) s := by
  unfold startStreaming
  rw [EmitsAt, getDev_bind, ← EmitsAt]
  simp only [expectedSubs]
  by_cases h1 : s.dev.loopFlag = true
  · simp only [h1, if_true]
    exact emitsAt_throw (by simp [Logical]) _ s
  · by_cases h2 : s.dev.ctxt.isNone = true
    · simp only [h1, h2, if_true]
      exact emitsAt_throw (by simp [Logical]) _ s
    · by_cases h3 : cap = 0
      · simp only [h1, h2, h3, if_true]
        exact emitsAt_panic _ s
      · have hc : (if (s.dev.loopFlag || s.dev.ctxt.isNone || cap == 0) = true then []
            else startSeq) = startSeq := by
          simp [h1, h2, h3]
        rw [hc]
        simp only [h1, h2, h3, if_false]
        exact emitsAt_startBody env cap s

/-- the part of `stop_streaming` after the guard -/
theorem emitsAt_stopBody (env : Env) (s : State) :
    EmitsAt (do
      loopStopOp env
      let x ← paramsCtxt
      expectNode x.stopOk
      acqStopOp env
      expectNode x.lockOk
      lockSetOp env 0
      disableOp env) stopSeq s := by
  refine emitsAt_bind' (l1 := [.loopStop]) (l2 := [.acqStop, .lockSet 0, .disable]) rfl
    (emitsAt_loopStopOp env s) (fun _ s1 => ?_)
  refine emitsAt_bind' (l1 := []) (l2 := [.acqStop, .lockSet 0, .disable]) rfl
    (emitsAt_paramsCtxt s1) (fun x s2 => ?_)
  refine emitsAt_bind' (l1 := []) (l2 := [.acqStop, .lockSet 0, .disable]) rfl
    (emitsAt_expectNode _ s2) (fun _ s3 => ?_)
  refine emitsAt_bind' (l1 := [.acqStop]) (l2 := [.lockSet 0, .disable]) rfl
    (emitsAt_acqStopOp env s3) (fun _ s4 => ?_)
  refine emitsAt_bind' (l1 := []) (l2 := [.lockSet 0, .disable]) rfl
    (emitsAt_expectNode _ s4) (fun _ s5 => ?_)
  exact emitsAt_bind' (l1 := [.lockSet 0]) (l2 := [.disable]) rfl
    (emitsAt_lockSetOp env 0 s5) (fun _ s6 => emitsAt_disableOp env s6)

theorem emitsAt_stopStreaming (env : Env) (s : State) :
    EmitsAt (stopStreaming env) (if s.dev.loopFlag then stopSeq else []) s := by
  unfold stopStreaming
  rw [EmitsAt, getDev_bind, ← EmitsAt]
  by_cases h1 : s.dev.loopFlag = true
  · simp only [h1, if_true, Bool.not_true, Bool.false_eq_true, if_false]
    exact emitsAt_stopBody env s
  · simp only [Bool.not_eq_true] at h1
    simp only [h1, Bool.not_false, if_true, Bool.false_eq_true, if_false]
    exact emitsAt_pure () s

theorem emitsAt_closeCam (env : Env) (s : State) :
    EmitsAt (closeCam env) (expectedSubs env .close s.dev) s := by
  unfold closeCam
  simp only [expectedSubs]
  refine emitsAt_bind' (l2 := pairSubs env.closeCtrlFirst .ctrlClose .strmClose) rfl
    (emitsAt_stopStreaming env s) (fun _ s1 => ?_)
  exact emitsAt_bind' (l1 := pairSubs env.closeCtrlFirst .ctrlClose .strmClose) (l2 := []) (by simp)
    (emitsAt_handlePair _ (emitsAt_ctrlCloseOp env) (emitsAt_strmCloseOp env) s1)
    (fun _ s3 => emitsAt_modify _ s3)

theorem emitsAt_paramAccess (env : Env) (s : State) :
    EmitsAt (paramAccess env) (expectedSubs env .param s.dev) s := by
  unfold paramAccess
  simp only [expectedSubs]
  cases hc : s.dev.ctxt with
  | none =>
    have : paramsCtxt s = (.err .ctxtMissing, s) := by simp [paramsCtxt, hc]
    rw [EmitsAt, bind_of_err this]
    exact ⟨[], by simp, by simp, by simp [CallShape, Logical], by simp, fun a ha => by simp at ha⟩
  | some x =>
    have : paramsCtxt s = (.ok x, s) := by simp [paramsCtxt, hc]
    rw [EmitsAt, bind_of_ok this, getDev_bind, ← EmitsAt]
    by_cases hg : s.dev.cache.gain = true
    · simp only [hg, if_true, Option.isSome_some, Bool.not_true, Bool.and_false, Bool.false_eq_true, if_false]
      exact emitsAt_pure () s
    · simp only [Bool.not_eq_true] at hg
      simp only [hg, Bool.false_eq_true, if_false, Option.isSome_some, Bool.not_false, Bool.and_self, if_true]
      exact emitsAt_subOp (by intro o ho hn; simp [errOf, nodeErr]) s

theorem emitsAt_gateAccess (env : Env) (v : Nat) (s : State) :
    EmitsAt (gateAccess env v) (expectedSubs env (.gate v) s.dev) s := by
  unfold gateAccess
  simp only [expectedSubs]
  cases hc : s.dev.ctxt with
  | none =>
    have : paramsCtxt s = (.err .ctxtMissing, s) := by simp [paramsCtxt, hc]
    rw [EmitsAt, bind_of_err this]
    exact ⟨[], by simp, by simp, by simp [CallShape, Logical], by simp, fun a ha => by simp at ha⟩
  | some x =>
    have : paramsCtxt s = (.ok x, s) := by simp [paramsCtxt, hc]
    rw [EmitsAt, bind_of_ok this, ← EmitsAt]
    simp only [Option.isSome_some, if_true]
    exact emitsAt_subOp (by intro o ho hn; simp [errOf, nodeErr]) s

/-- Master lemma: the effects of every call, in every state, under every fault plan. -/
theorem emitsAt_call (env : Env) (op : Op) (s : State) :
    EmitsAt (call env op) (expectedSubs env op s.dev) s := by
  cases op with
  | «open» => exact emitsAt_openCam env s
  | load => exact emitsAt_loadContext env s
  | start cap => exact emitsAt_startStreaming env cap s
  | stop => exact emitsAt_stopStreaming env s
  | close => exact emitsAt_closeCam env s
  | param => exact emitsAt_paramAccess env s
  | gate v => exact emitsAt_gateAccess env v s

/-! ### Hoare triples over the camera monad -/

/-- From a state satisfying `P`: a successful run ends in a state satisfying `Q a`, a run
ending in `err` or `panic` ends in a state satisfying `E`. -/
def Triple {α : Type} (P : State → Prop) (m : M α) (Q : α → State → Prop) (E : State → Prop) :
    Prop :=
  ∀ s, P s → (∀ a s', m s = (.ok a, s') → Q a s') ∧ (∀ e s', m s = (.err e, s') → E s') ∧
    (∀ s', m s = (.panic, s') → E s')

theorem triple_pure {α : Type} {P : State → Prop} {a : α} {Q : α → State → Prop} {E : State → Prop}
    (h : ∀ s, P s → Q a s) : Triple P (pure a : M α) Q E := by
  intro s hs
  refine ⟨fun a' s' he => ?_, fun e s' he => ?_, fun s' he => ?_⟩ <;>
    simp only [pure_apply, Prod.mk.injEq, Res.ok.injEq, reduceCtorEq, false_and] at he
  obtain ⟨rfl, rfl⟩ := he
  exact h s hs

theorem triple_throw {α : Type} {P : State → Prop} {e : Err} {Q : α → State → Prop}
    {E : State → Prop} (h : ∀ s, P s → E s) : Triple P (throwErr e : M α) Q E := by
  intro s hs
  refine ⟨fun a' s' he => ?_, fun e s' he => ?_, fun s' he => ?_⟩ <;>
    simp only [throwErr, Prod.mk.injEq, Res.err.injEq, reduceCtorEq, false_and] at he
  obtain ⟨_, rfl⟩ := he
  exact h s hs

theorem triple_panic {α : Type} {P : State → Prop} {Q : α → State → Prop}
    {E : State → Prop} (h : ∀ s, P s → E s) : Triple P (panicM : M α) Q E := by
  intro s hs
  refine ⟨fun a' s' he => ?_, fun e s' he => ?_, fun s' he => ?_⟩ <;>
    simp only [panicM, Prod.mk.injEq, reduceCtorEq, false_and, true_and] at he
  subst he
  exact h s hs

theorem triple_modify {P : State → Prop} {f : Dev → Dev} {Q : Unit → State → Prop}
    {E : State → Prop} (h : ∀ s, P s → Q () { s with dev := f s.dev }) :
    Triple P (modifyDev f) Q E := by
  intro s hs
  refine ⟨fun a' s' he => ?_, fun e s' he => ?_, fun s' he => ?_⟩ <;>
    simp only [modifyDev, Prod.mk.injEq, reduceCtorEq, false_and, true_and] at he
  subst he
  exact h s hs

theorem triple_paramsCtxt {P : State → Prop} {Q : Xml → State → Prop} {E : State → Prop}
    (hs : ∀ s x, P s → s.dev.ctxt = some x → Q x s) (hn : ∀ s, P s → s.dev.ctxt = none → E s) :
    Triple P paramsCtxt Q E := by
  intro s hP
  unfold paramsCtxt
  cases hc : s.dev.ctxt with
  | none =>
    refine ⟨fun a' s' he => ?_, fun e s' he => ?_, fun s' he => ?_⟩ <;>
      simp only [Prod.mk.injEq, Res.err.injEq, reduceCtorEq, false_and] at he
    obtain ⟨_, rfl⟩ := he
    exact hn s hP hc
  | some x =>
    refine ⟨fun a' s' he => ?_, fun e s' he => ?_, fun s' he => ?_⟩ <;>
      simp only [Prod.mk.injEq, Res.ok.injEq, reduceCtorEq, false_and] at he
    obtain ⟨rfl, rfl⟩ := he
    exact hs s x hP hc

theorem triple_subOp {env : Env} {k : Sub} {no : Bool} {onFail : Out → Err} {upd fu : Dev → Dev}
    {P : State → Prop} {Q : Unit → State → Prop} {E : State → Prop}
    (hok : ∀ s, P s → outcome env no s = .ok → Q () (okSt k upd s))
    (hfail : ∀ s, P s → outcome env no s ≠ .ok → E (failSt k (outcome env no s) fu s)) :
    Triple P (subOp env k no onFail upd fu) Q E := by
  intro s hP
  by_cases ho : outcome env no s = .ok
  · rw [subOp_ok ho]
    refine ⟨fun a' s' he => ?_, fun e s' he => ?_, fun s' he => ?_⟩ <;>
      simp only [Prod.mk.injEq, reduceCtorEq, false_and, true_and] at he
    subst he
    exact hok s hP ho
  · rw [subOp_fail ho]
    refine ⟨fun a' s' he => ?_, fun e s' he => ?_, fun s' he => ?_⟩ <;>
      simp only [Prod.mk.injEq, Res.err.injEq, reduceCtorEq, false_and] at he
    obtain ⟨_, rfl⟩ := he
    exact hfail s hP ho

theorem triple_bind {α β : Type} {P : State → Prop} {m : M α} {f : α → M β}
    {R : α → State → Prop} {Q : β → State → Prop} {E : State → Prop}
    (h1 : Triple P m R E) (h2 : ∀ a, Triple (R a) (f a) Q E) : Triple P (m >>= f) Q E := by
  intro s hP
  obtain ⟨hok, herr, hpan⟩ := h1 s hP
  rcases hm : m s with ⟨r, s1⟩
  cases r with
  | ok a =>
    rw [bind_of_ok hm]
    exact h2 a s1 (hok a s1 hm)
  | err e =>
    rw [bind_of_err hm]
    refine ⟨fun a' s' he => ?_, fun e' s' he => ?_, fun s' he => ?_⟩ <;>
      simp only [Prod.mk.injEq, Res.err.injEq, reduceCtorEq, false_and] at he
    obtain ⟨_, rfl⟩ := he
    exact herr e s1 hm
  | panic =>
    rw [bind_of_panic hm]
    refine ⟨fun a' s' he => ?_, fun e' s' he => ?_, fun s' he => ?_⟩ <;>
      simp only [Prod.mk.injEq, reduceCtorEq, false_and, true_and] at he
    subst he
    exact hpan s1 hm

theorem triple_getDev_bind {β : Type} {P : State → Prop} {f : Dev → M β}
    {Q : β → State → Prop} {E : State → Prop}
    (h : ∀ d, Triple (fun s => P s ∧ s.dev = d) (f d) Q E) : Triple P (getDev >>= f) Q E := by
  intro s hP
  rw [getDev_bind]
  exact h s.dev s ⟨hP, rfl⟩

theorem triple_ite {α : Type} {c : Prop} [Decidable c] {P : State → Prop} {m1 m2 : M α}
    {Q : α → State → Prop} {E : State → Prop}
    (h1 : c → Triple P m1 Q E) (h2 : ¬c → Triple P m2 Q E) :
    Triple P (if c then m1 else m2) Q E := by
  split
  · exact h1 ‹_›
  · exact h2 ‹_›

theorem triple_conseq {α : Type} {P P' : State → Prop} {m : M α} {Q Q' : α → State → Prop}
    {E E' : State → Prop} (h : Triple P m Q E) (hP : ∀ s, P' s → P s)
    (hQ : ∀ a s, Q a s → Q' a s) (hE : ∀ s, E s → E' s) : Triple P' m Q' E' := by
  intro s hs
  obtain ⟨h1, h2, h3⟩ := h s (hP s hs)
  exact ⟨fun a s' he => hQ a s' (h1 a s' he), fun e s' he => hE s' (h2 e s' he),
    fun s' he => hE s' (h3 s' he)⟩

/-- an invariant-style triple says something about the state after the call, whatever the result -/
theorem triple_snd {α : Type} {P Q : State → Prop} {m : M α}
    (h : Triple P m (fun _ => Q) Q) {s : State} (hs : P s) : Q (m s).2 := by
  obtain ⟨h1, h2, h3⟩ := h s hs
  rcases hm : m s with ⟨r, s1⟩
  cases r with
  | ok a => exact h1 a s1 hm
  | err e => exact h2 e s1 hm
  | panic => exact h3 s1 hm

/-- an invariant kept by the stream-handle open as a sub-operation (under whatever environment
decides its outcome) is kept by `strmOpenOp` -/
theorem triple_strmOpenOp {env : Env} {P : State → Prop}
    (h : ∀ env', Triple P (subOp env' .strmOpen false (fun _ => Err.streamIo)
      (fun d => { d with strmOpen := true })) (fun _ => P) P) :
    Triple P (strmOpenOp env) (fun _ => P) P := by
  unfold strmOpenOp
  apply triple_getDev_bind
  intro d
  exact triple_conseq (h _) (fun _ h => h.1) (fun _ _ h => h) (fun _ h => h)

/-- an invariant kept by both handle operations is kept by the pair, in either order -/
theorem triple_handlePair {P : State → Prop} {b : Bool} {c s : M Unit}
    (hc : Triple P c (fun _ => P) P) (hs : Triple P s (fun _ => P) P) :
    Triple P (handlePair b c s) (fun _ => P) P := by
  unfold handlePair
  split
  · exact triple_bind hc (fun _ => hs)
  · exact triple_bind hs (fun _ => hc)

/-! ### Invariant 1: the streaming flag tracks the live loops (all outcomes, all fault plans) -/

theorem liveLoops_append (kills : Bool) (t : List Effect) (e : Effect) :
    liveLoops kills (t ++ [e]) = loopDelta kills (liveLoops kills t) e := by
  simp [liveLoops, List.foldl_append]

theorem loopDelta_other (kills : Bool) (n : Nat) (k : Sub) (o : Out)
    (h1 : k ≠ .loopStart) (h2 : k ≠ .loopStop) : loopDelta kills n ⟨k, o⟩ = n := by
  cases k <;> simp_all [loopDelta]

/-- assertions that only look at (flag, loops, live loops of the trace) -/
def LV (kills : Bool) (p : Bool → Nat → Nat → Prop) (s : State) : Prop :=
  p s.dev.loopFlag s.dev.loops (liveLoops kills s.trace)

def LoopInv (kills : Bool) (s : State) : Prop :=
  FlagTracksLoop s.dev ∧ liveLoops kills s.trace = s.dev.loops

/-- no loop running -/
def pIdle : Bool → Nat → Nat → Prop := fun f n l => f = false ∧ n = 0 ∧ l = 0
/-- exactly one loop running -/
def pRun : Bool → Nat → Nat → Prop := fun f n l => f = true ∧ n = 1 ∧ l = 1

theorem loopInv_of_idle {kills : Bool} {s : State} (h : LV kills pIdle s) : LoopInv kills s := by
  obtain ⟨h1, h2, h3⟩ := h
  simp [LoopInv, FlagTracksLoop, h1, h2, h3]

theorem loopInv_of_run {kills : Bool} {s : State} (h : LV kills pRun s) : LoopInv kills s := by
  obtain ⟨h1, h2, h3⟩ := h
  simp [LoopInv, FlagTracksLoop, h1, h2, h3]

/-- frame rule: a sub-operation that is not a loop operation and whose updates leave flag and
loop count alone preserves every `LV` assertion, whatever its outcome -/
theorem frame_subOp {env : Env} {k : Sub} {no : Bool} {onFail : Out → Err} {upd fu : Dev → Dev}
    {kills : Bool} {p : Bool → Nat → Nat → Prop} {E : State → Prop}
    (h1 : k ≠ .loopStart) (h2 : k ≠ .loopStop)
    (hu : ∀ d, (upd d).loopFlag = d.loopFlag ∧ (upd d).loops = d.loops)
    (hf : ∀ d, (fu d).loopFlag = d.loopFlag ∧ (fu d).loops = d.loops)
    (hE : ∀ s, LV kills p s → E s) :
    Triple (LV kills p) (subOp env k no onFail upd fu) (fun _ => LV kills p) E := by
  apply triple_subOp
  · intro s hP _
    simp only [LV, okSt, liveLoops_append, loopDelta_other _ _ _ _ h1 h2, (hu s.dev).1, (hu s.dev).2]
    exact hP
  · intro s hP _
    apply hE
    simp only [LV, failSt, liveLoops_append, loopDelta_other _ _ _ _ h1 h2, (hf s.dev).1, (hf s.dev).2]
    exact hP

theorem frame_paramsCtxt {kills : Bool} {p : Bool → Nat → Nat → Prop} {E : State → Prop}
    (hE : ∀ s, LV kills p s → E s) :
    Triple (LV kills p) paramsCtxt (fun _ => LV kills p) E :=
  triple_paramsCtxt (fun _ _ h _ => h) (fun s h _ => hE s h)

theorem frame_expectNode {kills : Bool} {p : Bool → Nat → Nat → Prop} {E : State → Prop}
    (b : Bool) (hE : ∀ s, LV kills p s → E s) :
    Triple (LV kills p) (expectNode b) (fun _ => LV kills p) E := by
  unfold expectNode
  exact triple_ite (fun _ => triple_pure (fun _ h => h)) (fun _ => triple_throw hE)

/-- outcome of the `u3v` handle's stop: decided by the handle state, not by the fault plan -/
theorem outcome_stopEnv_u3v {env : Env} {d : Dev} {s : State} (hh : env.handle = .u3v) :
    outcome (stopEnv env d) false s = if (d.loopFlag && d.loops == 0) = true then .fault else .ok := by
  simp [outcome, stopEnv, hh]

theorem stopEnv_fake {env : Env} {d : Dev} (hh : env.handle = .fake) : stopEnv env d = env := by
  simp [stopEnv, hh]

/-- loop started but not yet counted: between the fallible part of `start_streaming_loop` and the
spawn -/
def pMid : Bool → Nat → Nat → Prop := fun f n l => f = false ∧ n = 0 ∧ l = 1

theorem loopInv_loopStartOp (env : Env) (cap : Nat) :
    Triple (LV env.stopFailKills pIdle) (loopStartOp env cap)
      (fun _ => LoopInv env.stopFailKills) (LoopInv env.stopFailKills) := by
  unfold loopStartOp
  refine triple_bind (R := fun _ => LV env.stopFailKills pMid) ?_ (fun _ => ?_)
  · apply triple_subOp
    · rintro s ⟨h1, h2, h3⟩ _
      simp [LV, pMid, okSt, liveLoops_append, loopDelta, h1, h2, h3]
    · rintro s ⟨h1, h2, h3⟩ ho
      apply loopInv_of_idle
      refine ⟨h1, h2, ?_⟩
      simp only [failSt, liveLoops_append, h3]
      cases hout : outcome env false s <;> simp_all [loopDelta]
  · apply triple_getDev_bind
    intro d
    refine triple_ite (fun hc => triple_throw ?_) (fun _ => triple_modify ?_)
    · rintro s ⟨⟨h1, _, _⟩, rfl⟩
      rw [h1] at hc
      exact absurd hc.2 (by simp)
    · rintro s ⟨⟨h1, h2, h3⟩, _⟩
      apply loopInv_of_run
      simp only [LV, pRun, h2, h3]
      simp

theorem loopInv_loopStopOp (env : Env) :
    Triple (LV env.stopFailKills pRun) (loopStopOp env)
      (fun _ => LV env.stopFailKills pIdle) (LoopInv env.stopFailKills) := by
  unfold loopStopOp
  apply triple_getDev_bind
  intro d
  apply triple_subOp
  · rintro s ⟨⟨h1, h2, h3⟩, rfl⟩ _
    cases hh : env.handle <;>
      simp [LV, pIdle, okSt, liveLoops_append, loopDelta, loopStopUpd, hh, h1, h2, h3]
  · rintro s ⟨⟨h1, h2, h3⟩, rfl⟩ ho
    cases hh : env.handle with
    | u3v =>
      rw [outcome_stopEnv_u3v hh] at ho
      simp [h1, h2] at ho
    | fake =>
      rw [stopEnv_fake hh] at ho ⊢
      have hne := outcome_false_ne_notOpened env s
      cases hout : outcome env false s with
      | ok => exact absurd hout ho
      | notOpened => exact absurd hout hne
      | fault =>
        cases hk : env.stopFailKills with
        | true =>
          apply loopInv_of_idle
          rw [hk] at h3
          simp [LV, pIdle, failSt, liveLoops_append, loopDelta, loopStopFail, hh, hk, h2, h3]
        | false =>
          apply loopInv_of_run
          rw [hk] at h3
          simp [LV, pRun, failSt, liveLoops_append, loopDelta, loopStopFail, hh, hk, h1, h2, h3]

theorem loopInv_startStreaming (env : Env) (cap : Nat) :
    Triple (LoopInv env.stopFailKills) (startStreaming env cap)
      (fun _ => LoopInv env.stopFailKills) (LoopInv env.stopFailKills) := by
  unfold startStreaming
  apply triple_getDev_bind
  intro d
  refine triple_ite (fun _ => triple_throw (fun _ h => h.1)) (fun hflag => ?_)
  refine triple_ite (fun _ => triple_throw (fun _ h => h.1)) (fun _ => ?_)
  refine triple_ite (fun _ => triple_panic (fun _ h => h.1)) (fun _ => ?_)
  -- body, from an idle state
  have hpre : ∀ s, (LoopInv env.stopFailKills s ∧ s.dev = d) → LV env.stopFailKills pIdle s := by
    rintro s ⟨⟨h1, h2⟩, rfl⟩
    simp only [Bool.not_eq_true] at hflag
    simp only [FlagTracksLoop, hflag, Bool.false_eq_true, if_false] at h1
    exact ⟨hflag, h1, by rw [h2, h1]⟩
  refine triple_conseq (P := LV env.stopFailKills pIdle) ?_ hpre (fun _ _ h => h) (fun _ h => h)
  have hE : ∀ s, LV env.stopFailKills pIdle s → LoopInv env.stopFailKills s :=
    fun _ h => loopInv_of_idle h
  refine triple_bind (frame_subOp (by simp) (by simp) (by simp) (by simp) hE) (fun _ => ?_)
  refine triple_bind (frame_paramsCtxt hE) (fun x => ?_)
  refine triple_bind (frame_expectNode _ hE) (fun _ => ?_)
  refine triple_bind (frame_subOp (by simp) (by simp) (by simp) (by simp) hE) (fun _ => ?_)
  refine triple_bind (frame_expectNode _ hE) (fun _ => ?_)
  refine triple_bind (frame_subOp (by simp) (by simp) (by simp) (by simp) hE) (fun _ => ?_)
  -- loop start
  exact loopInv_loopStartOp env cap

theorem loopInv_stopStreaming (env : Env) :
    Triple (LoopInv env.stopFailKills) (stopStreaming env)
      (fun _ => LoopInv env.stopFailKills) (LoopInv env.stopFailKills) := by
  unfold stopStreaming
  apply triple_getDev_bind
  intro d
  refine triple_ite (fun _ => triple_pure (fun _ h => h.1)) (fun hflag => ?_)
  have hpre : ∀ s, (LoopInv env.stopFailKills s ∧ s.dev = d) → LV env.stopFailKills pRun s := by
    rintro s ⟨⟨h1, h2⟩, rfl⟩
    simp only [Bool.not_eq_true, Bool.not_eq_false'] at hflag
    simp only [FlagTracksLoop, hflag, if_true] at h1
    exact ⟨hflag, h1, by rw [h2, h1]⟩
  refine triple_conseq (P := LV env.stopFailKills pRun) ?_ hpre (fun _ _ h => h) (fun _ h => h)
  have hE : ∀ s, LV env.stopFailKills pIdle s → LoopInv env.stopFailKills s :=
    fun _ h => loopInv_of_idle h
  refine triple_bind (R := fun _ => LV env.stopFailKills pIdle) ?_ (fun _ => ?_)
  · exact loopInv_loopStopOp env
  refine triple_bind (frame_paramsCtxt hE) (fun x => ?_)
  refine triple_bind (frame_expectNode _ hE) (fun _ => ?_)
  refine triple_bind (frame_subOp (by simp) (by simp) (by simp) (by simp) hE) (fun _ => ?_)
  refine triple_bind (frame_expectNode _ hE) (fun _ => ?_)
  refine triple_bind (frame_subOp (by simp) (by simp) (by simp) (by simp) hE) (fun _ => ?_)
  exact triple_conseq (frame_subOp (by simp) (by simp) (by simp) (by simp) hE) (fun _ h => h)
    (fun _ _ h => loopInv_of_idle h) (fun _ h => h)

/-- `LoopInv` as an `LV` assertion (so that the frame rule applies to it) -/
def pInv : Bool → Nat → Nat → Prop := fun f n l => n = (if f then 1 else 0) ∧ l = n

theorem loopInv_iff (kills : Bool) (s : State) : LoopInv kills s ↔ LV kills pInv s := Iff.rfl

theorem loopInv_frame_subOp {env : Env} {k : Sub} {no : Bool} {onFail : Out → Err}
    {upd fu : Dev → Dev} (h1 : k ≠ .loopStart) (h2 : k ≠ .loopStop)
    (hu : ∀ d, (upd d).loopFlag = d.loopFlag ∧ (upd d).loops = d.loops)
    (hf : ∀ d, (fu d).loopFlag = d.loopFlag ∧ (fu d).loops = d.loops) :
    Triple (LoopInv env.stopFailKills) (subOp env k no onFail upd fu)
      (fun _ => LoopInv env.stopFailKills) (LoopInv env.stopFailKills) :=
  frame_subOp (p := pInv) h1 h2 hu hf (fun _ h => h)

theorem loopInv_call (env : Env) (op : Op) :
    Triple (LoopInv env.stopFailKills) (call env op)
      (fun _ => LoopInv env.stopFailKills) (LoopInv env.stopFailKills) := by
  cases op with
  | «open» =>
    exact triple_handlePair (loopInv_frame_subOp (by simp) (by simp) (by simp) (by simp))
      (triple_strmOpenOp (fun _ => frame_subOp (p := pInv) (by simp) (by simp) (by simp) (by simp)
        (fun _ h => h)))
  | load =>
    refine triple_bind (R := fun _ => LoopInv env.stopFailKills) ?_ (fun x => ?_)
    · exact triple_bind (loopInv_frame_subOp (by simp) (by simp) (by simp) (by simp))
        (fun _ => triple_pure (fun _ h => h))
    · exact triple_ite (fun _ => triple_modify (fun _ h => h)) (fun _ => triple_throw (fun _ h => h))
  | start cap => exact loopInv_startStreaming env cap
  | stop => exact loopInv_stopStreaming env
  | close =>
    refine triple_bind (loopInv_stopStreaming env) (fun _ => ?_)
    refine triple_bind (triple_handlePair (loopInv_frame_subOp (by simp) (by simp) (by simp) (by simp))
      (loopInv_frame_subOp (by simp) (by simp) (by simp) (by simp))) (fun _ => ?_)
    exact triple_modify (fun _ h => h)
  | param =>
    refine triple_bind (R := fun _ => LoopInv env.stopFailKills)
      (triple_paramsCtxt (fun _ _ h _ => h) (fun _ h _ => h)) (fun _ => ?_)
    apply triple_getDev_bind
    intro d
    refine triple_ite (fun _ => triple_pure (fun _ h => h.1)) (fun _ => ?_)
    exact triple_conseq (loopInv_frame_subOp (by simp) (by simp) (by simp) (by simp))
      (fun _ h => h.1) (fun _ _ h => h) (fun _ h => h)
  | gate v =>
    exact triple_bind (R := fun _ => LoopInv env.stopFailKills)
      (triple_paramsCtxt (fun _ _ h _ => h) (fun _ h _ => h))
      (fun _ => loopInv_frame_subOp (by simp) (by simp) (by simp) (by simp))

theorem loopInv_init (kills : Bool) : LoopInv kills State.init := by
  simp [LoopInv, FlagTracksLoop, State.init, liveLoops]

theorem loopInv_runOps (env : Env) (ops : List Op) (s : State)
    (h : LoopInv env.stopFailKills s) : LoopInv env.stopFailKills (runOps env ops s) := by
  induction ops generalizing s with
  | nil => exact h
  | cons op ops ih => exact ih _ (triple_snd (loopInv_call env op) h)

/-! ### Invariant 2: as long as no operation failed, the device state is consistent -/

/-- assertion that is only claimed while every effect since the trace `t0` satisfies `H`
(`H e := e.out = .ok`: nothing failed; `H := Harmless`: no protocol step failed) -/
def OkP (H : Effect → Prop) (t0 : List Effect) (B : Dev → Prop) (s : State) : Prop :=
  ∃ seg, s.trace = t0 ++ seg ∧ ((∀ e ∈ seg, H e) → B s.dev)

variable {H : Effect → Prop} {t0 : List Effect}

/-- same trace, transformed device assertion -/
theorem OkP.same {B B' : Dev → Prop} {s s' : State} (h : OkP H t0 B s) (ht : s'.trace = s.trace)
    (f : B s.dev → B' s'.dev) : OkP H t0 B' s' := by
  obtain ⟨seg, hs, hB⟩ := h
  exact ⟨seg, ht.trans hs, fun hall => f (hB hall)⟩

/-- "the device state is exactly `d0`" (the all-ok path of a call is deterministic) plus a
static fact `Φ` -/
def At (d0 : Dev) (Φ : Prop) : Dev → Prop := fun d => d = d0 ∧ Φ

theorem okp_subOp {env : Env} {k : Sub} {no : Bool} {onFail : Out → Err} {upd fu : Dev → Dev}
    {B B' GE : Dev → Prop} (h : ∀ d, B d → B' (upd d))
    (hfail : ∀ o, o ≠ Out.ok → ¬ H ⟨k, o⟩ ∨ ∀ d, B d → GE (fu d)) :
    Triple (OkP H t0 B) (subOp env k no onFail upd fu) (fun _ => OkP H t0 B') (OkP H t0 GE) := by
  apply triple_subOp
  · rintro s ⟨seg, ht, hB⟩ _
    refine ⟨seg ++ [⟨k, .ok⟩], by simp [okSt, ht], fun hall => ?_⟩
    exact h _ (hB (fun e he => hall e (List.mem_append_left _ he)))
  · rintro s ⟨seg, ht, hB⟩ ho
    refine ⟨seg ++ [⟨k, outcome env no s⟩], by simp [failSt, ht], fun hall => ?_⟩
    rcases hfail _ ho with hn | hg
    · exact absurd (hall _ (by simp)) hn
    · exact hg _ (hB (fun e he => hall e (List.mem_append_left _ he)))

theorem okp_subOp_at {env : Env} {k : Sub} {no : Bool} {onFail : Out → Err} {upd fu : Dev → Dev}
    {d0 : Dev} {Φ : Prop} {GE : Dev → Prop} (hfail : ∀ o, o ≠ Out.ok → ¬ H ⟨k, o⟩) :
    Triple (OkP H t0 (At d0 Φ)) (subOp env k no onFail upd fu) (fun _ => OkP H t0 (At (upd d0) Φ))
      (OkP H t0 GE) :=
  okp_subOp (by rintro d ⟨rfl, h⟩; exact ⟨rfl, h⟩) (fun o ho => Or.inl (hfail o ho))

theorem okp_paramsCtxt_at {d0 : Dev} {Φ : Prop} {GE : Dev → Prop} (hn : Φ → d0.ctxt ≠ none) :
    Triple (OkP H t0 (At d0 Φ)) paramsCtxt (fun x => OkP H t0 (At d0 (Φ ∧ d0.ctxt = some x))) (OkP H t0 GE) := by
  apply triple_paramsCtxt
  · intro s x hP hc
    refine hP.same rfl ?_
    rintro ⟨hd, hΦ⟩
    exact ⟨hd, hΦ, by rw [← hd]; exact hc⟩
  · intro s hP hc
    refine hP.same rfl ?_
    rintro ⟨hd, hΦ⟩
    exact absurd (by rw [← hd]; exact hc) (hn hΦ)

theorem okp_expectNode_at {d0 : Dev} {Φ : Prop} {GE : Dev → Prop} {b : Bool} (h : Φ → b = true) :
    Triple (OkP H t0 (At d0 Φ)) (expectNode b) (fun _ => OkP H t0 (At d0 Φ)) (OkP H t0 GE) := by
  unfold expectNode
  refine triple_ite (fun _ => triple_pure (fun _ h => h)) (fun hb => triple_throw ?_)
  intro s hP
  exact hP.same rfl (fun hB => absurd (h hB.2) hb)

theorem full_of_ctxtOk {d : Dev} {x : Xml} (h : CtxtOk d) (hx : d.ctxt = some x) : x = Xml.full := by
  rcases h.1 with h1 | h1
  · rw [h1] at hx; cases hx
  · rw [h1] at hx; cases hx; rfl

/-- device state after the loop was started -/
def startUpd (cap : Nat) (d : Dev) : Dev :=
  { d with loops := d.loops + 1, loopFlag := true, chan := some (cap, DEFAULT_BUFFER_CAP) }

theorem okp_loopStartOp_at {env : Env} {cap : Nat} {d0 : Dev} {Φ : Prop} {GE : Dev → Prop}
    (hprot : ∀ k o, isProtocol k = true → o ≠ Out.ok → ¬ H ⟨k, o⟩) (hΦ : Φ → d0.loopFlag = false) :
    Triple (OkP H t0 (At d0 Φ)) (loopStartOp env cap) (fun _ => OkP H t0 (At (startUpd cap d0) Φ))
      (OkP H t0 GE) := by
  unfold loopStartOp
  refine triple_bind (okp_subOp_at (by intro o; exact hprot _ o rfl)) (fun _ => ?_)
  apply triple_getDev_bind
  intro d
  refine triple_ite (fun hc => triple_throw ?_) (fun _ => triple_modify ?_)
  · rintro s ⟨h, rfl⟩
    refine h.same rfl ?_
    rintro ⟨hd, hφ⟩
    have := hΦ hφ
    rw [hd] at hc
    exact absurd hc.2 (by simp [this])
  · rintro s ⟨h, _⟩
    refine h.same rfl ?_
    rintro ⟨hd, hφ⟩
    exact ⟨by simp only [hd]; rfl, hφ⟩

theorem okp_loopStopOp_at {env : Env} {d0 : Dev} {Φ : Prop} {GE : Dev → Prop}
    (hprot : ∀ k o, isProtocol k = true → o ≠ Out.ok → ¬ H ⟨k, o⟩) :
    Triple (OkP H t0 (At d0 Φ)) (loopStopOp env) (fun _ => OkP H t0 (At (loopStopUpd env d0) Φ))
      (OkP H t0 GE) := by
  unfold loopStopOp
  apply triple_getDev_bind
  intro d
  exact triple_conseq (P := OkP H t0 (At d0 Φ)) (okp_subOp_at (by intro o; exact hprot _ o rfl))
    (fun _ h => h.1) (fun _ _ h => h) (fun _ h => h)

@[simp] theorem loopStopUpd_ctxt (env : Env) (d : Dev) : (loopStopUpd env d).ctxt = d.ctxt := by
  unfold loopStopUpd; cases env.handle <;> simp only <;> split <;> rfl

/-- stopping the one running loop, for either handle -/
theorem loopStopUpd_of_run {env : Env} {d : Dev} (hf : d.loopFlag = true) (hl : d.loops = 1) :
    loopStopUpd env d = { d with loops := 0, loopFlag := false, chan := none } := by
  unfold loopStopUpd; cases env.handle <;> simp [hf, hl]

theorem good_startStreaming (env : Env) (cap : Nat)
    (hprot : ∀ k o, isProtocol k = true → o ≠ Out.ok → ¬ H ⟨k, o⟩)
    {GE : Dev → Prop} (hGE : ∀ d, Good d → GE d) :
    Triple (OkP H t0 Good) (startStreaming env cap) (fun _ => OkP H t0 Good) (OkP H t0 GE) := by
  unfold startStreaming
  apply triple_getDev_bind
  intro d
  have hthrow : ∀ s, (OkP H t0 Good s ∧ s.dev = d) → OkP H t0 GE s :=
    fun s h => h.1.same rfl (hGE _)
  refine triple_ite (fun _ => triple_throw hthrow) (fun hflag => ?_)
  refine triple_ite (fun _ => triple_throw hthrow) (fun hctxt => ?_)
  refine triple_ite (fun _ => triple_panic hthrow) (fun _ => ?_)
  simp only [Bool.not_eq_true] at hflag hctxt
  refine triple_conseq (P := OkP H t0 (At d (Good d))) ?_
    (by rintro s ⟨h, rfl⟩; exact h.same rfl (fun hB => ⟨rfl, hB⟩)) (fun _ _ h => h) (fun _ h => h)
  refine triple_bind (okp_subOp_at (by intro o; exact hprot _ o rfl)) (fun _ => ?_)
  refine triple_bind (okp_paramsCtxt_at ?_) (fun x => ?_)
  · intro _ hc
    simp only at hc
    simp [hc] at hctxt
  refine triple_bind (okp_expectNode_at ?_) (fun _ => ?_)
  · rintro ⟨hg, hx⟩
    simp only at hx
    rw [full_of_ctxtOk hg.2 hx]; rfl
  refine triple_bind (okp_subOp_at (by intro o; exact hprot _ o rfl)) (fun _ => ?_)
  refine triple_bind (okp_expectNode_at ?_) (fun _ => ?_)
  · rintro ⟨hg, hx⟩
    simp only at hx
    rw [full_of_ctxtOk hg.2 hx]; rfl
  refine triple_bind (okp_subOp_at (by intro o; exact hprot _ o rfl)) (fun _ => ?_)
  refine triple_conseq (okp_loopStartOp_at hprot (by intro _; exact hflag)) (fun _ h => h) ?_ (fun _ h => h)
  intro _ s h
  refine h.same rfl ?_
  rintro ⟨hd, ⟨⟨hft, hen, hlk, hac, hch⟩, hc1, hc2⟩, hx⟩
  rw [hd]
  have hfull := full_of_ctxtOk ⟨hc1, hc2⟩ hx
  simp only [FlagTracksLoop, hflag, Bool.false_eq_true, if_false] at hft
  subst hfull
  simp only at hx
  refine ⟨⟨?_, ?_, ?_, ?_, ?_⟩, ?_, ?_⟩ <;> simp [startUpd, FlagTracksLoop, hft, hx]

/-- `stop_streaming` from a good state: on the all-ok path it cannot fail, and it ends with no
loop running. -/
theorem good_stopStreaming (env : Env)
    (hprot : ∀ k o, isProtocol k = true → o ≠ Out.ok → ¬ H ⟨k, o⟩) :
    Triple (OkP H t0 Good) (stopStreaming env) (fun _ => OkP H t0 (fun d => Good d ∧ d.loopFlag = false))
      (OkP H t0 (fun _ => False)) := by
  unfold stopStreaming
  apply triple_getDev_bind
  intro d
  refine triple_ite (fun hflag => triple_pure ?_) (fun hflag => ?_)
  · rintro s ⟨h, rfl⟩
    simp only [Bool.not_eq_true', ] at hflag
    exact h.same rfl (fun hB => ⟨hB, hflag⟩)
  simp only [Bool.not_eq_true, Bool.not_eq_false'] at hflag
  refine triple_conseq (P := OkP H t0 (At d (Good d))) ?_
    (by rintro s ⟨h, rfl⟩; exact h.same rfl (fun hB => ⟨rfl, hB⟩)) (fun _ _ h => h) (fun _ h => h)
  refine triple_bind (okp_loopStopOp_at hprot) (fun _ => ?_)
  refine triple_bind (okp_paramsCtxt_at ?_) (fun x => ?_)
  · intro hg hc
    simp only [loopStopUpd_ctxt] at hc
    have := hg.2.2 hflag
    rw [this] at hc
    cases hc
  refine triple_bind (okp_expectNode_at ?_) (fun _ => ?_)
  · rintro ⟨hg, hx⟩
    simp only [loopStopUpd_ctxt] at hx
    rw [full_of_ctxtOk hg.2 hx]; rfl
  refine triple_bind (okp_subOp_at (by intro o; exact hprot _ o rfl)) (fun _ => ?_)
  refine triple_bind (okp_expectNode_at ?_) (fun _ => ?_)
  · rintro ⟨hg, hx⟩
    simp only [loopStopUpd_ctxt] at hx
    rw [full_of_ctxtOk hg.2 hx]; rfl
  refine triple_bind (okp_subOp_at (by intro o; exact hprot _ o rfl)) (fun _ => ?_)
  refine triple_conseq (okp_subOp_at (by intro o; exact hprot _ o rfl)) (fun _ h => h) ?_ (fun _ h => h)
  intro _ s h
  refine h.same rfl ?_
  rintro ⟨hd, ⟨⟨hft, hen, hlk, hac, hch⟩, hc1, hc2⟩, hx⟩
  rw [hd]
  simp only [FlagTracksLoop, hflag, if_true] at hft
  simp only [loopStopUpd_ctxt] at hx
  have hfull := full_of_ctxtOk ⟨hc1, hc2⟩ hx
  subst hfull
  rw [loopStopUpd_of_run hflag hft]
  refine ⟨⟨⟨?_, ?_, ?_, ?_, ?_⟩, ?_, ?_⟩, ?_⟩ <;> simp [FlagTracksLoop, hx]

theorem good_frame_subOp {env : Env} {k : Sub} {no : Bool} {onFail : Out → Err}
    {upd fu : Dev → Dev} {B : Dev → Prop} (h : ∀ d, B d → B (upd d)) (hf : ∀ d, B d → B (fu d)) :
    Triple (OkP H t0 B) (subOp env k no onFail upd fu) (fun _ => OkP H t0 B) (OkP H t0 B) :=
  okp_subOp h (fun _ _ => Or.inr hf)

theorem okp_weaken {B GE : Dev → Prop} (h : ∀ d, B d → GE d) : ∀ s, OkP H t0 B s → OkP H t0 GE s :=
  fun _ hs => hs.same rfl (h _)

/-- `close` from a good state: while no protocol step fails it leaves a good state, and when it
succeeds a clean one; `hfree`: either a failing handle-close is excluded by `H` too, or `GE`
is implied by `Good`. -/
theorem good_closeCam (env : Env)
    (hprot : ∀ k o, isProtocol k = true → o ≠ Out.ok → ¬ H ⟨k, o⟩) {GE : Dev → Prop}
    (hfree : (∀ k o, o ≠ Out.ok → ¬ H ⟨k, o⟩) ∨ (∀ d, Good d → GE d)) :
    Triple (OkP H t0 Good) (closeCam env) (fun _ => OkP H t0 (fun d => Good d ∧ Clean d))
      (OkP H t0 GE) := by
  unfold closeCam
  refine triple_bind (triple_conseq (good_stopStreaming env hprot) (fun _ h => h) (fun _ _ h => h)
    (okp_weaken (fun _ h => h.elim))) (fun _ => ?_)
  have hfail : ∀ (k : Sub) {B : Dev → Prop}, (∀ d, B d → Good d) →
      ∀ o, o ≠ Out.ok → ¬ H ⟨k, o⟩ ∨ ∀ d, B d → GE (id d) := by
    intro k B hB o ho
    rcases hfree with h1 | h2
    · exact Or.inl (h1 _ o ho)
    · exact Or.inr (fun d hd => h2 d (hB d hd))
  refine triple_bind
    (R := fun _ => OkP H t0 (fun d => (Good d ∧ d.loopFlag = false) ∧ d.ctrlOpen = false ∧ d.strmOpen = false))
    ?_ (fun _ => ?_)
  · unfold handlePair
    split
    · refine triple_bind
        (R := fun _ => OkP H t0 (fun d => (Good d ∧ d.loopFlag = false) ∧ d.ctrlOpen = false))
        (okp_subOp ?_ (hfail _ (fun _ h => h.1))) (fun _ => okp_subOp ?_ (hfail _ (fun _ h => h.1.1)))
      · rintro d ⟨⟨⟨hft, hen, hlk, hac, hch⟩, hc1, hc2⟩, hf⟩
        exact ⟨⟨⟨⟨hft, hen, hlk, hac, hch⟩, hc1, hc2⟩, hf⟩, rfl⟩
      · rintro d ⟨⟨⟨⟨hft, hen, hlk, hac, hch⟩, hc1, hc2⟩, hf⟩, ho⟩
        exact ⟨⟨⟨⟨hft, hen, hlk, hac, hch⟩, hc1, hc2⟩, hf⟩, ho, rfl⟩
    · refine triple_bind
        (R := fun _ => OkP H t0 (fun d => (Good d ∧ d.loopFlag = false) ∧ d.strmOpen = false))
        (okp_subOp ?_ (hfail _ (fun _ h => h.1))) (fun _ => okp_subOp ?_ (hfail _ (fun _ h => h.1.1)))
      · rintro d ⟨⟨⟨hft, hen, hlk, hac, hch⟩, hc1, hc2⟩, hf⟩
        exact ⟨⟨⟨⟨hft, hen, hlk, hac, hch⟩, hc1, hc2⟩, hf⟩, rfl⟩
      · rintro d ⟨⟨⟨⟨hft, hen, hlk, hac, hch⟩, hc1, hc2⟩, hf⟩, hso⟩
        exact ⟨⟨⟨⟨hft, hen, hlk, hac, hch⟩, hc1, hc2⟩, hf⟩, rfl, hso⟩
  apply triple_modify
  rintro s h
  refine h.same rfl ?_
  rintro ⟨⟨⟨⟨hft, hen, hlk, hac, hch⟩, hc1, hc2⟩, hf⟩, ho, hso⟩
  simp only [FlagTracksLoop, hf, Bool.false_eq_true, if_false] at hft hlk
  refine ⟨⟨⟨?_, ?_, ?_, ?_, ?_⟩, ?_, ?_⟩, ?_⟩
  · simpa [FlagTracksLoop, hf] using hft
  · exact hen
  · simpa [hf] using hlk
  · exact hac
  · exact hch
  · exact hc1
  · exact hc2
  · exact ⟨hf, hft, hlk, by rw [hen, hf], by rw [hac, hf], ho, hso, rfl, hch hf⟩

theorem good_openCam (env : Env) :
    Triple (OkP H t0 Good) (openCam env) (fun _ => OkP H t0 Good) (OkP H t0 Good) :=
  triple_handlePair (good_frame_subOp (fun _ h => h) (fun _ h => h))
    (triple_strmOpenOp (fun _ => good_frame_subOp (fun _ h => h) (fun _ h => h)))

theorem good_loadContext (env : Env) (hx : env.xml = Xml.full) :
    Triple (OkP H t0 Good) (loadContext env) (fun _ => OkP H t0 Good) (OkP H t0 Good) := by
  refine triple_bind (R := fun x => OkP H t0 (fun d => Good d ∧ x = Xml.full)) ?_ (fun x => ?_)
  · refine triple_bind (R := fun _ => OkP H t0 Good)
      (good_frame_subOp (fun _ h => h) (fun _ h => h)) (fun _ => ?_)
    exact triple_pure (fun s h => h.same rfl (fun hB => ⟨hB, hx⟩))
  · refine triple_ite (fun _ => triple_modify ?_) (fun _ => triple_throw (okp_weaken (fun _ h => h.1)))
    rintro s h
    refine h.same rfl ?_
    rintro ⟨⟨hc, h1, h2⟩, rfl⟩
    exact ⟨hc, Or.inr rfl, fun _ => rfl⟩

theorem good_paramAccess (env : Env) :
    Triple (OkP H t0 Good) (paramAccess env) (fun _ => OkP H t0 Good) (OkP H t0 Good) := by
  refine triple_bind (R := fun _ => OkP H t0 Good)
    (triple_paramsCtxt (fun _ _ h _ => h) (fun _ h _ => h)) (fun _ => ?_)
  apply triple_getDev_bind
  intro d
  refine triple_ite (fun _ => triple_pure (fun _ h => h.1)) (fun _ => ?_)
  exact triple_conseq (good_frame_subOp (fun _ h => h) (fun _ h => h)) (fun _ h => h.1)
    (fun _ _ h => h) (fun _ h => h)

theorem good_gateAccess (env : Env) (v : Nat) :
    Triple (OkP H t0 Good) (gateAccess env v) (fun _ => OkP H t0 Good) (OkP H t0 Good) :=
  triple_bind (R := fun _ => OkP H t0 Good)
    (triple_paramsCtxt (fun _ _ h _ => h) (fun _ h _ => h))
    (fun _ => good_frame_subOp (fun _ h => h) (fun _ h => h))

/-- every call preserves `Good` as long as no protocol step fails (complete description on the
device) -/
theorem good_call (env : Env) (hx : env.xml = Xml.full)
    (hprot : ∀ k o, isProtocol k = true → o ≠ Out.ok → ¬ H ⟨k, o⟩) (op : Op) :
    Triple (OkP H t0 Good) (call env op) (fun _ => OkP H t0 Good) (OkP H t0 Good) := by
  cases op with
  | «open» => exact good_openCam env
  | load => exact good_loadContext env hx
  | start cap => exact good_startStreaming env cap hprot (fun _ h => h)
  | stop =>
    exact triple_conseq (good_stopStreaming env hprot) (fun _ h => h)
      (fun _ => okp_weaken (fun _ h => h.1)) (okp_weaken (fun _ h => h.elim))
  | close =>
    exact triple_conseq (good_closeCam env hprot (Or.inr (fun _ h => h))) (fun _ h => h)
      (fun _ => okp_weaken (fun _ h => h.1)) (fun _ h => h)
  | param => exact good_paramAccess env
  | gate v => exact good_gateAccess env v

theorem good_init : OkP H [] Good State.init :=
  ⟨[], rfl, fun _ => by simp [Good, Consistent, FlagTracksLoop, CtxtOk, State.init]⟩

theorem good_runOps (env : Env) (hx : env.xml = Xml.full)
    (hprot : ∀ k o, isProtocol k = true → o ≠ Out.ok → ¬ H ⟨k, o⟩) (ops : List Op) (s : State)
    (h : OkP H t0 Good s) : OkP H t0 Good (runOps env ops s) := by
  induction ops generalizing s with
  | nil => exact h
  | cons op ops ih => exact ih _ (triple_snd (good_call env hx hprot op) h)

/-- the two instances of `H` -/
theorem hprot_ok : ∀ k o, isProtocol k = true → o ≠ Out.ok → ¬ (fun e : Effect => e.out = .ok) ⟨k, o⟩ :=
  fun _ _ _ ho h => ho h

theorem hprot_harmless : ∀ k o, isProtocol k = true → o ≠ Out.ok → ¬ Harmless ⟨k, o⟩ := by
  intro k o hk ho h
  rcases h with h | h
  · exact ho h
  · simp only at h
    rw [hk] at h
    cases h

/-! ### The exact device state after a successful start / stop (every state) -/

theorem ex_subOp {env : Env} {k : Sub} {no : Bool} {onFail : Out → Err} {upd fu : Dev → Dev}
    {d0 : Dev} {E : State → Prop} (hE : ∀ s, s.dev = fu d0 → E s) :
    Triple (fun s => s.dev = d0) (subOp env k no onFail upd fu) (fun _ s => s.dev = upd d0) E :=
  triple_subOp (by rintro s rfl _; rfl) (by rintro s rfl _; exact hE _ rfl)

theorem ex_paramsCtxt {d0 : Dev} {E : State → Prop} (hE : ∀ s, s.dev = d0 → E s) :
    Triple (fun s => s.dev = d0) paramsCtxt (fun _ s => s.dev = d0) E :=
  triple_paramsCtxt (fun _ _ h _ => h) (fun s h _ => hE s h)

theorem ex_expectNode {d0 : Dev} {E : State → Prop} (b : Bool) (hE : ∀ s, s.dev = d0 → E s) :
    Triple (fun s => s.dev = d0) (expectNode b) (fun _ s => s.dev = d0) E := by
  unfold expectNode
  exact triple_ite (fun _ => triple_pure (fun _ h => h)) (fun _ => triple_throw hE)

/-- what a `start_streaming` call that does not return `Ok` leaves of the handle/loop state:
no loop was started, the payload channel, the context and the handles are as before -/
def NoLoopChange (d d' : Dev) : Prop :=
  d'.loopFlag = d.loopFlag ∧ d'.loops = d.loops ∧ d'.chan = d.chan ∧ d'.ctxt = d.ctxt ∧
    d'.ctrlOpen = d.ctrlOpen ∧ d'.strmOpen = d.strmOpen

/-- what a `stop_streaming` call that does not return `Ok` leaves of the loop state: nothing
changed (the loop stop itself failed and the loop survived), or the loop is gone -/
def LoopGoneOrSame (d d' : Dev) : Prop :=
  d' = d ∨ (d'.loops = d.loops - 1 ∧ d'.chan = none ∧ d'.ctxt = d.ctxt ∧
    (d'.loopFlag = false ∨ d'.loopFlag = decide (0 < d.loops - 1))) ∨
  -- `u3v` handle whose loop thread had died: the stop took the sender, the send failed
  (d'.loops = d.loops ∧ d'.chan = none ∧ d'.ctxt = d.ctxt ∧ d'.loopFlag = false)

/-- device state after a successful `start_streaming` -/
def startedDev (d : Dev) (cap : Nat) : Dev :=
  { d with enabled := true, lock := 1, acquiring := true, loopFlag := true, loops := d.loops + 1,
           chan := some (cap, DEFAULT_BUFFER_CAP),
           cache := { d.cache with lock := true, start := true } }

/-- device state after a successful `stop_streaming` of a running loop -/
def stoppedDev (env : Env) (d : Dev) : Dev :=
  let d1 := loopStopUpd env d
  { d1 with enabled := false, lock := 0, acquiring := false,
            cache := { d1.cache with lock := true, stop := true } }

theorem ex_loopStartOp {env : Env} {cap : Nat} {d0 : Dev} {E : State → Prop}
    (hE : ∀ s, s.dev = d0 → E s) :
    Triple (fun s => s.dev = d0) (loopStartOp env cap) (fun _ s => s.dev = startUpd cap d0) E := by
  unfold loopStartOp
  refine triple_bind (ex_subOp hE) (fun _ => ?_)
  apply triple_getDev_bind
  intro d
  refine triple_ite (fun _ => triple_throw (fun s h => hE s h.1)) (fun _ => triple_modify ?_)
  rintro s ⟨h, _⟩
  simp only [h]
  rfl

theorem ex_loopStopOp {env : Env} {d0 : Dev} {E : State → Prop}
    (hE : ∀ s, s.dev = loopStopFail env d0 → E s) :
    Triple (fun s => s.dev = d0) (loopStopOp env) (fun _ s => s.dev = loopStopUpd env d0) E := by
  unfold loopStopOp
  apply triple_getDev_bind
  intro d
  exact triple_conseq (P := fun s => s.dev = d0) (ex_subOp hE) (fun _ h => h.1) (fun _ _ h => h)
    (fun _ h => h)

theorem triple_false {α : Type} {P : State → Prop} {m : M α} {Q : α → State → Prop}
    {E : State → Prop} (h : ∀ s, ¬ P s) : Triple P m Q E :=
  fun s hs => absurd hs (h s)

theorem exact_startStreaming (env : Env) (cap : Nat) (d : Dev) :
    Triple (fun s => s.dev = d) (startStreaming env cap)
      (fun _ s => s.dev = startedDev d cap ∧ d.loopFlag = false ∧ d.ctxt ≠ none ∧ cap ≠ 0)
      (fun s => NoLoopChange d s.dev) := by
  unfold startStreaming
  apply triple_getDev_bind
  intro d'
  by_cases hdd : d' = d
  case neg => exact triple_false (by rintro s ⟨h1, h2⟩; exact hdd (h2.symm.trans h1))
  subst hdd
  have hsame : ∀ s : State, (s.dev = d' ∧ s.dev = d') → NoLoopChange d' s.dev := by
    rintro s ⟨h, _⟩; rw [h]; simp [NoLoopChange]
  refine triple_ite (fun _ => triple_throw hsame) (fun hflag => ?_)
  refine triple_ite (fun _ => triple_throw hsame) (fun hctxt => ?_)
  refine triple_ite (fun _ => triple_panic hsame) (fun hcap => ?_)
  refine triple_conseq (P := fun s => s.dev = d') ?_ (fun _ h => h.2) (fun _ _ h => h) (fun _ h => h)
  refine triple_bind (ex_subOp (by intro s h; rw [h]; simp [NoLoopChange])) (fun _ => ?_)
  refine triple_bind (ex_paramsCtxt (by intro s h; rw [h]; simp [NoLoopChange])) (fun x => ?_)
  refine triple_bind (ex_expectNode _ (by intro s h; rw [h]; simp [NoLoopChange])) (fun _ => ?_)
  refine triple_bind (ex_subOp (by intro s h; rw [h]; simp [NoLoopChange])) (fun _ => ?_)
  refine triple_bind (ex_expectNode _ (by intro s h; rw [h]; simp [NoLoopChange])) (fun _ => ?_)
  refine triple_bind (ex_subOp (by intro s h; rw [h]; simp [NoLoopChange])) (fun _ => ?_)
  refine triple_conseq (ex_loopStartOp (by intro s h; rw [h]; simp [NoLoopChange])) (fun _ h => h) ?_
    (fun _ h => h)
  intro _ s h
  simp only [Bool.not_eq_true] at hflag
  refine ⟨h, hflag, ?_, hcap⟩
  intro hn
  simp [hn] at hctxt

theorem exact_stopStreaming (env : Env) (d : Dev) :
    Triple (fun s => s.dev = d) (stopStreaming env)
      (fun _ s => s.dev = if d.loopFlag then stoppedDev env d else d)
      (fun s => LoopGoneOrSame d s.dev) := by
  unfold stopStreaming
  apply triple_getDev_bind
  intro d'
  by_cases hdd : d' = d
  case neg => exact triple_false (by rintro s ⟨h1, h2⟩; exact hdd (h2.symm.trans h1))
  subst hdd
  refine triple_ite (fun hflag => triple_pure ?_) (fun hflag => ?_)
  · rintro s ⟨h, _⟩
    simp only [Bool.not_eq_true'] at hflag
    simp [hflag, h]
  simp only [Bool.not_eq_true, Bool.not_eq_false'] at hflag
  refine triple_conseq (P := fun s => s.dev = d') ?_ (fun _ h => h.2) (fun _ _ h => h) (fun _ h => h)
  have hD1 : (loopStopUpd env d').loops = d'.loops - 1 ∧ (loopStopUpd env d').chan = none ∧
      (loopStopUpd env d').ctxt = d'.ctxt ∧
      ((loopStopUpd env d').loopFlag = false ∨
        (loopStopUpd env d').loopFlag = decide (0 < d'.loops - 1)) := by
    unfold loopStopUpd
    cases env.handle <;> simp [hflag]
  have hgone : ∀ (d1 : Dev) (s : State), s.dev = d1 → d1.loops = (loopStopUpd env d').loops →
      d1.chan = (loopStopUpd env d').chan → d1.ctxt = (loopStopUpd env d').ctxt →
      d1.loopFlag = (loopStopUpd env d').loopFlag → LoopGoneOrSame d' s.dev := by
    intro d1 s h h1 h2 h3 h4
    rw [h]
    refine Or.inr (Or.inl ⟨h1.trans hD1.1, h2.trans hD1.2.1, h3.trans hD1.2.2.1, ?_⟩)
    rw [h4]
    exact hD1.2.2.2
  refine triple_bind (ex_loopStopOp ?_) (fun _ => ?_)
  · intro s h
    rw [h]
    unfold loopStopFail
    cases env.handle
    · cases env.stopFailKills
      · exact Or.inl (by simp)
      · exact Or.inr (Or.inl (by simp))
    · exact Or.inr (Or.inr (by simp))
  refine triple_bind (ex_paramsCtxt (by intro s h; exact hgone _ s h rfl rfl rfl rfl)) (fun x => ?_)
  refine triple_bind (ex_expectNode _ (by intro s h; exact hgone _ s h rfl rfl rfl rfl)) (fun _ => ?_)
  refine triple_bind (ex_subOp (by intro s h; exact hgone _ s h rfl rfl rfl rfl)) (fun _ => ?_)
  refine triple_bind (ex_expectNode _ (by intro s h; exact hgone _ s h rfl rfl rfl rfl)) (fun _ => ?_)
  refine triple_bind (ex_subOp (by intro s h; exact hgone _ s h rfl rfl rfl rfl)) (fun _ => ?_)
  refine triple_conseq (ex_subOp (by intro s h; exact hgone _ s h rfl rfl rfl rfl)) (fun _ h => h) ?_
    (fun _ h => h)
  intro _ s h
  simp only [hflag, if_true]
  exact h

/-! ### Invariant 3: the device-visible state is the replay of the effect trace -/

/-- since the trace `t0`, where the visible state was `v0`, the visible state is the replay of
the effects appended so far -/
def VisInv (v0 : Visible) (t0 : List Effect) (s : State) : Prop :=
  ∃ seg, s.trace = t0 ++ seg ∧ s.dev.visible = seg.foldl applyEffect v0

variable {v0 : Visible}

theorem visibleOf_append (t : List Effect) (e : Effect) :
    visibleOf (t ++ [e]) = applyEffect (visibleOf t) e := by
  simp [visibleOf, List.foldl_append]

theorem applyEffect_fail (v : Visible) (k : Sub) (o : Out) (h : o ≠ .ok) :
    applyEffect v ⟨k, o⟩ = v := by
  cases o <;> simp_all [applyEffect]

theorem vis_subOp {env : Env} {k : Sub} {no : Bool} {onFail : Out → Err} {upd fu : Dev → Dev}
    (hu : ∀ d, (upd d).visible = applyEffect d.visible ⟨k, .ok⟩)
    (hf : ∀ d, (fu d).visible = d.visible) :
    Triple (VisInv v0 t0) (subOp env k no onFail upd fu) (fun _ => (VisInv v0 t0)) (VisInv v0 t0) := by
  apply triple_subOp
  · rintro s ⟨seg, ht, hv⟩ _
    refine ⟨seg ++ [⟨k, .ok⟩], by simp [okSt, ht], ?_⟩
    simp only [okSt, List.foldl_append, List.foldl_cons, List.foldl_nil, hu, hv]
  · rintro s ⟨seg, ht, hv⟩ ho
    refine ⟨seg ++ [⟨k, outcome env no s⟩], by simp [failSt, ht], ?_⟩
    simp only [failSt, List.foldl_append, List.foldl_cons, List.foldl_nil, hf,
      applyEffect_fail _ _ _ ho, hv]

theorem vis_paramsCtxt : Triple (VisInv v0 t0) paramsCtxt (fun _ => (VisInv v0 t0)) (VisInv v0 t0) :=
  triple_paramsCtxt (fun _ _ h _ => h) (fun _ h _ => h)

theorem vis_expectNode (b : Bool) : Triple (VisInv v0 t0) (expectNode b) (fun _ => (VisInv v0 t0)) (VisInv v0 t0) := by
  unfold expectNode
  exact triple_ite (fun _ => triple_pure (fun _ h => h)) (fun _ => triple_throw (fun _ h => h))

theorem loopStopUpd_visible (env : Env) (d : Dev) : (loopStopUpd env d).visible = d.visible := by
  unfold loopStopUpd
  cases env.handle <;> simp only [Dev.visible] <;> split <;> rfl

theorem loopStopFail_visible (env : Env) (d : Dev) : (loopStopFail env d).visible = d.visible := by
  unfold loopStopFail
  cases env.handle <;> simp only [Dev.visible] <;> split <;> rfl

theorem vis_loopStopOp (env : Env) :
    Triple (VisInv v0 t0) (loopStopOp env) (fun _ => (VisInv v0 t0)) (VisInv v0 t0) := by
  unfold loopStopOp
  apply triple_getDev_bind
  intro d
  exact triple_conseq (P := VisInv v0 t0)
    (vis_subOp (by intro d; simp [loopStopUpd_visible, applyEffect]) (loopStopFail_visible env))
    (fun _ h => h.1) (fun _ _ h => h) (fun _ h => h)

theorem vis_loopStartOp (env : Env) (cap : Nat) :
    Triple (VisInv v0 t0) (loopStartOp env cap) (fun _ => (VisInv v0 t0)) (VisInv v0 t0) := by
  unfold loopStartOp
  refine triple_bind (vis_subOp (by intro d; simp [Dev.visible, applyEffect]) (by intro d; simp [Dev.visible]))
    (fun _ => ?_)
  apply triple_getDev_bind
  intro d
  refine triple_ite (fun _ => triple_throw (fun _ h => h.1)) (fun _ => triple_modify ?_)
  rintro s ⟨⟨seg, ht, hv⟩, _⟩
  exact ⟨seg, ht, hv⟩

theorem vis_stopStreaming (env : Env) :
    Triple (VisInv v0 t0) (stopStreaming env) (fun _ => (VisInv v0 t0)) (VisInv v0 t0) := by
  unfold stopStreaming
  apply triple_getDev_bind
  intro d
  refine triple_ite (fun _ => triple_pure (fun _ h => h.1)) (fun _ => ?_)
  refine triple_conseq (P := (VisInv v0 t0)) ?_ (fun _ h => h.1) (fun _ _ h => h) (fun _ h => h)
  refine triple_bind (vis_loopStopOp env) (fun _ => ?_)
  refine triple_bind vis_paramsCtxt (fun x => ?_)
  refine triple_bind (vis_expectNode _) (fun _ => ?_)
  refine triple_bind (vis_subOp (by intro d; simp [Dev.visible, applyEffect]) (by intro d; simp [Dev.visible])) (fun _ => ?_)
  refine triple_bind (vis_expectNode _) (fun _ => ?_)
  refine triple_bind (vis_subOp (by intro d; simp [Dev.visible, applyEffect]) (by intro d; simp [Dev.visible])) (fun _ => ?_)
  exact vis_subOp (by intro d; simp [Dev.visible, applyEffect]) (by simp)

theorem vis_call (env : Env) (op : Op) : Triple (VisInv v0 t0) (call env op) (fun _ => (VisInv v0 t0)) (VisInv v0 t0) := by
  cases op with
  | «open» =>
    exact triple_handlePair (vis_subOp (by intro d; simp [Dev.visible, applyEffect]) (by intro d; simp [Dev.visible]))
      (triple_strmOpenOp (fun _ =>
        vis_subOp (by intro d; simp [Dev.visible, applyEffect]) (by intro d; simp [Dev.visible])))
  | load =>
    refine triple_bind (R := fun _ => (VisInv v0 t0)) ?_ (fun x => ?_)
    · exact triple_bind (vis_subOp (by intro d; simp [Dev.visible, applyEffect]) (by intro d; simp [Dev.visible]))
        (fun _ => triple_pure (fun _ h => h))
    · exact triple_ite (fun _ => triple_modify (fun _ h => h)) (fun _ => triple_throw (fun _ h => h))
  | start cap =>
    show Triple (VisInv v0 t0) (startStreaming env cap) _ _
    unfold startStreaming
    apply triple_getDev_bind
    intro d
    refine triple_ite (fun _ => triple_throw (fun _ h => h.1)) (fun _ => ?_)
    refine triple_ite (fun _ => triple_throw (fun _ h => h.1)) (fun _ => ?_)
    refine triple_ite (fun _ => triple_panic (fun _ h => h.1)) (fun _ => ?_)
    refine triple_conseq (P := (VisInv v0 t0)) ?_ (fun _ h => h.1) (fun _ _ h => h) (fun _ h => h)
    refine triple_bind (vis_subOp (by intro d; simp [Dev.visible, applyEffect]) (by intro d; simp [Dev.visible])) (fun _ => ?_)
    refine triple_bind vis_paramsCtxt (fun x => ?_)
    refine triple_bind (vis_expectNode _) (fun _ => ?_)
    refine triple_bind (vis_subOp (by intro d; simp [Dev.visible, applyEffect]) (by intro d; simp [Dev.visible])) (fun _ => ?_)
    refine triple_bind (vis_expectNode _) (fun _ => ?_)
    refine triple_bind (vis_subOp (by intro d; simp [Dev.visible, applyEffect]) (by intro d; simp [Dev.visible])) (fun _ => ?_)
    exact vis_loopStartOp env cap
  | stop => exact vis_stopStreaming env
  | close =>
    refine triple_bind (vis_stopStreaming env) (fun _ => ?_)
    refine triple_bind (triple_handlePair
      (vis_subOp (by intro d; simp [Dev.visible, applyEffect]) (by intro d; simp [Dev.visible]))
      (vis_subOp (by intro d; simp [Dev.visible, applyEffect]) (by intro d; simp [Dev.visible]))) (fun _ => ?_)
    exact triple_modify (fun _ h => h)
  | param =>
    refine triple_bind (R := fun _ => (VisInv v0 t0)) vis_paramsCtxt (fun _ => ?_)
    apply triple_getDev_bind
    intro d
    refine triple_ite (fun _ => triple_pure (fun _ h => h.1)) (fun _ => ?_)
    exact triple_conseq (vis_subOp (by intro d; simp [Dev.visible, applyEffect]) (by intro d; simp [Dev.visible]))
      (fun _ h => h.1) (fun _ _ h => h) (fun _ h => h)
  | gate v =>
    exact triple_bind (R := fun _ => (VisInv v0 t0)) vis_paramsCtxt
      (fun _ => vis_subOp (by intro d; simp [Dev.visible, applyEffect]) (by intro d; simp [Dev.visible]))

theorem vis_runOps (env : Env) (ops : List Op) (s : State) (h : (VisInv v0 t0) s) :
    (VisInv v0 t0) (runOps env ops s) := by
  induction ops generalizing s with
  | nil => exact h
  | cons op ops ih => exact ih _ (triple_snd (vis_call env op) h)

/-! ### Invariant 4: the whole trace is protocol-ordered -/

def Ends (t c : List Effect) : Prop := ∃ p, t = p ++ c

theorem ends_nil (t : List Effect) : Ends t [] := ⟨t, by simp⟩

theorem ordered_snoc {t : List Effect} {e : Effect} (h : ProtocolOrdered t)
    (he : Ends t (requiredBefore e.sub)) : ProtocolOrdered (t ++ [e]) := by
  intro pre e' post heq
  -- compare the two decompositions from the right
  have hrev : e :: t.reverse = post.reverse ++ e' :: pre.reverse := by
    have := congrArg List.reverse heq
    simpa using this
  cases hpost : post.reverse with
  | nil =>
    rw [hpost] at hrev
    simp only [List.nil_append, List.cons.injEq] at hrev
    have hp : t = pre := by simpa using congrArg List.reverse hrev.2
    rw [← hrev.1, ← hp]
    exact he
  | cons x xs =>
    rw [hpost] at hrev
    simp only [List.cons_append, List.cons.injEq] at hrev
    have ht : t = pre ++ e' :: xs.reverse := by
      have := congrArg List.reverse hrev.2
      simpa using this
    exact h pre e' xs.reverse ht

/-- trace is protocol-ordered and currently ends with `c` -/
def OrdP (c : List Effect) (s : State) : Prop := ProtocolOrdered s.trace ∧ Ends s.trace c

theorem ordP_weaken {c : List Effect} : ∀ s, OrdP c s → OrdP [] s :=
  fun _ h => ⟨h.1, ends_nil _⟩

theorem ord_subOp {env : Env} {k : Sub} {no : Bool} {onFail : Out → Err} {upd fu : Dev → Dev}
    {c : List Effect} (hreq : ∃ c0, c = c0 ++ requiredBefore k) :
    Triple (OrdP c) (subOp env k no onFail upd fu) (fun _ => OrdP (c ++ [⟨k, .ok⟩])) (OrdP []) := by
  obtain ⟨c0, hc0⟩ := hreq
  have hends : ∀ s, OrdP c s → Ends s.trace (requiredBefore k) := by
    rintro s ⟨_, p, hp⟩
    exact ⟨p ++ c0, by rw [hp, hc0, List.append_assoc]⟩
  apply triple_subOp
  · intro s hP _
    refine ⟨ordered_snoc hP.1 (hends s hP), ?_⟩
    obtain ⟨p, hp⟩ := hP.2
    exact ⟨p, by simp [okSt, hp]⟩
  · intro s hP _
    exact ⟨ordered_snoc hP.1 (hends s hP), ends_nil _⟩

theorem ord_paramsCtxt {c : List Effect} :
    Triple (OrdP c) paramsCtxt (fun _ => OrdP c) (OrdP []) :=
  triple_paramsCtxt (fun _ _ h _ => h) (fun s h _ => ordP_weaken s h)

theorem ord_expectNode {c : List Effect} (b : Bool) :
    Triple (OrdP c) (expectNode b) (fun _ => OrdP c) (OrdP []) := by
  unfold expectNode
  exact triple_ite (fun _ => triple_pure (fun _ h => h)) (fun _ => triple_throw ordP_weaken)

/-- a sub-operation with no protocol requirement, as an invariant step -/
theorem ord_free_subOp {env : Env} {k : Sub} {no : Bool} {onFail : Out → Err} {upd fu : Dev → Dev}
    (hk : requiredBefore k = []) :
    Triple (OrdP []) (subOp env k no onFail upd fu) (fun _ => OrdP []) (OrdP []) :=
  triple_conseq (ord_subOp (c := []) ⟨[], by rw [hk]; rfl⟩) (fun _ h => h) (fun _ => ordP_weaken)
    (fun _ h => h)

theorem ord_loopStopOp {env : Env} {c : List Effect} :
    Triple (OrdP c) (loopStopOp env) (fun _ => OrdP (c ++ [⟨.loopStop, .ok⟩])) (OrdP []) := by
  unfold loopStopOp
  apply triple_getDev_bind
  intro d
  exact triple_conseq (P := OrdP c) (ord_subOp ⟨c, by simp [requiredBefore]⟩) (fun _ h => h.1)
    (fun _ _ h => h) (fun _ h => h)

theorem ord_loopStartOp {env : Env} {cap : Nat} {c : List Effect}
    (hreq : ∃ c0, c = c0 ++ requiredBefore .loopStart) :
    Triple (OrdP c) (loopStartOp env cap) (fun _ => OrdP (c ++ [⟨.loopStart, .ok⟩])) (OrdP []) := by
  unfold loopStartOp
  refine triple_bind (ord_subOp hreq) (fun _ => ?_)
  apply triple_getDev_bind
  intro d
  refine triple_ite (fun _ => triple_throw (fun s h => ordP_weaken s h.1)) (fun _ => triple_modify ?_)
  rintro s ⟨h, _⟩
  exact h

theorem ord_stopStreaming (env : Env) :
    Triple (OrdP []) (stopStreaming env) (fun _ => OrdP []) (OrdP []) := by
  unfold stopStreaming
  apply triple_getDev_bind
  intro d
  refine triple_ite (fun _ => triple_pure (fun _ h => h.1)) (fun _ => ?_)
  refine triple_conseq (P := OrdP []) ?_ (fun _ h => h.1) (fun _ _ h => h) (fun _ h => h)
  refine triple_bind ord_loopStopOp (fun _ => ?_)
  refine triple_bind ord_paramsCtxt (fun x => ?_)
  refine triple_bind (ord_expectNode _) (fun _ => ?_)
  refine triple_bind (ord_subOp ⟨[], rfl⟩) (fun _ => ?_)
  refine triple_bind (ord_expectNode _) (fun _ => ?_)
  refine triple_bind (ord_subOp ⟨[], rfl⟩) (fun _ => ?_)
  exact triple_conseq (ord_subOp ⟨[], rfl⟩) (fun _ h => h) (fun _ => ordP_weaken) (fun _ h => h)

theorem ord_call (env : Env) (op : Op) :
    Triple (OrdP []) (call env op) (fun _ => OrdP []) (OrdP []) := by
  cases op with
  | «open» => exact triple_handlePair (ord_free_subOp rfl) (triple_strmOpenOp (fun _ => ord_free_subOp rfl))
  | load =>
    refine triple_bind (R := fun _ => OrdP []) ?_ (fun x => ?_)
    · exact triple_bind (ord_free_subOp rfl) (fun _ => triple_pure (fun _ h => h))
    · exact triple_ite (fun _ => triple_modify (fun _ h => h)) (fun _ => triple_throw (fun _ h => h))
  | start cap =>
    show Triple (OrdP []) (startStreaming env cap) _ _
    unfold startStreaming
    apply triple_getDev_bind
    intro d
    refine triple_ite (fun _ => triple_throw (fun _ h => h.1)) (fun _ => ?_)
    refine triple_ite (fun _ => triple_throw (fun _ h => h.1)) (fun _ => ?_)
    refine triple_ite (fun _ => triple_panic (fun _ h => h.1)) (fun _ => ?_)
    refine triple_conseq (P := OrdP []) ?_ (fun _ h => h.1) (fun _ _ h => h) (fun _ h => h)
    refine triple_bind (ord_subOp ⟨[], rfl⟩) (fun _ => ?_)
    refine triple_bind ord_paramsCtxt (fun x => ?_)
    refine triple_bind (ord_expectNode _) (fun _ => ?_)
    refine triple_bind (ord_subOp ⟨[], rfl⟩) (fun _ => ?_)
    refine triple_bind (ord_expectNode _) (fun _ => ?_)
    refine triple_bind (ord_subOp ⟨[], rfl⟩) (fun _ => ?_)
    exact triple_conseq (ord_loopStartOp ⟨[], rfl⟩) (fun _ h => h) (fun _ => ordP_weaken) (fun _ h => h)
  | stop => exact ord_stopStreaming env
  | close =>
    refine triple_bind (ord_stopStreaming env) (fun _ => ?_)
    refine triple_bind (triple_handlePair (ord_free_subOp rfl) (ord_free_subOp rfl)) (fun _ => ?_)
    exact triple_modify (fun _ h => h)
  | param =>
    refine triple_bind (R := fun _ => OrdP []) ord_paramsCtxt (fun _ => ?_)
    apply triple_getDev_bind
    intro d
    refine triple_ite (fun _ => triple_pure (fun _ h => h.1)) (fun _ => ?_)
    exact triple_conseq (ord_free_subOp rfl) (fun _ h => h.1) (fun _ _ h => h) (fun _ h => h)
  | gate v =>
    exact triple_bind (R := fun _ => OrdP []) ord_paramsCtxt (fun _ => ord_free_subOp rfl)

theorem ord_runOps (env : Env) (ops : List Op) (s : State) (h : OrdP [] s) :
    OrdP [] (runOps env ops s) := by
  induction ops generalizing s with
  | nil => exact h
  | cons op ops ih => exact ih _ (triple_snd (ord_call env op) h)

theorem ord_init : OrdP [] State.init := by
  refine ⟨?_, ends_nil _⟩
  intro pre e post h
  simp [State.init] at h

/-! ### Growth round: cache after close, nothing after a failed step -/

theorem triple_trivial {α : Type} {P : State → Prop} {m : M α} :
    Triple P m (fun _ _ => True) (fun _ => True) :=
  fun _ _ => ⟨fun _ _ _ => trivial, fun _ _ _ => trivial, fun _ _ => trivial⟩

/-- whatever `close` did before (incl. the stop sequence, whose writes populate the cache), its
last action on success empties the cache -/
theorem cache_closeCam (env : Env) :
    Triple (fun _ => True) (closeCam env) (fun _ s => s.dev.cache = Cache.empty) (fun _ => True) := by
  unfold closeCam
  refine triple_bind (R := fun _ _ => True) triple_trivial (fun _ => ?_)
  refine triple_bind (R := fun _ _ => True) triple_trivial (fun _ => ?_)
  exact triple_modify (fun _ _ => rfl)

/-- the last element of a list written in two ways -/
theorem last_eq_of_append_eq {α : Type} {pre p l : List α} {e c : α}
    (h : pre ++ [e] = p ++ (l ++ [c])) : e = c := by
  have := congrArg List.reverse h
  simp only [List.reverse_append, List.reverse_cons, List.reverse_nil, List.nil_append,
    List.cons_append, List.cons.injEq] at this
  exact this.1

/-- every non-empty `requiredBefore` list ends with a successful effect -/
theorem requiredBefore_last_ok (k : Sub) (h : requiredBefore k ≠ []) :
    ∃ l c, requiredBefore k = l ++ [c] ∧ c.out = .ok := by
  unfold requiredBefore at *
  split at h <;> first
    | exact absurd rfl h
    | exact ⟨_, _, (List.dropLast_concat_getLast (by simp)).symm, by simp⟩

/-! ### Growth round: the `u3v::StreamHandle` instance with loop deaths -/

/-- what holds of the `u3v` handle in every history, loop deaths included: at most one loop
thread is alive, and a live loop is always reported by the flag -/
def U3vInv (d : Dev) : Prop := d.loops ≤ 1 ∧ (d.loops = 1 → d.loopFlag = true)

/-- assertions on (flag, live loops) only -/
def DV (p : Bool → Nat → Prop) (s : State) : Prop := p s.dev.loopFlag s.dev.loops

def qInv : Bool → Nat → Prop := fun f n => n ≤ 1 ∧ (n = 1 → f = true)
def qIdle : Bool → Nat → Prop := fun f n => f = false ∧ n = 0
def qHeld : Bool → Nat → Prop := fun f n => f = true ∧ n ≤ 1

theorem qInv_of_idle {s : State} (h : DV qIdle s) : DV qInv s := by
  obtain ⟨h1, h2⟩ := h
  simp [DV, qInv, h1, h2]

theorem dv_subOp {env : Env} {k : Sub} {no : Bool} {onFail : Out → Err} {upd fu : Dev → Dev}
    {p : Bool → Nat → Prop} {E : State → Prop}
    (hu : ∀ d, (upd d).loopFlag = d.loopFlag ∧ (upd d).loops = d.loops)
    (hf : ∀ d, (fu d).loopFlag = d.loopFlag ∧ (fu d).loops = d.loops)
    (hE : ∀ s, DV p s → E s) :
    Triple (DV p) (subOp env k no onFail upd fu) (fun _ => DV p) E := by
  apply triple_subOp
  · intro s hP _
    simp only [DV, okSt, (hu s.dev).1, (hu s.dev).2]
    exact hP
  · intro s hP _
    apply hE
    simp only [DV, failSt, (hf s.dev).1, (hf s.dev).2]
    exact hP

theorem dv_paramsCtxt {p : Bool → Nat → Prop} {E : State → Prop} (hE : ∀ s, DV p s → E s) :
    Triple (DV p) paramsCtxt (fun _ => DV p) E :=
  triple_paramsCtxt (fun _ _ h _ => h) (fun s h _ => hE s h)

theorem dv_expectNode {p : Bool → Nat → Prop} {E : State → Prop} (b : Bool)
    (hE : ∀ s, DV p s → E s) : Triple (DV p) (expectNode b) (fun _ => DV p) E := by
  unfold expectNode
  exact triple_ite (fun _ => triple_pure (fun _ h => h)) (fun _ => triple_throw hE)

theorem u3v_startStreaming (env : Env) (cap : Nat) :
    Triple (DV qInv) (startStreaming env cap) (fun _ => DV qInv) (DV qInv) := by
  unfold startStreaming
  apply triple_getDev_bind
  intro d
  refine triple_ite (fun _ => triple_throw (fun _ h => h.1)) (fun hflag => ?_)
  refine triple_ite (fun _ => triple_throw (fun _ h => h.1)) (fun _ => ?_)
  refine triple_ite (fun _ => triple_panic (fun _ h => h.1)) (fun _ => ?_)
  have hpre : ∀ s, (DV qInv s ∧ s.dev = d) → DV qIdle s := by
    rintro s ⟨⟨h1, h2⟩, rfl⟩
    simp only [Bool.not_eq_true] at hflag
    refine ⟨hflag, ?_⟩
    rcases Nat.lt_or_ge s.dev.loops 1 with h | h
    · omega
    · have : s.dev.loops = 1 := by omega
      rw [h2 this] at hflag
      cases hflag
  refine triple_conseq (P := DV qIdle) ?_ hpre (fun _ _ h => h) (fun _ h => h)
  have hE : ∀ s, DV qIdle s → DV qInv s := fun _ h => qInv_of_idle h
  refine triple_bind (dv_subOp (by simp) (by simp) hE) (fun _ => ?_)
  refine triple_bind (dv_paramsCtxt hE) (fun x => ?_)
  refine triple_bind (dv_expectNode _ hE) (fun _ => ?_)
  refine triple_bind (dv_subOp (by simp) (by simp) hE) (fun _ => ?_)
  refine triple_bind (dv_expectNode _ hE) (fun _ => ?_)
  refine triple_bind (dv_subOp (by simp) (by simp) hE) (fun _ => ?_)
  unfold loopStartOp
  refine triple_bind (dv_subOp (by simp) (by simp) hE) (fun _ => ?_)
  apply triple_getDev_bind
  intro d1
  refine triple_ite (fun _ => triple_throw (fun s h => hE s h.1)) (fun _ => triple_modify ?_)
  rintro s ⟨⟨_, h2⟩, _⟩
  simp [DV, qInv, h2]

theorem u3v_stopStreaming (env : Env) (hh : env.handle = .u3v) :
    Triple (DV qInv) (stopStreaming env) (fun _ => DV qInv) (DV qInv) := by
  unfold stopStreaming
  apply triple_getDev_bind
  intro d
  refine triple_ite (fun _ => triple_pure (fun _ h => h.1)) (fun hflag => ?_)
  simp only [Bool.not_eq_true, Bool.not_eq_false'] at hflag
  have hpre : ∀ s, (DV qInv s ∧ s.dev = d) → DV qHeld s := by
    rintro s ⟨⟨h1, _⟩, rfl⟩
    exact ⟨hflag, h1⟩
  refine triple_conseq (P := DV qHeld) ?_ hpre (fun _ _ h => h) (fun _ h => h)
  have hE : ∀ s, DV qIdle s → DV qInv s := fun _ h => qInv_of_idle h
  refine triple_bind (R := fun _ => DV qIdle) ?_ (fun _ => ?_)
  · unfold loopStopOp
    apply triple_getDev_bind
    intro d1
    apply triple_subOp
    · rintro s ⟨⟨h1, h2⟩, rfl⟩ _
      simp only [DV, qIdle, okSt, loopStopUpd, hh, h1, if_true]
      exact ⟨trivial, by omega⟩
    · rintro s ⟨⟨h1, h2⟩, rfl⟩ ho
      apply hE
      rw [outcome_stopEnv_u3v hh] at ho
      have h0 : s.dev.loops = 0 := by
        by_cases hz : s.dev.loops = 0
        · exact hz
        · simp [h1, hz] at ho
      simp only [DV, qIdle, failSt, loopStopFail, hh, h0]
      exact ⟨trivial, trivial⟩
  refine triple_bind (dv_paramsCtxt hE) (fun x => ?_)
  refine triple_bind (dv_expectNode _ hE) (fun _ => ?_)
  refine triple_bind (dv_subOp (by simp) (by simp) hE) (fun _ => ?_)
  refine triple_bind (dv_expectNode _ hE) (fun _ => ?_)
  refine triple_bind (dv_subOp (by simp) (by simp) hE) (fun _ => ?_)
  exact triple_conseq (dv_subOp (by simp) (by simp) hE) (fun _ h => h) (fun _ _ h => hE _ h)
    (fun _ h => h)

theorem u3v_frame {env : Env} {k : Sub} {no : Bool} {onFail : Out → Err} {upd fu : Dev → Dev}
    (hu : ∀ d, (upd d).loopFlag = d.loopFlag ∧ (upd d).loops = d.loops)
    (hf : ∀ d, (fu d).loopFlag = d.loopFlag ∧ (fu d).loops = d.loops) :
    Triple (DV qInv) (subOp env k no onFail upd fu) (fun _ => DV qInv) (DV qInv) :=
  dv_subOp hu hf (fun _ h => h)

theorem u3v_call (env : Env) (hh : env.handle = .u3v) (op : Op) :
    Triple (DV qInv) (call env op) (fun _ => DV qInv) (DV qInv) := by
  cases op with
  | «open» =>
    exact triple_handlePair (u3v_frame (by simp) (by simp))
      (triple_strmOpenOp (fun _ => u3v_frame (by simp) (by simp)))
  | load =>
    refine triple_bind (R := fun _ => DV qInv) ?_ (fun x => ?_)
    · exact triple_bind (u3v_frame (by simp) (by simp)) (fun _ => triple_pure (fun _ h => h))
    · exact triple_ite (fun _ => triple_modify (fun _ h => h)) (fun _ => triple_throw (fun _ h => h))
  | start cap => exact u3v_startStreaming env cap
  | stop => exact u3v_stopStreaming env hh
  | close =>
    refine triple_bind (u3v_stopStreaming env hh) (fun _ => ?_)
    refine triple_bind (triple_handlePair (u3v_frame (by simp) (by simp))
      (u3v_frame (by simp) (by simp))) (fun _ => ?_)
    exact triple_modify (fun _ h => h)
  | param =>
    refine triple_bind (R := fun _ => DV qInv)
      (triple_paramsCtxt (fun _ _ h _ => h) (fun _ h _ => h)) (fun _ => ?_)
    apply triple_getDev_bind
    intro d
    refine triple_ite (fun _ => triple_pure (fun _ h => h.1)) (fun _ => ?_)
    exact triple_conseq (u3v_frame (by simp) (by simp)) (fun _ h => h.1) (fun _ _ h => h) (fun _ h => h)
  | gate v =>
    exact triple_bind (R := fun _ => DV qInv)
      (triple_paramsCtxt (fun _ _ h _ => h) (fun _ h _ => h))
      (fun _ => u3v_frame (by simp) (by simp))

theorem u3v_stepEv (env : Env) (hh : env.handle = .u3v) (ev : Ev) (s : State) (h : DV qInv s) :
    DV qInv (stepEv env ev s).2 := by
  cases ev with
  | call op => exact triple_snd (u3v_call env hh op) h
  | loopDies =>
    obtain ⟨h1, h2⟩ := h
    simp only [stepEv, loopDies, hh, modifyDev, DV, qInv]
    split
    · exact ⟨by simp only; omega, fun hc => by simp only at hc; omega⟩
    · exact ⟨h1, h2⟩

theorem u3v_runEvs (env : Env) (hh : env.handle = .u3v) (evs : List Ev) (s : State)
    (h : DV qInv s) : DV qInv (runEvs env evs s) := by
  induction evs generalizing s with
  | nil => exact h
  | cons ev evs ih => exact ih _ (u3v_stepEv env hh ev s h)

/-- without loop deaths the full `LoopInv` is kept (either handle) -/
theorem loopInv_runEvs (env : Env) (evs : List Ev) (hnd : ∀ ev ∈ evs, ev ≠ Ev.loopDies) (s : State)
    (h : LoopInv env.stopFailKills s) : LoopInv env.stopFailKills (runEvs env evs s) := by
  induction evs generalizing s with
  | nil => exact h
  | cons ev evs ih =>
    cases ev with
    | call op =>
      exact ih (fun e he => hnd e (List.mem_cons_of_mem _ he)) _ (triple_snd (loopInv_call env op) h)
    | loopDies => exact absurd rfl (hnd _ (List.mem_cons_self ..))

/-! ### Growth round: which error a call returns (triples whose error postcondition sees the error) -/

def TripleE {α : Type} (P : State → Prop) (m : M α) (Q : α → State → Prop)
    (E : Err → State → Prop) : Prop :=
  ∀ s, P s → (∀ a s', m s = (.ok a, s') → Q a s') ∧ (∀ e s', m s = (.err e, s') → E e s')

theorem tripleE_pure {α : Type} {P : State → Prop} {a : α} {Q : α → State → Prop}
    {E : Err → State → Prop} (h : ∀ s, P s → Q a s) : TripleE P (pure a : M α) Q E := by
  intro s hs
  refine ⟨fun a' s' he => ?_, fun e s' he => ?_⟩ <;>
    simp only [pure_apply, Prod.mk.injEq, Res.ok.injEq, reduceCtorEq, false_and] at he
  obtain ⟨rfl, rfl⟩ := he
  exact h s hs

theorem tripleE_throw {α : Type} {P : State → Prop} {e : Err} {Q : α → State → Prop}
    {E : Err → State → Prop} (h : ∀ s, P s → E e s) : TripleE P (throwErr e : M α) Q E := by
  intro s hs
  refine ⟨fun a' s' he => ?_, fun e' s' he => ?_⟩ <;>
    simp only [throwErr, Prod.mk.injEq, Res.err.injEq, reduceCtorEq, false_and] at he
  obtain ⟨rfl, rfl⟩ := he
  exact h s hs

theorem tripleE_panic {α : Type} {P : State → Prop} {Q : α → State → Prop}
    {E : Err → State → Prop} : TripleE P (panicM : M α) Q E := by
  intro s _
  refine ⟨fun a' s' he => ?_, fun e' s' he => ?_⟩ <;>
    simp only [panicM, Prod.mk.injEq, reduceCtorEq, false_and] at he

theorem tripleE_modify {P : State → Prop} {f : Dev → Dev} {Q : Unit → State → Prop}
    {E : Err → State → Prop} (h : ∀ s, P s → Q () { s with dev := f s.dev }) :
    TripleE P (modifyDev f) Q E := by
  intro s hs
  refine ⟨fun a' s' he => ?_, fun e s' he => ?_⟩ <;>
    simp only [modifyDev, Prod.mk.injEq, reduceCtorEq, false_and, true_and] at he
  subst he
  exact h s hs

theorem tripleE_paramsCtxt {P : State → Prop} {Q : Xml → State → Prop} {E : Err → State → Prop}
    (hs : ∀ s x, P s → s.dev.ctxt = some x → Q x s)
    (hn : ∀ s, P s → s.dev.ctxt = none → E .ctxtMissing s) : TripleE P paramsCtxt Q E := by
  intro s hP
  unfold paramsCtxt
  cases hc : s.dev.ctxt with
  | none =>
    refine ⟨fun a' s' he => ?_, fun e s' he => ?_⟩ <;>
      simp only [Prod.mk.injEq, Res.err.injEq, reduceCtorEq, false_and] at he
    obtain ⟨rfl, rfl⟩ := he
    exact hn s hP hc
  | some x =>
    refine ⟨fun a' s' he => ?_, fun e s' he => ?_⟩ <;>
      simp only [Prod.mk.injEq, Res.ok.injEq, reduceCtorEq, false_and] at he
    obtain ⟨rfl, rfl⟩ := he
    exact hs s x hP hc

theorem tripleE_subOp {env : Env} {k : Sub} {no : Bool} {onFail : Out → Err} {upd fu : Dev → Dev}
    {P : State → Prop} {Q : Unit → State → Prop} {E : Err → State → Prop}
    (hok : ∀ s, P s → outcome env no s = .ok → Q () (okSt k upd s))
    (hfail : ∀ s, P s → outcome env no s ≠ .ok →
      E (onFail (outcome env no s)) (failSt k (outcome env no s) fu s)) :
    TripleE P (subOp env k no onFail upd fu) Q E := by
  intro s hP
  by_cases ho : outcome env no s = .ok
  · rw [subOp_ok ho]
    refine ⟨fun a' s' he => ?_, fun e s' he => ?_⟩ <;>
      simp only [Prod.mk.injEq, reduceCtorEq, false_and, true_and] at he
    subst he
    exact hok s hP ho
  · rw [subOp_fail ho]
    refine ⟨fun a' s' he => ?_, fun e s' he => ?_⟩ <;>
      simp only [Prod.mk.injEq, Res.err.injEq, reduceCtorEq, false_and] at he
    obtain ⟨rfl, rfl⟩ := he
    exact hfail s hP ho

theorem tripleE_bind {α β : Type} {P : State → Prop} {m : M α} {f : α → M β}
    {R : α → State → Prop} {Q : β → State → Prop} {E : Err → State → Prop}
    (h1 : TripleE P m R E) (h2 : ∀ a, TripleE (R a) (f a) Q E) : TripleE P (m >>= f) Q E := by
  intro s hP
  obtain ⟨hok, herr⟩ := h1 s hP
  rcases hm : m s with ⟨r, s1⟩
  cases r with
  | ok a =>
    rw [bind_of_ok hm]
    exact h2 a s1 (hok a s1 hm)
  | err e =>
    rw [bind_of_err hm]
    refine ⟨fun a' s' he => ?_, fun e' s' he => ?_⟩ <;>
      simp only [Prod.mk.injEq, Res.err.injEq, reduceCtorEq, false_and] at he
    obtain ⟨rfl, rfl⟩ := he
    exact herr e s1 hm
  | panic =>
    rw [bind_of_panic hm]
    refine ⟨fun a' s' he => ?_, fun e' s' he => ?_⟩ <;>
      simp only [Prod.mk.injEq, reduceCtorEq, false_and] at he

theorem tripleE_getDev_bind {β : Type} {P : State → Prop} {f : Dev → M β}
    {Q : β → State → Prop} {E : Err → State → Prop}
    (h : ∀ d, TripleE (fun s => P s ∧ s.dev = d) (f d) Q E) : TripleE P (getDev >>= f) Q E := by
  intro s hP
  rw [getDev_bind]
  exact h s.dev s ⟨hP, rfl⟩

theorem tripleE_ite {α : Type} {c : Prop} [Decidable c] {P : State → Prop} {m1 m2 : M α}
    {Q : α → State → Prop} {E : Err → State → Prop}
    (h1 : c → TripleE P m1 Q E) (h2 : ¬c → TripleE P m2 Q E) :
    TripleE P (if c then m1 else m2) Q E := by
  split
  · exact h1 ‹_›
  · exact h2 ‹_›

theorem tripleE_conseq {α : Type} {P P' : State → Prop} {m : M α} {Q Q' : α → State → Prop}
    {E : Err → State → Prop} (h : TripleE P m Q E) (hP : ∀ s, P' s → P s)
    (hQ : ∀ a s, Q a s → Q' a s) : TripleE P' m Q' E := by
  intro s hs
  obtain ⟨h1, h2⟩ := h s (hP s hs)
  exact ⟨fun a s' he => hQ a s' (h1 a s' he), h2⟩

/-- no loop flagged -/
def NoFlag (s : State) : Prop := s.dev.loopFlag = false
/-- the error is not the "already streaming" refusal -/
def NotInStreaming (e : Err) (_ : State) : Prop := e ≠ .inStreaming

theorem nf_subOp {env : Env} {k : Sub} {no : Bool} {onFail : Out → Err} {upd fu : Dev → Dev}
    (hu : ∀ d, (upd d).loopFlag = d.loopFlag) (he : ∀ o, onFail o ≠ .inStreaming) :
    TripleE NoFlag (subOp env k no onFail upd fu) (fun _ => NoFlag) NotInStreaming :=
  tripleE_subOp (fun s hP _ => by simp only [NoFlag, okSt, hu]; exact hP) (fun _ _ _ => he _)

theorem nf_expectNode (b : Bool) :
    TripleE NoFlag (expectNode b) (fun _ => NoFlag) NotInStreaming := by
  unfold expectNode
  exact tripleE_ite (fun _ => tripleE_pure (fun _ h => h))
    (fun _ => tripleE_throw (fun _ _ => by simp [NotInStreaming]))

/-- `start_streaming` from a state whose flag is clear never returns the InStreaming refusal —
for the `u3v` handle too, whose own check is therefore never the one that fires -/
theorem start_not_inStreaming (env : Env) (cap : Nat) :
    TripleE NoFlag (startStreaming env cap) (fun _ _ => True) NotInStreaming := by
  unfold startStreaming
  apply tripleE_getDev_bind
  intro d
  refine tripleE_ite (fun hc => ?_) (fun _ => ?_)
  · intro s hs
    obtain ⟨h1, rfl⟩ := hs
    rw [h1] at hc
    cases hc
  refine tripleE_ite (fun _ => tripleE_throw (fun _ _ => by simp [NotInStreaming])) (fun _ => ?_)
  refine tripleE_ite (fun _ => tripleE_panic) (fun _ => ?_)
  refine tripleE_conseq (P := NoFlag) (Q := fun _ _ => True) ?_ (fun _ h => h.1) (fun _ _ h => h)
  refine tripleE_bind (nf_subOp (by simp) (by intro o; cases o <;> simp [ctrlErr])) (fun _ => ?_)
  refine tripleE_bind (R := fun _ => NoFlag)
    (tripleE_paramsCtxt (fun _ _ h _ => h) (fun _ _ _ => by simp [NotInStreaming])) (fun x => ?_)
  refine tripleE_bind (nf_expectNode _) (fun _ => ?_)
  refine tripleE_bind (nf_subOp (by simp) (by simp [nodeErr])) (fun _ => ?_)
  refine tripleE_bind (nf_expectNode _) (fun _ => ?_)
  refine tripleE_bind (nf_subOp (by simp) (by simp [nodeErr])) (fun _ => ?_)
  unfold loopStartOp
  refine tripleE_bind (nf_subOp (by simp) (by simp)) (fun _ => ?_)
  apply tripleE_getDev_bind
  intro d1
  refine tripleE_ite (fun hc => ?_) (fun _ => tripleE_modify (fun _ _ => trivial))
  intro s hs
  obtain ⟨h1, rfl⟩ := hs
  rw [h1] at hc
  exact absurd hc.2 (by simp)

end CamVerif.Camera
