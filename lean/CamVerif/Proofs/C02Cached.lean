/-
C02 with caching ON, by composition with C04's cache model (`CamVerif.Model.Cache`,
`CamVerif.Props.C04`; imported, not edited).

* `sibGraph`: the description the statement's quantifier talks about — one port and any
  number of bit fields of ONE register (same address, length, byte order; any sign, mask,
  caching mode per field), every field naming all its siblings as `pInvalidator`.
* `sibGraph_declared`: every such description satisfies C04's `Declared`.
* `siblings_cached_transparent`: hence (C04's `sim`, `log_sub_writes`) for every device
  (image, rejection plan) and every history of reads and writes the build with the DEFAULT
  cache store returns the same results, leaves the same device bytes and issues the very same
  device writes as the build without cache.
* `cache_applyMask_is_field`: C04's field extraction is the independent codec's
  `Spec.Codec.fieldU / fieldS`, the same reference the uncached C02 theorems are tied to.
-/
import CamVerif.Props.C04
import CamVerif.Spec.Codec
namespace CamVerif.Proofs.C02Cached
open CamVerif CamVerif.Cache CamVerif.C04 CamVerif.Spec.Codec

/-- one sibling: sign, raw LSB, raw MSB, caching mode -/
structure SibField where
  s : Cache.Sign
  lsb : Nat
  msb : Nat
  mode : Mode
  deriving Repr, DecidableEq, Inhabited

/-- node ids of the siblings of field `i` among `k` fields (the port is node 0, field `j` is
node `j+1`) -/
def sibInvs (k i : Nat) : List NodeId := ((List.range k).filter (· ≠ i)).map (· + 1)

def sibReg (base : Int) (len : Nat) (e : Cache.Endian) (k : Nat) (f : SibField) (i : Nat) : Reg :=
  ⟨.masked e f.s f.lsb f.msb, base, none, len, f.mode, .rw, sibInvs k i, 0⟩

/-- the sibling description: `Port`, then one MaskedIntReg (or StructReg entry — the same node
after parsing) per field, each listing all the others as `pInvalidator` -/
def sibGraph (base : Int) (len : Nat) (e : Cache.Endian) (fs : List SibField) : Graph :=
  .port :: fs.zipIdx.map fun fi => .reg (sibReg base len e fs.length fi.1 fi.2)

theorem sibGraph_get_zero (base : Int) (len : Nat) (e : Cache.Endian) (fs : List SibField) :
    (sibGraph base len e fs)[0]? = some .port := rfl

theorem sibGraph_get_succ (base : Int) (len : Nat) (e : Cache.Endian) (fs : List SibField) (j : Nat) :
    (sibGraph base len e fs)[j + 1]? =
      (fs[j]?).map fun f => .reg (sibReg base len e fs.length f j) := by
  simp only [sibGraph, List.getElem?_cons_succ, List.getElem?_map, List.getElem?_zipIdx]
  cases fs[j]? <;> simp

/-- every register node of the description is one of the fields -/
theorem sibGraph_reg (base : Int) (len : Nat) (e : Cache.Endian) (fs : List SibField) (t : Nat)
    (rt : Reg) (h : (sibGraph base len e fs)[t]? = some (.reg rt)) :
    ∃ j f, t = j + 1 ∧ fs[j]? = some f ∧ rt = sibReg base len e fs.length f j := by
  cases t with
  | zero => rw [sibGraph_get_zero] at h; cases h
  | succ j =>
    rw [sibGraph_get_succ] at h
    cases hf : fs[j]? with
    | none => rw [hf] at h; cases h
    | some f =>
      rw [hf] at h
      simp only [Option.map_some, Option.some.injEq, Node.reg.injEq] at h
      exact ⟨j, f, rfl, hf, h.symm⟩

/-- **sibGraph_declared**: bit fields of one register that name each other as `pInvalidator`
satisfy C04's `Declared` — for any number of fields, masks, signs, per-field caching modes,
both build profiles. -/
theorem sibGraph_declared (p : Profile) (base : Int) (len : Nat) (e : Cache.Endian)
    (fs : List SibField) : Declared p (sibGraph base len e fs) := by
  unfold Declared declaredB
  rw [List.all_eq_true]
  intro w _
  rw [List.all_eq_true]
  intro t _
  unfold pairDeclared
  cases hw : (sibGraph base len e fs)[w]? with
  | none => rfl
  | some nw =>
    cases nw with
    | reg rw =>
      cases ht : (sibGraph base len e fs)[t]? with
      | none => rfl
      | some nt =>
        cases nt with
        | reg rt =>
          obtain ⟨i, fi, rfl, hfi, rfl⟩ := sibGraph_reg base len e fs w rw hw
          obtain ⟨j, fj, rfl, hfj, rfl⟩ := sibGraph_reg base len e fs t rt ht
          simp only [Bool.or_eq_true]
          by_cases hij : i = j
          · subst hij
            left; left; right
            simp [mayOverlap, sibReg]
          · left; right
            have hi : i < fs.length := by
              have := List.getElem?_eq_some_iff.mp hfi; exact this.1
            simp only [sibReg, sibInvs, List.contains_eq_mem, List.mem_map, List.mem_filter,
              List.mem_range, decide_eq_true_eq]
            exact ⟨i, ⟨hi, by simpa using hij⟩, rfl⟩
        | _ => rfl
    | _ => rfl

/-- a history of feature / register operations only (no raw `IPort::write`) -/
def NoPortWrite (h : List Op) : Prop := ∀ n a d, Op.portWrite n a d ∉ h

theorem histOk_of_noPortWrite (g : Graph) (h : List Op) (hh : NoPortWrite h) : HistOk g h :=
  fun n a d hm => absurd hm (hh n a d)

/-- **siblings_cached_transparent**: for bit fields of one register that name each other as
`pInvalidator`, any device (image, static and dynamic rejections incl. partially applied
writes) and ANY interleaved history of `value`/`set_value`/raw `read`/`write` on the fields,
the build with the DEFAULT cache store (per-field WriteThrough / WriteAround / NoCache)
returns exactly the results of the build without cache, leaves the same bytes in the device,
and issues the very same device writes in the same order (the cached log is the uncached log
minus successful reads).  Corollary of C04's `sim` / `log_sub_writes` and `sibGraph_declared`:
whatever holds for the uncached read-modify-write — in particular sibling isolation — holds
verbatim with caching on. -/
theorem siblings_cached_transparent (p : Profile) (base : Int) (len : Nat) (e : Cache.Endian)
    (fs : List SibField) (d : Dev) (h : List Op) (hh : NoPortWrite h) :
    let g := sibGraph base len e fs
    (runHist defaultCache p g (initDefault g d) h).1 = (runHist sinkCache p g (initSink d) h).1 ∧
    (runHist defaultCache p g (initDefault g d) h).2.dev.mem =
      (runHist sinkCache p g (initSink d) h).2.dev.mem ∧
    ((runHist defaultCache p g (initDefault g d) h).2.dev.log.filter (·.write) =
      (runHist sinkCache p g (initSink d) h).2.dev.log.filter (·.write)) := by
  intro g
  have hD := sibGraph_declared p base len e fs
  have hH := histOk_of_noPortWrite g h hh
  have h1 := sim p g hD d h hH
  have h2 := log_sub_writes p g hD d h hH
  exact ⟨h1.1, h1.2, h2.2.1⟩

/-- **cache_applyMask_is_field**: C04's field extraction is the independent codec's bit-field
reading (`fieldU`, two's complement `fieldS` when signed) of the 64-bit pattern of the
register word — the reference the uncached C02 theorems (`value_is_spec_field`) are tied to. -/
theorem cache_applyMask_is_field (x : Int) (l w : Nat) (hw : 0 < w) (s : Cache.Sign) :
    Cache.applyMask x l w s =
      (match s with
       | .signed => fieldS l (l + w - 1) (ofI64 x)
       | .unsigned => (fieldU l (l + w - 1) (ofI64 x) : Int)) := by
  have hwd : fieldWidth l (l + w - 1) = w := by unfold fieldWidth; omega
  have hf : (ofI64 x >>> l) % 2 ^ w = fieldU l (l + w - 1) (ofI64 x) := by
    unfold fieldU; rw [hwd, Nat.shiftRight_eq_div_pow]
  unfold Cache.applyMask
  simp only [hf]
  cases s
  · simp only [fieldS, hwd]
    have hp : (2 : Nat) ^ w = 2 * 2 ^ (w - 1) := by
      rw [← Nat.pow_succ']; congr 1; omega
    by_cases h : fieldU l (l + w - 1) (ofI64 x) < 2 ^ (w - 1)
    · rw [if_pos h, if_pos (by rw [hp]; omega)]
    · rw [if_neg h, if_neg (by rw [hp]; omega)]
  · rfl

end CamVerif.Proofs.C02Cached
