/-
C17 helper lemmas, part 2: attribute base, element base, and the per-kind child parsers
on rendered children.
-/
import CamVerif.Proofs.C17Cursor
import CamVerif.Proofs.C17Literals
set_option linter.unusedSimpArgs false
set_option linter.unusedSectionVars false
namespace CamVerif.XmlParse
variable {F : Type}
variable [TextFrag]

/-! ### attributes -/

theorem attrOf_append (a b : List (Str × Str)) (k : Str) :
    attrOf (a ++ b) k = match attrOf a k with | some v => some v | none => attrOf b k := by
  induction a with
  | nil => rfl
  | cons x r ih =>
    obtain ⟨k', v'⟩ := x
    simp only [List.cons_append, attrOf]
    split <;> simp_all

theorem attrRest_render (m : AttrM) :
    attrRest m.render = .ok (m.nameSpace.getD .custom, m.mergePriority.getD .mid,
      m.exposeStatic.map BoolLit.val) := by
  obtain ⟨h1, h2, h3, h4⟩ := m.extraOk
  cases hns : m.nameSpace <;> cases hmp : m.mergePriority <;> cases hes : m.exposeStatic <;>
    simp [attrRest, AttrM.render, attrOf_append, h2, h3, h4, hns, hmp, hes, optAttr, attrOf,
      lookup_nameSpace, lookup_mergePriority, convertToBool, BoolLit.ok, ofOpt, Bind.bind, Res.bind,
      Pure.pure]

theorem name_render (m : AttrM) : attrOf m.render cs!"Name" = some m.name := by
  simp [AttrM.render, attrOf_append, m.extraOk.1, attrOf]

theorem pAttrBase_render (m : AttrM) (cur : Cur) (st : St F) :
    pAttrBase m.render cur st = .ok ((specAttr m st).1, cur, (specAttr m st).2) := by
  simp [pAttrBase, P.bind_def, name_render, ofOpt, P.ofR, intern, attrRest_render, specAttr,
    internS]
  rfl


/-! ### element base -/

theorem canStart_false_of_noneStart {tags : List Str} {segs : List Seg}
    (h : noneStart tags segs = true) {t : Str} (ht : t ∈ tags) : canStart t segs = false := by
  simp only [noneStart, List.all_eq_true, Bool.not_eq_true'] at h
  exact h t ht

set_option maxRecDepth 4000 in
theorem pElemBase_segs (m : ElemM) (inv : List Str) (rest : List Seg) (st : St F)
    (h : noneStart elemTags rest = true) :
    pElemBase (flat (m.segs inv ++ rest)) st =
      .ok ((specElem m inv st).1, flat rest, (specElem m inv st).2) := by
  have hc : ∀ t ∈ elemTags, canStart t rest = false := fun t ht => canStart_false_of_noneStart h ht
  simp only [elemTags, List.forall_mem_cons, List.not_mem_nil, false_imp_iff, implies_true,
    and_true] at hc
  obtain ⟨h1, h2, h3, h4, h5, h6, h7, h8, h9, h10, h11, h12, h13, h14, h15, h16, h17⟩ := hc
  simp only [pElemBase, ElemM.segs, List.cons_append, List.nil_append, P.bind_def]
  simp (config := { maxDischargeDepth := 3 }) [parseIf_optString, parseIf_optNodeId, parseIf_optBool,
    parseIf_optTable _ _ lookup_visibility, parseIf_optTable _ _ lookup_accessMode,
    parseWhile_manyNodeId, pOptHexElem_opt, canStart, h1, h2, h3, h4, h5, h6, h7, h8, h9, h10, h11,
    h12, h13, h14, h15, h16, h17, specElem]
  rfl


/-! ### immediate-or-reference elements -/

theorem pImmOrPInt_ir (t1 t2 : Str) (x : IR IntLit) (rest : Cur) (st : St F) :
    pImmOrPInt (mkNode (sel2 t1 t2 (irBody IntLit.text x).1) (irBody IntLit.text x).2 :: rest) st =
      .ok ((irIntS x st).1, rest, (irIntS x st).2) := by
  cases x with
  | imm l =>
    simp [pImmOrPInt, P.bind_def, irBody, peekText_body _ _ _ (textView_tb _),
      convertToInt_first _ _ l.ok, P.ofR, pI64_node, irIntS]
    rfl
  | ref n =>
    simp [pImmOrPInt, P.bind_def, irBody, peekText_body _ _ _ (textView_tb _), n.alpha, P.ofR,
      pNodeId_node, irIntS]
    rfl

theorem pImmOrPIntegerId_ir (t1 t2 : Str) (x : IR IntLit) (rest : Cur) (st : St F) :
    pImmOrPIntegerId (mkNode (sel2 t1 t2 (irBody IntLit.text x).1) (irBody IntLit.text x).2 :: rest) st =
      .ok ((irIntIdS x st).1, rest, (irIntIdS x st).2) := by
  cases x with
  | imm l =>
    simp [pImmOrPIntegerId, P.bind_def, pImmOrPInt_ir, irIntS, irIntIdS, storeValue, storeS]
    rfl
  | ref n =>
    simp [pImmOrPIntegerId, P.bind_def, pImmOrPInt_ir, irIntS, irIntIdS]
    rfl

/-- `a.or_else(b)` over a two-tag optional particle (`Min|pMin` …) -/
theorem orElse_opt2 {α β : Type} (t1 t2 : Str) (p : P F β) (body : α → Bool × Body)
    (f : α → St F → β × St F)
    (hp : ∀ a rest st, p (mkNode (sel2 t1 t2 (body a).1) (body a).2 :: rest) st =
      .ok ((f a st).1, rest, (f a st).2))
    (hne : t2 ≠ t1) (v : Option α) (segs : List Seg) (st : St F)
    (h1 : canStart t1 segs = false) (h2 : canStart t2 segs = false) :
    orElse (parseIf t1 p) (parseIf t2 p) (flat (.opt2 t1 t2 (v.map body) :: segs)) st =
      .ok ((optS f v st).1, flat segs, (optS f v st).2) := by
  cases v with
  | none =>
    simp [orElse, P.bind_def, parseIf_skip t1 p segs st h1, parseIf_skip t2 p segs st h2, optS]
  | some a =>
    have := hp a (flat segs) st
    cases hb : (body a).1 with
    | false =>
      simp [hb, sel2] at this
      simp [orElse, P.bind_def, hb, sel2, parseIf_hit, this, optS]
      rfl
    | true =>
      simp [hb, sel2] at this
      simp [orElse, P.bind_def, hb, sel2, parseIf_miss t1 t2 p _ _ _ hne, parseIf_hit, this, optS]

theorem orElse_opt2_intId (t1 t2 : Str) (hne : t2 ≠ t1) (v : Option (IR IntLit)) (segs : List Seg)
    (st : St F) (h1 : canStart t1 segs = false) (h2 : canStart t2 segs = false) :
    orElse (parseIf t1 pImmOrPIntegerId) (parseIf t2 pImmOrPIntegerId)
        (flat (.opt2 t1 t2 (v.map (irBody IntLit.text)) :: segs)) st =
      .ok ((optS irIntIdS v st).1, flat segs, (optS irIntIdS v st).2) :=
  orElse_opt2 t1 t2 pImmOrPIntegerId (irBody IntLit.text) irIntIdS
    (fun a rest st => pImmOrPIntegerId_ir t1 t2 a rest st) hne v segs st h1 h2

theorem orElse_opt2_int (t1 t2 : Str) (hne : t2 ≠ t1) (v : Option (IR IntLit)) (segs : List Seg)
    (st : St F) (h1 : canStart t1 segs = false) (h2 : canStart t2 segs = false) :
    orElse (parseIf t1 pImmOrPInt) (parseIf t2 pImmOrPInt)
        (flat (.opt2 t1 t2 (v.map (irBody IntLit.text)) :: segs)) st =
      .ok ((optS irIntS v st).1, flat segs, (optS irIntS v st).2) :=
  orElse_opt2 t1 t2 pImmOrPInt (irBody IntLit.text) irIntS
    (fun a rest st => pImmOrPInt_ir t1 t2 a rest st) hne v segs st h1 h2

/-! ### Node, Category, Command, Boolean -/

theorem noneStart_nil (tags : List Str) : noneStart tags [] = true := by
  simp [noneStart, canStart]

theorem pPlainNode_render (m : NodeM) (st : St F) :
    pPlainNode m.attr.render m.children st =
      .ok ((specNode m st).1, [], (specNode m st).2) := by
  have h := pElemBase_segs m.elem m.pInvalidators [] (specAttr m.attr st).2 (noneStart_nil _)
  simp only [List.append_nil] at h
  simp [pPlainNode, NodeM.children, P.bind_def, pAttrBase_render, h, specNode]
  rfl

theorem pCategory_render (m : CategoryM) (st : St F) :
    pCategory m.attr.render m.children st =
      .ok ((specCategory m st).1, [], (specCategory m st).2) := by
  have h := pElemBase_segs m.elem [] [.many cs!"pFeature" (m.pFeatures.map tb)]
    (specAttr m.attr st).2 (by rfl)
  simp [pCategory, CategoryM.children, P.bind_def, pAttrBase_render, h, specCategory,
    parseWhile_manyNodeId_last]
  rfl

theorem pCommand_render (m : CommandM) (st : St F) :
    pCommand m.attr.render m.children st =
      .ok ((specCommand m st).1, [], (specCommand m st).2) := by
  have h := pElemBase_segs m.elem [] [ .one2 cs!"Value" cs!"pValue" (irBody IntLit.text m.value),
      .one2 cs!"CommandValue" cs!"pCommandValue" (irBody IntLit.text m.commandValue),
      .opt cs!"PollingTime" (m.pollingTime.map fun l => tb l.text) ]
    (specAttr m.attr st).2 (by rfl)
  simp [pCommand, CommandM.children, P.bind_def, pAttrBase_render, h, specCommand,
    pImmOrPIntegerId_ir, parseIf_optU64_last]
  rfl


theorem pImmOrPBool_imm (t : Str) (b : BoolLit) (rest : Cur) (st : St F) :
    pImmOrPBool (mkNode t (tb b.text) :: rest) st = .ok (.imm b.val, rest, st) := by
  simp [pImmOrPBool, P.bind_def, peekText_body _ _ _ (textView_tb _), b.ok, pBool_node]
  rfl

theorem pImmOrPBool_ref (t : Str) (n : RefName) (rest : Cur) (st : St F) :
    pImmOrPBool (mkNode t (tb n.name) :: rest) st =
      .ok (.pnode (internS n.name st).1, rest, (internS n.name st).2) := by
  simp [pImmOrPBool, P.bind_def, peekText_body _ _ _ (textView_tb _), n.notBool, pNodeId_node]
  rfl

theorem parseIfD_def {α : Type} (tag : Str) (p : P F α) (d : α) (cur : Cur) (st : St F) :
    parseIfD tag p d cur st =
      (parseIf tag p cur st).bind fun r => .ok (r.1.getD d, r.2.1, r.2.2) := rfl

theorem pBoolean_render (m : BooleanM) (st : St F) :
    pBoolean m.attr.render m.children st =
      .ok ((specBoolean m st).1, [], (specBoolean m st).2) := by
  have h := pElemBase_segs m.elem []
    [ .opt cs!"Streamable" (m.streamable.map fun b => tb b.text),
      .one2 cs!"Value" cs!"pValue" m.value.body,
      .opt cs!"OnValue" (m.onValue.map fun l => tb l.text),
      .opt cs!"OffValue" (m.offValue.map fun l => tb l.text),
      .many cs!"pSelected" (m.pSelected.map tb) ]
    (specAttr m.attr st).2 (by rfl)
  cases hv : m.value with
  | imm b =>
    simp only [hv, BoolValueM.body] at h
    simp [pBoolean, BooleanM.children, P.bind_def, pAttrBase_render, h, specBoolean, hv,
      BoolValueM.body, sel2, parseIfD_def, parseIf_optBool, parseIf_optI64, canStart,
      pImmOrPBool_imm, parseWhile_manyNodeId_last, storeValue, storeS]
    rfl
  | ref n =>
    simp only [hv, BoolValueM.body] at h
    simp [pBoolean, BooleanM.children, P.bind_def, pAttrBase_render, h, specBoolean, hv,
      BoolValueM.body, sel2, parseIfD_def, parseIf_optBool, parseIf_optI64, canStart,
      pImmOrPBool_ref, parseWhile_manyNodeId_last]
    rfl


/-! ### two-tag repeated particles, value kinds -/

theorem orElse_hit2 {β : Type} (t1 t2 : Str) (p : P F β) (hne : t2 ≠ t1) (b : Bool) (bd : Body)
    (rest : Cur) (st : St F) :
    orElse (parseIf t1 p) (parseIf t2 p) (mkNode (sel2 t1 t2 b) bd :: rest) st =
      (p (mkNode (sel2 t1 t2 b) bd :: rest) st).bind fun x => .ok (some x.1, x.2.1, x.2.2) := by
  cases b with
  | false =>
    simp only [sel2, Bool.false_eq_true, if_false, orElse, P.bind_def, parseIf_hit]
    cases p (mkNode t1 bd :: rest) st <;> simp <;> rfl
  | true =>
    simp [sel2, orElse, P.bind_def, parseIf_miss t1 t2 p _ _ _ hne, parseIf_hit]

theorem orElse_skip2 {β : Type} (t1 t2 : Str) (p : P F β) (segs : List Seg) (st : St F)
    (h1 : canStart t1 segs = false) (h2 : canStart t2 segs = false) :
    orElse (parseIf t1 p) (parseIf t2 p) (flat segs) st = .ok (none, flat segs, st) := by
  simp [orElse, P.bind_def, parseIf_skip t1 p segs st h1, parseIf_skip t2 p segs st h2]

theorem whileSome_many2 {α β : Type} (t1 t2 : Str) (p : P F β) (body : α → Bool × Body)
    (f : α → St F → β × St F)
    (hp : ∀ a rest st, p (mkNode (sel2 t1 t2 (body a).1) (body a).2 :: rest) st =
      .ok ((f a st).1, rest, (f a st).2))
    (hne : t2 ≠ t1) (vs : List α) (segs : List Seg) (st : St F)
    (h1 : canStart t1 segs = false) (h2 : canStart t2 segs = false) (n : Nat)
    (hn : (flat (.many2 t1 t2 (vs.map body) :: segs)).length + 1 ≤ n) :
    whileSome (orElse (parseIf t1 p) (parseIf t2 p)) n (flat (.many2 t1 t2 (vs.map body) :: segs)) st =
      .ok ((listS f vs st).1, flat segs, (listS f vs st).2) := by
  induction vs generalizing st n with
  | nil =>
    cases n with
    | zero => omega
    | succ n => simp [whileSome, orElse_skip2 t1 t2 p segs st h1 h2, listS]
  | cons a as ih =>
    cases n with
    | zero => omega
    | succ n =>
      have hle' : (flat (Seg.many2 t1 t2 (List.map body as) :: segs)).length + 1 ≤ n := by
        simp at hn ⊢; omega
      simp [whileSome, orElse_hit2 t1 t2 p hne, hp, ih _ _ hle', listS]

/-- text of an immediate-or-reference -/
def irText {L : Type} (text : L → Str) : IR L → Str
  | .imm l => text l
  | .ref n => n.name

theorem pImmOrPInt_body (tag : Str) (b : Body) (x : IR IntLit)
    (hb : textView b.2 = .ok (irText IntLit.text x)) (rest : Cur) (st : St F) :
    pImmOrPInt (mkNode tag b :: rest) st = .ok ((irIntS x st).1, rest, (irIntS x st).2) := by
  cases x with
  | imm l =>
    simp only [irText] at hb
    simp [pImmOrPInt, P.bind_def, peekText_body _ _ _ hb, convertToInt_first _ _ l.ok, P.ofR,
      pI64_body _ _ l hb, irIntS]
    rfl
  | ref n =>
    simp only [irText] at hb
    simp [pImmOrPInt, P.bind_def, peekText_body _ _ _ hb, n.alpha, P.ofR, pNodeId_body _ _ _ hb,
      irIntS]
    rfl

theorem pImmOrPIntegerId_body (tag : Str) (b : Body) (x : IR IntLit)
    (hb : textView b.2 = .ok (irText IntLit.text x)) (rest : Cur) (st : St F) :
    pImmOrPIntegerId (mkNode tag b :: rest) st = .ok ((irIntIdS x st).1, rest, (irIntIdS x st).2) := by
  cases x with
  | imm l =>
    simp [pImmOrPIntegerId, P.bind_def, pImmOrPInt_body tag b _ hb, irIntS, irIntIdS, storeValue,
      storeS]
    rfl
  | ref n =>
    simp [pImmOrPIntegerId, P.bind_def, pImmOrPInt_body tag b _ hb, irIntS, irIntIdS]
    rfl

theorem textView_indexedBody {L : Type} (text : L → Str) (x : IntLit × IR L) :
    textView (indexedBody text x).2.2 = .ok (irText text x.2) := by
  obtain ⟨i, v⟩ := x
  cases v <;> simp [indexedBody, irText, textView, TextFrag.view]

theorem index_indexedBody {L : Type} (text : L → Str) (x : IntLit × IR L) :
    attrOf (indexedBody text x).2.1 cs!"Index" = some x.1.text := by
  obtain ⟨i, v⟩ := x
  cases v <;> simp [indexedBody, attrOf]

/-- `ValueIndexed` / `pValueIndexed` for an integer node -/
theorem pValueIndexed_int (t1 t2 : Str) (x : IntLit × IR IntLit) (rest : Cur) (st : St F) :
    pValueIndexed pImmOrPIntegerId
        (mkNode (sel2 t1 t2 (indexedBody IntLit.text x).1) (indexedBody IntLit.text x).2 :: rest) st =
      .ok ((indexedS irIntIdS x st).1, rest, (indexedS irIntIdS x st).2) := by
  simp [pValueIndexed, P.bind_def, P.bind_def', peekElem_node, index_indexedBody, ofOpt, x.1.ok, P.ofR,
    pImmOrPIntegerId_body _ _ x.2 (textView_indexedBody IntLit.text x), indexedS, Bind.bind, Res.bind]
  rfl

theorem pIntegerId_node (tag : Str) (l : IntLit) (rest : Cur) (st : St F) :
    pIntegerId (mkNode tag (tb l.text) :: rest) st =
      .ok ((storeS (.int l.val) st).1, rest, (storeS (.int l.val) st).2) := by
  simp [pIntegerId, P.bind_def, pI64_node, storeValue, storeS]

theorem textView_irBody {L : Type} (text : L → Str) (x : IR L) :
    textView (irBody text x).2.2 = .ok (irText text x) := by
  cases x <;> simp [irBody, irText]

/-- `ValueKind<IntegerId>`: `Value` | `pValueCopy* pValue pValueCopy*` | `pIndex …` -/
theorem pValueKind_int (v : ValueM IntLit) (segs : List Seg) (st : St F)
    (h1 : canStart cs!"pValueCopy" segs = false) :
    pValueKind pIntegerId pImmOrPIntegerId (flat (v.segs IntLit.text ++ segs)) st =
      .ok ((valueS (fun l => .int l.val) irIntIdS v st).1, flat segs,
        (valueS (fun l => .int l.val) irIntIdS v st).2) := by
  cases v with
  | value l =>
    simp [pValueKind, ValueM.segs, P.bind_def, peekElem_node, pIntegerId_node, valueS]
    rfl
  | pValue before p after =>
    have e1 := fun st => parseWhile_manyNodeId (F := F) cs!"pValueCopy" before
      (.one cs!"pValue" (tb p) :: .many cs!"pValueCopy" (after.map tb) :: segs) st (by rfl)
    have e2 := fun st => parseWhile_manyNodeId (F := F) cs!"pValueCopy" after segs st h1
    cases before with
    | nil =>
      simp [listS] at e1
      simp [pValueKind, ValueM.segs, P.bind_def, peekElem_node, pPValue, pNodeId_node, e1, e2, valueS,
        listS]
      rfl
    | cons b bs =>
      simp only [List.map_cons, flat_many_cons] at e1
      simp [pValueKind, ValueM.segs, P.bind_def, peekElem_node, pPValue, e1, pNodeId_node, e2, valueS]
      rfl
  | pIndex p indexed dflt =>
    have e1 := fun st n hn => whileSome_many2 (F := F) cs!"ValueIndexed" cs!"pValueIndexed"
      (pValueIndexed pImmOrPIntegerId) (indexedBody IntLit.text) (indexedS irIntIdS)
      (fun a rest st => pValueIndexed_int _ _ a rest st) (by decide) indexed
      (.one2 cs!"ValueDefault" cs!"pValueDefault" (irBody IntLit.text dflt) :: segs) st (by rfl)
      (by rfl) n hn
    simp [pValueKind, ValueM.segs, P.bind_def, peekElem_node, pPIndex, pNodeId_node, valueS]
    rw [e1 _ _ (by simp)]
    simp [pImmOrPIntegerId_body _ _ dflt (textView_irBody IntLit.text dflt)]
    rfl


/-- no tag other than the four value-kind head tags can start a rendered value kind -/
theorem canStart_valueSegs {L : Type} (text : L → Str) (v : ValueM L) (rest : List Seg) (t : Str)
    (h1 : cs!"Value" ≠ t) (h2 : cs!"pValueCopy" ≠ t) (h3 : cs!"pValue" ≠ t) (h4 : cs!"pIndex" ≠ t) :
    canStart t (v.segs text ++ rest) = false := by
  cases v <;> simp [ValueM.segs, canStart, h1, h2, h3, h4]

set_option maxRecDepth 4000 in
theorem pInteger_render (m : IntegerM) (st : St F) :
    pInteger m.attr.render m.children st =
      .ok ((specInteger m st).1, [], (specInteger m st).2) := by
  let tail : List Seg :=
    [ .opt2 cs!"Min" cs!"pMin" (m.min.map (irBody IntLit.text)),
      .opt2 cs!"Max" cs!"pMax" (m.max.map (irBody IntLit.text)),
      .opt2 cs!"Inc" cs!"pInc" (m.inc.map (irBody IntLit.text)),
      .opt cs!"Unit" (m.unit.map tb),
      .opt cs!"Representation" (m.representation.map fun r => tb r.text),
      .many cs!"pSelected" (m.pSelected.map tb) ]
  have hch : m.children = flat (m.elem.segs [] ++
      (.opt cs!"Streamable" (m.streamable.map fun b => tb b.text) ::
        (m.value.segs IntLit.text ++ tail))) := by
    simp [IntegerM.children, tail, List.append_assoc]
  have h := pElemBase_segs m.elem []
    (.opt cs!"Streamable" (m.streamable.map fun b => tb b.text) ::
        (m.value.segs IntLit.text ++ tail))
    (specAttr m.attr st).2 (by
      simp [noneStart, elemTags, canStart, canStart_valueSegs])
  have e1 := fun st => parseIf_optBool (F := F) cs!"Streamable" m.streamable
    (m.value.segs IntLit.text ++ tail) st (by simp [canStart_valueSegs])
  have e2 := fun st => pValueKind_int (F := F) m.value tail st (by rfl)
  rw [hch]
  simp [pInteger, P.bind_def, pAttrBase_render, h, e1, parseIfD_def, e2, tail]
  simp (config := { maxDischargeDepth := 3 }) [orElse_opt2_intId, orElse_opt2_int, canStart,
    parseIf_optString, parseIf_optTable _ _ lookup_intRepr, parseWhile_manyNodeId_last]
  cases hmin : m.min <;> cases hmax : m.max <;>
    simp [specInteger, optS, hmin, hmax, storeValue, storeS, P.bind_def, pure_apply]


/-! ### named values, IntSwissKnife -/

theorem listS_pure {α β : Type} (g : α → β) (vs : List α) (st : St F) :
    listS (fun a st => (g a, st)) vs st = (vs.map g, st) := by
  induction vs with
  | nil => rfl
  | cons a as ih => simp [listS, ih]

theorem name_ntb (n s : Str) : attrOf (ntb n s).1 cs!"Name" = some n := by simp [ntb, attrOf]

theorem pNamedValue_nodeId (tag : Str) (x : Str × Str) (rest : Cur) (st : St F) :
    pNamedValue pNodeId (mkNode tag (ntb x.1 x.2) :: rest) st =
      .ok ((pVarS x st).1, rest, (pVarS x st).2) := by
  simp [pNamedValue, P.bind_def, P.bind_def', peekElem_node, name_ntb, ofOpt, P.ofR,
    pNodeId_body _ _ _ (textView_ntb x.1 x.2), pVarS, pure_apply]

theorem pNamedValue_i64 (tag : Str) (x : Str × IntLit) (rest : Cur) (st : St F) :
    pNamedValue pI64 (mkNode tag (ntb x.1 x.2.text) :: rest) st =
      .ok (⟨x.1, x.2.val⟩, rest, st) := by
  simp [pNamedValue, P.bind_def, P.bind_def', peekElem_node, name_ntb, ofOpt, P.ofR,
    pI64_body _ _ x.2 (textView_ntb x.1 x.2.text), pure_apply]

theorem pFormula_body [FloatLit F] (tag : Str) (b : Body) (x : FormulaText F)
    (hb : textView b.2 = .ok x.text) (rest : Cur) (st : St F) :
    pFormula (mkNode tag b :: rest) st = .ok (x.text, rest, st) := by
  simp [pFormula, P.bind_def, nextText_body _ _ _ hb, x.ok, pure_apply]

theorem pNamedValue_formula [FloatLit F] (tag : Str) (x : Str × FormulaText F) (rest : Cur)
    (st : St F) :
    pNamedValue pFormula (mkNode tag (ntb x.1 x.2.text) :: rest) st =
      .ok (⟨x.1, x.2.text⟩, rest, st) := by
  simp [pNamedValue, P.bind_def, P.bind_def', peekElem_node, name_ntb, ofOpt, P.ofR,
    pFormula_body _ _ x.2 (textView_ntb x.1 x.2.text), pure_apply]

theorem parseWhile_pVariables (vs : List (Str × Str)) (segs : List Seg) (st : St F)
    (h : canStart cs!"pVariable" segs = false) :
    pVariables (flat (.many cs!"pVariable" (vs.map fun x => ntb x.1 x.2) :: segs)) st =
      .ok ((listS pVarS vs st).1, flat segs, (listS pVarS vs st).2) := by
  unfold pVariables
  exact parseWhile_many cs!"pVariable" (pNamedValue pNodeId) (fun x : Str × Str => ntb x.1 x.2) pVarS
    (fun a rest st => pNamedValue_nodeId _ a rest st) vs segs st h

theorem parseWhile_constantsInt (vs : List (Str × IntLit)) (segs : List Seg) (st : St F)
    (h : canStart cs!"Constant" segs = false) :
    parseWhile cs!"Constant" (pNamedValue pI64)
        (flat (.many cs!"Constant" (vs.map fun x => ntb x.1 x.2.text) :: segs)) st =
      .ok (vs.map fun x => ⟨x.1, x.2.val⟩, flat segs, st) := by
  have := parseWhile_many cs!"Constant" (pNamedValue pI64) (fun x : Str × IntLit => ntb x.1 x.2.text)
    (fun x st => ((⟨x.1, x.2.val⟩ : NamedValue Int), st))
    (fun a rest st => pNamedValue_i64 _ a rest st) vs segs st h
  simpa [listS_pure] using this

theorem parseWhile_expressions [FloatLit F] (vs : List (Str × FormulaText F)) (segs : List Seg)
    (st : St F) (h : canStart cs!"Expression" segs = false) :
    pExpressions (flat (.many cs!"Expression" (vs.map fun x => ntb x.1 x.2.text) :: segs)) st =
      .ok (vs.map fun x => ⟨x.1, x.2.text⟩, flat segs, st) := by
  have := parseWhile_many cs!"Expression" (pNamedValue pFormula)
    (fun x : Str × FormulaText F => ntb x.1 x.2.text)
    (fun x st => ((⟨x.1, x.2.text⟩ : NamedValue Str), st))
    (fun a rest st => pNamedValue_formula _ a rest st) vs segs st h
  simpa [listS_pure, pExpressions] using this

theorem pIntSwissKnife_render [FloatLit F] (m : IntSwissKnifeM F) (st : St F) :
    pIntSwissKnife m.attr.render m.children st =
      .ok ((specIntSwissKnife m st).1, [], (specIntSwissKnife m st).2) := by
  have h := pElemBase_segs m.elem []
    [ .opt cs!"Streamable" (m.streamable.map fun b => tb b.text),
      .many cs!"pVariable" (m.pVariables.map fun x => ntb x.1 x.2),
      .many cs!"Constant" (m.constants.map fun x => ntb x.1 x.2.text),
      .many cs!"Expression" (m.expressions.map fun x => ntb x.1 x.2.text),
      .one cs!"Formula" (tb m.formula.text),
      .opt cs!"Unit" (m.unit.map tb),
      .opt cs!"Representation" (m.representation.map fun r => tb r.text) ]
    (specAttr m.attr st).2 (by rfl)
  simp (config := { maxDischargeDepth := 3 }) [pIntSwissKnife, IntSwissKnifeM.children, P.bind_def,
    pAttrBase_render, h, specIntSwissKnife, parseIfD_def, parseIf_optBool, parseWhile_pVariables,
    parseWhile_constantsInt, parseWhile_expressions, canStart,
    pFormula_body _ _ m.formula (textView_tb _), parseIf_optString,
    parseIf_optTable_last _ _ lookup_intRepr, pure_apply]

/-! ### register base -/

theorem tb_fst (s : Str) : (tb s).1 = [] := rfl

theorem pRegPIndex_none (p : Str) (rest : Cur) (st : St F) :
    pRegPIndex (mkNode cs!"pIndex" (tb p) :: rest) st =
      .ok (⟨none, (internS p st).1⟩, rest, (internS p st).2) := by
  simp [pRegPIndex, P.bind_def, P.bind_def', peekElem_node, tb_fst, attrOf, pure_apply,
    pNodeId_node]

theorem pRegPIndex_offset (l : IntLit) (p : Str) (rest : Cur) (st : St F) :
    pRegPIndex (mkNode cs!"pIndex" ([(cs!"Offset", l.text)], (tb p).2) :: rest) st =
      .ok (⟨some (.imm l.val), (internS p st).1⟩, rest, (internS p st).2) := by
  simp [pRegPIndex, P.bind_def, P.bind_def', peekElem_node, attrOf, pure_apply, l.ok, P.ofR,
    pNodeId_body (cs!"pIndex") ([(cs!"Offset", l.text)], (tb p).2) p (textView_tb p)]

theorem pRegPIndex_pOffset (n p : Str) (rest : Cur) (st : St F) :
    pRegPIndex (mkNode cs!"pIndex" ([(cs!"pOffset", n)], (tb p).2) :: rest) st =
      .ok (⟨some (.pnode (internS n st).1), (internS p (internS n st).2).1⟩, rest,
        (internS p (internS n st).2).2) := by
  simp [pRegPIndex, P.bind_def, P.bind_def', peekElem_node, attrOf, pure_apply, intern, internS,
    pNodeId_body (cs!"pIndex") ([(cs!"pOffset", n)], (tb p).2) p (textView_tb p)]

theorem pAddressKind_item [FloatLit F] (pr : Profile) (x : AddrM) (rest : Cur) (st : St F) :
    pAddressKind pr (mkNode x.body.1.tag x.body.2 :: rest) st =
      .ok ((addrS x st).1, rest, (addrS x st).2) := by
  match x with
  | .address l =>
    have := pImmOrPInt_body (F := F) cs!"Address" (tb l.text) (.imm l) (textView_tb _) rest st
    simp [pAddressKind, AddrM.body, AddrTag.tag, P.bind_def, P.bind_def', peekElem_node, this,
      addrS, irIntS, pure_apply]
  | .pAddress n =>
    have := pImmOrPInt_body (F := F) cs!"pAddress" (tb n.name) (.ref n) (textView_tb _) rest st
    simp [pAddressKind, AddrM.body, AddrTag.tag, P.bind_def, P.bind_def', peekElem_node, this,
      addrS, irIntS, pure_apply]
  | .pIndex none p =>
    simp [pAddressKind, AddrM.body, AddrTag.tag, P.bind_def, P.bind_def', peekElem_node,
      pRegPIndex_none, addrS, pure_apply]
  | .pIndex (some (.inl l)) p =>
    simp [pAddressKind, AddrM.body, AddrTag.tag, P.bind_def, P.bind_def', peekElem_node,
      pRegPIndex_offset, addrS, pure_apply]
  | .pIndex (some (.inr n)) p =>
    simp [pAddressKind, AddrM.body, AddrTag.tag, P.bind_def, P.bind_def', peekElem_node,
      pRegPIndex_pOffset, addrS, pure_apply]

/-- the four-way `or_else` chain of the address loop -/
def addrStep [FloatLit F] (pr : Profile) : P F (Option AddressKind) :=
  orElse (parseIf cs!"Address" (pAddressKind pr))
    (orElse (parseIf cs!"IntSwissKnife" (pAddressKind pr))
      (orElse (parseIf cs!"pAddress" (pAddressKind pr)) (parseIf cs!"pIndex" (pAddressKind pr))))

theorem addrStep_hit [FloatLit F] (pr : Profile) (t : AddrTag) (bd : Body) (rest : Cur) (st : St F) :
    addrStep pr (mkNode t.tag bd :: rest) st =
      (pAddressKind pr (mkNode t.tag bd :: rest) st).bind fun x => .ok (some x.1, x.2.1, x.2.2) := by
  cases t <;>
    simp [addrStep, AddrTag.tag, orElse, P.bind_def, parseIf_hit, parseIf_miss, pure_apply] <;>
    cases pAddressKind pr _ st <;> simp [pure_apply]

theorem addrStep_skip [FloatLit F] (pr : Profile) (segs : List Seg) (st : St F)
    (h1 : canStart cs!"Address" segs = false) (h2 : canStart cs!"IntSwissKnife" segs = false)
    (h3 : canStart cs!"pAddress" segs = false) (h4 : canStart cs!"pIndex" segs = false) :
    addrStep pr (flat segs) st = .ok (none, flat segs, st) := by
  simp [addrStep, orElse, P.bind_def, parseIf_skip _ (pAddressKind pr) segs st h1,
    parseIf_skip _ (pAddressKind pr) segs st h2, parseIf_skip _ (pAddressKind pr) segs st h3,
    parseIf_skip _ (pAddressKind pr) segs st h4]

theorem whileSome_manyAddr [FloatLit F] (pr : Profile) (vs : List AddrM) (segs : List Seg) (st : St F)
    (h1 : canStart cs!"Address" segs = false) (h2 : canStart cs!"IntSwissKnife" segs = false)
    (h3 : canStart cs!"pAddress" segs = false) (h4 : canStart cs!"pIndex" segs = false) (n : Nat)
    (hn : (flat (.manyAddr (vs.map AddrM.body) :: segs)).length + 1 ≤ n) :
    whileSome (addrStep pr) n (flat (.manyAddr (vs.map AddrM.body) :: segs)) st =
      .ok ((listS addrS vs st).1, flat segs, (listS addrS vs st).2) := by
  induction vs generalizing st n with
  | nil =>
    cases n with
    | zero => omega
    | succ n => simp [whileSome, addrStep_skip pr segs st h1 h2 h3 h4, listS]
  | cons a as ih =>
    cases n with
    | zero => omega
    | succ n =>
      have hle' : (flat (Seg.manyAddr (List.map AddrM.body as) :: segs)).length + 1 ≤ n := by
        simp at hn ⊢; omega
      simp [whileSome, addrStep_hit, pAddressKind_item, ih _ _ hle', listS]


theorem length_flat_cons_ge (x : Seg) (r : List Seg) : (flat r).length ≤ (flat (x :: r)).length := by
  simp [flat]

theorem storeInvalidators_eq (l : List Nat) (t : Nat) (cur : Cur) (st : St F) :
    storeInvalidators l t cur st = .ok ((), cur, invalS l t st) := by
  induction l generalizing st with
  | nil => simp [storeInvalidators, invalS, pure_apply]
  | cons i r ih =>
    simp [storeInvalidators, P.bind_def, storeInvalidator, ih, invalS, List.append_assoc]

set_option maxRecDepth 4000 in
theorem pRegBase_segs [FloatLit F] (pr : Profile) (m : RegM) (rest : List Seg) (st : St F)
    (h : noneStart regTags rest = true) :
    pRegBase pr (flat (m.segs ++ rest)) st =
      .ok ((specReg m st).1, flat rest, (specReg m st).2) := by
  have hc : ∀ t ∈ regTags, canStart t rest = false := fun t ht => canStart_false_of_noneStart h ht
  simp only [regTags, elemTags, List.cons_append, List.nil_append, List.forall_mem_cons,
    List.not_mem_nil, false_imp_iff, implies_true, and_true] at hc
  obtain ⟨_, _, _, _, _, _, _, _, _, _, _, _, _, _, _, _, hInv, hStr, hA, hK, hPA, hPI, hAM, hCa, hPT⟩ := hc
  let tail : List Seg :=
    [ .opt cs!"Streamable" (m.streamable.map fun b => tb b.text),
      .manyAddr (m.addrs.map AddrM.body),
      .one2 cs!"Length" cs!"pLength" (irBody IntLit.text m.length),
      .opt cs!"AccessMode" (m.accessMode.map fun a => tb a.text),
      .one cs!"pPort" (tb m.pPort),
      .opt cs!"Cachable" (m.cacheable.map fun c => tb c.text),
      .opt cs!"PollingTime" (m.pollingTime.map fun l => tb l.text),
      .many cs!"pInvalidator" (m.pInvalidators.map tb) ]
  have hsegs : m.segs ++ rest = m.elem.segs [] ++ (tail ++ rest) := by
    simp [RegM.segs, tail, List.append_assoc]
  have h0 := pElemBase_segs m.elem [] (tail ++ rest) st (by
    simp [noneStart, elemTags, canStart, tail])
  have e1 := fun st n hn => whileSome_manyAddr (F := F) pr m.addrs
    (.one2 cs!"Length" cs!"pLength" (irBody IntLit.text m.length) ::
      .opt cs!"AccessMode" (m.accessMode.map fun a => tb a.text) ::
      .one cs!"pPort" (tb m.pPort) ::
      .opt cs!"Cachable" (m.cacheable.map fun c => tb c.text) ::
      .opt cs!"PollingTime" (m.pollingTime.map fun l => tb l.text) ::
      .many cs!"pInvalidator" (m.pInvalidators.map tb) :: rest) st (by rfl) (by rfl) (by rfl)
      (by rfl) n hn
  simp only [addrStep] at e1
  have e2 := fun st => parseWhile_manyNodeId (F := F) cs!"pInvalidator" m.pInvalidators rest st hInv
  rw [hsegs]
  simp only [tail, List.cons_append, List.nil_append] at h0 ⊢
  simp only [pRegBase, P.bind_def, h0, Res.bind_ok']
  simp (config := { maxDischargeDepth := 3 }) [parseIfD_def, parseIf_optBool, canStart]
  rw [e1 _ _ (by
    have := length_flat_cons_ge (.opt cs!"Streamable" (m.streamable.map fun b => tb b.text))
      (.manyAddr (m.addrs.map AddrM.body) ::
        .one2 cs!"Length" cs!"pLength" (irBody IntLit.text m.length) ::
        .opt cs!"AccessMode" (m.accessMode.map fun a => tb a.text) ::
        .one cs!"pPort" (tb m.pPort) ::
        .opt cs!"Cachable" (m.cacheable.map fun c => tb c.text) ::
        .opt cs!"PollingTime" (m.pollingTime.map fun l => tb l.text) ::
        .many cs!"pInvalidator" (m.pInvalidators.map tb) :: rest)
    simp only [flat_append, List.length_append]; omega)]
  simp (config := { maxDischargeDepth := 3 }) [pImmOrPInt_ir, parseIfD_def,
    parseIf_optTable _ _ lookup_accessMode, parseIf_optTable _ _ lookup_cachingMode, pNodeId_node,
    parseIf_optU64, e2, canStart, hAM, hCa, hPT, hInv, specReg, specElem, listS, pure_apply, P.fail]

theorem pIntReg_render [FloatLit F] (pr : Profile) (m : IntRegM) (st : St F) :
    pIntReg pr m.attr.render m.children st =
      .ok ((specIntReg m st).1, [], (specIntReg m st).2) := by
  have h := pRegBase_segs pr m.reg
    (intRegTail m.sign m.endianness m.unit m.representation m.pSelected) (specAttr m.attr st).2 (by rfl)
  simp only [intRegTail] at h
  simp (config := { maxDischargeDepth := 3 }) [pIntReg, IntRegM.children, P.bind_def,
    pAttrBase_render, h, intRegTail, specIntReg, parseIfD_def, parseIf_optTable _ _ lookup_sign,
    parseIf_optTable _ _ lookup_endianness, parseIf_optString, parseIf_optTable _ _ lookup_intRepr,
    parseWhile_manyNodeId_last, canStart, storeInvalidators_eq, pure_apply]


theorem pBitMask_segs (b : BitM) (segs : List Seg) (st : St F) :
    pBitMask (flat (b.segs ++ segs)) st = .ok (b.val, flat segs, st) := by
  cases b with
  | bit x =>
    simp [pBitMask, BitM.segs, P.bind_def, parseIf_hit, pU64_node, BitM.val, pure_apply]
  | range l m =>
    simp [pBitMask, BitM.segs, P.bind_def, parseIf_miss, pU64_node, BitM.val, pure_apply]

theorem canStart_bitSegs (b : BitM) (rest : List Seg) (t : Str)
    (h1 : cs!"Bit" ≠ t) (h2 : cs!"LSB" ≠ t) : canStart t (b.segs ++ rest) = false := by
  cases b <;> simp [BitM.segs, canStart, h1, h2]

theorem pMaskedIntReg_render [FloatLit F] (pr : Profile) (m : MaskedM) (st : St F) :
    pMaskedIntReg pr m.attr.render m.children st =
      .ok ((specMasked m st).1, [], (specMasked m st).2) := by
  have hch : m.children = flat (m.reg.segs ++ (m.bitMask.segs ++
      intRegTail m.sign m.endianness m.unit m.representation m.pSelected)) := by
    simp [MaskedM.children, List.append_assoc]
  have h := pRegBase_segs pr m.reg (m.bitMask.segs ++
      intRegTail m.sign m.endianness m.unit m.representation m.pSelected) (specAttr m.attr st).2 (by
        simp [noneStart, regTags, elemTags, canStart_bitSegs])
  have e := fun st => pBitMask_segs (F := F) m.bitMask
    (intRegTail m.sign m.endianness m.unit m.representation m.pSelected) st
  rw [hch]
  simp only [intRegTail] at h e
  simp (config := { maxDischargeDepth := 3 }) [pMaskedIntReg, P.bind_def,
    pAttrBase_render, h, e, intRegTail, specMasked, parseIfD_def, parseIf_optTable _ _ lookup_sign,
    parseIf_optTable _ _ lookup_endianness, parseIf_optString, parseIf_optTable _ _ lookup_intRepr,
    parseWhile_manyNodeId_last, canStart, storeInvalidators_eq, pure_apply]

theorem pPlainReg_render [FloatLit F] (pr : Profile) (m : PlainRegM) (st : St F) :
    pPlainReg pr m.attr.render m.children st =
      .ok ((specPlainReg m st).1, [], (specPlainReg m st).2) := by
  have h := pRegBase_segs pr m.reg [] (specAttr m.attr st).2 (noneStart_nil _)
  simp only [List.append_nil] at h
  simp [pPlainReg, PlainRegM.children, P.bind_def, pAttrBase_render, h, specPlainReg,
    storeInvalidators_eq, pure_apply]


/-! ### StructReg -/

theorem hasChild_append (a b : List Elem) (tag : Str) :
    hasChild (a ++ b) tag = (hasChild a tag || hasChild b tag) := by
  simp [hasChild, List.any_append]

theorem hasChild_flat_cons (x : Seg) (r : List Seg) (tag : Str) :
    hasChild (flat (x :: r)) tag = (hasChild x.elems tag || hasChild (flat r) tag) := by
  simp [flat, hasChild_append]

theorem hasChild_opt_same (tag : Str) (b : Option Body) :
    hasChild (Seg.opt tag b).elems tag = b.isSome := by
  cases b <;> simp [Seg.elems, hasChild, mkNode]

theorem hasChild_opt_ne (t tag : Str) (b : Option Body) (h : t ≠ tag) :
    hasChild (Seg.opt t b).elems tag = false := by
  cases b <;> simp [Seg.elems, hasChild, mkNode, h]

theorem hasChild_many_ne (t tag : Str) (bs : List Body) (h : t ≠ tag) :
    hasChild (Seg.many t bs).elems tag = false := by
  simp [Seg.elems, hasChild, mkNode, h]

theorem hasChild_one_ne (t tag : Str) (b : Body) (h : t ≠ tag) :
    hasChild (Seg.one t b).elems tag = false := by
  simp [Seg.elems, hasChild, mkNode, h]

theorem hasChild_nil (tag : Str) : hasChild (flat []) tag = false := rfl
theorem hasChild_nil' (tag : Str) : hasChild [] tag = false := rfl

theorem hasChild_cons_node (t tag : Str) (b : Body) (r : List Elem) :
    hasChild (mkNode t b :: r) tag = (t == tag || hasChild r tag) := by
  simp [hasChild, mkNode]

/-- which defaultable elements a rendered entry contains -/
theorem declared_entry (e : EntryM) :
    hasChild (flat e.segs) cs!"Visibility" = e.elem.visibility.isSome ∧
    hasChild (flat e.segs) cs!"IsDeprecated" = e.elem.isDeprecated.isSome ∧
    hasChild (flat e.segs) cs!"ImposedAccessMode" = e.elem.imposedAccessMode.isSome ∧
    hasChild (flat e.segs) cs!"Streamable" = e.streamable.isSome ∧
    hasChild (flat e.segs) cs!"AccessMode" = e.accessMode.isSome ∧
    hasChild (flat e.segs) cs!"Cachable" = e.cacheable.isSome := by
  cases hb : e.bitMask <;>
    simp [EntryM.segs, ElemM.segs, BitM.segs, hb, hasChild_flat_cons, hasChild_opt_same,
      hasChild_opt_ne, hasChild_many_ne, hasChild_one_ne, hasChild_nil, hasChild_nil', hasChild_cons_node]

end CamVerif.XmlParse
