/-
C17 helper lemmas, part 2: attribute base, element base, and the per-kind child parsers
on rendered children.
-/
import CamVerif.Proofs.C17Cursor
import CamVerif.Proofs.C17Literals
set_option linter.unusedSimpArgs false
namespace CamVerif.XmlParse
variable {F : Type}

/-! ### attributes -/

theorem attrOf_append (a b : List (Str × Str)) (k : Str) :
    attrOf (a ++ b) k = match attrOf a k with | some v => some v | none => attrOf b k := by
  induction a with
  | nil => rfl
  | cons x r ih =>
    obtain ⟨k', v'⟩ := x
    simp only [List.cons_append, attrOf]
    split <;> simp_all

theorem attrRest_render (m : AttrM) :
    attrRest m.render = .ok (m.nameSpace.getD .custom, m.mergePriority.getD .mid,
      m.exposeStatic.map BoolLit.val) := by
  obtain ⟨h1, h2, h3, h4⟩ := m.extraOk
  cases hns : m.nameSpace <;> cases hmp : m.mergePriority <;> cases hes : m.exposeStatic <;>
    simp [attrRest, AttrM.render, attrOf_append, h2, h3, h4, hns, hmp, hes, optAttr, attrOf,
      lookup_nameSpace, lookup_mergePriority, convertToBool, BoolLit.ok, ofOpt, Bind.bind, Res.bind,
      Pure.pure]

theorem name_render (m : AttrM) : attrOf m.render cs!"Name" = some m.name := by
  simp [AttrM.render, attrOf_append, m.extraOk.1, attrOf]

theorem pAttrBase_render (m : AttrM) (cur : Cur) (st : St F) :
    pAttrBase m.render cur st = .ok ((specAttr m st).1, cur, (specAttr m st).2) := by
  simp [pAttrBase, P.bind_def, name_render, ofOpt, P.ofR, intern, attrRest_render, specAttr,
    internS]
  rfl


/-! ### element base -/

theorem canStart_false_of_noneStart {tags : List Str} {segs : List Seg}
    (h : noneStart tags segs = true) {t : Str} (ht : t ∈ tags) : canStart t segs = false := by
  simp only [noneStart, List.all_eq_true, Bool.not_eq_true'] at h
  exact h t ht

set_option maxRecDepth 4000 in
theorem pElemBase_segs (m : ElemM) (inv : List Str) (rest : List Seg) (st : St F)
    (h : noneStart elemTags rest = true) :
    pElemBase (flat (m.segs inv ++ rest)) st =
      .ok ((specElem m inv st).1, flat rest, (specElem m inv st).2) := by
  have hc : ∀ t ∈ elemTags, canStart t rest = false := fun t ht => canStart_false_of_noneStart h ht
  simp only [elemTags, List.forall_mem_cons, List.not_mem_nil, false_imp_iff, implies_true,
    and_true] at hc
  obtain ⟨h1, h2, h3, h4, h5, h6, h7, h8, h9, h10, h11, h12, h13, h14, h15, h16, h17⟩ := hc
  simp only [pElemBase, ElemM.segs, List.cons_append, List.nil_append, P.bind_def]
  simp (config := { maxDischargeDepth := 3 }) [parseIf_optString, parseIf_optNodeId, parseIf_optBool,
    parseIf_optTable _ _ lookup_visibility, parseIf_optTable _ _ lookup_accessMode,
    parseWhile_manyNodeId, pOptHexElem_opt, canStart, h1, h2, h3, h4, h5, h6, h7, h8, h9, h10, h11,
    h12, h13, h14, h15, h16, h17, specElem]
  rfl


/-! ### immediate-or-reference elements -/

theorem pImmOrPInt_ir (t1 t2 : Str) (x : IR IntLit) (rest : Cur) (st : St F) :
    pImmOrPInt (mkNode (sel2 t1 t2 (irBody IntLit.text x).1) (irBody IntLit.text x).2 :: rest) st =
      .ok ((irIntS x st).1, rest, (irIntS x st).2) := by
  cases x with
  | imm l =>
    simp [pImmOrPInt, P.bind_def, irBody, peekText_body _ _ _ (textView_tb _),
      convertToInt_first _ _ l.ok, P.ofR, pI64_node, irIntS]
    rfl
  | ref n =>
    simp [pImmOrPInt, P.bind_def, irBody, peekText_body _ _ _ (textView_tb _), n.alpha, P.ofR,
      pNodeId_node, irIntS]
    rfl

theorem pImmOrPIntegerId_ir (t1 t2 : Str) (x : IR IntLit) (rest : Cur) (st : St F) :
    pImmOrPIntegerId (mkNode (sel2 t1 t2 (irBody IntLit.text x).1) (irBody IntLit.text x).2 :: rest) st =
      .ok ((irIntIdS x st).1, rest, (irIntIdS x st).2) := by
  cases x with
  | imm l =>
    simp [pImmOrPIntegerId, P.bind_def, pImmOrPInt_ir, irIntS, irIntIdS, storeValue, storeS]
    rfl
  | ref n =>
    simp [pImmOrPIntegerId, P.bind_def, pImmOrPInt_ir, irIntS, irIntIdS]
    rfl

/-- `a.or_else(b)` over a two-tag optional particle (`Min|pMin` …) -/
theorem orElse_opt2 {α β : Type} (t1 t2 : Str) (p : P F β) (body : α → Bool × Body)
    (f : α → St F → β × St F)
    (hp : ∀ a rest st, p (mkNode (sel2 t1 t2 (body a).1) (body a).2 :: rest) st =
      .ok ((f a st).1, rest, (f a st).2))
    (hne : t2 ≠ t1) (v : Option α) (segs : List Seg) (st : St F)
    (h1 : canStart t1 segs = false) (h2 : canStart t2 segs = false) :
    orElse (parseIf t1 p) (parseIf t2 p) (flat (.opt2 t1 t2 (v.map body) :: segs)) st =
      .ok ((optS f v st).1, flat segs, (optS f v st).2) := by
  cases v with
  | none =>
    simp [orElse, P.bind_def, parseIf_skip t1 p segs st h1, parseIf_skip t2 p segs st h2, optS]
  | some a =>
    have := hp a (flat segs) st
    cases hb : (body a).1 with
    | false =>
      simp [hb, sel2] at this
      simp [orElse, P.bind_def, hb, sel2, parseIf_hit, this, optS]
      rfl
    | true =>
      simp [hb, sel2] at this
      simp [orElse, P.bind_def, hb, sel2, parseIf_miss t1 t2 p _ _ _ hne, parseIf_hit, this, optS]

theorem orElse_opt2_intId (t1 t2 : Str) (hne : t2 ≠ t1) (v : Option (IR IntLit)) (segs : List Seg)
    (st : St F) (h1 : canStart t1 segs = false) (h2 : canStart t2 segs = false) :
    orElse (parseIf t1 pImmOrPIntegerId) (parseIf t2 pImmOrPIntegerId)
        (flat (.opt2 t1 t2 (v.map (irBody IntLit.text)) :: segs)) st =
      .ok ((optS irIntIdS v st).1, flat segs, (optS irIntIdS v st).2) :=
  orElse_opt2 t1 t2 pImmOrPIntegerId (irBody IntLit.text) irIntIdS
    (fun a rest st => pImmOrPIntegerId_ir t1 t2 a rest st) hne v segs st h1 h2

theorem orElse_opt2_int (t1 t2 : Str) (hne : t2 ≠ t1) (v : Option (IR IntLit)) (segs : List Seg)
    (st : St F) (h1 : canStart t1 segs = false) (h2 : canStart t2 segs = false) :
    orElse (parseIf t1 pImmOrPInt) (parseIf t2 pImmOrPInt)
        (flat (.opt2 t1 t2 (v.map (irBody IntLit.text)) :: segs)) st =
      .ok ((optS irIntS v st).1, flat segs, (optS irIntS v st).2) :=
  orElse_opt2 t1 t2 pImmOrPInt (irBody IntLit.text) irIntS
    (fun a rest st => pImmOrPInt_ir t1 t2 a rest st) hne v segs st h1 h2

/-! ### Node, Category, Command, Boolean -/

theorem noneStart_nil (tags : List Str) : noneStart tags [] = true := by
  simp [noneStart, canStart]

theorem pPlainNode_render (m : NodeM) (st : St F) :
    pPlainNode m.attr.render m.children st =
      .ok ((specNode m st).1, [], (specNode m st).2) := by
  have h := pElemBase_segs m.elem m.pInvalidators [] (specAttr m.attr st).2 (noneStart_nil _)
  simp only [List.append_nil] at h
  simp [pPlainNode, NodeM.children, P.bind_def, pAttrBase_render, h, specNode]
  rfl

theorem pCategory_render (m : CategoryM) (st : St F) :
    pCategory m.attr.render m.children st =
      .ok ((specCategory m st).1, [], (specCategory m st).2) := by
  have h := pElemBase_segs m.elem [] [.many cs!"pFeature" (m.pFeatures.map tb)]
    (specAttr m.attr st).2 (by rfl)
  simp [pCategory, CategoryM.children, P.bind_def, pAttrBase_render, h, specCategory,
    parseWhile_manyNodeId_last]
  rfl

theorem pCommand_render (m : CommandM) (st : St F) :
    pCommand m.attr.render m.children st =
      .ok ((specCommand m st).1, [], (specCommand m st).2) := by
  have h := pElemBase_segs m.elem [] [ .one2 cs!"Value" cs!"pValue" (irBody IntLit.text m.value),
      .one2 cs!"CommandValue" cs!"pCommandValue" (irBody IntLit.text m.commandValue),
      .opt cs!"PollingTime" (m.pollingTime.map fun l => tb l.text) ]
    (specAttr m.attr st).2 (by rfl)
  simp [pCommand, CommandM.children, P.bind_def, pAttrBase_render, h, specCommand,
    pImmOrPIntegerId_ir, parseIf_optU64_last]
  rfl


theorem pImmOrPBool_imm (t : Str) (b : BoolLit) (rest : Cur) (st : St F) :
    pImmOrPBool (mkNode t (tb b.text) :: rest) st = .ok (.imm b.val, rest, st) := by
  simp [pImmOrPBool, P.bind_def, peekText_body _ _ _ (textView_tb _), b.ok, pBool_node]
  rfl

theorem pImmOrPBool_ref (t : Str) (n : RefName) (rest : Cur) (st : St F) :
    pImmOrPBool (mkNode t (tb n.name) :: rest) st =
      .ok (.pnode (internS n.name st).1, rest, (internS n.name st).2) := by
  simp [pImmOrPBool, P.bind_def, peekText_body _ _ _ (textView_tb _), n.notBool, pNodeId_node]
  rfl

theorem parseIfD_def {α : Type} (tag : Str) (p : P F α) (d : α) (cur : Cur) (st : St F) :
    parseIfD tag p d cur st =
      (parseIf tag p cur st).bind fun r => .ok (r.1.getD d, r.2.1, r.2.2) := rfl

theorem pBoolean_render (m : BooleanM) (st : St F) :
    pBoolean m.attr.render m.children st =
      .ok ((specBoolean m st).1, [], (specBoolean m st).2) := by
  have h := pElemBase_segs m.elem []
    [ .opt cs!"Streamable" (m.streamable.map fun b => tb b.text),
      .one2 cs!"Value" cs!"pValue" m.value.body,
      .opt cs!"OnValue" (m.onValue.map fun l => tb l.text),
      .opt cs!"OffValue" (m.offValue.map fun l => tb l.text),
      .many cs!"pSelected" (m.pSelected.map tb) ]
    (specAttr m.attr st).2 (by rfl)
  cases hv : m.value with
  | imm b =>
    simp only [hv, BoolValueM.body] at h
    simp [pBoolean, BooleanM.children, P.bind_def, pAttrBase_render, h, specBoolean, hv,
      BoolValueM.body, sel2, parseIfD_def, parseIf_optBool, parseIf_optI64, canStart,
      pImmOrPBool_imm, parseWhile_manyNodeId_last, storeValue, storeS]
    rfl
  | ref n =>
    simp only [hv, BoolValueM.body] at h
    simp [pBoolean, BooleanM.children, P.bind_def, pAttrBase_render, h, specBoolean, hv,
      BoolValueM.body, sel2, parseIfD_def, parseIf_optBool, parseIf_optI64, canStart,
      pImmOrPBool_ref, parseWhile_manyNodeId_last]
    rfl


/-! ### two-tag repeated particles, value kinds -/

theorem orElse_hit2 {β : Type} (t1 t2 : Str) (p : P F β) (hne : t2 ≠ t1) (b : Bool) (bd : Body)
    (rest : Cur) (st : St F) :
    orElse (parseIf t1 p) (parseIf t2 p) (mkNode (sel2 t1 t2 b) bd :: rest) st =
      (p (mkNode (sel2 t1 t2 b) bd :: rest) st).bind fun x => .ok (some x.1, x.2.1, x.2.2) := by
  cases b with
  | false =>
    simp only [sel2, Bool.false_eq_true, if_false, orElse, P.bind_def, parseIf_hit]
    cases p (mkNode t1 bd :: rest) st <;> simp <;> rfl
  | true =>
    simp [sel2, orElse, P.bind_def, parseIf_miss t1 t2 p _ _ _ hne, parseIf_hit]

theorem orElse_skip2 {β : Type} (t1 t2 : Str) (p : P F β) (segs : List Seg) (st : St F)
    (h1 : canStart t1 segs = false) (h2 : canStart t2 segs = false) :
    orElse (parseIf t1 p) (parseIf t2 p) (flat segs) st = .ok (none, flat segs, st) := by
  simp [orElse, P.bind_def, parseIf_skip t1 p segs st h1, parseIf_skip t2 p segs st h2]

theorem whileSome_many2 {α β : Type} (t1 t2 : Str) (p : P F β) (body : α → Bool × Body)
    (f : α → St F → β × St F)
    (hp : ∀ a rest st, p (mkNode (sel2 t1 t2 (body a).1) (body a).2 :: rest) st =
      .ok ((f a st).1, rest, (f a st).2))
    (hne : t2 ≠ t1) (vs : List α) (segs : List Seg) (st : St F)
    (h1 : canStart t1 segs = false) (h2 : canStart t2 segs = false) (n : Nat)
    (hn : (flat (.many2 t1 t2 (vs.map body) :: segs)).length + 1 ≤ n) :
    whileSome (orElse (parseIf t1 p) (parseIf t2 p)) n (flat (.many2 t1 t2 (vs.map body) :: segs)) st =
      .ok ((listS f vs st).1, flat segs, (listS f vs st).2) := by
  induction vs generalizing st n with
  | nil =>
    cases n with
    | zero => omega
    | succ n => simp [whileSome, orElse_skip2 t1 t2 p segs st h1 h2, listS]
  | cons a as ih =>
    cases n with
    | zero => omega
    | succ n =>
      have hle' : (flat (Seg.many2 t1 t2 (List.map body as) :: segs)).length + 1 ≤ n := by
        simp at hn ⊢; omega
      simp [whileSome, orElse_hit2 t1 t2 p hne, hp, ih _ _ hle', listS]

/-- text of an immediate-or-reference -/
def irText {L : Type} (text : L → Str) : IR L → Str
  | .imm l => text l
  | .ref n => n.name

theorem pImmOrPInt_body (tag : Str) (b : Body) (x : IR IntLit)
    (hb : textView b.2 = .ok (irText IntLit.text x)) (rest : Cur) (st : St F) :
    pImmOrPInt (mkNode tag b :: rest) st = .ok ((irIntS x st).1, rest, (irIntS x st).2) := by
  cases x with
  | imm l =>
    simp only [irText] at hb
    simp [pImmOrPInt, P.bind_def, peekText_body _ _ _ hb, convertToInt_first _ _ l.ok, P.ofR,
      pI64_body _ _ l hb, irIntS]
    rfl
  | ref n =>
    simp only [irText] at hb
    simp [pImmOrPInt, P.bind_def, peekText_body _ _ _ hb, n.alpha, P.ofR, pNodeId_body _ _ _ hb,
      irIntS]
    rfl

theorem pImmOrPIntegerId_body (tag : Str) (b : Body) (x : IR IntLit)
    (hb : textView b.2 = .ok (irText IntLit.text x)) (rest : Cur) (st : St F) :
    pImmOrPIntegerId (mkNode tag b :: rest) st = .ok ((irIntIdS x st).1, rest, (irIntIdS x st).2) := by
  cases x with
  | imm l =>
    simp [pImmOrPIntegerId, P.bind_def, pImmOrPInt_body tag b _ hb, irIntS, irIntIdS, storeValue,
      storeS]
    rfl
  | ref n =>
    simp [pImmOrPIntegerId, P.bind_def, pImmOrPInt_body tag b _ hb, irIntS, irIntIdS]
    rfl

theorem textView_indexedBody {L : Type} (text : L → Str) (x : IntLit × IR L) :
    textView (indexedBody text x).2.2 = .ok (irText text x.2) := by
  obtain ⟨i, v⟩ := x
  cases v with
  | imm l =>
    simp only [indexedBody, irText]
    split
    · next h => rw [h]; rfl
    · rfl
  | ref n =>
    simp only [indexedBody, irText]
    split
    · next h => rw [h]; rfl
    · rfl

theorem index_indexedBody {L : Type} (text : L → Str) (x : IntLit × IR L) :
    attrOf (indexedBody text x).2.1 cs!"Index" = some x.1.text := by
  obtain ⟨i, v⟩ := x
  cases v <;> simp [indexedBody, attrOf]

/-- `ValueIndexed` / `pValueIndexed` for an integer node -/
theorem pValueIndexed_int (t1 t2 : Str) (x : IntLit × IR IntLit) (rest : Cur) (st : St F) :
    pValueIndexed pImmOrPIntegerId
        (mkNode (sel2 t1 t2 (indexedBody IntLit.text x).1) (indexedBody IntLit.text x).2 :: rest) st =
      .ok ((indexedS irIntIdS x st).1, rest, (indexedS irIntIdS x st).2) := by
  simp [pValueIndexed, P.bind_def, P.bind_def', peekElem_node, index_indexedBody, ofOpt, x.1.ok, P.ofR,
    pImmOrPIntegerId_body _ _ x.2 (textView_indexedBody IntLit.text x), indexedS, Bind.bind, Res.bind]
  rfl

theorem pIntegerId_node (tag : Str) (l : IntLit) (rest : Cur) (st : St F) :
    pIntegerId (mkNode tag (tb l.text) :: rest) st =
      .ok ((storeS (.int l.val) st).1, rest, (storeS (.int l.val) st).2) := by
  simp [pIntegerId, P.bind_def, pI64_node, storeValue, storeS]

theorem textView_irBody {L : Type} (text : L → Str) (x : IR L) :
    textView (irBody text x).2.2 = .ok (irText text x) := by
  cases x <;> simp [irBody, irText]

/-- `ValueKind<IntegerId>`: `Value` | `pValueCopy* pValue pValueCopy*` | `pIndex …` -/
theorem pValueKind_int (v : ValueM IntLit) (segs : List Seg) (st : St F)
    (h1 : canStart cs!"pValueCopy" segs = false) (h2 : canStart cs!"ValueIndexed" segs = false)
    (h3 : canStart cs!"pValueIndexed" segs = false) :
    pValueKind pIntegerId pImmOrPIntegerId (flat (v.segs IntLit.text ++ segs)) st =
      .ok ((valueS (fun l => .int l.val) irIntIdS v st).1, flat segs,
        (valueS (fun l => .int l.val) irIntIdS v st).2) := by
  cases v with
  | value l =>
    simp [pValueKind, ValueM.segs, P.bind_def, peekElem_node, pIntegerId_node, valueS]
    rfl
  | pValue before p after =>
    have e1 := fun st => parseWhile_manyNodeId (F := F) cs!"pValueCopy" before
      (.one cs!"pValue" (tb p) :: .many cs!"pValueCopy" (after.map tb) :: segs) st (by rfl)
    have e2 := fun st => parseWhile_manyNodeId (F := F) cs!"pValueCopy" after segs st h1
    cases before with
    | nil =>
      simp [listS] at e1
      simp [pValueKind, ValueM.segs, P.bind_def, peekElem_node, pPValue, pNodeId_node, e1, e2, valueS,
        listS]
      rfl
    | cons b bs =>
      simp only [List.map_cons] at e1
      simp [pValueKind, ValueM.segs, P.bind_def, peekElem_node, pPValue, e1, pNodeId_node, e2, valueS]
      rfl
  | pIndex p indexed dflt =>
    have e1 := fun st n hn => whileSome_many2 (F := F) cs!"ValueIndexed" cs!"pValueIndexed"
      (pValueIndexed pImmOrPIntegerId) (indexedBody IntLit.text) (indexedS irIntIdS)
      (fun a rest st => pValueIndexed_int _ _ a rest st) (by decide) indexed
      (.one2 cs!"ValueDefault" cs!"pValueDefault" (irBody IntLit.text dflt) :: segs) st (by rfl)
      (by rfl) n hn
    simp [pValueKind, ValueM.segs, P.bind_def, peekElem_node, pPIndex, pNodeId_node, valueS]
    rw [e1 _ _ (by simp)]
    simp [pImmOrPIntegerId_body _ _ dflt (textView_irBody IntLit.text dflt)]
    rfl

end CamVerif.XmlParse
