/-
Helper lemmas for the publishing device of C15 (`Model/StreamingPublish.lean`).
-/
import CamVerif.Proofs.C15Limits
import CamVerif.Model.StreamingPublish
namespace CamVerif.C15
open CamVerif CamVerif.Streaming

theorem Mem.ext' (m1 m2 : Mem) (h1 : m1.byte = m2.byte) (h2 : m1.mapped = m2.mapped) : m1 = m2 := by
  cases m1; cases m2; simp only at h1 h2; subst h1; subst h2; rfl

/-- writes to disjoint ranges commute -/
theorem Mem.write_comm (m : Mem) (a : Nat) (d : Bytes) (b : Nat) (e : Bytes)
    (h : a + d.length ≤ b ∨ b + e.length ≤ a) :
    (m.write a d).write b e = (m.write b e).write a d := by
  apply Mem.ext'
  · funext x
    by_cases hb : b ≤ x ∧ x < b + e.length
    · have e1 : ((m.write a d).write b e).byte x = e[x - b]'(by omega) := by
        have := Mem.byte_write_of_mem (m.write a d) b e (x - b) (by omega)
        rwa [show b + (x - b) = x by omega] at this
      have e2 : ((m.write b e).write a d).byte x = (m.write b e).byte x :=
        Mem.byte_write_of_not_mem _ a d x (by omega)
      have e3 : (m.write b e).byte x = e[x - b]'(by omega) := by
        have := Mem.byte_write_of_mem m b e (x - b) (by omega)
        rwa [show b + (x - b) = x by omega] at this
      rw [e1, e2, e3]
    · have e1 : ((m.write a d).write b e).byte x = (m.write a d).byte x :=
        Mem.byte_write_of_not_mem _ b e x (by omega)
      by_cases ha : a ≤ x ∧ x < a + d.length
      · have e2 : (m.write a d).byte x = d[x - a]'(by omega) := by
          have := Mem.byte_write_of_mem m a d (x - a) (by omega)
          rwa [show a + (x - a) = x by omega] at this
        have e3 : ((m.write b e).write a d).byte x = d[x - a]'(by omega) := by
          have := Mem.byte_write_of_mem (m.write b e) a d (x - a) (by omega)
          rwa [show a + (x - a) = x by omega] at this
        rw [e1, e2, e3]
      · have e2 : (m.write a d).byte x = m.byte x := Mem.byte_write_of_not_mem _ a d x (by omega)
        have e3 : ((m.write b e).write a d).byte x = (m.write b e).byte x :=
          Mem.byte_write_of_not_mem _ a d x (by omega)
        have e4 : (m.write b e).byte x = m.byte x := Mem.byte_write_of_not_mem _ b e x (by omega)
        rw [e1, e2, e3, e4]
  · rfl

theorem devWriteP_noclear (P : Publication) (a : Nat) (data : Bytes)
    (h : clearsEnable P.ctrl a data = false) : devWriteP P a data = devWrite a data := by
  funext s
  simp [devWriteP, h]

theorem clearsEnable_away (ctrl a : Nat) (data : Bytes) (h : ctrl < a ∨ a + data.length ≤ ctrl) :
    clearsEnable ctrl a data = false := by
  simp only [clearsEnable]
  by_cases ha : a ≤ ctrl
  · have : data[ctrl - a]? = none := by rw [List.getElem?_eq_none_iff]; omega
    simp [this]
  · simp [ha]

theorem readRegG_pub (P : Publication) : readRegG (Prim.publishing P) = readReg := rfl
theorem getSirmG_pub (P : Publication) : getSirmG (Prim.publishing P) = getSirm := rfl
theorem getSbrmG_pub (P : Publication) : getSbrmG (Prim.publishing P) = getSbrm := rfl
theorem fromControlG_pub (P : Publication) : fromControlG (Prim.publishing P) = fromControl := rfl

/-- a register write that does not cover the enable-bit byte is the plain write -/
theorem writeReg32G_pub_away (P : Publication) (base off v : Nat)
    (h : P.ctrl < base + off ∨ base + off + 4 ≤ P.ctrl) :
    writeReg32G (Prim.publishing P) base off v = writeReg32 base off v := by
  unfold writeReg32G writeReg32
  cases h1 : regAddr base off with
  | ok a =>
    have := regAddr_eq h1
    subst this
    have : devWriteP P (base + off) (toLE 4 v) = devWrite (base + off) (toLE 4 v) :=
      devWriteP_noclear P _ _ (clearsEnable_away _ _ _ (by simp; omega))
    funext st
    simp only [Prim.publishing, bind, M.bind, M.lift, this]
  | err e => rfl
  | panic => rfl

/-- the enable write (`SI_CONTROL := 1`) publishes nothing -/
theorem writeReg32G_pub_odd (P : Publication) (base off : Nat) (h : P.ctrl = base + off) :
    writeReg32G (Prim.publishing P) base off 1 = writeReg32 base off 1 := by
  unfold writeReg32G writeReg32
  cases h1 : regAddr base off with
  | ok a =>
    have := regAddr_eq h1
    subst this
    have : devWriteP P (base + off) (toLE 4 1) = devWrite (base + off) (toLE 4 1) :=
      devWriteP_noclear P _ _ (by rw [h]; simp [clearsEnable, toLE])
    funext st
    simp only [Prim.publishing, bind, M.bind, M.lift, this]
  | err e => rfl
  | panic => rfl

theorem writeAllG_pub (P : Publication) (s : Nat) (ws : List (Nat × Nat))
    (h : ∀ w ∈ ws, P.ctrl < s + w.1 ∨ s + w.1 + 4 ≤ P.ctrl) :
    writeAllG (Prim.publishing P) s ws = writeAll s ws := by
  induction ws with
  | nil => rfl
  | cons w ws ih =>
    obtain ⟨off, v⟩ := w
    simp only [writeAllG, writeAll]
    rw [writeReg32G_pub_away P s off v (h (off, v) (by simp)), ih (fun w hw => h w (by simp [hw]))]

/-- the disable write on a fault-free device: executed, acknowledged, and the device publishes -/
theorem writeReg32G_pub_disable (P : Publication) (s : Nat) (m : Mem) (log sb si)
    (hc : P.ctrl = s + SI_CONTROL) (ha : s + SI_CONTROL + 4 ≤ 2 ^ 64)
    (hm : m.rangeMapped (s + SI_CONTROL) 4 = true)
    (hp : m.rangeMapped P.addr P.data.length = true) :
    writeReg32G (Prim.publishing P) s SI_CONTROL 0 (mkSt m log sb si) =
      (.ok (), mkSt ((m.write (s + SI_CONTROL) (toLE 4 0)).write P.addr P.data)
        (log ++ [.w (s + SI_CONTROL) (toLE 4 0) true true]) sb si) := by
  have h1 : regAddr s SI_CONTROL = .ok (s + SI_CONTROL) := by
    simp only [regAddr]; rw [if_pos (by omega)]
  have h2 : verifyRange (s + SI_CONTROL) 4 = .ok () := by
    simp only [verifyRange]; rw [if_pos (by omega)]
  have h3 : clearsEnable P.ctrl (s + SI_CONTROL) (toLE 4 0) = true := by
    rw [hc]; simp [clearsEnable, toLE]
  simp [writeReg32G, M.bind_eq, M.lift, h1, h2, Prim.publishing, devWriteP, Dev.executes, devWrite,
    Dev.write, popFault, hm, hp, h3]

/-- no publication pending effect when the write is not reached: the not-enabled run is the plain run -/
theorem sizeWrites_away (P : Publication) (s : Nat) (hc : P.ctrl = s + SI_CONTROL) (sz : Sizes) :
    ∀ w ∈ sizeWrites sz, P.ctrl < s + w.1 ∨ s + w.1 + 4 ≤ P.ctrl := by
  intro w hw
  simp only [sizeWrites, List.mem_cons, List.not_mem_nil, or_false] at hw
  rcases hw with rfl | rfl | rfl | rfl | rfl | rfl <;>
    simp [hc, SI_CONTROL, PAYLOAD_TRANSFER_SIZE_REG, PAYLOAD_TRANSFER_COUNT, PAYLOAD_FINAL_TRANSFER1_SIZE,
      PAYLOAD_FINAL_TRANSFER2_SIZE, MAXIMUM_LEADER_SIZE, MAXIMUM_TRAILER_SIZE]

/-- the publication of a U3V device: required payload (8 bytes), leader (4), trailer (4) at
SIRM + 8, triggered by clearing bit 0 of SI_CONTROL -/
def pubOf (s : Nat) (pd : Bytes) : Publication := ⟨s + SI_CONTROL, s + REQUIRED_PAYLOAD_SIZE, pd⟩

theorem M.bind_congr_at {α β : Type} {x y : M α} (f : α → M β) {st st' : St} (h : x st = y st') :
    (x >>= f) st = (y >>= f) st' := by
  rw [M.bind_eq, M.bind_eq, h]

/-- the reads and the disable write of `enable_streaming` on the publishing device with a still
enabled stream = the same code on a plain device that already shows the published registers -/
theorem readInputsG_pub_enabled (s : Nat) (pd : Bytes) (m : Mem) (log sb si) (hs : SirmOk m s)
    (hen : enabledIn m s) (hpd : pd.length = 16) :
    readInputsG (Prim.publishing (pubOf s pd)) s (mkSt m log sb si) =
      readInputs s (mkSt (m.write (s + REQUIRED_PAYLOAD_SIZE) pd) log sb si) := by
  have hsp := hs.inSpace
  simp only [SIRM_LEN] at hsp
  have m4 := hs.sub SI_CONTROL 4 (by decide)
  have mP : m.rangeMapped (s + REQUIRED_PAYLOAD_SIZE) pd.length = true := by
    rw [hpd]; exact hs.sub REQUIRED_PAYLOAD_SIZE 16 (by decide)
  have hen' : regVal m s SI_CONTROL 4 % 2 = 1 := hen
  simp only [regVal] at hen'
  have d4 : (m.write (s + REQUIRED_PAYLOAD_SIZE) pd).read (s + SI_CONTROL) 4 = m.read (s + SI_CONTROL) 4 :=
    Mem.read_write_disjoint _ _ _ _ _ (by simp [SI_CONTROL, REQUIRED_PAYLOAD_SIZE])
  unfold readInputsG readInputs
  simp only [readRegG_pub]
  rw [M.bind_ok _ _ _ _ _ (readReg_ok s SI_CONTROL 4 m log sb si (by decide) (by simp only [SI_CONTROL]; omega) m4)]
  rw [M.bind_ok _ _ _ _ _ (readReg_ok s SI_CONTROL 4 (m.write (s + REQUIRED_PAYLOAD_SIZE) pd) log sb si (by decide)
    (by simp only [SI_CONTROL]; omega) (by simpa using m4))]
  rw [d4]
  simp only [hen', if_true]
  rw [M.bind_ok _ _ _ _ _ (writeReg32G_pub_disable (pubOf s pd) s m _ sb si rfl
    (by simp only [SI_CONTROL]; omega) m4 mP)]
  rw [M.bind_ok _ _ _ _ _ (writeReg32_ok s SI_CONTROL 0 (m.write (s + REQUIRED_PAYLOAD_SIZE) pd) _ sb si
    (by simp only [SI_CONTROL]; omega) (by simpa using m4))]
  rw [show (pubOf s pd).addr = s + REQUIRED_PAYLOAD_SIZE from rfl, show (pubOf s pd).data = pd from rfl,
    Mem.write_comm m (s + SI_CONTROL) (toLE 4 0) (s + REQUIRED_PAYLOAD_SIZE) pd
      (by simp [SI_CONTROL, REQUIRED_PAYLOAD_SIZE])]

/-- ... and when the stream is not enabled nothing is published: the plain run -/
theorem readInputsG_pub_disabled (s : Nat) (pd : Bytes) (m : Mem) (log sb si) (hs : SirmOk m s)
    (hen : ¬ enabledIn m s) :
    readInputsG (Prim.publishing (pubOf s pd)) s (mkSt m log sb si) = readInputs s (mkSt m log sb si) := by
  have hsp := hs.inSpace
  simp only [SIRM_LEN] at hsp
  have m4 := hs.sub SI_CONTROL 4 (by decide)
  have hen' : ¬ regVal m s SI_CONTROL 4 % 2 = 1 := hen
  simp only [regVal] at hen'
  unfold readInputsG readInputs
  simp only [readRegG_pub]
  rw [M.bind_ok _ _ _ _ _ (readReg_ok s SI_CONTROL 4 m log sb si (by decide) (by simp only [SI_CONTROL]; omega) m4)]
  rw [M.bind_ok _ _ _ _ _ (readReg_ok s SI_CONTROL 4 m log sb si (by decide) (by simp only [SI_CONTROL]; omega) m4)]
  simp only [hen', if_false]

theorem enableAtG_pub_of_inputs (p : Profile) (s : Nat) (pd : Bytes) (st st' : St)
    (h : readInputsG (Prim.publishing (pubOf s pd)) s st = readInputs s st') :
    enableAtG (Prim.publishing (pubOf s pd)) p s st = enableAt p s st' := by
  have hwa : ∀ sz, writeAllG (Prim.publishing (pubOf s pd)) s (sizeWrites sz) = writeAll s (sizeWrites sz) :=
    fun sz => writeAllG_pub _ s _ (sizeWrites_away _ s rfl sz)
  unfold enableAtG enableAt prepareAtG prepareAt
  simp only [hwa, writeReg32G_pub_odd (pubOf s pd) s SI_CONTROL rfl]
  exact M.bind_congr_at _ (M.bind_congr_at _ h)

theorem enableAtG_pub_enabled (p : Profile) (s : Nat) (pd : Bytes) (m : Mem) (log sb si) (hs : SirmOk m s)
    (hen : enabledIn m s) (hpd : pd.length = 16) :
    enableAtG (Prim.publishing (pubOf s pd)) p s (mkSt m log sb si) =
      enableAt p s (mkSt (m.write (s + REQUIRED_PAYLOAD_SIZE) pd) log sb si) :=
  enableAtG_pub_of_inputs p s pd _ _ (readInputsG_pub_enabled s pd m log sb si hs hen hpd)

theorem enableAtG_pub_disabled (p : Profile) (s : Nat) (pd : Bytes) (m : Mem) (log sb si) (hs : SirmOk m s)
    (hen : ¬ enabledIn m s) :
    enableAtG (Prim.publishing (pubOf s pd)) p s (mkSt m log sb si) = enableAt p s (mkSt m log sb si) :=
  enableAtG_pub_of_inputs p s pd _ _ (readInputsG_pub_disabled s pd m log sb si hs hen)

/-! ### The required-size registers are not touched by the call -/

theorem applyWrites_read_required (s : Nat) (ws : List (Nat × Nat)) (m : Mem) (b n : Nat)
    (hoff : ∀ w ∈ ws, w.1 + 4 ≤ REQUIRED_PAYLOAD_SIZE ∨ MAXIMUM_LEADER_SIZE ≤ w.1)
    (h1 : s + REQUIRED_PAYLOAD_SIZE ≤ b) (h2 : b + n ≤ s + MAXIMUM_LEADER_SIZE) :
    (applyWrites s ws m).read b n = m.read b n := by
  induction ws generalizing m with
  | nil => rfl
  | cons w ws ih =>
    have := hoff w (by simp)
    simp only [applyWrites]
    rw [ih _ (fun w hw => hoff w (by simp [hw])), read_write32_ne _ _ _ _ _ (by
      simp only [REQUIRED_PAYLOAD_SIZE, MAXIMUM_LEADER_SIZE] at *; omega)]

/-- `enable_streaming` leaves the registers SIRM+8 .. SIRM+0x18 (required payload / leader /
trailer) alone -/
theorem enableImage_read_required (m : Mem) (s : Nat) (sz : Sizes) (b n : Nat)
    (h1 : s + REQUIRED_PAYLOAD_SIZE ≤ b) (h2 : b + n ≤ s + MAXIMUM_LEADER_SIZE) :
    (enableImage m s sz).read b n = m.read b n := by
  unfold enableImage
  rw [applyWrites_read_required _ _ _ _ _ _ h1 h2]
  · unfold afterDisable; split
    · exact read_write32_ne _ _ _ _ _ (by
        simp only [SI_CONTROL, REQUIRED_PAYLOAD_SIZE, MAXIMUM_LEADER_SIZE] at *; omega)
    · rfl
  · intro w hw
    simp only [sizeWrites, List.cons_append, List.nil_append, List.mem_cons, List.not_mem_nil, or_false] at hw
    rcases hw with rfl | rfl | rfl | rfl | rfl | rfl | rfl <;>
      simp [REQUIRED_PAYLOAD_SIZE, PAYLOAD_TRANSFER_SIZE_REG, PAYLOAD_TRANSFER_COUNT, PAYLOAD_FINAL_TRANSFER1_SIZE,
        PAYLOAD_FINAL_TRANSFER2_SIZE, MAXIMUM_LEADER_SIZE, MAXIMUM_TRAILER_SIZE, SI_CONTROL]

/-- a write inside the SIRM (any length) does not re-route the bootstrap chain -/
theorem Bootstrap.write_in_sirm {m : Mem} {sb s : Nat} (h : Bootstrap m sb s) (off : Nat) (d : Bytes)
    (ho : off + d.length ≤ SIRM_LEN) : Bootstrap (m.write (s + off) d) sb s := by
  have ha := h.abrmDisjoint
  have hb := h.sbrmDisjoint
  simp only [ABRM_DEVICE_CAPABILITY, SIRM_LEN] at ha hb ho
  refine ⟨by simpa using h.abrmMapped, ?_, h.sbrmSpace, by simpa using h.sbrmMapped, ?_, ?_,
    h.abrmDisjoint, h.sbrmDisjoint⟩
  · simp only [regVal]
    rw [Mem.read_write_disjoint _ _ _ _ _ (by simp only [ABRM_SBRM_ADDRESS]; omega)]
    exact h.sbrmAddr
  · simp only [regVal]
    rw [Mem.read_write_disjoint _ _ _ _ _ (by simp only [SBRM_U3VCP_CAPABILITY]; omega)]
    exact h.sirmCap
  · simp only [regVal]
    rw [Mem.read_write_disjoint _ _ _ _ _ (by simp only [SBRM_SIRM_ADDRESS]; omega)]
    exact h.sirmAddr

/-- the three ways `ControlHandle::sirm` resolves to `s` (cf. `Resolves`), with the cached SBRM
not overlapping the SIRM -/
inductive ResolvesTo (m : Mem) (sb : Option (Nat × Nat)) (si : Option Nat) (s : Nat) : Prop where
  | warm (h : si = some s)
  | cold (h1 : si = none) (h2 : sb = none) (b : Nat) (h3 : Bootstrap m b s)
  | mixed (h1 : si = none) (b cap : Nat) (h2 : sb = some (b, cap)) (hcap : cap % 2 = 1)
      (hsp : b + 0x28 ≤ 2 ^ 64) (hm : m.rangeMapped b 0x28 = true)
      (haddr : regVal m b SBRM_SIRM_ADDRESS 8 = s) (hdis : b + 0x28 ≤ s ∨ s + SIRM_LEN ≤ b)

/-- the resolution does not see a change of SIRM registers -/
theorem resolution_same (m : Mem) (log sb si) (s off : Nat) (d : Bytes) (ho : off + d.length ≤ SIRM_LEN)
    (hr : ResolvesTo m sb si s) :
    ∃ log' sb', getSirm (mkSt m log sb si) = (.ok s, mkSt m log' sb' (some s)) ∧
      getSirm (mkSt (m.write (s + off) d) log sb si) = (.ok s, mkSt (m.write (s + off) d) log' sb' (some s)) := by
  cases hr with
  | warm h => subst h; exact ⟨log, sb, getSirm_warm _ _ _, getSirm_warm _ _ _⟩
  | cold h1 h2 b h3 =>
    subst h1; subst h2
    have hb := h3.sbrmDisjoint
    simp only [SIRM_LEN] at hb ho
    have e : regVal (m.write (s + off) d) b SBRM_U3VCP_CAPABILITY 8 = regVal m b SBRM_U3VCP_CAPABILITY 8 := by
      simp only [regVal]
      rw [Mem.read_write_disjoint _ _ _ _ _ (by simp only [SBRM_U3VCP_CAPABILITY]; omega)]
    refine ⟨_, _, getSirm_cold m b s log h3, ?_⟩
    rw [getSirm_cold _ b s log (Bootstrap.write_in_sirm h3 off d ho), e]
  | mixed h1 b cap h2 hcap hsp hm haddr hdis =>
    subst h1; subst h2
    simp only [SIRM_LEN] at hdis ho
    refine ⟨_, _, getSirm_mixed m b cap s log hcap hsp hm haddr, ?_⟩
    exact getSirm_mixed _ b cap s log hcap hsp (by simpa using hm) (by
      simp only [regVal]
      rw [Mem.read_write_disjoint _ _ _ _ _ (by simp only [SBRM_SIRM_ADDRESS]; omega)]
      exact haddr)

theorem ResolvesTo.write {m : Mem} {sb si} {s : Nat} (h : ResolvesTo m sb si s) (off : Nat) (d : Bytes)
    (ho : off + d.length ≤ SIRM_LEN) : ResolvesTo (m.write (s + off) d) sb si s := by
  cases h with
  | warm h => exact .warm h
  | cold h1 h2 b h3 => exact .cold h1 h2 b (Bootstrap.write_in_sirm h3 off d ho)
  | mixed h1 b cap h2 hcap hsp hm haddr hdis =>
    refine .mixed h1 b cap h2 hcap hsp (by simpa using hm) ?_ hdis
    simp only [SIRM_LEN] at hdis ho
    simp only [regVal]
    rw [Mem.read_write_disjoint _ _ _ _ _ (by simp only [SBRM_SIRM_ADDRESS]; omega)]
    exact haddr

/-- **the run on the publishing device**, whole call -/
theorem enableStreamingG_pub (p : Profile) (s : Nat) (pd : Bytes) (m : Mem) (log sb si) (hs : SirmOk m s)
    (hpd : pd.length = 16) (hr : ResolvesTo m sb si s) :
    (enabledIn m s → enableStreamingG (Prim.publishing (pubOf s pd)) p (mkSt m log sb si) =
      enableStreaming p (mkSt (m.write (s + REQUIRED_PAYLOAD_SIZE) pd) log sb si)) ∧
    (¬ enabledIn m s → enableStreamingG (Prim.publishing (pubOf s pd)) p (mkSt m log sb si) =
      enableStreaming p (mkSt m log sb si)) := by
  obtain ⟨log', sb', g1, g2⟩ := resolution_same m log sb si s REQUIRED_PAYLOAD_SIZE pd
    (by rw [hpd]; decide) hr
  unfold enableStreamingG enableStreaming
  rw [getSirmG_pub]
  constructor
  · intro hen
    rw [M.bind_ok _ _ _ _ _ g1, M.bind_ok _ _ _ _ _ g2]
    exact enableAtG_pub_enabled p s pd m log' sb' (some s) hs hen hpd
  · intro hen
    rw [M.bind_ok _ _ _ _ _ g1, M.bind_ok _ _ _ _ _ g1]
    exact enableAtG_pub_disabled p s pd m log' sb' (some s) hs hen

end CamVerif.C15
