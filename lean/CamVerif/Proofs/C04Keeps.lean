/-
C04 helper lemmas, part 5: store predicates that every operation preserves on EVERY
description (no `Declared`, no coherence): a unary version of the simulation argument.
Instantiated with `NoCacheAbsent`.
-/
import CamVerif.Proofs.C04Ops
namespace CamVerif.C04
open CamVerif CamVerif.Cache

/-- A predicate on stores closed under the invalidations and under caching data for a
cachable register of the description. -/
structure StoreInv (g : Graph) (I : Store → Prop) : Prop where
  invBy : ∀ c n, I c → I (c.invalidateBy n)
  invOf : ∀ c n, I c → I (c.invalidateOf n)
  clear : ∀ c, I c → I c.clear
  cache : ∀ c n r a d, g[n]? = some (.reg r) → r.mode ≠ .noCache → I c → I (c.cache n a r.len d)

/-- `m` preserves `I` -/
def Keeps {α : Type} (I : Store → Prop) (m : M Store α) : Prop :=
  ∀ s, I s.cache → I (m s).2.cache

section Keeps
variable {p : Profile} {g : Graph} {I : Store → Prop}

theorem keeps_same {α : Type} {m : M Store α} (h : ∀ s, (m s).2.cache = s.cache) : Keeps I m :=
  fun s hs => by rw [h]; exact hs

theorem keeps_pure {α : Type} (a : α) : Keeps I (M.pure a : M Store α) := keeps_same fun _ => rfl
theorem keeps_lift {α : Type} (r : R α) : Keeps I (M.lift r : M Store α) := keeps_same fun _ => rfl
theorem keeps_fail {α : Type} (e : Err) : Keeps I (M.fail e : M Store α) := keeps_same fun _ => rfl
theorem keeps_panic {α : Type} : Keeps I (M.panic : M Store α) := keeps_same fun _ => rfl

theorem keeps_bind {α β : Type} {m : M Store α} {f : α → M Store β} (hm : Keeps I m)
    (hf : ∀ a, Keeps I (f a)) : Keeps I (m >>= f) := by
  intro s hs
  rw [bind_apply]
  have h1 := hm s hs
  cases h : (m s).1 with
  | ok a => exact hf a _ h1
  | err e => exact h1
  | panic => exact h1

theorem keeps_invBy (hI : StoreInv g I) (n : NodeId) : Keeps I (invBy defaultCache n) :=
  fun s hs => hI.invBy _ n hs

theorem keeps_invOf (hI : StoreInv g I) (n : NodeId) : Keeps I (invOf defaultCache n) :=
  fun s hs => hI.invOf _ n hs

theorem keeps_clearCache (hI : StoreInv g I) : Keeps I (clearCache defaultCache) :=
  fun s hs => hI.clear _ hs

theorem keeps_readAndCache (hI : StoreInv g I) {n : NodeId} {r : Reg}
    (hn : g[n]? = some (.reg r)) (a : Int) (buflen : Nat) :
    Keeps I (readAndCache defaultCache g n r a buflen) := by
  intro s hs
  rw [readAndCache_eq]
  split
  · exact hs
  split
  · split
    · dsimp only
      split
      · rename_i hm
        exact hI.cache _ _ _ _ _ hn hm hs
      · exact hs
    · exact hs
  · exact hs

theorem keeps_cachedRead (hI : StoreInv g I) {n : NodeId} {r : Reg}
    (hn : g[n]? = some (.reg r)) (a : Int) : Keeps I (cachedRead defaultCache g n r a) := by
  intro s hs
  unfold cachedRead
  split
  · exact hs
  · exact keeps_readAndCache hI hn a r.len s hs

theorem keeps_writeAt (hI : StoreInv g I) {n : NodeId} {r : Reg}
    (hn : g[n]? = some (.reg r)) (a : Int) (buf : Bytes) :
    Keeps I (writeAt defaultCache g n r a buf) := by
  intro s hs
  rw [writeAt_eq]
  have h2 := hI.invBy _ r.port (hI.invBy _ n hs)
  split
  · dsimp only
    split
    · rename_i hc
      exact hI.cache _ _ _ _ _ hn (by rw [hc.2]; decide) (hI.invOf _ n h2)
    · exact hI.invOf _ n h2
  · exact hI.invBy _ n hs

theorem keeps_portWrite (hI : StoreInv g I) (pn : NodeId) (a : Int) (buf : Bytes) :
    Keeps I (portWrite defaultCache g pn a buf) := by
  intro s hs
  rw [portWrite_eq]
  split
  · exact hI.invBy _ pn hs
  · exact hs

theorem keeps_portRead (pn : NodeId) (a : Int) (l : Nat) :
    Keeps I (portRead g pn a l : M Store Bytes) := by
  intro s hs
  rw [portRead_eq]
  split <;> exact hs

theorem keeps_regAddr {ev : NodeId → M Store Int} (hev : ∀ m, Keeps I (ev m)) (r : Reg) :
    Keeps I (regAddr p ev r) := by
  unfold regAddr
  cases r.sel with
  | none => exact keeps_pure _
  | some so =>
    obtain ⟨s, off⟩ := so
    exact keeps_bind (hev s) (fun k => keeps_bind (keeps_lift _) (fun _ => keeps_lift _))

theorem keeps_withCacheOrRead (hI : StoreInv g I) {ev : NodeId → M Store Int}
    (hev : ∀ m, Keeps I (ev m)) {n : NodeId} {r : Reg} (hn : g[n]? = some (.reg r)) :
    Keeps I (withCacheOrRead defaultCache p g ev n r) := by
  unfold withCacheOrRead
  exact keeps_bind (keeps_regAddr hev r) (fun a => keeps_cachedRead hI hn a)

theorem keeps_writeAndCache (hI : StoreInv g I) {ev : NodeId → M Store Int}
    (hev : ∀ m, Keeps I (ev m)) {n : NodeId} {r : Reg} (hn : g[n]? = some (.reg r))
    (buf : Bytes) : Keeps I (writeAndCache defaultCache p g ev n r buf) := by
  unfold writeAndCache
  split
  · exact keeps_fail _
  · exact keeps_bind (keeps_regAddr hev r) (fun a => keeps_writeAt hI hn a buf)

theorem keeps_evalInt (hI : StoreInv g I) (fuel : Nat) :
    ∀ n, Keeps I (evalInt defaultCache p g fuel n) := by
  induction fuel with
  | zero => intro n; simp only [evalInt]; exact keeps_panic
  | succ f ih =>
    intro n
    simp only [evalInt]
    cases hn : g[n]? with
    | none => exact keeps_panic
    | some nd =>
      cases nd with
      | port => exact keeps_fail _
      | command _ _ => exact keeps_fail _
      | integer pv _ => exact ih pv
      | enumeration pv _ => exact ih pv
      | boolean _ _ _ => exact keeps_fail _
      | ctls _ => exact keeps_fail _
      | reg r =>
        dsimp only
        cases r.kind with
        | int e s =>
          exact keeps_bind (keeps_withCacheOrRead hI ih hn) (fun _ => keeps_lift _)
        | masked e s lsb msb =>
          dsimp only
          refine keeps_bind (keeps_withCacheOrRead hI ih hn) (fun _ => ?_)
          refine keeps_bind (keeps_lift _) (fun _ => ?_)
          refine keeps_bind (keeps_lift _) (fun lw => ?_)
          obtain ⟨l, w⟩ := lw
          exact keeps_pure _
        | float _ => exact keeps_fail _
        | string => exact keeps_fail _
        | raw => exact keeps_fail _

theorem keeps_forEachM {f : NodeId → M Store Unit} (hf : ∀ c, Keeps I (f c)) (cs : List NodeId) :
    Keeps I (forEachM f cs) := by
  induction cs with
  | nil => exact keeps_pure _
  | cons c cs ih => exact keeps_bind (hf c) (fun _ => ih)

theorem keeps_setInt (hI : StoreInv g I) (fuel : Nat) :
    ∀ n v, Keeps I (setInt defaultCache p g fuel n v) := by
  induction fuel with
  | zero => intro n v; simp only [setInt]; exact keeps_panic
  | succ f ih =>
    intro n v
    simp only [setInt]
    cases hn : g[n]? with
    | none => exact keeps_panic
    | some nd =>
      cases nd with
      | port => exact keeps_fail _
      | command _ _ => exact keeps_fail _
      | integer pv cs =>
        dsimp only
        refine keeps_bind (keeps_invBy hI n) (fun _ => ?_)
        exact keeps_bind (ih pv v) (fun _ => keeps_forEachM (fun c => ih c v) cs)
      | boolean _ _ _ => exact keeps_fail _
      | ctls _ => exact keeps_fail _
      | enumeration pv vals =>
        dsimp only
        split
        · exact keeps_bind (keeps_invBy hI n) (fun _ => ih pv v)
        · exact keeps_fail _
      | reg r =>
        dsimp only
        cases r.kind with
        | int e s =>
          dsimp only
          refine keeps_bind (keeps_invBy hI n) (fun _ => ?_)
          refine keeps_bind (keeps_lift _) (fun buf => ?_)
          exact keeps_writeAndCache hI (keeps_evalInt hI f) hn buf
        | masked e s lsb msb =>
          dsimp only
          refine keeps_bind (keeps_invBy hI n) (fun _ => ?_)
          refine keeps_bind (keeps_withCacheOrRead hI (keeps_evalInt hI f) hn) (fun bs => ?_)
          refine keeps_bind (keeps_lift _) (fun old => ?_)
          refine keeps_bind (keeps_lift _) (fun lw => ?_)
          obtain ⟨l, w⟩ := lw
          dsimp only
          refine keeps_bind (keeps_lift _) (fun nv => ?_)
          refine keeps_bind (keeps_lift _) (fun buf => ?_)
          exact keeps_writeAndCache hI (keeps_evalInt hI f) hn buf
        | float _ => exact keeps_fail _
        | string => exact keeps_fail _
        | raw => exact keeps_fail _


theorem keeps_ite {α : Type} {c : Prop} [Decidable c] {a b : M Store α} (ha : Keeps I a)
    (hb : Keeps I b) : Keeps I (if c then a else b) := by
  split <;> assumption

theorem keeps_boolFromId (hI : StoreInv g I) (F : Nat) (c : NodeId) :
    Keeps I (boolFromId defaultCache p g F c) := by
  have hev := keeps_evalInt (p := p) hI F
  unfold boolFromId
  cases g[c]? with
  | none => exact keeps_fail _
  | some nd =>
    cases nd with
    | boolean pv on off =>
      exact keeps_bind (hev pv) (fun _ => keeps_ite (keeps_pure _) (keeps_ite (keeps_pure _) (keeps_fail _)))
    | integer _ _ => exact keeps_bind (hev c) (fun _ => keeps_pure _)
    | reg r =>
      dsimp only
      cases r.kind with
      | int _ _ => exact keeps_bind (hev c) (fun _ => keeps_pure _)
      | masked _ _ _ _ => exact keeps_bind (hev c) (fun _ => keeps_pure _)
      | _ => exact keeps_fail _
    | _ => exact keeps_fail _

theorem keeps_ctlVal (hI : StoreInv g I) (F : Nat) (o : Option NodeId) (d : Bool) :
    Keeps I (ctlVal defaultCache p g F o d) := by
  unfold ctlVal
  cases o with
  | none => exact keeps_pure _
  | some c => exact keeps_boolFromId hI F c

theorem keeps_baseReadable (hI : StoreInv g I) (F : Nat) (n : NodeId) :
    Keeps I (baseReadable defaultCache p g F n) := by
  unfold baseReadable
  exact keeps_bind (keeps_ctlVal hI F _ _) (fun _ => keeps_ite (keeps_ctlVal hI F _ _) (keeps_pure _))

theorem keeps_baseWritable (hI : StoreInv g I) (F : Nat) (n : NodeId) :
    Keeps I (baseWritable defaultCache p g F n) := by
  unfold baseWritable
  refine keeps_bind (keeps_ctlVal hI F _ _) (fun _ => keeps_ite ?_ (keeps_pure _))
  refine keeps_bind (keeps_ctlVal hI F _ _) (fun _ => keeps_ite ?_ (keeps_pure _))
  exact keeps_bind (keeps_ctlVal hI F _ _) (fun _ => keeps_pure _)

theorem keeps_isReadableI (hI : StoreInv g I) (F : Nat) (fuel : Nat) :
    ∀ n, Keeps I (isReadableI defaultCache p g F fuel n) := by
  induction fuel with
  | zero => intro n; simp only [isReadableI]; exact keeps_panic
  | succ f ih =>
    intro n
    simp only [isReadableI]
    cases g[n]? with
    | none => exact keeps_panic
    | some nd =>
      cases nd with
      | integer pv _ =>
        exact keeps_bind (keeps_baseReadable hI F n) (fun _ => keeps_ite (ih pv) (keeps_pure _))
      | enumeration pv _ =>
        exact keeps_bind (keeps_baseReadable hI F n) (fun _ => keeps_ite (ih pv) (keeps_pure _))
      | reg r =>
        dsimp only
        cases r.kind with
        | int _ _ => exact keeps_bind (keeps_baseReadable hI F n) (fun _ => keeps_pure _)
        | masked _ _ _ _ => exact keeps_bind (keeps_baseReadable hI F n) (fun _ => keeps_pure _)
        | _ => exact keeps_pure _
      | _ => exact keeps_pure _

theorem keeps_andAllM {f : NodeId → M Store Bool} (hf : ∀ c, Keeps I (f c)) (cs : List NodeId) :
    ∀ b, Keeps I (andAllM f cs b) := by
  induction cs with
  | nil => intro b; exact keeps_pure _
  | cons c cs ih => intro b; exact keeps_bind (hf c) (fun _ => ih _)

theorem keeps_isWritableI (hI : StoreInv g I) (F : Nat) (fuel : Nat) :
    ∀ n, Keeps I (isWritableI defaultCache p g F fuel n) := by
  induction fuel with
  | zero => intro n; simp only [isWritableI]; exact keeps_panic
  | succ f ih =>
    intro n
    simp only [isWritableI]
    cases g[n]? with
    | none => exact keeps_panic
    | some nd =>
      cases nd with
      | integer pv cs =>
        refine keeps_bind (keeps_baseWritable hI F n) (fun _ => keeps_ite ?_ (keeps_pure _))
        exact keeps_bind (ih pv) (fun x => keeps_andAllM ih cs x)
      | enumeration pv _ =>
        exact keeps_bind (keeps_baseWritable hI F n) (fun _ => keeps_ite (ih pv) (keeps_pure _))
      | reg r =>
        dsimp only
        cases r.kind with
        | int _ _ => exact keeps_bind (keeps_baseWritable hI F n) (fun _ => keeps_pure _)
        | masked _ _ _ _ => exact keeps_bind (keeps_baseWritable hI F n) (fun _ => keeps_pure _)
        | _ => exact keeps_pure _
      | _ => exact keeps_pure _

theorem keeps_evalOp (hI : StoreInv g I) (fuel : Nat) (op : Op) :
    Keeps I (evalOp defaultCache p g fuel op) := by
  have hev := keeps_evalInt (p := p) hI fuel
  have hset := keeps_setInt (p := p) hI fuel
  cases op with
  | value n =>
    simp only [evalOp, opValue]
    cases hn : g[n]? with
    | none => exact keeps_fail _
    | some nd =>
      cases nd with
      | port => exact keeps_fail _
      | command _ _ => exact keeps_fail _
      | ctls _ => exact keeps_fail _
      | integer _ _ => exact keeps_bind (hev n) (fun _ => keeps_pure _)
      | enumeration _ _ => exact keeps_bind (hev n) (fun _ => keeps_pure _)
      | boolean pv on off =>
        exact keeps_bind (hev pv) (fun _ =>
          keeps_ite (keeps_pure _) (keeps_ite (keeps_pure _) (keeps_fail _)))
      | reg r =>
        dsimp only
        cases r.kind with
        | int _ _ => exact keeps_bind (hev n) (fun _ => keeps_pure _)
        | masked _ _ _ _ => exact keeps_bind (hev n) (fun _ => keeps_pure _)
        | float e =>
          exact keeps_bind (keeps_withCacheOrRead hI hev hn) (fun _ => keeps_lift _)
        | string =>
          exact keeps_bind (keeps_withCacheOrRead hI hev hn) (fun _ => keeps_pure _)
        | raw => exact keeps_fail _
  | setValue n v =>
    simp only [evalOp, opSetValue]
    cases hn : g[n]? with
    | none => exact keeps_fail _
    | some nd =>
      cases nd with
      | port => exact keeps_fail _
      | command _ _ => exact keeps_fail _
      | ctls _ => exact keeps_fail _
      | integer _ _ =>
        cases v <;> first | exact keeps_fail _ | exact keeps_bind (hset n _) (fun _ => keeps_pure _)
      | enumeration _ _ =>
        cases v <;> first | exact keeps_fail _ | exact keeps_bind (hset n _) (fun _ => keeps_pure _)
      | boolean pv on off =>
        cases v <;> first
          | exact keeps_fail _
          | exact keeps_bind (keeps_invBy hI n) (fun _ =>
              keeps_bind (hset pv _) (fun _ => keeps_pure _))
      | reg r =>
        dsimp only
        cases r.kind with
        | int _ _ =>
          cases v <;> first | exact keeps_fail _ | exact keeps_bind (hset n _) (fun _ => keeps_pure _)
        | masked _ _ _ _ =>
          cases v <;> first | exact keeps_fail _ | exact keeps_bind (hset n _) (fun _ => keeps_pure _)
        | float e =>
          cases v <;> first
            | exact keeps_fail _
            | exact keeps_bind (keeps_invBy hI n) (fun _ => keeps_bind (keeps_lift _) (fun buf =>
                keeps_bind (keeps_writeAndCache hI hev hn buf) (fun _ => keeps_pure _)))
        | string =>
          cases v <;> first
            | exact keeps_fail _
            | exact keeps_bind (keeps_lift _) (fun buf => keeps_bind (keeps_invBy hI n) (fun _ =>
                keeps_bind (keeps_writeAndCache hI hev hn buf) (fun _ => keeps_pure _)))
        | raw => cases v <;> exact keeps_fail _
  | read n l =>
    simp only [evalOp, opRead]
    cases hn : g[n]? with
    | none => exact keeps_fail _
    | some nd =>
      cases nd with
      | reg r =>
        exact keeps_bind (keeps_regAddr hev r) (fun a =>
          keeps_bind (keeps_readAndCache hI hn a l) (fun _ => keeps_pure _))
      | _ => exact keeps_fail _
  | write n d =>
    simp only [evalOp, opWrite]
    cases hn : g[n]? with
    | none => exact keeps_fail _
    | some nd =>
      cases nd with
      | reg r => exact keeps_bind (keeps_writeAndCache hI hev hn d) (fun _ => keeps_pure _)
      | _ => exact keeps_fail _
  | execute n =>
    simp only [evalOp, opExecute]
    cases hn : g[n]? with
    | none => exact keeps_fail _
    | some nd =>
      cases nd with
      | command pv cv =>
        exact keeps_bind (keeps_invBy hI n) (fun _ => keeps_bind (hset pv cv) (fun _ => keeps_pure _))
      | _ => exact keeps_fail _
  | isDone n =>
    simp only [evalOp, opIsDone]
    cases hn : g[n]? with
    | none => exact keeps_fail _
    | some nd =>
      cases nd with
      | command pv cv =>
        refine keeps_bind (keeps_invOf hI pv) (fun _ => keeps_bind (keeps_isReadableI hI (fuel) fuel pv) (fun rd => ?_))
        exact keeps_ite (keeps_bind (hev pv) (fun _ => keeps_pure _)) (keeps_pure _)
      | _ => exact keeps_fail _
  | portRead n a l => exact keeps_bind (keeps_portRead n a l) (fun _ => keeps_pure _)
  | portWrite n a d => exact keeps_bind (keeps_portWrite hI n a d) (fun _ => keeps_pure _)
  | clearCache => exact keeps_bind (keeps_clearCache hI) (fun _ => keeps_pure _)
  | isReadable n =>
    simp only [evalOp, opIsReadable]
    cases g[n]? with
    | none => exact keeps_fail _
    | some nd =>
      cases nd with
      | reg r =>
        dsimp only
        cases r.kind <;> first
          | exact keeps_fail _
          | exact keeps_bind (keeps_baseReadable hI fuel n) (fun _ => keeps_pure _)
      | integer _ _ => exact keeps_bind (keeps_isReadableI hI fuel fuel n) (fun _ => keeps_pure _)
      | enumeration _ _ => exact keeps_bind (keeps_isReadableI hI fuel fuel n) (fun _ => keeps_pure _)
      | boolean pv _ _ =>
        exact keeps_bind (keeps_baseReadable hI fuel n) (fun _ => keeps_ite
          (keeps_bind (keeps_isReadableI hI fuel fuel pv) (fun _ => keeps_pure _)) (keeps_pure _))
      | _ => exact keeps_fail _
  | isWritable n =>
    simp only [evalOp, opIsWritable]
    have hfeat : ∀ pv, Keeps I
        (do let b ← baseWritable defaultCache p g fuel n
            if b then do
              let x ← isWritableI defaultCache p g fuel fuel pv
              M.pure (Val.bool x)
            else M.pure (Val.bool false)) := fun pv =>
      keeps_bind (keeps_baseWritable hI fuel n) (fun _ => keeps_ite
        (keeps_bind (keeps_isWritableI hI fuel fuel pv) (fun _ => keeps_pure _)) (keeps_pure _))
    cases g[n]? with
    | none => exact keeps_fail _
    | some nd =>
      cases nd with
      | reg r =>
        dsimp only
        cases r.kind <;> first
          | exact keeps_fail _
          | exact keeps_bind (keeps_baseWritable hI fuel n) (fun _ => keeps_pure _)
      | integer _ _ => exact keeps_bind (keeps_isWritableI hI fuel fuel n) (fun _ => keeps_pure _)
      | enumeration pv _ => exact hfeat pv
      | boolean pv _ _ => exact hfeat pv
      | command pv _ => exact hfeat pv
      | _ => exact keeps_fail _
  | address n =>
    simp only [evalOp, opAddress]
    cases hn : g[n]? with
    | none => exact keeps_fail _
    | some nd =>
      cases nd with
      | reg r => exact keeps_bind (keeps_regAddr hev r) (fun _ => keeps_pure _)
      | _ => exact keeps_fail _

theorem keeps_runHist (hI : StoreInv g I) (h : List Op) :
    ∀ s : St Store, I s.cache → I (runHist defaultCache p g s h).2.cache := by
  induction h with
  | nil => intro s hs; exact hs
  | cons op rest ih =>
    intro s hs
    have h1 : I (run defaultCache p g s op).2.cache := keeps_evalOp hI (fuelOf g) op s hs
    rw [runHist_cons]
    cases hr : (run defaultCache p g s op).1 with
    | panic => exact h1
    | ok v => exact ih _ h1
    | err e => exact ih _ h1

/-! ### the instance: no entry for a NoCache register -/

theorem storeInv_noCacheAbsent (g : Graph) : StoreInv g (NoCacheAbsent g) where
  invBy c n h := fun n' r hn hm a l => by
    rw [get_invalidateBy]; split
    · rfl
    · exact h n' r hn hm a l
  invOf c n h := fun n' r hn hm a l => by
    rw [get_invalidateOf]; split
    · rfl
    · exact h n' r hn hm a l
  clear c _ := fun n' r _ _ a l => get_clear _ _ _ _
  cache c n r a d hn hmode h := fun n' r' hn' hm' a' l' => by
    rw [get_cache]
    split
    · rename_i e
      obtain ⟨rfl, _, _⟩ := e
      rw [hn] at hn'
      cases hn'
      exact absurd hm' hmode
    · exact h n' r' hn' hm' a' l'

theorem noCacheAbsent_init (g : Graph) (d : Dev) : NoCacheAbsent g (initDefault g d).cache :=
  fun n _ _ _ a l => buildStore_get g n a l

/-! ### NoCache registers, operation level (only `NoCacheAbsent` is needed) -/

/-- `with_cache_or_read` on a NoCache register: a successful result was just read from the
device (newest log entry), after whatever the address evaluation logged. -/
theorem wcor_nocache (f : Nat) {s s' : St Store} (hA : NoCacheAbsent g s.cache) {n : NodeId}
    {r : Reg} (hn : g[n]? = some (.reg r)) (hm : r.mode = .noCache) {bs : Bytes}
    (h : withCacheOrRead defaultCache p g (evalInt defaultCache p g f) n r s = (.ok bs, s')) :
    ∃ a pre, s'.dev.log = ⟨false, a, r.len, bs, true⟩ :: (pre ++ s.dev.log) := by
  unfold withCacheOrRead at h
  obtain ⟨a, ha, h2⟩ := bind_ok_inv h
  have hA1 : NoCacheAbsent g (regAddr p (evalInt defaultCache p g f) r s).2.cache :=
    keeps_regAddr (keeps_evalInt (p := p) (storeInv_noCacheAbsent g) f) r s hA
  obtain ⟨pre, hpre⟩ := grows_regAddr p (grows_evalInt defaultCache p g f) r s
  rw [cachedRead_nocache hA1 hn hm] at h2
  obtain ⟨hlog, _⟩ := readAndCache_ok_log h2
  exact ⟨a, pre, by rw [hlog, hpre]⟩


/-- integer-valued read of a NoCache IntReg / MaskedIntReg -/
theorem evalInt_nocache (f : Nat) {s s' : St Store} (hA : NoCacheAbsent g s.cache) {n : NodeId}
    {r : Reg} (hn : g[n]? = some (.reg r)) (hm : r.mode = .noCache) {v : Int}
    (h : evalInt defaultCache p g (f + 1) n s = (.ok v, s')) :
    ∃ a bs pre, s'.dev.log = ⟨false, a, r.len, bs, true⟩ :: (pre ++ s.dev.log) := by
  simp only [evalInt, hn] at h
  cases hk : r.kind with
  | int e sg =>
    rw [hk] at h
    dsimp only at h
    obtain ⟨bs, hbs, h2⟩ := bind_ok_inv h
    obtain ⟨_, rfl⟩ := lift_ok_inv h2
    obtain ⟨a, pre, hlog⟩ := wcor_nocache f hA hn hm (pair_eta hbs)
    exact ⟨a, bs, pre, hlog⟩
  | masked e sg lsb msb =>
    rw [hk] at h
    dsimp only at h
    obtain ⟨bs, hbs, h2⟩ := bind_ok_inv h
    obtain ⟨x, hx, h3⟩ := bind_ok_inv h2
    obtain ⟨_, hs1⟩ := lift_ok_inv (pair_eta hx)
    obtain ⟨lw, hlw, h4⟩ := bind_ok_inv h3
    obtain ⟨_, hs2⟩ := lift_ok_inv (pair_eta hlw)
    obtain ⟨l, w⟩ := lw
    obtain ⟨_, hs3⟩ := pure_ok_inv h4
    obtain ⟨a, pre, hlog⟩ := wcor_nocache f hA hn hm (pair_eta hbs)
    refine ⟨a, bs, pre, ?_⟩
    rw [hs3, hs2, hs1]
    exact hlog
  | float _ => rw [hk] at h; cases h
  | string => rw [hk] at h; cases h
  | raw => rw [hk] at h; cases h

/-- **NoCache, operation level**: a successful `value` of a NoCache register ends with a
successful device read of the register's length that this operation performed. -/
theorem opValue_nocache {s s' : St Store} (hA : NoCacheAbsent g s.cache) {n : NodeId}
    {r : Reg} (hn : g[n]? = some (.reg r)) (hm : r.mode = .noCache) {v : Val}
    (h : run defaultCache p g s (.value n) = (.ok v, s')) :
    ∃ a bs pre, s'.dev.log = ⟨false, a, r.len, bs, true⟩ :: (pre ++ s.dev.log) := by
  simp only [run, evalOp, opValue, hn, fuelOf] at h
  cases hk : r.kind with
  | int e sg =>
    rw [hk] at h
    dsimp only at h
    obtain ⟨x, hx, h2⟩ := bind_ok_inv h
    obtain ⟨_, rfl⟩ := pure_ok_inv h2
    exact evalInt_nocache g.length hA hn hm (pair_eta hx)
  | masked e sg lsb msb =>
    rw [hk] at h
    dsimp only at h
    obtain ⟨x, hx, h2⟩ := bind_ok_inv h
    obtain ⟨_, rfl⟩ := pure_ok_inv h2
    exact evalInt_nocache g.length hA hn hm (pair_eta hx)
  | float e =>
    rw [hk] at h
    dsimp only at h
    obtain ⟨bs, hbs, h2⟩ := bind_ok_inv h
    obtain ⟨_, rfl⟩ := lift_ok_inv h2
    obtain ⟨a, pre, hlog⟩ := wcor_nocache (g.length + 1) hA hn hm (pair_eta hbs)
    exact ⟨a, bs, pre, hlog⟩
  | string =>
    rw [hk] at h
    dsimp only at h
    obtain ⟨bs, hbs, h2⟩ := bind_ok_inv h
    obtain ⟨_, rfl⟩ := pure_ok_inv h2
    obtain ⟨a, pre, hlog⟩ := wcor_nocache (g.length + 1) hA hn hm (pair_eta hbs)
    exact ⟨a, bs, pre, hlog⟩
  | raw => rw [hk] at h; cases h


end Keeps
end CamVerif.C04
