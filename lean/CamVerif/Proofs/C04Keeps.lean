/-
C04 helper lemmas, part 5: store predicates that every operation preserves on EVERY
description (no `Declared`, no coherence): a unary version of the simulation argument.
Instantiated with `NoCacheAbsent`.
-/
import CamVerif.Proofs.C04Ops
namespace CamVerif.C04
open CamVerif CamVerif.Cache

/-- A predicate on stores closed under the invalidations and under caching data for a
cachable register of the description. -/
structure StoreInv (g : Graph) (I : Store → Prop) : Prop where
  invBy : ∀ c n, I c → I (c.invalidateBy n)
  invOf : ∀ c n, I c → I (c.invalidateOf n)
  clear : ∀ c, I c → I c.clear
  cache : ∀ c n r a d, g[n]? = some (.reg r) → r.mode ≠ .noCache → I c → I (c.cache n a r.len d)

/-- `m` preserves `I` -/
def Keeps {α : Type} (I : Store → Prop) (m : M Store α) : Prop :=
  ∀ s, I s.cache → I (m s).2.cache

section Keeps
variable {p : Profile} {g : Graph} {I : Store → Prop}

theorem keeps_same {α : Type} {m : M Store α} (h : ∀ s, (m s).2.cache = s.cache) : Keeps I m :=
  fun s hs => by rw [h]; exact hs

theorem keeps_pure {α : Type} (a : α) : Keeps I (M.pure a : M Store α) := keeps_same fun _ => rfl
theorem keeps_lift {α : Type} (r : R α) : Keeps I (M.lift r : M Store α) := keeps_same fun _ => rfl
theorem keeps_fail {α : Type} (e : Err) : Keeps I (M.fail e : M Store α) := keeps_same fun _ => rfl
theorem keeps_panic {α : Type} : Keeps I (M.panic : M Store α) := keeps_same fun _ => rfl

theorem keeps_bind {α β : Type} {m : M Store α} {f : α → M Store β} (hm : Keeps I m)
    (hf : ∀ a, Keeps I (f a)) : Keeps I (m >>= f) := by
  intro s hs
  rw [bind_apply]
  have h1 := hm s hs
  cases h : (m s).1 with
  | ok a => exact hf a _ h1
  | err e => exact h1
  | panic => exact h1

theorem keeps_invBy (hI : StoreInv g I) (n : NodeId) : Keeps I (invBy defaultCache n) :=
  fun s hs => hI.invBy _ n hs

theorem keeps_invOf (hI : StoreInv g I) (n : NodeId) : Keeps I (invOf defaultCache n) :=
  fun s hs => hI.invOf _ n hs

theorem keeps_clearCache (hI : StoreInv g I) : Keeps I (clearCache defaultCache) :=
  fun s hs => hI.clear _ hs

theorem keeps_readAndCache (hI : StoreInv g I) {n : NodeId} {r : Reg}
    (hn : g[n]? = some (.reg r)) (a : Int) (buflen : Nat) :
    Keeps I (readAndCache defaultCache g n r a buflen) := by
  intro s hs
  rw [readAndCache_eq]
  split
  · exact hs
  split
  · split
    · dsimp only
      split
      · rename_i hm
        exact hI.cache _ _ _ _ _ hn hm hs
      · exact hs
    · exact hs
  · exact hs

theorem keeps_cachedRead (hI : StoreInv g I) {n : NodeId} {r : Reg}
    (hn : g[n]? = some (.reg r)) (a : Int) : Keeps I (cachedRead defaultCache g n r a) := by
  intro s hs
  unfold cachedRead
  split
  · exact hs
  · exact keeps_readAndCache hI hn a r.len s hs

theorem keeps_writeAt (hI : StoreInv g I) {n : NodeId} {r : Reg}
    (hn : g[n]? = some (.reg r)) (a : Int) (buf : Bytes) :
    Keeps I (writeAt defaultCache g n r a buf) := by
  intro s hs
  rw [writeAt_eq]
  have h2 := hI.invBy _ r.port (hI.invBy _ n hs)
  split
  · dsimp only
    split
    · rename_i hc
      exact hI.cache _ _ _ _ _ hn (by rw [hc.2]; decide) h2
    · exact hI.invOf _ n h2
  · exact hI.invBy _ n hs

theorem keeps_portWrite (hI : StoreInv g I) (pn : NodeId) (a : Int) (buf : Bytes) :
    Keeps I (portWrite defaultCache g pn a buf) := by
  intro s hs
  rw [portWrite_eq]
  split
  · exact hI.invBy _ pn hs
  · exact hs

theorem keeps_portRead (pn : NodeId) (a : Int) (l : Nat) :
    Keeps I (portRead g pn a l : M Store Bytes) := by
  intro s hs
  rw [portRead_eq]
  split <;> exact hs

theorem keeps_regAddr {ev : NodeId → M Store Int} (hev : ∀ m, Keeps I (ev m)) (r : Reg) :
    Keeps I (regAddr p ev r) := by
  unfold regAddr
  cases r.sel with
  | none => exact keeps_pure _
  | some so =>
    obtain ⟨s, off⟩ := so
    exact keeps_bind (hev s) (fun k => keeps_bind (keeps_lift _) (fun _ => keeps_lift _))

theorem keeps_withCacheOrRead (hI : StoreInv g I) {ev : NodeId → M Store Int}
    (hev : ∀ m, Keeps I (ev m)) {n : NodeId} {r : Reg} (hn : g[n]? = some (.reg r)) :
    Keeps I (withCacheOrRead defaultCache p g ev n r) := by
  unfold withCacheOrRead
  exact keeps_bind (keeps_regAddr hev r) (fun a => keeps_cachedRead hI hn a)

theorem keeps_writeAndCache (hI : StoreInv g I) {ev : NodeId → M Store Int}
    (hev : ∀ m, Keeps I (ev m)) {n : NodeId} {r : Reg} (hn : g[n]? = some (.reg r))
    (buf : Bytes) : Keeps I (writeAndCache defaultCache p g ev n r buf) := by
  unfold writeAndCache
  split
  · exact keeps_fail _
  · exact keeps_bind (keeps_regAddr hev r) (fun a => keeps_writeAt hI hn a buf)

theorem keeps_evalInt (hI : StoreInv g I) (fuel : Nat) :
    ∀ n, Keeps I (evalInt defaultCache p g fuel n) := by
  induction fuel with
  | zero => intro n; simp only [evalInt]; exact keeps_panic
  | succ f ih =>
    intro n
    simp only [evalInt]
    cases hn : g[n]? with
    | none => exact keeps_panic
    | some nd =>
      cases nd with
      | port => exact keeps_fail _
      | command _ _ => exact keeps_fail _
      | integer pv _ => exact ih pv
      | reg r =>
        dsimp only
        cases r.kind with
        | int e s =>
          exact keeps_bind (keeps_withCacheOrRead hI ih hn) (fun _ => keeps_lift _)
        | masked e s lsb msb =>
          dsimp only
          refine keeps_bind (keeps_withCacheOrRead hI ih hn) (fun _ => ?_)
          refine keeps_bind (keeps_lift _) (fun _ => ?_)
          refine keeps_bind (keeps_lift _) (fun lw => ?_)
          obtain ⟨l, w⟩ := lw
          exact keeps_pure _
        | float _ => exact keeps_fail _
        | string => exact keeps_fail _
        | raw => exact keeps_fail _

theorem keeps_forEachM {f : NodeId → M Store Unit} (hf : ∀ c, Keeps I (f c)) (cs : List NodeId) :
    Keeps I (forEachM f cs) := by
  induction cs with
  | nil => exact keeps_pure _
  | cons c cs ih => exact keeps_bind (hf c) (fun _ => ih)

theorem keeps_setInt (hI : StoreInv g I) (fuel : Nat) :
    ∀ n v, Keeps I (setInt defaultCache p g fuel n v) := by
  induction fuel with
  | zero => intro n v; simp only [setInt]; exact keeps_panic
  | succ f ih =>
    intro n v
    simp only [setInt]
    cases hn : g[n]? with
    | none => exact keeps_panic
    | some nd =>
      cases nd with
      | port => exact keeps_fail _
      | command _ _ => exact keeps_fail _
      | integer pv cs =>
        dsimp only
        refine keeps_bind (keeps_invBy hI n) (fun _ => ?_)
        exact keeps_bind (ih pv v) (fun _ => keeps_forEachM (fun c => ih c v) cs)
      | reg r =>
        dsimp only
        cases r.kind with
        | int e s =>
          dsimp only
          refine keeps_bind (keeps_invBy hI n) (fun _ => ?_)
          refine keeps_bind (keeps_lift _) (fun buf => ?_)
          exact keeps_writeAndCache hI (keeps_evalInt hI f) hn buf
        | masked e s lsb msb =>
          dsimp only
          refine keeps_bind (keeps_invBy hI n) (fun _ => ?_)
          refine keeps_bind (keeps_withCacheOrRead hI (keeps_evalInt hI f) hn) (fun bs => ?_)
          refine keeps_bind (keeps_lift _) (fun old => ?_)
          refine keeps_bind (keeps_lift _) (fun lw => ?_)
          obtain ⟨l, w⟩ := lw
          dsimp only
          refine keeps_bind (keeps_lift _) (fun nv => ?_)
          refine keeps_bind (keeps_lift _) (fun buf => ?_)
          exact keeps_writeAndCache hI (keeps_evalInt hI f) hn buf
        | float _ => exact keeps_fail _
        | string => exact keeps_fail _
        | raw => exact keeps_fail _

end Keeps
end CamVerif.C04
