/-
C04 helper lemmas, part 2: device lemmas, what `Declared` gives, and preservation of the
invariant `Inv` by the store/device level effects of each primitive (no monads yet).
-/
import CamVerif.Proofs.C04Store
namespace CamVerif.C04
open CamVerif CamVerif.Cache

/-! ### device -/

theorem peek_congr {d d' : Dev} (hm : d'.mem = d.mem) (hn : d'.noAccess = d.noAccess)
    (a : Int) (l : Nat) : d'.peek a l = d.peek a l := by
  unfold Dev.peek Dev.readOk; rw [hm, hn]

theorem read_of_peek_some {d : Dev} {a : Int} {l : Nat} {bs : Bytes} (h : d.peek a l = some bs) :
    d.read a l = (.ok bs, { d with log := ⟨false, a, l, bs, true⟩ :: d.log }) := by
  unfold Dev.read; rw [h]

theorem read_of_peek_none {d : Dev} {a : Int} {l : Nat} (h : d.peek a l = none) :
    d.read a l = (.err .device, { d with log := ⟨false, a, l, [], false⟩ :: d.log }) := by
  unfold Dev.read; rw [h]

theorem writeOk_split {d : Dev} {a : Int} {l : Nat} (h : d.writeOk a l = true) :
    d.allowed a l = true ∧ alGet d.wcount d.rejP = none := by
  unfold Dev.writeOk at h
  simp only [Bool.and_eq_true, Option.isNone_iff_eq_none] at h
  exact h

theorem write_of_ok {d : Dev} {a : Int} {data : Bytes} (h : d.writeOk a data.length = true) :
    d.write a data = (.ok (), { d with mem := patch d.mem a.toNat data, wcount := d.wcount + 1,
                                       log := ⟨true, a, data.length, data, true⟩ :: d.log }) := by
  obtain ⟨h1, h2⟩ := writeOk_split h
  unfold Dev.write; rw [if_pos h1, h2]

/-- a write that is not OK reports a device error -/
theorem write_fst {d : Dev} {a : Int} {data : Bytes} :
    (d.write a data).1 = if d.writeOk a data.length = true then .ok () else .err .device := by
  unfold Dev.write Dev.writeOk
  cases ha : d.allowed a data.length with
  | false => simp
  | true =>
    cases hp : alGet d.wcount d.rejP with
    | none => simp
    | some mj => simp

theorem allowed_inImage {d : Dev} {a : Int} {l : Nat} (h : d.allowed a l = true) :
    0 ≤ a ∧ a + l ≤ d.mem.length ∧ touches d.noAccess a l = false := by
  unfold Dev.allowed inImage at h
  simp only [Bool.and_eq_true, decide_eq_true_eq, Bool.not_eq_true'] at h
  exact ⟨h.1.1.1.1, h.1.1.1.2, h.1.1.2⟩

theorem writeOk_inImage {d : Dev} {a : Int} {l : Nat} (h : d.writeOk a l = true) :
    0 ≤ a ∧ a + l ≤ d.mem.length ∧ touches d.noAccess a l = false :=
  allowed_inImage (writeOk_split h).1

theorem allowed_congr {d d' : Dev} (hm : d'.mem = d.mem) (h1 : d'.noAccess = d.noAccess)
    (h2 : d'.noWrite = d.noWrite) (h3 : d'.rejW = d.rejW) (h4 : d'.wcount = d.wcount)
    (a : Int) (l : Nat) : d'.allowed a l = d.allowed a l := by
  unfold Dev.allowed; rw [hm, h1, h2, h3, h4]

theorem writeOk_congr {d d' : Dev} (hm : d'.mem = d.mem) (h1 : d'.noAccess = d.noAccess)
    (h2 : d'.noWrite = d.noWrite) (h3 : d'.rejW = d.rejW) (h5 : d'.rejP = d.rejP)
    (h4 : d'.wcount = d.wcount) (a : Int) (l : Nat) : d'.writeOk a l = d.writeOk a l := by
  unfold Dev.writeOk; rw [allowed_congr hm h1 h2 h3 h4, h4, h5]

theorem leftover_length (data : Bytes) (mj : Nat × Bytes) :
    (Dev.leftover data mj).length ≤ data.length := by
  unfold Dev.leftover
  rw [List.length_take]
  omega

/-- after a successful write, reading the written range returns the data -/
theorem peek_write_same {d : Dev} {a : Int} {data : Bytes} (h : d.writeOk a data.length = true) :
    (d.write a data).2.peek a data.length = some data := by
  obtain ⟨h0, h1, h2⟩ := writeOk_inImage h
  rw [write_of_ok h]
  have ha : a.toNat + data.length ≤ d.mem.length := by omega
  unfold Dev.peek Dev.readOk inImage
  simp only [length_patch _ _ _ ha, h2, Bool.not_false, Bool.and_true, Bool.and_eq_true,
    decide_eq_true_eq]
  rw [if_pos ⟨h0, h1⟩, slice_patch_same _ _ _ ha]

/-- what a patch inside `[a, a+n)` leaves of a read of a range disjoint from `[a, a+n)` -/
theorem peek_patch_disjoint {d : Dev} {a : Int} {n : Nat} {x : Bytes} {a' : Int} {l' : Nat}
    (h0 : 0 ≤ a) (h1 : a + n ≤ d.mem.length) (hx : x.length ≤ n)
    (hd : overlaps a n a' l' = false) (d' : Dev) (hm : d'.mem = patch d.mem a.toNat x)
    (hn : d'.noAccess = d.noAccess) : d'.peek a' l' = d.peek a' l' := by
  have ha : a.toNat + x.length ≤ d.mem.length := by omega
  unfold Dev.peek Dev.readOk inImage
  rw [hm, hn]
  simp only [length_patch _ _ _ ha]
  split
  · rename_i hr
    simp only [Bool.and_eq_true, decide_eq_true_eq] at hr
    congr 1
    apply slice_patch_disjoint _ _ _ _ _ ha
    unfold overlaps at hd
    simp only [Bool.and_eq_false_iff, decide_eq_false_iff_not] at hd
    omega
  · rfl

/-- **frame**: whatever a write does (success, atomic rejection, non-atomic rejection), a
read of a range disjoint from the written range returns what it returned before -/
theorem peek_write_frame {d : Dev} {a : Int} {data : Bytes} {a' : Int} {l' : Nat}
    (hd : overlaps a data.length a' l' = false) :
    (d.write a data).2.peek a' l' = d.peek a' l' := by
  unfold Dev.write
  cases ha : d.allowed a data.length with
  | false => rfl
  | true =>
    obtain ⟨h0, h1, _⟩ := allowed_inImage ha
    rw [if_pos rfl]
    cases hp : alGet d.wcount d.rejP with
    | none =>
      exact peek_patch_disjoint h0 h1 (Nat.le_refl _) hd _ rfl rfl
    | some mj =>
      exact peek_patch_disjoint h0 h1 (leftover_length data mj) hd _ rfl rfl

theorem peek_write_disjoint {d : Dev} {a : Int} {data : Bytes} {a' : Int} {l' : Nat}
    (_h : d.writeOk a data.length = true) (hd : overlaps a data.length a' l' = false) :
    (d.write a data).2.peek a' l' = d.peek a' l' := peek_write_frame hd

/-! ### what `Declared` / `PortDeclared` give -/

theorem lt_length_of_getElem? {α : Type} {l : List α} {i : Nat} {x : α} (h : l[i]? = some x) :
    i < l.length := by
  by_cases hi : i < l.length
  · exact hi
  · rw [List.getElem?_eq_none (by omega)] at h; cases h

theorem declared_pair {p : Profile} {g : Graph} (hD : Declared p g) {w t : NodeId} {rw rt : Reg}
    (hw : g[w]? = some (.reg rw)) (ht : g[t]? = some (.reg rt)) (hm : rt.mode ≠ .noCache)
    (h1 : w ∉ rt.invs) (h2 : rw.port ∉ rt.invs) : mayOverlap p g w rw t rt = false := by
  unfold Declared declaredB at hD
  rw [List.all_eq_true] at hD
  have := hD w (List.mem_range.mpr (lt_length_of_getElem? hw))
  rw [List.all_eq_true] at this
  have := this t (List.mem_range.mpr (lt_length_of_getElem? ht))
  unfold pairDeclared at this
  rw [hw, ht] at this
  simp only [Bool.or_eq_true, beq_iff_eq, Bool.not_eq_true', List.contains_iff_mem] at this
  rcases this with ((h | h) | h) | h
  · exact absurd h hm
  · exact h
  · exact absurd h h1
  · exact absurd h h2

theorem portDeclared_mem {g : Graph} {pn : NodeId} (hP : PortDeclared g pn) {t : NodeId} {rt : Reg}
    (ht : g[t]? = some (.reg rt)) (hm : rt.mode ≠ .noCache) : pn ∈ rt.invs := by
  unfold PortDeclared portDeclaredB at hP
  rw [List.all_eq_true] at hP
  have := hP _ (List.mem_of_getElem? ht)
  simp only [Bool.or_eq_true, beq_iff_eq, List.contains_iff_mem] at this
  rcases this with h | h
  · exact absurd h hm
  · exact h

/-- distinct multiples of a stride at least as long as the register do not overlap -/
theorem stride_disjoint (base off k k' : Int) (len : Nat) (hoff : ¬ off.natAbs < len)
    (hne : base + k * off ≠ base + k' * off) :
    overlaps (base + k * off) len (base + k' * off) len = false := by
  have hk : k - k' ≠ 0 := by
    intro h
    apply hne
    have : k = k' := by omega
    rw [this]
  have h1 : ((k - k') * off).natAbs = (k - k').natAbs * off.natAbs := Int.natAbs_mul _ _
  have h2 : 1 ≤ (k - k').natAbs := by omega
  have h3 : off.natAbs ≤ ((k - k') * off).natAbs := by
    rw [h1]; exact Nat.le_mul_of_pos_left _ h2
  have h4 : (k - k') * off = k * off - k' * off := Int.sub_mul _ _ _
  rw [h4] at h3
  unfold overlaps
  simp only [Bool.and_eq_false_iff, decide_eq_false_iff_not]
  generalize k * off = x at *
  generalize k' * off = y at *
  omega

/-- an address the register can evaluate to lies in its hull -/
theorem keyAddr_in_hull {p : Profile} {g : Graph} {r : Reg} {a lo hi : Int}
    (hp : p.overflowChecks = true ∨ r.sel = none) (hk : KeyAddr p g r a)
    (hh : hull g r = some (lo, hi)) : lo ≤ a ∧ a + r.len ≤ hi := by
  unfold hull at hh
  unfold KeyAddr at hk
  cases hs : r.sel with
  | none =>
    rw [hs] at hh hk
    dsimp only at hh hk
    simp only [Option.some.injEq, Prod.mk.injEq] at hh
    omega
  | some so =>
    obtain ⟨s, off⟩ := so
    rw [hs] at hh hk
    dsimp only at hh hk
    have hoc : p.overflowChecks = true := by
      rcases hp with h | h
      · exact h
      · rw [hs] at h; cases h
    obtain ⟨k, rfl, hr⟩ := hk hoc
    unfold InSelRange at hr
    cases hsr : selRange g s with
    | none => rw [hsr] at hh; cases hh
    | some lh =>
      obtain ⟨l, h⟩ := lh
      rw [hsr] at hh hr
      simp only [Option.some.injEq, Prod.mk.injEq] at hh
      obtain ⟨hl, hu⟩ := hr
      have hmm : min (l * off) (h * off) ≤ k * off ∧ k * off ≤ max (l * off) (h * off) := by
        by_cases hoff : 0 ≤ off
        · have h1 := Int.mul_le_mul_of_nonneg_right hl hoff
          have h2 := Int.mul_le_mul_of_nonneg_right hu hoff
          exact ⟨Int.le_trans (Int.min_le_left _ _) h1, Int.le_trans h2 (Int.le_max_right _ _)⟩
        · have hoff' : off ≤ 0 := by omega
          have h1 := Int.mul_le_mul_of_nonpos_right hl hoff'
          have h2 := Int.mul_le_mul_of_nonpos_right hu hoff'
          exact ⟨Int.le_trans (Int.min_le_right _ _) h2, Int.le_trans h1 (Int.le_max_left _ _)⟩
      generalize l * off = x at *
      generalize h * off = y at *
      generalize k * off = z at *
      omega

/-- `mayOverlap = false` is sound: the concrete key ranges are disjoint -/
theorem no_overlap {p : Profile} {g : Graph} {w t : NodeId} {rw rt : Reg} {a a' : Int}
    (h : mayOverlap p g w rw t rt = false) (hk : KeyAddr p g rw a) (hk' : KeyAddr p g rt a')
    (hsame : w = t → rw = rt ∧ a ≠ a') : overlaps a rw.len a' rt.len = false := by
  unfold mayOverlap at h
  by_cases hwt : w = t
  · obtain ⟨hr, hne⟩ := hsame hwt
    subst hr
    rw [if_pos hwt] at h
    unfold KeyAddr at hk hk'
    cases hs : rw.sel with
    | none =>
      rw [hs] at hk hk'
      exact absurd (hk.trans hk'.symm) hne
    | some so =>
      obtain ⟨s, off⟩ := so
      rw [hs] at hk hk' h
      simp only [Bool.or_eq_false_iff, decide_eq_false_iff_not, Bool.not_eq_false'] at h
      obtain ⟨k, rfl, _⟩ := hk h.2
      obtain ⟨k', rfl, _⟩ := hk' h.2
      exact stride_disjoint _ _ _ _ _ h.1 hne
  · rw [if_neg hwt] at h
    split at h
    · cases h
    rename_i hcond
    have hpw : p.overflowChecks = true ∨ rw.sel = none := by
      cases hoc : p.overflowChecks with
      | true => exact Or.inl rfl
      | false =>
        right
        cases hs : rw.sel with
        | none => rfl
        | some _ => simp [hoc, hs] at hcond
    have hpt : p.overflowChecks = true ∨ rt.sel = none := by
      cases hoc : p.overflowChecks with
      | true => exact Or.inl rfl
      | false =>
        right
        cases hs : rt.sel with
        | none => rfl
        | some _ => simp [hoc, hs] at hcond
    unfold hullsMeet at h
    cases hw : hull g rw with
    | none => rw [hw] at h; simp at h
    | some ab =>
      cases ht : hull g rt with
      | none => rw [hw, ht] at h; simp at h
      | some cd =>
        obtain ⟨x, y⟩ := ab
        obtain ⟨c, d⟩ := cd
        rw [hw, ht] at h
        simp only [Bool.and_eq_false_iff, decide_eq_false_iff_not] at h
        have h1 := keyAddr_in_hull hpw hk hw
        have h2 := keyAddr_in_hull hpt hk' ht
        unfold overlaps
        simp only [Bool.and_eq_false_iff, decide_eq_false_iff_not]
        omega

/-! ### preservation of the invariant -/

theorem inv_subset {p : Profile} {g : Graph} {c c' : Store} {d : Dev} (hI : Inv p g c d)
    (ht : c'.invalidators = c.invalidators)
    (hs : ∀ n a l bs, c'.get n a l = some bs → c.get n a l = some bs) : Inv p g c' d :=
  ⟨fun n a l bs h => hI.coherent n a l bs (hs n a l bs h),
   fun n a l bs h => hI.keys n a l bs (hs n a l bs h),
   fun t r m h1 h2 => by rw [targets_congr ht]; exact hI.table t r m h1 h2⟩

theorem inv_dev_congr {p : Profile} {g : Graph} {c : Store} {d d' : Dev} (hI : Inv p g c d)
    (hp : ∀ a l, d'.peek a l = d.peek a l) : Inv p g c d' :=
  ⟨fun n a l bs h => by rw [hp]; exact hI.coherent n a l bs h, hI.keys, hI.table⟩

theorem inv_invalidateOf {p : Profile} {g : Graph} {c : Store} {d : Dev} (hI : Inv p g c d)
    (n : NodeId) : Inv p g (c.invalidateOf n) d :=
  inv_subset hI rfl (fun n' a l bs h => by
    rw [get_invalidateOf] at h
    split at h
    · cases h
    · exact h)

theorem inv_invalidateBy {p : Profile} {g : Graph} {c : Store} {d : Dev} (hI : Inv p g c d)
    (n : NodeId) : Inv p g (c.invalidateBy n) d :=
  inv_subset hI (invalidators_invalidateBy _ _) (fun n' a l bs h => by
    rw [get_invalidateBy] at h
    split at h
    · cases h
    · exact h)

theorem inv_clear {p : Profile} {g : Graph} {c : Store} {d : Dev} (hI : Inv p g c d) :
    Inv p g c.clear d :=
  inv_subset hI rfl (fun n a l bs h => by rw [get_clear] at h; cases h)

theorem inv_cache {p : Profile} {g : Graph} {c : Store} {d : Dev} (hI : Inv p g c d)
    {n : NodeId} {r : Reg} {a : Int} {bs : Bytes} (hn : g[n]? = some (.reg r))
    (hm : r.mode ≠ .noCache) (hp : g[r.port]? = some .port) (hk : KeyAddr p g r a)
    (hd : d.peek a r.len = some bs) : Inv p g (c.cache n a r.len bs) d := by
  refine ⟨?_, ?_, ?_⟩
  · intro n' a' l' bs' h
    rw [get_cache] at h
    split at h
    · rename_i e
      obtain ⟨rfl, rfl, rfl⟩ := e
      cases h
      exact hd
    · exact hI.coherent _ _ _ _ h
  · intro n' a' l' bs' h
    rw [get_cache] at h
    split at h
    · rename_i e
      obtain ⟨rfl, rfl, rfl⟩ := e
      exact ⟨r, hn, hm, rfl, hp, hk⟩
    · exact hI.keys _ _ _ _ h
  · intro t r' m h1 h2
    rw [targets_congr (invalidators_cache _ _ _ _ _)]
    exact hI.table t r' m h1 h2

/-- What a write through register `n` needs of the description in cache state `c`: every
register that still HAS an entry, is cachable and lists neither `n` nor `n`'s port cannot
overlap the write.  `Declared` gives it for every state; for feature-level declarations the
listers of an already invalidated feature have no entry (see `C04Via`). -/
def PairOk (p : Profile) (g : Graph) (c : Store) (n : NodeId) (r : Reg) : Prop :=
  ∀ t rt a' l' bs, g[t]? = some (.reg rt) → rt.mode ≠ .noCache → n ∉ rt.invs → r.port ∉ rt.invs →
    c.get t a' l' = some bs → mayOverlap p g n r t rt = false

theorem pairOk_of_declared {p : Profile} {g : Graph} (hD : Declared p g) (c : Store) {n : NodeId}
    {r : Reg} (hn : g[n]? = some (.reg r)) : PairOk p g c n r :=
  fun _ _ _ _ _ hrt hmode h1 h2 _ => declared_pair hD hn hrt hmode h1 h2

/-- entries that survive `invalidate_by(n)` and `invalidate_by(port)` are untouched by a
write through register `n` — this is where the declarations are used -/
theorem survivor_disjoint {p : Profile} {g : Graph} {c : Store} {d : Dev} {n : NodeId} {r : Reg}
    (hP : PairOk p g c n r)
    (hI : Inv p g c d) {a : Int} (hn : g[n]? = some (.reg r))
    (hk : KeyAddr p g r a) {t : NodeId} {a' : Int} {l' : Nat} {bs : Bytes}
    (h : ((c.invalidateBy n).invalidateBy r.port).get t a' l' = some bs)
    (hkey : t = n → a' ≠ a) :
    c.get t a' l' = some bs ∧ overlaps a r.len a' l' = false := by
  rw [get_invalidateBy, targets_congr (invalidators_invalidateBy _ _)] at h
  split at h
  · cases h
  rename_i hnp
  rw [get_invalidateBy] at h
  split at h
  · cases h
  rename_i hnn
  refine ⟨h, ?_⟩
  obtain ⟨rt, hrt, hmode, hl, _, hkt⟩ := hI.keys _ _ _ _ h
  have h1 : n ∉ rt.invs := fun hm => hnn (hI.table t rt n hrt hm)
  have h2 : r.port ∉ rt.invs := fun hm => hnp (hI.table t rt r.port hrt hm)
  have hno := hP t rt a' l' bs hrt hmode h1 h2 h
  rw [hl]
  refine no_overlap hno hk hkt ?_
  intro e
  subst e
  rw [hn] at hrt
  cases hrt
  exact ⟨rfl, fun e => hkey rfl e.symm⟩

/-- **the write primitive preserves the invariant** (store/device level), whatever the
device does with the write: success (WriteThrough caches the data, otherwise the own
entries are dropped), atomic rejection, or rejection after part of the range was modified
(own entries dropped). -/
theorem inv_write {p : Profile} {g : Graph} {c : Store} {d : Dev} {n : NodeId} {r : Reg}
    (hP : PairOk p g c n r) (hI : Inv p g c d) {a : Int} {buf : Bytes}
    (hn : g[n]? = some (.reg r)) (hp : g[r.port]? = some .port) (hk : KeyAddr p g r a)
    (hlen : buf.length = r.len) :
    Inv p g
      (if d.writeOk a buf.length = true ∧ r.mode = .writeThrough then
         (((c.invalidateBy n).invalidateBy r.port).invalidateOf n).cache n a r.len buf
       else ((c.invalidateBy n).invalidateBy r.port).invalidateOf n)
      (d.write a buf).2 := by
  have hI2 : Inv p g ((c.invalidateBy n).invalidateBy r.port) d :=
    inv_invalidateBy (inv_invalidateBy hI _) _
  have hI3 : Inv p g (((c.invalidateBy n).invalidateBy r.port).invalidateOf n) d :=
    inv_invalidateOf hI2 n
  split
  · rename_i hcond
    obtain ⟨hok, hwt⟩ := hcond
    refine ⟨?_, ?_, ?_⟩
    · intro t a' l' bs h
      rw [get_cache] at h
      split at h
      · rename_i e
        obtain ⟨rfl, rfl, rfl⟩ := e
        cases h
        rw [← hlen]
        exact peek_write_same hok
      · rw [get_invalidateOf] at h
        split at h
        · cases h
        rename_i htn
        obtain ⟨h1, h2⟩ := survivor_disjoint hP hI hn hk h (fun e => absurd e htn)
        rw [← hlen] at h2
        rw [peek_write_frame h2]
        exact hI.coherent _ _ _ _ h1
    · intro t a' l' bs h
      rw [get_cache] at h
      split at h
      · rename_i e
        obtain ⟨rfl, rfl, rfl⟩ := e
        exact ⟨r, hn, by rw [hwt]; decide, rfl, hp, hk⟩
      · exact hI3.keys _ _ _ _ h
    · intro t r' m h1 h2
      rw [targets_congr (invalidators_cache _ _ _ _ _)]
      exact hI3.table t r' m h1 h2
  · refine ⟨?_, (inv_invalidateOf hI2 n).keys, (inv_invalidateOf hI2 n).table⟩
    intro t a' l' bs h
    rw [get_invalidateOf] at h
    split at h
    · cases h
    rename_i htn
    obtain ⟨h1, h2⟩ := survivor_disjoint hP hI hn hk h (fun e => absurd e htn)
    rw [← hlen] at h2
    rw [peek_write_frame h2]
    exact hI.coherent _ _ _ _ h1

/-- a raw port write on a port every cachable register declares empties the cache -/
theorem get_invalidateBy_portDeclared {p : Profile} {g : Graph} {c : Store} {d : Dev}
    {pn : NodeId} (hP : PortDeclared g pn) (hI : Inv p g c d) (n : NodeId) (a : Int) (l : Nat) :
    (c.invalidateBy pn).get n a l = none := by
  rw [get_invalidateBy]
  split
  · rfl
  · rename_i hnt
    cases h : c.get n a l with
    | none => rfl
    | some bs =>
      obtain ⟨rt, hrt, hm, _, _, _⟩ := hI.keys _ _ _ _ h
      exact absurd (hI.table n rt pn hrt (portDeclared_mem hP hrt hm)) hnt

theorem inv_portWrite {p : Profile} {g : Graph} {c : Store} {d d' : Dev} {pn : NodeId}
    (hP : PortDeclared g pn) (hI : Inv p g c d) : Inv p g (c.invalidateBy pn) d' := by
  refine ⟨?_, ?_, (inv_invalidateBy hI pn).table⟩
  · intro n a l bs h
    rw [get_invalidateBy_portDeclared hP hI] at h
    cases h
  · intro n a l bs h
    rw [get_invalidateBy_portDeclared hP hI] at h
    cases h

/-! ### lengths and selector ranges -/

theorem peek_length {d : Dev} {a : Int} {l : Nat} {bs : Bytes} (h : d.peek a l = some bs) :
    bs.length = l := by
  unfold Dev.peek at h
  split at h
  · rename_i hr
    cases h
    unfold Dev.readOk inImage at hr
    simp only [Bool.and_eq_true, decide_eq_true_eq] at hr
    unfold slice
    rw [List.length_take, List.length_drop]
    omega
  · cases h

theorem fromEndian_lt (e : Endian) (bs : Bytes) : fromEndian e bs < 256 ^ bs.length := by
  cases e with
  | le => exact fromLE_lt bs
  | be =>
    have := fromLE_lt bs.reverse
    rw [List.length_reverse] at this
    exact this

theorem intFromSlice_range {g : Graph} {n : NodeId} {rs : Reg} {e : Endian} {sg : Sign}
    {bs : Bytes} {v : Int} (hn : g[n]? = some (.reg rs)) (hk : rs.kind = .int e sg)
    (hl : bs.length = rs.len) (h : intFromSlice bs e sg = .ok v) : InSelRange g n v := by
  unfold InSelRange selRange
  rw [hn]
  dsimp only
  rw [hk]
  have hu := fromEndian_lt e bs
  unfold intFromSlice at h
  rw [hl] at h hu
  cases sg with
  | unsigned =>
    dsimp only
    by_cases hlen : (rs.len == 1 || rs.len == 2 || rs.len == 4) = true
    · rw [if_pos hlen]
      dsimp only
      simp only [Bool.or_eq_true, beq_iff_eq] at hlen
      split at h
      · dsimp only at h
        cases h
        unfold toI64
        rcases hlen with (h1 | h1) | h1 <;> rw [h1] at hu ⊢ <;> simp only [] <;> omega
      · cases h
    · rw [if_neg hlen]
      trivial
  | signed =>
    dsimp only
    by_cases hlen : validIntLen rs.len = true
    · rw [if_pos hlen]
      dsimp only
      rw [if_pos hlen] at h
      dsimp only at h
      unfold validIntLen at hlen
      simp only [Bool.or_eq_true, beq_iff_eq] at hlen
      rcases hlen with ((h1 | h1) | h1) | h1 <;> rw [h1] at hu h ⊢ <;>
        split at h <;> cases h <;> omega
    · rw [if_neg hlen]
      trivial

end CamVerif.C04
