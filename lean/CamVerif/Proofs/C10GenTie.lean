/-
C10 — tie G for function bodies.

`CamVerif/Gen/FnCmd.lean` is re-emitted by `rs2lean` from the CURRENT text of
`device/src/u3v/protocol/cmd.rs` (`ReadMem::maximum_read_length`, `into_scd_len`, the constant
`CommandPacket::ACK_HEADER_LENGTH`) on every check run.  This file proves that the generated
functions agree with `maximumReadLength` / `intoScdLen` of `CamVerif/Model/Cmd.lean` for every
input and both profiles.

Carriers.  The generated code computes on `BitVec 64` (`usize`) and `BitVec 16` (`u16`); the
model on `Nat` carriers ("a `usize` is a natural `< 2^64`").  Agreement is stated through
`BitVec.toNat`, the bijection between `BitVec w` and `{n // n < 2^w}`
(`BitVec.toNat_ofNat`/`BitVec.ofNat_toNat` are its two round trips), in both directions:
`gen_*_agrees` (from any machine word) and `gen_*_agrees_nat` (from any in-range natural).

Method, in two steps so that the part which looks at the generated code is shape-insensitive:
1. `*_bv`: the generated function equals a closed bit-vector form, by `bv_decide` on the
   `tag`/`val` observations (any equivalent rewrite of the Rust body re-proves);
2. the closed form, read through `toNat`, is the model's function (`omega` on naturals; this
   step never sees the generated code).
-/
import CamVerif.Gen.FnCmd
import CamVerif.Model.Cmd
import Std.Tactic.BVDecide
set_option linter.unusedSimpArgs false
namespace CamVerif.Proofs.C10GenTie
open CamVerif CamVerif.Cmd

namespace G
export CamVerif.Gen.FnCmd (CommandPacket.ACK_HEADER_LENGTH ReadMem.maximum_read_length into_scd_len)
end G

/-- the generated error constructors, instantiated with the model's error values -/
def errs : CamVerif.Gen.FnCmd.Errs Err := { Error_InvalidPacket := .invalidPacket }

def errCode : Res.ErrCode Err where
  ec := fun
    | .invalidPacket => 2#8 | .bufferIo => 3#8
  inj := by intro a b; cases a <;> cases b <;> simp
  ne0 := by intro a; cases a <;> decide
  ne1 := by intro a; cases a <;> decide

theorem ec_invalidPacket : errCode.ec .invalidPacket = 2#8 := rfl

/-! ## the constant -/

theorem gen_ACK_HEADER_LENGTH_agrees :
    G.CommandPacket.ACK_HEADER_LENGTH.toNat = ACK_HEADER_LENGTH := by decide

/-! ## step 1: closed bit-vector forms of the generated functions (`bv_decide`) -/

/-- `maximum_read_length` on machine words: saturating `- 12`, clamped to `u16::MAX` -/
def maxReadBV (x : BitVec 64) : BitVec 16 :=
  if x.ult 12#64 then 0#16
  else if (x - 12#64).ule 65535#64 then (x - 12#64).setWidth 16 else 65535#16

/-- `into_scd_len` on machine words -/
def scdLenBV (x : BitVec 64) : Res Err (BitVec 16) :=
  if x.ule 65535#64 then .ok (x.setWidth 16) else .err .invalidPacket

local macro "obs" "[" ds:Lean.Parser.Tactic.simpLemma,* "]" : tactic =>
  `(tactic| simp only [$ds,*,
    Machine.getD_tryIntoUU, Machine.okOr_tryIntoUU, Machine.unwrapOpt_tryIntoUU, Machine.fitsUU_def,
    Machine.satSubU_def, Machine.satAddU_def, Machine.minU_def, Machine.maxU_def, Machine.castU_def,
    Machine.getD_checkedSubU, Machine.getD_checkedAddU, Machine.getD_checkedMulU,
    Machine.unwrapOpt_checkedSubU, Machine.unwrapOpt_checkedAddU, Machine.okOr_checkedSubU,
    Machine.okOr_checkedAddU, Machine.isSome_checkedSubU, Machine.isSome_checkedAddU,
    Machine.addU, Machine.subU, Machine.mulU,
    Res.tag_bind, Res.val_bind errCode, Res.tag_ite, Res.val_ite, Machine.tag_chk, Machine.val_chk,
    Res.tag_ok, Res.val_ok, Res.tag_panic, Res.val_panic, Res.tag_err, Res.val_err, Res.pure_eq,
    ec_invalidPacket, errs])

theorem maximum_read_length_bv (p : Profile) (x : BitVec 64) :
    G.ReadMem.maximum_read_length (ε := Err) p x = .ok (maxReadBV x) := by
  apply Res.ext_obs errCode 0#16
  obs [CamVerif.Gen.FnCmd.ReadMem.maximum_read_length, CamVerif.Gen.FnCmd.CommandPacket.ACK_HEADER_LENGTH,
    maxReadBV]
  bv_decide

theorem into_scd_len_bv (p : Profile) (x : BitVec 64) :
    G.into_scd_len errs p x = scdLenBV x := by
  apply Res.ext_obs errCode 0#16
  obs [CamVerif.Gen.FnCmd.into_scd_len, scdLenBV]
  bv_decide

/-! ## step 2: the closed forms read through `toNat` are the model (never sees generated code) -/

theorem maxReadBV_toNat (x : BitVec 64) :
    (maxReadBV x).toNat = (if x.toNat - ACK_HEADER_LENGTH ≤ U16_MAX then x.toNat - ACK_HEADER_LENGTH else U16_MAX) := by
  have hx := x.isLt
  unfold maxReadBV
  simp only [BitVec.ult, BitVec.ule, BitVec.toNat_ofNat, decide_eq_true_eq, ACK_HEADER_LENGTH, U16_MAX]
  by_cases h1 : x.toNat < 12
  · have : x.toNat < 12 % 2 ^ 64 := by omega
    simp only [this, if_true, BitVec.toNat_ofNat]
    have h0 : x.toNat - (4 + 8) = 0 := by omega
    simp [h0]
  · have hn : ¬ x.toNat < 12 % 2 ^ 64 := by omega
    have hsub : (x - 12#64).toNat = x.toNat - 12 := by
      rw [BitVec.toNat_sub_of_le (by rw [BitVec.le_def]; simp only [BitVec.toNat_ofNat]; omega)]
      simp
    simp only [hn, if_false, hsub]
    by_cases h2 : x.toNat - 12 ≤ 65535
    · have h2' : x.toNat - 12 ≤ 65535 % 2 ^ 64 := by omega
      have h3 : x.toNat - (4 + 8) ≤ 65535 := by omega
      simp only [h2', h3, if_true, BitVec.toNat_setWidth, hsub]
      try omega
    · have h2' : ¬ x.toNat - 12 ≤ 65535 % 2 ^ 64 := by omega
      have h3 : ¬ x.toNat - (4 + 8) ≤ 65535 := by omega
      simp only [h2', h3, if_false, BitVec.toNat_ofNat]
      try omega

theorem scdLenBV_toNat (x : BitVec 64) : (scdLenBV x).map BitVec.toNat = intoScdLen x.toNat := by
  have hx := x.isLt
  unfold scdLenBV intoScdLen
  simp only [BitVec.ule, BitVec.toNat_ofNat, decide_eq_true_eq, U16_MAX]
  by_cases h : x.toNat ≤ 65535
  · have h' : x.toNat ≤ 65535 % 2 ^ 64 := by omega
    simp only [h, h', if_true, Res.map_ok, BitVec.toNat_setWidth]
    congr 1
    omega
  · have h' : ¬ x.toNat ≤ 65535 % 2 ^ 64 := by omega
    simp only [h, h', if_false, Res.map_err]

/-! ## the ties -/

/-- `ReadMem::maximum_read_length` as written in cmd.rs now, on any `usize`, in any profile, is
the model's `maximumReadLength` on the corresponding natural. -/
theorem gen_maximum_read_length_agrees (p : Profile) (x : BitVec 64) :
    (G.ReadMem.maximum_read_length (ε := Err) p x).map BitVec.toNat = maximumReadLength p x.toNat := by
  rw [maximum_read_length_bv, Res.map_ok, maxReadBV_toNat]
  rfl

/-- `into_scd_len` as written in cmd.rs now is the model's `intoScdLen`. -/
theorem gen_into_scd_len_agrees (p : Profile) (x : BitVec 64) :
    (G.into_scd_len errs p x).map BitVec.toNat = intoScdLen x.toNat := by
  rw [into_scd_len_bv, scdLenBV_toNat]

/-- the same from the model's side: every natural that is a `usize` -/
theorem gen_maximum_read_length_agrees_nat (p : Profile) (n : Nat) (h : n < 2 ^ 64) :
    maximumReadLength p n =
      (G.ReadMem.maximum_read_length (ε := Err) p (BitVec.ofNat 64 n)).map BitVec.toNat := by
  rw [gen_maximum_read_length_agrees, BitVec.toNat_ofNat, Nat.mod_eq_of_lt h]

theorem gen_into_scd_len_agrees_nat (p : Profile) (n : Nat) (h : n < 2 ^ 64) :
    intoScdLen n = (G.into_scd_len errs p (BitVec.ofNat 64 n)).map BitVec.toNat := by
  rw [gen_into_scd_len_agrees, BitVec.toNat_ofNat, Nat.mod_eq_of_lt h]

/-! ## The whole tie as one statement (re-exported by `Props/C10.lean` as an obligation) -/

/-- the translated length arithmetic of the current `cmd.rs` equals the model's, for all inputs
and both build profiles, read through the `BitVec`/`Nat` bijection `toNat` -/
def GenTie : Prop :=
  G.CommandPacket.ACK_HEADER_LENGTH.toNat = ACK_HEADER_LENGTH ∧
  (∀ p (x : BitVec 64), (G.ReadMem.maximum_read_length (ε := Err) p x).map BitVec.toNat
      = maximumReadLength p x.toNat) ∧
  (∀ p (x : BitVec 64), (G.into_scd_len errs p x).map BitVec.toNat = intoScdLen x.toNat) ∧
  (∀ p n, n < 2 ^ 64 → maximumReadLength p n =
      (G.ReadMem.maximum_read_length (ε := Err) p (BitVec.ofNat 64 n)).map BitVec.toNat) ∧
  (∀ (p : Profile) n, n < 2 ^ 64 → intoScdLen n =
      (G.into_scd_len errs p (BitVec.ofNat 64 n)).map BitVec.toNat)

theorem gen_tie : GenTie :=
  ⟨gen_ACK_HEADER_LENGTH_agrees, gen_maximum_read_length_agrees, gen_into_scd_len_agrees,
    gen_maximum_read_length_agrees_nat, gen_into_scd_len_agrees_nat⟩

/-! ## Non-vacuity -/

example : G.ReadMem.maximum_read_length (ε := Err) Profile.dev 5#64 = .ok 0#16 := by decide
example : G.ReadMem.maximum_read_length (ε := Err) Profile.dev 112#64 = .ok 100#16 := by decide
example : G.ReadMem.maximum_read_length (ε := Err) Profile.dev 70000#64 = .ok 65535#16 := by decide
example : G.into_scd_len errs Profile.dev 65535#64 = .ok 65535#16 := by decide
example : G.into_scd_len errs Profile.dev 65536#64 = .err .invalidPacket := by decide

end CamVerif.Proofs.C10GenTie
