/-
C01 with caching ON, by composition with C04's cache model (`CamVerif.Model.Cache`,
`CamVerif.Props.C04`; imported, not edited).

C04's model has its own (Int/Nat valued) integer codecs.  This file
* bridges them to the independent reference `Spec.Codec` that the C01 theorems are stated
  against (`cache_bytesFromInt_is_image`, `cache_intFromSlice_is_reading`), and
* composes C04's `own_write_visible` with them for an IntReg with a constant address under
  the DEFAULT cache store, for every caching mode, every prior cache content and every
  description around it: what reaches the device on `set_value` is exactly the
  two's-complement image, and a `value()` after the write returns the written value.
-/
import CamVerif.Props.C04
import CamVerif.Proofs.C01
namespace CamVerif.Proofs.C01Cached
open CamVerif CamVerif.Cache CamVerif.C04 CamVerif.Spec.Codec

/-- C04's byte order as C01's -/
def eTo : Cache.Endian → Reg.Endianness
  | .le => .le
  | .be => .be

/-- C04's sign as C01's -/
def sTo : Cache.Sign → Reg.Sign
  | .signed => .signed
  | .unsigned => .unsigned

theorem validIntLen_iff (n : Nat) : validIntLen n = true ↔ IntLen n := by
  simp [validIntLen, IntLen, Bool.or_eq_true, or_assoc]

theorem fromEndian_eq (e : Cache.Endian) (bs : Bytes) :
    fromEndian e bs = Reg.readUnsigned (eTo e) bs := by cases e <;> rfl

theorem toEndian_eq (e : Cache.Endian) (n x : Nat) :
    toEndian e n x = Reg.writeUnsigned (eTo e) n x := by cases e <;> rfl

/-- **C04's `bytes_from_int` is the two's-complement image** of the independent codec. -/
theorem cache_bytesFromInt_is_image (v : Int) (hv : -(2 ^ 63 : Int) ≤ v ∧ v < 2 ^ 63) (n : Nat)
    (hn : IntLen n) (e : Cache.Endian) (s : Cache.Sign) :
    Cache.bytesFromInt v n e s = .ok (image n (eTo e) v) := by
  have h8 : n ≤ 8 := by rcases hn with rfl | rfl | rfl | rfl <;> omega
  have hbv : (BitVec.ofInt 64 v).toInt = v := by
    rw [BitVec.toInt_ofInt, Int.bmod_def]
    simp only [Nat.reducePow]
    omega
  have hnat : (BitVec.ofInt 64 v).toNat = ofI64 v := by
    rw [BitVec.toNat_ofInt]; rfl
  unfold Cache.bytesFromInt
  rw [if_pos ((validIntLen_iff n).mpr hn), toEndian_eq]
  congr 1
  rw [← hbv, C01.image_eq_writeUnsigned n h8, hnat, hbv,
    show (2 : Nat) ^ (8 * n) = 256 ^ n by rw [show (256 : Nat) = 2 ^ 8 from rfl, ← Nat.pow_mul],
    C01.writeUnsigned_mod]

/-- **C04's `int_from_slice` is the reading** of the independent codec. -/
theorem cache_intFromSlice_is_reading (bs : Bytes) (hn : IntLen bs.length) (e : Cache.Endian)
    (s : Cache.Sign) :
    Cache.intFromSlice bs e s = .ok (reading (eTo e) (sTo s) bs) := by
  have hpos : 0 < bs.length := by rcases hn with h | h | h | h <;> omega
  unfold Cache.intFromSlice
  rw [if_pos ((validIntLen_iff _).mpr hn)]
  simp only [fromEndian_eq, ← C01.readU_eq]
  cases s
  · simp only [sTo, reading, readS]
    have hp : (2 : Nat) ^ (8 * bs.length) = 2 * 2 ^ (8 * bs.length - 1) := by
      rw [← Nat.pow_succ']; congr 1; omega
    by_cases h : readU (eTo e) bs < 2 ^ (8 * bs.length - 1)
    · rw [if_pos h, if_pos (by rw [hp]; omega)]
    · rw [if_neg h, if_neg (by rw [hp]; omega)]
  · simp only [sTo, reading, asI64, toI64]
    have hlt := C01.readUnsigned_lt (eTo e) bs
    rw [← C01.readU_eq] at hlt
    have h64 : readU (eTo e) bs < 2 ^ 64 := by
      refine Nat.lt_of_lt_of_le hlt ?_
      rw [show (256 : Nat) = 2 ^ 8 from rfl, ← Nat.pow_mul]
      exact Nat.pow_le_pow_right (by omega) (by rcases hn with h | h | h | h <;> omega)
    rw [Nat.mod_eq_of_lt h64]
    by_cases h : readU (eTo e) bs < 2 ^ 63
    · rw [if_pos h, if_pos (by omega)]
    · rw [if_neg h, if_neg (by omega)]

/-! ## IntReg under the default cache: `set_value`, then `value()` -/

section
variable {p : Profile} {g : Graph}

/-- a successful `set_value(v)` on a constant-address IntReg is: `invalidate_cache_by(self)`,
encode, then a successful `writeAt` of the encoded bytes at the register's address -/
theorem setValue_int_inv {s s' : St Store} {n : NodeId} {r : Reg} (hn : g[n]? = some (.reg r))
    (hsel : r.sel = none) {e : Cache.Endian} {sg : Cache.Sign} (hk : r.kind = .int e sg) {v : Int}
    {u : Val} (h : run defaultCache p g s (.setValue n (.int v)) = (.ok u, s')) :
    ∃ buf, Cache.bytesFromInt v r.len e sg = .ok buf ∧ buf.length = r.len ∧
      writeAt defaultCache g n r r.base buf ⟨Store.invalidateBy s.cache n, s.dev⟩ = (.ok (), s') := by
  simp only [run, evalOp, opSetValue, hn, hk, fuelOf, setInt] at h
  obtain ⟨_, h1, h2⟩ := bind_ok_inv h
  obtain ⟨_, hs'⟩ := pure_ok_inv h2
  have h1' := pair_eta h1
  rw [← hs'] at h1'
  clear h h1 h2 hs'
  -- invBy
  rw [bind_apply] at h1'
  change (M.lift (Cache.bytesFromInt v r.len e sg) >>= fun buf =>
      writeAndCache defaultCache p g (evalInt defaultCache p g (List.length g)) n r buf)
      ⟨Store.invalidateBy s.cache n, s.dev⟩ = _ at h1'
  rw [bind_apply] at h1'
  simp only [M.lift] at h1'
  cases hb : Cache.bytesFromInt v r.len e sg with
  | err x => rw [hb] at h1'; cases h1'
  | panic => rw [hb] at h1'; cases h1'
  | ok buf =>
    rw [hb] at h1'
    refine ⟨buf, rfl, ?_⟩
    unfold writeAndCache at h1'
    dsimp only at h1'
    by_cases hl : buf.length ≠ r.len
    · rw [if_pos hl] at h1'; cases h1'
    · have hlen : buf.length = r.len := Classical.byContradiction hl
      refine ⟨hlen, ?_⟩
      rw [if_neg hl, regAddr_static _ hsel, bind_apply] at h1'
      exact h1'

end

/-- the value an image denotes is the value it was made from (independent codec, `Int` form) -/
theorem reading_image (v : Int) (hv : -(2 ^ 63 : Int) ≤ v ∧ v < 2 ^ 63) (n : Nat) (hn : IntLen n)
    (e : Reg.Endianness) (s : Reg.Sign) (hr : InRange n s v) : reading e s (image n e v) = v := by
  have h8 : n ≤ 8 := by rcases hn with rfl | rfl | rfl | rfl <;> omega
  have hbv : (BitVec.ofInt 64 v).toInt = v := by
    rw [BitVec.toInt_ofInt, Int.bmod_def]
    simp only [Nat.reducePow]
    omega
  have hlen : (image n e v).length = n := C01.image_length n e v
  rw [← C01.toInt_intOfBytes n hn _ hlen e s]
  conv => lhs; rw [← hbv]
  rw [C01.image_eq_writeUnsigned n h8, C01.intOfBytes_roundtrip n hn e s _ (by rw [hbv]; exact hr), hbv]

section
variable {p : Profile} {g : Graph}

/-- **cached_footprint** (default cache store, any caching mode, any prior cache content, any
description around the register): a successful `set_value(v)` of a constant-address IntReg
performs exactly one device access — a write of `[address, address+length)` — whose bytes
are exactly the two's-complement image of `v` in the declared byte order; the device then
holds the image in that range. -/
theorem cached_footprint {s s' : St Store} {n : NodeId} {r : Reg} (hn : g[n]? = some (.reg r))
    (hsel : r.sel = none) {e : Cache.Endian} {sg : Cache.Sign} (hk : r.kind = .int e sg) {v : Int}
    (hv : -(2 ^ 63 : Int) ≤ v ∧ v < 2 ^ 63) {u : Val}
    (h : run defaultCache p g s (.setValue n (.int v)) = (.ok u, s')) :
    IntLen r.len ∧
    s'.dev.log = ⟨true, r.base, r.len, image r.len (eTo e) v, true⟩ :: s.dev.log ∧
    s'.dev.mem = patch s.dev.mem r.base.toNat (image r.len (eTo e) v) ∧
    s'.dev.peek r.base r.len = some (image r.len (eTo e) v) := by
  obtain ⟨buf, hb, hlen, hw⟩ := setValue_int_inv hn hsel hk h
  have hil : IntLen r.len := by
    apply Classical.byContradiction
    intro hc
    unfold Cache.bytesFromInt at hb
    rw [if_neg (fun hh => hc ((validIntLen_iff _).mp hh))] at hb
    cases hb
  rw [cache_bytesFromInt_is_image v hv r.len hil e sg] at hb
  injection hb with hb
  subst hb
  rw [writeAt_eq] at hw
  split at hw
  · obtain ⟨h1, h2⟩ := Prod.mk.inj hw
    have hok : s.dev.writeOk r.base (image r.len (eTo e) v).length = true := by
      rw [write_fst] at h1
      split at h1
      · assumption
      · cases h1
    have hdev : s'.dev = (s.dev.write r.base (image r.len (eTo e) v)).2 := by rw [← h2]
    have hpk := peek_write_same hok
    rw [write_of_ok hok] at hdev
    refine ⟨hil, ?_, ?_, ?_⟩
    · rw [hdev, hlen]
    · rw [hdev]
    · rw [write_of_ok hok] at hpk; rw [hlen] at hpk; rw [hdev]; exact hpk
  · cases hw

/-- **cached_int_roundtrip** (default cache store; WriteThrough, WriteAround and NoCache; any
prior cache content; no hypothesis on what the description declares): after a successful
`set_value(v)` of an in-range value on a constant-address IntReg, `value()` returns `v`. -/
theorem cached_int_roundtrip {s s' : St Store} {n : NodeId} {r : Reg} (hn : g[n]? = some (.reg r))
    (hsel : r.sel = none) {e : Cache.Endian} {sg : Cache.Sign} (hk : r.kind = .int e sg) {v : Int}
    (hv : -(2 ^ 63 : Int) ≤ v ∧ v < 2 ^ 63) (hr : InRange r.len (sTo sg) v) {u : Val}
    (h : run defaultCache p g s (.setValue n (.int v)) = (.ok u, s')) :
    (run defaultCache p g s' (.value n)).1 = .ok (.int v) := by
  obtain ⟨buf, hb, hlen, hw⟩ := setValue_int_inv hn hsel hk h
  have hil := (cached_footprint hn hsel hk hv h).1
  rw [cache_bytesFromInt_is_image v hv r.len hil e sg] at hb
  injection hb with hb
  subst hb
  have hvis := own_write_visible hlen hw
  simp only [run, evalOp, opValue, hn, hk, fuelOf, evalInt]
  rw [bind_apply, bind_apply, wcor_static _ _ _ hsel, hvis]
  dsimp only [M.lift]
  rw [cache_intFromSlice_is_reading _ (by rw [hlen]; exact hil), reading_image v hv r.len hil _ _ hr]
  rfl

end

end CamVerif.Proofs.C01Cached
