/-
Helper lemmas for C20, part 2: raw access, observers, layout, slices.
-/
import CamVerif.Proofs.C20Cells
namespace CamVerif.Memory
open AccessRight MemoryProtection

/-- Representation invariant of a `#[memory]` struct: `raw` and `protection` were created for the
same size (`new()` allocates both from `memory_size`; nothing resizes them). -/
structure Mem.WF (m : Mem) : Prop where
  size : m.protection.memorySize = m.raw.length
  cap : m.raw.length ≤ m.protection.capacity

/-- every byte of `s .. e` is readable / writable according to the protection cells -/
def Mem.allReadable (m : Mem) (s e : Nat) : Prop :=
  ∀ i, s ≤ i → i < e → (m.protection.cell i).isReadable = true
def Mem.allWritable (m : Mem) (s e : Nat) : Prop :=
  ∀ i, s ≤ i → i < e → (m.protection.cell i).isWritable = true

theorem rangeCount_le {s e : Nat} (h : s ≤ e) : rangeCount s e = e - s := by
  unfold rangeCount; split <;> omega

theorem verifyRange_inside (mp : MemoryProtection) {s e : Nat} (h : s ≤ e) (he : e ≤ mp.memorySize) :
    mp.verifyAddressWithRange s e = .ok () := by
  rw [verifyAddressWithRange, verifyFrom_ok, rangeCount_le h]; omega

theorem accessRange_inside (p : Profile) (mp : MemoryProtection) {s e : Nat} (h : s ≤ e)
    (he : e ≤ mp.capacity) :
    mp.accessRightWithRange p s e = .ok (mp.meetCells .RW s (e - s)) := by
  rw [accessRightWithRange, rangeCount_le h, accessRightFold_eq]; omega

theorem readRaw_inside (p : Profile) (m : Mem) (hwf : m.WF) {s e : Nat} (h : s ≤ e)
    (he : e ≤ m.raw.length) :
    m.readRaw p s e =
      if (m.protection.meetCells .RW s (e - s)).isReadable then .ok ((m.raw.drop s).take (e - s))
      else .err .addressNotReadable := by
  have h1 : ¬(s > e ∨ e > m.raw.length) := by omega
  simp only [Mem.readRaw, if_neg h1, verifyRange_inside m.protection h (by rw [hwf.size]; exact he),
    accessRange_inside p m.protection h (by have := hwf.cap; omega), slice]
  by_cases hr : (m.protection.meetCells .RW s (e - s)).isReadable = true
  · simp [hr, h, he]
  · simp [hr]

theorem writeRaw_inside (p : Profile) (m : Mem) (hwf : m.WF) (addr : Nat) (buf : Bytes)
    (he : addr + buf.length ≤ m.raw.length) (h64 : addr + buf.length < 2 ^ 64) :
    m.writeRaw p addr buf =
      if (m.protection.meetCells .RW addr buf.length).isWritable then
        .ok ({ m with raw := m.raw.take addr ++ buf ++ m.raw.drop (addr + buf.length) },
          m.notifyAll addr (addr + buf.length))
      else .err .addressNotWritable := by
  have h1 : ¬(addr + buf.length ≥ 2 ^ 64) := by omega
  have h2 : ¬(addr + buf.length > m.raw.length) := by omega
  have h3 : addr ≤ addr + buf.length := by omega
  simp only [Mem.writeRaw, if_neg h1, if_neg h2,
    verifyRange_inside m.protection h3 (by rw [hwf.size]; exact he),
    accessRange_inside p m.protection h3 (by have := hwf.cap; omega), splice, Nat.add_sub_cancel_left]
  by_cases hr : (m.protection.meetCells .RW addr buf.length).isWritable = true
  · simp [hr, he]
  · simp [hr]

/-! ### Observers -/

/-- the two half-open ranges share at least one address -/
def overlaps (ws we rs re : Nat) : Prop := ∃ x, ws ≤ x ∧ x < we ∧ rs ≤ x ∧ x < re

theorem overlaps_iff (ws we rs re : Nat) : overlaps ws we rs re ↔ max ws rs < min we re := by
  constructor
  · rintro ⟨x, h1, h2, h3, h4⟩; omega
  · intro h; exact ⟨max ws rs, by omega, by omega, by omega, by omega⟩

theorem mem_notifyFrom (ws we : Nat) (obs : List (Nat × Nat)) (k i : Nat) :
    i ∈ notifyFrom ws we obs k ↔
      ∃ j, i = k + j ∧ ∃ h : j < obs.length, overlaps ws we (obs[j]).1 (obs[j]).2 := by
  induction obs generalizing k with
  | nil => simp [notifyFrom]
  | cons o rest ih =>
    obtain ⟨rs, re⟩ := o
    simp only [notifyFrom]
    by_cases hc : max ws rs ≥ min we re
    · rw [if_pos hc, ih]
      constructor
      · rintro ⟨j, rfl, hj, ho⟩
        exact ⟨j + 1, by omega, by simp; omega, by simpa using ho⟩
      · rintro ⟨j, rfl, hj, ho⟩
        cases j with
        | zero =>
          simp only [List.getElem_cons_zero] at ho
          rw [overlaps_iff] at ho; omega
        | succ j =>
          exact ⟨j, by omega, by simp at hj; omega, by simpa using ho⟩
    · rw [if_neg hc, List.mem_cons, ih]
      constructor
      · rintro (rfl | ⟨j, rfl, hj, ho⟩)
        · exact ⟨0, rfl, by simp, by simp only [List.getElem_cons_zero]; rw [overlaps_iff]; omega⟩
        · exact ⟨j + 1, by omega, by simp; omega, by simpa using ho⟩
      · rintro ⟨j, rfl, hj, ho⟩
        cases j with
        | zero => left; rfl
        | succ j => right; exact ⟨j, by omega, by simp at hj; omega, by simpa using ho⟩

theorem notifyFrom_ge (ws we : Nat) (obs : List (Nat × Nat)) (k : Nat) :
    ∀ i ∈ notifyFrom ws we obs k, k ≤ i := by
  intro i hi; rw [mem_notifyFrom] at hi; obtain ⟨j, rfl, _⟩ := hi; omega

/-- fired indices come out in strictly ascending registration order (each observer at most once) -/
theorem notifyFrom_sorted (ws we : Nat) (obs : List (Nat × Nat)) (k : Nat) :
    (notifyFrom ws we obs k).Pairwise (· < ·) := by
  induction obs generalizing k with
  | nil => simp [notifyFrom]
  | cons o rest ih =>
    obtain ⟨rs, re⟩ := o
    simp only [notifyFrom]
    split
    · exact ih _
    · refine List.pairwise_cons.mpr ⟨fun i hi => ?_, ih _⟩
      have := notifyFrom_ge ws we rest (k + 1) i hi
      omega

/-! ### Layout -/

theorem layoutOffsets_length (run : Nat) (ds : List RegDecl) : (layoutOffsets run ds).length = ds.length := by
  induction ds generalizing run with
  | nil => rfl
  | cons d ds ih => simp [layoutOffsets, ih]

/-- Independent specification of a register's offset, position by position: the explicit
`offset = ..` if there is one, else 0 (`run`) for the first register, else the previous
register's offset plus the previous register's length. -/
def specOffset (run : Nat) (ds : List RegDecl) : Nat → Option Nat
  | 0 =>
    match ds[0]? with
    | none => none
    | some d => some (match d.offset with | some o => o | none => run)
  | i + 1 =>
    match ds[i + 1]?, ds[i]?, specOffset run ds i with
    | some d, some dprev, some prev =>
      some (match d.offset with | some o => o | none => prev + dprev.len)
    | _, _, _ => none

theorem specOffset_cons (run : Nat) (d : RegDecl) (ds : List RegDecl) (i : Nat) :
    specOffset run (d :: ds) (i + 1) =
      specOffset ((match d.offset with | some o => o | none => run) + d.len) ds i := by
  induction i with
  | zero =>
    simp only [specOffset, List.getElem?_cons_succ, List.getElem?_cons_zero]
    cases ds[0]? <;> rfl
  | succ i ih =>
    rw [specOffset, ih]
    simp only [List.getElem?_cons_succ]
    conv => rhs; rw [specOffset]

/-- the running-offset threading of the macro computes exactly the specified offsets -/
theorem layoutOffsets_spec (run : Nat) (ds : List RegDecl) (i : Nat) :
    (layoutOffsets run ds)[i]? = specOffset run ds i := by
  induction ds generalizing run i with
  | nil => cases i <;> simp [layoutOffsets, specOffset]
  | cons d ds ih =>
    cases i with
    | zero => simp [layoutOffsets, specOffset]; cases d.offset <;> rfl
    | succ i => rw [specOffset_cons, ← ih]; simp [layoutOffsets]; cases d.offset <;> rfl

/-- without explicit offsets the registers are laid out back to back -/
theorem layoutOffsets_contiguous (run : Nat) (ds : List RegDecl) (hno : ∀ d ∈ ds, d.offset = none)
    (i : Nat) (h : i < ds.length) :
    (layoutOffsets run ds)[i]? = some (run + ((ds.take i).map (·.len)).sum) := by
  induction ds generalizing run i with
  | nil => simp at h
  | cons d ds ih =>
    have hd : d.offset = none := hno d (by simp)
    cases i with
    | zero => simp [layoutOffsets, hd]
    | succ i =>
      simp only [layoutOffsets, hd, List.getElem?_cons_succ, List.take_succ_cons, List.map_cons,
        List.sum_cons]
      rw [ih _ (fun x hx => hno x (by simp [hx])) i (by simpa using h)]
      simp only [Nat.add_assoc]

theorem foldl_max_ge (xs : List Nat) (a : Nat) :
    a ≤ xs.foldl (fun mx c => if mx < c then c else mx) a ∧
    ∀ x ∈ xs, x ≤ xs.foldl (fun mx c => if mx < c then c else mx) a := by
  induction xs generalizing a with
  | nil => simp
  | cons y ys ih =>
    simp only [List.foldl_cons, List.mem_cons]
    by_cases hay : a < y
    · have := ih y
      simp only [if_pos hay]
      exact ⟨by omega, fun x hx => by rcases hx with rfl | hx; exact this.1; exact this.2 x hx⟩
    · have := ih a
      simp only [if_neg hay]
      exact ⟨this.1, fun x hx => by rcases hx with rfl | hx; omega; exact this.2 x hx⟩

theorem foldl_max_mem (xs : List Nat) (a : Nat) :
    xs.foldl (fun mx c => if mx < c then c else mx) a = a ∨
    xs.foldl (fun mx c => if mx < c then c else mx) a ∈ xs := by
  induction xs generalizing a with
  | nil => simp
  | cons y ys ih =>
    simp only [List.foldl_cons, List.mem_cons]
    rcases ih (if a < y then y else a) with h | h
    · rw [h]; split
      · right; left; rfl
      · left; rfl
    · right; right; exact h

theorem maxFrom_spec (xs : List Nat) (m : Nat) (h : maxFrom xs = some m) :
    m ∈ xs ∧ ∀ x ∈ xs, x ≤ m := by
  cases xs with
  | nil => simp [maxFrom] at h
  | cons x xs =>
    simp only [maxFrom, Option.some.injEq] at h
    subst h
    constructor
    · rcases foldl_max_mem (x :: xs) x with h | h
      · rw [h]; simp
      · exact h
    · exact (foldl_max_ge (x :: xs) x).2

/-! ### Slices -/

theorem splice_length (m : Bytes) (s e : Nat) (d out : Bytes) (h : splice m s e d = .ok out) :
    out.length = m.length := by
  unfold splice at h
  split at h
  · split at h
    · cases h
      simp only [List.length_append, List.length_take, List.length_drop]
      omega
    · cases h
  · cases h

end CamVerif.Memory
