/- C02 helper: field extraction depends only on the bits up to `m` (split from Proofs/C02 to keep rebuilds short). -/
import CamVerif.Proofs.C02
import Std.Tactic.BVDecide
namespace CamVerif.Proofs.C02
open CamVerif CamVerif.Reg CamVerif.BitMask CamVerif.Spec.Codec

/-- extraction looks only at the bits `≤ m` of the word -/
theorem specExtract_congr_bv (s : Sign) (l m w1 w2 : BitVec 64) (h1 : l ≤ m) (h2 : m < 64)
    (h : (w1 ^^^ w2) <<< (63 - m) = 0) : specExtract s l m w1 = specExtract s l m w2 := by
  cases s <;> simp only [specExtract, fieldMask] <;> bv_decide (config := { timeout := 120 })

theorem specExtract_congr (s : Sign) (l m w1 w2 : BitVec 64) (h1 : l ≤ m) (h2 : m < 64)
    (h : ∀ i, i ≤ m.toNat → w1.getLsbD i = w2.getLsbD i) :
    specExtract s l m w1 = specExtract s l m w2 := by
  apply specExtract_congr_bv s l m w1 w2 h1 h2
  apply BitVec.eq_of_getLsbD_eq
  intro i hi
  have hm : m.toNat < 64 := by rw [BitVec.lt_def] at h2; exact h2
  have hk : ((63 : BitVec 64) - m).toNat = 63 - m.toNat := by
    rw [BitVec.toNat_sub_of_le (by rw [BitVec.le_def]; show m.toNat ≤ 63; omega)]
    rfl
  rw [BitVec.shiftLeft_eq', BitVec.getLsbD_shiftLeft, hk, BitVec.getLsbD_xor]
  by_cases hik : i < 63 - m.toNat
  · simp [hik]
  · rw [h (i - (63 - m.toNat)) (by omega)]
    simp


end CamVerif.Proofs.C02
