/-
Helper lemmas for C11 over the GENERATED pixel-format tables (`CamVerif.Gen.PixelFormat`,
re-emitted from `device/src/pixel_format.rs` on every check run).  Everything here is
re-checked by the kernel whenever the tables change: the finite facts are `decide +kernel`
over the generated lists, the quantified statements follow from them by list lemmas.
-/
import CamVerif.Gen.PixelFormat
namespace CamVerif.C11.Pixel
open CamVerif.Gen.PixelFormat

/-- Round trip of one variant: it has an encode arm, the code fits `u32`, and the code
decodes back to the same variant. -/
def roundTripOk (f : PixelFormat) : Bool :=
  match encode? f with
  | some c => decode c == some f && decide (c < 2 ^ 32)
  | none => false

theorem roundTripOk_all (f : PixelFormat) : roundTripOk f = true := by
  cases f <;> decide +kernel

/-- every constructor of the enum is listed in `allFormats` -/
theorem mem_allFormats (f : PixelFormat) : f ∈ allFormats := by
  cases f <;> decide +kernel

theorem allFormats_nodup : allFormats.Nodup := by decide +kernel

/-- no literal occurs in two arms of `TryFrom<u32>` (no shadowed, unreachable arm) -/
theorem decode_codes_nodup : (decodeTable.map (·.1)).Nodup := by decide +kernel

/-- no variant is produced by two arms of `TryFrom<u32>` -/
theorem decode_formats_nodup : (decodeTable.map (·.2)).Nodup := by decide +kernel

/-- no variant occurs in two arms of `From<PixelFormat> for u32` -/
theorem encode_formats_nodup : (encodeTable.map (·.1)).Nodup := by decide +kernel

/-- no code is produced by two arms of `From<PixelFormat> for u32` -/
theorem encode_codes_nodup : (encodeTable.map (·.2)).Nodup := by decide +kernel

theorem table_lengths :
    decodeTable.length = allFormats.length ∧ encodeTable.length = allFormats.length := by
  decide +kernel

/-- every decode arm `(c, f)` is mirrored by the encode table -/
theorem decodeTable_encodes :
    decodeTable.all (fun cf => encode? cf.2 == some cf.1) = true := by decide +kernel

theorem lookupCode_mem {c : Nat} {f : PixelFormat} : ∀ {t : List (Nat × PixelFormat)},
    lookupCode c t = some f → (c, f) ∈ t := by
  intro t
  induction t with
  | nil => intro h; simp [lookupCode] at h
  | cons kv rest ih =>
    obtain ⟨k, g⟩ := kv
    intro h
    unfold lookupCode at h
    split at h
    · cases h; subst_vars; simp
    · exact List.mem_cons_of_mem _ (ih h)

theorem encode_of_decode {c : Nat} {f : PixelFormat} (h : decode c = some f) :
    encode? f = some c := by
  have hm := lookupCode_mem h
  have hall := decodeTable_encodes
  rw [List.all_eq_true] at hall
  have := hall (c, f) hm
  simpa using this

theorem decode_of_encode {c : Nat} {f : PixelFormat} (h : encode? f = some c) :
    decode c = some f ∧ c < 2 ^ 32 := by
  have hr := roundTripOk_all f
  unfold roundTripOk at hr
  rw [h] at hr
  simpa using hr

theorem encode_total (f : PixelFormat) : ∃ c, encode? f = some c := by
  have hr := roundTripOk_all f
  unfold roundTripOk at hr
  cases h : encode? f with
  | none => rw [h] at hr; cases hr
  | some c => exact ⟨c, rfl⟩

end CamVerif.C11.Pixel
