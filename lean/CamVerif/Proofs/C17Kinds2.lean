/-
C17 helper lemmas, part 2b: Float, FloatReg, String, Port, SwissKnife, Converter,
IntConverter, Enumeration on rendered children.
-/
import CamVerif.Proofs.C17Kinds
set_option linter.unusedSimpArgs false
namespace CamVerif.XmlParse
variable {F : Type}
variable [TextFrag]

/-! ### float immediates / references -/

theorem pImmOrPFloat_body [FloatLit F] (tag : Str) (b : Body) (x : IR (FltLit F))
    (hb : textView b.2 = .ok (irText FltLit.text x)) (rest : Cur) (st : St F) :
    pImmOrPFloat (mkNode tag b :: rest) st = .ok ((irFloatS x st).1, rest, (irFloatS x st).2) := by
  cases x with
  | imm l =>
    simp only [irText] at hb
    rcases l.imm with h | h | h | h
    · simp [pImmOrPFloat, P.bind_def, peekText_body _ _ _ hb, h, pF64_body _ _ l hb, irFloatS,
        pure_apply]
    · simp [pImmOrPFloat, P.bind_def, peekText_body _ _ _ hb, h, pF64_body _ _ l hb, irFloatS,
        pure_apply]
    · simp [pImmOrPFloat, P.bind_def, peekText_body _ _ _ hb, h, pF64_body _ _ l hb, irFloatS,
        pure_apply]
    · by_cases h3 : l.text = cs!"INF" ∨ l.text = cs!"-INF" ∨ l.text = cs!"NaN"
      · simp [pImmOrPFloat, P.bind_def, peekText_body _ _ _ hb, h3, pF64_body _ _ l hb, irFloatS,
          pure_apply]
      · simp [pImmOrPFloat, P.bind_def, peekText_body _ _ _ hb, h3, h, P.ofR, pF64_body _ _ l hb,
          irFloatS, pure_apply]
  | ref n =>
    simp only [irText] at hb
    have h3 : ¬ (n.name = cs!"INF" ∨ n.name = cs!"-INF" ∨ n.name = cs!"NaN") := by
      intro h
      rcases h with h | h | h
      · exact n.notInf h
      · have := n.alpha; rw [h] at this; exact absurd this (by decide)
      · exact n.notNaN h
    simp [pImmOrPFloat, P.bind_def, peekText_body _ _ _ hb, h3, n.alpha, P.ofR,
      pNodeId_body _ _ _ hb, irFloatS, pure_apply]

theorem pImmOrPFloatId_body [FloatLit F] (tag : Str) (b : Body) (x : IR (FltLit F))
    (hb : textView b.2 = .ok (irText FltLit.text x)) (rest : Cur) (st : St F) :
    pImmOrPFloatId (mkNode tag b :: rest) st =
      .ok ((irFloatIdS x st).1, rest, (irFloatIdS x st).2) := by
  cases x with
  | imm l =>
    simp [pImmOrPFloatId, P.bind_def, pImmOrPFloat_body tag b _ hb, irFloatS, irFloatIdS,
      storeValue, storeS, pure_apply]
  | ref n =>
    simp [pImmOrPFloatId, P.bind_def, pImmOrPFloat_body tag b _ hb, irFloatS, irFloatIdS,
      pure_apply]

theorem pFloatId_node [FloatLit F] (tag : Str) (l : FltLit F) (rest : Cur) (st : St F) :
    pFloatId (mkNode tag (tb l.text) :: rest) st =
      .ok ((storeS (.float l.val) st).1, rest, (storeS (.float l.val) st).2) := by
  simp [pFloatId, P.bind_def, pF64_body _ _ l (textView_tb _), storeValue, storeS]

theorem pValueIndexed_float [FloatLit F] (t1 t2 : Str) (x : IntLit × IR (FltLit F)) (rest : Cur)
    (st : St F) :
    pValueIndexed pImmOrPFloatId
        (mkNode (sel2 t1 t2 (indexedBody FltLit.text x).1) (indexedBody FltLit.text x).2 :: rest) st =
      .ok ((indexedS irFloatIdS x st).1, rest, (indexedS irFloatIdS x st).2) := by
  simp [pValueIndexed, P.bind_def, P.bind_def', peekElem_node, index_indexedBody, ofOpt, x.1.ok, P.ofR,
    pImmOrPFloatId_body _ _ x.2 (textView_indexedBody FltLit.text x), indexedS, Bind.bind, Res.bind]
  rfl

/-- `ValueKind<FloatId>` -/
theorem pValueKind_float [FloatLit F] (v : ValueM (FltLit F)) (segs : List Seg) (st : St F)
    (h1 : canStart cs!"pValueCopy" segs = false) :
    pValueKind pFloatId pImmOrPFloatId (flat (v.segs FltLit.text ++ segs)) st =
      .ok ((valueS (fun l => .float l.val) irFloatIdS v st).1, flat segs,
        (valueS (fun l => .float l.val) irFloatIdS v st).2) := by
  cases v with
  | value l =>
    simp [pValueKind, ValueM.segs, P.bind_def, peekElem_node, pFloatId_node, valueS]
    rfl
  | pValue before p after =>
    have e1 := fun st => parseWhile_manyNodeId (F := F) cs!"pValueCopy" before
      (.one cs!"pValue" (tb p) :: .many cs!"pValueCopy" (after.map tb) :: segs) st (by rfl)
    have e2 := fun st => parseWhile_manyNodeId (F := F) cs!"pValueCopy" after segs st h1
    cases before with
    | nil =>
      simp [listS] at e1
      simp [pValueKind, ValueM.segs, P.bind_def, peekElem_node, pPValue, pNodeId_node, e1, e2, valueS,
        listS]
      rfl
    | cons b bs =>
      simp only [List.map_cons, flat_many_cons] at e1
      simp [pValueKind, ValueM.segs, P.bind_def, peekElem_node, pPValue, e1, pNodeId_node, e2, valueS]
      rfl
  | pIndex p indexed dflt =>
    have e1 := fun st n hn => whileSome_many2 (F := F) cs!"ValueIndexed" cs!"pValueIndexed"
      (pValueIndexed pImmOrPFloatId) (indexedBody FltLit.text) (indexedS irFloatIdS)
      (fun a rest st => pValueIndexed_float _ _ a rest st) (by decide) indexed
      (.one2 cs!"ValueDefault" cs!"pValueDefault" (irBody FltLit.text dflt) :: segs) st (by rfl)
      (by rfl) n hn
    simp [pValueKind, ValueM.segs, P.bind_def, peekElem_node, pPIndex, pNodeId_node, valueS]
    rw [e1 _ _ (by simp)]
    simp [pImmOrPFloatId_body _ _ dflt (textView_irBody FltLit.text dflt)]
    rfl

theorem orElse_opt2_floatId [FloatLit F] (t1 t2 : Str) (hne : t2 ≠ t1) (v : Option (IR (FltLit F)))
    (segs : List Seg) (st : St F) (h1 : canStart t1 segs = false) (h2 : canStart t2 segs = false) :
    orElse (parseIf t1 pImmOrPFloatId) (parseIf t2 pImmOrPFloatId)
        (flat (.opt2 t1 t2 (v.map (irBody FltLit.text)) :: segs)) st =
      .ok ((optS irFloatIdS v st).1, flat segs, (optS irFloatIdS v st).2) :=
  orElse_opt2 t1 t2 pImmOrPFloatId (irBody FltLit.text) irFloatIdS
    (fun a rest st => pImmOrPFloatId_body _ _ a (textView_irBody FltLit.text a) rest st)
    hne v segs st h1 h2

theorem orElse_opt2_float [FloatLit F] (t1 t2 : Str) (hne : t2 ≠ t1) (v : Option (IR (FltLit F)))
    (segs : List Seg) (st : St F) (h1 : canStart t1 segs = false) (h2 : canStart t2 segs = false) :
    orElse (parseIf t1 pImmOrPFloat) (parseIf t2 pImmOrPFloat)
        (flat (.opt2 t1 t2 (v.map (irBody FltLit.text)) :: segs)) st =
      .ok ((optS irFloatS v st).1, flat segs, (optS irFloatS v st).2) :=
  orElse_opt2 t1 t2 pImmOrPFloat (irBody FltLit.text) irFloatS
    (fun a rest st => pImmOrPFloat_body _ _ a (textView_irBody FltLit.text a) rest st)
    hne v segs st h1 h2

set_option maxRecDepth 4000 in
theorem pFloat_render [FloatLit F] (m : FloatM F) (st : St F) :
    pFloat m.attr.render m.children st =
      .ok ((specFloat m st).1, [], (specFloat m st).2) := by
  let tail : List Seg :=
    [ .opt2 cs!"Min" cs!"pMin" (m.min.map (irBody FltLit.text)),
      .opt2 cs!"Max" cs!"pMax" (m.max.map (irBody FltLit.text)),
      .opt2 cs!"Inc" cs!"pInc" (m.inc.map (irBody FltLit.text)),
      .opt cs!"Unit" (m.unit.map tb),
      .opt cs!"Representation" (m.representation.map fun r => tb r.text),
      .opt cs!"DisplayNotation" (m.displayNotation.map fun r => tb r.text),
      .opt cs!"DisplayPrecision" (m.displayPrecision.map fun l => tb l.text) ]
  have hch : m.children = flat (m.elem.segs [] ++
      (.opt cs!"Streamable" (m.streamable.map fun b => tb b.text) ::
        (m.value.segs FltLit.text ++ tail))) := by
    simp [FloatM.children, tail, List.append_assoc]
  have h := pElemBase_segs m.elem []
    (.opt cs!"Streamable" (m.streamable.map fun b => tb b.text) ::
        (m.value.segs FltLit.text ++ tail))
    (specAttr m.attr st).2 (by
      simp [noneStart, elemTags, canStart, canStart_valueSegs])
  have e1 := fun st => parseIf_optBool (F := F) cs!"Streamable" m.streamable
    (m.value.segs FltLit.text ++ tail) st (by simp [canStart_valueSegs])
  have e2 := fun st => pValueKind_float (F := F) m.value tail st (by rfl)
  rw [hch]
  simp [pFloat, P.bind_def, pAttrBase_render, h, e1, parseIfD_def, e2, tail]
  simp (config := { maxDischargeDepth := 3 }) [orElse_opt2_floatId, canStart]
  cases hmin : m.min <;>
    simp (config := { maxDischargeDepth := 3 }) [optS, storeValue, storeS, P.bind_def, pure_apply,
      orElse_opt2_floatId, canStart] <;>
  cases hmax : m.max <;>
    simp (config := { maxDischargeDepth := 3 }) [specFloat, optS, hmin, hmax, storeValue, storeS,
      P.bind_def, pure_apply, orElse_opt2_float, canStart, parseIf_optString,
      parseIf_optTable _ _ lookup_floatRepr, parseIf_optTable _ _ lookup_displayNotation,
      parseIf_optI64_last, parseIfD_def]


theorem pFloatReg_render [FloatLit F] (pr : Profile) (m : FloatRegM) (st : St F) :
    pFloatReg pr m.attr.render m.children st =
      .ok ((specFloatReg m st).1, [], (specFloatReg m st).2) := by
  have h := pRegBase_segs pr m.reg
    [ .opt cs!"Endianess" (m.endianness.map fun x => tb x.text),
      .opt cs!"Unit" (m.unit.map tb),
      .opt cs!"Representation" (m.representation.map fun r => tb r.text),
      .opt cs!"DisplayNotation" (m.displayNotation.map fun r => tb r.text),
      .opt cs!"DisplayPrecision" (m.displayPrecision.map fun l => tb l.text) ]
    (specAttr m.attr st).2 (by rfl)
  simp (config := { maxDischargeDepth := 3 }) [pFloatReg, FloatRegM.children, P.bind_def,
    pAttrBase_render, h, specFloatReg, parseIfD_def, parseIf_optTable _ _ lookup_endianness,
    parseIf_optString, parseIf_optTable _ _ lookup_floatRepr,
    parseIf_optTable _ _ lookup_displayNotation, parseIf_optI64_last, canStart,
    storeInvalidators_eq, pure_apply]

theorem pStringValue_imm (s : Str) (rest : Cur) (st : St F) :
    pStringValue (mkNode cs!"Value" (tb s) :: rest) st =
      .ok (.imm (storeS (.str s) st).1, rest, (storeS (.str s) st).2) := by
  simp [pStringValue, P.bind_def, nextIf_hit, P.ofR, storeValue, storeS, pure_apply]

theorem pStringValue_ref (n : Str) (rest : Cur) (st : St F) :
    pStringValue (mkNode cs!"pValue" (tb n) :: rest) st =
      .ok (.pnode (internS n st).1, rest, (internS n st).2) := by
  have : nextIf (F := F) cs!"Value" (mkNode cs!"pValue" (tb n) :: rest) st =
      .ok (none, mkNode cs!"pValue" (tb n) :: rest, st) := by
    simp [nextIf, mkNode, skipJunk]
  simp [pStringValue, P.bind_def, this, nextText_node, intern, internS, pure_apply]

theorem pStringNode_render (m : StringM) (st : St F) :
    pStringNode m.attr.render m.children st =
      .ok ((specString m st).1, [], (specString m st).2) := by
  have h := pElemBase_segs m.elem []
    [ .opt cs!"Streamable" (m.streamable.map fun b => tb b.text),
      .one2 cs!"Value" cs!"pValue" m.value.body ]
    (specAttr m.attr st).2 (by rfl)
  cases hv : m.value with
  | imm s =>
    simp only [hv, StringValueM.body] at h
    simp [pStringNode, StringM.children, P.bind_def, pAttrBase_render, h, specString, hv,
      StringValueM.body, sel2, parseIfD_def, parseIf_optBool, canStart, pStringValue_imm, pure_apply]
  | ref n =>
    simp only [hv, StringValueM.body] at h
    simp [pStringNode, StringM.children, P.bind_def, pAttrBase_render, h, specString, hv,
      StringValueM.body, sel2, parseIfD_def, parseIf_optBool, canStart, pStringValue_ref, pure_apply]

theorem pChunkId_opt2 (v : Option ChunkM) (segs : List Seg) (st : St F)
    (h1 : canStart cs!"ChunkID" segs = false) (h2 : canStart cs!"pChunkID" segs = false) :
    pChunkId (flat (.opt2 cs!"ChunkID" cs!"pChunkID" (v.map ChunkM.body) :: segs)) st =
      .ok ((optS chunkS v st).1, flat segs, (optS chunkS v st).2) := by
  cases v with
  | none =>
    have a1 := pOptHexElem_opt (F := F) cs!"ChunkID" none segs st h1
    have a2 := nextIf_skip (F := F) cs!"pChunkID" segs st h2
    simp at a1
    simp [pChunkId, P.bind_def, a1, a2, optS, pure_apply]
  | some c =>
    cases c with
    | imm hx =>
      have a1 := pOptHexElem_opt (F := F) cs!"ChunkID" (some hx) segs st h1
      simp at a1
      simp [pChunkId, P.bind_def, ChunkM.body, sel2, a1, optS, chunkS, pure_apply]
    | ref n =>
      have a0 : nextIf (F := F) cs!"ChunkID" (mkNode cs!"pChunkID" (tb n) :: flat segs) st =
          .ok (none, mkNode cs!"pChunkID" (tb n) :: flat segs, st) := by
        simp [nextIf, mkNode, skipJunk]
      simp [pChunkId, pOptHexElem, P.bind_def, ChunkM.body, sel2, a0, nextIf_hit, P.ofR, intern,
        internS, optS, chunkS, pure_apply]

theorem pPort_render (m : PortM) (st : St F) :
    pPort m.attr.render m.children st = .ok ((specPort m st).1, [], (specPort m st).2) := by
  have h := pElemBase_segs m.elem []
    [ .opt2 cs!"ChunkID" cs!"pChunkID" (m.chunkId.map ChunkM.body),
      .opt cs!"SwapEndianess" (m.swapEndianness.map fun b => tb b.text),
      .opt cs!"CacheChunkData" (m.cacheChunkData.map fun b => tb b.text) ]
    (specAttr m.attr st).2 (by rfl)
  have e1 := fun st => pChunkId_opt2 (F := F) m.chunkId
    [ .opt cs!"SwapEndianess" (m.swapEndianness.map fun b => tb b.text),
      .opt cs!"CacheChunkData" (m.cacheChunkData.map fun b => tb b.text) ] st (by rfl) (by rfl)
  simp [pPort, PortM.children, P.bind_def, pAttrBase_render, h, e1, specPort, parseIfD_def,
    parseIf_optBool, parseIf_optBool_last, canStart, pure_apply]


/-! ### SwissKnife, Converter, IntConverter -/

theorem pNamedValue_f64 [FloatLit F] (tag : Str) (x : Str × FltLit F) (rest : Cur) (st : St F) :
    pNamedValue pF64 (mkNode tag (ntb x.1 x.2.text) :: rest) st =
      .ok (⟨x.1, x.2.val⟩, rest, st) := by
  simp [pNamedValue, P.bind_def, P.bind_def', peekElem_node, name_ntb, ofOpt, P.ofR,
    pF64_body _ _ x.2 (textView_ntb x.1 x.2.text), pure_apply]

theorem parseWhile_constantsFloat [FloatLit F] (vs : List (Str × FltLit F)) (segs : List Seg)
    (st : St F) (h : canStart cs!"Constant" segs = false) :
    parseWhile cs!"Constant" (pNamedValue pF64)
        (flat (.many cs!"Constant" (vs.map fun x => ntb x.1 x.2.text) :: segs)) st =
      .ok (vs.map fun x => ⟨x.1, x.2.val⟩, flat segs, st) := by
  have := parseWhile_many cs!"Constant" (pNamedValue pF64)
    (fun x : Str × FltLit F => ntb x.1 x.2.text)
    (fun x st => ((⟨x.1, x.2.val⟩ : NamedValue F), st))
    (fun a rest st => pNamedValue_f64 _ a rest st) vs segs st h
  simpa [listS_pure] using this

theorem pSwissKnife_render [FloatLit F] (m : SwissKnifeM F) (st : St F) :
    pSwissKnife m.attr.render m.children st =
      .ok ((specSwissKnife m st).1, [], (specSwissKnife m st).2) := by
  have h := pElemBase_segs m.elem []
    [ .opt cs!"Streamable" (m.streamable.map fun b => tb b.text),
      .many cs!"pVariable" (m.pVariables.map fun x => ntb x.1 x.2),
      .many cs!"Constant" (m.constants.map fun x => ntb x.1 x.2.text),
      .many cs!"Expression" (m.expressions.map fun x => ntb x.1 x.2.text),
      .one cs!"Formula" (tb m.formula.text),
      .opt cs!"Unit" (m.unit.map tb),
      .opt cs!"Representation" (m.representation.map fun r => tb r.text),
      .opt cs!"DisplayNotation" (m.displayNotation.map fun r => tb r.text),
      .opt cs!"DisplayPrecision" (m.displayPrecision.map fun l => tb l.text) ]
    (specAttr m.attr st).2 (by rfl)
  simp (config := { maxDischargeDepth := 3 }) [pSwissKnife, SwissKnifeM.children, P.bind_def,
    pAttrBase_render, h, specSwissKnife, parseIfD_def, parseIf_optBool, parseWhile_pVariables,
    parseWhile_constantsFloat, parseWhile_expressions, canStart,
    pFormula_body _ _ m.formula (textView_tb _), parseIf_optString,
    parseIf_optTable _ _ lookup_floatRepr, parseIf_optTable _ _ lookup_displayNotation,
    parseIf_optI64_last, pure_apply]

theorem pConverter_render [FloatLit F] (m : ConverterM F) (st : St F) :
    pConverter m.attr.render m.children st =
      .ok ((specConverter m st).1, [], (specConverter m st).2) := by
  have h := pElemBase_segs m.elem []
    [ .opt cs!"Streamable" (m.streamable.map fun b => tb b.text),
      .many cs!"pVariable" (m.pVariables.map fun x => ntb x.1 x.2),
      .many cs!"Constant" (m.constants.map fun x => ntb x.1 x.2.text),
      .many cs!"Expression" (m.expressions.map fun x => ntb x.1 x.2.text),
      .one cs!"FormulaTo" (tb m.formulaTo.text),
      .one cs!"FormulaFrom" (tb m.formulaFrom.text),
      .one cs!"pValue" (tb m.pValue),
      .opt cs!"Unit" (m.unit.map tb),
      .opt cs!"Representation" (m.representation.map fun r => tb r.text),
      .opt cs!"DisplayNotation" (m.displayNotation.map fun r => tb r.text),
      .opt cs!"DisplayPrecision" (m.displayPrecision.map fun l => tb l.text),
      .opt cs!"Slope" (m.slope.map fun r => tb r.text),
      .opt cs!"IsLinear" (m.isLinear.map fun b => tb b.text) ]
    (specAttr m.attr st).2 (by rfl)
  simp (config := { maxDischargeDepth := 3 }) [pConverter, ConverterM.children, P.bind_def,
    pAttrBase_render, h, specConverter, parseIfD_def, parseIf_optBool, parseWhile_pVariables,
    parseWhile_constantsFloat, parseWhile_expressions, canStart,
    pFormula_body _ _ m.formulaTo (textView_tb _), pFormula_body _ _ m.formulaFrom (textView_tb _),
    pNodeId_node, parseIf_optString, parseIf_optI64,
    parseIf_optTable _ _ lookup_floatRepr, parseIf_optTable _ _ lookup_displayNotation,
    parseIf_optTable _ _ lookup_slope, parseIf_optBool_last, pure_apply]

theorem pIntConverter_render [FloatLit F] (m : IntConverterM F) (st : St F) :
    pIntConverter m.attr.render m.children st =
      .ok ((specIntConverter m st).1, [], (specIntConverter m st).2) := by
  have h := pElemBase_segs m.elem []
    [ .opt cs!"Streamable" (m.streamable.map fun b => tb b.text),
      .many cs!"pVariable" (m.pVariables.map fun x => ntb x.1 x.2),
      .many cs!"Constant" (m.constants.map fun x => ntb x.1 x.2.text),
      .many cs!"Expression" (m.expressions.map fun x => ntb x.1 x.2.text),
      .one cs!"FormulaTo" (tb m.formulaTo.text),
      .one cs!"FormulaFrom" (tb m.formulaFrom.text),
      .one cs!"pValue" (tb m.pValue),
      .opt cs!"Unit" (m.unit.map tb),
      .opt cs!"Representation" (m.representation.map fun r => tb r.text),
      .opt cs!"Slope" (m.slope.map fun r => tb r.text) ]
    (specAttr m.attr st).2 (by rfl)
  simp (config := { maxDischargeDepth := 3 }) [pIntConverter, IntConverterM.children, P.bind_def,
    pAttrBase_render, h, specIntConverter, parseIfD_def, parseIf_optBool, parseWhile_pVariables,
    parseWhile_constantsInt, parseWhile_expressions, canStart,
    pFormula_body _ _ m.formulaTo (textView_tb _), pFormula_body _ _ m.formulaFrom (textView_tb _),
    pNodeId_node, parseIf_optString, parseIf_optTable _ _ lookup_intRepr,
    parseIf_optTable_last _ _ lookup_slope, pure_apply]


/-! ### Enumeration -/

theorem parseIf_optF64 [FloatLit F] (tag : Str) (v : Option (FltLit F)) (segs : List Seg) (st : St F)
    (h : canStart tag segs = false) :
    parseIf tag pF64 (flat (.opt tag (v.map fun b => tb b.text) :: segs)) st =
      .ok (v.map FltLit.val, flat segs, st) :=
  parseIf_optPure tag pF64 (fun b : FltLit F => tb b.text) FltLit.val
    (fun a rest st => pF64_body tag _ a (textView_tb _) rest st) v segs st h

theorem pEnumEntry_body [FloatLit F] (e : EnumEntryM F) (st : St F) :
    pEnumEntry e.body.1 e.body.2 st = .ok ((specEnumEntry e st).1, [], (specEnumEntry e st).2) := by
  have h := fun st => pElemBase_segs (F := F) e.elem []
    [ .one cs!"Value" (tb e.value.text),
      .opt cs!"NumericValue" (e.numericValue.map fun l => tb l.text),
      .opt cs!"IsSelfClearing" (e.isSelfClearing.map fun b => tb b.text) ] st (by rfl)
  simp (config := { maxDischargeDepth := 3 }) [pEnumEntry, EnumEntryM.body, P.bind_def, name_render,
    ofOpt, P.ofR, freshId, intern, attrRest_render, h, pI64_node, parseIf_optF64, parseIfD_def,
    parseIf_optBool_last, canStart, specEnumEntry, internS, pure_apply]

theorem storeNode_eq (pr : Profile) (id : Nat) (d : NodeData F) (cur : Cur) (st : St F) :
    storeNode pr id d cur st = (storeNodeS pr id d st).bind fun st' => .ok ((), cur, st') := by
  unfold storeNode storeNodeS
  split <;> rfl

theorem pEnumEntryStep_hit [FloatLit F] (pr : Profile) (e : EnumEntryM F) (rest : Cur) (st : St F) :
    pEnumEntryStep pr (mkNode cs!"EnumEntry" e.body :: rest) st =
      (storeNodeS pr (specEnumEntry e st).1.attr.id (.enumEntry (specEnumEntry e st).1)
        (specEnumEntry e st).2).bind fun st' =>
          .ok (some (specEnumEntry e st).1.attr.id, rest, st') := by
  simp only [pEnumEntryStep, P.bind_def, nextIf_hit, Res.bind_ok', onChild, pEnumEntry_body,
    storeNode_eq]
  cases storeNodeS pr (specEnumEntry e st).1.attr.id (.enumEntry (specEnumEntry e st).1)
      (specEnumEntry e st).2 <;> simp [pure_apply]

theorem pEnumEntryStep_skip [FloatLit F] (pr : Profile) (segs : List Seg) (st : St F)
    (h : canStart cs!"EnumEntry" segs = false) :
    pEnumEntryStep pr (flat segs) st = .ok (none, flat segs, st) := by
  simp [pEnumEntryStep, P.bind_def, nextIf_skip _ segs st h, pure_apply]

theorem whileSome_enumEntries [FloatLit F] (pr : Profile) (es : List (EnumEntryM F))
    (segs : List Seg) (st : St F) (h : canStart cs!"EnumEntry" segs = false) (n : Nat)
    (hn : (flat (.many cs!"EnumEntry" (es.map EnumEntryM.body) :: segs)).length + 1 ≤ n) :
    whileSome (pEnumEntryStep pr) n (flat (.many cs!"EnumEntry" (es.map EnumEntryM.body) :: segs)) st =
      (enumEntriesS pr es st).bind fun r => .ok (r.1, flat segs, r.2) := by
  induction es generalizing st n with
  | nil =>
    cases n with
    | zero => omega
    | succ n => simp [whileSome, pEnumEntryStep_skip pr segs st h, enumEntriesS]
  | cons e es ih =>
    cases n with
    | zero => omega
    | succ n =>
      have hle' : (flat (Seg.many cs!"EnumEntry" (List.map EnumEntryM.body es) :: segs)).length + 1 ≤ n := by
        simp at hn ⊢; omega
      simp only [List.map_cons, flat_many_cons, whileSome, pEnumEntryStep_hit, enumEntriesS]
      cases storeNodeS pr (specEnumEntry e st).1.attr.id (.enumEntry (specEnumEntry e st).1)
          (specEnumEntry e st).2 with
      | ok st' =>
        simp only [Res.bind_ok', ih _ _ hle']
        cases enumEntriesS pr es st' <;> simp
      | err x => rfl
      | panic => rfl

theorem pEnumeration_render [FloatLit F] (pr : Profile) (m : EnumerationM F) (st : St F) :
    pEnumeration pr m.attr.render m.children st =
      (specEnumeration pr m st).bind fun r => .ok (r.1, [], r.2) := by
  have h := pElemBase_segs m.elem []
    [ .opt cs!"Streamable" (m.streamable.map fun b => tb b.text),
      .many cs!"EnumEntry" (m.entries.map EnumEntryM.body),
      .one2 cs!"Value" cs!"pValue" (irBody IntLit.text m.value),
      .many cs!"pSelected" (m.pSelected.map tb),
      .opt cs!"PollingTime" (m.pollingTime.map fun l => tb l.text) ]
    (specAttr m.attr st).2 (by rfl)
  have e1 := fun st n hn => whileSome_enumEntries (F := F) pr m.entries
    [ .one2 cs!"Value" cs!"pValue" (irBody IntLit.text m.value),
      .many cs!"pSelected" (m.pSelected.map tb),
      .opt cs!"PollingTime" (m.pollingTime.map fun l => tb l.text) ] st (by rfl) n hn
  have hlen : (flat (Seg.many cs!"EnumEntry" (m.entries.map EnumEntryM.body) ::
      [ Seg.one2 cs!"Value" cs!"pValue" (irBody IntLit.text m.value),
        Seg.many cs!"pSelected" (m.pSelected.map tb),
        Seg.opt cs!"PollingTime" (m.pollingTime.map fun l => tb l.text) ])).length + 1 ≤
      m.children.length + 1 := by
    have := length_flat_cons_ge (.opt cs!"Streamable" (m.streamable.map fun b => tb b.text))
      (Seg.many cs!"EnumEntry" (m.entries.map EnumEntryM.body) ::
      [ Seg.one2 cs!"Value" cs!"pValue" (irBody IntLit.text m.value),
        Seg.many cs!"pSelected" (m.pSelected.map tb),
        Seg.opt cs!"PollingTime" (m.pollingTime.map fun l => tb l.text) ])
    simp only [EnumerationM.children, flat_append, List.length_append]
    omega
  have e1' := fun st => e1 st _ hlen
  simp only [EnumerationM.children] at e1' ⊢
  simp (config := { maxDischargeDepth := 3 }) only [pEnumeration, P.bind_def, pAttrBase_render,
    Res.bind_ok', h, parseIfD_def, parseIf_optBool, canStart, e1', specEnumeration]
  simp (config := { maxDischargeDepth := 3 }) [parseIf_optBool, canStart, e1']
  cases enumEntriesS pr m.entries (specElem m.elem [] (specAttr m.attr st).2).2 with
  | ok en =>
    simp (config := { maxDischargeDepth := 3 }) [pImmOrPIntegerId_ir, parseWhile_manyNodeId,
      parseIf_optU64_last, canStart, pure_apply]
  | err x => rfl
  | panic => rfl

end CamVerif.XmlParse
