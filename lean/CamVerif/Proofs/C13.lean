/-
C13 — helper lemmas: memory read-after-write, codec agreement between the model's
`parse` (mirrors `ParseBytes`) and the standard-side `Spec.U3V.decode`, codec round trips.
-/
import CamVerif.Model.RegMap
import CamVerif.Spec.U3V
namespace CamVerif.RegMap
open CamVerif

/-! ### Memory -/

@[simp] theorem readBytes_length (mem : Nat → UInt8) (a n : Nat) : (readBytes mem a n).length = n := by
  simp [readBytes]

/-- reading back exactly the range just written gives the written bytes -/
theorem readBytes_writeMem_same (mem : Nat → UInt8) (a : Nat) (data : Bytes) :
    readBytes (writeMem mem a data) a data.length = data := by
  apply List.ext_getElem?
  intro i
  simp only [readBytes, List.getElem?_map]
  by_cases hi : i < data.length
  · rw [List.getElem?_range hi]
    have h1 : ¬ (a + i < a) := by omega
    have h2 : a + i - a = i := by omega
    simp [writeMem, h1, List.getElem?_eq_getElem hi]
  · have h1 : (List.range data.length)[i]? = none := by
      simp only [List.getElem?_eq_none_iff, List.length_range]; omega
    have h2 : data[i]? = none := by
      simp only [List.getElem?_eq_none_iff]; omega
    simp [h1, h2]

/-- a write does not change bytes outside the written range -/
theorem writeMem_frame (mem : Nat → UInt8) (a : Nat) (data : Bytes) (x : Nat)
    (hx : x < a ∨ a + data.length ≤ x) : writeMem mem a data x = mem x := by
  unfold writeMem
  by_cases h : x < a
  · simp [h]
  · have : data[x - a]? = none := by
      simp only [List.getElem?_eq_none_iff]; omega
    simp [h, this]

/-! ### Numeric codec -/

theorem parseNum_ok (n : Nat) (bs : Bytes) (h : bs.length = n) : parseNum n bs = .ok (fromLE bs) := by
  simp [parseNum, h]

theorem parseNum_ne_panic (n : Nat) (bs : Bytes) (h : bs.length = n) : parseNum n bs ≠ .panic := by
  simp [parseNum, h]

theorem fromLE_toLE4 (v : Nat) (h : v < 2 ^ 32) : fromLE (toLE 4 v) = v :=
  fromLE_toLE_of_lt 4 v (by simpa using h)

theorem fromLE_toLE8 (v : Nat) (h : v < 2 ^ 64) : fromLE (toLE 8 v) = v :=
  fromLE_toLE_of_lt 8 v (by simpa using h)

/-! ### Strings -/

theorem cutAtNul_eq (bs : Bytes) : cutAtNul bs = bs.takeWhile (· != 0) := by
  induction bs with
  | nil => simp [cutAtNul, position0]
  | cons b bs ih =>
    by_cases hb : b = 0
    · simp [cutAtNul, position0, hb, List.takeWhile]
    · have hb' : (b != 0) = true := by simpa using hb
      simp only [cutAtNul, position0, if_neg hb, List.takeWhile, hb'] at ih ⊢
      cases hp : position0 bs with
      | none => simp [hp] at ih ⊢; exact ih
      | some n => simp [hp] at ih ⊢; exact ih

theorem parseString_eq (bs : Bytes) :
    parseString bs =
      if validUtf8 (Spec.U3V.cString bs) then .ok (.str (Spec.U3V.cString bs)) else .err .invalidDevice := by
  simp only [parseString, cutAtNul_eq, Spec.U3V.cString]
  rfl

theorem validUtf8_ascii (s : Bytes) (h : ∀ b ∈ s, b < 128) : validUtf8 s = true := by
  induction s with
  | nil => rw [validUtf8.eq_def]
  | cons b s ih =>
    have hb : b < 0x80 := h b (by simp)
    have := ih (fun x hx => h x (by simp [hx]))
    rw [validUtf8.eq_def]; simp [hb, this]

theorem takeWhile_append_zero (s : Bytes) (k : Nat) (hz : ∀ b ∈ s, b ≠ 0) :
    (s ++ List.replicate k (0 : UInt8)).takeWhile (· != 0) = s := by
  induction s with
  | nil => cases k <;> simp [List.replicate]
  | cons b s ih =>
    have hb : (b != 0) = true := by simpa using hz b (by simp)
    simp only [List.cons_append, List.takeWhile, hb]
    rw [ih (fun x hx => hz x (by simp [hx]))]

/-- name written by `DumpBytes for &str` parses back to itself -/
theorem parseString_dump (s : Bytes) (k : Nat) (ha : ∀ b ∈ s, b < 128) (hz : ∀ b ∈ s, b ≠ 0) :
    parseString (s ++ List.replicate k 0) = .ok (.str s) := by
  rw [parseString_eq]
  simp [Spec.U3V.cString, takeWhile_append_zero s k hz, validUtf8_ascii s ha]

/-! ### Bit fields -/

theorem Field.get_eq (f : Field) (raw : Nat) (h : Spec.U3V.fieldWf f = true) :
    f.get raw = raw / 2 ^ f.shift % (f.mask + 1) := by
  simp only [Spec.U3V.fieldWf, List.any_eq_true, beq_iff_eq] at h
  obtain ⟨k, _, hk⟩ := h
  have hm : f.mask = 2 ^ k - 1 := by omega
  unfold Field.get
  rw [hm, Nat.and_two_pow_sub_one_eq_mod, Nat.shiftRight_eq_div_pow]
  have : 2 ^ k - 1 + 1 = 2 ^ k := by
    have := Nat.two_pow_pos k
    omega
  rw [this]

/-! ### `parse` (the code) against `decode` (the standards) -/

theorem parse_eq_decode (dec : Dec) (bs : Bytes) (hl : bs.length = Spec.U3V.widthOf dec)
    (hwf : Spec.U3V.decWf dec = true) : parse dec bs = Spec.U3V.decode dec bs := by
  cases dec with
  | u32 => simp [parse, Spec.U3V.decode, parseNum_ok 4 bs (by simpa [Spec.U3V.widthOf] using hl), R.map]
  | u64 => simp [parse, Spec.U3V.decode, parseNum_ok 8 bs (by simpa [Spec.U3V.widthOf] using hl), R.map]
  | string => simp [parse, Spec.U3V.decode, parseString_eq]
  | duration => simp [parse, Spec.U3V.decode, parseNum_ok 4 bs (by simpa [Spec.U3V.widthOf] using hl), R.map]
  | enum32 t =>
    simp only [parse, Spec.U3V.decode, parseNum_ok 4 bs (by simpa [Spec.U3V.widthOf] using hl)]
    rfl
  | deviceConfiguration =>
    simp [parse, Spec.U3V.decode, parseNum_ok 8 bs (by simpa [Spec.U3V.widthOf] using hl), R.map]
  | fileInfo => simp [parse, Spec.U3V.decode, parseNum_ok 4 bs (by simpa [Spec.U3V.widthOf] using hl), R.map]
  | version ma mi pa =>
    simp only [Spec.U3V.decWf, Bool.and_eq_true] at hwf
    obtain ⟨⟨h1, h2⟩, h3⟩ := hwf
    simp only [parse, Spec.U3V.decode, parseNum_ok 4 bs (by simpa [Spec.U3V.widthOf] using hl), R.map,
      Field.get_eq ma _ h1, Field.get_eq mi _ h2]
    cases pa with
    | none => rfl
    | some p => simp only [Field.get_eq p _ h3]
  | align e =>
    simp only [Spec.U3V.decWf] at hwf
    simp only [parse, Spec.U3V.decode, parseNum_ok 4 bs (by simpa [Spec.U3V.widthOf] using hl),
      Field.get_eq e _ hwf]
  | bit f =>
    simp only [Spec.U3V.decWf] at hwf
    simp [parse, Spec.U3V.decode, parseNum_ok 4 bs (by simpa [Spec.U3V.widthOf] using hl), R.map,
      Field.get_eq f _ hwf, Bool.beq_eq_decide_eq]
  | sha1 => simp [parse, Spec.U3V.decode]

theorem decode_ne_panic (dec : Dec) (bs : Bytes) : Spec.U3V.decode dec bs ≠ .panic := by
  cases dec <;> simp only [Spec.U3V.decode] <;> (try split) <;> simp

theorem parse_ne_panic (dec : Dec) (bs : Bytes) (hl : bs.length = Spec.U3V.widthOf dec)
    (hwf : Spec.U3V.decWf dec = true) : parse dec bs ≠ .panic := by
  rw [parse_eq_decode dec bs hl hwf]
  exact decode_ne_panic dec bs

end CamVerif.RegMap
