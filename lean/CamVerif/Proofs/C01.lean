/-
Helper lemmas for C01 (and reused by C02): byte images, memory frame lemmas,
effects of the register-layer primitives on the device.
-/
import CamVerif.Model.Reg
import CamVerif.Spec.Codec
import Std.Tactic.BVDecide
namespace CamVerif.Proofs.C01
open CamVerif CamVerif.Reg CamVerif.Spec.Codec

/-! ## `toLE` as a list of digits -/

theorem toLE_mod (n x : Nat) : toLE n (x % 256 ^ n) = toLE n x := by
  induction n generalizing x with
  | zero => rfl
  | succ k ih =>
    simp only [toLE]
    have h1 : x % 256 ^ (k + 1) % 256 = x % 256 := by
      rw [Nat.pow_succ, Nat.mul_comm]; exact Nat.mod_mul_right_mod x 256 (256 ^ k)
    have h2 : x % 256 ^ (k + 1) / 256 = (x / 256) % 256 ^ k := by
      rw [Nat.pow_succ, Nat.mul_comm]; exact Nat.mod_mul_right_div_self x 256 (256 ^ k)
    rw [h1, h2, ih]

theorem toLE_eq_map (n x : Nat) :
    toLE n x = (List.range n).map (fun i => UInt8.ofNat (x / 256 ^ i % 256)) := by
  induction n generalizing x with
  | zero => rfl
  | succ k ih =>
    rw [List.range_succ_eq_map, List.map_cons, List.map_map, toLE, ih]
    simp only [Nat.pow_zero, Nat.div_one, List.cons.injEq, true_and]
    apply List.map_congr_left
    intro i _
    simp only [Function.comp, Nat.pow_succ, Nat.div_div_eq_div_mul]
    rw [Nat.mul_comm]

/-- digit `i < 8` of a 64-bit two's-complement number, from its signed reading -/
theorem byteOf_toInt (v : BitVec 64) (i : Nat) (hi : i < 8) :
    byteOf v.toInt i = UInt8.ofNat (v.toNat / 256 ^ i % 256) := by
  unfold byteOf
  congr 1
  have hv := v.isLt
  rw [BitVec.toInt_eq_toNat_cond]
  have hcases : i = 0 ∨ i = 1 ∨ i = 2 ∨ i = 3 ∨ i = 4 ∨ i = 5 ∨ i = 6 ∨ i = 7 := by omega
  split <;> rcases hcases with rfl | rfl | rfl | rfl | rfl | rfl | rfl | rfl <;>
    simp only [Nat.reducePow, Int.reducePow, Nat.pow_zero, Int.pow_zero] <;> omega

theorem image_le_eq_toLE (n : Nat) (hn : n ≤ 8) (v : BitVec 64) :
    image n .le v.toInt = toLE n v.toNat := by
  rw [toLE_eq_map]
  simp only [image]
  apply List.map_congr_left
  intro i hi
  exact byteOf_toInt v i (by have := List.mem_range.mp hi; omega)

theorem image_eq_writeUnsigned (n : Nat) (hn : n ≤ 8) (e : Endianness) (v : BitVec 64) :
    image n e v.toInt = writeUnsigned e n v.toNat := by
  cases e
  · simp only [writeUnsigned]; exact image_le_eq_toLE n hn v
  · simp only [writeUnsigned, toBE, ← image_le_eq_toLE n hn v, image]

theorem readUnsigned_writeUnsigned (e : Endianness) (n x : Nat) :
    readUnsigned e (writeUnsigned e n x) = x % 256 ^ n := by
  cases e
  · exact fromLE_toLE n x
  · exact fromBE_toBE n x

theorem writeUnsigned_length (e : Endianness) (n x : Nat) : (writeUnsigned e n x).length = n := by
  cases e <;> simp [writeUnsigned]

theorem writeUnsigned_mod (e : Endianness) (n x : Nat) :
    writeUnsigned e n (x % 256 ^ n) = writeUnsigned e n x := by
  cases e <;> simp [writeUnsigned, toBE, toLE_mod]

/-! ## Horner reading = Prelude reading -/

theorem foldl_horner (bs : Bytes) (acc : Nat) :
    bs.foldl (fun acc b => acc * 256 + b.toNat) acc = acc * 256 ^ bs.length + fromLE bs.reverse := by
  induction bs generalizing acc with
  | nil => simp [fromLE]
  | cons b bs ih =>
    simp only [List.foldl_cons, ih, List.reverse_cons, fromLE_append, List.length_reverse,
      List.length_cons, fromLE, Nat.pow_succ]
    rw [Nat.add_mul, Nat.mul_assoc, Nat.mul_comm 256 (256 ^ bs.length), Nat.mul_zero, Nat.add_zero,
      Nat.mul_comm (256 ^ bs.length) b.toNat]
    omega

theorem horner_eq (bs : Bytes) : horner bs = fromLE bs.reverse := by
  simp [horner, foldl_horner]

theorem readU_eq (e : Endianness) (bs : Bytes) : readU e bs = readUnsigned e bs := by
  cases e <;> simp [readU, readUnsigned, horner_eq, fromBE]

theorem readUnsigned_lt (e : Endianness) (bs : Bytes) : readUnsigned e bs < 256 ^ bs.length := by
  cases e
  · exact fromLE_lt bs
  · have := fromLE_lt bs.reverse; simpa [readUnsigned, fromBE] using this

/-! ## `intOfBytes` against the reference readings -/

theorem toInt_intOfBytes (n : Nat) (hn : IntLen n) (bs : Bytes) (hl : bs.length = n)
    (e : Endianness) (s : Sign) : (intOfBytes n bs e s).toInt = reading e s bs := by
  have hlt := readUnsigned_lt e bs
  rw [hl] at hlt
  cases s
  · -- signed
    simp only [intOfBytes, reading, readS, readU_eq, hl]
    rw [BitVec.toInt_signExtend_of_le (by rcases hn with rfl | rfl | rfl | rfl <;> omega),
      BitVec.toInt_eq_toNat_cond, BitVec.toNat_ofNat]
    have hp : 256 ^ n = 2 ^ (8 * n) := by
      rw [show (256 : Nat) = 2 ^ 8 by rfl, ← Nat.pow_mul]
    rw [hp] at hlt
    rw [Nat.mod_eq_of_lt hlt]
    split <;> simp [Int.natCast_pow]
  · -- unsigned
    simp only [intOfBytes, reading, asI64, readU_eq]
    rw [BitVec.toInt_eq_toNat_cond, BitVec.toNat_setWidth, BitVec.toNat_ofNat]
    rcases hn with rfl | rfl | rfl | rfl <;>
      simp only [Nat.reducePow, Nat.reduceMul] at hlt ⊢ <;>
      (rw [Nat.mod_eq_of_lt (a := readUnsigned e bs) (by omega)]; try rw [Nat.mod_eq_of_lt (by omega)]) <;>
      (split <;> omega)

/-- sign/zero extension after truncation is the identity on the natural range -/
theorem intOfBytes_roundtrip (n : Nat) (hn : IntLen n) (e : Endianness) (s : Sign) (v : BitVec 64)
    (hr : InRange n s v.toInt) : intOfBytes n (writeUnsigned e n v.toNat) e s = v := by
  simp only [intOfBytes, readUnsigned_writeUnsigned]
  rcases hn with rfl | rfl | rfl | rfl <;> cases s <;>
    simp only [InRange, Nat.reduceMul, Nat.reduceSub, Nat.reducePow, Int.reducePow, Int.reduceNeg] at hr ⊢
  all_goals
    apply BitVec.eq_of_toInt_eq
    have hv := v.isLt
    first
      | rw [BitVec.toInt_signExtend_of_le (by omega)]
      | skip
    simp only [BitVec.toInt_eq_toNat_cond, BitVec.toNat_ofNat, BitVec.toNat_setWidth, Nat.reducePow] at hr ⊢
    repeat' split at hr
    all_goals (repeat' split) <;> omega

theorem intFromSlice_of_len (n : Nat) (hn : IntLen n) (bs : Bytes) (hl : bs.length = n)
    (e : Endianness) (s : Sign) : intFromSlice bs e s = .ok (intOfBytes n bs e s) := by
  rcases hn with rfl | rfl | rfl | rfl <;> simp only [intFromSlice, hl]

theorem image_length (n : Nat) (e : Endianness) (v : Int) : (image n e v).length = n := by
  cases e <;> simp [image]

/-- bits below `8n` of the decoded word are the bits of the unsigned reading -/
theorem intOfBytes_getLsbD (n : Nat) (bs : Bytes) (e : Endianness) (s : Sign) (i : Nat)
    (hi : i < 8 * n) (h64 : i < 64) :
    (intOfBytes n bs e s).getLsbD i = (readUnsigned e bs).testBit i := by
  cases s
  · show ((BitVec.ofNat (8 * n) (readUnsigned e bs)).signExtend 64).getLsbD i = _
    rw [BitVec.getLsbD_signExtend]
    simp only [hi, h64, decide_true, Bool.true_and, if_true, BitVec.getLsbD_ofNat]
  · show ((BitVec.ofNat (8 * n) (readUnsigned e bs)).setWidth 64).getLsbD i = _
    rw [BitVec.getLsbD_setWidth]
    simp only [hi, h64, decide_true, Bool.true_and, BitVec.getLsbD_ofNat]

/-! ## Device memory: frame lemmas -/

theorem readRange_length (m : Mem) (a : Int) (n : Nat) : (m.readRange a n).length = n := by
  simp [Mem.readRange]

/-- a write changes nothing outside `[a, a+|data|)` -/
theorem writeRange_outside (m : Mem) (a : Int) (data : Bytes) (x : Int)
    (h : x < a ∨ a + (data.length : Int) ≤ x) : (m.writeRange a data) x = m x := by
  unfold Mem.writeRange
  rw [dif_neg (by omega)]

/-- inside the written range the new byte is the corresponding data byte -/
theorem writeRange_inside (m : Mem) (a : Int) (data : Bytes) (i : Nat) (h : i < data.length) :
    (m.writeRange a data) (a + (i : Int)) = data[i] := by
  unfold Mem.writeRange
  rw [dif_pos (by omega)]
  congr 1
  omega

theorem readRange_writeRange (m : Mem) (a : Int) (data : Bytes) :
    (m.writeRange a data).readRange a data.length = data := by
  apply List.ext_getElem
  · simp [Mem.readRange]
  · intro i h1 h2
    simp only [Mem.readRange, List.getElem_map, List.getElem_range]
    exact writeRange_inside m a data i h2

/-- reading a range disjoint from the written one sees the old bytes -/
theorem readRange_writeRange_disjoint (m : Mem) (a : Int) (data : Bytes) (b : Int) (n : Nat)
    (h : b + (n : Int) ≤ a ∨ a + (data.length : Int) ≤ b) :
    (m.writeRange a data).readRange b n = m.readRange b n := by
  simp only [Mem.readRange]
  apply List.map_congr_left
  intro i hi
  have := List.mem_range.mp hi
  exact writeRange_outside m a data _ (by omega)

/-! ## Effects of the primitives on the device -/

/-- the device after one performed read of `[a, a+n)` -/
def afterRead (d : Dev) (a : Int) (n : Nat) : Dev :=
  { d with attempts := d.attempts + 1, log := d.log ++ [⟨.read, a, n, d.mem.readRange a n⟩] }

/-- the device after one performed write of `data` at `a` -/
def afterWrite (d : Dev) (a : Int) (data : Bytes) : Dev :=
  { d with attempts := d.attempts + 1, mem := d.mem.writeRange a data,
           log := d.log ++ [⟨.write, a, data.length, data⟩] }

/-- the device after a refused access attempt -/
def afterRefusal (d : Dev) : Dev := { d with attempts := d.attempts + 1 }

theorem writesIn_append_read (log : List Access) (a : Int) (n : Nat) (bs : Bytes) :
    writesIn (log ++ [⟨.read, a, n, bs⟩]) = writesIn log := by
  simp [writesIn, List.filter_append]

theorem writesIn_append_write (log : List Access) (a : Int) (n : Nat) (bs : Bytes) :
    writesIn (log ++ [⟨.write, a, n, bs⟩]) = writesIn log + 1 := by
  simp [writesIn, List.filter_append]

/-- Every possible outcome of `read_and_cache`. -/
theorem readAndCache_cases (port : Port) (address length : Int) (bufLen : Nat) (d : Dev) :
    (bufLen ≠ asUsize length ∧ readAndCache port address length bufLen d = (.err .invalidBuffer, d)) ∨
    (bufLen = asUsize length ∧ port.hasChunkId = true ∧
      readAndCache port address length bufLen d = (.err .chunkDataMissing, d)) ∨
    (bufLen = asUsize length ∧ port.hasChunkId = false ∧ d.refuse d.attempts = true ∧
      readAndCache port address length bufLen d = (.err .device, afterRefusal d)) ∨
    (bufLen = asUsize length ∧ port.hasChunkId = false ∧ d.refuse d.attempts = false ∧
      readAndCache port address length bufLen d =
        (.ok (d.mem.readRange address bufLen), afterRead d address bufLen)) := by
  unfold readAndCache
  by_cases h1 : bufLen ≠ asUsize length
  · left; simp [h1]
  · right
    have h1' : bufLen = asUsize length := by simpa using h1
    by_cases h2 : port.hasChunkId = true
    · left; simp [h1', Port.read, h2]
    · right
      have h2' : port.hasChunkId = false := by simpa using h2
      by_cases h3 : d.refuse d.attempts = true
      · left; simp [h1', Port.read, h2', Dev.readMem, h3, afterRefusal]
      · right
        have h3' : d.refuse d.attempts = false := by simpa using h3
        simp [h1', Port.read, h2', Dev.readMem, h3', afterRead]

/-- Every possible outcome of `write_and_cache`. -/
theorem writeAndCache_cases (port : Port) (address length : Int) (buf : Bytes) (d : Dev) :
    (buf.length ≠ asUsize length ∧ writeAndCache port address length buf d = (.err .invalidBuffer, d)) ∨
    (buf.length = asUsize length ∧ port.hasChunkId = true ∧
      writeAndCache port address length buf d = (.panic, d)) ∨
    (buf.length = asUsize length ∧ port.hasChunkId = false ∧ d.refuse d.attempts = true ∧
      writeAndCache port address length buf d = (.err .device, afterRefusal d)) ∨
    (buf.length = asUsize length ∧ port.hasChunkId = false ∧ d.refuse d.attempts = false ∧
      writeAndCache port address length buf d = (.ok (), afterWrite d address buf)) := by
  unfold writeAndCache
  by_cases h1 : buf.length ≠ asUsize length
  · left; simp [h1]
  · right
    have h1' : buf.length = asUsize length := by simpa using h1
    by_cases h2 : port.hasChunkId = true
    · left; simp [h1', Port.write, h2]
    · right
      have h2' : port.hasChunkId = false := by simpa using h2
      by_cases h3 : d.refuse d.attempts = true
      · left; simp [h1', Port.write, h2', Dev.writeMem, h3, afterRefusal]
      · right
        have h3' : d.refuse d.attempts = false := by simpa using h3
        simp [h1', Port.write, h2', Dev.writeMem, h3', afterWrite]

theorem allocLen_cases (length : Int) :
    (asUsize length < 2 ^ 63 ∧ allocLen length = .ok (asUsize length)) ∨
    (¬ asUsize length < 2 ^ 63 ∧ allocLen length = .panic) := by
  unfold allocLen
  by_cases h : asUsize length < 2 ^ 63
  · left; simp [h]
  · right; simp [h]

theorem asUsize_of_nonneg (length : Int) (h0 : 0 ≤ length) (h1 : length < 2 ^ 63) :
    asUsize length = length.toNat := by
  unfold asUsize
  rw [Int.emod_eq_of_lt h0 (by omega)]

/-- Every possible outcome of `with_cache_or_read` (cache off). -/
theorem withRead_cases {α : Type} (port : Port) (address length : Int) (d : Dev) (f : Bytes → R α) :
    (withRead port address length d f = (.panic, d) ∧ ¬ asUsize length < 2 ^ 63) ∨
    (withRead port address length d f = (.err .chunkDataMissing, d) ∧ port.hasChunkId = true) ∨
    (withRead port address length d f = (.err .device, afterRefusal d) ∧ d.refuse d.attempts = true) ∨
    (withRead port address length d f =
        (f (d.mem.readRange address (asUsize length)), afterRead d address (asUsize length)) ∧
      asUsize length < 2 ^ 63 ∧ port.hasChunkId = false ∧ d.refuse d.attempts = false) := by
  unfold withRead
  rcases allocLen_cases length with ⟨ha, he⟩ | ⟨ha, he⟩
  · rw [he]
    rcases readAndCache_cases port address length (asUsize length) d with
      ⟨h, _⟩ | ⟨_, h2, he2⟩ | ⟨_, _, h3, he2⟩ | ⟨_, h2, h3, he2⟩
    · exact absurd rfl h
    · right; left; simp [he2, h2]
    · right; right; left; simp [he2, h3]
    · right; right; right
      simp only [he2]
      refine ⟨?_, ha, h2, h3⟩
      cases f (d.mem.readRange address (asUsize length)) <;> first | rfl | trivial
  · left; rw [he]; exact ⟨rfl, ha⟩

end CamVerif.Proofs.C01
