/-
C03 helper lemmas: every successful value read of the interpreter is the value the
reference semantics (`GenApiSem.valSem`) assigns (graphs without formula nodes), and
conversely wherever the reference semantics assigns a value the interpreter returns it.
-/
import CamVerif.Proofs.GenApiLemmas
namespace CamVerif.C03
open CamVerif CamVerif.GenApi CamVerif.GenApiSem

variable {F E : Type} {cx : Ctx F E}

theorem opt_bind_some {α β : Type} {o : Option α} {f : α → Option β} {a : α} {b : β}
    (h1 : o = some a) (h2 : f a = some b) : o.bind f = some b := by rw [h1]; exact h2

/-! ### the specification's first-principles pieces are what the model's helpers compute -/

@[simp] theorem intValued_eq (n : NodeId) : intValued cx n = isIntKind cx n := by
  unfold intValued isIntKind
  cases cx.graph n with
  | none => rfl
  | some nd => cases nd <;> rfl

@[simp] theorem floatValued_eq (n : NodeId) : floatValued cx n = isFloatKind cx n := by
  unfold floatValued isFloatKind
  cases cx.graph n with
  | none => rfl
  | some nd => cases nd <;> rfl

@[simp] theorem enumValued_eq (n : NodeId) : enumValued cx n = isEnumKind cx n := by
  unfold enumValued isEnumKind
  cases cx.graph n with
  | none => rfl
  | some nd => cases nd <;> rfl

@[simp] theorem strValued_eq (n : NodeId) : strValued cx n = isStrKind cx n := by
  unfold strValued isStrKind
  cases cx.graph n with
  | none => rfl
  | some nd => cases nd <;> rfl

@[simp] theorem selectIndexed_eq (es : List (Int × ImmOrPNode SlotId)) (d : ImmOrPNode SlotId) (i : Int) :
    selectIndexed es d i = pIndexSelect es d i := by
  induction es with
  | nil => rfl
  | cons e es ih =>
    obtain ⟨j, v⟩ := e
    unfold pIndexSelect at ih ⊢
    simp only [selectIndexed, List.find?_cons]
    by_cases h : j = i
    · simp [h]
    · have : (j == i) = false := by simpa using h
      simp [h, this, ih]

theorem firstEntryWithValue_eq (es : List NodeId) (v : Int) :
    firstEntryWithValue cx es v = (resOpt (findEntryByValue cx es v)).join := by
  induction es with
  | nil => rfl
  | cons e es ih =>
    unfold firstEntryWithValue findEntryByValue entryValue
    cases hg : cx.graph e with
    | none => rfl
    | some nd =>
      cases nd <;> try rfl
      rename_i b ev num sym
      simp only
      by_cases h : ev = v
      · simp [h, resOpt]
      · have : (ev == v) = false := by simpa using h
        simp [h, this, ih]

theorem entryValueNamed_eq (es : List NodeId) (name : String) :
    entryValueNamed cx es name = (resOpt (entryValueBySymbolic cx es name)).join := by
  induction es with
  | nil => rfl
  | cons e es ih =>
    unfold entryValueNamed entryValueBySymbolic entrySymbolic entryValue
    cases hg : cx.graph e with
    | none => rfl
    | some nd =>
      cases nd <;> try rfl
      rename_i b ev num sym
      simp only
      by_cases h : sym = name
      · simp [h, resOpt]
      · have : (sym == name) = false := by simpa using h
        simp [h, this, ih]

@[simp] theorem usizeOf_eq (l : Int) : usizeOf l = asUsize l := rfl

theorem wrapI64_eq_bmod (x : Int) : wrapI64 x = Int.bmod x (2 ^ 64) := by
  unfold wrapI64 Int.bmod
  simp only
  split <;> omega

theorem inI64_iff (x : Int) : inI64 x = true ↔ InI64 x := by
  unfold inI64 InI64 I64_MIN I64_MAX
  simp only [Bool.and_eq_true, decide_eq_true_eq]
  omega

@[simp] theorem i64Result_add (p : Profile) (a b : Int) : i64Result p (a + b) = resOpt (addI64 p a b) := by
  unfold i64Result addI64
  by_cases h : inI64 (a + b) = true
  · simp [h, (inI64_iff _).mp h, resOpt]
  · have : ¬ InI64 (a + b) := fun h' => h ((inI64_iff _).mpr h')
    cases hp : p.overflowChecks <;> simp [h, this, hp, resOpt, wrapI64_eq_bmod]

@[simp] theorem i64Result_mul (p : Profile) (a b : Int) : i64Result p (a * b) = resOpt (mulI64 p a b) := by
  unfold i64Result mulI64
  by_cases h : inI64 (a * b) = true
  · simp [h, (inI64_iff _).mp h, resOpt]
  · have : ¬ InI64 (a * b) := fun h' => h ((inI64_iff _).mpr h')
    cases hp : p.overflowChecks <;> simp [h, this, hp, resOpt, wrapI64_eq_bmod]

theorem imageBytes_eq : ∀ (mem : Bytes) (k n : Nat), k + n ≤ mem.length →
    imageBytes mem k n = some ((mem.drop k).take n)
  | mem, k, 0, _ => by simp [imageBytes]
  | mem, k, n + 1, h => by
    have hk : k < mem.length := by omega
    simp only [imageBytes, List.getElem?_eq_getElem hk]
    rw [imageBytes_eq mem (k + 1) n (by omega)]
    simp only [Option.map_some, Option.some.injEq]
    rw [List.drop_eq_getElem_cons hk, List.take_succ_cons]

@[simp] theorem imageRead_eq (d : Dev) (a : Int) (len : Nat) : imageRead d.mem a len = d.read a len := by
  unfold imageRead Dev.read Dev.inRange
  by_cases h : 0 ≤ a ∧ a.toNat + len ≤ d.mem.length
  · simp [h, imageBytes_eq d.mem a.toNat len h.2]
  · simp only [h, if_false]
    have : (decide (0 ≤ a) && decide (a.toNat + len ≤ d.mem.length)) = false := by
      simpa [Bool.and_eq_true] using h
    simp [this]

theorem imagePatch_eq : ∀ (mem : Bytes) (k : Nat) (ds : Bytes), k + ds.length ≤ mem.length →
    imagePatch mem k ds = mem.take k ++ ds ++ mem.drop (k + ds.length)
  | [], k, ds, h => by
    have : ds = [] := by cases ds <;> simp at h ⊢
    simp [imagePatch, this]
  | m :: ms, 0, [], _ => by simp [imagePatch]
  | m :: ms, 0, d :: ds, h => by
    have := imagePatch_eq ms 0 ds (by simp at h ⊢; omega)
    simp [imagePatch, this]
  | m :: ms, k + 1, ds, h => by
    have := imagePatch_eq ms k ds (by simp at h ⊢; omega)
    simp only [imagePatch, this, List.take_succ_cons, List.cons_append, List.length_cons]
    have e : k + 1 + ds.length = (k + ds.length) + 1 := by omega
    rw [e, List.drop_succ_cons]

@[simp] theorem imageWrite_eq (d : Dev) (a : Int) (data : Bytes) : imageWrite d a data = d.write a data := by
  unfold imageWrite Dev.write Dev.writable Dev.inRange
  by_cases h0 : 0 ≤ a <;> by_cases h1 : a.toNat + data.length ≤ d.mem.length <;>
    by_cases h2 : a.toNat < d.roHi <;> by_cases h3 : d.roLo < a.toNat + data.length <;>
    first
    | simp [h0, h1, h2, h3, imagePatch_eq d.mem a.toNat data h1]
    | simp [h0, h1, h2, h3]

/-- The code adds index × 1 for a `<pIndex>` without offset: with the reading
`pIndexDefaultOffset = .one` the effective address elements are the declared ones.  This is
the lemma that fails when `pIndexDefaultOffset` is flipped to `.registerLength` (see the
DOUBT note in Spec/GenApiSem.lean): the refinement certifies whichever reading is transcribed. -/
@[simp] theorem effectiveAddrs_eq (rb : RegBase) : effectiveAddrs rb = rb.addrs := by
  unfold effectiveAddrs effectiveAddrsFor
  induction rb.addrs with
  | nil => rfl
  | cons k ks ih =>
    simp only [List.map_cons, ih, List.cons.injEq, and_true]
    cases k <;> simp [pIndexDefaultOffset]

/-- rewrite the specification's first-principles pieces into the model's helpers -/
macro "spec_norm" : tactic => `(tactic|
  simp only [intValued_eq, floatValued_eq, enumValued_eq, strValued_eq, selectIndexed_eq, i64Result_add,
    i64Result_mul, imageRead_eq, imageWrite_eq, firstEntryWithValue_eq, effectiveAddrs_eq] at *)

/-! ### exec ⇒ spec -/

/-- induction hypothesis: successful reads one level down are the reference values -/
structure ValIH (cx : Ctx F E) (d : Nat) : Prop where
  int : ∀ n (s : S F) v, R.val ((execRec cx d).intValue n) s = .ok v → (valSem cx d).int n s = some v
  float : ∀ n (s : S F) v, R.val ((execRec cx d).floatValue n) s = .ok v → (valSem cx d).float n s = some v
  str : ∀ n (s : S F) v, R.val ((execRec cx d).strValue n) s = .ok v → (valSem cx d).str n s = some v
  enum : ∀ n (s : S F) v, R.val ((execRec cx d).enumCurrentValue n) s = .ok v → (valSem cx d).enum n s = some v

theorem intIdValue_spec {id : SlotId} {s : S F} {v : Int}
    (h : R.val (intIdValue cx id) s = .ok v) : slotInt cx s id = some v := by
  unfold intIdValue slotIntegerValue R.val at h
  unfold slotInt
  cases hs : s.vs[id]? with
  | none => simp [hs] at h
  | some x => cases x <;> simp [hs] at h <;> simp [h]

theorem floatIdValue_spec {id : SlotId} {s : S F} {v : F}
    (h : R.val (floatIdValue cx id) s = .ok v) : slotFloat cx s id = some v := by
  unfold floatIdValue slotFloatValue R.val at h
  unfold slotFloat
  cases hs : s.vs[id]? with
  | none => simp [hs] at h
  | some x => cases x <;> simp [hs] at h <;> simp [h]

theorem slotStrValue_spec {id : SlotId} {s : S F} {v : Bytes}
    (h : R.val (slotStrValue (F := F) id) s = .ok v) : slotStr s id = some v := by
  unfold slotStrValue R.val at h
  unfold slotStr
  cases hs : s.vs[id]? with
  | none => simp [hs] at h
  | some x => cases x <;> simp [hs] at h <;> simp [h]

theorem nidIntValue_spec {d : Nat} (ih : ValIH cx d) {p : NodeId} {s : S F} {v : Int}
    (h : R.val (nidIntValue cx (execRec cx d) p) s = .ok v) : numInt cx (valSem cx d) p s = some v := by
  unfold nidIntValue at h
  unfold numInt
  try spec_norm
  by_cases h1 : isIntKind cx p = true
  · simp only [h1, if_true] at h ⊢; exact ih.int _ _ _ h
  · by_cases h2 : isFloatKind cx p = true
    · simp only [h1, h2, if_true, Bool.false_eq_true, if_false, R.val_bind] at h ⊢
      obtain ⟨f, hf, h⟩ := Res.bind_eq_ok h
      simp at h
      simp [ih.float _ _ _ hf, h]
    · by_cases h3 : isEnumKind cx p = true
      · simp only [h1, h2, h3, if_true, Bool.false_eq_true, if_false] at h ⊢; exact ih.enum _ _ _ h
      · simp [h1, h2, h3] at h

theorem nidFloatValue_spec {d : Nat} (ih : ValIH cx d) {p : NodeId} {s : S F} {v : F}
    (h : R.val (nidFloatValue cx (execRec cx d) p) s = .ok v) : numFloat cx (valSem cx d) p s = some v := by
  unfold nidFloatValue at h
  unfold numFloat
  try spec_norm
  by_cases h1 : isIntKind cx p = true
  · simp only [h1, if_true, R.val_bind] at h ⊢
    obtain ⟨i, hi, h⟩ := Res.bind_eq_ok h
    simp at h
    simp [ih.int _ _ _ hi, h]
  · by_cases h2 : isFloatKind cx p = true
    · simp only [h1, h2, if_true, Bool.false_eq_true, if_false] at h ⊢; exact ih.float _ _ _ h
    · by_cases h3 : isEnumKind cx p = true
      · simp only [h1, h2, h3, if_true, Bool.false_eq_true, if_false, R.val_bind] at h ⊢
        obtain ⟨i, hi, h⟩ := Res.bind_eq_ok h
        simp at h
        simp [ih.enum _ _ _ hi, h]
      · simp [h1, h2, h3] at h

theorem slotOrNodeIntValue_spec {d : Nat} (ih : ValIH cx d) {a : ImmOrPNode SlotId} {s : S F} {v : Int}
    (h : R.val (slotOrNodeIntValue cx (execRec cx d) a) s = .ok v) : sonInt cx (valSem cx d) a s = some v := by
  cases a with
  | imm id => exact intIdValue_spec h
  | pnode p => exact nidIntValue_spec ih h

theorem slotOrNodeFloatValue_spec {d : Nat} (ih : ValIH cx d) {a : ImmOrPNode SlotId} {s : S F} {v : F}
    (h : R.val (slotOrNodeFloatValue cx (execRec cx d) a) s = .ok v) : sonFloat cx (valSem cx d) a s = some v := by
  cases a with
  | imm id => exact floatIdValue_spec h
  | pnode p => exact nidFloatValue_spec ih h

theorem immIntValue_spec {d : Nat} (ih : ValIH cx d) {a : ImmOrPNode Int} {s : S F} {v : Int}
    (h : R.val (immIntValue cx (execRec cx d) a) s = .ok v) : immInt cx (valSem cx d) a s = some v := by
  cases a with
  | imm i => simp [immIntValue] at h; simp [immInt, h]
  | pnode p => exact nidIntValue_spec ih h

theorem pIndexIndex_spec {d : Nat} (ih : ValIH cx d) {sel : NodeId} {s : S F} {i : Int}
    (h : R.val (pIndexIndex cx (execRec cx d) sel) s = .ok i) :
    isIntKind cx sel = true ∧ (valSem cx d).int sel s = some i := by
  unfold pIndexIndex at h
  by_cases h1 : isIntKind cx sel = true
  · simp only [h1, if_true] at h; exact ⟨h1, ih.int _ _ _ h⟩
  · simp [h1] at h

theorem vkIntValue_spec {d : Nat} (ih : ValIH cx d) {vk : ValueKind} {s : S F} {v : Int}
    (h : R.val (vkIntValue cx (execRec cx d) vk) s = .ok v) : vkInt cx (valSem cx d) vk s = some v := by
  cases vk with
  | value id => exact intIdValue_spec h
  | pValue p cs => exact nidIntValue_spec ih h
  | pIndex sel es dflt =>
    simp only [vkIntValue, R.val_bind] at h
    try spec_norm
    obtain ⟨i, hi, h⟩ := Res.bind_eq_ok h
    obtain ⟨hk, hv⟩ := pIndexIndex_spec ih hi
    simp [vkInt, hk, hv, slotOrNodeIntValue_spec ih h]

theorem vkFloatValue_spec {d : Nat} (ih : ValIH cx d) {vk : ValueKind} {s : S F} {v : F}
    (h : R.val (vkFloatValue cx (execRec cx d) vk) s = .ok v) : vkFloat cx (valSem cx d) vk s = some v := by
  cases vk with
  | value id => exact floatIdValue_spec h
  | pValue p cs => exact nidFloatValue_spec ih h
  | pIndex sel es dflt =>
    simp only [vkFloatValue, R.val_bind] at h
    try spec_norm
    obtain ⟨i, hi, h⟩ := Res.bind_eq_ok h
    obtain ⟨hk, hv⟩ := pIndexIndex_spec ih hi
    simp [vkFloat, hk, hv, slotOrNodeFloatValue_spec ih h]

theorem resOpt_ok {α : Type} {x : Res Err α} {a : α} (h : x = .ok a) : resOpt x = some a := by
  rw [h]; rfl

theorem addrKindValue_spec {d : Nat} (ih : ValIH cx d) {k : AddressKind} {s : S F} {v : Int}
    (h : R.val (addrKindValue cx (execRec cx d) k) s = .ok v) : addrElem cx (valSem cx d) k s = some v := by
  cases k with
  | address a => exact immIntValue_spec ih h
  | intSwissKnife n => exact nidIntValue_spec ih h
  | pIndex sel off =>
    simp only [addrKindValue, R.val_bind] at h
    obtain ⟨b, hb, h⟩ := Res.bind_eq_ok h
    have hb' := nidIntValue_spec ih hb
    cases off with
    | none => simp at h; simp [addrElem, hb', h]
    | some o =>
      simp only [R.val_bind, R.val_ofRes] at h
      obtain ⟨o', ho, h⟩ := Res.bind_eq_ok h
      simp [addrElem, hb', immIntValue_spec ih ho, resOpt_ok h]

theorem sumAddrs_spec {d : Nat} (ih : ValIH cx d) {s : S F} :
    ∀ (ks : List AddressKind) (acc v : Int),
      R.val (sumAddrs cx (execRec cx d) ks acc) s = .ok v → addrSum cx (valSem cx d) ks acc s = some v
  | [], acc, v, h => by simp [sumAddrs] at h; simp [addrSum, h]
  | k :: ks, acc, v, h => by
    simp only [sumAddrs, R.val_bind, R.val_ofRes] at h
    obtain ⟨x, hx, h⟩ := Res.bind_eq_ok h
    obtain ⟨acc', ha, h⟩ := Res.bind_eq_ok h
    simp [addrSum, addrKindValue_spec ih hx, resOpt_ok ha, sumAddrs_spec ih ks acc' v h]

theorem allocLen_ok {l : Int} {n : Nat} (h : allocLen l = .ok n) : 0 ≤ l ∧ n = l.toNat := by
  unfold allocLen at h
  by_cases hl : 0 ≤ l
  · simp [hl] at h; exact ⟨hl, h.symm⟩
  · simp [hl] at h

theorem portRead_spec {port : NodeId} {a : Int} {len : Nat} {s : S F} {bs : Bytes}
    (h : R.val (portRead cx port a len) s = .ok bs) :
    (∃ b, cx.graph port = some (.port b false)) ∧ s.dev.read a len = some bs := by
  unfold portRead at h
  cases hg : cx.graph port with
  | none => simp [hg] at h
  | some nd =>
    cases nd <;> simp only [hg] at h <;> try (simp at h; done)
    rename_i b chunk
    cases chunk with
    | true => simp at h
    | false =>
      simp only [R.val] at h
      cases hr : s.dev.read a len with
      | none => simp [hr] at h
      | some x => simp [hr] at h; exact ⟨⟨b, rfl⟩, by rw [h]⟩

theorem withRead_spec {α : Type} {d : Nat} (ih : ValIH cx d) {rb : RegBase} {f : Bytes → Res Err α}
    {s : S F} {v : α} (h : R.val (withRead cx (execRec cx d) rb f) s = .ok v) :
    ∃ bs, regBytes cx (valSem cx d) rb s = some bs ∧ f bs = .ok v := by
  simp only [withRead, R.val_bind, R.val_ofRes] at h
  obtain ⟨l, hl, h1⟩ := Res.bind_eq_ok h
  obtain ⟨a, ha, h2⟩ := Res.bind_eq_ok h1
  obtain ⟨n, hn, h3⟩ := Res.bind_eq_ok h2
  obtain ⟨hl0, rfl⟩ := allocLen_ok hn
  obtain ⟨bs, hbs, h⟩ := Res.bind_eq_ok h3
  unfold readAndCache at hbs
  by_cases hm : lenMatches l.toNat l = true
  · simp only [hm, Bool.not_true, Bool.false_eq_true, if_false] at hbs
    obtain ⟨⟨b, hp⟩, hr⟩ := portRead_spec hbs
    refine ⟨bs, ?_, h⟩
    have ha' := sumAddrs_spec ih rb.addrs 0 a (by simpa [regAddress] using ha)
    have hl' := immIntValue_spec ih (by simpa [regLength] using hl)
    simp [regBytes, hl', ha', hl0, hp, hr]
  · simp [hm] at hbs

theorem intValueF_spec {d : Nat} (ih : ValIH cx d) {n : NodeId} (hn : NoFormulaAt cx n) {s : S F} {v : Int}
    (h : R.val (intValueF cx (execRec cx d) n) s = .ok v) : (valStep cx (valSem cx d)).int n s = some v := by
  unfold intValueF at h
  simp only [valStep]
  try spec_norm
  unfold NoFormulaAt at hn
  cases hg : cx.graph n with
  | none => simp [hg] at h
  | some nd =>
    cases nd <;> simp only [hg] at h hn ⊢ <;> try (simp at h; done)
    · exact vkIntValue_spec ih h
    · obtain ⟨bs, hb, hf⟩ := withRead_spec ih (by simpa [intRegValue] using h)
      simp [hb, resOpt_ok hf]
    · simp only [maskedValue, R.val_bind, R.val_ofRes] at h
      obtain ⟨x, hx, h1⟩ := Res.bind_eq_ok h
      obtain ⟨l, hl, h2⟩ := Res.bind_eq_ok h1
      obtain ⟨bs, hb, hf⟩ := withRead_spec ih hx
      have hl' := immIntValue_spec ih (by simpa [regLength] using hl)
      simp [hb, resOpt_ok hf, hl', resOpt_ok h2]

theorem floatValueF_spec {d : Nat} (ih : ValIH cx d) {n : NodeId} (hn : NoFormulaAt cx n) {s : S F} {v : F}
    (h : R.val (floatValueF cx (execRec cx d) n) s = .ok v) : (valStep cx (valSem cx d)).float n s = some v := by
  unfold floatValueF at h
  simp only [valStep]
  try spec_norm
  unfold NoFormulaAt at hn
  cases hg : cx.graph n with
  | none => simp [hg] at h
  | some nd =>
    cases nd <;> simp only [hg] at h hn ⊢ <;> try (simp at h; done)
    · exact vkFloatValue_spec ih h
    · obtain ⟨bs, hb, hf⟩ := withRead_spec ih (by simpa [floatRegValue] using h)
      simp [hb, resOpt_ok hf]

theorem strValueF_spec {d : Nat} (ih : ValIH cx d) {n : NodeId} {s : S F} {v : Bytes}
    (h : R.val (strValueF cx (execRec cx d) n) s = .ok v) : (valStep cx (valSem cx d)).str n s = some v := by
  unfold strValueF at h
  simp only [valStep]
  try spec_norm
  cases hg : cx.graph n with
  | none => simp [hg] at h
  | some nd =>
    cases nd <;> simp only [hg] at h ⊢ <;> try (simp at h; done)
    · rename_i b value
      cases value with
      | imm id => exact slotStrValue_spec h
      | pnode p =>
        simp only [slotOrNodeStrValue, nidStrValue] at h
        by_cases hk : isStrKind cx p = true
        · simp only [hk, if_true] at h ⊢; exact ih.str _ _ _ h
        · simp [hk] at h
    · obtain ⟨bs, hb, hf⟩ := withRead_spec ih (by simpa [strRegValue] using h)
      simp at hf
      simp [hb, hf]

theorem enumCurrentValueF_spec {d : Nat} (ih : ValIH cx d) {n : NodeId} {s : S F} {v : Int}
    (h : R.val (enumCurrentValueF cx (execRec cx d) n) s = .ok v) : (valStep cx (valSem cx d)).enum n s = some v := by
  unfold enumCurrentValueF at h
  simp only [valStep]
  try spec_norm
  cases hg : cx.graph n with
  | none => simp [hg] at h
  | some nd =>
    cases nd <;> simp only [hg] at h ⊢ <;> try (simp at h; done)
    exact slotOrNodeIntValue_spec ih h

/-- every successful read at depth `d` is the reference value (no formula nodes) -/
theorem valIH (cx : Ctx F E) (hnf : NoFormulaNodes cx) : ∀ d, ValIH cx d
  | 0 => by constructor <;> intro n s v h <;> simp [execRec, Rec.bottom] at h
  | d + 1 => by
    have ih := valIH cx hnf d
    constructor <;> intro n s v h <;> simp only [execRec, step] at h
    · exact intValueF_spec ih (hnf _) h
    · exact floatValueF_spec ih (hnf _) h
    · exact strValueF_spec ih h
    · exact enumCurrentValueF_spec ih h

/-! ### spec ⇒ exec -/

/-- induction hypothesis: reference values one level down are returned by the interpreter -/
structure SpecIH (cx : Ctx F E) (d : Nat) : Prop where
  int : ∀ n (s : S F) v, (valSem cx d).int n s = some v → R.val ((execRec cx d).intValue n) s = .ok v
  float : ∀ n (s : S F) v, (valSem cx d).float n s = some v → R.val ((execRec cx d).floatValue n) s = .ok v
  str : ∀ n (s : S F) v, (valSem cx d).str n s = some v → R.val ((execRec cx d).strValue n) s = .ok v
  enum : ∀ n (s : S F) v, (valSem cx d).enum n s = some v → R.val ((execRec cx d).enumCurrentValue n) s = .ok v

theorem slotInt_exec {id : SlotId} {s : S F} {v : Int}
    (h : slotInt cx s id = some v) : R.val (intIdValue cx id) s = .ok v := by
  unfold slotInt at h
  unfold intIdValue slotIntegerValue R.val
  cases hs : s.vs[id]? with
  | none => simp [hs] at h
  | some x => cases x <;> simp [hs] at h <;> simp [hs, h]

theorem slotFloat_exec {id : SlotId} {s : S F} {v : F}
    (h : slotFloat cx s id = some v) : R.val (floatIdValue cx id) s = .ok v := by
  unfold slotFloat at h
  unfold floatIdValue slotFloatValue R.val
  cases hs : s.vs[id]? with
  | none => simp [hs] at h
  | some x => cases x <;> simp [hs] at h <;> simp [hs, h]

theorem slotStr_exec {id : SlotId} {s : S F} {v : Bytes}
    (h : slotStr s id = some v) : R.val (slotStrValue (F := F) id) s = .ok v := by
  unfold slotStr at h
  unfold slotStrValue R.val
  cases hs : s.vs[id]? with
  | none => simp [hs] at h
  | some x => cases x <;> simp [hs] at h <;> simp [hs, h]

theorem numInt_exec {d : Nat} (ih : SpecIH cx d) {p : NodeId} {s : S F} {v : Int}
    (h : numInt cx (valSem cx d) p s = some v) : R.val (nidIntValue cx (execRec cx d) p) s = .ok v := by
  unfold numInt at h
  try spec_norm
  unfold nidIntValue
  by_cases h1 : isIntKind cx p = true
  · simp only [h1, if_true] at h ⊢; exact ih.int _ _ _ h
  · by_cases h2 : isFloatKind cx p = true
    · simp only [h1, h2, if_true, Bool.false_eq_true, if_false, Option.map_eq_some_iff] at h ⊢
      obtain ⟨f, hf, rfl⟩ := h
      simp [ih.float _ _ _ hf]
    · by_cases h3 : isEnumKind cx p = true
      · simp only [h1, h2, h3, if_true, Bool.false_eq_true, if_false] at h ⊢; exact ih.enum _ _ _ h
      · simp [h1, h2, h3] at h

theorem numFloat_exec {d : Nat} (ih : SpecIH cx d) {p : NodeId} {s : S F} {v : F}
    (h : numFloat cx (valSem cx d) p s = some v) : R.val (nidFloatValue cx (execRec cx d) p) s = .ok v := by
  unfold numFloat at h
  try spec_norm
  unfold nidFloatValue
  by_cases h1 : isIntKind cx p = true
  · simp only [h1, if_true, Option.map_eq_some_iff] at h ⊢
    obtain ⟨i, hi, rfl⟩ := h
    simp [ih.int _ _ _ hi]
  · by_cases h2 : isFloatKind cx p = true
    · simp only [h1, h2, if_true, Bool.false_eq_true, if_false] at h ⊢; exact ih.float _ _ _ h
    · by_cases h3 : isEnumKind cx p = true
      · simp only [h1, h2, h3, if_true, Bool.false_eq_true, if_false, Option.map_eq_some_iff] at h ⊢
        obtain ⟨i, hi, rfl⟩ := h
        simp [ih.enum _ _ _ hi]
      · simp [h1, h2, h3] at h

theorem sonInt_exec {d : Nat} (ih : SpecIH cx d) {a : ImmOrPNode SlotId} {s : S F} {v : Int}
    (h : sonInt cx (valSem cx d) a s = some v) : R.val (slotOrNodeIntValue cx (execRec cx d) a) s = .ok v := by
  cases a with
  | imm id => exact slotInt_exec h
  | pnode p => exact numInt_exec ih h

theorem sonFloat_exec {d : Nat} (ih : SpecIH cx d) {a : ImmOrPNode SlotId} {s : S F} {v : F}
    (h : sonFloat cx (valSem cx d) a s = some v) : R.val (slotOrNodeFloatValue cx (execRec cx d) a) s = .ok v := by
  cases a with
  | imm id => exact slotFloat_exec h
  | pnode p => exact numFloat_exec ih h

theorem immInt_exec {d : Nat} (ih : SpecIH cx d) {a : ImmOrPNode Int} {s : S F} {v : Int}
    (h : immInt cx (valSem cx d) a s = some v) : R.val (immIntValue cx (execRec cx d) a) s = .ok v := by
  cases a with
  | imm i => simp [immInt] at h; simp [immIntValue, h]
  | pnode p => exact numInt_exec ih h

theorem vkInt_exec {d : Nat} (ih : SpecIH cx d) {vk : ValueKind} {s : S F} {v : Int}
    (h : vkInt cx (valSem cx d) vk s = some v) : R.val (vkIntValue cx (execRec cx d) vk) s = .ok v := by
  cases vk with
  | value id => exact slotInt_exec h
  | pValue p cs => exact numInt_exec ih h
  | pIndex sel es dflt =>
    simp only [vkInt] at h
    try spec_norm
    by_cases hk : isIntKind cx sel = true
    · simp only [hk, if_true, Option.bind_eq_some_iff] at h
      obtain ⟨i, hi, h⟩ := h
      simp [vkIntValue, pIndexIndex, hk, ih.int _ _ _ hi, sonInt_exec ih h]
    · simp [hk] at h

theorem vkFloat_exec {d : Nat} (ih : SpecIH cx d) {vk : ValueKind} {s : S F} {v : F}
    (h : vkFloat cx (valSem cx d) vk s = some v) : R.val (vkFloatValue cx (execRec cx d) vk) s = .ok v := by
  cases vk with
  | value id => exact slotFloat_exec h
  | pValue p cs => exact numFloat_exec ih h
  | pIndex sel es dflt =>
    simp only [vkFloat] at h
    try spec_norm
    by_cases hk : isIntKind cx sel = true
    · simp only [hk, if_true, Option.bind_eq_some_iff] at h
      obtain ⟨i, hi, h⟩ := h
      simp [vkFloatValue, pIndexIndex, hk, ih.int _ _ _ hi, sonFloat_exec ih h]
    · simp [hk] at h

theorem resOpt_some {α : Type} {x : Res Err α} {a : α} (h : resOpt x = some a) : x = .ok a := by
  cases x <;> simp [resOpt] at h; rw [h]

theorem addrElem_exec {d : Nat} (ih : SpecIH cx d) {k : AddressKind} {s : S F} {v : Int}
    (h : addrElem cx (valSem cx d) k s = some v) : R.val (addrKindValue cx (execRec cx d) k) s = .ok v := by
  cases k with
  | address a => exact immInt_exec ih h
  | intSwissKnife n => exact numInt_exec ih h
  | pIndex sel off =>
    simp only [addrElem, Option.bind_eq_some_iff] at h
    try spec_norm
    obtain ⟨b, hb, h⟩ := h
    cases off with
    | none => simp at h; simp [addrKindValue, numInt_exec ih hb, h]
    | some o =>
      simp only [Option.bind_eq_some_iff] at h
      obtain ⟨o', ho, h⟩ := h
      simp [addrKindValue, numInt_exec ih hb, immInt_exec ih ho, resOpt_some h]

theorem addrSum_exec {d : Nat} (ih : SpecIH cx d) {s : S F} :
    ∀ (ks : List AddressKind) (acc v : Int),
      addrSum cx (valSem cx d) ks acc s = some v → R.val (sumAddrs cx (execRec cx d) ks acc) s = .ok v
  | [], acc, v, h => by simp [addrSum] at h; simp [sumAddrs, h]
  | k :: ks, acc, v, h => by
    simp only [addrSum, Option.bind_eq_some_iff] at h
    try spec_norm
    obtain ⟨x, hx, acc', ha, h⟩ := h
    simp [sumAddrs, addrElem_exec ih hx, resOpt_some ha, addrSum_exec ih ks acc' v h]

theorem regBytes_exec {α : Type} {d : Nat} (ih : SpecIH cx d) {rb : RegBase} {f : Bytes → Res Err α}
    {s : S F} {bs : Bytes} (h : regBytes cx (valSem cx d) rb s = some bs) :
    R.val (withRead cx (execRec cx d) rb f) s = f bs := by
  simp only [regBytes, Option.bind_eq_some_iff] at h
  try spec_norm
  obtain ⟨l, hl, a, ha, h⟩ := h
  by_cases hl0 : 0 ≤ l
  · simp only [hl0, if_true] at h
    cases hg : cx.graph rb.port with
    | none => simp [hg] at h
    | some nd =>
      cases nd <;> simp only [hg] at h <;> try (simp at h; done)
      rename_i b chunk
      cases chunk with
      | true => simp at h
      | false =>
        simp only at h
        have hpr : R.val (portRead cx rb.port a l.toNat) s = .ok bs := by
          simp [portRead, hg, R.val, h]
        have hnl : ¬ l < 0 := by omega
        simp [withRead, regLength, regAddress, immInt_exec ih hl, addrSum_exec ih _ _ _ ha,
          allocLen, hl0, readAndCache, lenMatches, hnl, hpr]
  · simp [hl0] at h

theorem intValueF_exec {d : Nat} (ih : SpecIH cx d) {n : NodeId} (hn : NoFormulaAt cx n) {s : S F} {v : Int}
    (h : (valStep cx (valSem cx d)).int n s = some v) : R.val (intValueF cx (execRec cx d) n) s = .ok v := by
  simp only [valStep] at h
  try spec_norm
  unfold intValueF
  unfold NoFormulaAt at hn
  cases hg : cx.graph n with
  | none => simp [hg] at h
  | some nd =>
    cases nd <;> simp only [hg] at h hn ⊢ <;> try (simp at h; done)
    · exact vkInt_exec ih h
    · simp only [Option.bind_eq_some_iff] at h
      obtain ⟨bs, hb, hf⟩ := h
      simp [intRegValue, regBytes_exec ih hb, resOpt_some hf]
    · simp only [Option.bind_eq_some_iff] at h
      obtain ⟨bs, hb, x, hx, l, hl, hm⟩ := h
      rw [usizeOf_eq] at hm
      simp [maskedValue, regBytes_exec ih hb, resOpt_some hx, regLength, immInt_exec ih hl, resOpt_some hm]

theorem floatValueF_exec {d : Nat} (ih : SpecIH cx d) {n : NodeId} (hn : NoFormulaAt cx n) {s : S F} {v : F}
    (h : (valStep cx (valSem cx d)).float n s = some v) : R.val (floatValueF cx (execRec cx d) n) s = .ok v := by
  simp only [valStep] at h
  try spec_norm
  unfold floatValueF
  unfold NoFormulaAt at hn
  cases hg : cx.graph n with
  | none => simp [hg] at h
  | some nd =>
    cases nd <;> simp only [hg] at h hn ⊢ <;> try (simp at h; done)
    · exact vkFloat_exec ih h
    · simp only [Option.bind_eq_some_iff] at h
      obtain ⟨bs, hb, hf⟩ := h
      simp [floatRegValue, regBytes_exec ih hb, resOpt_some hf]

theorem strValueF_exec {d : Nat} (ih : SpecIH cx d) {n : NodeId} {s : S F} {v : Bytes}
    (h : (valStep cx (valSem cx d)).str n s = some v) : R.val (strValueF cx (execRec cx d) n) s = .ok v := by
  simp only [valStep] at h
  try spec_norm
  unfold strValueF
  cases hg : cx.graph n with
  | none => simp [hg] at h
  | some nd =>
    cases nd <;> simp only [hg] at h ⊢ <;> try (simp at h; done)
    · rename_i b value
      cases value with
      | imm id => exact slotStr_exec h
      | pnode p =>
        simp only at h
        by_cases hk : isStrKind cx p = true
        · simp only [hk, if_true] at h; simp [slotOrNodeStrValue, nidStrValue, hk, ih.str _ _ _ h]
        · simp [hk] at h
    · simp only [Option.map_eq_some_iff] at h
      obtain ⟨bs, hb, rfl⟩ := h
      simp [strRegValue, regBytes_exec ih hb]

theorem enumCurrentValueF_exec {d : Nat} (ih : SpecIH cx d) {n : NodeId} {s : S F} {v : Int}
    (h : (valStep cx (valSem cx d)).enum n s = some v) : R.val (enumCurrentValueF cx (execRec cx d) n) s = .ok v := by
  simp only [valStep] at h
  try spec_norm
  unfold enumCurrentValueF
  cases hg : cx.graph n with
  | none => simp [hg] at h
  | some nd =>
    cases nd <;> simp only [hg] at h ⊢ <;> try (simp at h; done)
    exact sonInt_exec ih h

/-- wherever the reference semantics assigns a value, the interpreter returns it (graphs
without formula nodes; the general case is `fullIH` in Proofs/C03SpecFormula.lean) -/
theorem specIH (cx : Ctx F E) (hnf : NoFormulaNodes cx) : ∀ d, SpecIH cx d
  | 0 => by constructor <;> intro n s v h <;> simp [valSem, ValSem.none] at h
  | d + 1 => by
    have ih := specIH cx hnf d
    constructor <;> intro n s v h <;> simp only [valSem] at h <;> simp only [execRec, step]
    · exact intValueF_exec ih (hnf _) h
    · exact floatValueF_exec ih (hnf _) h
    · exact strValueF_exec ih h
    · exact enumCurrentValueF_exec ih h

/-! ### the remaining read interfaces (Boolean, current entry, raw register) -/

theorem boolValueF_iffI {d : Nat} (ihB : ValIH cx d) (ihA : SpecIH cx d) (n : NodeId) (s : S F) (b : Bool) :
    R.val (boolValueF cx (execRec cx d) n) s = .ok b ↔ specBool cx d n s = some b := by
  unfold boolValueF specBool specBoolP
  cases hg : cx.graph n with
  | none => simp
  | some nd =>
    cases nd <;> simp only <;> try (simp; done)
    rename_i base value onV offV
    simp only [boolValueOf, R.val_bind]
    constructor
    · intro h
      obtain ⟨v, hv, h⟩ := Res.bind_eq_ok h
      rw [slotOrNodeIntValue_spec ihB hv]
      simp only [Option.bind_some]
      by_cases h1 : (v == onV) = true
      · simp [h1] at h ⊢; exact h
      · by_cases h2 : (v == offV) = true
        · simp [h1, h2] at h ⊢; exact h
        · simp [h1, h2] at h
    · intro h
      simp only [Option.bind_eq_some_iff] at h
      obtain ⟨v, hv, h⟩ := h
      rw [sonInt_exec ihA hv]
      simp only [Res.bind_ok]
      by_cases h1 : (v == onV) = true
      · simp [h1] at h ⊢; exact h
      · by_cases h2 : (v == offV) = true
        · simp [h1, h2] at h ⊢; exact h
        · simp [h1, h2] at h

theorem boolValueF_iff (cx : Ctx F E) (hnf : NoFormulaNodes cx) (d : Nat) (n : NodeId) (s : S F) (b : Bool) :
    R.val (boolValueF cx (execRec cx d) n) s = .ok b ↔ specBool cx d n s = some b :=
  boolValueF_iffI (valIH cx hnf d) (specIH cx hnf d) n s b

theorem enumCurrentEntryF_iffI {d : Nat} (ihB : ValIH cx d) (ihA : SpecIH cx d) (n : NodeId) (s : S F) (e : NodeId) :
    R.val (enumCurrentEntryF cx (execRec cx d) n) s = .ok e ↔ specCurrentEntry cx d n s = some e := by
  unfold enumCurrentEntryF specCurrentEntry specCurrentEntryP
  simp only [firstEntryWithValue_eq]
  cases hg : cx.graph n with
  | none => simp
  | some nd =>
    cases nd <;> simp only <;> try (simp; done)
    rename_i base entries value
    simp only [enumCurrentEntryOf, R.val_bind, R.val_ofRes]
    constructor
    · intro h
      obtain ⟨v, hv, h⟩ := Res.bind_eq_ok h
      obtain ⟨o, ho, h⟩ := Res.bind_eq_ok h
      rw [slotOrNodeIntValue_spec ihB hv]
      cases o with
      | none => simp at h
      | some e' => simp at h; simp [ho, resOpt, h]
    · intro h
      simp only [Option.bind_eq_some_iff] at h
      obtain ⟨v, hv, h⟩ := h
      rw [sonInt_exec ihA hv]
      simp only [Res.bind_ok]
      cases hf : findEntryByValue cx entries v with
      | ok o => cases o <;> simp [hf, resOpt] at h ⊢; exact h
      | err x => simp [hf, resOpt] at h
      | panic => simp [hf, resOpt] at h

theorem enumCurrentEntryF_iff (cx : Ctx F E) (hnf : NoFormulaNodes cx) (d : Nat) (n : NodeId) (s : S F) (e : NodeId) :
    R.val (enumCurrentEntryF cx (execRec cx d) n) s = .ok e ↔ specCurrentEntry cx d n s = some e :=
  enumCurrentEntryF_iffI (valIH cx hnf d) (specIH cx hnf d) n s e

theorem regAddressF_iffI {d : Nat} (ihB : ValIH cx d) (ihA : SpecIH cx d) (n : NodeId) (s : S F) (a : Int) :
    R.val (regAddressF cx (execRec cx d) n) s = .ok a ↔ specRegAddress cx d n s = some a := by
  unfold regAddressF specRegAddress
  cases hg : cx.graph n with
  | none => simp
  | some nd =>
    simp only
    cases hr : nd.regBase? with
    | none => simp
    | some rb =>
      simp only [regAddress, effectiveAddrs_eq]
      exact ⟨sumAddrs_spec ihB _ _ _, addrSum_exec ihA _ _ _⟩

theorem regLengthF_iffI {d : Nat} (ihB : ValIH cx d) (ihA : SpecIH cx d) (n : NodeId) (s : S F) (l : Int) :
    R.val (regLengthF cx (execRec cx d) n) s = .ok l ↔ specRegLength cx d n s = some l := by
  unfold regLengthF specRegLength
  cases hg : cx.graph n with
  | none => simp
  | some nd =>
    simp only
    cases hr : nd.regBase? with
    | none => simp
    | some rb =>
      simp only [regLength]
      exact ⟨immIntValue_spec ihB, immInt_exec ihA⟩

theorem regAddressF_iff (cx : Ctx F E) (hnf : NoFormulaNodes cx) (d : Nat) (n : NodeId) (s : S F) (a : Int) :
    R.val (regAddressF cx (execRec cx d) n) s = .ok a ↔ specRegAddress cx d n s = some a :=
  regAddressF_iffI (valIH cx hnf d) (specIH cx hnf d) n s a
theorem regLengthF_iff (cx : Ctx F E) (hnf : NoFormulaNodes cx) (d : Nat) (n : NodeId) (s : S F) (l : Int) :
    R.val (regLengthF cx (execRec cx d) n) s = .ok l ↔ specRegLength cx d n s = some l :=
  regLengthF_iffI (valIH cx hnf d) (specIH cx hnf d) n s l

end CamVerif.C03
