/-
Helper lemmas for C08 (acknowledge / event packet decoding): cursor reads as offset
reads, the status-code split, closed formulas for the header parsers, and the
inductions over the two SCD walks.
-/
import CamVerif.Model.Ack
import CamVerif.Spec.GenCPAck
import CamVerif.Proofs.C09
namespace CamVerif.C08
open CamVerif CamVerif.Ack
open CamVerif.Spec.GenCP (slice uintAt)
open CamVerif.Spec.GenCPAck

/-! ### `Res` plumbing -/

/-- `r` is a returned error (neither a value nor a panic). -/
def IsErr {α : Type} (r : R α) : Prop := ∃ e, r = .err e

theorem IsErr.ne_ok {α : Type} {r : R α} (h : IsErr r) (a : α) : r ≠ .ok a := by
  obtain ⟨e, rfl⟩ := h; intro h; cases h

theorem IsErr.ne_panic {α : Type} {r : R α} (h : IsErr r) : r ≠ .panic := by
  obtain ⟨e, rfl⟩ := h; intro h; cases h

theorem isErr_err {α : Type} (e : Err) : IsErr (.err e : R α) := ⟨e, rfl⟩

theorem isErr_bind {α β : Type} {x : R α} {f : α → R β} (hx : x ≠ .panic)
    (hf : ∀ a, x = .ok a → IsErr (f a)) : IsErr (x >>= f) := by
  cases x with
  | ok a => exact hf a rfl
  | err e => exact ⟨e, rfl⟩
  | panic => exact absurd rfl hx

theorem bind_eq_ok {α β : Type} {x : R α} {f : α → R β} {b : β} (h : (x >>= f) = .ok b) :
    ∃ a, x = .ok a ∧ f a = .ok b := by
  cases x with
  | ok a => exact ⟨a, rfl, h⟩
  | err e => cases h
  | panic => cases h

theorem bind_ne_panic {α β : Type} {x : R α} {f : α → R β} (hx : x ≠ .panic)
    (hf : ∀ a, x = .ok a → f a ≠ .panic) : (x >>= f) ≠ .panic := by
  cases x with
  | ok a => exact hf a rfl
  | err e => intro h; cases h
  | panic => exact absurd rfl hx

/-! ### cursor reads are offset reads -/

theorem uintAt_lt (bs : Bytes) (off n : Nat) : uintAt bs off n < 256 ^ n := by
  have h1 := fromLE_lt (slice bs off n)
  have h2 : (slice bs off n).length ≤ n := by simp [slice, List.length_take]; omega
  exact Nat.lt_of_lt_of_le h1 (Nat.pow_le_pow_right (by decide) h2)

theorem uintAt2_lt (bs : Bytes) (off : Nat) : uintAt bs off 2 < 65536 := uintAt_lt bs off 2

theorem readLE_eq (c : Cursor) (n : Nat) (hn : 0 < n) :
    c.readLE n = if c.pos + n ≤ c.buf.length then .ok (uintAt c.buf c.pos n, ⟨c.buf, c.pos + n⟩)
      else .err .bufferIo := by
  simp only [Cursor.readLE, List.length_drop]
  by_cases h : c.pos + n ≤ c.buf.length
  · rw [if_pos h, if_neg (by omega)]; rfl
  · rw [if_neg h, if_pos (by omega)]

theorem readLE_ok (buf : Bytes) (pos n : Nat) (hn : 0 < n) (h : pos + n ≤ buf.length) :
    (Cursor.mk buf pos).readLE n = .ok (uintAt buf pos n, ⟨buf, pos + n⟩) := by
  rw [readLE_eq _ _ hn, if_pos h]

theorem readLE_err (buf : Bytes) (pos n : Nat) (hn : 0 < n) (h : ¬ pos + n ≤ buf.length) :
    (Cursor.mk buf pos).readLE n = .err .bufferIo := by
  rw [readLE_eq _ _ hn, if_neg h]

/-- offsets into `bs.drop k` are offsets `k + ·` into `bs` -/
theorem slice_drop (bs : Bytes) (k off n : Nat) : slice (bs.drop k) off n = slice bs (k + off) n := by
  simp only [slice, List.drop_drop]

theorem uintAt_drop (bs : Bytes) (k off n : Nat) :
    uintAt (bs.drop k) off n = uintAt bs (k + off) n := by
  simp only [uintAt, slice_drop]

/-! ### status codes -/

/-- model status kind of a reference status class (bijection by name) -/
def ofClass : StatusClass → StatusKind
  | .genCp .SUCCESS => .genCp .success
  | .genCp .NOT_IMPLEMENTED => .genCp .notImplemented
  | .genCp .INVALID_PARAMETER => .genCp .invalidParameter
  | .genCp .INVALID_ADDRESS => .genCp .invalidAddress
  | .genCp .WRITE_PROTECT => .genCp .writeProtect
  | .genCp .BAD_ALIGNMENT => .genCp .badAlignment
  | .genCp .ACCESS_DENIED => .genCp .accessDenied
  | .genCp .BUSY => .genCp .busy
  | .genCp .MSG_TIMEOUT => .genCp .timeout
  | .genCp .INVALID_HEADER => .genCp .invalidHeader
  | .genCp .WRONG_CONFIG => .genCp .wrongConfig
  | .genCp .GENERIC_ERROR => .genCp .genericError
  | .usb3v .RESEND_NOT_SUPPORTED => .usbSpecific .resendNotSupported
  | .usb3v .DSI_ENDPOINT_HALTED => .usbSpecific .streamEndpointHalted
  | .usb3v .SI_PAYLOAD_SIZE_NOT_ALIGNED => .usbSpecific .payloadSizeNotAligned
  | .usb3v .SI_REGISTERS_INCONSISTENT => .usbSpecific .invalidSiState
  | .usb3v .EI_ENDPOINT_HALTED => .usbSpecific .eventEndpointHalted
  | .deviceSpecific => .deviceSpecific

/-- what the reference says `Status::parse` must return for a code -/
def specStatus (code : Nat) : R Status :=
  match statusClass code with
  | some k => .ok ⟨code, ofClass k⟩
  | none => .err .invalidPacket

theorem ns_eq (code : Nat) : (code >>> 13) &&& NAMESPACE_MASK = code / 8192 % 4 := by
  have : NAMESPACE_MASK = 2 ^ 2 - 1 := rfl
  rw [this, Nat.and_two_pow_sub_one_eq_mod, Nat.shiftRight_eq_div_pow]

theorem gencp_assert (p : Profile) (code : Nat) (h : code < 65536) (hns : code / 8192 % 4 = 0) :
    debugAssert p (decide (trailingZeros16 (code >>> 13) ≥ 2)) = (.ok () : R Unit) := by
  have hq : code >>> 13 = 0 ∨ code >>> 13 = 4 := by
    rw [Nat.shiftRight_eq_div_pow]; omega
  rcases hq with hq | hq <;> rw [hq] <;> cases p with | mk a b => cases b <;> rfl

theorem usb_assert (p : Profile) (code : Nat) (hns : code / 8192 % 4 = 1) :
    debugAssert p (decide ((code >>> 13) &&& 0b11 = 0b01)) = (.ok () : R Unit) := by
  have := ns_eq code
  simp only [NAMESPACE_MASK] at this
  rw [this, hns]
  cases p with | mk a b => cases b <;> rfl

theorem ofCode_eq_spec (p : Profile) (code : Nat) (h : code < 65536) :
    Status.ofCode p code = specStatus code := by
  simp only [Status.ofCode, ns_eq, specStatus, statusClass, nspace]
  have hlt : code / 8192 % 4 < 4 := Nat.mod_lt _ (by decide)
  have hcases : code / 8192 % 4 = 0 ∨ code / 8192 % 4 = 1 ∨ code / 8192 % 4 = 2 ∨
      code / 8192 % 4 = 3 := by omega
  rcases hcases with hns | hns | hns | hns
  · simp only [Nat.reducePow, hns, if_true, Status.parseGencp, gencp_assert p code h hns,
      Res.bind_ok, genCpTable, lookupCode, severity, number]
    by_cases c0 : code = 0
    · subst c0; rfl
    by_cases c1 : code = 32769
    · subst c1; rfl
    by_cases c2 : code = 32770
    · subst c2; rfl
    by_cases c3 : code = 32771
    · subst c3; rfl
    by_cases c4 : code = 32772
    · subst c4; rfl
    by_cases c5 : code = 32773
    · subst c5; rfl
    by_cases c6 : code = 32774
    · subst c6; rfl
    by_cases c7 : code = 32775
    · subst c7; rfl
    by_cases c8 : code = 32779
    · subst c8; rfl
    by_cases c9 : code = 32782
    · subst c9; rfl
    by_cases c10 : code = 32783
    · subst c10; rfl
    by_cases c11 : code = 36863
    · subst c11; rfl
    have n0 : ¬(code / 32768 % 2 = 0 ∧ code % 8192 = 0) := by omega
    have n1 : ¬(code / 32768 % 2 = 1 ∧ code % 8192 = 1) := by omega
    have n2 : ¬(code / 32768 % 2 = 1 ∧ code % 8192 = 2) := by omega
    have n3 : ¬(code / 32768 % 2 = 1 ∧ code % 8192 = 3) := by omega
    have n4 : ¬(code / 32768 % 2 = 1 ∧ code % 8192 = 4) := by omega
    have n5 : ¬(code / 32768 % 2 = 1 ∧ code % 8192 = 5) := by omega
    have n6 : ¬(code / 32768 % 2 = 1 ∧ code % 8192 = 6) := by omega
    have n7 : ¬(code / 32768 % 2 = 1 ∧ code % 8192 = 7) := by omega
    have n8 : ¬(code / 32768 % 2 = 1 ∧ code % 8192 = 11) := by omega
    have n9 : ¬(code / 32768 % 2 = 1 ∧ code % 8192 = 14) := by omega
    have n10 : ¬(code / 32768 % 2 = 1 ∧ code % 8192 = 15) := by omega
    have n11 : ¬(code / 32768 % 2 = 1 ∧ code % 8192 = 4095) := by omega
    simp only [if_neg c0, if_neg c1, if_neg c2, if_neg c3, if_neg c4, if_neg c5, if_neg c6, if_neg c7, if_neg c8, if_neg c9, if_neg c10, if_neg c11, if_neg n0, if_neg n1, if_neg n2, if_neg n3, if_neg n4, if_neg n5, if_neg n6, if_neg n7, if_neg n8, if_neg n9, if_neg n10, if_neg n11]
    rfl
  · simp only [Nat.reducePow, hns, Nat.one_ne_zero, if_false, if_true, Status.parseUsb,
      usb_assert p code hns, Res.bind_ok, u3vTable, lookupCode, severity, number]
    by_cases c0 : code = 40961
    · subst c0; rfl
    by_cases c1 : code = 40962
    · subst c1; rfl
    by_cases c2 : code = 40963
    · subst c2; rfl
    by_cases c3 : code = 40964
    · subst c3; rfl
    by_cases c4 : code = 40965
    · subst c4; rfl
    have n0 : ¬(code / 32768 % 2 = 1 ∧ code % 8192 = 1) := by omega
    have n1 : ¬(code / 32768 % 2 = 1 ∧ code % 8192 = 2) := by omega
    have n2 : ¬(code / 32768 % 2 = 1 ∧ code % 8192 = 3) := by omega
    have n3 : ¬(code / 32768 % 2 = 1 ∧ code % 8192 = 4) := by omega
    have n4 : ¬(code / 32768 % 2 = 1 ∧ code % 8192 = 5) := by omega
    simp only [if_neg c0, if_neg c1, if_neg c2, if_neg c3, if_neg c4, if_neg n0, if_neg n1, if_neg n2, if_neg n3, if_neg n4]
    rfl
  · simp [hns, ofClass]
  · simp [hns]

theorem ofCode_ne_panic (p : Profile) (code : Nat) (h : code < 65536) :
    Status.ofCode p code ≠ .panic := by
  rw [ofCode_eq_spec p code h, specStatus]
  split <;> intro h <;> cases h

theorem ofId_ne_panic (id : Nat) : ScdKind.ofId id ≠ .panic := by
  unfold ScdKind.ofId
  repeat' split
  all_goals intro h; cases h

theorem ofCode_cases (p : Profile) (code : Nat) (h : code < 65536) :
    (∃ s, Status.ofCode p code = .ok s) ∨ Status.ofCode p code = .err .invalidPacket := by
  rw [ofCode_eq_spec p code h, specStatus]
  split
  · exact Or.inl ⟨_, rfl⟩
  · exact Or.inr rfl

theorem ofId_cases (id : Nat) :
    (∃ k, ScdKind.ofId id = .ok k) ∨ ScdKind.ofId id = .err .invalidPacket := by
  unfold ScdKind.ofId
  repeat' split
  all_goals first | exact Or.inl ⟨_, rfl⟩ | exact Or.inr rfl

/-! ### acknowledge header: closed formula -/

/-- What `AckPacket::parse` computes once 12 bytes are present. -/
def ackFormula (p : Profile) (bs : Bytes) : R AckPacket :=
  if uintAt bs 0 4 ≠ ACK_PREFIX_MAGIC then .err .invalidPacket else
  Status.ofCode p (uintAt bs 4 2) >>= fun st =>
  ScdKind.ofId (uintAt bs 6 2) >>= fun k =>
  .ok ⟨⟨st, k, uintAt bs 10 2, uintAt bs 8 2⟩, 12, bs.drop 12⟩

theorem ack_parse_eq (p : Profile) (bs : Bytes) (h : 12 ≤ bs.length) :
    AckPacket.parse p bs = ackFormula p bs := by
  have hn : ¬ bs.length < 12 := by omega
  rcases ofCode_cases p (uintAt bs 4 2) (uintAt2_lt _ _) with ⟨s, hs⟩ | hs <;>
  rcases ofId_cases (uintAt bs 6 2) with ⟨k, hk⟩ | hk <;>
  by_cases hm : uintAt bs 0 4 = ACK_PREFIX_MAGIC <;>
  simp (disch := omega) only [AckPacket.parse, AckCcd.parse, Status.parse, ScdKind.parse,
    ackFormula, readLE_ok, Res.bind_ok, Res.bind_err, Res.pure_eq, Nat.zero_add, Nat.reduceAdd,
    hs, hk, hm, hn, ne_eq, not_true_eq_false, not_false_eq_true, if_true, if_false]

theorem ack_parse_short (p : Profile) (bs : Bytes) (h : bs.length < 12) :
    IsErr (AckPacket.parse p bs) := by
  rcases ofCode_cases p (uintAt bs 4 2) (uintAt2_lt _ _) with ⟨s, hs⟩ | hs <;>
  rcases ofId_cases (uintAt bs 6 2) with ⟨k, hk⟩ | hk <;>
  by_cases hm : uintAt bs 0 4 = ACK_PREFIX_MAGIC <;>
  by_cases h4 : 4 ≤ bs.length <;> by_cases h6 : 6 ≤ bs.length <;>
  by_cases h8 : 8 ≤ bs.length <;> by_cases h10 : 10 ≤ bs.length <;>
  first
  | (exfalso; omega)
  | (simp (disch := omega) only [AckPacket.parse, AckCcd.parse, Status.parse, ScdKind.parse,
      readLE_ok, readLE_err, Res.bind_ok, Res.bind_err, Res.pure_eq, Nat.zero_add, Nat.reduceAdd,
      hs, hk, hm, ne_eq, not_true_eq_false, not_false_eq_true, if_true, if_false]
     exact isErr_err _)

/-! ### `WriteMem` / `Pending` views -/

theorem parseReservedU16_eq (buf : Bytes) :
    parseReservedU16 buf =
      if buf.length < 2 then .err .bufferIo
      else if uintAt buf 0 2 ≠ 0 then .err .invalidPacket
      else if buf.length < 4 then .err .bufferIo
      else .ok (uintAt buf 2 2) := by
  by_cases h2 : 2 ≤ buf.length <;> by_cases h4 : 4 ≤ buf.length <;>
  by_cases hr : uintAt buf 0 2 = 0 <;>
  first
  | (exfalso; omega)
  | (have a2 : ¬ buf.length < 2 := by omega
     have a4 : ¬ buf.length < 4 := by omega
     simp (disch := omega) only [parseReservedU16, readLE_ok, Res.bind_ok, Res.pure_eq,
       Nat.zero_add, Nat.reduceAdd, hr, a2, a4, ne_eq, not_true_eq_false, not_false_eq_true,
       if_true, if_false])
  | (have a2 : ¬ buf.length < 2 := by omega
     have a4 : buf.length < 4 := by omega
     simp (disch := omega) only [parseReservedU16, readLE_ok, readLE_err, Res.bind_ok,
       Res.bind_err, Res.pure_eq, Nat.zero_add, Nat.reduceAdd, hr, a2, a4, ne_eq,
       not_true_eq_false, not_false_eq_true, if_true, if_false])
  | (have a2 : buf.length < 2 := by omega
     simp (disch := omega) only [parseReservedU16, readLE_err, Res.bind_err, a2, if_true])

/-! ### the `WriteMemStacked` walk -/

/-- all `k` entries starting at `pos` are present and have reserved = 0 -/
def StackedOk (buf : Bytes) (pos k : Nat) : Prop :=
  pos + 4 * k ≤ buf.length ∧ ∀ i, i < k → uintAt buf (pos + 4 * i) 2 = 0

def stackedLengthsAt (buf : Bytes) (pos k : Nat) : List Nat :=
  (List.range k).map fun i => uintAt buf (pos + 4 * i + 2) 2

theorem stackedLengthsAt_succ (buf : Bytes) (pos k : Nat) :
    stackedLengthsAt buf pos (k + 1) = uintAt buf (pos + 2) 2 :: stackedLengthsAt buf (pos + 4) k := by
  simp only [stackedLengthsAt, List.range_succ_eq_map, List.map_cons, List.map_map,
    Nat.mul_zero, Nat.add_zero]
  congr 1
  apply List.map_congr_left
  intro i _
  simp only [Function.comp]
  congr 1; omega

theorem stackedOk_succ (buf : Bytes) (pos k : Nat) :
    StackedOk buf pos (k + 1) ↔
      (pos + 4 ≤ buf.length ∧ uintAt buf pos 2 = 0 ∧ StackedOk buf (pos + 4) k) := by
  simp only [StackedOk]
  constructor
  · rintro ⟨h1, h2⟩
    refine ⟨by omega, by simpa using h2 0 (by omega), by omega, ?_⟩
    intro i hi
    have := h2 (i + 1) (by omega)
    rw [← this]; congr 1; omega
  · rintro ⟨h1, h2, h3, h4⟩
    refine ⟨by omega, ?_⟩
    intro i hi
    cases i with
    | zero => simpa using h2
    | succ i =>
      have := h4 i (by omega)
      rw [← this]; congr 1; omega

/-- Complete characterisation of the loop on `k` entries. -/
theorem stackedLoop_spec (p : Profile) (buf : Bytes) (k : Nat) :
    ∀ (fuel pos : Nat), k < fuel → pos ≤ buf.length →
      (StackedOk buf pos k →
        writeMemStackedLoop p fuel ⟨buf, pos⟩ (4 * k) = .ok (stackedLengthsAt buf pos k)) ∧
      (¬ StackedOk buf pos k → IsErr (writeMemStackedLoop p fuel ⟨buf, pos⟩ (4 * k))) := by
  induction k with
  | zero =>
    intro fuel pos hf hp
    cases fuel with
    | zero => omega
    | succ fuel =>
      refine ⟨fun _ => by simp [writeMemStackedLoop, stackedLengthsAt], fun h => ?_⟩
      exact absurd ⟨by omega, fun i hi => by omega⟩ h
  | succ k ih =>
    intro fuel pos hf hp
    cases fuel with
    | zero => omega
    | succ fuel =>
      have hpos : 4 * (k + 1) > 0 := by omega
      have hsub : (subW p 64 (4 * (k + 1)) 4 : R Nat) = .ok (4 * k) := by
        simp only [subW]; rw [if_pos (by omega)]; congr 1
      rw [stackedOk_succ]
      by_cases h2 : pos + 2 ≤ buf.length
      · by_cases hr : uintAt buf pos 2 = 0
        · by_cases h4 : pos + 4 ≤ buf.length
          · have ih' := ih fuel (pos + 4) (by omega) h4
            have e : pos + 2 + 2 = pos + 4 := by omega
            constructor
            · rintro ⟨_, _, hok⟩
              simp (disch := omega) only [writeMemStackedLoop, hpos, if_true, readLE_ok, Res.bind_ok,
                hr, ne_eq, not_true_eq_false, if_false, hsub, e, ih'.1 hok, Res.pure_eq,
                stackedLengthsAt_succ]
            · intro hno
              have hno' : ¬ StackedOk buf (pos + 4) k := fun hk => hno ⟨h4, hr, hk⟩
              obtain ⟨er, her⟩ := ih'.2 hno'
              simp (disch := omega) only [writeMemStackedLoop, hpos, if_true, readLE_ok, Res.bind_ok,
                hr, ne_eq, not_true_eq_false, if_false, hsub, e, her, Res.bind_err]
              exact isErr_err _
          · refine ⟨fun h => absurd h.1 h4, fun _ => ?_⟩
            have h4' : ¬ pos + 2 + 2 ≤ buf.length := by omega
            simp (disch := omega) only [writeMemStackedLoop, hpos, if_true, readLE_ok, readLE_err,
              Res.bind_ok, hr, ne_eq, not_true_eq_false, if_false, Res.bind_err]
            exact isErr_err _
        · refine ⟨fun h => absurd h.2.1 hr, fun _ => ?_⟩
          simp (disch := omega) only [writeMemStackedLoop, hpos, if_true, readLE_ok, Res.bind_ok,
            hr, ne_eq, not_false_eq_true]
          exact isErr_err _
      · refine ⟨fun h => by omega, fun _ => ?_⟩
        simp (disch := omega) only [writeMemStackedLoop, hpos, if_true, readLE_err, Res.bind_err]
        exact isErr_err _

end CamVerif.C08
