/-
Helper lemmas for C08 (acknowledge / event packet decoding): cursor reads as offset
reads, the status-code split, closed formulas for the header parsers, and the
inductions over the two SCD walks.
-/
import CamVerif.Model.Ack
import CamVerif.Spec.GenCPAck
import CamVerif.Proofs.C09
namespace CamVerif.C08
open CamVerif CamVerif.Ack
open CamVerif.Spec.GenCP (slice uintAt)
open CamVerif.Spec.GenCPAck

/-! ### `Res` plumbing -/

/-- `r` is a returned error (neither a value nor a panic). -/
def IsErr {α : Type} (r : R α) : Prop := ∃ e, r = .err e

theorem IsErr.ne_ok {α : Type} {r : R α} (h : IsErr r) (a : α) : r ≠ .ok a := by
  obtain ⟨e, rfl⟩ := h; intro h; cases h

theorem IsErr.ne_panic {α : Type} {r : R α} (h : IsErr r) : r ≠ .panic := by
  obtain ⟨e, rfl⟩ := h; intro h; cases h

theorem isErr_err {α : Type} (e : Err) : IsErr (.err e : R α) := ⟨e, rfl⟩

theorem isErr_bind {α β : Type} {x : R α} {f : α → R β} (hx : x ≠ .panic)
    (hf : ∀ a, x = .ok a → IsErr (f a)) : IsErr (x >>= f) := by
  cases x with
  | ok a => exact hf a rfl
  | err e => exact ⟨e, rfl⟩
  | panic => exact absurd rfl hx

theorem bind_eq_ok {α β : Type} {x : R α} {f : α → R β} {b : β} (h : (x >>= f) = .ok b) :
    ∃ a, x = .ok a ∧ f a = .ok b := by
  cases x with
  | ok a => exact ⟨a, rfl, h⟩
  | err e => cases h
  | panic => cases h

theorem bind_ne_panic {α β : Type} {x : R α} {f : α → R β} (hx : x ≠ .panic)
    (hf : ∀ a, x = .ok a → f a ≠ .panic) : (x >>= f) ≠ .panic := by
  cases x with
  | ok a => exact hf a rfl
  | err e => intro h; cases h
  | panic => exact absurd rfl hx

/-! ### cursor reads are offset reads -/

theorem uintAt_lt (bs : Bytes) (off n : Nat) : uintAt bs off n < 256 ^ n := by
  have h1 := fromLE_lt (slice bs off n)
  have h2 : (slice bs off n).length ≤ n := by simp [slice, List.length_take]; omega
  exact Nat.lt_of_lt_of_le h1 (Nat.pow_le_pow_right (by decide) h2)

theorem uintAt2_lt (bs : Bytes) (off : Nat) : uintAt bs off 2 < 65536 := uintAt_lt bs off 2

theorem readLE_eq (c : Cursor) (n : Nat) (hn : 0 < n) :
    c.readLE n = if c.pos + n ≤ c.buf.length then .ok (uintAt c.buf c.pos n, ⟨c.buf, c.pos + n⟩)
      else .err .bufferIo := by
  simp only [Cursor.readLE, List.length_drop]
  by_cases h : c.pos + n ≤ c.buf.length
  · rw [if_pos h, if_neg (by omega)]; rfl
  · rw [if_neg h, if_pos (by omega)]

theorem readLE_ok (buf : Bytes) (pos n : Nat) (hn : 0 < n) (h : pos + n ≤ buf.length) :
    (Cursor.mk buf pos).readLE n = .ok (uintAt buf pos n, ⟨buf, pos + n⟩) := by
  rw [readLE_eq _ _ hn, if_pos h]

theorem readLE_err (buf : Bytes) (pos n : Nat) (hn : 0 < n) (h : ¬ pos + n ≤ buf.length) :
    (Cursor.mk buf pos).readLE n = .err .bufferIo := by
  rw [readLE_eq _ _ hn, if_neg h]

/-- offsets into `bs.drop k` are offsets `k + ·` into `bs` -/
theorem slice_drop (bs : Bytes) (k off n : Nat) : slice (bs.drop k) off n = slice bs (k + off) n := by
  simp only [slice, List.drop_drop]

theorem uintAt_drop (bs : Bytes) (k off n : Nat) :
    uintAt (bs.drop k) off n = uintAt bs (k + off) n := by
  simp only [uintAt, slice_drop]

/-! ### status codes -/

/-- model status kind of a reference status class (bijection by name) -/
def ofClass : StatusClass → StatusKind
  | .genCp .SUCCESS => .genCp .success
  | .genCp .NOT_IMPLEMENTED => .genCp .notImplemented
  | .genCp .INVALID_PARAMETER => .genCp .invalidParameter
  | .genCp .INVALID_ADDRESS => .genCp .invalidAddress
  | .genCp .WRITE_PROTECT => .genCp .writeProtect
  | .genCp .BAD_ALIGNMENT => .genCp .badAlignment
  | .genCp .ACCESS_DENIED => .genCp .accessDenied
  | .genCp .BUSY => .genCp .busy
  | .genCp .MSG_TIMEOUT => .genCp .timeout
  | .genCp .INVALID_HEADER => .genCp .invalidHeader
  | .genCp .WRONG_CONFIG => .genCp .wrongConfig
  | .genCp .GENERIC_ERROR => .genCp .genericError
  | .usb3v .RESEND_NOT_SUPPORTED => .usbSpecific .resendNotSupported
  | .usb3v .DSI_ENDPOINT_HALTED => .usbSpecific .streamEndpointHalted
  | .usb3v .SI_PAYLOAD_SIZE_NOT_ALIGNED => .usbSpecific .payloadSizeNotAligned
  | .usb3v .SI_REGISTERS_INCONSISTENT => .usbSpecific .invalidSiState
  | .usb3v .EI_ENDPOINT_HALTED => .usbSpecific .eventEndpointHalted
  | .deviceSpecific => .deviceSpecific

/-- what the reference says `Status::parse` must return for a code -/
def specStatus (code : Nat) : R Status :=
  match statusClass code with
  | some k => .ok ⟨code, ofClass k⟩
  | none => .err .invalidPacket

theorem ns_eq (code : Nat) : (code >>> 13) &&& NAMESPACE_MASK = code / 8192 % 4 := by
  have : NAMESPACE_MASK = 2 ^ 2 - 1 := rfl
  rw [this, Nat.and_two_pow_sub_one_eq_mod, Nat.shiftRight_eq_div_pow]

theorem gencp_assert (p : Profile) (code : Nat) (h : code < 65536) (hns : code / 8192 % 4 = 0) :
    debugAssert p (decide (trailingZeros16 (code >>> 13) ≥ 2)) = (.ok () : R Unit) := by
  have hq : code >>> 13 = 0 ∨ code >>> 13 = 4 := by
    rw [Nat.shiftRight_eq_div_pow]; omega
  rcases hq with hq | hq <;> rw [hq] <;> cases p with | mk a b => cases b <;> rfl

theorem usb_assert (p : Profile) (code : Nat) (hns : code / 8192 % 4 = 1) :
    debugAssert p (decide ((code >>> 13) &&& 0b11 = 0b01)) = (.ok () : R Unit) := by
  have := ns_eq code
  simp only [NAMESPACE_MASK] at this
  rw [this, hns]
  cases p with | mk a b => cases b <;> rfl

theorem ofCode_eq_spec (p : Profile) (code : Nat) (h : code < 65536) :
    Status.ofCode p code = specStatus code := by
  simp only [Status.ofCode, ns_eq, specStatus, statusClass, nspace]
  have hlt : code / 8192 % 4 < 4 := Nat.mod_lt _ (by decide)
  have hcases : code / 8192 % 4 = 0 ∨ code / 8192 % 4 = 1 ∨ code / 8192 % 4 = 2 ∨
      code / 8192 % 4 = 3 := by omega
  rcases hcases with hns | hns | hns | hns
  · simp only [Nat.reducePow, hns, if_true, Status.parseGencp, gencp_assert p code h hns,
      Res.bind_ok, genCpTable, lookupCode, severity, number]
    by_cases c0 : code = 0
    · subst c0; rfl
    by_cases c1 : code = 32769
    · subst c1; rfl
    by_cases c2 : code = 32770
    · subst c2; rfl
    by_cases c3 : code = 32771
    · subst c3; rfl
    by_cases c4 : code = 32772
    · subst c4; rfl
    by_cases c5 : code = 32773
    · subst c5; rfl
    by_cases c6 : code = 32774
    · subst c6; rfl
    by_cases c7 : code = 32775
    · subst c7; rfl
    by_cases c8 : code = 32779
    · subst c8; rfl
    by_cases c9 : code = 32782
    · subst c9; rfl
    by_cases c10 : code = 32783
    · subst c10; rfl
    by_cases c11 : code = 36863
    · subst c11; rfl
    have n0 : ¬(code / 32768 % 2 = 0 ∧ code % 8192 = 0) := by omega
    have n1 : ¬(code / 32768 % 2 = 1 ∧ code % 8192 = 1) := by omega
    have n2 : ¬(code / 32768 % 2 = 1 ∧ code % 8192 = 2) := by omega
    have n3 : ¬(code / 32768 % 2 = 1 ∧ code % 8192 = 3) := by omega
    have n4 : ¬(code / 32768 % 2 = 1 ∧ code % 8192 = 4) := by omega
    have n5 : ¬(code / 32768 % 2 = 1 ∧ code % 8192 = 5) := by omega
    have n6 : ¬(code / 32768 % 2 = 1 ∧ code % 8192 = 6) := by omega
    have n7 : ¬(code / 32768 % 2 = 1 ∧ code % 8192 = 7) := by omega
    have n8 : ¬(code / 32768 % 2 = 1 ∧ code % 8192 = 11) := by omega
    have n9 : ¬(code / 32768 % 2 = 1 ∧ code % 8192 = 14) := by omega
    have n10 : ¬(code / 32768 % 2 = 1 ∧ code % 8192 = 15) := by omega
    have n11 : ¬(code / 32768 % 2 = 1 ∧ code % 8192 = 4095) := by omega
    simp only [if_neg c0, if_neg c1, if_neg c2, if_neg c3, if_neg c4, if_neg c5, if_neg c6, if_neg c7, if_neg c8, if_neg c9, if_neg c10, if_neg c11, if_neg n0, if_neg n1, if_neg n2, if_neg n3, if_neg n4, if_neg n5, if_neg n6, if_neg n7, if_neg n8, if_neg n9, if_neg n10, if_neg n11]
    rfl
  · simp only [Nat.reducePow, hns, Nat.one_ne_zero, if_false, if_true, Status.parseUsb,
      usb_assert p code hns, Res.bind_ok, u3vTable, lookupCode, severity, number]
    by_cases c0 : code = 40961
    · subst c0; rfl
    by_cases c1 : code = 40962
    · subst c1; rfl
    by_cases c2 : code = 40963
    · subst c2; rfl
    by_cases c3 : code = 40964
    · subst c3; rfl
    by_cases c4 : code = 40965
    · subst c4; rfl
    have n0 : ¬(code / 32768 % 2 = 1 ∧ code % 8192 = 1) := by omega
    have n1 : ¬(code / 32768 % 2 = 1 ∧ code % 8192 = 2) := by omega
    have n2 : ¬(code / 32768 % 2 = 1 ∧ code % 8192 = 3) := by omega
    have n3 : ¬(code / 32768 % 2 = 1 ∧ code % 8192 = 4) := by omega
    have n4 : ¬(code / 32768 % 2 = 1 ∧ code % 8192 = 5) := by omega
    simp only [if_neg c0, if_neg c1, if_neg c2, if_neg c3, if_neg c4, if_neg n0, if_neg n1, if_neg n2, if_neg n3, if_neg n4]
    rfl
  · simp [hns, ofClass]
  · simp [hns]

theorem ofCode_ne_panic (p : Profile) (code : Nat) (h : code < 65536) :
    Status.ofCode p code ≠ .panic := by
  rw [ofCode_eq_spec p code h, specStatus]
  split <;> intro h <;> cases h

theorem ofId_ne_panic (id : Nat) : ScdKind.ofId id ≠ .panic := by
  unfold ScdKind.ofId
  repeat' split
  all_goals intro h; cases h

theorem ofCode_cases (p : Profile) (code : Nat) (h : code < 65536) :
    (∃ s, Status.ofCode p code = .ok s) ∨ Status.ofCode p code = .err .invalidPacket := by
  rw [ofCode_eq_spec p code h, specStatus]
  split
  · exact Or.inl ⟨_, rfl⟩
  · exact Or.inr rfl

theorem ofId_cases (id : Nat) :
    (∃ k, ScdKind.ofId id = .ok k) ∨ ScdKind.ofId id = .err .invalidPacket := by
  unfold ScdKind.ofId
  repeat' split
  all_goals first | exact Or.inl ⟨_, rfl⟩ | exact Or.inr rfl

/-- model SCD kind of a reference acknowledge kind -/
def ofKind : AckKind → ScdKind
  | .readMem => .readMem
  | .writeMem => .writeMem
  | .pending => .pending
  | .readMemStacked => .readMemStacked
  | .writeMemStacked => .writeMemStacked

/-- what the reference says `ScdKind::parse` must return for a command id -/
def specKind (id : Nat) : R ScdKind :=
  match ackKindOfId id with
  | some k => .ok (ofKind k)
  | none => .err .invalidPacket

theorem ofId_eq_spec (id : Nat) : ScdKind.ofId id = specKind id := by
  simp only [ScdKind.ofId, specKind, ackKindOfId, ackKindTable, lookupId]
  by_cases c0 : id = 0x0801
  · subst c0; rfl
  by_cases c1 : id = 0x0803
  · subst c1; rfl
  by_cases c2 : id = 0x0805
  · subst c2; rfl
  by_cases c3 : id = 0x0807
  · subst c3; rfl
  by_cases c4 : id = 0x0809
  · subst c4; rfl
  simp only [if_neg c0, if_neg c1, if_neg c2, if_neg c3, if_neg c4]

/-! ### acknowledge header: closed formula -/

/-- What `AckPacket::parse` computes once 12 bytes are present. -/
def ackFormula (p : Profile) (bs : Bytes) : R AckPacket :=
  if uintAt bs 0 4 ≠ ACK_PREFIX_MAGIC then .err .invalidPacket else
  Status.ofCode p (uintAt bs 4 2) >>= fun st =>
  ScdKind.ofId (uintAt bs 6 2) >>= fun k =>
  .ok ⟨⟨st, k, uintAt bs 10 2, uintAt bs 8 2⟩, 12, bs.drop 12⟩

theorem ack_parse_eq (p : Profile) (bs : Bytes) (h : 12 ≤ bs.length) :
    AckPacket.parse p bs = ackFormula p bs := by
  have hn : ¬ bs.length < 12 := by omega
  rcases ofCode_cases p (uintAt bs 4 2) (uintAt2_lt _ _) with ⟨s, hs⟩ | hs <;>
  rcases ofId_cases (uintAt bs 6 2) with ⟨k, hk⟩ | hk <;>
  by_cases hm : uintAt bs 0 4 = ACK_PREFIX_MAGIC <;>
  simp (disch := omega) only [AckPacket.parse, AckCcd.parse, Status.parse, ScdKind.parse,
    ackFormula, readLE_ok, Res.bind_ok, Res.bind_err, Res.pure_eq, Nat.zero_add, Nat.reduceAdd,
    hs, hk, hm, hn, ne_eq, not_true_eq_false, not_false_eq_true, if_true, if_false]

theorem ack_parse_short (p : Profile) (bs : Bytes) (h : bs.length < 12) :
    IsErr (AckPacket.parse p bs) := by
  rcases ofCode_cases p (uintAt bs 4 2) (uintAt2_lt _ _) with ⟨s, hs⟩ | hs <;>
  rcases ofId_cases (uintAt bs 6 2) with ⟨k, hk⟩ | hk <;>
  by_cases hm : uintAt bs 0 4 = ACK_PREFIX_MAGIC <;>
  by_cases h4 : 4 ≤ bs.length <;> by_cases h6 : 6 ≤ bs.length <;>
  by_cases h8 : 8 ≤ bs.length <;> by_cases h10 : 10 ≤ bs.length <;>
  first
  | (exfalso; omega)
  | (simp (disch := omega) only [AckPacket.parse, AckCcd.parse, Status.parse, ScdKind.parse,
      readLE_ok, readLE_err, Res.bind_ok, Res.bind_err, Res.pure_eq, Nat.zero_add, Nat.reduceAdd,
      hs, hk, hm, ne_eq, not_true_eq_false, not_false_eq_true, if_true, if_false]
     exact isErr_err _)

/-! ### `WriteMem` / `Pending` views -/

theorem parseReservedU16_eq (buf : Bytes) (ccd : AckCcd) :
    parseReservedU16 buf ccd =
      if ccd.scdLen < 4 then .err .invalidPacket
      else if buf.length < 2 then .err .bufferIo
      else if uintAt buf 0 2 ≠ 0 then .err .invalidPacket
      else if buf.length < 4 then .err .bufferIo
      else .ok (uintAt buf 2 2) := by
  by_cases hl : ccd.scdLen < 4
  · simp only [parseReservedU16, hl, if_true]
  by_cases h2 : 2 ≤ buf.length <;> by_cases h4 : 4 ≤ buf.length <;>
  by_cases hr : uintAt buf 0 2 = 0 <;>
  first
  | (exfalso; omega)
  | (have a2 : ¬ buf.length < 2 := by omega
     have a4 : ¬ buf.length < 4 := by omega
     simp (disch := omega) only [parseReservedU16, hl, readLE_ok, Res.bind_ok, Res.pure_eq,
       Nat.zero_add, hr, a2, a4, ne_eq, not_true_eq_false, not_false_eq_true,
       if_true, if_false])
  | (have a2 : ¬ buf.length < 2 := by omega
     have a4 : buf.length < 4 := by omega
     simp (disch := omega) only [parseReservedU16, hl, readLE_ok, readLE_err, Res.bind_ok,
       Res.bind_err, Res.pure_eq, Nat.zero_add, Nat.reduceAdd, hr, a2, a4, ne_eq,
       not_true_eq_false, not_false_eq_true, if_true, if_false])
  | (have a2 : buf.length < 2 := by omega
     simp (disch := omega) only [parseReservedU16, hl, readLE_err, Res.bind_err, a2, if_true,
       if_false])

/-! ### the `WriteMemStacked` walk -/

/-- all `k` entries starting at `pos` are present and have reserved = 0 -/
def StackedOk (buf : Bytes) (pos k : Nat) : Prop :=
  pos + 4 * k ≤ buf.length ∧ ∀ i, i < k → uintAt buf (pos + 4 * i) 2 = 0

def stackedLengthsAt (buf : Bytes) (pos k : Nat) : List Nat :=
  (List.range k).map fun i => uintAt buf (pos + 4 * i + 2) 2

theorem stackedLengthsAt_succ (buf : Bytes) (pos k : Nat) :
    stackedLengthsAt buf pos (k + 1) = uintAt buf (pos + 2) 2 :: stackedLengthsAt buf (pos + 4) k := by
  simp only [stackedLengthsAt, List.range_succ_eq_map, List.map_cons, List.map_map,
    Nat.mul_zero, Nat.add_zero]
  congr 1
  apply List.map_congr_left
  intro i _
  simp only [Function.comp]
  congr 1; omega

theorem stackedOk_succ (buf : Bytes) (pos k : Nat) :
    StackedOk buf pos (k + 1) ↔
      (pos + 4 ≤ buf.length ∧ uintAt buf pos 2 = 0 ∧ StackedOk buf (pos + 4) k) := by
  simp only [StackedOk]
  constructor
  · rintro ⟨h1, h2⟩
    refine ⟨by omega, by simpa using h2 0 (by omega), by omega, ?_⟩
    intro i hi
    have := h2 (i + 1) (by omega)
    rw [← this]; congr 1; omega
  · rintro ⟨h1, h2, h3, h4⟩
    refine ⟨by omega, ?_⟩
    intro i hi
    cases i with
    | zero => simpa using h2
    | succ i =>
      have := h4 i (by omega)
      rw [← this]; congr 1; omega

/-- Complete characterisation of the loop on `k` entries. -/
theorem stackedLoop_spec (p : Profile) (buf : Bytes) (k : Nat) :
    ∀ (fuel pos : Nat), buf.length - pos < fuel → pos ≤ buf.length →
      (StackedOk buf pos k →
        writeMemStackedLoop p fuel ⟨buf, pos⟩ (4 * k) = .ok (stackedLengthsAt buf pos k)) ∧
      (¬ StackedOk buf pos k → IsErr (writeMemStackedLoop p fuel ⟨buf, pos⟩ (4 * k))) := by
  induction k with
  | zero =>
    intro fuel pos hf hp
    cases fuel with
    | zero => omega
    | succ fuel =>
      refine ⟨fun _ => by simp [writeMemStackedLoop, stackedLengthsAt], fun h => ?_⟩
      exact absurd ⟨by omega, fun i hi => by omega⟩ h
  | succ k ih =>
    intro fuel pos hf hp
    cases fuel with
    | zero => omega
    | succ fuel =>
      have hpos : 4 * (k + 1) > 0 := by omega
      have hsub : (subW p 64 (4 * (k + 1)) 4 : R Nat) = .ok (4 * k) := by
        simp only [subW]; rw [if_pos (by omega)]; congr 1
      rw [stackedOk_succ]
      by_cases h2 : pos + 2 ≤ buf.length
      · by_cases hr : uintAt buf pos 2 = 0
        · by_cases h4 : pos + 4 ≤ buf.length
          · have ih' := ih fuel (pos + 4) (by omega) h4
            have e : pos + 2 + 2 = pos + 4 := by omega
            constructor
            · rintro ⟨_, _, hok⟩
              simp (disch := omega) only [writeMemStackedLoop, hpos, if_true, readLE_ok, Res.bind_ok,
                hr, ne_eq, not_true_eq_false, if_false, hsub, e, ih'.1 hok, Res.pure_eq,
                stackedLengthsAt_succ]
            · intro hno
              have hno' : ¬ StackedOk buf (pos + 4) k := fun hk => hno ⟨h4, hr, hk⟩
              obtain ⟨er, her⟩ := ih'.2 hno'
              simp (disch := omega) only [writeMemStackedLoop, hpos, if_true, readLE_ok, Res.bind_ok,
                hr, ne_eq, not_true_eq_false, if_false, hsub, e, her, Res.bind_err]
              exact isErr_err _
          · refine ⟨fun h => absurd h.1 h4, fun _ => ?_⟩
            have h4' : ¬ pos + 2 + 2 ≤ buf.length := by omega
            simp (disch := omega) only [writeMemStackedLoop, hpos, if_true, readLE_ok, readLE_err,
              Res.bind_ok, hr, ne_eq, not_true_eq_false, if_false, Res.bind_err]
            exact isErr_err _
        · refine ⟨fun h => absurd h.2.1 hr, fun _ => ?_⟩
          simp (disch := omega) only [writeMemStackedLoop, hpos, if_true, readLE_ok, Res.bind_ok,
            hr, ne_eq, not_false_eq_true]
          exact isErr_err _
      · refine ⟨fun h => by omega, fun _ => ?_⟩
        simp (disch := omega) only [writeMemStackedLoop, hpos, if_true, readLE_err, Res.bind_err]
        exact isErr_err _

/-! ### the event walk -/

/-- one iteration of the `while remained > 0` loop as a closed formula -/
def eventStep (fuel : Nat) (bs : Bytes) (pos rem : Nat) : R (List EventScd) :=
  if pos + 12 ≤ bs.length then
    if uintAt bs pos 2 = 0 then
      if 12 ≤ rem then
        if pos + rem ≤ bs.length then
          .ok [⟨0, uintAt bs (pos + 2) 2, uintAt bs (pos + 4) 8, pos + 12,
            slice bs (pos + 12) (rem - 12)⟩]
        else .err .bufferIo
      else .err .invalidPacket
    else if 12 ≤ uintAt bs pos 2 then
      if uintAt bs pos 2 ≤ rem then
        if pos + uintAt bs pos 2 ≤ bs.length then
          eventLoop fuel ⟨bs, pos + uintAt bs pos 2⟩ (rem - uintAt bs pos 2) >>= fun rest =>
            .ok (⟨uintAt bs pos 2, uintAt bs (pos + 2) 2, uintAt bs (pos + 4) 8, pos + 12,
              slice bs (pos + 12) (uintAt bs pos 2 - 12)⟩ :: rest)
        else .err .bufferIo
      else .err .invalidPacket
    else .err .invalidPacket
  else .err .bufferIo

theorem eventLoop_zero (fuel : Nat) (c : Cursor) : eventLoop (fuel + 1) c 0 = .ok [] := by
  simp [eventLoop]

theorem eventLoop_step (fuel : Nat) (bs : Bytes) (pos rem : Nat) (hrem : 0 < rem) :
    eventLoop (fuel + 1) ⟨bs, pos⟩ rem = eventStep fuel bs pos rem := by
  by_cases h12 : pos + 12 ≤ bs.length
  · by_cases hz : uintAt bs pos 2 = 0
    · by_cases hr : 12 ≤ rem <;> by_cases hl : pos + rem ≤ bs.length <;>
       (have hl' : bs.length < rem - 12 + (pos + 12) ↔ ¬ pos + rem ≤ bs.length := by omega
        simp (disch := omega) only [eventLoop, eventStep, hrem, if_true, readLE_ok,
          Res.bind_ok, Res.bind_err, Res.pure_eq, Nat.add_assoc, Nat.reduceAdd, hz, checkedSub, hr,
          readAndSeek, hl', hl, h12, not_true_eq_false, not_false_eq_true, if_false, slice])
    · by_cases hs : 12 ≤ uintAt bs pos 2
      · by_cases hr : uintAt bs pos 2 ≤ rem <;>
        by_cases hl : pos + uintAt bs pos 2 ≤ bs.length <;>
         (have hl' : bs.length < uintAt bs pos 2 - 12 + (pos + 12) ↔
              ¬ pos + uintAt bs pos 2 ≤ bs.length := by omega
          have e : pos + (12 + (uintAt bs pos 2 - 12)) = pos + uintAt bs pos 2 := by omega
          simp (disch := omega) only [eventLoop, eventStep, hrem, if_true, readLE_ok,
            Res.bind_ok, Res.bind_err, Res.pure_eq, Nat.add_assoc, Nat.reduceAdd, hz, checkedSub, hr,
            hs, readAndSeek, hl', hl, h12, not_true_eq_false, not_false_eq_true, if_false, slice, e])
      · simp (disch := omega) only [eventLoop, eventStep, hrem, if_true, readLE_ok,
          Res.bind_ok, Res.bind_err, Res.pure_eq, Nat.add_assoc, Nat.reduceAdd, hz, checkedSub,
          hs, h12, if_false]
  · by_cases h2 : pos + 2 ≤ bs.length <;> by_cases h4 : pos + 4 ≤ bs.length <;>
    first
    | (exfalso; omega)
    | (simp (disch := omega) only [eventLoop, eventStep, hrem, if_true, readLE_ok,
         readLE_err, Res.bind_ok, Res.bind_err, Nat.add_assoc, Nat.reduceAdd, h12, if_false])

theorem slice_length (bs : Bytes) (off n : Nat) (h : off + n ≤ bs.length) :
    (slice bs off n).length = n := by
  simp only [slice, List.length_take, List.length_drop]; omega

/-- the reference view of a model event -/
def toView (e : EventScd) : EventView :=
  ⟨e.eventSize, e.eventId, e.timestamp, e.dataOff, e.data.length⟩

/-- the model event of a reference view into `bs` -/
def ofView (bs : Bytes) (v : EventView) : EventScd :=
  ⟨v.eventSize, v.eventId, v.timestamp, v.dataOff, slice bs v.dataOff v.dataLen⟩

theorem eventLoop_ne_panic (bs : Bytes) :
    ∀ fuel pos rem, rem < fuel → eventLoop fuel ⟨bs, pos⟩ rem ≠ .panic := by
  intro fuel
  induction fuel with
  | zero => intro pos rem h; omega
  | succ fuel ih =>
    intro pos rem hf
    by_cases hrem : 0 < rem
    · rw [eventLoop_step _ _ _ _ hrem]
      unfold eventStep
      repeat' split
      all_goals first
        | (intro h; cases h; done)
        | (apply bind_ne_panic
           · apply ih; omega
           · intro a _ h; cases h)
    · have : rem = 0 := by omega
      subst this
      rw [eventLoop_zero]; intro h; cases h

theorem eventLoop_sound (bs : Bytes) :
    ∀ fuel pos rem evs, eventLoop fuel ⟨bs, pos⟩ rem = .ok evs →
      EventsAt bs pos rem (evs.map toView) ∧
      ∀ e ∈ evs, e.data = slice bs e.dataOff e.data.length ∧
        e.dataOff + e.data.length ≤ bs.length := by
  intro fuel
  induction fuel with
  | zero => intro pos rem evs h; simp [eventLoop] at h
  | succ fuel ih =>
    intro pos rem evs h
    by_cases hrem : 0 < rem
    · rw [eventLoop_step _ _ _ _ hrem] at h
      unfold eventStep at h
      split at h
      · rename_i h12
        split at h
        · rename_i hz
          split at h
          · rename_i hr
            split at h
            · rename_i hl
              injection h with h
              subst h
              have hlen : (slice bs (pos + 12) (rem - 12)).length = rem - 12 :=
                slice_length _ _ _ (by omega)
              constructor
              · simp only [List.map_cons, List.map_nil, toView, hlen]
                exact EventsAt.single pos rem hz hr hl
              · intro e he
                simp only [List.mem_singleton] at he
                subst he
                simp only [hlen]
                exact ⟨trivial, by omega⟩
            · cases h
          · cases h
        · rename_i hz
          split at h
          · rename_i hs
            split at h
            · rename_i hr
              split at h
              · rename_i hl
                obtain ⟨rest, hrest, h⟩ := bind_eq_ok h
                injection h with h
                subst h
                obtain ⟨ih1, ih2⟩ := ih _ _ _ hrest
                have hlen : (slice bs (pos + 12) (uintAt bs pos 2 - 12)).length =
                    uintAt bs pos 2 - 12 := slice_length _ _ _ (by omega)
                constructor
                · simp only [List.map_cons, toView, hlen]
                  exact EventsAt.multi pos rem _ _ rfl hs hr hl ih1
                · intro e he
                  rcases List.mem_cons.mp he with rfl | he
                  · simp only [hlen]
                    exact ⟨trivial, by omega⟩
                  · exact ih2 e he
              · cases h
            · cases h
          · cases h
      · cases h
    · have : rem = 0 := by omega
      subst this
      rw [eventLoop_zero] at h
      injection h with h
      subst h
      exact ⟨EventsAt.done pos, by simp⟩

theorem eventLoop_complete (bs : Bytes) (pos rem : Nat) (vs : List EventView)
    (h : EventsAt bs pos rem vs) :
    ∀ fuel, rem < fuel → eventLoop fuel ⟨bs, pos⟩ rem = .ok (vs.map (ofView bs)) := by
  induction h with
  | done off =>
    intro fuel hf
    cases fuel with
    | zero => omega
    | succ fuel => rw [eventLoop_zero]; rfl
  | single off rem hz hr hl =>
    intro fuel hf
    cases fuel with
    | zero => omega
    | succ fuel =>
      rw [eventLoop_step _ _ _ _ (by omega)]
      unfold eventStep
      rw [if_pos (by omega), if_pos hz, if_pos hr, if_pos hl]
      rfl
  | multi off rem size rest hsz hs hr hl _ ih =>
    intro fuel hf
    cases fuel with
    | zero => omega
    | succ fuel =>
      rw [eventLoop_step _ _ _ _ (by omega)]
      unfold eventStep
      subst hsz
      rw [if_pos (by omega), if_neg (by omega), if_pos hs, if_pos hr, if_pos hl,
        ih fuel (by omega)]
      rfl

/-! ### event header: closed formula -/

def eventFormula (bs : Bytes) : R EventPacket :=
  if uintAt bs 0 4 ≠ EVENT_PREFIX_MAGIC then .err .invalidPacket else
  if uintAt bs 6 2 ≠ Ack.EVENT_COMMAND_ID then .err .invalidPacket else
  eventLoop (uintAt bs 8 2 + 1) ⟨bs, 12⟩ (uintAt bs 8 2) >>= fun scd =>
  .ok ⟨⟨uintAt bs 4 2, uintAt bs 6 2, uintAt bs 8 2, uintAt bs 10 2⟩, scd⟩

theorem event_parse_eq (bs : Bytes) (h : 12 ≤ bs.length) :
    EventPacket.parse bs = eventFormula bs := by
  by_cases hm : uintAt bs 0 4 = EVENT_PREFIX_MAGIC <;>
  by_cases hc : uintAt bs 6 2 = Ack.EVENT_COMMAND_ID <;>
  simp (disch := omega) only [EventPacket.parse, EventCcd.parse, eventFormula, readLE_ok,
    Res.bind_ok, Res.bind_err, Res.pure_eq, Nat.zero_add, Nat.reduceAdd, hm, hc, ne_eq,
    not_true_eq_false, not_false_eq_true, if_true, if_false]

theorem event_parse_short (bs : Bytes) (h : bs.length < 12) : IsErr (EventPacket.parse bs) := by
  by_cases hm : uintAt bs 0 4 = EVENT_PREFIX_MAGIC <;>
  by_cases hc : uintAt bs 6 2 = Ack.EVENT_COMMAND_ID <;>
  by_cases h4 : 4 ≤ bs.length <;> by_cases h6 : 6 ≤ bs.length <;>
  by_cases h8 : 8 ≤ bs.length <;> by_cases h10 : 10 ≤ bs.length <;>
  first
  | (exfalso; omega)
  | (simp (disch := omega) only [EventPacket.parse, EventCcd.parse, readLE_ok, readLE_err,
      Res.bind_ok, Res.bind_err, Res.pure_eq, Nat.zero_add, Nat.reduceAdd, hm, hc, ne_eq,
      not_true_eq_false, not_false_eq_true, if_true, if_false]
     exact isErr_err _)

/-! ### the reference encoder -/

open CamVerif.C09 (uintAt_skip uintAt_here uintAt_all slice_skip slice_here slice_all)

theorem encodeAck_fields (code cmd req : Nat) (scd : Bytes) (hcode : code < 2 ^ 16)
    (hcmd : cmd < 2 ^ 16) (hreq : req < 2 ^ 16) (hlen : scd.length < 2 ^ 16) :
    (encodeAck code cmd req scd).length = 12 + scd.length ∧
    magicOf (encodeAck code cmd req scd) = ACK_MAGIC ∧
    statusCodeOf (encodeAck code cmd req scd) = code ∧
    commandIdOf (encodeAck code cmd req scd) = cmd ∧
    scdLenOf (encodeAck code cmd req scd) = scd.length ∧
    requestIdOf (encodeAck code cmd req scd) = req ∧
    (encodeAck code cmd req scd).drop 12 = scd := by
  have e1 : code % 65536 = code := Nat.mod_eq_of_lt hcode
  have e2 : cmd % 65536 = cmd := Nat.mod_eq_of_lt hcmd
  have e3 : req % 65536 = req := Nat.mod_eq_of_lt hreq
  have e4 : scd.length % 65536 = scd.length := Nat.mod_eq_of_lt hlen
  refine ⟨?_, ?_, ?_, ?_, ?_, ?_, ?_⟩
  · simp [encodeAck]; omega
  · simp [encodeAck, magicOf, uintAt_here, ACK_MAGIC]
  · simp [encodeAck, statusCodeOf, uintAt_skip, uintAt_here, e1]
  · simp [encodeAck, commandIdOf, uintAt_skip, uintAt_here, e2]
  · simp [encodeAck, scdLenOf, uintAt_skip, uintAt_here, e4]
  · simp [encodeAck, requestIdOf, uintAt_skip, uintAt_here, e3]
  · have : encodeAck code cmd req scd =
        (toLE 4 ACK_MAGIC ++ toLE 2 code ++ toLE 2 cmd ++ toLE 2 scd.length ++ toLE 2 req) ++ scd := by
      simp [encodeAck]
    rw [this]
    exact List.drop_left' (by simp)

theorem encodeValueScd_parse (v : Nat) (ccd : AckCcd) (hv : v < 2 ^ 16) (hc : 4 ≤ ccd.scdLen) :
    parseReservedU16 (encodeValueScd v) ccd = .ok v := by
  rw [parseReservedU16_eq, if_neg (by omega)]
  have e : v % 65536 = v := Nat.mod_eq_of_lt hv
  have hl : (encodeValueScd v).length = 4 := by simp [encodeValueScd]
  have h0 : uintAt (encodeValueScd v) 0 2 = 0 := by simp [encodeValueScd, uintAt_here]
  have h2 : uintAt (encodeValueScd v) 2 2 = v := by
    simp [encodeValueScd, uintAt_skip, uintAt_all, e]
  simp [hl, h0, h2]

theorem encodeStackedScd_length (ls : List Nat) : (encodeStackedScd ls).length = 4 * ls.length := by
  induction ls with
  | nil => rfl
  | cons l ls ih =>
    simp only [encodeStackedScd, List.map_cons, List.flatten_cons, List.length_append,
      List.length_cons] at ih ⊢
    rw [ih]; simp [encodeValueScd]; omega

theorem encodeStackedScd_ok (pre : Bytes) (ls : List Nat) (h : ∀ l ∈ ls, l < 2 ^ 16) :
    StackedOk (pre ++ encodeStackedScd ls) pre.length ls.length ∧
    stackedLengthsAt (pre ++ encodeStackedScd ls) pre.length ls.length = ls := by
  induction ls generalizing pre with
  | nil =>
    refine ⟨⟨by simp [encodeStackedScd], fun i hi => by simp at hi⟩, ?_⟩
    simp [stackedLengthsAt]
  | cons l ls ih =>
    have hl : l < 2 ^ 16 := h l (List.mem_cons_self ..)
    have e : l % 65536 = l := Nat.mod_eq_of_lt hl
    have hcons : encodeStackedScd (l :: ls) = encodeValueScd l ++ encodeStackedScd ls := by
      simp [encodeStackedScd]
    have ih' := ih (pre ++ encodeValueScd l) (fun x hx => h x (List.mem_cons_of_mem _ hx))
    have hpl : (pre ++ encodeValueScd l).length = pre.length + 4 := by simp [encodeValueScd]
    rw [hpl, List.append_assoc, ← hcons] at ih'
    simp only [List.length_cons]
    rw [stackedOk_succ, stackedLengthsAt_succ]
    have hlen : pre.length + 4 ≤ (pre ++ encodeStackedScd (l :: ls)).length := by
      simp only [List.length_append, encodeStackedScd_length, List.length_cons]; omega
    have h0 : uintAt (pre ++ encodeStackedScd (l :: ls)) pre.length 2 = 0 := by
      rw [hcons]; simp [encodeValueScd, uintAt_skip, uintAt_here]
    have h2 : uintAt (pre ++ encodeStackedScd (l :: ls)) (pre.length + 2) 2 = l := by
      rw [hcons]; simp [encodeValueScd, uintAt_skip, uintAt_here, e]
    exact ⟨⟨hlen, h0, ih'.1⟩, by rw [h2, ih'.2]⟩

/-- what the decoder must return for `encodeEvents` placed at offset `off` -/
def expectedEvents (off : Nat) : List Event → Option Event → List EventScd
  | [], none => []
  | [], some e => [⟨0, e.id, e.timestamp, off + 12, e.data⟩]
  | e :: es, last =>
    ⟨12 + e.data.length, e.id, e.timestamp, off + 12, e.data⟩ ::
      expectedEvents (off + (12 + e.data.length)) es last

def EventOk (e : Event) : Prop :=
  e.id < 2 ^ 16 ∧ e.timestamp < 2 ^ 64 ∧ 12 + e.data.length < 2 ^ 16

theorem encodeEvent_length (e : Event) : (encodeEvent e).length = 12 + e.data.length := by
  simp [encodeEvent]; omega

theorem encodeSingleEvent_length (e : Event) :
    (encodeSingleEvent e).length = 12 + e.data.length := by
  simp [encodeSingleEvent]; omega

theorem eventLoop_encoded (evs : List Event) (last : Option Event) :
    ∀ (pre : Bytes) (fuel : Nat), (encodeEvents evs last).length < fuel →
      (∀ e ∈ evs, EventOk e) → (∀ e, last = some e → EventOk e) →
      eventLoop fuel ⟨pre ++ encodeEvents evs last, pre.length⟩ (encodeEvents evs last).length =
        .ok (expectedEvents pre.length evs last) := by
  induction evs with
  | nil =>
    intro pre fuel hf _ hlast
    cases fuel with
    | zero => omega
    | succ fuel =>
      cases last with
      | none => simp [encodeEvents, expectedEvents, eventLoop_zero]
      | some e =>
        obtain ⟨hid, hts, hsz⟩ := hlast e rfl
        simp only [encodeEvents, expectedEvents]
        have hl := encodeSingleEvent_length e
        rw [eventLoop_step _ _ _ _ (by omega)]
        have h0 : uintAt (pre ++ encodeSingleEvent e) pre.length 2 = 0 := by
          simp [encodeSingleEvent, uintAt_skip, uintAt_here]
        have h2 : uintAt (pre ++ encodeSingleEvent e) (pre.length + 2) 2 = e.id := by
          simp [encodeSingleEvent, uintAt_skip, uintAt_here]; exact hid
        have h4 : uintAt (pre ++ encodeSingleEvent e) (pre.length + 4) 8 = e.timestamp := by
          simp [encodeSingleEvent, uintAt_skip, uintAt_here]; exact hts
        have hd : slice (pre ++ encodeSingleEvent e) (pre.length + 12)
            ((encodeSingleEvent e).length - 12) = e.data := by
          rw [slice_skip _ _ _ _ (by omega), hl]
          simp only [encodeSingleEvent, List.append_assoc]
          rw [slice_skip _ _ _ _ (by simp), slice_skip _ _ _ _ (by simp),
            slice_skip _ _ _ _ (by simp)]
          simp only [toLE_length]
          have e0 : pre.length + 12 - pre.length - 2 - 2 - 8 = 0 := by omega
          have e1 : 12 + e.data.length - 12 = e.data.length := by omega
          rw [e0, e1]
          exact slice_all _ _ rfl
        unfold eventStep
        rw [if_pos (by simp only [List.length_append, hl]; omega), if_pos h0,
          if_pos (by omega), if_pos (by simp only [List.length_append]; omega), h2, h4, hd]
  | cons e es ih =>
    intro pre fuel hf hall hlast
    cases fuel with
    | zero => omega
    | succ fuel =>
      obtain ⟨hid, hts, hsz⟩ := hall e (List.mem_cons_self ..)
      have hl := encodeEvent_length e
      have hsz' : (12 + e.data.length) % 65536 = 12 + e.data.length := Nat.mod_eq_of_lt hsz
      simp only [encodeEvents, expectedEvents, List.length_append] at hf ⊢
      rw [eventLoop_step _ _ _ _ (by omega)]
      have h0 : uintAt (pre ++ (encodeEvent e ++ encodeEvents es last)) pre.length 2 =
          12 + e.data.length := by
        simp [encodeEvent, uintAt_skip, uintAt_here, hsz']
      have h2 : uintAt (pre ++ (encodeEvent e ++ encodeEvents es last)) (pre.length + 2) 2 =
          e.id := by
        simp [encodeEvent, uintAt_skip, uintAt_here]; exact hid
      have h4 : uintAt (pre ++ (encodeEvent e ++ encodeEvents es last)) (pre.length + 4) 8 =
          e.timestamp := by
        simp [encodeEvent, uintAt_skip, uintAt_here]; exact hts
      have hd : slice (pre ++ (encodeEvent e ++ encodeEvents es last)) (pre.length + 12)
          (12 + e.data.length - 12) = e.data := by
        rw [slice_skip _ _ _ _ (by omega)]
        simp only [encodeEvent, List.append_assoc]
        rw [slice_skip _ _ _ _ (by simp), slice_skip _ _ _ _ (by simp),
          slice_skip _ _ _ _ (by simp)]
        simp only [toLE_length]
        have : pre.length + 12 - pre.length - 2 - 2 - 8 = 0 := by omega
        rw [this]
        exact slice_here _ _ _ (by omega)
      have ih' := ih (pre ++ encodeEvent e) fuel (by omega)
        (fun x hx => hall x (List.mem_cons_of_mem _ hx)) hlast
      simp only [List.append_assoc, List.length_append, hl] at ih'
      unfold eventStep
      rw [h0, h2, h4, hd]
      rw [if_pos (by simp only [List.length_append, hl]; omega), if_neg (by omega),
        if_pos (by omega), if_pos (by rw [hl]; omega),
        if_pos (by simp only [List.length_append, hl]; omega)]
      have e1 : (encodeEvent e).length + (encodeEvents es last).length - (12 + e.data.length) =
          (encodeEvents es last).length := by omega
      rw [e1, ih']
      rfl

theorem encodeEventPacket_fields (flag req : Nat) (scd : Bytes) (hflag : flag < 2 ^ 16)
    (hreq : req < 2 ^ 16) (hlen : scd.length < 2 ^ 16) :
    (encodeEventPacket flag req scd).length = 12 + scd.length ∧
    uintAt (encodeEventPacket flag req scd) 0 4 = EVENT_PREFIX_MAGIC ∧
    uintAt (encodeEventPacket flag req scd) 4 2 = flag ∧
    uintAt (encodeEventPacket flag req scd) 6 2 = Ack.EVENT_COMMAND_ID ∧
    uintAt (encodeEventPacket flag req scd) 8 2 = scd.length ∧
    uintAt (encodeEventPacket flag req scd) 10 2 = req := by
  have e1 : flag % 65536 = flag := Nat.mod_eq_of_lt hflag
  have e3 : req % 65536 = req := Nat.mod_eq_of_lt hreq
  have e4 : scd.length % 65536 = scd.length := Nat.mod_eq_of_lt hlen
  refine ⟨?_, ?_, ?_, ?_, ?_, ?_⟩
  · simp [encodeEventPacket]; omega
  · simp [encodeEventPacket, uintAt_here, EVENT_MAGIC, EVENT_PREFIX_MAGIC]
  · simp [encodeEventPacket, uintAt_skip, uintAt_here, e1]
  · simp [encodeEventPacket, uintAt_skip, uintAt_here, Spec.GenCPAck.EVENT_COMMAND_ID,
      Ack.EVENT_COMMAND_ID]
  · simp [encodeEventPacket, uintAt_skip, uintAt_here, e4]
  · simp [encodeEventPacket, uintAt_skip, uintAt_here, e3]

end CamVerif.C08
