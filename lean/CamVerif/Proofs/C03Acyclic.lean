/-
C03 helper lemmas: the syntactic form of acyclicity (every node id a node mentions has a
strictly smaller rank) implies the semantic one (`Acyclic`): every dispatch function
consults the interface records only on the node ids its arguments mention.  Generated
per helper; proofs by the tactic `ag_auto`.
-/
import CamVerif.Proofs.C03Total
namespace CamVerif.C03
open CamVerif CamVerif.GenApi

variable {F E : Type}

/-! ### which node ids a piece of a node mentions -/

def ImmOrPNode.Ref {α : Type} (a : ImmOrPNode α) (p : NodeId) : Prop := a = .pnode p

def ValueKind.Ref (vk : ValueKind) (p : NodeId) : Prop :=
  match vk with
  | .value _ => False
  | .pValue q cs => p = q ∨ p ∈ cs
  | .pIndex sel es d => p = sel ∨ ImmOrPNode.Ref d p ∨ ∃ j, (j, ImmOrPNode.pnode p) ∈ es

def AddressKind.Ref (k : AddressKind) (p : NodeId) : Prop :=
  match k with
  | .address a => ImmOrPNode.Ref a p
  | .intSwissKnife n => p = n
  | .pIndex sel off => p = sel ∨ ∃ o, off = some o ∧ ImmOrPNode.Ref o p

def Base.Ref (b : Base) (p : NodeId) : Prop :=
  b.pIsImplemented = some p ∨ b.pIsAvailable = some p ∨ b.pIsLocked = some p

def RegBase.Ref (rb : RegBase) (p : NodeId) : Prop :=
  Base.Ref rb.base p ∨ ImmOrPNode.Ref rb.length p ∨ ∃ k ∈ rb.addrs, AddressKind.Ref k p

def Formulaic.Ref (fm : Formulaic F E) (p : NodeId) : Prop := ∃ nm, (nm, p) ∈ fm.vars

/-- the node ids a stored node mentions (enumeration entries and the port of a register
are looked up in the graph directly, not through the interface records) -/
def Node.Ref (nd : Node F E) (p : NodeId) : Prop :=
  match nd with
  | .integer b vk mn mx inc =>
    Base.Ref b p ∨ ValueKind.Ref vk p ∨ ImmOrPNode.Ref mn p ∨ ImmOrPNode.Ref mx p ∨ ImmOrPNode.Ref inc p
  | .float b vk mn mx inc =>
    Base.Ref b p ∨ ValueKind.Ref vk p ∨ ImmOrPNode.Ref mn p ∨ ImmOrPNode.Ref mx p ∨
      ∃ i, inc = some i ∧ ImmOrPNode.Ref i p
  | .intReg rb .. | .maskedIntReg rb .. | .floatReg rb _ | .stringReg rb | .register rb => RegBase.Ref rb p
  | .boolean b v _ _ | .enumeration b _ v | .string b v => Base.Ref b p ∨ ImmOrPNode.Ref v p
  | .command b v c => Base.Ref b p ∨ ImmOrPNode.Ref v p ∨ ImmOrPNode.Ref c p
  | .converter b fm _ _ pv | .intConverter b fm _ _ pv => Base.Ref b p ∨ Formulaic.Ref fm p ∨ p = pv
  | .swissKnife b fm _ | .intSwissKnife b fm _ => Base.Ref b p ∨ Formulaic.Ref fm p
  | .enumEntry b .. | .port b _ | .category b _ | .node b => Base.Ref b p

def NodeRef (cx : Ctx F E) (n p : NodeId) : Prop := ∃ nd, cx.graph n = some nd ∧ Node.Ref nd p

/-- **syntactic acyclicity**: every node id mentioned by a node has a strictly smaller rank -/
def WellRanked (cx : Ctx F E) (rank : NodeId → Nat) : Prop :=
  ∀ n nd p, cx.graph n = some nd → Node.Ref nd p → rank p < rank n

theorem Node.base_ref {nd : Node F E} {p : NodeId} (h : Base.Ref nd.base p) : Node.Ref nd p := by
  cases nd <;> simp only [Node.base] at h <;> simp [Node.Ref, RegBase.Ref, h]

theorem Node.regBase_ref {nd : Node F E} {rb : RegBase} {p : NodeId} (hr : nd.regBase? = some rb)
    (h : RegBase.Ref rb p) : Node.Ref nd p := by
  cases nd <;> simp [Node.regBase?] at hr <;> subst hr <;> simpa [Node.Ref] using h

theorem pIndexSelect_ref {es : List (Int × ImmOrPNode SlotId)} {d : ImmOrPNode SlotId} {i : Int} {p : NodeId}
    (h : ImmOrPNode.Ref (pIndexSelect es d i) p) :
    ImmOrPNode.Ref d p ∨ ∃ j, (j, ImmOrPNode.pnode p) ∈ es := by
  unfold pIndexSelect at h
  split at h
  · rename_i e he
    right
    have := List.mem_of_find?_eq_some he
    exact ⟨e.1, by unfold ImmOrPNode.Ref at h; rw [← h]; exact this⟩
  · left; exact h

theorem R.bind_congr {α β : Type} {m1 m2 : R F α} {f1 f2 : α → R F β} (hm : m1 = m2) (hf : ∀ a, f1 a = f2 a) :
    (m1 >>= f1) = (m2 >>= f2) := by
  subst hm; congr; funext a; exact hf a
theorem M.bind_congr {α β : Type} {m1 m2 : M F α} {f1 f2 : α → M F β} (hm : m1 = m2) (hf : ∀ a, f1 a = f2 a) :
    (m1 >>= f1) = (m2 >>= f2) := by
  subst hm; congr; funext a; exact hf a

/- discharges "the node ids the callee mentions are among those the caller mentions" -/
set_option hygiene false in
macro "ref_tac" : tactic => `(tactic|
  (intro p hp; apply hP; (try clear hA);
   first
   | exact hp
   | (exact ⟨_, by assumption, Node.base_ref hp⟩)
   | (exact ⟨_, by assumption, Node.regBase_ref (by assumption) hp⟩)
   | (refine ⟨_, by assumption, ?_⟩; simp only [Node.Ref]; simp [hp]; done)
   | (rcases pIndexSelect_ref hp with h | h <;> simp [h, ValueKind.Ref]; done)
   | (simp only [ImmOrPNode.Ref, ValueKind.Ref, AddressKind.Ref, Base.Ref, RegBase.Ref, Formulaic.Ref] at hp ⊢; simp_all; done)
   | (refine ⟨_, by assumption, ?_⟩; simp only [Node.Ref, ImmOrPNode.Ref, ValueKind.Ref, AddressKind.Ref, Base.Ref, RegBase.Ref, Formulaic.Ref] at hp ⊢; simp_all; done)
   | grind [ImmOrPNode.Ref, ValueKind.Ref, AddressKind.Ref, Base.Ref, RegBase.Ref, Formulaic.Ref, Node.Ref, NodeRef]))

open Lean in
syntax "ag_auto " ident (" [" term,* "]")? : tactic
open Lean in
macro_rules
  | `(tactic| ag_auto $h:ident) => `(tactic| ag_auto $h [])
  | `(tactic| ag_auto $h:ident [$ts,*]) => do
    let mut alts : Array (TSyntax `tactic) := #[← `(tactic| fail "no lemma applies")]
    for t in ts.getElems do
      alts := alts.push (← `(tactic| exact $t $h (by ref_tac)))
    `(tactic|
      repeat' (first
      | rfl
      | (first $[| $alts:tactic]*)
      | apply R.bind_congr | apply M.bind_congr | apply congrArg M.ofR
      | intro _
      | split))

section
variable {cx : Ctx F E} {r1 r2 : Rec F} {P : NodeId → Prop}

theorem nidIntValue_ag (hA : ∀ p, P p → AgreeAt r1 r2 p) {n : NodeId} (hP : ∀ p, p = n → P p) :
    nidIntValue cx r1 n = nidIntValue cx r2 n := by
  have h_n := hA n (hP n (by simp))
  unfold nidIntValue
  try simp only [h_n.intValue, h_n.intMin, h_n.intMax, h_n.intInc, h_n.intIsReadable, h_n.intIsWritable, h_n.floatValue, h_n.floatMin, h_n.floatMax, h_n.floatInc, h_n.floatIsReadable, h_n.floatIsWritable, h_n.strValue, h_n.strMaxLength, h_n.strIsReadable, h_n.strIsWritable, h_n.boolValue, h_n.boolIsReadable, h_n.boolIsWritable, h_n.enumCurrentValue, h_n.enumCurrentEntry, h_n.enumIsReadable, h_n.enumIsWritable, h_n.intSet, h_n.floatSet, h_n.strSet, h_n.boolSet, h_n.enumSetByValue]
  ag_auto hA []

theorem nidIntSet_ag (hA : ∀ p, P p → AgreeAt r1 r2 p) {n : NodeId} {v : Int} (hP : ∀ p, p = n → P p) :
    nidIntSet cx r1 n v = nidIntSet cx r2 n v := by
  have h_n := hA n (hP n (by simp))
  unfold nidIntSet
  try simp only [h_n.intValue, h_n.intMin, h_n.intMax, h_n.intInc, h_n.intIsReadable, h_n.intIsWritable, h_n.floatValue, h_n.floatMin, h_n.floatMax, h_n.floatInc, h_n.floatIsReadable, h_n.floatIsWritable, h_n.strValue, h_n.strMaxLength, h_n.strIsReadable, h_n.strIsWritable, h_n.boolValue, h_n.boolIsReadable, h_n.boolIsWritable, h_n.enumCurrentValue, h_n.enumCurrentEntry, h_n.enumIsReadable, h_n.enumIsWritable, h_n.intSet, h_n.floatSet, h_n.strSet, h_n.boolSet, h_n.enumSetByValue]
  ag_auto hA []

theorem nidFloatValue_ag (hA : ∀ p, P p → AgreeAt r1 r2 p) {n : NodeId} (hP : ∀ p, p = n → P p) :
    nidFloatValue cx r1 n = nidFloatValue cx r2 n := by
  have h_n := hA n (hP n (by simp))
  unfold nidFloatValue
  try simp only [h_n.intValue, h_n.intMin, h_n.intMax, h_n.intInc, h_n.intIsReadable, h_n.intIsWritable, h_n.floatValue, h_n.floatMin, h_n.floatMax, h_n.floatInc, h_n.floatIsReadable, h_n.floatIsWritable, h_n.strValue, h_n.strMaxLength, h_n.strIsReadable, h_n.strIsWritable, h_n.boolValue, h_n.boolIsReadable, h_n.boolIsWritable, h_n.enumCurrentValue, h_n.enumCurrentEntry, h_n.enumIsReadable, h_n.enumIsWritable, h_n.intSet, h_n.floatSet, h_n.strSet, h_n.boolSet, h_n.enumSetByValue]
  ag_auto hA []

theorem nidFloatSet_ag (hA : ∀ p, P p → AgreeAt r1 r2 p) {n : NodeId} {v : F} (hP : ∀ p, p = n → P p) :
    nidFloatSet cx r1 n v = nidFloatSet cx r2 n v := by
  have h_n := hA n (hP n (by simp))
  unfold nidFloatSet
  try simp only [h_n.intValue, h_n.intMin, h_n.intMax, h_n.intInc, h_n.intIsReadable, h_n.intIsWritable, h_n.floatValue, h_n.floatMin, h_n.floatMax, h_n.floatInc, h_n.floatIsReadable, h_n.floatIsWritable, h_n.strValue, h_n.strMaxLength, h_n.strIsReadable, h_n.strIsWritable, h_n.boolValue, h_n.boolIsReadable, h_n.boolIsWritable, h_n.enumCurrentValue, h_n.enumCurrentEntry, h_n.enumIsReadable, h_n.enumIsWritable, h_n.intSet, h_n.floatSet, h_n.strSet, h_n.boolSet, h_n.enumSetByValue]
  ag_auto hA []

theorem nidIsReadable_ag (hA : ∀ p, P p → AgreeAt r1 r2 p) {n : NodeId} (hP : ∀ p, p = n → P p) :
    nidIsReadable cx r1 n = nidIsReadable cx r2 n := by
  have h_n := hA n (hP n (by simp))
  unfold nidIsReadable
  try simp only [h_n.intValue, h_n.intMin, h_n.intMax, h_n.intInc, h_n.intIsReadable, h_n.intIsWritable, h_n.floatValue, h_n.floatMin, h_n.floatMax, h_n.floatInc, h_n.floatIsReadable, h_n.floatIsWritable, h_n.strValue, h_n.strMaxLength, h_n.strIsReadable, h_n.strIsWritable, h_n.boolValue, h_n.boolIsReadable, h_n.boolIsWritable, h_n.enumCurrentValue, h_n.enumCurrentEntry, h_n.enumIsReadable, h_n.enumIsWritable, h_n.intSet, h_n.floatSet, h_n.strSet, h_n.boolSet, h_n.enumSetByValue]
  ag_auto hA []

theorem nidIsWritable_ag (hA : ∀ p, P p → AgreeAt r1 r2 p) {n : NodeId} (hP : ∀ p, p = n → P p) :
    nidIsWritable cx r1 n = nidIsWritable cx r2 n := by
  have h_n := hA n (hP n (by simp))
  unfold nidIsWritable
  try simp only [h_n.intValue, h_n.intMin, h_n.intMax, h_n.intInc, h_n.intIsReadable, h_n.intIsWritable, h_n.floatValue, h_n.floatMin, h_n.floatMax, h_n.floatInc, h_n.floatIsReadable, h_n.floatIsWritable, h_n.strValue, h_n.strMaxLength, h_n.strIsReadable, h_n.strIsWritable, h_n.boolValue, h_n.boolIsReadable, h_n.boolIsWritable, h_n.enumCurrentValue, h_n.enumCurrentEntry, h_n.enumIsReadable, h_n.enumIsWritable, h_n.intSet, h_n.floatSet, h_n.strSet, h_n.boolSet, h_n.enumSetByValue]
  ag_auto hA []

theorem nidStrValue_ag (hA : ∀ p, P p → AgreeAt r1 r2 p) {n : NodeId} (hP : ∀ p, p = n → P p) :
    nidStrValue cx r1 n = nidStrValue cx r2 n := by
  have h_n := hA n (hP n (by simp))
  unfold nidStrValue
  try simp only [h_n.intValue, h_n.intMin, h_n.intMax, h_n.intInc, h_n.intIsReadable, h_n.intIsWritable, h_n.floatValue, h_n.floatMin, h_n.floatMax, h_n.floatInc, h_n.floatIsReadable, h_n.floatIsWritable, h_n.strValue, h_n.strMaxLength, h_n.strIsReadable, h_n.strIsWritable, h_n.boolValue, h_n.boolIsReadable, h_n.boolIsWritable, h_n.enumCurrentValue, h_n.enumCurrentEntry, h_n.enumIsReadable, h_n.enumIsWritable, h_n.intSet, h_n.floatSet, h_n.strSet, h_n.boolSet, h_n.enumSetByValue]
  ag_auto hA []

theorem nidStrSet_ag (hA : ∀ p, P p → AgreeAt r1 r2 p) {n : NodeId} {v : Bytes} (hP : ∀ p, p = n → P p) :
    nidStrSet cx r1 n v = nidStrSet cx r2 n v := by
  have h_n := hA n (hP n (by simp))
  unfold nidStrSet
  try simp only [h_n.intValue, h_n.intMin, h_n.intMax, h_n.intInc, h_n.intIsReadable, h_n.intIsWritable, h_n.floatValue, h_n.floatMin, h_n.floatMax, h_n.floatInc, h_n.floatIsReadable, h_n.floatIsWritable, h_n.strValue, h_n.strMaxLength, h_n.strIsReadable, h_n.strIsWritable, h_n.boolValue, h_n.boolIsReadable, h_n.boolIsWritable, h_n.enumCurrentValue, h_n.enumCurrentEntry, h_n.enumIsReadable, h_n.enumIsWritable, h_n.intSet, h_n.floatSet, h_n.strSet, h_n.boolSet, h_n.enumSetByValue]
  ag_auto hA []

theorem nidStrIsReadable_ag (hA : ∀ p, P p → AgreeAt r1 r2 p) {n : NodeId} (hP : ∀ p, p = n → P p) :
    nidStrIsReadable cx r1 n = nidStrIsReadable cx r2 n := by
  have h_n := hA n (hP n (by simp))
  unfold nidStrIsReadable
  try simp only [h_n.intValue, h_n.intMin, h_n.intMax, h_n.intInc, h_n.intIsReadable, h_n.intIsWritable, h_n.floatValue, h_n.floatMin, h_n.floatMax, h_n.floatInc, h_n.floatIsReadable, h_n.floatIsWritable, h_n.strValue, h_n.strMaxLength, h_n.strIsReadable, h_n.strIsWritable, h_n.boolValue, h_n.boolIsReadable, h_n.boolIsWritable, h_n.enumCurrentValue, h_n.enumCurrentEntry, h_n.enumIsReadable, h_n.enumIsWritable, h_n.intSet, h_n.floatSet, h_n.strSet, h_n.boolSet, h_n.enumSetByValue]
  ag_auto hA []

theorem nidStrIsWritable_ag (hA : ∀ p, P p → AgreeAt r1 r2 p) {n : NodeId} (hP : ∀ p, p = n → P p) :
    nidStrIsWritable cx r1 n = nidStrIsWritable cx r2 n := by
  have h_n := hA n (hP n (by simp))
  unfold nidStrIsWritable
  try simp only [h_n.intValue, h_n.intMin, h_n.intMax, h_n.intInc, h_n.intIsReadable, h_n.intIsWritable, h_n.floatValue, h_n.floatMin, h_n.floatMax, h_n.floatInc, h_n.floatIsReadable, h_n.floatIsWritable, h_n.strValue, h_n.strMaxLength, h_n.strIsReadable, h_n.strIsWritable, h_n.boolValue, h_n.boolIsReadable, h_n.boolIsWritable, h_n.enumCurrentValue, h_n.enumCurrentEntry, h_n.enumIsReadable, h_n.enumIsWritable, h_n.intSet, h_n.floatSet, h_n.strSet, h_n.boolSet, h_n.enumSetByValue]
  ag_auto hA []

theorem immIntValue_ag (hA : ∀ p, P p → AgreeAt r1 r2 p) {a : ImmOrPNode Int} (hP : ∀ p, ImmOrPNode.Ref a p → P p) :
    immIntValue cx r1 a = immIntValue cx r2 a := by
  unfold immIntValue
  ag_auto hA [nidIntValue_ag]

theorem immFloatValue_ag (hA : ∀ p, P p → AgreeAt r1 r2 p) {a : ImmOrPNode F} (hP : ∀ p, ImmOrPNode.Ref a p → P p) :
    immFloatValue cx r1 a = immFloatValue cx r2 a := by
  unfold immFloatValue
  ag_auto hA [nidFloatValue_ag]

theorem slotOrNodeIntValue_ag (hA : ∀ p, P p → AgreeAt r1 r2 p) {a : ImmOrPNode SlotId} (hP : ∀ p, ImmOrPNode.Ref a p → P p) :
    slotOrNodeIntValue cx r1 a = slotOrNodeIntValue cx r2 a := by
  unfold slotOrNodeIntValue
  ag_auto hA [nidIntValue_ag]

theorem slotOrNodeIntSet_ag (hA : ∀ p, P p → AgreeAt r1 r2 p) {a : ImmOrPNode SlotId} {v : Int} (hP : ∀ p, ImmOrPNode.Ref a p → P p) :
    slotOrNodeIntSet cx r1 a v = slotOrNodeIntSet cx r2 a v := by
  unfold slotOrNodeIntSet
  ag_auto hA [nidIntSet_ag]

theorem slotOrNodeFloatValue_ag (hA : ∀ p, P p → AgreeAt r1 r2 p) {a : ImmOrPNode SlotId} (hP : ∀ p, ImmOrPNode.Ref a p → P p) :
    slotOrNodeFloatValue cx r1 a = slotOrNodeFloatValue cx r2 a := by
  unfold slotOrNodeFloatValue
  ag_auto hA [nidFloatValue_ag]

theorem slotOrNodeFloatSet_ag (hA : ∀ p, P p → AgreeAt r1 r2 p) {a : ImmOrPNode SlotId} {v : F} (hP : ∀ p, ImmOrPNode.Ref a p → P p) :
    slotOrNodeFloatSet cx r1 a v = slotOrNodeFloatSet cx r2 a v := by
  unfold slotOrNodeFloatSet
  ag_auto hA [nidFloatSet_ag]

theorem slotOrNodeIsReadable_ag (hA : ∀ p, P p → AgreeAt r1 r2 p) {a : ImmOrPNode SlotId} (hP : ∀ p, ImmOrPNode.Ref a p → P p) :
    slotOrNodeIsReadable cx r1 a = slotOrNodeIsReadable cx r2 a := by
  unfold slotOrNodeIsReadable
  ag_auto hA [nidIsReadable_ag]

theorem slotOrNodeIsWritable_ag (hA : ∀ p, P p → AgreeAt r1 r2 p) {a : ImmOrPNode SlotId} (hP : ∀ p, ImmOrPNode.Ref a p → P p) :
    slotOrNodeIsWritable cx r1 a = slotOrNodeIsWritable cx r2 a := by
  unfold slotOrNodeIsWritable
  ag_auto hA [nidIsWritable_ag]

theorem slotOrNodeStrValue_ag (hA : ∀ p, P p → AgreeAt r1 r2 p) {a : ImmOrPNode SlotId} (hP : ∀ p, ImmOrPNode.Ref a p → P p) :
    slotOrNodeStrValue cx r1 a = slotOrNodeStrValue cx r2 a := by
  unfold slotOrNodeStrValue
  ag_auto hA [nidStrValue_ag]

theorem slotOrNodeStrSet_ag (hA : ∀ p, P p → AgreeAt r1 r2 p) {a : ImmOrPNode SlotId} {v : Bytes} (hP : ∀ p, ImmOrPNode.Ref a p → P p) :
    slotOrNodeStrSet cx r1 a v = slotOrNodeStrSet cx r2 a v := by
  unfold slotOrNodeStrSet
  ag_auto hA [nidStrSet_ag]

theorem slotOrNodeStrIsReadable_ag (hA : ∀ p, P p → AgreeAt r1 r2 p) {a : ImmOrPNode SlotId} (hP : ∀ p, ImmOrPNode.Ref a p → P p) :
    slotOrNodeStrIsReadable cx r1 a = slotOrNodeStrIsReadable cx r2 a := by
  unfold slotOrNodeStrIsReadable
  ag_auto hA [nidStrIsReadable_ag]

theorem slotOrNodeStrIsWritable_ag (hA : ∀ p, P p → AgreeAt r1 r2 p) {a : ImmOrPNode SlotId} (hP : ∀ p, ImmOrPNode.Ref a p → P p) :
    slotOrNodeStrIsWritable cx r1 a = slotOrNodeStrIsWritable cx r2 a := by
  unfold slotOrNodeStrIsWritable
  ag_auto hA [nidStrIsWritable_ag]

theorem copiesIntSet_ag (hA : ∀ p, P p → AgreeAt r1 r2 p) {cs : List NodeId} {v : Int} (hP : ∀ p, p ∈ cs → P p) :
    copiesIntSet cx r1 cs v = copiesIntSet cx r2 cs v := by
  induction cs generalizing v with
  | nil => rfl
  | cons x xs ih =>
    unfold copiesIntSet
    ag_auto hA [nidIntSet_ag]
    all_goals first | exact ih (by ref_tac) | (apply ih; ref_tac)

theorem copiesFloatSet_ag (hA : ∀ p, P p → AgreeAt r1 r2 p) {cs : List NodeId} {v : F} (hP : ∀ p, p ∈ cs → P p) :
    copiesFloatSet cx r1 cs v = copiesFloatSet cx r2 cs v := by
  induction cs generalizing v with
  | nil => rfl
  | cons x xs ih =>
    unfold copiesFloatSet
    ag_auto hA [nidFloatSet_ag]
    all_goals first | exact ih (by ref_tac) | (apply ih; ref_tac)

theorem copiesIsWritable_ag (hA : ∀ p, P p → AgreeAt r1 r2 p) {cs : List NodeId} {b : Bool} (hP : ∀ p, p ∈ cs → P p) :
    copiesIsWritable cx r1 cs b = copiesIsWritable cx r2 cs b := by
  induction cs generalizing b with
  | nil => rfl
  | cons x xs ih =>
    unfold copiesIsWritable
    ag_auto hA [nidIsWritable_ag]
    all_goals first | exact ih (by ref_tac) | (apply ih; ref_tac)

theorem pValueIntSet_ag (hA : ∀ p, P p → AgreeAt r1 r2 p) {p : NodeId} {cs : List NodeId} {v : Int} (hP : ∀ p, p = p ∨ p ∈ cs → P p) :
    pValueIntSet cx r1 p cs v = pValueIntSet cx r2 p cs v := by
  have h_p := hA p (hP p (by simp))
  unfold pValueIntSet
  try simp only [h_p.intValue, h_p.intMin, h_p.intMax, h_p.intInc, h_p.intIsReadable, h_p.intIsWritable, h_p.floatValue, h_p.floatMin, h_p.floatMax, h_p.floatInc, h_p.floatIsReadable, h_p.floatIsWritable, h_p.strValue, h_p.strMaxLength, h_p.strIsReadable, h_p.strIsWritable, h_p.boolValue, h_p.boolIsReadable, h_p.boolIsWritable, h_p.enumCurrentValue, h_p.enumCurrentEntry, h_p.enumIsReadable, h_p.enumIsWritable, h_p.intSet, h_p.floatSet, h_p.strSet, h_p.boolSet, h_p.enumSetByValue]
  ag_auto hA [nidIntSet_ag, copiesIntSet_ag]

theorem pValueFloatSet_ag (hA : ∀ p, P p → AgreeAt r1 r2 p) {p : NodeId} {cs : List NodeId} {v : F} (hP : ∀ p, p = p ∨ p ∈ cs → P p) :
    pValueFloatSet cx r1 p cs v = pValueFloatSet cx r2 p cs v := by
  have h_p := hA p (hP p (by simp))
  unfold pValueFloatSet
  try simp only [h_p.intValue, h_p.intMin, h_p.intMax, h_p.intInc, h_p.intIsReadable, h_p.intIsWritable, h_p.floatValue, h_p.floatMin, h_p.floatMax, h_p.floatInc, h_p.floatIsReadable, h_p.floatIsWritable, h_p.strValue, h_p.strMaxLength, h_p.strIsReadable, h_p.strIsWritable, h_p.boolValue, h_p.boolIsReadable, h_p.boolIsWritable, h_p.enumCurrentValue, h_p.enumCurrentEntry, h_p.enumIsReadable, h_p.enumIsWritable, h_p.intSet, h_p.floatSet, h_p.strSet, h_p.boolSet, h_p.enumSetByValue]
  ag_auto hA [nidFloatSet_ag, copiesFloatSet_ag]

theorem pValueIsWritable_ag (hA : ∀ p, P p → AgreeAt r1 r2 p) {p : NodeId} {cs : List NodeId} (hP : ∀ p, p = p ∨ p ∈ cs → P p) :
    pValueIsWritable cx r1 p cs = pValueIsWritable cx r2 p cs := by
  have h_p := hA p (hP p (by simp))
  unfold pValueIsWritable
  try simp only [h_p.intValue, h_p.intMin, h_p.intMax, h_p.intInc, h_p.intIsReadable, h_p.intIsWritable, h_p.floatValue, h_p.floatMin, h_p.floatMax, h_p.floatInc, h_p.floatIsReadable, h_p.floatIsWritable, h_p.strValue, h_p.strMaxLength, h_p.strIsReadable, h_p.strIsWritable, h_p.boolValue, h_p.boolIsReadable, h_p.boolIsWritable, h_p.enumCurrentValue, h_p.enumCurrentEntry, h_p.enumIsReadable, h_p.enumIsWritable, h_p.intSet, h_p.floatSet, h_p.strSet, h_p.boolSet, h_p.enumSetByValue]
  ag_auto hA [nidIsWritable_ag, copiesIsWritable_ag]

theorem pIndexIndex_ag (hA : ∀ p, P p → AgreeAt r1 r2 p) {sel : NodeId} (hP : ∀ p, p = sel → P p) :
    pIndexIndex cx r1 sel = pIndexIndex cx r2 sel := by
  have h_sel := hA sel (hP sel (by simp))
  unfold pIndexIndex
  try simp only [h_sel.intValue, h_sel.intMin, h_sel.intMax, h_sel.intInc, h_sel.intIsReadable, h_sel.intIsWritable, h_sel.floatValue, h_sel.floatMin, h_sel.floatMax, h_sel.floatInc, h_sel.floatIsReadable, h_sel.floatIsWritable, h_sel.strValue, h_sel.strMaxLength, h_sel.strIsReadable, h_sel.strIsWritable, h_sel.boolValue, h_sel.boolIsReadable, h_sel.boolIsWritable, h_sel.enumCurrentValue, h_sel.enumCurrentEntry, h_sel.enumIsReadable, h_sel.enumIsWritable, h_sel.intSet, h_sel.floatSet, h_sel.strSet, h_sel.boolSet, h_sel.enumSetByValue]
  ag_auto hA []

theorem pIndexSelReadable_ag (hA : ∀ p, P p → AgreeAt r1 r2 p) {sel : NodeId} (hP : ∀ p, p = sel → P p) :
    pIndexSelReadable cx r1 sel = pIndexSelReadable cx r2 sel := by
  have h_sel := hA sel (hP sel (by simp))
  unfold pIndexSelReadable
  try simp only [h_sel.intValue, h_sel.intMin, h_sel.intMax, h_sel.intInc, h_sel.intIsReadable, h_sel.intIsWritable, h_sel.floatValue, h_sel.floatMin, h_sel.floatMax, h_sel.floatInc, h_sel.floatIsReadable, h_sel.floatIsWritable, h_sel.strValue, h_sel.strMaxLength, h_sel.strIsReadable, h_sel.strIsWritable, h_sel.boolValue, h_sel.boolIsReadable, h_sel.boolIsWritable, h_sel.enumCurrentValue, h_sel.enumCurrentEntry, h_sel.enumIsReadable, h_sel.enumIsWritable, h_sel.intSet, h_sel.floatSet, h_sel.strSet, h_sel.boolSet, h_sel.enumSetByValue]
  ag_auto hA []

theorem pIndexIsReadable_ag (hA : ∀ p, P p → AgreeAt r1 r2 p) {sel : NodeId} {es : List (Int × ImmOrPNode SlotId)} {d : ImmOrPNode SlotId} (hP : ∀ p, p = sel ∨ (∃ j, (j, ImmOrPNode.pnode p) ∈ es) ∨ ImmOrPNode.Ref d p → P p) :
    pIndexIsReadable cx r1 sel es d = pIndexIsReadable cx r2 sel es d := by
  have h_sel := hA sel (hP sel (by simp))
  unfold pIndexIsReadable
  try simp only [h_sel.intValue, h_sel.intMin, h_sel.intMax, h_sel.intInc, h_sel.intIsReadable, h_sel.intIsWritable, h_sel.floatValue, h_sel.floatMin, h_sel.floatMax, h_sel.floatInc, h_sel.floatIsReadable, h_sel.floatIsWritable, h_sel.strValue, h_sel.strMaxLength, h_sel.strIsReadable, h_sel.strIsWritable, h_sel.boolValue, h_sel.boolIsReadable, h_sel.boolIsWritable, h_sel.enumCurrentValue, h_sel.enumCurrentEntry, h_sel.enumIsReadable, h_sel.enumIsWritable, h_sel.intSet, h_sel.floatSet, h_sel.strSet, h_sel.boolSet, h_sel.enumSetByValue]
  ag_auto hA [pIndexSelReadable_ag, pIndexIndex_ag, slotOrNodeIsReadable_ag, nidIsReadable_ag]

theorem pIndexIsWritable_ag (hA : ∀ p, P p → AgreeAt r1 r2 p) {sel : NodeId} {es : List (Int × ImmOrPNode SlotId)} {d : ImmOrPNode SlotId} (hP : ∀ p, p = sel ∨ (∃ j, (j, ImmOrPNode.pnode p) ∈ es) ∨ ImmOrPNode.Ref d p → P p) :
    pIndexIsWritable cx r1 sel es d = pIndexIsWritable cx r2 sel es d := by
  have h_sel := hA sel (hP sel (by simp))
  unfold pIndexIsWritable
  try simp only [h_sel.intValue, h_sel.intMin, h_sel.intMax, h_sel.intInc, h_sel.intIsReadable, h_sel.intIsWritable, h_sel.floatValue, h_sel.floatMin, h_sel.floatMax, h_sel.floatInc, h_sel.floatIsReadable, h_sel.floatIsWritable, h_sel.strValue, h_sel.strMaxLength, h_sel.strIsReadable, h_sel.strIsWritable, h_sel.boolValue, h_sel.boolIsReadable, h_sel.boolIsWritable, h_sel.enumCurrentValue, h_sel.enumCurrentEntry, h_sel.enumIsReadable, h_sel.enumIsWritable, h_sel.intSet, h_sel.floatSet, h_sel.strSet, h_sel.boolSet, h_sel.enumSetByValue]
  ag_auto hA [pIndexSelReadable_ag, pIndexIndex_ag, slotOrNodeIsWritable_ag, nidIsWritable_ag]

theorem vkIntValue_ag (hA : ∀ p, P p → AgreeAt r1 r2 p) {vk : ValueKind} (hP : ∀ p, ValueKind.Ref vk p → P p) :
    vkIntValue cx r1 vk = vkIntValue cx r2 vk := by
  unfold vkIntValue
  ag_auto hA [nidIntValue_ag, pIndexIndex_ag, slotOrNodeIntValue_ag]

theorem vkIntSet_ag (hA : ∀ p, P p → AgreeAt r1 r2 p) {vk : ValueKind} {v : Int} (hP : ∀ p, ValueKind.Ref vk p → P p) :
    vkIntSet cx r1 vk v = vkIntSet cx r2 vk v := by
  unfold vkIntSet
  ag_auto hA [pValueIntSet_ag, nidIntSet_ag, copiesIntSet_ag, pIndexIndex_ag, slotOrNodeIntSet_ag]

theorem vkFloatValue_ag (hA : ∀ p, P p → AgreeAt r1 r2 p) {vk : ValueKind} (hP : ∀ p, ValueKind.Ref vk p → P p) :
    vkFloatValue cx r1 vk = vkFloatValue cx r2 vk := by
  unfold vkFloatValue
  ag_auto hA [nidFloatValue_ag, pIndexIndex_ag, slotOrNodeFloatValue_ag]

theorem vkFloatSet_ag (hA : ∀ p, P p → AgreeAt r1 r2 p) {vk : ValueKind} {v : F} (hP : ∀ p, ValueKind.Ref vk p → P p) :
    vkFloatSet cx r1 vk v = vkFloatSet cx r2 vk v := by
  unfold vkFloatSet
  ag_auto hA [pValueFloatSet_ag, nidFloatSet_ag, copiesFloatSet_ag, pIndexIndex_ag, slotOrNodeFloatSet_ag]

theorem vkIsReadable_ag (hA : ∀ p, P p → AgreeAt r1 r2 p) {vk : ValueKind} (hP : ∀ p, ValueKind.Ref vk p → P p) :
    vkIsReadable cx r1 vk = vkIsReadable cx r2 vk := by
  unfold vkIsReadable
  ag_auto hA [nidIsReadable_ag, pIndexIsReadable_ag, pIndexSelReadable_ag, pIndexIndex_ag, slotOrNodeIsReadable_ag]

theorem vkIsWritable_ag (hA : ∀ p, P p → AgreeAt r1 r2 p) {vk : ValueKind} (hP : ∀ p, ValueKind.Ref vk p → P p) :
    vkIsWritable cx r1 vk = vkIsWritable cx r2 vk := by
  unfold vkIsWritable
  ag_auto hA [pValueIsWritable_ag, nidIsWritable_ag, copiesIsWritable_ag, pIndexIsWritable_ag, pIndexSelReadable_ag, pIndexIndex_ag, slotOrNodeIsWritable_ag]

theorem boolFromId_ag (hA : ∀ p, P p → AgreeAt r1 r2 p) {n : NodeId} (hP : ∀ p, p = n → P p) :
    boolFromId cx r1 n = boolFromId cx r2 n := by
  have h_n := hA n (hP n (by simp))
  unfold boolFromId
  try simp only [h_n.intValue, h_n.intMin, h_n.intMax, h_n.intInc, h_n.intIsReadable, h_n.intIsWritable, h_n.floatValue, h_n.floatMin, h_n.floatMax, h_n.floatInc, h_n.floatIsReadable, h_n.floatIsWritable, h_n.strValue, h_n.strMaxLength, h_n.strIsReadable, h_n.strIsWritable, h_n.boolValue, h_n.boolIsReadable, h_n.boolIsWritable, h_n.enumCurrentValue, h_n.enumCurrentEntry, h_n.enumIsReadable, h_n.enumIsWritable, h_n.intSet, h_n.floatSet, h_n.strSet, h_n.boolSet, h_n.enumSetByValue]
  ag_auto hA []

theorem baseIsImplemented_ag (hA : ∀ p, P p → AgreeAt r1 r2 p) {b : Base} (hP : ∀ p, Base.Ref b p → P p) :
    baseIsImplemented cx r1 b = baseIsImplemented cx r2 b := by
  unfold baseIsImplemented
  ag_auto hA [boolFromId_ag]

theorem baseIsAvailable_ag (hA : ∀ p, P p → AgreeAt r1 r2 p) {b : Base} (hP : ∀ p, Base.Ref b p → P p) :
    baseIsAvailable cx r1 b = baseIsAvailable cx r2 b := by
  unfold baseIsAvailable
  ag_auto hA [boolFromId_ag]

theorem baseIsLocked_ag (hA : ∀ p, P p → AgreeAt r1 r2 p) {b : Base} (hP : ∀ p, Base.Ref b p → P p) :
    baseIsLocked cx r1 b = baseIsLocked cx r2 b := by
  unfold baseIsLocked
  ag_auto hA [boolFromId_ag]

theorem baseIsReadable_ag (hA : ∀ p, P p → AgreeAt r1 r2 p) {b : Base} (hP : ∀ p, Base.Ref b p → P p) :
    baseIsReadable cx r1 b = baseIsReadable cx r2 b := by
  unfold baseIsReadable
  ag_auto hA [baseIsImplemented_ag, boolFromId_ag, baseIsAvailable_ag]

theorem baseIsWritable_ag (hA : ∀ p, P p → AgreeAt r1 r2 p) {b : Base} (hP : ∀ p, Base.Ref b p → P p) :
    baseIsWritable cx r1 b = baseIsWritable cx r2 b := by
  unfold baseIsWritable
  ag_auto hA [baseIsImplemented_ag, boolFromId_ag, baseIsAvailable_ag, baseIsLocked_ag]

theorem addrKindValue_ag (hA : ∀ p, P p → AgreeAt r1 r2 p) {k : AddressKind} (hP : ∀ p, AddressKind.Ref k p → P p) :
    addrKindValue cx r1 k = addrKindValue cx r2 k := by
  unfold addrKindValue
  ag_auto hA [immIntValue_ag, nidIntValue_ag]

theorem sumAddrs_ag (hA : ∀ p, P p → AgreeAt r1 r2 p) {ks : List AddressKind} {acc : Int} (hP : ∀ p, (∃ k ∈ ks, AddressKind.Ref k p) → P p) :
    sumAddrs cx r1 ks acc = sumAddrs cx r2 ks acc := by
  induction ks generalizing acc with
  | nil => rfl
  | cons x xs ih =>
    unfold sumAddrs
    ag_auto hA [addrKindValue_ag, immIntValue_ag, nidIntValue_ag]
    all_goals first | exact ih (by ref_tac) | (apply ih; ref_tac)

theorem regAddress_ag (hA : ∀ p, P p → AgreeAt r1 r2 p) {rb : RegBase} (hP : ∀ p, RegBase.Ref rb p → P p) :
    regAddress cx r1 rb = regAddress cx r2 rb := by
  unfold regAddress
  ag_auto hA [sumAddrs_ag, addrKindValue_ag, immIntValue_ag, nidIntValue_ag]

theorem regLength_ag (hA : ∀ p, P p → AgreeAt r1 r2 p) {rb : RegBase} (hP : ∀ p, RegBase.Ref rb p → P p) :
    regLength cx r1 rb = regLength cx r2 rb := by
  unfold regLength
  ag_auto hA [immIntValue_ag, nidIntValue_ag]

theorem withRead_ag {α : Type} (hA : ∀ p, P p → AgreeAt r1 r2 p) {rb : RegBase} {f : Bytes → Res Err α} (hP : ∀ p, RegBase.Ref rb p → P p) :
    withRead cx r1 rb f = withRead cx r2 rb f := by
  unfold withRead
  ag_auto hA [regLength_ag, immIntValue_ag, nidIntValue_ag, regAddress_ag, sumAddrs_ag, addrKindValue_ag]

theorem writeAndCache_ag (hA : ∀ p, P p → AgreeAt r1 r2 p) {rb : RegBase} {buf : Bytes} (hP : ∀ p, RegBase.Ref rb p → P p) :
    writeAndCache cx r1 rb buf = writeAndCache cx r2 rb buf := by
  unfold writeAndCache
  ag_auto hA [regLength_ag, immIntValue_ag, nidIntValue_ag, regAddress_ag, sumAddrs_ag, addrKindValue_ag]

theorem regIsReadable_ag (hA : ∀ p, P p → AgreeAt r1 r2 p) {rb : RegBase} (hP : ∀ p, RegBase.Ref rb p → P p) :
    regIsReadable cx r1 rb = regIsReadable cx r2 rb := by
  unfold regIsReadable
  ag_auto hA [baseIsReadable_ag, baseIsImplemented_ag, boolFromId_ag, baseIsAvailable_ag]

theorem regIsWritable_ag (hA : ∀ p, P p → AgreeAt r1 r2 p) {rb : RegBase} (hP : ∀ p, RegBase.Ref rb p → P p) :
    regIsWritable cx r1 rb = regIsWritable cx r2 rb := by
  unfold regIsWritable
  ag_auto hA [baseIsWritable_ag, baseIsImplemented_ag, boolFromId_ag, baseIsAvailable_ag, baseIsLocked_ag]

theorem regRead_ag (hA : ∀ p, P p → AgreeAt r1 r2 p) {rb : RegBase} {bufLen : Nat} (hP : ∀ p, RegBase.Ref rb p → P p) :
    regRead cx r1 rb bufLen = regRead cx r2 rb bufLen := by
  unfold regRead
  ag_auto hA [regLength_ag, immIntValue_ag, nidIntValue_ag, regAddress_ag, sumAddrs_ag, addrKindValue_ag]

theorem intRegValue_ag (hA : ∀ p, P p → AgreeAt r1 r2 p) {rb : RegBase} {sg : Sign} {en : Endian} (hP : ∀ p, RegBase.Ref rb p → P p) :
    intRegValue cx r1 rb sg en = intRegValue cx r2 rb sg en := by
  unfold intRegValue
  ag_auto hA [withRead_ag, regLength_ag, immIntValue_ag, nidIntValue_ag, regAddress_ag, sumAddrs_ag, addrKindValue_ag]

theorem intRegSet_ag (hA : ∀ p, P p → AgreeAt r1 r2 p) {rb : RegBase} {sg : Sign} {en : Endian} {v : Int} (hP : ∀ p, RegBase.Ref rb p → P p) :
    intRegSet cx r1 rb sg en v = intRegSet cx r2 rb sg en v := by
  unfold intRegSet
  ag_auto hA [regLength_ag, immIntValue_ag, nidIntValue_ag, writeAndCache_ag, regAddress_ag, sumAddrs_ag, addrKindValue_ag]

theorem maskedValue_ag (hA : ∀ p, P p → AgreeAt r1 r2 p) {rb : RegBase} {mk : BitMask} {sg : Sign} {en : Endian} (hP : ∀ p, RegBase.Ref rb p → P p) :
    maskedValue cx r1 rb mk sg en = maskedValue cx r2 rb mk sg en := by
  unfold maskedValue
  ag_auto hA [withRead_ag, regLength_ag, immIntValue_ag, nidIntValue_ag, regAddress_ag, sumAddrs_ag, addrKindValue_ag]

theorem maskedSet_ag (hA : ∀ p, P p → AgreeAt r1 r2 p) {rb : RegBase} {mk : BitMask} {sg : Sign} {en : Endian} {v : Int} (hP : ∀ p, RegBase.Ref rb p → P p) :
    maskedSet cx r1 rb mk sg en v = maskedSet cx r2 rb mk sg en v := by
  unfold maskedSet
  ag_auto hA [withRead_ag, regLength_ag, immIntValue_ag, nidIntValue_ag, regAddress_ag, sumAddrs_ag, addrKindValue_ag, writeAndCache_ag]

theorem maskedMin_ag (hA : ∀ p, P p → AgreeAt r1 r2 p) {rb : RegBase} {mk : BitMask} {sg : Sign} {en : Endian} (hP : ∀ p, RegBase.Ref rb p → P p) :
    maskedMin cx r1 rb mk sg en = maskedMin cx r2 rb mk sg en := by
  unfold maskedMin
  ag_auto hA [regLength_ag, immIntValue_ag, nidIntValue_ag]

theorem maskedMax_ag (hA : ∀ p, P p → AgreeAt r1 r2 p) {rb : RegBase} {mk : BitMask} {sg : Sign} {en : Endian} (hP : ∀ p, RegBase.Ref rb p → P p) :
    maskedMax cx r1 rb mk sg en = maskedMax cx r2 rb mk sg en := by
  unfold maskedMax
  ag_auto hA [regLength_ag, immIntValue_ag, nidIntValue_ag]

theorem floatRegValue_ag (hA : ∀ p, P p → AgreeAt r1 r2 p) {rb : RegBase} {en : Endian} (hP : ∀ p, RegBase.Ref rb p → P p) :
    floatRegValue cx r1 rb en = floatRegValue cx r2 rb en := by
  unfold floatRegValue
  ag_auto hA [withRead_ag, regLength_ag, immIntValue_ag, nidIntValue_ag, regAddress_ag, sumAddrs_ag, addrKindValue_ag]

theorem floatRegSet_ag (hA : ∀ p, P p → AgreeAt r1 r2 p) {rb : RegBase} {en : Endian} {v : F} (hP : ∀ p, RegBase.Ref rb p → P p) :
    floatRegSet cx r1 rb en v = floatRegSet cx r2 rb en v := by
  unfold floatRegSet
  ag_auto hA [regLength_ag, immIntValue_ag, nidIntValue_ag, writeAndCache_ag, regAddress_ag, sumAddrs_ag, addrKindValue_ag]

theorem strRegValue_ag (hA : ∀ p, P p → AgreeAt r1 r2 p) {rb : RegBase} (hP : ∀ p, RegBase.Ref rb p → P p) :
    strRegValue cx r1 rb = strRegValue cx r2 rb := by
  unfold strRegValue
  ag_auto hA [withRead_ag, regLength_ag, immIntValue_ag, nidIntValue_ag, regAddress_ag, sumAddrs_ag, addrKindValue_ag]

theorem strRegSet_ag (hA : ∀ p, P p → AgreeAt r1 r2 p) {rb : RegBase} {v : Bytes} (hP : ∀ p, RegBase.Ref rb p → P p) :
    strRegSet cx r1 rb v = strRegSet cx r2 rb v := by
  unfold strRegSet
  ag_auto hA [regLength_ag, immIntValue_ag, nidIntValue_ag, writeAndCache_ag, regAddress_ag, sumAddrs_ag, addrKindValue_ag]

theorem exprFromNid_ag (hA : ∀ p, P p → AgreeAt r1 r2 p) {n : NodeId} (hP : ∀ p, p = n → P p) :
    exprFromNid cx r1 n = exprFromNid cx r2 n := by
  have h_n := hA n (hP n (by simp))
  unfold exprFromNid
  try simp only [h_n.intValue, h_n.intMin, h_n.intMax, h_n.intInc, h_n.intIsReadable, h_n.intIsWritable, h_n.floatValue, h_n.floatMin, h_n.floatMax, h_n.floatInc, h_n.floatIsReadable, h_n.floatIsWritable, h_n.strValue, h_n.strMaxLength, h_n.strIsReadable, h_n.strIsWritable, h_n.boolValue, h_n.boolIsReadable, h_n.boolIsWritable, h_n.enumCurrentValue, h_n.enumCurrentEntry, h_n.enumIsReadable, h_n.enumIsWritable, h_n.intSet, h_n.floatSet, h_n.strSet, h_n.boolSet, h_n.enumSetByValue]
  ag_auto hA []

theorem varGetValue_ag (hA : ∀ p, P p → AgreeAt r1 r2 p) {k : VarKind} {n : NodeId} (hP : ∀ p, p = n → P p) :
    varGetValue cx r1 k n = varGetValue cx r2 k n := by
  have h_n := hA n (hP n (by simp))
  unfold varGetValue
  try simp only [h_n.intValue, h_n.intMin, h_n.intMax, h_n.intInc, h_n.intIsReadable, h_n.intIsWritable, h_n.floatValue, h_n.floatMin, h_n.floatMax, h_n.floatInc, h_n.floatIsReadable, h_n.floatIsWritable, h_n.strValue, h_n.strMaxLength, h_n.strIsReadable, h_n.strIsWritable, h_n.boolValue, h_n.boolIsReadable, h_n.boolIsWritable, h_n.enumCurrentValue, h_n.enumCurrentEntry, h_n.enumIsReadable, h_n.enumIsWritable, h_n.intSet, h_n.floatSet, h_n.strSet, h_n.boolSet, h_n.enumSetByValue]
  ag_auto hA [exprFromNid_ag]

theorem collectVars_ag (hA : ∀ p, P p → AgreeAt r1 r2 p) {vs : List (String × NodeId)} {env : Env E} (hP : ∀ p, (∃ nm, (nm, p) ∈ vs) → P p) :
    collectVars cx r1 vs env = collectVars cx r2 vs env := by
  induction vs generalizing env with
  | nil => rfl
  | cons x xs ih =>
    unfold collectVars
    ag_auto hA [varGetValue_ag, exprFromNid_ag]
    all_goals first | exact ih (by ref_tac) | (apply ih; ref_tac)

theorem collectEnv_ag (hA : ∀ p, P p → AgreeAt r1 r2 p) {fm : Formulaic F E} {env0 : Env E} (hP : ∀ p, Formulaic.Ref fm p → P p) :
    collectEnv cx r1 fm env0 = collectEnv cx r2 fm env0 := by
  unfold collectEnv
  ag_auto hA [collectVars_ag, varGetValue_ag, exprFromNid_ag]

theorem isNidReadable_ag (hA : ∀ p, P p → AgreeAt r1 r2 p) {n : NodeId} (hP : ∀ p, p = n → P p) :
    isNidReadable cx r1 n = isNidReadable cx r2 n := by
  have h_n := hA n (hP n (by simp))
  unfold isNidReadable
  try simp only [h_n.intValue, h_n.intMin, h_n.intMax, h_n.intInc, h_n.intIsReadable, h_n.intIsWritable, h_n.floatValue, h_n.floatMin, h_n.floatMax, h_n.floatInc, h_n.floatIsReadable, h_n.floatIsWritable, h_n.strValue, h_n.strMaxLength, h_n.strIsReadable, h_n.strIsWritable, h_n.boolValue, h_n.boolIsReadable, h_n.boolIsWritable, h_n.enumCurrentValue, h_n.enumCurrentEntry, h_n.enumIsReadable, h_n.enumIsWritable, h_n.intSet, h_n.floatSet, h_n.strSet, h_n.boolSet, h_n.enumSetByValue]
  ag_auto hA []

theorem isNidWritable_ag (hA : ∀ p, P p → AgreeAt r1 r2 p) {n : NodeId} (hP : ∀ p, p = n → P p) :
    isNidWritable cx r1 n = isNidWritable cx r2 n := by
  have h_n := hA n (hP n (by simp))
  unfold isNidWritable
  try simp only [h_n.intValue, h_n.intMin, h_n.intMax, h_n.intInc, h_n.intIsReadable, h_n.intIsWritable, h_n.floatValue, h_n.floatMin, h_n.floatMax, h_n.floatInc, h_n.floatIsReadable, h_n.floatIsWritable, h_n.strValue, h_n.strMaxLength, h_n.strIsReadable, h_n.strIsWritable, h_n.boolValue, h_n.boolIsReadable, h_n.boolIsWritable, h_n.enumCurrentValue, h_n.enumCurrentEntry, h_n.enumIsReadable, h_n.enumIsWritable, h_n.intSet, h_n.floatSet, h_n.strSet, h_n.boolSet, h_n.enumSetByValue]
  ag_auto hA []

theorem varsReadable_ag (hA : ∀ p, P p → AgreeAt r1 r2 p) {vs : List (String × NodeId)} {b : Bool} (hP : ∀ p, (∃ nm, (nm, p) ∈ vs) → P p) :
    GenApi.varsReadable cx r1 vs b = GenApi.varsReadable cx r2 vs b := by
  induction vs generalizing b with
  | nil => rfl
  | cons x xs ih =>
    unfold GenApi.varsReadable
    ag_auto hA [isNidReadable_ag]
    all_goals first | exact ih (by ref_tac) | (apply ih; ref_tac)

theorem setEvalResult_ag (hA : ∀ p, P p → AgreeAt r1 r2 p) {n : NodeId} {res : EvalResult F} (hP : ∀ p, p = n → P p) :
    setEvalResult cx r1 n res = setEvalResult cx r2 n res := by
  have h_n := hA n (hP n (by simp))
  unfold setEvalResult
  try simp only [h_n.intValue, h_n.intMin, h_n.intMax, h_n.intInc, h_n.intIsReadable, h_n.intIsWritable, h_n.floatValue, h_n.floatMin, h_n.floatMax, h_n.floatInc, h_n.floatIsReadable, h_n.floatIsWritable, h_n.strValue, h_n.strMaxLength, h_n.strIsReadable, h_n.strIsWritable, h_n.boolValue, h_n.boolIsReadable, h_n.boolIsWritable, h_n.enumCurrentValue, h_n.enumCurrentEntry, h_n.enumIsReadable, h_n.enumIsWritable, h_n.intSet, h_n.floatSet, h_n.strSet, h_n.boolSet, h_n.enumSetByValue]
  ag_auto hA []

theorem converterEvalFrom_ag (hA : ∀ p, P p → AgreeAt r1 r2 p) {fm : Formulaic F E} {ff : E} {pv : NodeId} (hP : ∀ p, Formulaic.Ref fm p ∨ p = pv → P p) :
    converterEvalFrom cx r1 fm ff pv = converterEvalFrom cx r2 fm ff pv := by
  have h_pv := hA pv (hP pv (by simp))
  unfold converterEvalFrom
  try simp only [h_pv.intValue, h_pv.intMin, h_pv.intMax, h_pv.intInc, h_pv.intIsReadable, h_pv.intIsWritable, h_pv.floatValue, h_pv.floatMin, h_pv.floatMax, h_pv.floatInc, h_pv.floatIsReadable, h_pv.floatIsWritable, h_pv.strValue, h_pv.strMaxLength, h_pv.strIsReadable, h_pv.strIsWritable, h_pv.boolValue, h_pv.boolIsReadable, h_pv.boolIsWritable, h_pv.enumCurrentValue, h_pv.enumCurrentEntry, h_pv.enumIsReadable, h_pv.enumIsWritable, h_pv.intSet, h_pv.floatSet, h_pv.strSet, h_pv.boolSet, h_pv.enumSetByValue]
  ag_auto hA [exprFromNid_ag, collectEnv_ag, collectVars_ag, varGetValue_ag]

theorem converterSet_ag (hA : ∀ p, P p → AgreeAt r1 r2 p) {fm : Formulaic F E} {ft : E} {pv : NodeId} {fr : E} (hP : ∀ p, Formulaic.Ref fm p ∨ p = pv → P p) :
    converterSet cx r1 fm ft pv fr = converterSet cx r2 fm ft pv fr := by
  have h_pv := hA pv (hP pv (by simp))
  unfold converterSet
  try simp only [h_pv.intValue, h_pv.intMin, h_pv.intMax, h_pv.intInc, h_pv.intIsReadable, h_pv.intIsWritable, h_pv.floatValue, h_pv.floatMin, h_pv.floatMax, h_pv.floatInc, h_pv.floatIsReadable, h_pv.floatIsWritable, h_pv.strValue, h_pv.strMaxLength, h_pv.strIsReadable, h_pv.strIsWritable, h_pv.boolValue, h_pv.boolIsReadable, h_pv.boolIsWritable, h_pv.enumCurrentValue, h_pv.enumCurrentEntry, h_pv.enumIsReadable, h_pv.enumIsWritable, h_pv.intSet, h_pv.floatSet, h_pv.strSet, h_pv.boolSet, h_pv.enumSetByValue]
  ag_auto hA [collectEnv_ag, collectVars_ag, varGetValue_ag, exprFromNid_ag, setEvalResult_ag]

theorem swissKnifeEval_ag (hA : ∀ p, P p → AgreeAt r1 r2 p) {fm : Formulaic F E} {f : E} (hP : ∀ p, Formulaic.Ref fm p → P p) :
    swissKnifeEval cx r1 fm f = swissKnifeEval cx r2 fm f := by
  unfold swissKnifeEval
  ag_auto hA [collectEnv_ag, collectVars_ag, varGetValue_ag, exprFromNid_ag]

theorem converterIsReadable_ag (hA : ∀ p, P p → AgreeAt r1 r2 p) {b : Base} {fm : Formulaic F E} {pv : NodeId} (hP : ∀ p, Base.Ref b p ∨ Formulaic.Ref fm p ∨ p = pv → P p) :
    converterIsReadable cx r1 b fm pv = converterIsReadable cx r2 b fm pv := by
  have h_pv := hA pv (hP pv (by simp))
  unfold converterIsReadable
  try simp only [h_pv.intValue, h_pv.intMin, h_pv.intMax, h_pv.intInc, h_pv.intIsReadable, h_pv.intIsWritable, h_pv.floatValue, h_pv.floatMin, h_pv.floatMax, h_pv.floatInc, h_pv.floatIsReadable, h_pv.floatIsWritable, h_pv.strValue, h_pv.strMaxLength, h_pv.strIsReadable, h_pv.strIsWritable, h_pv.boolValue, h_pv.boolIsReadable, h_pv.boolIsWritable, h_pv.enumCurrentValue, h_pv.enumCurrentEntry, h_pv.enumIsReadable, h_pv.enumIsWritable, h_pv.intSet, h_pv.floatSet, h_pv.strSet, h_pv.boolSet, h_pv.enumSetByValue]
  ag_auto hA [baseIsReadable_ag, baseIsImplemented_ag, boolFromId_ag, baseIsAvailable_ag, isNidReadable_ag, varsReadable_ag]

theorem converterIsWritable_ag (hA : ∀ p, P p → AgreeAt r1 r2 p) {b : Base} {fm : Formulaic F E} {pv : NodeId} (hP : ∀ p, Base.Ref b p ∨ Formulaic.Ref fm p ∨ p = pv → P p) :
    converterIsWritable cx r1 b fm pv = converterIsWritable cx r2 b fm pv := by
  have h_pv := hA pv (hP pv (by simp))
  unfold converterIsWritable
  try simp only [h_pv.intValue, h_pv.intMin, h_pv.intMax, h_pv.intInc, h_pv.intIsReadable, h_pv.intIsWritable, h_pv.floatValue, h_pv.floatMin, h_pv.floatMax, h_pv.floatInc, h_pv.floatIsReadable, h_pv.floatIsWritable, h_pv.strValue, h_pv.strMaxLength, h_pv.strIsReadable, h_pv.strIsWritable, h_pv.boolValue, h_pv.boolIsReadable, h_pv.boolIsWritable, h_pv.enumCurrentValue, h_pv.enumCurrentEntry, h_pv.enumIsReadable, h_pv.enumIsWritable, h_pv.intSet, h_pv.floatSet, h_pv.strSet, h_pv.boolSet, h_pv.enumSetByValue]
  ag_auto hA [baseIsWritable_ag, baseIsImplemented_ag, boolFromId_ag, baseIsAvailable_ag, baseIsLocked_ag, isNidWritable_ag, varsReadable_ag, isNidReadable_ag]

theorem swissKnifeIsReadable_ag (hA : ∀ p, P p → AgreeAt r1 r2 p) {b : Base} {fm : Formulaic F E} (hP : ∀ p, Base.Ref b p ∨ Formulaic.Ref fm p → P p) :
    swissKnifeIsReadable cx r1 b fm = swissKnifeIsReadable cx r2 b fm := by
  unfold swissKnifeIsReadable
  ag_auto hA [baseIsReadable_ag, baseIsImplemented_ag, boolFromId_ag, baseIsAvailable_ag, varsReadable_ag, isNidReadable_ag]

theorem enumCurrentEntryOf_ag (hA : ∀ p, P p → AgreeAt r1 r2 p) {es : List NodeId} {value : ImmOrPNode SlotId} (hP : ∀ p, ImmOrPNode.Ref value p → P p) :
    enumCurrentEntryOf cx r1 es value = enumCurrentEntryOf cx r2 es value := by
  unfold enumCurrentEntryOf
  ag_auto hA [slotOrNodeIntValue_ag, nidIntValue_ag]

theorem enumSetByValueOf_ag (hA : ∀ p, P p → AgreeAt r1 r2 p) {es : List NodeId} {value : ImmOrPNode SlotId} {v : Int} (hP : ∀ p, ImmOrPNode.Ref value p → P p) :
    enumSetByValueOf cx r1 es value v = enumSetByValueOf cx r2 es value v := by
  unfold enumSetByValueOf
  ag_auto hA [slotOrNodeIntSet_ag, nidIntSet_ag]

theorem boolValueOf_ag (hA : ∀ p, P p → AgreeAt r1 r2 p) {value : ImmOrPNode SlotId} {onV : Int} {offV : Int} (hP : ∀ p, ImmOrPNode.Ref value p → P p) :
    boolValueOf cx r1 value onV offV = boolValueOf cx r2 value onV offV := by
  unfold boolValueOf
  ag_auto hA [slotOrNodeIntValue_ag, nidIntValue_ag]

theorem commandExecute_ag (hA : ∀ p, P p → AgreeAt r1 r2 p) {value : ImmOrPNode SlotId} {cmd : ImmOrPNode SlotId} (hP : ∀ p, ImmOrPNode.Ref value p ∨ ImmOrPNode.Ref cmd p → P p) :
    commandExecute cx r1 value cmd = commandExecute cx r2 value cmd := by
  unfold commandExecute
  ag_auto hA [slotOrNodeIntValue_ag, nidIntValue_ag, slotOrNodeIntSet_ag, nidIntSet_ag]

theorem commandIsDone_ag (hA : ∀ p, P p → AgreeAt r1 r2 p) {value : ImmOrPNode SlotId} {cmd : ImmOrPNode SlotId} (hP : ∀ p, ImmOrPNode.Ref value p ∨ ImmOrPNode.Ref cmd p → P p) :
    commandIsDone cx r1 value cmd = commandIsDone cx r2 value cmd := by
  unfold commandIsDone
  ag_auto hA [nidIsReadable_ag, slotOrNodeIntValue_ag, nidIntValue_ag]

theorem intValueF_ag (hA : ∀ p, P p → AgreeAt r1 r2 p) {n : NodeId} (hP : ∀ p, NodeRef cx n p → P p) :
    intValueF cx r1 n = intValueF cx r2 n := by
  unfold intValueF
  ag_auto hA [vkIntValue_ag, intRegValue_ag, maskedValue_ag, converterEvalFrom_ag, swissKnifeEval_ag]

theorem intSetF_ag (hA : ∀ p, P p → AgreeAt r1 r2 p) {n : NodeId} {v : Int} (hP : ∀ p, NodeRef cx n p → P p) :
    intSetF cx r1 n v = intSetF cx r2 n v := by
  unfold intSetF
  ag_auto hA [vkIntSet_ag, intRegSet_ag, maskedSet_ag, converterSet_ag]

theorem intMinF_ag (hA : ∀ p, P p → AgreeAt r1 r2 p) {n : NodeId} (hP : ∀ p, NodeRef cx n p → P p) :
    intMinF cx r1 n = intMinF cx r2 n := by
  unfold intMinF
  ag_auto hA [slotOrNodeIntValue_ag, maskedMin_ag, swissKnifeEval_ag]

theorem intMaxF_ag (hA : ∀ p, P p → AgreeAt r1 r2 p) {n : NodeId} (hP : ∀ p, NodeRef cx n p → P p) :
    intMaxF cx r1 n = intMaxF cx r2 n := by
  unfold intMaxF
  ag_auto hA [slotOrNodeIntValue_ag, maskedMax_ag, swissKnifeEval_ag]

theorem intIncF_ag (hA : ∀ p, P p → AgreeAt r1 r2 p) {n : NodeId} (hP : ∀ p, NodeRef cx n p → P p) :
    intIncF cx r1 n = intIncF cx r2 n := by
  unfold intIncF
  ag_auto hA [immIntValue_ag]

theorem intSetMinF_ag (hA : ∀ p, P p → AgreeAt r1 r2 p) {n : NodeId} {v : Int} (hP : ∀ p, NodeRef cx n p → P p) :
    intSetMinF cx r1 n v = intSetMinF cx r2 n v := by
  unfold intSetMinF
  ag_auto hA [slotOrNodeIntSet_ag]

theorem intSetMaxF_ag (hA : ∀ p, P p → AgreeAt r1 r2 p) {n : NodeId} {v : Int} (hP : ∀ p, NodeRef cx n p → P p) :
    intSetMaxF cx r1 n v = intSetMaxF cx r2 n v := by
  unfold intSetMaxF
  ag_auto hA [slotOrNodeIntSet_ag]

theorem intIsReadableF_ag (hA : ∀ p, P p → AgreeAt r1 r2 p) {n : NodeId} (hP : ∀ p, NodeRef cx n p → P p) :
    intIsReadableF cx r1 n = intIsReadableF cx r2 n := by
  unfold intIsReadableF
  ag_auto hA [baseIsReadable_ag, vkIsReadable_ag, regIsReadable_ag, converterIsReadable_ag, swissKnifeIsReadable_ag]

theorem intIsWritableF_ag (hA : ∀ p, P p → AgreeAt r1 r2 p) {n : NodeId} (hP : ∀ p, NodeRef cx n p → P p) :
    intIsWritableF cx r1 n = intIsWritableF cx r2 n := by
  unfold intIsWritableF
  ag_auto hA [baseIsWritable_ag, vkIsWritable_ag, regIsWritable_ag, converterIsWritable_ag]

theorem floatValueF_ag (hA : ∀ p, P p → AgreeAt r1 r2 p) {n : NodeId} (hP : ∀ p, NodeRef cx n p → P p) :
    floatValueF cx r1 n = floatValueF cx r2 n := by
  unfold floatValueF
  ag_auto hA [vkFloatValue_ag, floatRegValue_ag, converterEvalFrom_ag, swissKnifeEval_ag]

theorem floatSetF_ag (hA : ∀ p, P p → AgreeAt r1 r2 p) {n : NodeId} {v : F} (hP : ∀ p, NodeRef cx n p → P p) :
    floatSetF cx r1 n v = floatSetF cx r2 n v := by
  unfold floatSetF
  ag_auto hA [vkFloatSet_ag, floatRegSet_ag, converterSet_ag]

theorem floatMinF_ag (hA : ∀ p, P p → AgreeAt r1 r2 p) {n : NodeId} (hP : ∀ p, NodeRef cx n p → P p) :
    floatMinF cx r1 n = floatMinF cx r2 n := by
  unfold floatMinF
  ag_auto hA [slotOrNodeFloatValue_ag, swissKnifeEval_ag]

theorem floatMaxF_ag (hA : ∀ p, P p → AgreeAt r1 r2 p) {n : NodeId} (hP : ∀ p, NodeRef cx n p → P p) :
    floatMaxF cx r1 n = floatMaxF cx r2 n := by
  unfold floatMaxF
  ag_auto hA [slotOrNodeFloatValue_ag, swissKnifeEval_ag]

theorem floatIncF_ag (hA : ∀ p, P p → AgreeAt r1 r2 p) {n : NodeId} (hP : ∀ p, NodeRef cx n p → P p) :
    floatIncF cx r1 n = floatIncF cx r2 n := by
  unfold floatIncF
  ag_auto hA [immFloatValue_ag]

theorem floatSetMinF_ag (hA : ∀ p, P p → AgreeAt r1 r2 p) {n : NodeId} {v : F} (hP : ∀ p, NodeRef cx n p → P p) :
    floatSetMinF cx r1 n v = floatSetMinF cx r2 n v := by
  unfold floatSetMinF
  ag_auto hA [slotOrNodeFloatSet_ag]

theorem floatSetMaxF_ag (hA : ∀ p, P p → AgreeAt r1 r2 p) {n : NodeId} {v : F} (hP : ∀ p, NodeRef cx n p → P p) :
    floatSetMaxF cx r1 n v = floatSetMaxF cx r2 n v := by
  unfold floatSetMaxF
  ag_auto hA [slotOrNodeFloatSet_ag]

theorem floatIsReadableF_ag (hA : ∀ p, P p → AgreeAt r1 r2 p) {n : NodeId} (hP : ∀ p, NodeRef cx n p → P p) :
    floatIsReadableF cx r1 n = floatIsReadableF cx r2 n := by
  unfold floatIsReadableF
  ag_auto hA [baseIsReadable_ag, vkIsReadable_ag, regIsReadable_ag, converterIsReadable_ag, swissKnifeIsReadable_ag]

theorem floatIsWritableF_ag (hA : ∀ p, P p → AgreeAt r1 r2 p) {n : NodeId} (hP : ∀ p, NodeRef cx n p → P p) :
    floatIsWritableF cx r1 n = floatIsWritableF cx r2 n := by
  unfold floatIsWritableF
  ag_auto hA [baseIsWritable_ag, vkIsWritable_ag, regIsWritable_ag, converterIsWritable_ag]

theorem strValueF_ag (hA : ∀ p, P p → AgreeAt r1 r2 p) {n : NodeId} (hP : ∀ p, NodeRef cx n p → P p) :
    strValueF cx r1 n = strValueF cx r2 n := by
  unfold strValueF
  ag_auto hA [slotOrNodeStrValue_ag, strRegValue_ag]

theorem strSetF_ag (hA : ∀ p, P p → AgreeAt r1 r2 p) {n : NodeId} {v : Bytes} (hP : ∀ p, NodeRef cx n p → P p) :
    strSetF cx r1 n v = strSetF cx r2 n v := by
  unfold strSetF
  ag_auto hA [slotOrNodeStrSet_ag, strRegSet_ag]

theorem strMaxLengthF_ag (hA : ∀ p, P p → AgreeAt r1 r2 p) {n : NodeId} (hP : ∀ p, NodeRef cx n p → P p) :
    strMaxLengthF cx r1 n = strMaxLengthF cx r2 n := by
  unfold strMaxLengthF
  split
  · split
    · rfl
    · rename_i q _
      have hq := hA q (hP q ⟨_, by assumption, by simp [Node.Ref, ImmOrPNode.Ref]⟩)
      rw [hq.strMaxLength]
  · exact regLength_ag hA (by ref_tac)
  · rfl

theorem strIsReadableF_ag (hA : ∀ p, P p → AgreeAt r1 r2 p) {n : NodeId} (hP : ∀ p, NodeRef cx n p → P p) :
    strIsReadableF cx r1 n = strIsReadableF cx r2 n := by
  unfold strIsReadableF
  ag_auto hA [baseIsReadable_ag, slotOrNodeStrIsReadable_ag, regIsReadable_ag]

theorem strIsWritableF_ag (hA : ∀ p, P p → AgreeAt r1 r2 p) {n : NodeId} (hP : ∀ p, NodeRef cx n p → P p) :
    strIsWritableF cx r1 n = strIsWritableF cx r2 n := by
  unfold strIsWritableF
  ag_auto hA [baseIsWritable_ag, slotOrNodeStrIsWritable_ag, regIsWritable_ag]

theorem boolValueF_ag (hA : ∀ p, P p → AgreeAt r1 r2 p) {n : NodeId} (hP : ∀ p, NodeRef cx n p → P p) :
    boolValueF cx r1 n = boolValueF cx r2 n := by
  unfold boolValueF
  ag_auto hA [boolValueOf_ag]

theorem boolSetF_ag (hA : ∀ p, P p → AgreeAt r1 r2 p) {n : NodeId} {v : Bool} (hP : ∀ p, NodeRef cx n p → P p) :
    boolSetF cx r1 n v = boolSetF cx r2 n v := by
  unfold boolSetF
  ag_auto hA [slotOrNodeIntSet_ag]

theorem boolIsReadableF_ag (hA : ∀ p, P p → AgreeAt r1 r2 p) {n : NodeId} (hP : ∀ p, NodeRef cx n p → P p) :
    boolIsReadableF cx r1 n = boolIsReadableF cx r2 n := by
  unfold boolIsReadableF
  ag_auto hA [baseIsReadable_ag, slotOrNodeIsReadable_ag]

theorem boolIsWritableF_ag (hA : ∀ p, P p → AgreeAt r1 r2 p) {n : NodeId} (hP : ∀ p, NodeRef cx n p → P p) :
    boolIsWritableF cx r1 n = boolIsWritableF cx r2 n := by
  unfold boolIsWritableF
  ag_auto hA [baseIsWritable_ag, slotOrNodeIsWritable_ag]

theorem enumCurrentValueF_ag (hA : ∀ p, P p → AgreeAt r1 r2 p) {n : NodeId} (hP : ∀ p, NodeRef cx n p → P p) :
    enumCurrentValueF cx r1 n = enumCurrentValueF cx r2 n := by
  unfold enumCurrentValueF
  ag_auto hA [slotOrNodeIntValue_ag]

theorem enumCurrentEntryF_ag (hA : ∀ p, P p → AgreeAt r1 r2 p) {n : NodeId} (hP : ∀ p, NodeRef cx n p → P p) :
    enumCurrentEntryF cx r1 n = enumCurrentEntryF cx r2 n := by
  unfold enumCurrentEntryF
  ag_auto hA [enumCurrentEntryOf_ag]

theorem enumSetByValueF_ag (hA : ∀ p, P p → AgreeAt r1 r2 p) {n : NodeId} {v : Int} (hP : ∀ p, NodeRef cx n p → P p) :
    enumSetByValueF cx r1 n v = enumSetByValueF cx r2 n v := by
  unfold enumSetByValueF
  ag_auto hA [enumSetByValueOf_ag]

theorem enumSetByNameF_ag (hA : ∀ p, P p → AgreeAt r1 r2 p) {n : NodeId} {nm : String} (hP : ∀ p, NodeRef cx n p → P p) :
    enumSetByNameF cx r1 n nm = enumSetByNameF cx r2 n nm := by
  unfold enumSetByNameF
  ag_auto hA [enumSetByValueOf_ag]

theorem enumIsReadableF_ag (hA : ∀ p, P p → AgreeAt r1 r2 p) {n : NodeId} (hP : ∀ p, NodeRef cx n p → P p) :
    enumIsReadableF cx r1 n = enumIsReadableF cx r2 n := by
  unfold enumIsReadableF
  ag_auto hA [baseIsReadable_ag, slotOrNodeIsReadable_ag]

theorem enumIsWritableF_ag (hA : ∀ p, P p → AgreeAt r1 r2 p) {n : NodeId} (hP : ∀ p, NodeRef cx n p → P p) :
    enumIsWritableF cx r1 n = enumIsWritableF cx r2 n := by
  unfold enumIsWritableF
  ag_auto hA [baseIsWritable_ag, slotOrNodeIsWritable_ag]

theorem cmdExecuteF_ag (hA : ∀ p, P p → AgreeAt r1 r2 p) {n : NodeId} (hP : ∀ p, NodeRef cx n p → P p) :
    cmdExecuteF cx r1 n = cmdExecuteF cx r2 n := by
  unfold cmdExecuteF
  ag_auto hA [commandExecute_ag]

theorem cmdIsDoneF_ag (hA : ∀ p, P p → AgreeAt r1 r2 p) {n : NodeId} (hP : ∀ p, NodeRef cx n p → P p) :
    cmdIsDoneF cx r1 n = cmdIsDoneF cx r2 n := by
  unfold cmdIsDoneF
  ag_auto hA [commandIsDone_ag]

theorem cmdIsWritableF_ag (hA : ∀ p, P p → AgreeAt r1 r2 p) {n : NodeId} (hP : ∀ p, NodeRef cx n p → P p) :
    cmdIsWritableF cx r1 n = cmdIsWritableF cx r2 n := by
  unfold cmdIsWritableF
  ag_auto hA [baseIsWritable_ag, slotOrNodeIsWritable_ag]

theorem regReadF_ag (hA : ∀ p, P p → AgreeAt r1 r2 p) {n : NodeId} {bufLen : Nat} (hP : ∀ p, NodeRef cx n p → P p) :
    regReadF cx r1 n bufLen = regReadF cx r2 n bufLen := by
  unfold regReadF
  ag_auto hA [regRead_ag]

theorem regWriteF_ag (hA : ∀ p, P p → AgreeAt r1 r2 p) {n : NodeId} {data : Bytes} (hP : ∀ p, NodeRef cx n p → P p) :
    regWriteF cx r1 n data = regWriteF cx r2 n data := by
  unfold regWriteF
  ag_auto hA [writeAndCache_ag]

theorem regAddressF_ag (hA : ∀ p, P p → AgreeAt r1 r2 p) {n : NodeId} (hP : ∀ p, NodeRef cx n p → P p) :
    regAddressF cx r1 n = regAddressF cx r2 n := by
  unfold regAddressF
  ag_auto hA [regAddress_ag]

theorem regLengthF_ag (hA : ∀ p, P p → AgreeAt r1 r2 p) {n : NodeId} (hP : ∀ p, NodeRef cx n p → P p) :
    regLengthF cx r1 n = regLengthF cx r2 n := by
  unfold regLengthF
  ag_auto hA [regLength_ag]

theorem isImplementedF_ag (hA : ∀ p, P p → AgreeAt r1 r2 p) {n : NodeId} (hP : ∀ p, NodeRef cx n p → P p) :
    isImplementedF cx r1 n = isImplementedF cx r2 n := by
  unfold isImplementedF
  ag_auto hA [baseIsImplemented_ag]

theorem isAvailableF_ag (hA : ∀ p, P p → AgreeAt r1 r2 p) {n : NodeId} (hP : ∀ p, NodeRef cx n p → P p) :
    isAvailableF cx r1 n = isAvailableF cx r2 n := by
  unfold isAvailableF
  ag_auto hA [baseIsAvailable_ag]

theorem isLockedF_ag (hA : ∀ p, P p → AgreeAt r1 r2 p) {n : NodeId} (hP : ∀ p, NodeRef cx n p → P p) :
    isLockedF cx r1 n = isLockedF cx r2 n := by
  unfold isLockedF
  ag_auto hA [baseIsLocked_ag]

theorem isReadableF_ag (hA : ∀ p, P p → AgreeAt r1 r2 p) {n : NodeId} (hP : ∀ p, NodeRef cx n p → P p) :
    isReadableF cx r1 n = isReadableF cx r2 n := by
  unfold isReadableF
  ag_auto hA [intIsReadableF_ag, floatIsReadableF_ag, strIsReadableF_ag, boolIsReadableF_ag, enumIsReadableF_ag]

theorem isWritableF_ag (hA : ∀ p, P p → AgreeAt r1 r2 p) {n : NodeId} (hP : ∀ p, NodeRef cx n p → P p) :
    isWritableF cx r1 n = isWritableF cx r2 n := by
  unfold isWritableF
  ag_auto hA [intIsWritableF_ag, floatIsWritableF_ag, strIsWritableF_ag, boolIsWritableF_ag, enumIsWritableF_ag, cmdIsWritableF_ag]

end

/-- **syntactic ⇒ semantic acyclicity** -/
theorem WellRanked.acyclic {cx : Ctx F E} {rank : NodeId → Nat} (hW : WellRanked cx rank) : Acyclic cx rank where
  step n r1 r2 h := by
    have hP : ∀ p, NodeRef cx n p → rank p < rank n := fun p ⟨nd, hg, hr⟩ => hW n nd p hg hr
    constructor
    · exact intValueF_ag (P := fun p => rank p < rank n) h hP
    · exact intMinF_ag (P := fun p => rank p < rank n) h hP
    · exact intMaxF_ag (P := fun p => rank p < rank n) h hP
    · exact intIncF_ag (P := fun p => rank p < rank n) h hP
    · exact intIsReadableF_ag (P := fun p => rank p < rank n) h hP
    · exact intIsWritableF_ag (P := fun p => rank p < rank n) h hP
    · exact floatValueF_ag (P := fun p => rank p < rank n) h hP
    · exact floatMinF_ag (P := fun p => rank p < rank n) h hP
    · exact floatMaxF_ag (P := fun p => rank p < rank n) h hP
    · exact floatIncF_ag (P := fun p => rank p < rank n) h hP
    · exact floatIsReadableF_ag (P := fun p => rank p < rank n) h hP
    · exact floatIsWritableF_ag (P := fun p => rank p < rank n) h hP
    · exact strValueF_ag (P := fun p => rank p < rank n) h hP
    · exact strMaxLengthF_ag (P := fun p => rank p < rank n) h hP
    · exact strIsReadableF_ag (P := fun p => rank p < rank n) h hP
    · exact strIsWritableF_ag (P := fun p => rank p < rank n) h hP
    · exact boolValueF_ag (P := fun p => rank p < rank n) h hP
    · exact boolIsReadableF_ag (P := fun p => rank p < rank n) h hP
    · exact boolIsWritableF_ag (P := fun p => rank p < rank n) h hP
    · exact enumCurrentValueF_ag (P := fun p => rank p < rank n) h hP
    · exact enumCurrentEntryF_ag (P := fun p => rank p < rank n) h hP
    · exact enumIsReadableF_ag (P := fun p => rank p < rank n) h hP
    · exact enumIsWritableF_ag (P := fun p => rank p < rank n) h hP
    · funext v; exact intSetF_ag (P := fun p => rank p < rank n) h hP
    · funext v; exact floatSetF_ag (P := fun p => rank p < rank n) h hP
    · funext v; exact strSetF_ag (P := fun p => rank p < rank n) h hP
    · funext v; exact boolSetF_ag (P := fun p => rank p < rank n) h hP
    · funext v; exact enumSetByValueF_ag (P := fun p => rank p < rank n) h hP
  top req st r1 r2 h := by
    cases req with
    | intValue n =>
      have hP : ∀ p, NodeRef cx n p → rank p < rank n := fun p ⟨nd, hg, hr⟩ => hW n nd p hg hr
      simp only [reqNode] at h
      simp only [top]
      rw [intValueF_ag (P := fun p => rank p < rank n) h hP]
    | intSet n v =>
      have hP : ∀ p, NodeRef cx n p → rank p < rank n := fun p ⟨nd, hg, hr⟩ => hW n nd p hg hr
      simp only [reqNode] at h
      simp only [top]
      rw [intSetF_ag (P := fun p => rank p < rank n) h hP]
    | intMin n =>
      have hP : ∀ p, NodeRef cx n p → rank p < rank n := fun p ⟨nd, hg, hr⟩ => hW n nd p hg hr
      simp only [reqNode] at h
      simp only [top]
      rw [intMinF_ag (P := fun p => rank p < rank n) h hP]
    | intMax n =>
      have hP : ∀ p, NodeRef cx n p → rank p < rank n := fun p ⟨nd, hg, hr⟩ => hW n nd p hg hr
      simp only [reqNode] at h
      simp only [top]
      rw [intMaxF_ag (P := fun p => rank p < rank n) h hP]
    | intInc n =>
      have hP : ∀ p, NodeRef cx n p → rank p < rank n := fun p ⟨nd, hg, hr⟩ => hW n nd p hg hr
      simp only [reqNode] at h
      simp only [top]
      rw [intIncF_ag (P := fun p => rank p < rank n) h hP]
    | intSetMin n v =>
      have hP : ∀ p, NodeRef cx n p → rank p < rank n := fun p ⟨nd, hg, hr⟩ => hW n nd p hg hr
      simp only [reqNode] at h
      simp only [top]
      rw [intSetMinF_ag (P := fun p => rank p < rank n) h hP]
    | intSetMax n v =>
      have hP : ∀ p, NodeRef cx n p → rank p < rank n := fun p ⟨nd, hg, hr⟩ => hW n nd p hg hr
      simp only [reqNode] at h
      simp only [top]
      rw [intSetMaxF_ag (P := fun p => rank p < rank n) h hP]
    | floatValue n =>
      have hP : ∀ p, NodeRef cx n p → rank p < rank n := fun p ⟨nd, hg, hr⟩ => hW n nd p hg hr
      simp only [reqNode] at h
      simp only [top]
      rw [floatValueF_ag (P := fun p => rank p < rank n) h hP]
    | floatSet n v =>
      have hP : ∀ p, NodeRef cx n p → rank p < rank n := fun p ⟨nd, hg, hr⟩ => hW n nd p hg hr
      simp only [reqNode] at h
      simp only [top]
      rw [floatSetF_ag (P := fun p => rank p < rank n) h hP]
    | floatMin n =>
      have hP : ∀ p, NodeRef cx n p → rank p < rank n := fun p ⟨nd, hg, hr⟩ => hW n nd p hg hr
      simp only [reqNode] at h
      simp only [top]
      rw [floatMinF_ag (P := fun p => rank p < rank n) h hP]
    | floatMax n =>
      have hP : ∀ p, NodeRef cx n p → rank p < rank n := fun p ⟨nd, hg, hr⟩ => hW n nd p hg hr
      simp only [reqNode] at h
      simp only [top]
      rw [floatMaxF_ag (P := fun p => rank p < rank n) h hP]
    | floatInc n =>
      have hP : ∀ p, NodeRef cx n p → rank p < rank n := fun p ⟨nd, hg, hr⟩ => hW n nd p hg hr
      simp only [reqNode] at h
      simp only [top]
      rw [floatIncF_ag (P := fun p => rank p < rank n) h hP]
    | floatSetMin n v =>
      have hP : ∀ p, NodeRef cx n p → rank p < rank n := fun p ⟨nd, hg, hr⟩ => hW n nd p hg hr
      simp only [reqNode] at h
      simp only [top]
      rw [floatSetMinF_ag (P := fun p => rank p < rank n) h hP]
    | floatSetMax n v =>
      have hP : ∀ p, NodeRef cx n p → rank p < rank n := fun p ⟨nd, hg, hr⟩ => hW n nd p hg hr
      simp only [reqNode] at h
      simp only [top]
      rw [floatSetMaxF_ag (P := fun p => rank p < rank n) h hP]
    | strValue n =>
      have hP : ∀ p, NodeRef cx n p → rank p < rank n := fun p ⟨nd, hg, hr⟩ => hW n nd p hg hr
      simp only [reqNode] at h
      simp only [top]
      rw [strValueF_ag (P := fun p => rank p < rank n) h hP]
    | strSet n v =>
      have hP : ∀ p, NodeRef cx n p → rank p < rank n := fun p ⟨nd, hg, hr⟩ => hW n nd p hg hr
      simp only [reqNode] at h
      simp only [top]
      rw [strSetF_ag (P := fun p => rank p < rank n) h hP]
    | strMaxLength n =>
      have hP : ∀ p, NodeRef cx n p → rank p < rank n := fun p ⟨nd, hg, hr⟩ => hW n nd p hg hr
      simp only [reqNode] at h
      simp only [top]
      rw [strMaxLengthF_ag (P := fun p => rank p < rank n) h hP]
    | boolValue n =>
      have hP : ∀ p, NodeRef cx n p → rank p < rank n := fun p ⟨nd, hg, hr⟩ => hW n nd p hg hr
      simp only [reqNode] at h
      simp only [top]
      rw [boolValueF_ag (P := fun p => rank p < rank n) h hP]
    | boolSet n v =>
      have hP : ∀ p, NodeRef cx n p → rank p < rank n := fun p ⟨nd, hg, hr⟩ => hW n nd p hg hr
      simp only [reqNode] at h
      simp only [top]
      rw [boolSetF_ag (P := fun p => rank p < rank n) h hP]
    | enumCurrentValue n =>
      have hP : ∀ p, NodeRef cx n p → rank p < rank n := fun p ⟨nd, hg, hr⟩ => hW n nd p hg hr
      simp only [reqNode] at h
      simp only [top]
      rw [enumCurrentValueF_ag (P := fun p => rank p < rank n) h hP]
    | enumCurrentEntry n =>
      have hP : ∀ p, NodeRef cx n p → rank p < rank n := fun p ⟨nd, hg, hr⟩ => hW n nd p hg hr
      simp only [reqNode] at h
      simp only [top]
      rw [enumCurrentEntryF_ag (P := fun p => rank p < rank n) h hP]
    | enumSetByValue n v =>
      have hP : ∀ p, NodeRef cx n p → rank p < rank n := fun p ⟨nd, hg, hr⟩ => hW n nd p hg hr
      simp only [reqNode] at h
      simp only [top]
      rw [enumSetByValueF_ag (P := fun p => rank p < rank n) h hP]
    | enumSetByName n v =>
      have hP : ∀ p, NodeRef cx n p → rank p < rank n := fun p ⟨nd, hg, hr⟩ => hW n nd p hg hr
      simp only [reqNode] at h
      simp only [top]
      rw [enumSetByNameF_ag (P := fun p => rank p < rank n) h hP]
    | enumEntries n => rfl
    | cmdExecute n =>
      have hP : ∀ p, NodeRef cx n p → rank p < rank n := fun p ⟨nd, hg, hr⟩ => hW n nd p hg hr
      simp only [reqNode] at h
      simp only [top]
      rw [cmdExecuteF_ag (P := fun p => rank p < rank n) h hP]
    | cmdIsDone n =>
      have hP : ∀ p, NodeRef cx n p → rank p < rank n := fun p ⟨nd, hg, hr⟩ => hW n nd p hg hr
      simp only [reqNode] at h
      simp only [top]
      rw [cmdIsDoneF_ag (P := fun p => rank p < rank n) h hP]
    | regRead n v =>
      have hP : ∀ p, NodeRef cx n p → rank p < rank n := fun p ⟨nd, hg, hr⟩ => hW n nd p hg hr
      simp only [reqNode] at h
      simp only [top]
      rw [regReadF_ag (P := fun p => rank p < rank n) h hP]
    | regWrite n v =>
      have hP : ∀ p, NodeRef cx n p → rank p < rank n := fun p ⟨nd, hg, hr⟩ => hW n nd p hg hr
      simp only [reqNode] at h
      simp only [top]
      rw [regWriteF_ag (P := fun p => rank p < rank n) h hP]
    | regAddress n =>
      have hP : ∀ p, NodeRef cx n p → rank p < rank n := fun p ⟨nd, hg, hr⟩ => hW n nd p hg hr
      simp only [reqNode] at h
      simp only [top]
      rw [regAddressF_ag (P := fun p => rank p < rank n) h hP]
    | regLength n =>
      have hP : ∀ p, NodeRef cx n p → rank p < rank n := fun p ⟨nd, hg, hr⟩ => hW n nd p hg hr
      simp only [reqNode] at h
      simp only [top]
      rw [regLengthF_ag (P := fun p => rank p < rank n) h hP]
    | isReadable n =>
      have hP : ∀ p, NodeRef cx n p → rank p < rank n := fun p ⟨nd, hg, hr⟩ => hW n nd p hg hr
      simp only [reqNode] at h
      simp only [top]
      rw [isReadableF_ag (P := fun p => rank p < rank n) h hP]
    | isWritable n =>
      have hP : ∀ p, NodeRef cx n p → rank p < rank n := fun p ⟨nd, hg, hr⟩ => hW n nd p hg hr
      simp only [reqNode] at h
      simp only [top]
      rw [isWritableF_ag (P := fun p => rank p < rank n) h hP]
    | isImplemented n =>
      have hP : ∀ p, NodeRef cx n p → rank p < rank n := fun p ⟨nd, hg, hr⟩ => hW n nd p hg hr
      simp only [reqNode] at h
      simp only [top]
      rw [isImplementedF_ag (P := fun p => rank p < rank n) h hP]
    | isAvailable n =>
      have hP : ∀ p, NodeRef cx n p → rank p < rank n := fun p ⟨nd, hg, hr⟩ => hW n nd p hg hr
      simp only [reqNode] at h
      simp only [top]
      rw [isAvailableF_ag (P := fun p => rank p < rank n) h hP]
    | isLocked n =>
      have hP : ∀ p, NodeRef cx n p → rank p < rank n := fun p ⟨nd, hg, hr⟩ => hW n nd p hg hr
      simp only [reqNode] at h
      simp only [top]
      rw [isLockedF_ag (P := fun p => rank p < rank n) h hP]

end CamVerif.C03
