/-
C10 — the region the headline theorems exclude: requests that reach or cross the top of the
64-bit address space (`a + n > 2^64`).  The iterators compute `address += chunk` after every
non-final chunk: with overflow checks (dev profile) that addition panics as soon as the address
of a *later* chunk would be `≥ 2^64`; without (release) it wraps.  These lemmas say exactly when
which of the two happens and what comes out.
-/
import CamVerif.Model.Cmd
namespace CamVerif.C10
open CamVerif CamVerif.Cmd

/-- Partition of the request `[a, a+n)` with chunk addresses taken modulo `2^64` (what a build
without overflow checks produces for a region that wraps). -/
def ReadPartitionW (m : Nat) : Nat → Nat → List ReadMem → Prop
  | _, n, [] => n = 0
  | a, n, c :: cs =>
    c.address = a ∧ 0 < c.readLength ∧ c.readLength ≤ m ∧ c.readLength ≤ n ∧
    (cs ≠ [] → c.readLength = m) ∧
    ReadPartitionW m ((a + c.readLength) % 2 ^ 64) (n - c.readLength) cs

/-- The address computed for a chunk after the first leaves the 64-bit range: the request needs
more than one chunk (`m < n`) and the start of its LAST chunk, `a + m * ((n-1)/m)`, is `≥ 2^64`. -/
def ReadAddrOverflows (m a n : Nat) : Prop := m < n ∧ 2 ^ 64 ≤ a + m * ((n - 1) / m)

instance (m a n : Nat) : Decidable (ReadAddrOverflows m a n) := by
  unfold ReadAddrOverflows; exact inferInstance

private theorem last_start_step {m n : Nat} (hm : 0 < m) (hgt : m < n) :
    m * ((n - 1) / m) = m + m * ((n - m - 1) / m) := by
  have h1 : n - 1 = (n - m - 1) + m := by omega
  rw [h1, Nat.add_div_right _ hm, Nat.mul_succ]
  omega

private theorem last_start_small {m n : Nat} (_hm : 0 < m) (h0 : 0 < n) (hle : n ≤ m) :
    (n - 1) / m = 0 := Nat.div_eq_of_lt (by omega)

/-- Release profile: chunking is total on the whole domain and yields the partition modulo 2^64. -/
theorem read_collect_release (fuel : Nat) (s : ReadMemChunks)
    (hf : s.readLength < fuel) (hm : 0 < s.maximumReadLength)
    (hn : s.readLength ≤ U16_MAX) (ha : s.address < 2 ^ 64) :
    ∃ cs, s.collect Profile.release fuel = .ok cs ∧
      ReadPartitionW s.maximumReadLength s.address s.readLength cs := by
  induction fuel generalizing s with
  | zero => omega
  | succ fuel ih =>
    obtain ⟨a, n, m⟩ := s
    simp only [U16_MAX] at hf hm hn ha ⊢
    by_cases h0 : n = 0
    · subst h0
      exact ⟨[], by simp [ReadMemChunks.collect, ReadMemChunks.next], by simp [ReadPartitionW]⟩
    · by_cases hgt : n > m
      · have hm16 : m % 2 ^ 16 = m := Nat.mod_eq_of_lt (by omega)
        have hm64 : m % 2 ^ 64 = m := Nat.mod_eq_of_lt (by omega)
        have hsub : (subW Profile.release 16 n m : R Nat) = .ok (n - m) := by
          simp only [subW]; rw [if_pos (by omega)]
        have hadd : (addW Profile.release 64 a m : R Nat) = .ok ((a + m) % 2 ^ 64) := by
          simp only [addW, Profile.release]
          by_cases hlt : a + m < 2 ^ 64
          · rw [if_pos hlt, Nat.mod_eq_of_lt hlt]
          · rw [if_neg hlt]; simp
        obtain ⟨cs, hcs, hpart⟩ := ih ⟨(a + m) % 2 ^ 64, n - m, m⟩ (by simp only; omega) hm
          (by simp only [U16_MAX]; omega) (by simp only; exact Nat.mod_lt _ (by decide))
        refine ⟨⟨a, m⟩ :: cs, ?_, ?_⟩
        · simp only [ReadMemChunks.collect, ReadMemChunks.next, if_neg h0, if_pos hgt, hm16, hm64,
            hsub, hadd, Res.bind_ok, Res.pure_eq, bind_pure_comp]
          simp only [Bind.bind, Res.bind]
          rw [hcs]
        · rw [ReadPartitionW]
          refine ⟨rfl, hm, Nat.le_refl _, ?_, fun _ => rfl, hpart⟩
          dsimp only; omega
      · refine ⟨[⟨a, n⟩], ?_, ?_⟩
        · cases fuel with
          | zero => omega
          | succ f =>
            simp [ReadMemChunks.collect, ReadMemChunks.next, if_neg h0, if_neg hgt,
              Bind.bind, Res.bind, Functor.map]
        · rw [ReadPartitionW, ReadPartitionW]
          refine ⟨rfl, ?_, ?_, Nat.le_refl _, by simp, ?_⟩ <;> dsimp only <;> omega

/-- With overflow checks: chunking panics exactly when a later chunk's address overflows. -/
theorem read_collect_checked_panics (p : Profile) (hp : p.overflowChecks = true) (fuel : Nat)
    (s : ReadMemChunks) (hf : s.readLength < fuel) (hm : 0 < s.maximumReadLength)
    (hn : s.readLength ≤ U16_MAX)
    (ho : ReadAddrOverflows s.maximumReadLength s.address s.readLength) :
    s.collect p fuel = .panic := by
  induction fuel generalizing s with
  | zero => omega
  | succ fuel ih =>
    obtain ⟨a, n, m⟩ := s
    simp only [U16_MAX] at hf hm hn ⊢
    obtain ⟨hgt, hov⟩ := ho
    simp only at hgt hov
    have h0 : n ≠ 0 := by omega
    have hm16 : m % 2 ^ 16 = m := Nat.mod_eq_of_lt (by omega)
    have hm64 : m % 2 ^ 64 = m := Nat.mod_eq_of_lt (by omega)
    have hsub : (subW p 16 n m : R Nat) = .ok (n - m) := by
      simp only [subW]; rw [if_pos (by omega)]
    by_cases hlt : a + m < 2 ^ 64
    · -- this step is fine; the overflow is further on
      have hadd : (addW p 64 a m : R Nat) = .ok (a + m) := by
        simp only [addW]; rw [if_pos hlt]
      have hrest : ReadAddrOverflows m (a + m) (n - m) := by
        rw [last_start_step hm hgt] at hov
        refine ⟨?_, by omega⟩
        -- if the rest were a single chunk its start would be a + m < 2^64
        by_cases hle : n - m ≤ m
        · exfalso
          have : (n - m - 1) / m = 0 := last_start_small hm (by omega) hle
          rw [this] at hov; omega
        · omega
      have := ih ⟨a + m, n - m, m⟩ (by simp only; omega) hm (by simp only [U16_MAX]; omega) hrest
      simp only [ReadMemChunks.collect, ReadMemChunks.next, if_neg h0, if_pos hgt, hm16, hm64,
        hsub, hadd, Res.bind_ok, Res.pure_eq, bind_pure_comp]
      simp only [Bind.bind, Res.bind]
      rw [this]
    · have hadd : (addW p 64 a m : R Nat) = .panic := by
        simp only [addW]; rw [if_neg hlt, if_pos hp]
      simp only [ReadMemChunks.collect, ReadMemChunks.next, if_neg h0, if_pos hgt, hm16, hm64,
        hsub, hadd, Res.bind_ok, Res.pure_eq, bind_pure_comp]
      simp [Bind.bind, Res.bind]

/-- The chunk predicates of `Props/C10.lean` are restated here with plain addresses so that this
file does not depend on the property file: `cs` partitions `[a, a+n)`; only the LAST chunk may
end beyond `2^64` (no chunk START does). -/
def ReadPartitionP (m : Nat) : Nat → Nat → List ReadMem → Prop
  | _, n, [] => n = 0
  | a, n, c :: cs =>
    c.address = a ∧ 0 < c.readLength ∧ c.readLength ≤ m ∧ c.readLength ≤ n ∧
    (cs ≠ [] → c.readLength = m) ∧ ReadPartitionP m (a + c.readLength) (n - c.readLength) cs

/-- Any profile: when no later chunk's address overflows, chunking is Ok and is the plain
partition (this generalises the headline theorem from `a + n ≤ 2^64` to "only the last chunk may
reach beyond the top of the address space"). -/
theorem read_collect_no_overflow (p : Profile) (fuel : Nat) (s : ReadMemChunks)
    (hf : s.readLength < fuel) (hm : 0 < s.maximumReadLength)
    (hn : s.readLength ≤ U16_MAX)
    (ho : ¬ ReadAddrOverflows s.maximumReadLength s.address s.readLength) :
    ∃ cs, s.collect p fuel = .ok cs ∧
      ReadPartitionP s.maximumReadLength s.address s.readLength cs := by
  induction fuel generalizing s with
  | zero => omega
  | succ fuel ih =>
    obtain ⟨a, n, m⟩ := s
    simp only [U16_MAX, ReadAddrOverflows] at hf hm hn ho ⊢
    by_cases h0 : n = 0
    · subst h0
      exact ⟨[], by simp [ReadMemChunks.collect, ReadMemChunks.next], by simp [ReadPartitionP]⟩
    · by_cases hgt : n > m
      · have hm16 : m % 2 ^ 16 = m := Nat.mod_eq_of_lt (by omega)
        have hm64 : m % 2 ^ 64 = m := Nat.mod_eq_of_lt (by omega)
        have hlast : a + m * ((n - 1) / m) < 2 ^ 64 := by
          have := fun h => ho ⟨hgt, h⟩
          omega
        rw [last_start_step hm hgt] at hlast
        have hsub : (subW p 16 n m : R Nat) = .ok (n - m) := by
          simp only [subW]; rw [if_pos (by omega)]
        have hadd : (addW p 64 a m : R Nat) = .ok (a + m) := by
          simp only [addW]; rw [if_pos (by omega)]
        obtain ⟨cs, hcs, hpart⟩ := ih ⟨a + m, n - m, m⟩ (by simp only; omega) hm
          (by simp only [U16_MAX]; omega)
          (by simp only [ReadAddrOverflows]; intro ⟨_, h⟩; omega)
        refine ⟨⟨a, m⟩ :: cs, ?_, ?_⟩
        · simp only [ReadMemChunks.collect, ReadMemChunks.next, if_neg h0, if_pos hgt, hm16, hm64,
            hsub, hadd, Res.bind_ok, Res.pure_eq]
          simp only [Bind.bind, Res.bind]
          rw [hcs]
        · rw [ReadPartitionP]
          refine ⟨rfl, hm, Nat.le_refl _, ?_, fun _ => rfl, hpart⟩
          dsimp only; omega
      · refine ⟨[⟨a, n⟩], ?_, ?_⟩
        · cases fuel with
          | zero => omega
          | succ f =>
            simp [ReadMemChunks.collect, ReadMemChunks.next, if_neg h0, if_neg hgt,
              Bind.bind, Res.bind]
        · rw [ReadPartitionP, ReadPartitionP]
          refine ⟨rfl, ?_, ?_, Nat.le_refl _, by simp, ?_⟩ <;> dsimp only <;> omega

/-! ## Writes -/

/-- Write partition with chunk addresses modulo `2^64`. -/
def WritePartitionW (m : Nat) : Nat → Bytes → List WriteMem → Prop
  | _, d, [] => d = []
  | a, d, c :: cs =>
    c.address = a ∧ c.data ≠ [] ∧ c.data.length ≤ m ∧ c.data = d.take c.data.length ∧
    c.dataLen = c.data.length ∧ c.len = c.data.length + 8 ∧
    (cs ≠ [] → c.data.length = m) ∧
    WritePartitionW m ((a + c.data.length) % 2 ^ 64) (d.drop c.data.length) cs

/-- Release profile: write chunking is total for every start address and yields the partition of
the data with addresses modulo 2^64. -/
theorem write_collect_release (fuel : Nat) (s : WriteMemChunks)
    (hf : s.data.length - s.dataIdx < fuel) (hm : 0 < s.maximumDataLen)
    (hidx : s.dataIdx ≤ s.data.length)
    (hn : s.data.length + 8 ≤ U16_MAX) (hmax : s.maximumDataLen < 2 ^ 63)
    (ha : s.address < 2 ^ 64) :
    ∃ cs, s.collect Profile.release fuel = .ok cs ∧
      WritePartitionW s.maximumDataLen s.address (s.data.drop s.dataIdx) cs := by
  induction fuel generalizing s with
  | zero => omega
  | succ fuel ih =>
    obtain ⟨a, d, i, m⟩ := s
    simp only at hf hm hidx hn hmax ha ⊢
    simp only [U16_MAX] at hn
    by_cases h0 : i = d.length
    · subst h0
      exact ⟨[], by simp [WriteMemChunks.collect, WriteMemChunks.next],
        by simp [WritePartitionW]⟩
    · have hadd1 : (addW Profile.release 64 i m : R Nat) = .ok (i + m) := by
        simp only [addW]; rw [if_pos (by omega)]
      by_cases hlt : i + m < d.length
      · have hm64 : m % 2 ^ 64 = m := Nat.mod_eq_of_lt (by omega)
        have hadd2 : (addW Profile.release 64 a m : R Nat) = .ok ((a + m) % 2 ^ 64) := by
          simp only [addW, Profile.release]
          by_cases h : a + m < 2 ^ 64
          · rw [if_pos h, Nat.mod_eq_of_lt h]
          · rw [if_neg h]; simp
        have hlen : ((d.drop i).take m).length = m := by
          simp only [List.length_take, List.length_drop]; omega
        have hnew : WriteMem.newUnwrap a ((d.drop i).take m) =
            .ok ⟨a, (d.drop i).take m, m, m + 8⟩ := by
          simp only [WriteMem.newUnwrap, WriteMem.new, intoScdLen, hlen, U16_MAX]
          rw [if_pos (by omega), if_pos (by omega)]
          rfl
        obtain ⟨cs, hcs, hpart⟩ := ih ⟨(a + m) % 2 ^ 64, d, i + m, m⟩ (by simp only; omega) hm
          (by simp only; omega) (by simp only [U16_MAX]; omega) hmax
          (by simp only; exact Nat.mod_lt _ (by decide))
        refine ⟨⟨a, (d.drop i).take m, m, m + 8⟩ :: cs, ?_, ?_⟩
        · simp only [WriteMemChunks.collect, WriteMemChunks.next, if_neg h0, hadd1, Res.bind_ok,
            if_pos hlt, hnew, hm64, hadd2, Res.pure_eq]
          simp only [Bind.bind, Res.bind]
          rw [hcs]
        · rw [WritePartitionW]
          simp only [hlen]
          refine ⟨trivial, ?_, Nat.le_refl _, trivial, trivial, trivial, fun _ => trivial, ?_⟩
          · intro h
            have := congrArg List.length h
            simp only [hlen, List.length_nil] at this
            omega
          · simpa [List.drop_drop, Nat.add_comm] using hpart
      · have hlen : (d.drop i).length = d.length - i := by simp
        have hnew : WriteMem.newUnwrap a (d.drop i) =
            .ok ⟨a, d.drop i, d.length - i, d.length - i + 8⟩ := by
          simp only [WriteMem.newUnwrap, WriteMem.new, intoScdLen, hlen, U16_MAX]
          rw [if_pos (by omega), if_pos (by omega)]
          rfl
        refine ⟨[⟨a, d.drop i, d.length - i, d.length - i + 8⟩], ?_, ?_⟩
        · cases fuel with
          | zero => omega
          | succ f =>
            simp [WriteMemChunks.collect, WriteMemChunks.next, if_neg h0, hadd1, if_neg hlt, hnew,
              Bind.bind, Res.bind]
        · rw [WritePartitionW, WritePartitionW]
          simp only [hlen]
          refine ⟨trivial, ?_, by omega, ?_, trivial, trivial, by simp, ?_⟩
          · intro h
            have := congrArg List.length h
            simp only [hlen, List.length_nil] at this
            omega
          · rw [← hlen, List.take_length]
          · rw [← hlen, List.drop_length]

/-- The address computed for a write chunk after the first leaves the 64-bit range: more than
one chunk is needed and the start of the last chunk is `≥ 2^64`. -/
def WriteAddrOverflows (m a n : Nat) : Prop := m < n ∧ 2 ^ 64 ≤ a + m * ((n - 1) / m)

instance (m a n : Nat) : Decidable (WriteAddrOverflows m a n) := by
  unfold WriteAddrOverflows; exact inferInstance

/-- With overflow checks, write chunking panics when a later chunk's address overflows. -/
theorem write_collect_checked_panics (p : Profile) (hp : p.overflowChecks = true) (fuel : Nat)
    (s : WriteMemChunks) (hf : s.data.length - s.dataIdx < fuel) (hm : 0 < s.maximumDataLen)
    (hidx : s.dataIdx ≤ s.data.length)
    (hn : s.data.length + 8 ≤ U16_MAX) (hmax : s.maximumDataLen < 2 ^ 63)
    (ho : WriteAddrOverflows s.maximumDataLen s.address (s.data.length - s.dataIdx)) :
    s.collect p fuel = .panic := by
  induction fuel generalizing s with
  | zero => omega
  | succ fuel ih =>
    obtain ⟨a, d, i, m⟩ := s
    simp only at hf hm hidx hn hmax ⊢
    simp only [U16_MAX] at hn
    obtain ⟨hgt, hov⟩ := ho
    simp only at hgt hov
    have h0 : i ≠ d.length := by omega
    have hadd1 : (addW p 64 i m : R Nat) = .ok (i + m) := by
      simp only [addW]; rw [if_pos (by omega)]
    have hlt : i + m < d.length := by omega
    have hm64 : m % 2 ^ 64 = m := Nat.mod_eq_of_lt (by omega)
    have hlen : ((d.drop i).take m).length = m := by
      simp only [List.length_take, List.length_drop]; omega
    have hnew : WriteMem.newUnwrap a ((d.drop i).take m) =
        .ok ⟨a, (d.drop i).take m, m, m + 8⟩ := by
      simp only [WriteMem.newUnwrap, WriteMem.new, intoScdLen, hlen, U16_MAX]
      rw [if_pos (by omega), if_pos (by omega)]
      rfl
    by_cases hfit : a + m < 2 ^ 64
    · have hadd2 : (addW p 64 a m : R Nat) = .ok (a + m) := by
        simp only [addW]; rw [if_pos hfit]
      have hrest : WriteAddrOverflows m (a + m) (d.length - (i + m)) := by
        rw [last_start_step hm hgt] at hov
        have e : d.length - i - m = d.length - (i + m) := by omega
        rw [e] at hov
        refine ⟨?_, by omega⟩
        by_cases hle : d.length - (i + m) ≤ m
        · exfalso
          have : (d.length - (i + m) - 1) / m = 0 := last_start_small hm (by omega) hle
          rw [this] at hov; omega
        · omega
      have := ih ⟨a + m, d, i + m, m⟩ (by simp only; omega) hm (by simp only; omega)
        (by simp only [U16_MAX]; omega) hmax hrest
      simp only [WriteMemChunks.collect, WriteMemChunks.next, if_neg h0, hadd1, Res.bind_ok,
        if_pos hlt, hnew, hm64, hadd2, Res.pure_eq]
      simp only [Bind.bind, Res.bind]
      rw [this]
    · have hadd2 : (addW p 64 a m : R Nat) = .panic := by
        simp only [addW]; rw [if_neg hfit, if_pos hp]
      simp only [WriteMemChunks.collect, WriteMemChunks.next, if_neg h0, hadd1, Res.bind_ok,
        if_pos hlt, hnew, hm64, hadd2, Res.pure_eq]
      simp [Bind.bind, Res.bind]

/-- Plain write partition (addresses not reduced; only the last chunk may end beyond `2^64`). -/
def WritePartitionP (m : Nat) : Nat → Bytes → List WriteMem → Prop
  | _, d, [] => d = []
  | a, d, c :: cs =>
    c.address = a ∧ c.data ≠ [] ∧ c.data.length ≤ m ∧ c.data = d.take c.data.length ∧
    c.dataLen = c.data.length ∧ c.len = c.data.length + 8 ∧
    (cs ≠ [] → c.data.length = m) ∧
    WritePartitionP m (a + c.data.length) (d.drop c.data.length) cs

/-- Any profile: when no later chunk's address overflows, write chunking is Ok and is the plain
partition. -/
theorem write_collect_no_overflow (p : Profile) (fuel : Nat) (s : WriteMemChunks)
    (hf : s.data.length - s.dataIdx < fuel) (hm : 0 < s.maximumDataLen)
    (hidx : s.dataIdx ≤ s.data.length)
    (hn : s.data.length + 8 ≤ U16_MAX) (hmax : s.maximumDataLen < 2 ^ 63)
    (ho : ¬ WriteAddrOverflows s.maximumDataLen s.address (s.data.length - s.dataIdx)) :
    ∃ cs, s.collect p fuel = .ok cs ∧
      WritePartitionP s.maximumDataLen s.address (s.data.drop s.dataIdx) cs := by
  induction fuel generalizing s with
  | zero => omega
  | succ fuel ih =>
    obtain ⟨a, d, i, m⟩ := s
    simp only [WriteAddrOverflows] at hf hm hidx hn hmax ho ⊢
    simp only [U16_MAX] at hn
    by_cases h0 : i = d.length
    · subst h0
      exact ⟨[], by simp [WriteMemChunks.collect, WriteMemChunks.next],
        by simp [WritePartitionP]⟩
    · have hadd1 : (addW p 64 i m : R Nat) = .ok (i + m) := by
        simp only [addW]; rw [if_pos (by omega)]
      by_cases hlt : i + m < d.length
      · have hm64 : m % 2 ^ 64 = m := Nat.mod_eq_of_lt (by omega)
        have hgt : m < d.length - i := by omega
        have hlast : a + m * ((d.length - i - 1) / m) < 2 ^ 64 := by
          have := fun h => ho ⟨hgt, h⟩
          omega
        rw [last_start_step hm hgt] at hlast
        have e : d.length - i - m = d.length - (i + m) := by omega
        rw [e] at hlast
        have hadd2 : (addW p 64 a m : R Nat) = .ok (a + m) := by
          simp only [addW]; rw [if_pos (by omega)]
        have hlen : ((d.drop i).take m).length = m := by
          simp only [List.length_take, List.length_drop]; omega
        have hnew : WriteMem.newUnwrap a ((d.drop i).take m) =
            .ok ⟨a, (d.drop i).take m, m, m + 8⟩ := by
          simp only [WriteMem.newUnwrap, WriteMem.new, intoScdLen, hlen, U16_MAX]
          rw [if_pos (by omega), if_pos (by omega)]
          rfl
        obtain ⟨cs, hcs, hpart⟩ := ih ⟨a + m, d, i + m, m⟩ (by simp only; omega) hm
          (by simp only; omega) (by simp only [U16_MAX]; omega) hmax
          (by simp only [WriteAddrOverflows]; intro ⟨_, h⟩; omega)
        refine ⟨⟨a, (d.drop i).take m, m, m + 8⟩ :: cs, ?_, ?_⟩
        · simp only [WriteMemChunks.collect, WriteMemChunks.next, if_neg h0, hadd1, Res.bind_ok,
            if_pos hlt, hnew, hm64, hadd2, Res.pure_eq]
          simp only [Bind.bind, Res.bind]
          rw [hcs]
        · rw [WritePartitionP]
          simp only [hlen]
          refine ⟨trivial, ?_, Nat.le_refl _, trivial, trivial, trivial, fun _ => trivial, ?_⟩
          · intro h
            have := congrArg List.length h
            simp only [hlen, List.length_nil] at this
            omega
          · simpa [List.drop_drop, Nat.add_comm] using hpart
      · have hlen : (d.drop i).length = d.length - i := by simp
        have hnew : WriteMem.newUnwrap a (d.drop i) =
            .ok ⟨a, d.drop i, d.length - i, d.length - i + 8⟩ := by
          simp only [WriteMem.newUnwrap, WriteMem.new, intoScdLen, hlen, U16_MAX]
          rw [if_pos (by omega), if_pos (by omega)]
          rfl
        refine ⟨[⟨a, d.drop i, d.length - i, d.length - i + 8⟩], ?_, ?_⟩
        · cases fuel with
          | zero => omega
          | succ f =>
            simp [WriteMemChunks.collect, WriteMemChunks.next, if_neg h0, hadd1, if_neg hlt, hnew,
              Bind.bind, Res.bind]
        · rw [WritePartitionP, WritePartitionP]
          simp only [hlen]
          refine ⟨trivial, ?_, by omega, ?_, trivial, trivial, by simp, ?_⟩
          · intro h
            have := congrArg List.length h
            simp only [hlen, List.length_nil] at this
            omega
          · rw [← hlen, List.take_length]
          · rw [← hlen, List.drop_length]

end CamVerif.C10
