/-
C17 helper lemmas, part 5: the Group-nesting fuel of `pNodeDatas` is irrelevant once it
exceeds the depth of the element.
-/
import CamVerif.Proofs.C17Cursor
namespace CamVerif.XmlParse
set_option linter.unusedSectionVars false
variable {F : Type} [FloatLit F]

theorem depthList_cons (e : Elem) (es : List Elem) :
    Elem.depthList (e :: es) = max e.depth (Elem.depthList es) := by
  simp [Elem.depthList]

theorem depth_node (t : Str) (a : List (Str × Str)) (c : List Elem) :
    (Elem.node t a c).depth = Elem.depthList c + 1 := by
  simp [Elem.depth]

/-- the element `next` finds lies inside the cursor: its children are shallower, the rest is
not deeper -/
theorem skipJunk_depth (cur : Cur) (t : Str) (a : List (Str × Str)) (c : List Elem) (r : Cur)
    (h : skipJunk cur = .node t a c :: r) :
    Elem.depthList c + 1 ≤ Elem.depthList cur ∧ Elem.depthList r ≤ Elem.depthList cur := by
  induction cur with
  | nil => simp [skipJunk] at h
  | cons e es ih =>
    cases e with
    | node t' a' c' =>
      simp only [skipJunk, List.cons.injEq, Elem.node.injEq] at h
      obtain ⟨⟨rfl, rfl, rfl⟩, rfl⟩ := h
      rw [depthList_cons, depth_node]
      omega
    | text s =>
      have := ih (by simpa [skipJunk] using h)
      rw [depthList_cons]; omega
    | comment s =>
      have := ih (by simpa [skipJunk] using h)
      rw [depthList_cons]; omega
    | pi =>
      have := ih (by simpa [skipJunk] using h)
      rw [depthList_cons]; omega

theorem skipJunk_cases (c : Cur) :
    skipJunk c = [] ∨ ∃ t a ch r, skipJunk c = .node t a ch :: r := by
  induction c with
  | nil => left; rfl
  | cons e es ih =>
    cases e with
    | node t a ch => right; exact ⟨t, a, ch, es, rfl⟩
    | text s => simpa [skipJunk] using ih
    | comment s => simpa [skipJunk] using ih
    | pi => simpa [skipJunk] using ih

theorem next_of_nil (c : Cur) (s : St F) (h : skipJunk c = []) :
    (next : P F _) c s = .ok (none, [], s) := by
  simp [next, h]

theorem next_of_node (c : Cur) (s : St F) (t : Str) (a : List (Str × Str)) (ch : List Elem) (r : Cur)
    (h : skipJunk c = .node t a ch :: r) :
    (next : P F _) c s = .ok (some (t, a, ch), r, s) := by
  simp [next, h]

theorem pNodeDatas_fuel (pr : Profile) :
    ∀ (f1 f2 : Nat) (tag : Str) (attrs : List (Str × Str)) (children : List Elem),
      Elem.depthList children < f1 → Elem.depthList children < f2 →
      ∀ st, pNodeDatas (F := F) pr f1 tag attrs children children st =
        pNodeDatas pr f2 tag attrs children children st := by
  intro f1
  induction f1 using Nat.strongRecOn with
  | _ f1 ih =>
    intro f2 tag attrs children h1 h2 st
    cases f1 with
    | zero => omega
    | succ n =>
      cases f2 with
      | zero => omega
      | succ m =>
        -- the Group loop with either fuel
        have hloop : ∀ (k : Nat) (c : Cur) (s : St F), Elem.depthList c ≤ Elem.depthList children →
            pGroupChildren pr n k c s = pGroupChildren pr m k c s := by
          intro k
          induction k with
          | zero => intro c s _; simp [pGroupChildren]
          | succ k ihk =>
            intro c s hc
            rcases skipJunk_cases c with hs | ⟨t, a, ch, r, hs⟩
            · simp [pGroupChildren, P.bind_def, next_of_nil c s hs]
            · obtain ⟨d1, d2⟩ := skipJunk_depth c t a ch r hs
              have e1 := ih n (Nat.lt_succ_self n) m t a ch (by omega) (by omega)
              simp only [pGroupChildren, P.bind_def, next_of_node c s t a ch r hs, Res.bind_ok',
                onChild, e1]
              cases pNodeDatas pr m t a ch ch s with
              | ok x => simp only [Res.bind_ok', ihk r x.2.2 (by omega)]
              | err e => rfl
              | panic => rfl
        simp only [pNodeDatas]
        by_cases hG : tag = cs!"Group"
        · subst hG
          simp
          exact hloop _ _ _ (Nat.le_refl _)
        · simp only [if_neg hG]

end CamVerif.XmlParse
