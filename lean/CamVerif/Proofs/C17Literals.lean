/-
C17 helper lemmas, part 0: literal conversion (`convert_to_int` …) — what the accepted
texts look like (needed for the `ImmOrPNode` sniffing) and the decimal / hexadecimal
renderings that are read back exactly.
-/
import CamVerif.Spec.XmlRender
namespace CamVerif.XmlParse

theorem char_le_iff (a b : Char) : a ≤ b ↔ a.toNat ≤ b.toNat := by
  rw [Char.le_def, UInt32.le_iff_toNat_le]; rfl

/-- a decimal digit is not a letter -/
theorem digitVal10_not_alpha (c : Char) (d : Nat) (h : digitVal 10 c = some d) :
    isAlphabetic c = false := by
  unfold digitVal at h
  simp only [char_le_iff] at h
  have e0 : '0'.toNat = 48 := rfl
  have e9 : '9'.toNat = 57 := rfl
  have ea : 'a'.toNat = 97 := rfl
  have ez : 'z'.toNat = 122 := rfl
  have eA : 'A'.toNat = 65 := rfl
  have eZ : 'Z'.toNat = 90 := rfl
  simp only [e0, e9, ea, ez, eA, eZ] at h
  have huni : ∀ n, n < 170 → uniAlpha n = false := by
    intro n hn
    simp only [uniAlpha, uniAlphaRanges, List.any_cons, List.any_nil, Bool.or_false,
      Bool.or_eq_false_iff, Bool.and_eq_false_iff, decide_eq_false_iff_not]
    omega
  simp only [isAlphabetic, Char.isAlpha, Char.isUpper, Char.isLower, Bool.or_eq_false_iff,
    Bool.and_eq_false_iff, decide_eq_false_iff_not, UInt32.le_iff_toNat_le]
  have hv : c.val.toNat = c.toNat := rfl
  simp only [hv]
  change ((¬ (65 ≤ c.toNat ∧ c.toNat ≤ 90)) ∧ (¬ (97 ≤ c.toNat) ∨ ¬ (c.toNat ≤ 122))) ∧
    uniAlpha c.toNat = false
  by_cases h1 : 48 ≤ c.toNat ∧ c.toNat ≤ 57
  · exact ⟨by omega, huni _ (by omega)⟩
  · by_cases h2 : 97 ≤ c.toNat ∧ c.toNat ≤ 122
    · simp [h1, h2] at h; omega
    · by_cases h3 : 65 ≤ c.toNat ∧ c.toNat ≤ 90
      · simp [h1, h2, h3] at h; omega
      · simp [h1, h2, h3] at h

theorem parseDigits_head (radix : Nat) (c : Char) (r : List Char) (n : Nat)
    (h : parseDigits radix (c :: r) = some n) : ∃ d, digitVal radix c = some d := by
  simp only [parseDigits, parseDigitsAcc] at h
  cases hd : digitVal radix c with
  | none => simp [hd] at h
  | some d => exact ⟨d, rfl⟩

theorem parseI64_10_first (s : Str) (v : Int) (h : parseI64 10 s = some v) :
    firstIsAlphabetic s = .ok false := by
  match s, h with
  | [], h => simp [parseI64] at h
  | c :: r, h =>
    by_cases hp : c = '+'
    · subst hp; rfl
    · by_cases hm : c = '-'
      · subst hm; rfl
      · have : ∃ n, parseDigits 10 (c :: r) = some n := by
          unfold parseI64 at h
          split at h
          · contradiction
          · next h1 => cases h1; exact absurd rfl hp
          · next h1 => cases h1; exact absurd rfl hm
          · cases hd : parseDigits 10 (c :: r) with
            | none => simp [hd] at h
            | some n => exact ⟨n, rfl⟩
        obtain ⟨n, hn⟩ := this
        obtain ⟨d, hd⟩ := parseDigits_head 10 c r n hn
        simp [firstIsAlphabetic, digitVal10_not_alpha c d hd]

/-- a text accepted by `convert_to_int` does not start with a letter: the
`ImmOrPNode<i64>` sniffing takes it as an immediate -/
theorem convertToInt_first (s : Str) (v : Int) (h : convertToInt s = .ok v) :
    firstIsAlphabetic s = .ok false := by
  unfold convertToInt at h
  split at h
  · rfl
  · rfl
  · cases hp : parseI64 10 s with
    | none => simp [hp, ofOpt] at h
    | some w => exact parseI64_10_first s w hp


/-! ### decimal and hexadecimal renderings are read back -/

theorem digitVal_digitChar10 : ∀ d : Fin 10, digitVal 10 (digitChar false d.val) = some d.val := by
  decide

theorem digitVal_digitChar16 :
    ∀ (u : Bool) (d : Fin 16), digitVal 16 (digitChar u d.val) = some d.val := by
  decide

theorem digitChar_plain10 : ∀ d : Fin 10, digitChar false d.val ≠ 'x' ∧ digitChar false d.val ≠ 'X' ∧
    digitChar false d.val ≠ '+' ∧ digitChar false d.val ≠ '-' := by decide

theorem digitChar_plain16 : ∀ (u : Bool) (d : Fin 16), digitChar u d.val ≠ '+' ∧
    digitChar u d.val ≠ '-' := by decide

theorem parseDigitsAcc_append (radix acc : Nat) (a b : List Char) :
    parseDigitsAcc radix acc (a ++ b) =
      match parseDigitsAcc radix acc a with
      | some x => parseDigitsAcc radix x b
      | none => none := by
  induction a generalizing acc with
  | nil => rfl
  | cons c cs ih =>
    simp only [List.cons_append, parseDigitsAcc]
    cases digitVal radix c with
    | none => rfl
    | some d => exact ih _

/-- the digit characters of a rendering: all below the radix -/
def IsDigitOf (radix : Nat) (upper : Bool) (c : Char) : Prop := ∃ d, d < radix ∧ c = digitChar upper d

theorem natDigits_spec (radix : Nat) (upper : Bool) (hr : 2 ≤ radix)
    (hd : ∀ d, d < radix → digitVal radix (digitChar upper d) = some d) (n : Nat) :
    parseDigitsAcc radix 0 (natDigits radix upper n) = some n ∧ natDigits radix upper n ≠ [] ∧
      ∀ c ∈ natDigits radix upper n, IsDigitOf radix upper c := by
  induction n using Nat.strongRecOn with
  | _ n ih =>
    rw [natDigits]
    split
    · next h =>
      have hn : n < radix := by omega
      refine ⟨by simp [parseDigitsAcc, hd n hn], by simp, ?_⟩
      intro c hc
      simp at hc
      exact ⟨n, hn, hc⟩
    · next h =>
      have hn : radix ≤ n := by omega
      have hlt : n / radix < n := Nat.div_lt_self (by omega) (by omega)
      obtain ⟨h1, h2, h3⟩ := ih (n / radix) hlt
      have hm : n % radix < radix := Nat.mod_lt _ (by omega)
      refine ⟨?_, by simp, ?_⟩
      · rw [parseDigitsAcc_append, h1]
        simp only [parseDigitsAcc, hd _ hm]
        congr 1
        rw [Nat.mul_comm]
        exact Nat.div_add_mod n radix
      · intro c hc
        rcases List.mem_append.mp hc with hc | hc
        · exact h3 c hc
        · simp at hc
          exact ⟨n % radix, hm, hc⟩

theorem hd10 : ∀ d, d < 10 → digitVal 10 (digitChar false d) = some d :=
  fun d h => digitVal_digitChar10 ⟨d, h⟩

theorem hd16 (u : Bool) : ∀ d, d < 16 → digitVal 16 (digitChar u d) = some d :=
  fun d h => digitVal_digitChar16 u ⟨d, h⟩

theorem parseDigits_natDigits10 (n : Nat) : parseDigits 10 (natDigits 10 false n) = some n := by
  obtain ⟨h1, h2, _⟩ := natDigits_spec 10 false (by omega) hd10 n
  unfold parseDigits
  split
  · next h => exact absurd h h2
  · exact h1

theorem parseDigits_natDigits16 (u : Bool) (n : Nat) :
    parseDigits 16 (natDigits 16 u n) = some n := by
  obtain ⟨h1, h2, _⟩ := natDigits_spec 16 u (by omega) (hd16 u) n
  unfold parseDigits
  split
  · next h => exact absurd h h2
  · exact h1

/-- head of a rendering -/
theorem natDigits_head (radix : Nat) (upper : Bool) (hr : 2 ≤ radix)
    (hd : ∀ d, d < radix → digitVal radix (digitChar upper d) = some d) (n : Nat) :
    ∃ c r, natDigits radix upper n = c :: r ∧ IsDigitOf radix upper c ∧
      ∀ x ∈ r, IsDigitOf radix upper x := by
  obtain ⟨_, h2, h3⟩ := natDigits_spec radix upper hr hd n
  cases hl : natDigits radix upper n with
  | nil => exact absurd hl h2
  | cons c r =>
    rw [hl] at h3
    exact ⟨c, r, rfl, h3 c (by simp), fun x hx => h3 x (by simp [hx])⟩

theorem parseI64_of_digits (radix : Nat) (c : Char) (r : List Char) (hp : c ≠ '+') (hm : c ≠ '-') :
    parseI64 radix (c :: r) = match parseDigits radix (c :: r) with
      | some n => if (n : Int) ≤ I64_MAX then some (n : Int) else none
      | none => none := by
  unfold parseI64
  split
  · contradiction
  · next h => cases h; exact absurd rfl hp
  · next h => cases h; exact absurd rfl hm
  · rfl

theorem parseU64_of_digits (radix : Nat) (c : Char) (r : List Char) (hp : c ≠ '+') :
    parseU64 radix (c :: r) = match parseDigits radix (c :: r) with
      | some n => if n ≤ U64_MAX then some n else none
      | none => none := by
  unfold parseU64
  split
  · contradiction
  · next h => cases h; exact absurd rfl hp
  · rfl

theorem convertToInt_noPrefix (c : Char) (r : List Char) (h : c ≠ '0' ∨ ∀ d t, r = d :: t → d ≠ 'x' ∧ d ≠ 'X') :
    convertToInt (c :: r) = ofOpt (parseI64 10 (c :: r)) := by
  unfold convertToInt
  split
  · next hh =>
    cases hh
    rcases h with h | h
    · exact absurd rfl h
    · exact absurd rfl (h _ _ rfl).1
  · next hh =>
    cases hh
    rcases h with h | h
    · exact absurd rfl h
    · exact absurd rfl (h _ _ rfl).2
  · rfl

theorem convertToUint_noPrefix (c : Char) (r : List Char) (h : c ≠ '0' ∨ ∀ d t, r = d :: t → d ≠ 'x' ∧ d ≠ 'X') :
    convertToUint (c :: r) = ofOpt (parseU64 10 (c :: r)) := by
  unfold convertToUint
  split
  · next hh =>
    cases hh
    rcases h with h | h
    · exact absurd rfl h
    · exact absurd rfl (h _ _ rfl).1
  · next hh =>
    cases hh
    rcases h with h | h
    · exact absurd rfl h
    · exact absurd rfl (h _ _ rfl).2
  · rfl

theorem isDigit10_plain {c : Char} (h : IsDigitOf 10 false c) :
    c ≠ 'x' ∧ c ≠ 'X' ∧ c ≠ '+' ∧ c ≠ '-' := by
  obtain ⟨d, hd, rfl⟩ := h
  exact digitChar_plain10 ⟨d, hd⟩

theorem isDigit16_plain {u : Bool} {c : Char} (h : IsDigitOf 16 u c) : c ≠ '+' ∧ c ≠ '-' := by
  obtain ⟨d, hd, rfl⟩ := h
  exact digitChar_plain16 u ⟨d, hd⟩

/-- unsigned decimal rendering, as `i64` text -/
theorem convertToInt_natDigits (n : Nat) (h : (n : Int) ≤ I64_MAX) :
    convertToInt (natDigits 10 false n) = .ok (n : Int) := by
  obtain ⟨c, r, hl, hc, hr⟩ := natDigits_head 10 false (by omega) hd10 n
  have hp := parseDigits_natDigits10 n
  rw [hl] at hp ⊢
  have hc' := isDigit10_plain hc
  rw [convertToInt_noPrefix c r (Or.inr fun d t ht => by
    have := isDigit10_plain (hr d (by simp [ht])); exact ⟨this.1, this.2.1⟩)]
  rw [parseI64_of_digits 10 c r hc'.2.2.1 hc'.2.2.2, hp]
  simp [h, ofOpt]

theorem convertToUint_natDigits (n : Nat) (h : n ≤ U64_MAX) :
    convertToUint (natDigits 10 false n) = .ok n := by
  obtain ⟨c, r, hl, hc, hr⟩ := natDigits_head 10 false (by omega) hd10 n
  have hp := parseDigits_natDigits10 n
  rw [hl] at hp ⊢
  have hc' := isDigit10_plain hc
  rw [convertToUint_noPrefix c r (Or.inr fun d t ht => by
    have := isDigit10_plain (hr d (by simp [ht])); exact ⟨this.1, this.2.1⟩)]
  rw [parseU64_of_digits 10 c r hc'.2.2.1, hp]
  simp [h, ofOpt]

theorem parseI64_hex (u : Bool) (n : Nat) (h : (n : Int) ≤ I64_MAX) :
    parseI64 16 (natDigits 16 u n) = some (n : Int) := by
  obtain ⟨c, r, hl, hc, _⟩ := natDigits_head 16 u (by omega) (hd16 u) n
  have hp := parseDigits_natDigits16 u n
  rw [hl] at hp ⊢
  have hc' := isDigit16_plain hc
  rw [parseI64_of_digits 16 c r hc'.1 hc'.2, hp]
  simp [h]

theorem parseU64_hex (u : Bool) (n : Nat) (h : n ≤ U64_MAX) :
    parseU64 16 (natDigits 16 u n) = some n := by
  obtain ⟨c, r, hl, hc, _⟩ := natDigits_head 16 u (by omega) (hd16 u) n
  have hp := parseDigits_natDigits16 u n
  rw [hl] at hp ⊢
  have hc' := isDigit16_plain hc
  rw [parseU64_of_digits 16 c r hc'.1, hp]
  simp [h]


/-- every `u64` hexadecimal rendering is read as its 64-bit pattern -/
theorem hexToI64_natDigits (u : Bool) (n : Nat) (h : n ≤ U64_MAX) :
    hexToI64 (natDigits 16 u n) = .ok (wrapI64 n) := by
  unfold hexToI64
  by_cases hi : (n : Int) ≤ I64_MAX
  · rw [parseI64_hex u n hi]
    simp [wrapI64, hi]
  · have hnone : parseI64 16 (natDigits 16 u n) = none := by
      obtain ⟨c, r, hl, hc, _⟩ := natDigits_head 16 u (by omega) (hd16 u) n
      have hp := parseDigits_natDigits16 u n
      rw [hl] at hp ⊢
      have hc' := isDigit16_plain hc
      rw [parseI64_of_digits 16 c r hc'.1 hc'.2, hp]
      simp [hi]
    rw [hnone, parseU64_hex u n h]


/-! ### `+` forms and leading zeros -/

theorem parseDigitsAcc_zeros (radix : Nat) (hr : 0 < radix) (k : Nat) (l : List Char) :
    parseDigitsAcc radix 0 (List.replicate k '0' ++ l) = parseDigitsAcc radix 0 l := by
  induction k with
  | zero => rfl
  | succ k ih =>
    have hd : digitVal radix '0' = some 0 := by
      have : digitVal radix '0' = (if 0 < radix then some 0 else none) := by
        simp [digitVal]
      simp [this, hr]
    simp only [List.replicate_succ, List.cons_append, parseDigitsAcc, hd, Nat.zero_mul, Nat.add_zero]
    exact ih

theorem parseDigits_zeros (radix : Nat) (hr : 0 < radix) (k : Nat) (l : List Char) (n : Nat)
    (h : parseDigits radix l = some n) :
    parseDigits radix (List.replicate k '0' ++ l) = some n := by
  cases l with
  | nil => simp [parseDigits] at h
  | cons c r =>
    have h' : parseDigitsAcc radix 0 (c :: r) = some n := by simpa [parseDigits] using h
    cases k with
    | zero => simpa using h
    | succ k =>
      have := parseDigitsAcc_zeros radix hr (k + 1) (c :: r)
      simp only [parseDigits, List.replicate_succ, List.cons_append] at this ⊢
      rw [this, h']

/-- hexadecimal digits with any number of leading zeros -/
theorem hexToI64_zeros (u : Bool) (k n : Nat) (h : n ≤ U64_MAX) :
    hexToI64 (List.replicate k '0' ++ natDigits 16 u n) = .ok (wrapI64 n) := by
  cases k with
  | zero => simpa using hexToI64_natDigits u n h
  | succ k =>
    have hp := parseDigits_zeros 16 (by omega) (k + 1) _ n (parseDigits_natDigits16 u n)
    simp only [List.replicate_succ, List.cons_append] at hp ⊢
    unfold hexToI64
    rw [parseI64_of_digits 16 '0' _ (by decide) (by decide), hp,
      parseU64_of_digits 16 '0' _ (by decide), hp]
    by_cases hi : (n : Int) ≤ I64_MAX
    · simp [hi, wrapI64]
    · simp [hi, h]

/-- `+` followed by decimal digits -/
theorem convertToInt_plus (n : Nat) (h : (n : Int) ≤ I64_MAX) :
    convertToInt ('+' :: natDigits 10 false n) = .ok (n : Int) := by
  rw [convertToInt_noPrefix '+' _ (Or.inl (by decide))]
  simp [parseI64, parseDigits_natDigits10 n, h, ofOpt]

theorem convertToUint_plus (n : Nat) (h : n ≤ U64_MAX) :
    convertToUint ('+' :: natDigits 10 false n) = .ok n := by
  rw [convertToUint_noPrefix '+' _ (Or.inl (by decide))]
  simp [parseU64, parseDigits_natDigits10 n, h, ofOpt]


/-! ### decimal digits with leading zeros (`010` is ten, `-007` is minus seven) -/

theorem zeros_dec_notPrefix (k n : Nat) :
    ∀ d t, List.replicate k '0' ++ natDigits 10 false n = d :: t → d ≠ 'x' ∧ d ≠ 'X' := by
  intro d t h
  cases k with
  | zero =>
    obtain ⟨c, r, hl, hc, _⟩ := natDigits_head 10 false (by omega) hd10 n
    simp only [List.replicate_zero, List.nil_append, hl, List.cons.injEq] at h
    have := isDigit10_plain hc
    rw [← h.1]; exact ⟨this.1, this.2.1⟩
  | succ k =>
    simp only [List.replicate_succ, List.cons_append, List.cons.injEq] at h
    rw [← h.1]; exact ⟨by decide, by decide⟩

theorem parseDigits_zeros_dec (k n : Nat) :
    parseDigits 10 (List.replicate k '0' ++ natDigits 10 false n) = some n :=
  parseDigits_zeros 10 (by omega) k _ n (parseDigits_natDigits10 n)

theorem convertToInt_zeros_dec (k n : Nat) (h : (n : Int) ≤ I64_MAX) :
    convertToInt (List.replicate k '0' ++ natDigits 10 false n) = .ok (n : Int) := by
  cases k with
  | zero => simpa using convertToInt_natDigits n h
  | succ k =>
    have hp := parseDigits_zeros_dec (k + 1) n
    simp only [List.replicate_succ, List.cons_append] at hp ⊢
    rw [convertToInt_noPrefix '0' _ (Or.inr (zeros_dec_notPrefix k n)),
      parseI64_of_digits 10 '0' _ (by decide) (by decide), hp]
    simp [h, ofOpt]

theorem convertToInt_plus_zeros_dec (k n : Nat) (h : (n : Int) ≤ I64_MAX) :
    convertToInt ('+' :: (List.replicate k '0' ++ natDigits 10 false n)) = .ok (n : Int) := by
  rw [convertToInt_noPrefix '+' _ (Or.inl (by decide))]
  simp [parseI64, parseDigits_zeros_dec k n, h, ofOpt]

theorem convertToInt_minus_zeros_dec (k n : Nat) (h : I64_MIN ≤ -(n : Int)) :
    convertToInt ('-' :: (List.replicate k '0' ++ natDigits 10 false n)) = .ok (-(n : Int)) := by
  rw [convertToInt_noPrefix '-' _ (Or.inl (by decide))]
  simp only [parseI64, parseDigits_zeros_dec k n]
  simp only [I64_MIN] at h ⊢
  simp [h, ofOpt]

theorem convertToUint_zeros_dec (k n : Nat) (h : n ≤ U64_MAX) :
    convertToUint (List.replicate k '0' ++ natDigits 10 false n) = .ok n := by
  cases k with
  | zero => simpa using convertToUint_natDigits n h
  | succ k =>
    have hp := parseDigits_zeros_dec (k + 1) n
    simp only [List.replicate_succ, List.cons_append] at hp ⊢
    rw [convertToUint_noPrefix '0' _ (Or.inr (zeros_dec_notPrefix k n)),
      parseU64_of_digits 10 '0' _ (by decide), hp]
    simp [h, ofOpt]

end CamVerif.XmlParse
