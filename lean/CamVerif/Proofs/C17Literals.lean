/-
C17 helper lemmas, part 0: literal conversion (`convert_to_int` …) — what the accepted
texts look like (needed for the `ImmOrPNode` sniffing) and the decimal / hexadecimal
renderings that are read back exactly.
-/
import CamVerif.Spec.XmlRender
namespace CamVerif.XmlParse

theorem char_le_iff (a b : Char) : a ≤ b ↔ a.toNat ≤ b.toNat := by
  rw [Char.le_def, UInt32.le_iff_toNat_le]; rfl

/-- a decimal digit is not a letter -/
theorem digitVal10_not_alpha (c : Char) (d : Nat) (h : digitVal 10 c = some d) :
    isAlphabetic c = false := by
  unfold digitVal at h
  simp only [char_le_iff] at h
  have e0 : '0'.toNat = 48 := rfl
  have e9 : '9'.toNat = 57 := rfl
  have ea : 'a'.toNat = 97 := rfl
  have ez : 'z'.toNat = 122 := rfl
  have eA : 'A'.toNat = 65 := rfl
  have eZ : 'Z'.toNat = 90 := rfl
  simp only [e0, e9, ea, ez, eA, eZ] at h
  simp only [isAlphabetic, Char.isAlpha, Char.isUpper, Char.isLower, Bool.or_eq_false_iff,
    Bool.and_eq_false_iff, decide_eq_false_iff_not, UInt32.le_iff_toNat_le]
  have hv : c.val.toNat = c.toNat := rfl
  simp only [hv]
  change (¬ (65 ≤ c.toNat ∧ c.toNat ≤ 90)) ∧ (¬ (97 ≤ c.toNat) ∨ ¬ (c.toNat ≤ 122))
  by_cases h1 : 48 ≤ c.toNat ∧ c.toNat ≤ 57
  · omega
  · by_cases h2 : 97 ≤ c.toNat ∧ c.toNat ≤ 122
    · simp [h1, h2] at h; omega
    · by_cases h3 : 65 ≤ c.toNat ∧ c.toNat ≤ 90
      · simp [h1, h2, h3] at h; omega
      · simp [h1, h2, h3] at h

theorem parseDigits_head (radix : Nat) (c : Char) (r : List Char) (n : Nat)
    (h : parseDigits radix (c :: r) = some n) : ∃ d, digitVal radix c = some d := by
  simp only [parseDigits, parseDigitsAcc] at h
  cases hd : digitVal radix c with
  | none => simp [hd] at h
  | some d => exact ⟨d, rfl⟩

theorem parseI64_10_first (s : Str) (v : Int) (h : parseI64 10 s = some v) :
    firstIsAlphabetic s = .ok false := by
  match s, h with
  | [], h => simp [parseI64] at h
  | c :: r, h =>
    by_cases hp : c = '+'
    · subst hp; rfl
    · by_cases hm : c = '-'
      · subst hm; rfl
      · have : ∃ n, parseDigits 10 (c :: r) = some n := by
          unfold parseI64 at h
          split at h
          · contradiction
          · next h1 => cases h1; exact absurd rfl hp
          · next h1 => cases h1; exact absurd rfl hm
          · cases hd : parseDigits 10 (c :: r) with
            | none => simp [hd] at h
            | some n => exact ⟨n, rfl⟩
        obtain ⟨n, hn⟩ := this
        obtain ⟨d, hd⟩ := parseDigits_head 10 c r n hn
        simp [firstIsAlphabetic, digitVal10_not_alpha c d hd]

/-- a text accepted by `convert_to_int` does not start with a letter: the
`ImmOrPNode<i64>` sniffing takes it as an immediate -/
theorem convertToInt_first (s : Str) (v : Int) (h : convertToInt s = .ok v) :
    firstIsAlphabetic s = .ok false := by
  unfold convertToInt at h
  split at h
  · rfl
  · rfl
  · cases hp : parseI64 10 s with
    | none => simp [hp, ofOpt] at h
    | some w => exact parseI64_10_first s w hp

end CamVerif.XmlParse
