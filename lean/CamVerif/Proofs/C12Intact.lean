/-
C12 helper lemmas: every enqueued payload is assembled from exactly `T` consecutive packets of
the device's script (`Seg`), the segment recorded in its ghost fields.
-/
import CamVerif.Proofs.C12
namespace CamVerif.StreamLoop

/-- `m` was assembled from the `T` packets `script[m.start .. m.start+T)`. -/
def FromSegment (P : Params) (script : List Item) (m : OkMsg) : Prop :=
  m.parts.length = P.T ∧ (script.drop m.start).take P.T = m.parts.map Item.data

structure Seg (P : Params) (script : List Item) (s : State) : Prop where
  cur : match s.pc with
    | .obtain | .submit _ => s.got = [] ∧ s.consumed = s.iterStart
    | .poll => s.consumed = s.iterStart + s.got.length ∧
        (script.drop s.iterStart).take s.got.length = s.got.map Item.data ∧
        s.got.length + s.pending.length = P.T
    | .parse => s.consumed = s.iterStart + s.got.length ∧
        (script.drop s.iterStart).take s.got.length = s.got.map Item.data ∧ s.got.length = P.T
    | .send (.ok m) => FromSegment P script m
    | _ => True
  sent : ∀ m ∈ s.sentLog, FromSegment P script m

theorem Seg_init (P : Params) (script : List Item) : Seg P script (init P) := by
  constructor <;> simp [init]

private theorem take_drop_succ (l : List Item) (a j : Nat) (x : Item) (h : l[a + j]? = some x) :
    (l.drop a).take (j + 1) = (l.drop a).take j ++ [x] := by
  rw [List.take_add_one]
  simp [List.getElem?_drop, h]

theorem Seg_step {P : Params} {A : Assembler} {script : List Item} {s s' : State} {a : Step}
    (hp : PoolOK P s) (h : Seg P script s) (hs : step P A script s a = some s') : Seg P script s' := by
  obtain ⟨h1, h2⟩ := h
  cases a <;> simp only [step] at hs
  case submitOk =>
    unfold stepSubmitOk at hs
    split at hs
    · next k hpc =>
      simp only [hpc] at h1
      have hl := pending_length_of_submit hp hpc
      split at hs
      · split at hs <;> (injection hs with hs; subst hs)
        · exact ⟨by simpa using h1, h2⟩
        · next hge =>
          refine ⟨?_, h2⟩
          simp only [h1.1, h1.2, List.length_nil, List.take_zero, List.map_nil, List.length_append,
            List.length_cons, Nat.add_zero, Nat.zero_add, true_and]
          simp only [PoolOK, hpc] at hp
          have := hp.1
          omega
      · cases hs
    · cases hs
  case pollOk =>
    unfold stepPollOk at hs
    split at hs
    · next hpc =>
      simp only [hpc] at h1
      obtain ⟨c1, c2, c3⟩ := h1
      split at hs
      · next x rest d hpend hitem =>
        split at hs
        · injection hs with hs; subst hs
          strip_gap
          rw [c1] at hitem
          have hseg := take_drop_succ script s.iterStart s.got.length _ hitem
          rw [hpend] at c3
          simp only [List.length_cons] at c3
          refine ⟨?_, by simpa using h2⟩
          by_cases hr : rest = []
          · subst hr
            simp only [if_true, account_iterStart, gapUpd_iterStart, applyData_iterStart, List.length_append,
              List.length_cons, List.length_nil, List.map_append, List.map_cons, List.map_nil]
            simp only [List.length_nil] at c3
            exact ⟨by omega, by rw [hseg, c2], by omega⟩
          · simp only [if_neg hr, account_iterStart, gapUpd_iterStart, applyData_iterStart, List.length_append,
              List.length_cons, List.length_nil, List.map_append, List.map_cons, List.map_nil]
            exact ⟨by omega, by rw [hseg, c2], by omega⟩
        · cases hs
      · cases hs
    · cases hs
  case parse =>
    unfold stepParse at hs
    split at hs
    · next hpc =>
      simp only [hpc] at h1
      obtain ⟨c1, c2, c3⟩ := h1
      split at hs
      · split at hs
        · dsimp only at hs
          split at hs
          · injection hs with hs; subst hs; exact ⟨trivial, h2⟩
          split at hs <;> (injection hs with hs; subst hs) <;>
            first
              | exact ⟨trivial, h2⟩
              | (refine ⟨?_, h2⟩
                 show FromSegment P script _
                 exact ⟨c3, by rw [← c3]; exact c2⟩)
        · injection hs with hs; subst hs; exact ⟨trivial, h2⟩
      · injection hs with hs; subst hs; exact ⟨trivial, h2⟩
    · cases hs
  case trySend =>
    unfold stepTrySend at hs
    split at hs
    · next m hpc =>
      simp only [hpc] at h1
      split at hs <;> split at hs <;> (injection hs with hs; subst hs)
      · refine ⟨trivial, ?_⟩
        intro m' hm'
        simp only [List.mem_append, List.mem_singleton] at hm'
        rcases hm' with hm' | rfl
        · exact h2 _ hm'
        · exact h1
      · exact ⟨trivial, h2⟩
      · exact ⟨trivial, h2⟩
      · exact ⟨trivial, h2⟩
    · cases hs
  all_goals (
    step_split <;>
    first
      | exact ⟨h1, h2⟩
      | exact ⟨trivial, h2⟩
      | (refine ⟨?_, h2⟩; simp_all))

/-! ### The assembler sees exactly the leader and trailer packet of the segment -/

theorem writeAt_zero_take (buf d : Bytes) : (writeAt buf 0 d).take d.length = d := by
  simp [writeAt]

def HeadOK (s : State) : Prop :=
  s.first ≠ none → ∃ p0, s.got.head? = some p0 ∧ s.first = some p0.length ∧
    s.leaderBuf.take p0.length = p0 ∧ p0.length ≤ s.leaderBuf.length

def LastOK (s : State) : Prop :=
  ∃ pl, s.got.getLast? = some pl ∧ s.last = some pl.length ∧
    s.trailerBuf.take pl.length = pl ∧ pl.length ≤ s.trailerBuf.length

/-- `m` is what `A` built from the first packet (leader), the last packet (trailer) of its
segment, its buffer and its `read_payload_size`. -/
def AsmOK (A : Assembler) (m : OkMsg) : Prop :=
  ∃ lb tb, m.parts.head? = some lb ∧ m.parts.getLast? = some tb ∧
    A lb tb m.buf.bytes m.read = .built ⟨m.valid, m.info⟩

structure Asmd (A : Assembler) (s : State) : Prop where
  cur : match s.pc with
    | .obtain | .submit _ => s.got = []
    | .poll => HeadOK s ∧ (s.first = none → s.got = [])
    | .parse => HeadOK s ∧ LastOK s
    | .send (.ok m) => AsmOK A m
    | _ => True
  sent : ∀ m ∈ s.sentLog, AsmOK A m

theorem Asmd_init (P : Params) (A : Assembler) : Asmd A (init P) := by
  constructor <;> simp [init]

theorem Asmd_step {P : Params} {A : Assembler} {script : List Item} {s s' : State} {a : Step}
    (hp : PoolOK P s) (hz : Sizes P s) (h : Asmd A s) (hs : step P A script s a = some s') :
    Asmd A s' := by
  obtain ⟨h1, h2⟩ := h
  cases a <;> simp only [step] at hs
  case submitOk =>
    unfold stepSubmitOk at hs
    split at hs
    · next k hpc =>
      simp only [hpc] at h1
      split at hs
      · split at hs <;> (injection hs with hs; subst hs)
        · exact ⟨h1, h2⟩
        · exact ⟨⟨by intro hf; exact absurd rfl hf, fun _ => h1⟩, h2⟩
      · cases hs
    · cases hs
  case pollOk =>
    unfold stepPollOk at hs
    split at hs
    · next hpc =>
      simp only [hpc] at h1
      obtain ⟨hh, hg⟩ := h1
      have hpool := hp
      simp only [PoolOK, hpc] at hp
      obtain ⟨_, hsh⟩ := hp
      split at hs
      · next x rest d hpend hitem =>
        split at hs
        · next hlen =>
          injection hs with hs; subst hs
          strip_gap
          refine ⟨?_, by simpa using h2⟩
          rcases hsh with ⟨hf, _, hsl⟩ | ⟨hf, pre, suf, hpay, hsl, _⟩
          · -- leader transfer
            obtain ⟨a1, a2, a3⟩ := account_first_none (applyData s x.slot d) d.length (by simpa using hf)
            rw [hpend, layout_eq] at hsl
            simp only [slotsOf, List.map_cons, List.cons.injEq] at hsl
            obtain ⟨hx, hrest⟩ := hsl
            have hne : rest ≠ [] := by intro h0; rw [h0] at hrest; simp at hrest
            have hgot := hg hf
            have hd : d.length ≤ s.leaderBuf.length := by
              rw [hz.leader]; rw [hx] at hlen; exact hlen
            simp only [if_neg hne]
            refine ⟨?_, ?_⟩
            · intro _
              refine ⟨d, by simp [hgot], by simpa using a1, ?_, ?_⟩
              · simp only [account_leaderBuf, gapUpd_leaderBuf, hx, applyData, leaderSlot]; exact writeAt_zero_take _ _
              · simp only [account_leaderBuf, gapUpd_leaderBuf, hx, applyData, leaderSlot]
                rw [writeAt_length] <;> omega
            · intro hnone; rw [a1] at hnone; cases hnone
          · obtain ⟨a1, a2, a3⟩ := account_first_some (applyData s x.slot d) d.length (by simpa using hf)
            obtain ⟨p0, g1, g2, g3, g4⟩ := hh hf
            rw [hpend] at hsl
            simp only [slotsOf, List.map_cons] at hsl
            have hgne : s.got ≠ [] := by intro h0; rw [h0] at g1; cases g1
            have hhead : (s.got ++ [d]).head? = some p0 := by
              cases hgc : s.got with
              | nil => exact absurd hgc hgne
              | cons y ys => rw [hgc] at g1; simpa using g1
            cases suf with
            | nil =>
              simp only [List.nil_append, List.cons.injEq] at hsl
              obtain ⟨hx, hrest⟩ := hsl
              have hr : rest = [] := by simpa using hrest
              subst hr
              have hd : d.length ≤ s.trailerBuf.length := by
                rw [hz.trailer]; rw [hx] at hlen; exact hlen
              simp only [if_true]
              refine ⟨?_, ?_⟩
              · intro _
                refine ⟨p0, hhead, by rw [a1, applyData_first]; exact g2, ?_, ?_⟩
                · simpa [account_leaderBuf, gapUpd_leaderBuf, hx, applyData, trailerSlot] using g3
                · simpa [account_leaderBuf, gapUpd_leaderBuf, hx, applyData, trailerSlot] using g4
              · refine ⟨d, by simp, by simpa using a2, ?_, ?_⟩
                · simp only [account_trailerBuf, gapUpd_trailerBuf, hx, applyData, trailerSlot]; exact writeAt_zero_take _ _
                · simp only [account_trailerBuf, gapUpd_trailerBuf, hx, applyData, trailerSlot]
                  rw [writeAt_length] <;> omega
            | cons y suf' =>
              simp only [List.cons_append, List.cons.injEq] at hsl
              obtain ⟨hx, hrest⟩ := hsl
              have hne : rest ≠ [] := by intro h0; rw [h0] at hrest; simp at hrest
              have hy : y ∈ P.payloadSlots := by rw [hpay]; simp
              have hty := (payloadSlots_in_range P y hy).1
              simp only [if_neg hne]
              refine ⟨?_, ?_⟩
              · intro _
                refine ⟨p0, hhead, by rw [a1, applyData_first]; exact g2, ?_, ?_⟩
                · simp only [account_leaderBuf, gapUpd_leaderBuf, applyData, hx, hty]
                  split <;> exact g3
                · simp only [account_leaderBuf, gapUpd_leaderBuf, applyData, hx, hty]
                  split <;> exact g4
              · intro hnone; rw [a1] at hnone; exact absurd hnone (by simpa using hf)
        · cases hs
      · cases hs
    · cases hs
  case parse =>
    unfold stepParse at hs
    split at hs
    · next hpc =>
      simp only [hpc] at h1
      obtain ⟨hh, pl, l1, l2, l3, l4⟩ := h1
      simp only [PoolOK, hpc] at hp
      obtain ⟨_, _, hfirst, _⟩ := hp
      obtain ⟨p0, g1, g2, g3, g4⟩ := hh hfirst
      split at hs
      · next l b hlast hcur =>
        rw [l2] at hlast; injection hlast with hlast; subst hlast
        split at hs
        · dsimp only at hs
          split at hs
          · injection hs with hs; subst hs; exact ⟨trivial, h2⟩
          split at hs
          all_goals first
            | (injection hs with hs; subst hs; exact ⟨trivial, h2⟩)
            | skip
          next r hA =>
            injection hs with hs; subst hs
            refine ⟨?_, h2⟩
            refine ⟨p0, pl, g1, l1, ?_⟩
            simp only [g2, Option.getD_some, Nat.min_eq_left g4, Nat.min_eq_left l4, g3, l3] at hA
            exact hA
        · injection hs with hs; subst hs; exact ⟨trivial, h2⟩
      · injection hs with hs; subst hs; exact ⟨trivial, h2⟩
    · cases hs
  case trySend =>
    unfold stepTrySend at hs
    split at hs
    · next m hpc =>
      simp only [hpc] at h1
      split at hs <;> split at hs <;> (injection hs with hs; subst hs)
      · refine ⟨trivial, ?_⟩
        intro m' hm'
        simp only [List.mem_append, List.mem_singleton] at hm'
        rcases hm' with hm' | rfl
        · exact h2 _ hm'
        · exact h1
      · exact ⟨trivial, h2⟩
      · exact ⟨trivial, h2⟩
      · exact ⟨trivial, h2⟩
    · cases hs
  all_goals (
    step_split <;>
    first
      | exact ⟨h1, h2⟩
      | exact ⟨trivial, h2⟩
      | (refine ⟨?_, h2⟩; simp_all))

end CamVerif.StreamLoop
