/-
C12 helper lemmas: the payload buffer of an enqueued payload starts with exactly the payload
packets of its segment, concatenated (`BufOK`).  This rests on the loop's contiguity check
(`payload_has_gap`): transfers are written at fixed slot offsets, the slots are contiguous, and a
frame in which data follows a short transfer is rejected.
-/
import CamVerif.Proofs.C12
namespace CamVerif.StreamLoop

/-! ### The payload slots tile the buffer -/

def Contiguous : Nat → List Slot → Prop
  | _, [] => True
  | a, y :: r => y.off = a ∧ Contiguous (a + y.len) r

theorem contiguous_append (a : Nat) (xs ys : List Slot) :
    Contiguous a (xs ++ ys) ↔ Contiguous a xs ∧ Contiguous (a + lenSum xs) ys := by
  induction xs generalizing a with
  | nil => simp [Contiguous]
  | cons x xs ih => simp only [List.cons_append, Contiguous, ih, lenSum_cons, Nat.add_assoc, and_assoc]

private theorem contiguous_range' (sz s n : Nat) :
    Contiguous (s * sz) ((List.range' s n).map (fun i => (⟨.payload, i * sz, sz⟩ : Slot))) := by
  induction n generalizing s with
  | zero => simp [Contiguous]
  | succ k ih =>
    simp only [List.range'_succ, List.map_cons, Contiguous, true_and]
    have := ih (s + 1)
    rw [Nat.add_mul, Nat.one_mul] at this
    exact this

private theorem lenSum_range' (sz s n : Nat) :
    lenSum ((List.range' s n).map (fun i => (⟨.payload, i * sz, sz⟩ : Slot))) = sz * n := by
  induction n generalizing s with
  | zero => simp
  | succ k ih => simp only [List.range'_succ, List.map_cons, lenSum_cons, ih, Nat.mul_succ]; omega

theorem contiguous_payloadSlots (P : Params) : Contiguous 0 P.payloadSlots := by
  unfold Params.payloadSlots
  rw [List.range_eq_range', contiguous_append, contiguous_append]
  refine ⟨⟨?_, ?_⟩, ?_⟩
  · have := contiguous_range' P.payloadSize 0 P.payloadCount
    simpa using this
  · rw [lenSum_range']
    by_cases h1 : P.final1 = 0 <;> simp [h1, Contiguous, Nat.mul_comm]
  · rw [lenSum_append, lenSum_range']
    by_cases h1 : P.final1 = 0 <;> by_cases h2 : P.final2 = 0 <;>
      simp [h1, h2, Contiguous, Nat.mul_comm]

theorem contiguous_off {a : Nat} {pre suf : List Slot} {y : Slot}
    (h : Contiguous a (pre ++ y :: suf)) : y.off = a + lenSum pre := by
  rw [contiguous_append] at h
  exact h.2.1

/-! ### `writeAt` and `take` -/

theorem take_writeAt (buf d : Bytes) (off : Nat) (h : off + d.length ≤ buf.length) :
    (writeAt buf off d).take (off + d.length) = buf.take off ++ d := by
  unfold writeAt
  apply List.take_left'
  simp; omega

theorem writeAt_nil (buf : Bytes) (off : Nat) : writeAt buf off [] = buf := by
  simp [writeAt]

/-! ### The invariant -/

def bsum (ps : List Bytes) : Nat := (ps.map List.length).sum

@[simp] theorem bsum_nil : bsum [] = 0 := rfl
@[simp] theorem bsum_append (a b : List Bytes) : bsum (a ++ b) = bsum a + bsum b := by simp [bsum]
@[simp] theorem bsum_singleton (d : Bytes) : bsum [d] = d.length := by simp [bsum]

/-- payload packets of a segment: everything between the first (leader) and last (trailer) -/
def middle (parts : List Bytes) : List Bytes := (parts.drop 1).dropLast

/-- The buffer of `m` starts with the payload packets of its segment, and `read` is their size. -/
def BufOK (m : OkMsg) : Prop :=
  m.read = bsum (middle m.parts) ∧ m.buf.bytes.take m.read = (middle m.parts).flatten

structure Contig (P : Params) (s : State) : Prop where
  cur : match s.pc with
    | .obtain | .submit _ => s.got = []
    | .poll =>
      (s.first = none → s.short = false ∧ s.gap = false ∧ s.got = []) ∧
      (s.first ≠ none → s.got ≠ [] ∧ s.plen = bsum (s.got.drop 1) ∧
        (s.gap = false → ∀ b, s.cur = some b → b.bytes.take s.plen = (s.got.drop 1).flatten) ∧
        (s.short = false → ∀ pre suf, P.payloadSlots = pre ++ suf →
          slotsOf s.pending = suf ++ [trailerSlot P] → s.plen = lenSum pre))
    | .parse =>
      ∀ l, s.last = some l → s.plen - l = bsum (middle s.got) ∧
        (s.gap = false → ∀ b, s.cur = some b → b.bytes.take (s.plen - l) = (middle s.got).flatten)
    | .send (.ok m) => BufOK m
    | _ => True
  sent : ∀ m ∈ s.sentLog, BufOK m

theorem Contig_init (P : Params) : Contig P (init P) := by
  constructor <;> simp [init]

private theorem drop_one_append {α} (l : List α) (d : α) (h : l ≠ []) :
    (l ++ [d]).drop 1 = l.drop 1 ++ [d] := by
  cases l with
  | nil => exact absurd rfl h
  | cons x xs => simp

theorem Contig_step {P : Params} {A : Assembler} {script : List Item} {s s' : State} {a : Step}
    (hp : PoolOK P s) (hz : Sizes P s) (h : Contig P s) (hs : step P A script s a = some s') :
    Contig P s' := by
  obtain ⟨h1, h2⟩ := h
  cases a <;> simp only [step] at hs
  case submitOk =>
    unfold stepSubmitOk at hs
    split at hs
    · next k hpc =>
      simp only [hpc] at h1
      split at hs
      · split at hs <;> (injection hs with hs; subst hs)
        · exact ⟨h1, h2⟩
        · refine ⟨⟨fun _ => ⟨rfl, rfl, h1⟩, ?_⟩, h2⟩
          intro hf; exact absurd rfl hf
      · cases hs
    · cases hs
  case pollOk =>
    unfold stepPollOk at hs
    split at hs
    · next hpc =>
      simp only [hpc] at h1
      obtain ⟨hn, hsome⟩ := h1
      simp only [PoolOK, hpc] at hp
      obtain ⟨_, hsh⟩ := hp
      split at hs
      · next x rest d hpend hitem =>
        split at hs
        · next hlen =>
          injection hs with hs; subst hs
          refine ⟨?_, by simpa using h2⟩
          rcases hsh with ⟨hf, hp0, hsl⟩ | ⟨hf, pre0, suf0, hpay, hsl, _⟩
          · -- leader transfer
            obtain ⟨a1, a2, a3⟩ := account_first_none (applyData s x.slot d) d.length (by simpa using hf)
            obtain ⟨n1, n2, n3⟩ := hn hf
            rw [hpend, layout_eq] at hsl
            simp only [slotsOf, List.map_cons, List.cons.injEq] at hsl
            obtain ⟨hx, hrest⟩ := hsl
            have hne : rest ≠ [] := by intro h0; rw [h0] at hrest; simp at hrest
            simp only [if_neg hne, gapUpd_first, gapUpd_plen, gapUpd_got, gapUpd_cur, gapUpd_pending]
            refine ⟨?_, ?_⟩
            · intro hnone; rw [a1] at hnone; cases hnone
            intro _
            refine ⟨by simp, ?_, ?_, ?_⟩
            · rw [a3, applyData_plen, hp0, n3]; simp
            · intro _ b _; rw [a3, applyData_plen, hp0, n3]; simp
            · intro _ pre suf hps hsuf
              rw [a3, applyData_plen, hp0]
              have : suf ++ [trailerSlot P] = P.payloadSlots ++ [trailerSlot P] := by
                rw [← hsuf]; simpa [slotsOf] using hrest
              have hsufeq := List.append_cancel_right this
              rw [hsufeq] at hps
              have : pre = [] := by
                have := congrArg List.length hps
                simp only [List.length_append] at this
                exact List.eq_nil_of_length_eq_zero (by omega)
              rw [this]; rfl
          · obtain ⟨a1, a2, a3⟩ := account_first_some (applyData s x.slot d) d.length (by simpa using hf)
            obtain ⟨g0, g1, g2, g3⟩ := hsome hf
            rw [hpend] at hsl
            simp only [slotsOf, List.map_cons] at hsl
            cases suf0 with
            | nil =>
              -- trailer transfer: go to `parse`
              simp only [List.nil_append, List.cons.injEq] at hsl
              obtain ⟨hx, hrest⟩ := hsl
              have hr : rest = [] := by simpa using hrest
              subst hr
              simp only [if_true, gapUpd_last, gapUpd_plen, gapUpd_got, gapUpd_cur]
              intro l hl
              rw [a2] at hl; injection hl with hl; subst hl
              have hmid : middle (s.got ++ [d]) = s.got.drop 1 := by
                simp [middle, drop_one_append _ _ g0]
              rw [a3, applyData_plen, hmid, Nat.add_sub_cancel]
              refine ⟨g1, ?_⟩
              intro hg b hb
              have hg' : s.gap = false := by
                simpa [gapUpd, List.isEmpty] using hg
              have hb' : s.cur = some b := by
                simpa [account_cur, applyData, hx, trailerSlot] using hb
              exact g2 hg' b hb'
            | cons y suf' =>
              simp only [List.cons_append, List.cons.injEq] at hsl
              obtain ⟨hx, hrest⟩ := hsl
              have hne : rest ≠ [] := by intro h0; rw [h0] at hrest; simp at hrest
              have hy : y ∈ P.payloadSlots := by rw [hpay]; simp
              obtain ⟨hty, hrange⟩ := payloadSlots_in_range P y hy
              have hoff : y.off = lenSum pre0 := by
                have := contiguous_payloadSlots P
                rw [hpay] at this
                simpa using contiguous_off this
              have hpl : (true && !rest.isEmpty) = true := by
                cases rest with
                | nil => exact absurd rfl hne
                | cons _ _ => rfl
              have hfs : s.first.isSome = true := by
                cases hfc : s.first with
                | none => exact absurd hfc hf
                | some _ => rfl
              simp only [if_neg hne, gapUpd_first, gapUpd_plen, gapUpd_got, gapUpd_cur, gapUpd_pending,
                hfs, hpl]
              refine ⟨by intro hnone; rw [a1] at hnone; exact absurd hnone (by simpa using hf), fun _ => ?_⟩
              rw [a3, applyData_plen, drop_one_append _ _ g0]
              refine ⟨by simp, by simp [g1], ?_, ?_⟩
              · -- the buffer prefix
                intro hg b hb
                simp only [gapUpd, if_true, Bool.or_eq_false_iff, Bool.and_eq_false_iff, account_gap,
                  applyData_gap, account_short, applyData_short] at hg
                obtain ⟨hg0, hg1⟩ := hg
                cases hc : s.cur with
                | none => simp [account_cur, applyData, hx, hty, hc] at hb
                | some b0 =>
                  simp only [account_cur, applyData, hx, hty, hc, Option.some.injEq] at hb
                  subst hb
                  have hlenb := hz.cur b0 hc
                  have hpre := g2 hg0 b0 hc
                  simp only [List.flatten_append, List.flatten_cons, List.flatten_nil, List.append_nil]
                  rcases hg1 with hshort | hd0
                  · have hplen := g3 hshort pre0 (y :: suf') hpay (by simp [slotsOf, hpend, hx, hrest])
                    rw [hoff, ← hplen]
                    rw [take_writeAt _ _ _ (by rw [hx] at hlen; omega), hpre]
                  · have hd : d = [] := by
                      simpa using hd0
                    subst hd
                    simp only [writeAt_nil, List.length_nil, Nat.add_zero, List.append_nil]
                    exact hpre
              · -- still exactly at the slot boundary
                intro hsh pre suf hps hsuf
                simp only [gapUpd, if_true, Bool.or_eq_false_iff, decide_eq_false_iff_not, account_short,
                  applyData_short] at hsh
                obtain ⟨hs0, hfull⟩ := hsh
                have hplen := g3 hs0 pre0 (y :: suf') hpay (by simp [slotsOf, hpend, hx, hrest])
                have e1 : suf = suf' := by
                  have : suf ++ [trailerSlot P] = suf' ++ [trailerSlot P] := by
                    rw [← hsuf]; simpa [slotsOf] using hrest
                  exact List.append_cancel_right this
                subst e1
                have e2 : pre = pre0 ++ [y] := by
                  have : pre ++ suf = (pre0 ++ [y]) ++ suf := by rw [← hps, hpay]; simp
                  exact List.append_cancel_right this
                rw [e2, lenSum_append, lenSum_cons, lenSum_nil, ← hplen]
                rw [hx] at hlen hfull
                omega
        · cases hs
      · cases hs
    · cases hs
  case parse =>
    unfold stepParse at hs
    split at hs
    · next hpc =>
      simp only [hpc] at h1
      split at hs
      · next l b hlast hcur =>
        obtain ⟨c1, c2⟩ := h1 l hlast
        split at hs
        · dsimp only at hs
          split at hs
          · injection hs with hs; subst hs; exact ⟨trivial, h2⟩
          · next hgap =>
            split at hs
            all_goals first
              | (injection hs with hs; subst hs; exact ⟨trivial, h2⟩)
              | skip
            next r hA =>
              injection hs with hs; subst hs
              refine ⟨?_, h2⟩
              exact ⟨c1, c2 (by simpa using hgap) b hcur⟩
        · injection hs with hs; subst hs; exact ⟨trivial, h2⟩
      · injection hs with hs; subst hs; exact ⟨trivial, h2⟩
    · cases hs
  case trySend =>
    unfold stepTrySend at hs
    split at hs
    · next m hpc =>
      simp only [hpc] at h1
      split at hs <;> split at hs <;> (injection hs with hs; subst hs)
      · refine ⟨trivial, ?_⟩
        intro m' hm'
        simp only [List.mem_append, List.mem_singleton] at hm'
        rcases hm' with hm' | rfl
        · exact h2 _ hm'
        · exact h1
      · exact ⟨trivial, h2⟩
      · exact ⟨trivial, h2⟩
      · exact ⟨trivial, h2⟩
    · cases hs
  all_goals (
    step_split <;>
    first
      | exact ⟨h1, h2⟩
      | exact ⟨trivial, h2⟩
      | (refine ⟨?_, h2⟩; simp_all))

end CamVerif.StreamLoop
