/-
Helper lemmas for C20, part 1: `AccessRight`, the packed `MemoryProtection` cells, ranges.
-/
import CamVerif.Model.Memory
import Std.Tactic.BVDecide
namespace CamVerif.Memory
open AccessRight MemoryProtection

/-! ### AccessRight -/

theorem asNum_le3 (a : AccessRight) : a.asNum &&& 3#8 = a.asNum := by cases a <;> decide

/-- `from_num` neither panics nor trips its debug assertion on a 2-bit value, in any profile,
and inverts `as_num`. -/
theorem fromNum_and3 (p : Profile) (x : BitVec 8) :
    ∃ a, AccessRight.fromNum p (x &&& 3#8) = .ok a ∧ a.asNum = x &&& 3#8 := by
  have h : x &&& 3#8 = 0#8 ∨ x &&& 3#8 = 1#8 ∨ x &&& 3#8 = 2#8 ∨ x &&& 3#8 = 3#8 := by bv_decide
  rcases h with h | h | h | h <;> rw [h] <;> cases p with | mk oc da => cases oc <;> cases da <;>
    first
    | exact ⟨.NA, by decide, by decide⟩
    | exact ⟨.RO, by decide, by decide⟩
    | exact ⟨.WO, by decide, by decide⟩
    | exact ⟨.RW, by decide, by decide⟩

theorem fromNum_asNum (p : Profile) (a : AccessRight) : AccessRight.fromNum p a.asNum = .ok a := by
  cases p with | mk oc da => cases oc <;> cases da <;> cases a <;> decide

theorem asNum_inj {a b : AccessRight} (h : a.asNum = b.asNum) : a = b := by
  revert h; cases a <;> cases b <;> decide

/-! ### One packed byte: the four 2-bit cells are independent -/

/-- writing cell `i` of a block and reading cell `j` (`i j < 4`, shifts `2*i`, `2*j`) -/
theorem block_set_get (block v : BitVec 8) (i j : Nat) (hi : i < 4) (hj : j < 4)
    (hv : v &&& 3#8 = v) :
    ((((block &&& ~~~(3#8 <<< (i * 2))) ||| (v <<< (i * 2))) >>> (j * 2)) &&& 3#8) =
      if i = j then v else (block >>> (j * 2)) &&& 3#8 := by
  have hi' : i = 0 ∨ i = 1 ∨ i = 2 ∨ i = 3 := by omega
  have hj' : j = 0 ∨ j = 1 ∨ j = 2 ∨ j = 3 := by omega
  rcases hi' with rfl | rfl | rfl | rfl <;> rcases hj' with rfl | rfl | rfl | rfl <;>
    (first | rw [if_pos rfl] | rw [if_neg (by decide)]) <;> simp only [Nat.reduceMul] <;> bv_decide

/-! ### Abstract view: the protection as an array of cells -/

/-- number of cells the packed vector can hold (≥ `memorySize`) -/
def MemoryProtection.capacity (mp : MemoryProtection) : Nat := 4 * mp.inner.length

/-- the right stored in cell `i` (abstract reading of the packed representation) -/
def MemoryProtection.cell (mp : MemoryProtection) (i : Nat) : AccessRight :=
  match AccessRight.fromNum .release (((mp.inner.getD (i / 4) 0#8) >>> (i % 4 * 2)) &&& 3#8) with
  | .ok a => a
  | _ => .NA

theorem accessRight_eq_cell (p : Profile) (mp : MemoryProtection) (i : Nat) (h : i < mp.capacity) :
    mp.accessRight p i = .ok (mp.cell i) := by
  have hlt : i / 4 < mp.inner.length := by unfold capacity at h; omega
  obtain ⟨a, ha, _⟩ := fromNum_and3 p ((mp.inner[i / 4]) >>> (i % 4 * 2))
  obtain ⟨b, hb, _⟩ := fromNum_and3 .release ((mp.inner[i / 4]) >>> (i % 4 * 2))
  have hab : a = b := asNum_inj (by simp_all)
  simp only [accessRight, cell, List.getElem?_eq_getElem hlt, List.getD_eq_getElem?_getD,
    Option.getD_some, ha, hb, hab]

theorem accessRight_panic (p : Profile) (mp : MemoryProtection) (i : Nat) (h : mp.capacity ≤ i) :
    mp.accessRight p i = .panic := by
  have : mp.inner.length ≤ i / 4 := by unfold capacity at h; omega
  simp [accessRight, List.getElem?_eq_none this]

theorem setAccessRight_ok (mp : MemoryProtection) (i : Nat) (r : AccessRight) (h : i < mp.capacity) :
    ∃ mp', mp.setAccessRight i r = .ok mp' ∧ mp'.memorySize = mp.memorySize ∧
      mp'.inner.length = mp.inner.length ∧
      ∀ j, mp'.cell j = if i = j then r else mp.cell j := by
  have hlt : i / 4 < mp.inner.length := by unfold capacity at h; omega
  refine ⟨(⟨mp.inner.set (i / 4)
      ((mp.inner[i / 4] &&& ~~~(3#8 <<< (i % 4 * 2))) ||| (r.asNum <<< (i % 4 * 2))),
      mp.memorySize⟩ : MemoryProtection),
    by simp only [setAccessRight, List.getElem?_eq_getElem hlt], rfl, by simp, ?_⟩
  intro j
  simp only [cell, List.getD_eq_getElem?_getD]
  by_cases hq : i / 4 = j / 4
  · have hjlt : j / 4 < mp.inner.length := by omega
    rw [List.getElem?_set, if_pos hq]
    simp only [if_pos hlt, Option.getD_some, List.getElem?_eq_getElem hjlt]
    have hblk : mp.inner[i / 4] = mp.inner[j / 4] := by simp [hq]
    rw [hblk, block_set_get _ _ (i % 4) (j % 4) (Nat.mod_lt _ (by omega)) (Nat.mod_lt _ (by omega))
      (asNum_le3 r)]
    by_cases hr : i % 4 = j % 4
    · have : i = j := by omega
      simp [hr, this, fromNum_asNum]
    · have : i ≠ j := by omega
      simp [hr, this]
  · have : i ≠ j := fun h => hq (by rw [h])
    rw [List.getElem?_set, if_neg hq]
    simp [this]

theorem setAccessRight_panic (mp : MemoryProtection) (i : Nat) (r : AccessRight)
    (h : mp.capacity ≤ i) : mp.setAccessRight i r = .panic := by
  have : mp.inner.length ≤ i / 4 := by unfold capacity at h; omega
  simp [setAccessRight, List.getElem?_eq_none this]

/-! ### `new` -/

theorem new_memorySize (n : Nat) : (MemoryProtection.new n).memorySize = n := rfl

theorem new_capacity (n : Nat) : n ≤ (MemoryProtection.new n).capacity ∧
    (MemoryProtection.new n).capacity < n + 4 := by
  simp only [MemoryProtection.new, capacity, List.length_replicate]
  split <;> omega

theorem new_cell (n i : Nat) : (MemoryProtection.new n).cell i = .NA := by
  simp only [MemoryProtection.new, cell, List.getD_eq_getElem?_getD]
  by_cases h : i / 4 < (if n = 0 then 0 else (n - 1) / 4 + 1)
  · simp only [List.getElem?_replicate, h, if_true, Option.getD_some, BitVec.zero_ushiftRight,
      BitVec.zero_and]
    rfl
  · simp only [List.getElem?_replicate, h, if_false, Option.getD_none, BitVec.zero_ushiftRight,
      BitVec.zero_and]
    rfl

/-! ### Ranges -/

/-- the meet of the cells `a .. a+n` starting from `acc` -/
def MemoryProtection.meetCells (mp : MemoryProtection) : AccessRight → Nat → Nat → AccessRight
  | acc, _, 0 => acc
  | acc, a, n + 1 => meetCells mp (acc.meet (mp.cell a)) (a + 1) n

theorem accessRightFold_eq (p : Profile) (mp : MemoryProtection) (acc : AccessRight) (a n : Nat)
    (h : a + n ≤ mp.capacity) :
    mp.accessRightFold p acc a n = .ok (mp.meetCells acc a n) := by
  induction n generalizing acc a with
  | zero => rfl
  | succ k ih =>
    simp only [accessRightFold, accessRight_eq_cell p mp a (by omega), meetCells]
    exact ih _ _ (by omega)

theorem meet_isReadable (a b : AccessRight) :
    (a.meet b).isReadable = (a.isReadable && b.isReadable) := by cases a <;> cases b <;> decide

theorem meet_isWritable (a b : AccessRight) :
    (a.meet b).isWritable = (a.isWritable && b.isWritable) := by cases a <;> cases b <;> decide

theorem meetCells_isReadable (mp : MemoryProtection) (acc : AccessRight) (a n : Nat) :
    (mp.meetCells acc a n).isReadable = true ↔
      acc.isReadable = true ∧ ∀ i, a ≤ i → i < a + n → (mp.cell i).isReadable = true := by
  induction n generalizing acc a with
  | zero => simp [meetCells]; intro _ i h1 h2; omega
  | succ k ih =>
    rw [meetCells, ih, meet_isReadable, Bool.and_eq_true]
    constructor
    · rintro ⟨⟨h1, h2⟩, h3⟩
      refine ⟨h1, fun i hi hlt => ?_⟩
      by_cases hia : i = a
      · exact hia ▸ h2
      · exact h3 i (by omega) (by omega)
    · rintro ⟨h1, h2⟩
      exact ⟨⟨h1, h2 a (Nat.le_refl _) (by omega)⟩, fun i hi hlt => h2 i (by omega) (by omega)⟩

theorem meetCells_isWritable (mp : MemoryProtection) (acc : AccessRight) (a n : Nat) :
    (mp.meetCells acc a n).isWritable = true ↔
      acc.isWritable = true ∧ ∀ i, a ≤ i → i < a + n → (mp.cell i).isWritable = true := by
  induction n generalizing acc a with
  | zero => simp [meetCells]; intro _ i h1 h2; omega
  | succ k ih =>
    rw [meetCells, ih, meet_isWritable, Bool.and_eq_true]
    constructor
    · rintro ⟨⟨h1, h2⟩, h3⟩
      refine ⟨h1, fun i hi hlt => ?_⟩
      by_cases hia : i = a
      · exact hia ▸ h2
      · exact h3 i (by omega) (by omega)
    · rintro ⟨h1, h2⟩
      exact ⟨⟨h1, h2 a (Nat.le_refl _) (by omega)⟩, fun i hi hlt => h2 i (by omega) (by omega)⟩

theorem verifyFrom_ok (mp : MemoryProtection) (a n : Nat) :
    mp.verifyFrom a n = .ok () ↔ (n = 0 ∨ a + n ≤ mp.memorySize) := by
  induction n generalizing a with
  | zero => simp [verifyFrom]
  | succ k ih =>
    simp only [verifyFrom, verifyAddress]
    by_cases h : mp.memorySize ≤ a
    · simp [h]; omega
    · simp only [h, if_false]
      rw [ih]; omega

theorem verifyFrom_cases (mp : MemoryProtection) (a n : Nat) :
    mp.verifyFrom a n = .ok () ∨ mp.verifyFrom a n = .err .invalidAddress := by
  induction n generalizing a with
  | zero => simp [verifyFrom]
  | succ k ih =>
    simp only [verifyFrom, verifyAddress]
    by_cases h : mp.memorySize ≤ a
    · simp [h]
    · simp only [h, if_false]; exact ih _

theorem setAccessRightFrom_ok (r : AccessRight) (mp : MemoryProtection) (a n : Nat)
    (h : a + n ≤ mp.capacity) :
    ∃ mp', setAccessRightFrom r mp a n = .ok mp' ∧ mp'.memorySize = mp.memorySize ∧
      mp'.inner.length = mp.inner.length ∧
      ∀ j, mp'.cell j = if a ≤ j ∧ j < a + n then r else mp.cell j := by
  induction n generalizing mp a with
  | zero => exact ⟨mp, rfl, rfl, rfl, fun j => by simp; omega⟩
  | succ k ih =>
    obtain ⟨mp1, h1, hs1, hl1, hc1⟩ := setAccessRight_ok mp a r (by omega)
    obtain ⟨mp2, h2, hs2, hl2, hc2⟩ := ih mp1 (a + 1) (by unfold capacity at *; omega)
    refine ⟨mp2, by simp only [setAccessRightFrom, h1]; exact h2, by omega, by omega, fun j => ?_⟩
    rw [hc2, hc1]
    by_cases hj : a = j
    · subst hj; simp
    · by_cases hj2 : a + 1 ≤ j ∧ j < a + 1 + k
      · have : a ≤ j ∧ j < a + (k + 1) := by omega
        simp [hj2, this]
      · have : ¬(a ≤ j ∧ j < a + (k + 1)) := by omega
        simp [hj2, this, hj]

end CamVerif.Memory
