/-
C12 helper lemmas: structural facts about the transfer layout and the shape invariant `WF`
of `CamVerif.Model.StreamLoop` (pool shape per program counter, buffer sizes, length accounting).
-/
import CamVerif.Model.StreamLoop
namespace CamVerif.StreamLoop

/-! ### Layout -/

def slotsOf (xs : List Xfer) : List Slot := xs.map (·.slot)

def lenSum (xs : List Slot) : Nat := (xs.map (·.len)).sum

def trailerSlot (P : Params) : Slot := ⟨.trailer, 0, P.trailerSize⟩
def leaderSlot (P : Params) : Slot := ⟨.leader, 0, P.leaderSize⟩

theorem layout_eq (P : Params) : P.layout = leaderSlot P :: (P.payloadSlots ++ [trailerSlot P]) := rfl

theorem T_eq (P : Params) : P.T = P.payloadSlots.length + 2 := by
  simp [Params.T, layout_eq]

theorem T_ge_two (P : Params) : 2 ≤ P.T := by rw [T_eq]; omega

@[simp] theorem lenSum_nil : lenSum [] = 0 := rfl
@[simp] theorem lenSum_cons (a : Slot) (xs : List Slot) : lenSum (a :: xs) = a.len + lenSum xs := by
  simp [lenSum]
@[simp] theorem lenSum_append (xs ys : List Slot) : lenSum (xs ++ ys) = lenSum xs + lenSum ys := by
  simp [lenSum]

private theorem lenSum_range (n sz : Nat) :
    lenSum ((List.range n).map (fun i => (⟨.payload, i * sz, sz⟩ : Slot))) = sz * n := by
  induction n with
  | zero => simp
  | succ k ih =>
    rw [List.range_succ, List.map_append, lenSum_append, ih]
    simp [Nat.mul_succ]

theorem lenSum_payloadSlots (P : Params) : lenSum P.payloadSlots = P.maxPayload := by
  unfold Params.payloadSlots Params.maxPayload
  rw [lenSum_append, lenSum_append, lenSum_range]
  by_cases h1 : P.final1 = 0 <;> by_cases h2 : P.final2 = 0 <;> simp [h1, h2]

/-- Every payload slot lies inside a buffer of `maxPayload` bytes. -/
theorem payloadSlots_in_range (P : Params) :
    ∀ sl ∈ P.payloadSlots, sl.tgt = .payload ∧ sl.off + sl.len ≤ P.maxPayload := by
  intro sl h
  unfold Params.payloadSlots at h
  simp only [List.mem_append, List.mem_map, List.mem_range] at h
  unfold Params.maxPayload
  rcases h with (⟨i, hi, rfl⟩ | h) | h
  · refine ⟨rfl, ?_⟩
    have : (i + 1) * P.payloadSize ≤ P.payloadCount * P.payloadSize := Nat.mul_le_mul_right _ hi
    simp only [Nat.succ_mul] at this
    show i * P.payloadSize + P.payloadSize ≤ _
    rw [Nat.mul_comm P.payloadSize]; omega
  · by_cases h1 : P.final1 = 0
    · simp [h1] at h
    · simp [h1] at h; subst h; refine ⟨rfl, ?_⟩; simp only; rw [Nat.mul_comm P.payloadSize]; omega
  · by_cases h2 : P.final2 = 0
    · simp [h2] at h
    · simp [h2] at h; subst h; refine ⟨rfl, ?_⟩; simp only; rw [Nat.mul_comm P.payloadSize]; omega

/-! ### `writeAt` -/

theorem writeAt_length (buf d : Bytes) (off : Nat) (h : off + d.length ≤ buf.length) :
    (writeAt buf off d).length = buf.length := by
  simp [writeAt]; omega

theorem resize_length (bs : Bytes) (n : Nat) : (resize bs n).length = n := by
  unfold resize; split <;> simp <;> omega

/-! ### Field lemmas for `applyData` / `account` (generated pattern) -/
@[simp] theorem applyData_consumed (s : State) (sl : Slot) (d : Bytes) : (applyData s sl d).consumed = s.consumed := by
  unfold applyData; split <;> (try split) <;> rfl
@[simp] theorem applyData_pc (s : State) (sl : Slot) (d : Bytes) : (applyData s sl d).pc = s.pc := by
  unfold applyData; split <;> (try split) <;> rfl
@[simp] theorem applyData_reuse (s : State) (sl : Slot) (d : Bytes) : (applyData s sl d).reuse = s.reuse := by
  unfold applyData; split <;> (try split) <;> rfl
@[simp] theorem applyData_pending (s : State) (sl : Slot) (d : Bytes) : (applyData s sl d).pending = s.pending := by
  unfold applyData; split <;> (try split) <;> rfl
@[simp] theorem applyData_first (s : State) (sl : Slot) (d : Bytes) : (applyData s sl d).first = s.first := by
  unfold applyData; split <;> (try split) <;> rfl
@[simp] theorem applyData_last (s : State) (sl : Slot) (d : Bytes) : (applyData s sl d).last = s.last := by
  unfold applyData; split <;> (try split) <;> rfl
@[simp] theorem applyData_plen (s : State) (sl : Slot) (d : Bytes) : (applyData s sl d).plen = s.plen := by
  unfold applyData; split <;> (try split) <;> rfl
@[simp] theorem applyData_nextXfer (s : State) (sl : Slot) (d : Bytes) : (applyData s sl d).nextXfer = s.nextXfer := by
  unfold applyData; split <;> (try split) <;> rfl
@[simp] theorem applyData_nextBuf (s : State) (sl : Slot) (d : Bytes) : (applyData s sl d).nextBuf = s.nextBuf := by
  unfold applyData; split <;> (try split) <;> rfl
@[simp] theorem applyData_chan (s : State) (sl : Slot) (d : Bytes) : (applyData s sl d).chan = s.chan := by
  unfold applyData; split <;> (try split) <;> rfl
@[simp] theorem applyData_back (s : State) (sl : Slot) (d : Bytes) : (applyData s sl d).back = s.back := by
  unfold applyData; split <;> (try split) <;> rfl
@[simp] theorem applyData_senderAlive (s : State) (sl : Slot) (d : Bytes) : (applyData s sl d).senderAlive = s.senderAlive := by
  unfold applyData; split <;> (try split) <;> rfl
@[simp] theorem applyData_rxAlive (s : State) (sl : Slot) (d : Bytes) : (applyData s sl d).rxAlive = s.rxAlive := by
  unfold applyData; split <;> (try split) <;> rfl
@[simp] theorem applyData_held (s : State) (sl : Slot) (d : Bytes) : (applyData s sl d).held = s.held := by
  unfold applyData; split <;> (try split) <;> rfl
@[simp] theorem applyData_freed (s : State) (sl : Slot) (d : Bytes) : (applyData s sl d).freed = s.freed := by
  unfold applyData; split <;> (try split) <;> rfl
@[simp] theorem applyData_ctl (s : State) (sl : Slot) (d : Bytes) : (applyData s sl d).ctl = s.ctl := by
  unfold applyData; split <;> (try split) <;> rfl
@[simp] theorem applyData_iterStart (s : State) (sl : Slot) (d : Bytes) : (applyData s sl d).iterStart = s.iterStart := by
  unfold applyData; split <;> (try split) <;> rfl
@[simp] theorem applyData_got (s : State) (sl : Slot) (d : Bytes) : (applyData s sl d).got = s.got := by
  unfold applyData; split <;> (try split) <;> rfl
@[simp] theorem applyData_enq (s : State) (sl : Slot) (d : Bytes) : (applyData s sl d).enq = s.enq := by
  unfold applyData; split <;> (try split) <;> rfl
@[simp] theorem applyData_sentLog (s : State) (sl : Slot) (d : Bytes) : (applyData s sl d).sentLog = s.sentLog := by
  unfold applyData; split <;> (try split) <;> rfl
@[simp] theorem applyData_recvLog (s : State) (sl : Slot) (d : Bytes) : (applyData s sl d).recvLog = s.recvLog := by
  unfold applyData; split <;> (try split) <;> rfl
@[simp] theorem applyData_faults (s : State) (sl : Slot) (d : Bytes) : (applyData s sl d).faults = s.faults := by
  unfold applyData; split <;> (try split) <;> rfl
@[simp] theorem account_consumed (s : State) (n : Nat) : (account s n).consumed = s.consumed := by
  unfold account; split <;> rfl
@[simp] theorem account_pc (s : State) (n : Nat) : (account s n).pc = s.pc := by
  unfold account; split <;> rfl
@[simp] theorem account_cur (s : State) (n : Nat) : (account s n).cur = s.cur := by
  unfold account; split <;> rfl
@[simp] theorem account_reuse (s : State) (n : Nat) : (account s n).reuse = s.reuse := by
  unfold account; split <;> rfl
@[simp] theorem account_leaderBuf (s : State) (n : Nat) : (account s n).leaderBuf = s.leaderBuf := by
  unfold account; split <;> rfl
@[simp] theorem account_trailerBuf (s : State) (n : Nat) : (account s n).trailerBuf = s.trailerBuf := by
  unfold account; split <;> rfl
@[simp] theorem account_pending (s : State) (n : Nat) : (account s n).pending = s.pending := by
  unfold account; split <;> rfl
@[simp] theorem account_nextXfer (s : State) (n : Nat) : (account s n).nextXfer = s.nextXfer := by
  unfold account; split <;> rfl
@[simp] theorem account_nextBuf (s : State) (n : Nat) : (account s n).nextBuf = s.nextBuf := by
  unfold account; split <;> rfl
@[simp] theorem account_chan (s : State) (n : Nat) : (account s n).chan = s.chan := by
  unfold account; split <;> rfl
@[simp] theorem account_back (s : State) (n : Nat) : (account s n).back = s.back := by
  unfold account; split <;> rfl
@[simp] theorem account_senderAlive (s : State) (n : Nat) : (account s n).senderAlive = s.senderAlive := by
  unfold account; split <;> rfl
@[simp] theorem account_rxAlive (s : State) (n : Nat) : (account s n).rxAlive = s.rxAlive := by
  unfold account; split <;> rfl
@[simp] theorem account_held (s : State) (n : Nat) : (account s n).held = s.held := by
  unfold account; split <;> rfl
@[simp] theorem account_freed (s : State) (n : Nat) : (account s n).freed = s.freed := by
  unfold account; split <;> rfl
@[simp] theorem account_ctl (s : State) (n : Nat) : (account s n).ctl = s.ctl := by
  unfold account; split <;> rfl
@[simp] theorem account_iterStart (s : State) (n : Nat) : (account s n).iterStart = s.iterStart := by
  unfold account; split <;> rfl
@[simp] theorem account_got (s : State) (n : Nat) : (account s n).got = s.got := by
  unfold account; split <;> rfl
@[simp] theorem account_enq (s : State) (n : Nat) : (account s n).enq = s.enq := by
  unfold account; split <;> rfl
@[simp] theorem account_sentLog (s : State) (n : Nat) : (account s n).sentLog = s.sentLog := by
  unfold account; split <;> rfl
@[simp] theorem account_recvLog (s : State) (n : Nat) : (account s n).recvLog = s.recvLog := by
  unfold account; split <;> rfl
@[simp] theorem account_faults (s : State) (n : Nat) : (account s n).faults = s.faults := by
  unfold account; split <;> rfl

@[simp] theorem applyData_short (s : State) (sl : Slot) (d : Bytes) : (applyData s sl d).short = s.short := by
  unfold applyData; split <;> (try split) <;> rfl
@[simp] theorem account_short (s : State) (n : Nat) : (account s n).short = s.short := by
  unfold account; split <;> rfl
@[simp] theorem applyData_gap (s : State) (sl : Slot) (d : Bytes) : (applyData s sl d).gap = s.gap := by
  unfold applyData; split <;> (try split) <;> rfl
@[simp] theorem account_gap (s : State) (n : Nat) : (account s n).gap = s.gap := by
  unfold account; split <;> rfl
@[simp] theorem gapUpd_consumed (s : State) (b : Bool) (n m : Nat) : (gapUpd s b n m).consumed = s.consumed := by
  unfold gapUpd; split <;> rfl
@[simp] theorem gapUpd_pc (s : State) (b : Bool) (n m : Nat) : (gapUpd s b n m).pc = s.pc := by
  unfold gapUpd; split <;> rfl
@[simp] theorem gapUpd_cur (s : State) (b : Bool) (n m : Nat) : (gapUpd s b n m).cur = s.cur := by
  unfold gapUpd; split <;> rfl
@[simp] theorem gapUpd_reuse (s : State) (b : Bool) (n m : Nat) : (gapUpd s b n m).reuse = s.reuse := by
  unfold gapUpd; split <;> rfl
@[simp] theorem gapUpd_leaderBuf (s : State) (b : Bool) (n m : Nat) : (gapUpd s b n m).leaderBuf = s.leaderBuf := by
  unfold gapUpd; split <;> rfl
@[simp] theorem gapUpd_trailerBuf (s : State) (b : Bool) (n m : Nat) : (gapUpd s b n m).trailerBuf = s.trailerBuf := by
  unfold gapUpd; split <;> rfl
@[simp] theorem gapUpd_pending (s : State) (b : Bool) (n m : Nat) : (gapUpd s b n m).pending = s.pending := by
  unfold gapUpd; split <;> rfl
@[simp] theorem gapUpd_first (s : State) (b : Bool) (n m : Nat) : (gapUpd s b n m).first = s.first := by
  unfold gapUpd; split <;> rfl
@[simp] theorem gapUpd_last (s : State) (b : Bool) (n m : Nat) : (gapUpd s b n m).last = s.last := by
  unfold gapUpd; split <;> rfl
@[simp] theorem gapUpd_plen (s : State) (b : Bool) (n m : Nat) : (gapUpd s b n m).plen = s.plen := by
  unfold gapUpd; split <;> rfl
@[simp] theorem gapUpd_nextXfer (s : State) (b : Bool) (n m : Nat) : (gapUpd s b n m).nextXfer = s.nextXfer := by
  unfold gapUpd; split <;> rfl
@[simp] theorem gapUpd_nextBuf (s : State) (b : Bool) (n m : Nat) : (gapUpd s b n m).nextBuf = s.nextBuf := by
  unfold gapUpd; split <;> rfl
@[simp] theorem gapUpd_chan (s : State) (b : Bool) (n m : Nat) : (gapUpd s b n m).chan = s.chan := by
  unfold gapUpd; split <;> rfl
@[simp] theorem gapUpd_back (s : State) (b : Bool) (n m : Nat) : (gapUpd s b n m).back = s.back := by
  unfold gapUpd; split <;> rfl
@[simp] theorem gapUpd_senderAlive (s : State) (b : Bool) (n m : Nat) : (gapUpd s b n m).senderAlive = s.senderAlive := by
  unfold gapUpd; split <;> rfl
@[simp] theorem gapUpd_rxAlive (s : State) (b : Bool) (n m : Nat) : (gapUpd s b n m).rxAlive = s.rxAlive := by
  unfold gapUpd; split <;> rfl
@[simp] theorem gapUpd_held (s : State) (b : Bool) (n m : Nat) : (gapUpd s b n m).held = s.held := by
  unfold gapUpd; split <;> rfl
@[simp] theorem gapUpd_freed (s : State) (b : Bool) (n m : Nat) : (gapUpd s b n m).freed = s.freed := by
  unfold gapUpd; split <;> rfl
@[simp] theorem gapUpd_ctl (s : State) (b : Bool) (n m : Nat) : (gapUpd s b n m).ctl = s.ctl := by
  unfold gapUpd; split <;> rfl
@[simp] theorem gapUpd_iterStart (s : State) (b : Bool) (n m : Nat) : (gapUpd s b n m).iterStart = s.iterStart := by
  unfold gapUpd; split <;> rfl
@[simp] theorem gapUpd_got (s : State) (b : Bool) (n m : Nat) : (gapUpd s b n m).got = s.got := by
  unfold gapUpd; split <;> rfl
@[simp] theorem gapUpd_enq (s : State) (b : Bool) (n m : Nat) : (gapUpd s b n m).enq = s.enq := by
  unfold gapUpd; split <;> rfl
@[simp] theorem gapUpd_sentLog (s : State) (b : Bool) (n m : Nat) : (gapUpd s b n m).sentLog = s.sentLog := by
  unfold gapUpd; split <;> rfl
@[simp] theorem gapUpd_recvLog (s : State) (b : Bool) (n m : Nat) : (gapUpd s b n m).recvLog = s.recvLog := by
  unfold gapUpd; split <;> rfl
@[simp] theorem gapUpd_faults (s : State) (b : Bool) (n m : Nat) : (gapUpd s b n m).faults = s.faults := by
  unfold gapUpd; split <;> rfl

theorem account_first_none (s : State) (n : Nat) (h : s.first = none) :
    (account s n).first = some n ∧ (account s n).last = some n ∧ (account s n).plen = s.plen := by
  unfold account; rw [h]; simp

theorem account_first_some (s : State) (n : Nat) (h : s.first ≠ none) :
    (account s n).first = s.first ∧ (account s n).last = some n ∧ (account s n).plen = s.plen + n := by
  unfold account
  cases hf : s.first with
  | none => exact absurd hf h
  | some v => simp
@[simp] theorem applyData_late (s : State) (sl : Slot) (d : Bytes) : (applyData s sl d).late = s.late := by
  unfold applyData; split <;> (try split) <;> rfl
@[simp] theorem account_late (s : State) (n : Nat) : (account s n).late = s.late := by
  unfold account; split <;> rfl
@[simp] theorem gapUpd_late (s : State) (b : Bool) (n m : Nat) : (gapUpd s b n m).late = s.late := by
  unfold gapUpd; split <;> rfl

/-- Remove the contiguity bookkeeping wrapper from every field it does not change. -/
macro "strip_gap" : tactic => `(tactic| try simp only [gapUpd_consumed, gapUpd_pc, gapUpd_cur, gapUpd_reuse, gapUpd_leaderBuf, gapUpd_trailerBuf, gapUpd_pending, gapUpd_first, gapUpd_last, gapUpd_plen, gapUpd_nextXfer, gapUpd_nextBuf, gapUpd_chan, gapUpd_back, gapUpd_senderAlive, gapUpd_rxAlive, gapUpd_held, gapUpd_freed, gapUpd_ctl, gapUpd_iterStart, gapUpd_got, gapUpd_enq, gapUpd_sentLog, gapUpd_recvLog, gapUpd_faults, gapUpd_late])

theorem gacc_first_none (s : State) (n : Nat) (b : Bool) (k m : Nat) (h : s.first = none) :
    (gapUpd (account s n) b k m).first = some n ∧ (gapUpd (account s n) b k m).last = some n ∧
    (gapUpd (account s n) b k m).plen = s.plen := by
  simp only [gapUpd_first, gapUpd_last, gapUpd_plen]; exact account_first_none s n h

theorem gacc_first_some (s : State) (n : Nat) (b : Bool) (k m : Nat) (h : s.first ≠ none) :
    (gapUpd (account s n) b k m).first = s.first ∧ (gapUpd (account s n) b k m).last = some n ∧
    (gapUpd (account s n) b k m).plen = s.plen + n := by
  simp only [gapUpd_first, gapUpd_last, gapUpd_plen]; exact account_first_some s n h

theorem applyData_cur_isSome (s : State) (sl : Slot) (d : Bytes) :
    (applyData s sl d).cur.isSome = s.cur.isSome := by
  unfold applyData
  split
  · rfl
  · rfl
  · split
    · next b hb => simp [hb]
    · next hb => simp [hb]

/-! ### Shape invariant -/

/-- Shape of the pool and of the length accounting, per program counter. -/
def PoolOK (P : Params) (s : State) : Prop :=
  match s.pc with
  | .submit k => k < P.T ∧ slotsOf s.pending = P.layout.take k ∧ s.cur.isSome = true
  | .poll =>
      s.cur.isSome = true ∧
      ((s.first = none ∧ s.plen = 0 ∧ slotsOf s.pending = P.layout) ∨
       (s.first ≠ none ∧ ∃ pre suf, P.payloadSlots = pre ++ suf ∧
          slotsOf s.pending = suf ++ [trailerSlot P] ∧ s.plen + lenSum suf ≤ P.maxPayload))
  | .parse => s.pending = [] ∧ s.cur.isSome = true ∧ s.first ≠ none ∧
      ∃ l, s.last = some l ∧ l ≤ s.plen ∧ s.plen - l ≤ P.maxPayload ∧ l ≤ P.trailerSize
  | .drop c => c ≤ s.pending.length
  | .send (.ok _) => s.pending = [] ∧ s.cur = none
  | .send (.err _) => True
  | .top | .obtain | .exiting | .exited | .dead => s.pending = [] ∧ s.cur = none

theorem PoolOK_congr {P : Params} {s s' : State} (h1 : s'.pc = s.pc) (h2 : s'.pending = s.pending)
    (h3 : s'.cur = s.cur) (h4 : s'.first = s.first) (h5 : s'.last = s.last) (h6 : s'.plen = s.plen)
    (h : PoolOK P s) : PoolOK P s' := by
  unfold PoolOK at *
  rw [h1, h2, h3, h4, h5, h6]
  exact h

theorem PoolOK_init (P : Params) : PoolOK P (init P) := by
  simp [PoolOK, init]

private theorem take_succ_of_getElem? {α} (l : List α) (k : Nat) (a : α) (h : l[k]? = some a) :
    l.take (k + 1) = l.take k ++ [a] := by
  rw [List.take_add_one, h]; rfl

theorem PoolOK_step {P : Params} {A : Assembler} {script : List Item} {s s' : State} {a : Step}
    (h : PoolOK P s) (hs : step P A script s a = some s') : PoolOK P s' := by
  cases a <;> simp only [step] at hs
  case checkCancel =>
    unfold stepCheckCancel at hs
    split at hs
    · next hpc =>
      split at hs <;> (injection hs with hs; subst hs) <;>
        (simp only [PoolOK, hpc] at h ⊢; exact h)
    · cases hs
  case obtainReuse =>
    unfold stepObtainReuse at hs
    split at hs
    · next hpc =>
      simp only [PoolOK, hpc] at h
      split at hs
      · injection hs with hs; subst hs
        have := T_ge_two P
        simp only [PoolOK, slotsOf, h.1, List.map_nil, List.take_zero, Option.isSome_some, and_self, and_true]
        omega
      · cases hs
    · cases hs
  case obtainBack =>
    unfold stepObtainBack at hs
    split at hs
    · next hc =>
      simp only [PoolOK, hc.1] at h
      split at hs
      · injection hs with hs; subst hs
        have := T_ge_two P
        simp only [PoolOK, slotsOf, h.1, List.map_nil, List.take_zero, Option.isSome_some, and_self, and_true]
        omega
      · cases hs
    · cases hs
  case obtainAlloc =>
    unfold stepObtainAlloc at hs
    split at hs
    · next hc =>
      simp only [PoolOK, hc.1] at h
      injection hs with hs; subst hs
      have := T_ge_two P
      simp only [PoolOK, slotsOf, h.1, List.map_nil, List.take_zero, Option.isSome_some, and_self, and_true]
      omega
    · cases hs
  case submitOk =>
    unfold stepSubmitOk at hs
    split at hs
    · next k hpc =>
      simp only [PoolOK, hpc] at h
      obtain ⟨hk, hsl, hcur⟩ := h
      split at hs
      · next sl hsl' =>
        split at hs <;> (injection hs with hs; subst hs)
        · next hlt =>
          simp only [PoolOK, slotsOf, List.map_append, List.map_cons, List.map_nil]
          refine ⟨hlt, ?_, hcur⟩
          rw [take_succ_of_getElem? _ _ _ hsl']; simp only [slotsOf] at hsl; rw [hsl]
        · next hge =>
          simp only [PoolOK, slotsOf, List.map_append, List.map_cons, List.map_nil]
          refine ⟨hcur, Or.inl ⟨trivial, trivial, ?_⟩⟩
          simp only [slotsOf] at hsl
          rw [hsl, ← take_succ_of_getElem? _ _ _ hsl']
          apply List.take_of_length_le
          unfold Params.T at hge hk; omega
      · cases hs
    · cases hs
  case submitFail e =>
    unfold stepSubmitFail at hs
    split at hs
    · split at hs
      · split at hs <;> (injection hs with hs; subst hs) <;> simp [PoolOK]
      · cases hs
    · cases hs
  case pollOk =>
    unfold stepPollOk at hs
    split at hs
    · next hpc =>
      simp only [PoolOK, hpc] at h
      obtain ⟨hcur, hsh⟩ := h
      split at hs
      · next x rest d hpend hitem =>
        split at hs
        · next hlen =>
          injection hs with hs; subst hs
          strip_gap
          rcases hsh with ⟨hf, hp, hsl⟩ | ⟨hf, pre, suf, hpay, hsl, hle⟩
          · -- the leader transfer completes
            obtain ⟨a1, a2, a3⟩ := account_first_none (applyData s x.slot d) d.length (by simpa using hf)
            rw [hpend, layout_eq] at hsl
            simp only [slotsOf, List.map_cons, List.cons.injEq] at hsl
            obtain ⟨_, hrest⟩ := hsl
            have hne : rest ≠ [] := by
              intro h0; rw [h0] at hrest; simp at hrest
            simp only [PoolOK, if_neg hne]
            refine ⟨by simpa [applyData_cur_isSome] using hcur, Or.inr ⟨?_, [], P.payloadSlots, by simp, ?_, ?_⟩⟩
            · simp [a1]
            · simpa [slotsOf] using hrest
            · simp only [a3, applyData_plen, hp, lenSum_payloadSlots]; omega
          · obtain ⟨a1, a2, a3⟩ := account_first_some (applyData s x.slot d) d.length (by simpa using hf)
            rw [hpend] at hsl
            simp only [slotsOf, List.map_cons] at hsl
            cases suf with
            | nil =>
              -- the trailer transfer completes
              simp only [List.nil_append, List.cons.injEq] at hsl
              obtain ⟨hx, hrest⟩ := hsl
              have hr : rest = [] := by simpa using hrest
              subst hr
              simp only [PoolOK, if_true]
              refine ⟨trivial, by simpa [applyData_cur_isSome] using hcur, ?_, d.length, a2, ?_, ?_, ?_⟩
              · rw [a1]; simpa using hf
              · rw [a3]; omega
              · rw [a3, applyData_plen]; simp at hle; omega
              · rw [hx] at hlen; exact hlen
            | cons y suf' =>
              simp only [List.cons_append, List.cons.injEq] at hsl
              obtain ⟨hx, hrest⟩ := hsl
              have hne : rest ≠ [] := by
                intro h0; rw [h0] at hrest; simp at hrest
              simp only [PoolOK, if_neg hne]
              refine ⟨by simpa [applyData_cur_isSome] using hcur, Or.inr ⟨?_, pre ++ [y], suf', by simp [hpay], ?_, ?_⟩⟩
              · rw [a1]; simpa using hf
              · simpa [slotsOf] using hrest
              · rw [a3, applyData_plen]
                simp only [lenSum_cons] at hle
                rw [hx] at hlen; omega
        · cases hs
      · cases hs
    · cases hs
  case pollOverflow =>
    unfold stepPollOverflow at hs
    split at hs
    · split at hs
      · split at hs
        · cases hs
        · injection hs with hs; subst hs; simp [PoolOK]
      · cases hs
    · cases hs
  case pollFault =>
    unfold stepPollFault at hs
    split at hs
    · split at hs
      · injection hs with hs; subst hs; simp [PoolOK]
      · cases hs
    · cases hs
  case pollPending =>
    unfold stepPollPending at hs
    split at hs
    · split at hs
      · injection hs with hs; subst hs; simp [PoolOK]
      · cases hs
    · cases hs
  case pollErr e =>
    unfold stepPollErr at hs
    split at hs
    · split at hs
      · injection hs with hs; subst hs; simp [PoolOK]
      · cases hs
    · cases hs
  case rxSendForeign bs =>
    unfold stepRxSendForeign at hs
    split at hs
    · split at hs <;> (injection hs with hs; subst hs; exact PoolOK_congr rfl rfl rfl rfl rfl rfl h)
    · cases hs
  case parse =>
    unfold stepParse at hs
    split at hs
    · next hpc =>
      simp only [PoolOK, hpc] at h
      obtain ⟨hpend, _, _⟩ := h
      split at hs
      · split at hs
        · dsimp only at hs
          split at hs
          · injection hs with hs; subst hs; simp [PoolOK, hpend]
          · split at hs <;> (injection hs with hs; subst hs) <;> simp [PoolOK, hpend]
        · injection hs with hs; subst hs; simp [PoolOK, hpend]
      · injection hs with hs; subst hs; simp [PoolOK, hpend]
    · cases hs
  case trySend =>
    unfold stepTrySend at hs
    split at hs
    · split at hs <;> split at hs <;> (injection hs with hs; subst hs) <;> simp [PoolOK]
    · cases hs
  case cancelNext =>
    unfold stepCancelNext at hs
    split at hs
    · split at hs
      · injection hs with hs; subst hs; simp only [PoolOK]; omega
      · cases hs
    · cases hs
  case reapOne =>
    unfold stepReapOne at hs
    split at hs
    · split at hs
      · next x rest hpend =>
        split at hs
        · next hc => injection hs with hs; subst hs; simp only [PoolOK]; rw [hpend] at hc; simp at hc; omega
        · cases hs
      · cases hs
    · cases hs
  case reapFault =>
    unfold stepReapFault at hs
    split at hs
    · split at hs
      · next x rest e hpend hitem =>
        split at hs
        · next hc => injection hs with hs; subst hs; simp only [PoolOK]; rw [hpend] at hc; simp at hc; omega
        · cases hs
      · cases hs
    · cases hs
  case reapLate =>
    unfold stepReapLate at hs
    split at hs
    · split at hs
      · injection hs with hs; subst hs; exact PoolOK_congr rfl rfl rfl rfl rfl rfl h
      · cases hs
    · cases hs
  case iterEnd =>
    unfold stepIterEnd at hs
    split at hs
    · split at hs
      · next hp => injection hs with hs; subst hs; simp [PoolOK, hp]
      · cases hs
    · cases hs
  case exit =>
    unfold stepExit at hs
    split at hs
    · next hpc =>
      injection hs with hs; subst hs
      simp only [PoolOK, hpc] at h ⊢; exact h
    · cases hs
  case rxRecv =>
    unfold stepRxRecv at hs
    split at hs
    · split at hs
      · injection hs with hs; subst hs; exact PoolOK_congr rfl rfl rfl rfl rfl rfl h
      · injection hs with hs; subst hs; exact PoolOK_congr rfl rfl rfl rfl rfl rfl h
      · cases hs
    · cases hs
  case rxNone =>
    unfold stepRxNone at hs
    split at hs
    · injection hs with hs; subst hs; exact h
    · cases hs
  case rxSendBack id =>
    unfold stepRxSendBack at hs
    split at hs
    · split at hs
      · split at hs <;> (injection hs with hs; subst hs; exact PoolOK_congr rfl rfl rfl rfl rfl rfl h)
      · cases hs
    · cases hs
  case rxDrop id =>
    unfold stepRxDrop at hs
    split at hs
    · injection hs with hs; subst hs; exact PoolOK_congr rfl rfl rfl rfl rfl rfl h
    · cases hs
  case rxClose =>
    unfold stepRxClose at hs
    split at hs
    · injection hs with hs; subst hs; exact PoolOK_congr rfl rfl rfl rfl rfl rfl h
    · cases hs
  case stopCall =>
    unfold stepStopCall at hs
    split at hs
    · injection hs with hs; subst hs; exact PoolOK_congr rfl rfl rfl rfl rfl rfl h
    · cases hs
  case stopBlock =>
    unfold stepStopBlock at hs
    split at hs
    · split at hs <;> (injection hs with hs; subst hs; exact PoolOK_congr rfl rfl rfl rfl rfl rfl h)
    · cases hs
  case stopDisc =>
    unfold stepStopDisc at hs
    split at hs
    · injection hs with hs; subst hs; exact PoolOK_congr rfl rfl rfl rfl rfl rfl h
    · cases hs
  case closeDone =>
    unfold stepCloseDone at hs
    split at hs
    · injection hs with hs; subst hs; exact PoolOK_congr rfl rfl rfl rfl rfl rfl h
    · cases hs

/-! ### Buffer sizes and `read ≤ |buf|` -/

def MsgOK (P : Params) (m : OkMsg) : Prop := m.read ≤ P.maxPayload ∧ m.buf.bytes.length = P.maxPayload

structure Sizes (P : Params) (s : State) : Prop where
  leader : s.leaderBuf.length = P.leaderSize
  trailer : s.trailerBuf.length = P.trailerSize
  cur : ∀ b, s.cur = some b → b.bytes.length = P.maxPayload
  reuse : ∀ b, s.reuse = some b → b.bytes.length = P.maxPayload
  inHand : ∀ m, s.pc = .send (.ok m) → MsgOK P m
  sent : ∀ m ∈ s.sentLog, MsgOK P m

theorem Sizes_init (P : Params) : Sizes P (init P) := by
  constructor <;> simp [init]

/-- The slot of the front transfer while polling is one of the layout's slots. -/
theorem front_slot_of_PoolOK {P : Params} {s : State} {x : Xfer} {rest : List Xfer}
    (h : PoolOK P s) (hpc : s.pc = .poll) (hp : s.pending = x :: rest) :
    x.slot = leaderSlot P ∨ x.slot = trailerSlot P ∨ x.slot ∈ P.payloadSlots := by
  simp only [PoolOK, hpc] at h
  obtain ⟨_, hsh⟩ := h
  rcases hsh with ⟨_, _, hsl⟩ | ⟨_, pre, suf, hpay, hsl, _⟩
  · rw [hp, layout_eq] at hsl
    simp only [slotsOf, List.map_cons, List.cons.injEq] at hsl
    exact Or.inl hsl.1
  · rw [hp] at hsl
    simp only [slotsOf, List.map_cons] at hsl
    cases suf with
    | nil => simp only [List.nil_append, List.cons.injEq] at hsl; exact Or.inr (Or.inl hsl.1)
    | cons y suf' =>
      simp only [List.cons_append, List.cons.injEq] at hsl
      refine Or.inr (Or.inr ?_)
      rw [hpay, hsl.1]; simp

theorem applyData_sizes {P : Params} {s : State} {sl : Slot} {d : Bytes}
    (hz : Sizes P s) (hsl : sl = leaderSlot P ∨ sl = trailerSlot P ∨ sl ∈ P.payloadSlots)
    (hd : d.length ≤ sl.len) :
    (applyData s sl d).leaderBuf.length = P.leaderSize ∧
    (applyData s sl d).trailerBuf.length = P.trailerSize ∧
    (∀ b, (applyData s sl d).cur = some b → b.bytes.length = P.maxPayload) := by
  rcases hsl with rfl | rfl | hmem
  · simp only [applyData, leaderSlot]
    refine ⟨?_, hz.trailer, hz.cur⟩
    rw [writeAt_length] <;> simp only [leaderSlot] at hd <;> have := hz.leader <;> omega
  · simp only [applyData, trailerSlot]
    refine ⟨hz.leader, ?_, hz.cur⟩
    rw [writeAt_length] <;> simp only [trailerSlot] at hd <;> have := hz.trailer <;> omega
  · obtain ⟨ht, hr⟩ := payloadSlots_in_range P sl hmem
    simp only [applyData, ht]
    cases hc : s.cur with
    | none => simp only; exact ⟨hz.leader, hz.trailer, by simp [hc]⟩
    | some b =>
      simp only
      refine ⟨hz.leader, hz.trailer, ?_⟩
      intro b' hb'
      injection hb' with hb'; subst hb'
      have := hz.cur b hc
      simp only
      rw [writeAt_length] <;> omega

theorem Sizes_step {P : Params} {A : Assembler} {script : List Item} {s s' : State} {a : Step}
    (hp : PoolOK P s) (h : Sizes P s) (hs : step P A script s a = some s') : Sizes P s' := by
  obtain ⟨hl, ht, hc, hr, hi, hsn⟩ := h
  cases a <;> simp only [step] at hs
  case checkCancel =>
    unfold stepCheckCancel at hs
    split at hs
    · next hpc =>
      split at hs <;> (injection hs with hs; subst hs) <;>
        exact ⟨hl, ht, hc, hr, by simp, hsn⟩
    · cases hs
  case obtainReuse =>
    unfold stepObtainReuse at hs
    split at hs
    · split at hs
      · next b hb =>
        injection hs with hs; subst hs
        exact ⟨hl, ht, by intro b' h'; injection h' with h'; subst h'; exact hr _ hb, by simp, by simp, hsn⟩
      · cases hs
    · cases hs
  case obtainBack =>
    unfold stepObtainBack at hs
    split at hs
    · split at hs
      · injection hs with hs; subst hs
        exact ⟨hl, ht, by intro b' h'; injection h' with h'; subst h'; exact resize_length _ _, hr, by simp, hsn⟩
      · cases hs
    · cases hs
  case obtainAlloc =>
    unfold stepObtainAlloc at hs
    split at hs
    · injection hs with hs; subst hs
      exact ⟨hl, ht, by intro b' h'; injection h' with h'; subst h'; simp, hr, by simp, hsn⟩
    · cases hs
  case submitOk =>
    unfold stepSubmitOk at hs
    split at hs
    · split at hs
      · split at hs <;> (injection hs with hs; subst hs) <;> exact ⟨hl, ht, hc, hr, by simp, hsn⟩
      · cases hs
    · cases hs
  case submitFail e =>
    unfold stepSubmitFail at hs
    split at hs
    · split at hs
      · split at hs <;> (injection hs with hs; subst hs) <;>
          exact ⟨hl, ht, by simp, hc, by simp, hsn⟩
      · cases hs
    · cases hs
  case pollOk =>
    unfold stepPollOk at hs
    split at hs
    · next hpc =>
      split at hs
      · next x rest d hpend hitem =>
        split at hs
        · next hlen =>
          injection hs with hs; subst hs
          strip_gap
          have hslot := front_slot_of_PoolOK hp hpc hpend
          obtain ⟨b1, b2, b3⟩ := applyData_sizes ⟨hl, ht, hc, hr, hi, hsn⟩ hslot hlen
          refine ⟨by simpa using b1, by simpa using b2, by simpa using b3, by simpa using hr, ?_, by simpa using hsn⟩
          intro m hm
          by_cases hrest : rest = [] <;> simp [hrest] at hm
        · cases hs
      · cases hs
    · cases hs
  case pollOverflow =>
    unfold stepPollOverflow at hs
    split at hs
    · split at hs
      · split at hs
        · cases hs
        · injection hs with hs; subst hs; exact ⟨hl, ht, hc, hr, by simp, hsn⟩
      · cases hs
    · cases hs
  case pollFault =>
    unfold stepPollFault at hs
    split at hs
    · split at hs
      · injection hs with hs; subst hs; exact ⟨hl, ht, hc, hr, by simp, hsn⟩
      · cases hs
    · cases hs
  case pollPending =>
    unfold stepPollPending at hs
    split at hs
    · split at hs
      · injection hs with hs; subst hs; exact ⟨hl, ht, hc, hr, by simp, hsn⟩
      · cases hs
    · cases hs
  case pollErr e =>
    unfold stepPollErr at hs
    split at hs
    · split at hs
      · injection hs with hs; subst hs; exact ⟨hl, ht, hc, hr, by simp, hsn⟩
      · cases hs
    · cases hs
  case rxSendForeign bs =>
    unfold stepRxSendForeign at hs
    split at hs
    · split at hs <;> (injection hs with hs; subst hs; exact ⟨hl, ht, hc, hr, hi, hsn⟩)
    · cases hs
  case parse =>
    unfold stepParse at hs
    split at hs
    · next hpc =>
      simp only [PoolOK, hpc] at hp
      obtain ⟨_, _, _, l0, hl0, hle, hmax, _⟩ := hp
      split at hs
      · next l b hlast hcur =>
        rw [hlast] at hl0; injection hl0 with hl0; subst hl0
        rw [if_pos hle] at hs
        dsimp only at hs
        split at hs
        · injection hs with hs; subst hs
          exact ⟨hl, ht, by simp, by simpa [hcur] using hc, by simp, hsn⟩
        split at hs <;> (injection hs with hs; subst hs)
        · exact ⟨hl, ht, by simp, by simpa [hcur] using hc, by simp, hsn⟩
        · exact ⟨hl, ht, by simp, by simpa [hcur] using hc, by simp, hsn⟩
        · exact ⟨hl, ht, by simp, by simpa [hcur] using hc, by simp, hsn⟩
        · exact ⟨hl, ht, by simp, hr, by simp, hsn⟩
        · refine ⟨hl, ht, by simp, hr, ?_, hsn⟩
          intro m hm
          simp only [PC.send.injEq, Msg.ok.injEq] at hm
          subst hm
          exact ⟨hmax, hc b hcur⟩
        · exact ⟨hl, ht, by simp, by simp, by simp, hsn⟩
      · injection hs with hs; subst hs
        exact ⟨hl, ht, by simp, by simp, by simp, hsn⟩
    · cases hs
  case trySend =>
    unfold stepTrySend at hs
    split at hs
    · next m hpc =>
      split at hs <;> split at hs <;> (injection hs with hs; subst hs)
      · refine ⟨hl, ht, hc, hr, by simp, ?_⟩
        intro m' hm'
        simp only [List.mem_append, List.mem_singleton] at hm'
        rcases hm' with hm' | rfl
        · exact hsn _ hm'
        · exact hi _ hpc
      · exact ⟨hl, ht, hc, hr, by simp, hsn⟩
      · exact ⟨hl, ht, hc, hr, by simp, hsn⟩
      · exact ⟨hl, ht, hc, hr, by simp, hsn⟩
    · cases hs
  case cancelNext =>
    unfold stepCancelNext at hs
    split at hs
    · split at hs
      · injection hs with hs; subst hs; exact ⟨hl, ht, hc, hr, by simp, hsn⟩
      · cases hs
    · cases hs
  case reapOne =>
    unfold stepReapOne at hs
    split at hs
    · split at hs
      · split at hs
        · injection hs with hs; subst hs; exact ⟨hl, ht, hc, hr, by simp, hsn⟩
        · cases hs
      · cases hs
    · cases hs
  case reapFault =>
    unfold stepReapFault at hs
    split at hs
    · split at hs
      · split at hs
        · injection hs with hs; subst hs; exact ⟨hl, ht, hc, hr, by simp, hsn⟩
        · cases hs
      · cases hs
    · cases hs
  case reapLate =>
    unfold stepReapLate at hs
    split at hs
    · split at hs
      · injection hs with hs; subst hs; exact ⟨hl, ht, hc, hr, by simpa using hi, hsn⟩
      · cases hs
    · cases hs
  case iterEnd =>
    unfold stepIterEnd at hs
    split at hs
    · split at hs
      · injection hs with hs; subst hs; exact ⟨hl, ht, by simp, hr, by simp, hsn⟩
      · cases hs
    · cases hs
  case exit =>
    unfold stepExit at hs
    split at hs
    · injection hs with hs; subst hs; exact ⟨hl, ht, hc, by simp, by simp, hsn⟩
    · cases hs
  case rxRecv =>
    unfold stepRxRecv at hs
    split at hs
    · split at hs
      · injection hs with hs; subst hs; exact ⟨hl, ht, hc, hr, hi, hsn⟩
      · injection hs with hs; subst hs; exact ⟨hl, ht, hc, hr, hi, hsn⟩
      · cases hs
    · cases hs
  case rxNone =>
    unfold stepRxNone at hs
    split at hs
    · injection hs with hs; subst hs; exact ⟨hl, ht, hc, hr, hi, hsn⟩
    · cases hs
  case rxSendBack id =>
    unfold stepRxSendBack at hs
    split at hs
    · split at hs
      · split at hs <;> (injection hs with hs; subst hs; exact ⟨hl, ht, hc, hr, hi, hsn⟩)
      · cases hs
    · cases hs
  case rxDrop id =>
    unfold stepRxDrop at hs
    split at hs
    · injection hs with hs; subst hs; exact ⟨hl, ht, hc, hr, hi, hsn⟩
    · cases hs
  case rxClose =>
    unfold stepRxClose at hs
    split at hs
    · injection hs with hs; subst hs; exact ⟨hl, ht, hc, hr, hi, hsn⟩
    · cases hs
  case stopCall =>
    unfold stepStopCall at hs
    split at hs
    · injection hs with hs; subst hs; exact ⟨hl, ht, hc, hr, hi, hsn⟩
    · cases hs
  case stopBlock =>
    unfold stepStopBlock at hs
    split at hs
    · split at hs <;> (injection hs with hs; subst hs; exact ⟨hl, ht, hc, hr, hi, hsn⟩)
    · cases hs
  case stopDisc =>
    unfold stepStopDisc at hs
    split at hs
    · injection hs with hs; subst hs; exact ⟨hl, ht, hc, hr, hi, hsn⟩
    · cases hs
  case closeDone =>
    unfold stepCloseDone at hs
    split at hs
    · injection hs with hs; subst hs; exact ⟨hl, ht, hc, hr, hi, hsn⟩
    · cases hs

/-! ### Lifting to reachable states (any number of sessions) -/

theorem PoolOK_restart (P' : Params) (s : State) : PoolOK P' (restartState P' s) := by
  simp [PoolOK, restartState, init]

theorem Sizes_restart (P' : Params) (s : State) : Sizes P' (restartState P' s) := by
  constructor <;> simp [restartState, init]

theorem reach_wf {P : Params} {A : Assembler} {script : List Item} {s : State}
    (h : Reach A P script s) : PoolOK P s ∧ Sizes P s := by
  induction h with
  | init => exact ⟨PoolOK_init _, Sizes_init _⟩
  | restart _ _ _ => exact ⟨PoolOK_restart _ _, Sizes_restart _ _⟩
  | step _ hs ih => exact ⟨PoolOK_step ih.1 hs, Sizes_step ih.1 ih.2 hs⟩

theorem reach_of_run {P : Params} {A : Assembler} {script : List Item} {s0 s : State} {as : List Step}
    (h0 : Reach A P script s0) (h : run P A script s0 as = some s) : Reach A P script s := by
  induction as generalizing s0 with
  | nil => simp only [run] at h; injection h with h; subst h; exact h0
  | cons a as ih =>
    simp only [run] at h
    split at h
    · next s1 hs1 => exact ih (Reach.step h0 hs1) h
    · cases h

/-! ### Buffer ownership -/

def optId : Option Buf → List Nat
  | some b => [b.id]
  | none => []

def inHand : PC → List Nat
  | .send (.ok m) => [m.buf.id]
  | _ => []

/-- Buffers owned by the loop: current buffer (also the target of every in-flight transfer),
the buffer kept for reuse, the payload about to be sent. -/
def loopOwned (s : State) : List Nat := optId s.cur ++ optId s.reuse ++ inHand s.pc
def chanOwned (s : State) : List Nat := s.chan.filterMap msgBufId
def rxOwned (s : State) : List Nat := s.held.map (·.buf.id)
def backOwned (s : State) : List Nat := s.back.map (·.buf.id)

/-- Every ownership claim on a buffer identity, owner by owner. -/
def owned (s : State) : List Nat :=
  loopOwned s ++ chanOwned s ++ rxOwned s ++ backOwned s ++ s.freed

/-- Each allocated identity has exactly one owner, unallocated ones none. -/
def Own (s : State) : Prop := ∀ i, (owned s).count i = if i < s.nextBuf then 1 else 0

theorem Own_init (P : Params) : Own (init P) := by
  intro i; simp [owned, loopOwned, chanOwned, rxOwned, backOwned, optId, inHand, init]

theorem takeHeld_count {id : Nat} {held rest : List OkMsg} {m : OkMsg}
    (h : takeHeld id held = some (m, rest)) (i : Nat) :
    (held.map (·.buf.id)).count i = ([m.buf.id].count i) + (rest.map (·.buf.id)).count i := by
  induction held generalizing rest with
  | nil => simp [takeHeld] at h
  | cons x xs ih =>
    simp only [takeHeld] at h
    split at h
    · injection h with h; injection h with h1 h2; subst h1; subst h2
      simp [List.count_cons]; omega
    · split at h
      · next y r hr =>
        injection h with h; injection h with h1 h2; subst h1; subst h2
        have := ih hr
        simp only [List.map_cons, List.count_cons] at this ⊢
        omega
      · cases h

theorem takeHeld_mem {id : Nat} {held rest : List OkMsg} {m : OkMsg}
    (h : takeHeld id held = some (m, rest)) : m ∈ held ∧ m.buf.id = id := by
  induction held generalizing rest with
  | nil => simp [takeHeld] at h
  | cons x xs ih =>
    simp only [takeHeld] at h
    split at h
    · next hx => injection h with h; injection h with h1 h2; subst h1; exact ⟨by simp, hx⟩
    · split at h
      · next y r hr =>
        injection h with h; injection h with h1 h2; subst h1
        exact ⟨List.mem_cons_of_mem _ (ih hr).1, (ih hr).2⟩
      · cases h

@[simp] theorem optId_some (b : Buf) : optId (some b) = [b.id] := rfl
@[simp] theorem optId_none : optId none = [] := rfl
@[simp] theorem fm_err (e : SErr) (r : List Msg) :
    List.filterMap msgBufId (.err e :: r) = List.filterMap msgBufId r := rfl
@[simp] theorem fm_ok (m : OkMsg) (r : List Msg) :
    List.filterMap msgBufId (.ok m :: r) = m.buf.id :: List.filterMap msgBufId r := rfl
@[simp] theorem inHand_ok (m : OkMsg) : inHand (.send (.ok m)) = [m.buf.id] := rfl

/-! ### Generic case split over all steps -/

set_option hygiene false in
/-- Unfold the step function of the current case, split every `if`/`match` of the hypothesis `hs`
and substitute the successor state.  Leaves one goal per branch that returns `some _`. -/
macro "step_split" : tactic => `(tactic| (
  (first
    | unfold stepCheckCancel at hs | unfold stepObtainReuse at hs | unfold stepObtainBack at hs
    | unfold stepObtainAlloc at hs | unfold stepSubmitOk at hs | unfold stepSubmitFail at hs
    | unfold stepPollOk at hs | unfold stepPollOverflow at hs | unfold stepPollFault at hs
    | unfold stepPollPending at hs | unfold stepPollErr at hs | unfold stepRxSendForeign at hs
    | unfold stepParse at hs | unfold stepTrySend at hs
    | unfold stepCancelNext at hs | unfold stepReapOne at hs | unfold stepReapFault at hs | unfold stepReapLate at hs
    | unfold stepIterEnd at hs
    | unfold stepExit at hs | unfold stepRxRecv at hs | unfold stepRxNone at hs
    | unfold stepRxSendBack at hs | unfold stepRxDrop at hs | unfold stepRxClose at hs
    | unfold stepStopCall at hs | unfold stepStopBlock at hs | unfold stepStopDisc at hs
    | unfold stepCloseDone at hs)
  repeat' (first | split at hs | (dsimp only at hs; split at hs))
  all_goals (first | (cases hs; done) | (injection hs with hs; subst hs))))

/-- While the loop body owns a buffer, `payload_buf_opt` is empty (it was `take()`n). -/
def ReuseOK (s : State) : Prop := s.cur.isSome = true → s.reuse = none

theorem ReuseOK_init (P : Params) : ReuseOK (init P) := by simp [ReuseOK, init]

theorem ReuseOK_step {P : Params} {A : Assembler} {script : List Item} {s s' : State} {a : Step}
    (h : ReuseOK s) (hs : step P A script s a = some s') : ReuseOK s' := by
  cases a <;> simp only [step] at hs <;> step_split <;>
    simp_all [ReuseOK, applyData_cur_isSome]

theorem count_freeOpt (f : List Nat) (o : Option Buf) (i : Nat) :
    (freeOpt f o).count i = (optId o).count i + f.count i := by
  cases o <;> simp [freeOpt, List.count_cons]; omega

theorem applyData_cur_id (s : State) (sl : Slot) (d : Bytes) :
    optId (applyData s sl d).cur = optId s.cur := by
  unfold applyData
  split
  · rfl
  · rfl
  · split
    · next b hb => simp [hb, optId]
    · next hb => simp [hb]


theorem Own_step {P : Params} {A : Assembler} {script : List Item} {s s' : State} {a : Step}
    (hp : PoolOK P s) (hr : ReuseOK s) (h : Own s) (hs : step P A script s a = some s') : Own s' := by
  cases a <;> simp only [step] at hs
  case obtainAlloc =>
    unfold stepObtainAlloc at hs
    split at hs
    · next hc =>
      simp only [PoolOK, hc.1] at hp
      injection hs with hs; subst hs
      intro i; have hi := h i
      simp only [owned, loopOwned, chanOwned, rxOwned, backOwned, inHand, optId_some, optId_none, hc.1, hc.2.1, hp.2,
        List.count_append, List.count_cons, List.count_nil, beq_iff_eq] at hi ⊢
      by_cases h1 : i < s.nextBuf
      · have e1 : ¬ s.nextBuf = i := by omega
        have e2 : i < s.nextBuf + 1 := by omega
        simp only [h1, e1, e2, if_true, if_false] at hi ⊢; omega
      · by_cases h2 : s.nextBuf = i
        · have e2 : i < s.nextBuf + 1 := by omega
          simp only [h1, e2, if_true, if_false] at hi ⊢
          simp only [h2, if_true]; omega
        · have e2 : ¬ i < s.nextBuf + 1 := by omega
          simp only [h1, h2, e2, if_true, if_false] at hi ⊢; omega
    · cases hs
  case rxSendForeign bs =>
    unfold stepRxSendForeign at hs
    split at hs
    · split at hs <;> (injection hs with hs; subst hs) <;>
      · intro i; have hi := h i
        simp only [owned, loopOwned, chanOwned, rxOwned, backOwned, List.count_append, List.count_cons,
          List.count_nil, List.map_append, List.map_cons, List.map_nil, beq_iff_eq] at hi ⊢
        by_cases h1 : i < s.nextBuf
        · have e1 : ¬ s.nextBuf = i := by omega
          have e2 : i < s.nextBuf + 1 := by omega
          simp only [h1, e1, e2, if_true, if_false] at hi ⊢; omega
        · by_cases h2 : s.nextBuf = i
          · have e2 : i < s.nextBuf + 1 := by omega
            simp only [h1, e2, if_true, if_false] at hi ⊢
            simp only [h2, if_true]; omega
          · have e2 : ¬ i < s.nextBuf + 1 := by omega
            simp only [h1, h2, e2, if_true, if_false] at hi ⊢; omega
    · cases hs
  case rxSendBack id =>
    unfold stepRxSendBack at hs
    split at hs
    · split at hs
      · next m rest htk =>
        have hcnt := takeHeld_count htk
        split at hs <;> (injection hs with hs; subst hs) <;>
        · intro i; have hi := h i; have hc := hcnt i
          simp only [owned, loopOwned, chanOwned, rxOwned, backOwned, List.count_append, List.count_cons,
            List.count_nil, List.map_append, List.map_cons, List.map_nil] at hi hc ⊢
          rw [← hi]; omega
      · cases hs
    · cases hs
  case rxDrop id =>
    unfold stepRxDrop at hs
    split at hs
    · next m rest htk =>
      have hcnt := takeHeld_count htk
      injection hs with hs; subst hs
      intro i; have hi := h i; have hc := hcnt i
      simp only [owned, loopOwned, chanOwned, rxOwned, backOwned, List.count_append, List.count_cons,
        List.count_nil, List.map_append, List.map_cons, List.map_nil] at hi hc ⊢
      rw [← hi]; omega
    · cases hs
  all_goals (
    step_split <;>
    (intro i; have hi := h i
     simp_all [owned, loopOwned, chanOwned, rxOwned, backOwned, inHand, PoolOK, ReuseOK,
       List.count_append, List.count_cons, count_freeOpt, applyData_cur_id] <;> try omega))

/-! ### Order of delivery -/

def okMsgs : List Msg → List OkMsg
  | [] => []
  | .ok m :: r => m :: okMsgs r
  | .err _ :: r => okMsgs r

@[simp] theorem okMsgs_append (a b : List Msg) : okMsgs (a ++ b) = okMsgs a ++ okMsgs b := by
  induction a with
  | nil => rfl
  | cons x xs ih => cases x <;> simp [okMsgs, ih]

/-- History invariant behind `in_order_no_dup`. -/
structure Order (P : Params) (s : State) : Prop where
  /-- everything enqueued is either received already or still in the channel, in that order -/
  split : s.recvLog ++ okMsgs s.chan = s.sentLog
  /-- enqueued payloads come from pairwise disjoint, increasing script segments of `T` items -/
  incr : (s.sentLog.map (·.start)).Pairwise (fun a b => a + P.T ≤ b)
  bound : ∀ m ∈ s.sentLog, m.start + P.T ≤ s.iterStart ∨ (s.enq = true ∧ m.start = s.iterStart)
  enqc : s.enq = true → s.iterStart + P.T ≤ s.consumed
  le : s.iterStart ≤ s.consumed
  inHand : ∀ m, s.pc = .send (.ok m) → m.start = s.iterStart ∧ s.enq = false ∧ s.iterStart + P.T ≤ s.consumed
  cnt : match s.pc with
    | .obtain | .submit _ => s.consumed = s.iterStart ∧ s.enq = false
    | .poll => s.consumed + s.pending.length = s.iterStart + P.T ∧ s.enq = false
    | .parse => s.consumed = s.iterStart + P.T ∧ s.enq = false
    | _ => True

theorem Order_init (P : Params) : Order P (init P) := by
  constructor <;> simp [init, okMsgs]

theorem pending_length_of_submit {P : Params} {s : State} {k : Nat} (hp : PoolOK P s)
    (hpc : s.pc = .submit k) : s.pending.length = k := by
  simp only [PoolOK, hpc] at hp
  have := congrArg List.length hp.2.1
  simp only [slotsOf, List.length_map, List.length_take] at this
  have hk := hp.1
  unfold Params.T at hk
  omega

end CamVerif.StreamLoop
