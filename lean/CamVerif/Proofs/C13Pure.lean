/-
C13 (growth round 2) — the pure methods of the value structs, one lemma per method:
* `is_…` bit tests of `DeviceCapability` / `U3VCapablitiy` / `DeviceConfiguration`;
* the `DeviceConfiguration` mutators (`set_bit!` / `unset_bit!`);
* `GenICamFileInfo::{file_type, compression_type, schema_version}`.
Everything is stated for ALL words (bit-extensionally), not for samples.
-/
import CamVerif.Proofs.C13
namespace CamVerif.RegMap
open CamVerif

/-! ### Bit tests -/

theorem isBitSet_eq_testBit (raw bit : Nat) : isBitSet raw bit = raw.testBit bit := by
  simp only [isBitSet, Nat.testBit, Nat.and_comm (raw >>> bit) 1, Nat.one_and_eq_mod_two,
    Bool.beq_eq_decide_eq]
  have := Nat.mod_two_eq_zero_or_one (raw >>> bit)
  rcases this with h | h <;> simp [h]

/-- every (struct, predicate, bit) of the standards' tables resolves in the generated tables -/
theorem capBit_spec :
    (Spec.U3V.capBits ++ Spec.U3V.cfgBits).all (fun x => capBit x.1 x.2.1 == some x.2.2) = true := by
  decide

theorem bitTest_spec (st pred : String) (bit : Nat)
    (h : (st, pred, bit) ∈ Spec.U3V.capBits ++ Spec.U3V.cfgBits) (raw : Nat) :
    bitTest st pred raw = some (raw.testBit bit) := by
  have := List.all_eq_true.mp capBit_spec _ h
  simp only [beq_iff_eq] at this
  simp [bitTest, this, isBitSet_eq_testBit]

/-- flipping any other bit of the word does not change the answer -/
theorem testBit_flip_other (raw bit j : Nat) (hj : j ≠ bit) :
    (raw ^^^ 2 ^ j).testBit bit = raw.testBit bit := by
  rw [Nat.testBit_xor, Nat.testBit_two_pow]
  simp [hj]

/-- flipping the bit itself flips the answer -/
theorem testBit_flip_self (raw bit : Nat) :
    (raw ^^^ 2 ^ bit).testBit bit = !raw.testBit bit := by
  rw [Nat.testBit_xor, Nat.testBit_two_pow]
  simp

/-! ### `set_bit!` / `unset_bit!` on a u64 -/

theorem set_bit_testBit (raw bit i : Nat) :
    (raw ||| (1 <<< bit)).testBit i = (decide (i = bit) || raw.testBit i) := by
  rw [Nat.testBit_or, Nat.one_shiftLeft, Nat.testBit_two_pow, Bool.or_comm]
  congr 1
  simp [eq_comm]

theorem set_bit_lt (raw bit : Nat) (hr : raw < 2 ^ 64) (hb : bit < 64) :
    raw ||| (1 <<< bit) < 2 ^ 64 := by
  apply Nat.or_lt_two_pow hr
  rw [Nat.one_shiftLeft]
  exact Nat.pow_lt_pow_right (by decide) hb

theorem unset_bit_testBit (raw bit i : Nat) (hr : raw < 2 ^ 64) (hb : bit < 64) :
    (raw &&& (2 ^ 64 - 1 - (1 <<< bit))).testBit i = (!decide (i = bit) && raw.testBit i) := by
  have h2 : 2 ^ bit < 2 ^ 64 := Nat.pow_lt_pow_right (by decide) hb
  have hc : 2 ^ 64 - 1 - (1 <<< bit) = 2 ^ 64 - (2 ^ bit + 1) := by
    rw [Nat.one_shiftLeft]; omega
  rw [Nat.testBit_and, hc, Nat.testBit_two_pow_sub_succ h2, Nat.testBit_two_pow, Bool.and_comm]
  by_cases hi : i < 64
  · simp [hi, eq_comm]
  · have : raw.testBit i = false :=
      Nat.testBit_lt_two_pow (Nat.lt_of_lt_of_le hr (Nat.pow_le_pow_right (by decide) (by omega)))
    simp [this]

theorem unset_bit_lt (raw c : Nat) (hr : raw < 2 ^ 64) : raw &&& c < 2 ^ 64 :=
  Nat.lt_of_le_of_lt Nat.and_le_left hr

/-- every mutator of the standards' table resolves in the generated table, to a bit < 64 -/
theorem cfgOps_spec :
    Spec.U3V.cfgOps.all (fun x =>
      Gen.RegMap.cfgOps.find? (·.1 == x.1) == some x && decide (x.2.2 < 64) &&
      (x.2.1 == "set_bit" || x.2.1 == "unset_bit")) = true := by
  decide

theorem cfgOp_spec (m kind : String) (bit : Nat) (h : (m, kind, bit) ∈ Spec.U3V.cfgOps)
    (raw : Nat) (hr : raw < 2 ^ 64) :
    ∃ r, cfgOp m raw = some r ∧ r < 2 ^ 64 ∧
      ∀ i, r.testBit i = if i = bit then Spec.U3V.opSets kind else raw.testBit i := by
  have := List.all_eq_true.mp cfgOps_spec _ h
  simp only [Bool.and_eq_true, beq_iff_eq, decide_eq_true_eq, Bool.or_eq_true] at this
  obtain ⟨⟨hf, hb⟩, hk⟩ := this
  rcases hk with hk | hk
  · subst hk
    refine ⟨raw ||| (1 <<< bit), ?_, set_bit_lt raw bit hr hb, ?_⟩
    · simp [cfgOp, hf, applyCfgOp]
    · intro i
      rw [set_bit_testBit]
      by_cases hi : i = bit <;> simp [hi, Spec.U3V.opSets]
  · subst hk
    refine ⟨raw &&& (2 ^ 64 - 1 - (1 <<< bit)), ?_, unset_bit_lt raw _ hr, ?_⟩
    · simp [cfgOp, hf, applyCfgOp]
    · intro i
      rw [unset_bit_testBit raw bit i hr hb]
      have hne : ("unset_bit" == "set_bit") = false := by decide
      by_cases hi : i = bit <;> simp [hi, Spec.U3V.opSets, hne]

/-! ### `GenICamFileInfo` -/

/-- the layout the three methods read is the standard's -/
def FL : FileInfoLayout :=
  let S : Spec.U3V.FileInfoSpec := {}
  ⟨S.fileType, S.fileTypes, S.compression, S.compressions, S.schemaMajor, S.schemaMinor⟩

theorem fileInfoLayout_spec : fileInfoLayout = some FL := by decide

theorem get_bits (raw hi lo : Nat) (h : Spec.U3V.fieldWf (Spec.U3V.bits hi lo) = true) :
    (Spec.U3V.bits hi lo).get raw = Spec.U3V.bitsOf raw hi lo := by
  rw [Field.get_eq _ _ h]
  simp only [Spec.U3V.bits, Spec.U3V.bitsOf]
  have := Nat.two_pow_pos (hi + 1 - lo)
  congr 1
  omega

theorem lookup2 (v0 v1 : String) (x : Nat) :
    List.lookup x [(0, v0), (1, v1)] =
      match x with
      | 0 => some v0
      | 1 => some v1
      | _ => none := by
  match x with
  | 0 => rfl
  | 1 => rfl
  | n + 2 => rfl

theorem fileTypeOf_spec (raw : Nat) : fileTypeOf raw = some (Spec.U3V.fileTypeStd raw) := by
  simp only [fileTypeOf, fileInfoLayout_spec, Option.map_some, FileInfoLayout.fileTypeOf, FL,
    get_bits raw 2 0 (by decide), Spec.U3V.fileTypeStd, lookup2]
  congr 1
  generalize Spec.U3V.bitsOf raw 2 0 = x
  match x with
  | 0 => rfl
  | 1 => rfl
  | n + 2 => rfl

theorem compressionOf_spec (raw : Nat) : compressionOf raw = some (Spec.U3V.compressionStd raw) := by
  simp only [compressionOf, fileInfoLayout_spec, Option.map_some, FileInfoLayout.compressionOf, FL,
    get_bits raw 15 10 (by decide), Spec.U3V.compressionStd, lookup2]
  congr 1
  generalize Spec.U3V.bitsOf raw 15 10 = x
  match x with
  | 0 => rfl
  | 1 => rfl
  | n + 2 => rfl

theorem schemaOf_spec (raw : Nat) : schemaOf raw = some (Spec.U3V.schemaStd raw) := by
  simp only [schemaOf, fileInfoLayout_spec, Option.map_some, FileInfoLayout.schemaOf, FL,
    get_bits raw 31 24 (by decide), get_bits raw 23 16 (by decide), Spec.U3V.schemaStd]

/-! ### Manifest entry fields of an arbitrary 64-byte entry -/

/-- a field of a block read from memory is the memory read at the field's address -/
theorem readBytes_slice (mem : Nat → UInt8) (a n off len : Nat) (h : off + len ≤ n) :
    ((readBytes mem a n).drop off).take len = readBytes mem (a + off) len := by
  apply List.ext_getElem?
  intro i
  simp only [readBytes, List.getElem?_take, List.getElem?_drop, List.getElem?_map]
  by_cases hi : i < len
  · have h1 : off + i < n := by omega
    simp [hi, List.getElem?_range h1, Nat.add_assoc]
  · simp [hi]

/-- the model's memory device, fresh -/
def freshDev (mem : Nat → UInt8) : Dev := ⟨mem, [], false⟩

theorem entry_rows :
    rowOf "ManifestEntry.genicam_file_version" =
      some ⟨"ManifestEntry.genicam_file_version", .manifestEntry, .get, 0, 4,
        .version ⟨24, 0xFF⟩ ⟨16, 0xFF⟩ (some ⟨0, 0xFFFF⟩), none⟩ ∧
    rowOf "ManifestEntry.file_info" =
      some ⟨"ManifestEntry.file_info", .manifestEntry, .get, 4, 4, .fileInfo, none⟩ ∧
    rowOf "ManifestEntry.file_address" =
      some ⟨"ManifestEntry.file_address", .manifestEntry, .get, 8, 8, .u64, none⟩ ∧
    rowOf "ManifestEntry.file_size" =
      some ⟨"ManifestEntry.file_size", .manifestEntry, .get, 16, 8, .u64, none⟩ ∧
    rowOf "ManifestEntry.sha1_hash" =
      some ⟨"ManifestEntry.sha1_hash", .manifestEntry, .get, 24, 20, .sha1, none⟩ := by
  decide

/-- a guard-free getter of a manifest entry whose register lies inside the address space, on
the fresh memory device: the parse of the register's bytes -/
theorem entry_get (name : String) (off len : Nat) (dec : Dec) (mem : Nat → UInt8) (a cap : Nat)
    (h : a + off + len ≤ 2 ^ 64) (hl : 0 < len) :
    ((⟨name, .manifestEntry, .get, off, len, dec, none⟩ : RRow).run a cap .none (freshDev mem)).1 =
      parse dec (readBytes mem (a + off) len) := by
  have h1 : a + off < 2 ^ 64 := by omega
  have h2 : ¬ (2 ^ 64 < a + off + len) := by omega
  simp [RRow.run, getReg, addrOf, registerAddress, h1, readRegister, Dev.read, Dev.rejects, freshDev, h2]

end CamVerif.RegMap
