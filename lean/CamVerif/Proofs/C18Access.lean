/-
C18 helper lemmas: every access helper of the interpreter, run against the interface
calls `execRec cx d`, answers the corresponding clause of the specification
(`CamVerif.GenApiSem`) whenever it answers at all.
-/
import CamVerif.Proofs.GenApiLemmas
namespace CamVerif.C18
open CamVerif CamVerif.GenApi CamVerif.GenApiSem

variable {F E : Type} (cx : Ctx F E)

/-- `ctlValue` is the value component of `bool_from_id` -/
theorem ctlValue_of_ok {d : Nat} {c : NodeId} {s : S F} {b : Bool}
    (h : R.val (boolFromId cx (execRec cx d) c) s = .ok b) : ctlValue cx d c s = some b := by
  unfold ctlValue; unfold R.val at h; rw [h]

theorem base_implemented_spec {d : Nat} {b : Base} {s : S F} {x : Bool}
    (h : R.val (baseIsImplemented cx (execRec cx d) b) s = .ok x) :
    x = ctlIs cx d b.pIsImplemented true s := by
  unfold baseIsImplemented at h
  unfold ctlIs
  cases hc : b.pIsImplemented with
  | none => simp [hc] at h; simp [h]
  | some c =>
    simp only [hc] at h
    rw [ctlValue_of_ok cx h]
    cases x <;> simp

theorem base_available_spec {d : Nat} {b : Base} {s : S F} {x : Bool}
    (h : R.val (baseIsAvailable cx (execRec cx d) b) s = .ok x) :
    x = ctlIs cx d b.pIsAvailable true s := by
  unfold baseIsAvailable at h
  unfold ctlIs
  cases hc : b.pIsAvailable with
  | none => simp [hc] at h; simp [h]
  | some c =>
    simp only [hc] at h
    rw [ctlValue_of_ok cx h]
    cases x <;> simp

/-- `is_locked` answers `x`  ⇒  "not locked" (`ctlIs … false`) is `!x` -/
theorem base_locked_spec {d : Nat} {b : Base} {s : S F} {x : Bool}
    (h : R.val (baseIsLocked cx (execRec cx d) b) s = .ok x) :
    (!x) = ctlIs cx d b.pIsLocked false s := by
  unfold baseIsLocked at h
  unfold ctlIs
  cases hc : b.pIsLocked with
  | none => simp [hc] at h; simp [h]
  | some c =>
    simp only [hc] at h
    rw [ctlValue_of_ok cx h]
    cases x <;> simp

theorem permitsRead_eq (m : AccessMode) : m.permitsRead = (m != .wo) := by cases m <;> rfl
theorem permitsWrite_eq (m : AccessMode) : m.permitsWrite = (m != .ro) := by cases m <;> rfl

theorem base_readable_spec {d : Nat} {b : Base} {s : S F} {x : Bool}
    (h : R.val (baseIsReadable cx (execRec cx d) b) s = .ok x) : x = baseReadable cx d b s := by
  unfold baseIsReadable at h
  simp only [R.val_bind] at h
  obtain ⟨i, hi, h⟩ := Res.bind_eq_ok h
  have hi' := base_implemented_spec cx hi
  unfold baseReadable
  cases i with
  | false => simp at h; simp [← hi', h]
  | true =>
    simp only [Bool.not_true, Bool.false_eq_true, ↓reduceIte, R.val_bind] at h
    obtain ⟨a, ha, h⟩ := Res.bind_eq_ok h
    have ha' := base_available_spec cx ha
    cases a with
    | false => simp at h; simp [← hi', ← ha', h]
    | true =>
      simp at h
      simp [← hi', ← ha', ← h, permitsRead_eq]

theorem base_writable_spec {d : Nat} {b : Base} {s : S F} {x : Bool}
    (h : R.val (baseIsWritable cx (execRec cx d) b) s = .ok x) : x = baseWritable cx d b s := by
  unfold baseIsWritable at h
  simp only [R.val_bind] at h
  obtain ⟨i, hi, h⟩ := Res.bind_eq_ok h
  have hi' := base_implemented_spec cx hi
  unfold baseWritable
  cases i with
  | false => simp at h; simp [← hi', h]
  | true =>
    simp only [Bool.not_true, Bool.false_eq_true, ↓reduceIte, R.val_bind] at h
    obtain ⟨a, ha, h⟩ := Res.bind_eq_ok h
    have ha' := base_available_spec cx ha
    cases a with
    | false => simp at h; simp [← hi', ← ha', h]
    | true =>
      simp only [Bool.not_true, Bool.false_eq_true, ↓reduceIte, R.val_bind] at h
      obtain ⟨l, hl, h⟩ := Res.bind_eq_ok h
      have hl' := base_locked_spec cx hl
      cases l with
      | true => simp at h; simp [← hi', ← ha', ← hl', h]
      | false =>
        simp at h
        simp [← hi', ← ha', ← hl', ← h, permitsWrite_eq]

end CamVerif.C18
