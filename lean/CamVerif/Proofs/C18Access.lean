/-
C18 helper lemmas: every access helper of the interpreter, run against the interface
calls `execRec cx d`, answers the corresponding clause of the specification
(`CamVerif.GenApiSem`) whenever it answers at all.
-/
import CamVerif.Proofs.GenApiLemmas
namespace CamVerif.C18
open CamVerif CamVerif.GenApi CamVerif.GenApiSem

variable {F E : Type} (cx : Ctx F E)

/-- the code's `bool_from_id` follows the specification's reading of a controlling node -/
theorem ctlValue_of_ok {d : Nat} {c : NodeId} {s : S F} {b : Bool}
    (h : R.val (boolFromId cx (execRec cx d) c) s = .ok b) : ctlValue cx d c s = some b := by
  unfold boolFromId at h
  unfold ctlValue
  by_cases h1 : isBoolKind cx c = true
  · simp only [h1, if_true] at h ⊢
    unfold R.val at h; rw [h]
  · by_cases h2 : isIntKind cx c = true
    · simp only [h1, h2, if_true, Bool.false_eq_true, if_false, R.val_bind] at h ⊢
      obtain ⟨v, hv, h⟩ := Res.bind_eq_ok h
      unfold R.val at hv; rw [hv]
      simp only [R.val_pure, Res.ok.injEq] at h
      subst h
      by_cases hz : v = 0 <;> simp [hz]
    · simp [h1, h2] at h

theorem base_implemented_spec {d : Nat} {b : Base} {s : S F} {x : Bool}
    (h : R.val (baseIsImplemented cx (execRec cx d) b) s = .ok x) :
    x = ctlIs cx d b.pIsImplemented true s := by
  unfold baseIsImplemented at h
  unfold ctlIs
  cases hc : b.pIsImplemented with
  | none => simp [hc] at h; simp [h]
  | some c =>
    simp only [hc] at h
    simp only [ctlValue_of_ok cx h]
    cases x <;> simp

theorem base_available_spec {d : Nat} {b : Base} {s : S F} {x : Bool}
    (h : R.val (baseIsAvailable cx (execRec cx d) b) s = .ok x) :
    x = ctlIs cx d b.pIsAvailable true s := by
  unfold baseIsAvailable at h
  unfold ctlIs
  cases hc : b.pIsAvailable with
  | none => simp [hc] at h; simp [h]
  | some c =>
    simp only [hc] at h
    simp only [ctlValue_of_ok cx h]
    cases x <;> simp

/-- `is_locked` answers `x`  ⇒  "not locked" (`ctlIs … false`) is `!x` -/
theorem base_locked_spec {d : Nat} {b : Base} {s : S F} {x : Bool}
    (h : R.val (baseIsLocked cx (execRec cx d) b) s = .ok x) :
    (!x) = ctlIs cx d b.pIsLocked false s := by
  unfold baseIsLocked at h
  unfold ctlIs
  cases hc : b.pIsLocked with
  | none => simp [hc] at h; simp [h]
  | some c =>
    simp only [hc] at h
    simp only [ctlValue_of_ok cx h]
    cases x <;> simp

theorem permitsRead_eq (m : AccessMode) : m.permitsRead = (m != .wo) := by cases m <;> rfl
theorem permitsWrite_eq (m : AccessMode) : m.permitsWrite = (m != .ro) := by cases m <;> rfl

theorem base_readable_spec {d : Nat} {b : Base} {s : S F} {x : Bool}
    (h : R.val (baseIsReadable cx (execRec cx d) b) s = .ok x) : x = baseReadable cx d b s := by
  unfold baseIsReadable at h
  simp only [R.val_bind] at h
  obtain ⟨i, hi, h⟩ := Res.bind_eq_ok h
  have hi' := base_implemented_spec cx hi
  unfold baseReadable
  cases i with
  | false => simp at h; simp [← hi', h]
  | true =>
    simp only [Bool.not_true, Bool.false_eq_true, ↓reduceIte, R.val_bind] at h
    obtain ⟨a, ha, h⟩ := Res.bind_eq_ok h
    have ha' := base_available_spec cx ha
    cases a with
    | false => simp at h; simp [← hi', ← ha', h]
    | true =>
      simp at h
      simp [← hi', ← ha', ← h, permitsRead_eq]

theorem base_writable_spec {d : Nat} {b : Base} {s : S F} {x : Bool}
    (h : R.val (baseIsWritable cx (execRec cx d) b) s = .ok x) : x = baseWritable cx d b s := by
  unfold baseIsWritable at h
  simp only [R.val_bind] at h
  obtain ⟨i, hi, h⟩ := Res.bind_eq_ok h
  have hi' := base_implemented_spec cx hi
  unfold baseWritable
  cases i with
  | false => simp at h; simp [← hi', h]
  | true =>
    simp only [Bool.not_true, Bool.false_eq_true, ↓reduceIte, R.val_bind] at h
    obtain ⟨a, ha, h⟩ := Res.bind_eq_ok h
    have ha' := base_available_spec cx ha
    cases a with
    | false => simp at h; simp [← hi', ← ha', h]
    | true =>
      simp only [Bool.not_true, Bool.false_eq_true, ↓reduceIte, R.val_bind] at h
      obtain ⟨l, hl, h⟩ := Res.bind_eq_ok h
      have hl' := base_locked_spec cx hl
      cases l with
      | true => simp at h; simp [← hi', ← ha', ← hl', h]
      | false =>
        simp at h
        simp [← hi', ← ha', ← hl', ← h, permitsWrite_eq]

/-- The induction hypothesis: at reference depth `d` every `is_readable` / `is_writable`
interface call that answers, answers the specification predicate. -/
structure AccIH (d : Nat) : Prop where
  intR : ∀ n (s : S F) b, R.val ((execRec cx d).intIsReadable n) s = .ok b → b = readableB cx d n s
  floatR : ∀ n (s : S F) b, R.val ((execRec cx d).floatIsReadable n) s = .ok b → b = readableB cx d n s
  strR : ∀ n (s : S F) b, R.val ((execRec cx d).strIsReadable n) s = .ok b → b = readableB cx d n s
  boolR : ∀ n (s : S F) b, R.val ((execRec cx d).boolIsReadable n) s = .ok b → b = readableB cx d n s
  enumR : ∀ n (s : S F) b, R.val ((execRec cx d).enumIsReadable n) s = .ok b → b = readableB cx d n s
  intW : ∀ n (s : S F) b, R.val ((execRec cx d).intIsWritable n) s = .ok b → b = writableB cx d n s
  floatW : ∀ n (s : S F) b, R.val ((execRec cx d).floatIsWritable n) s = .ok b → b = writableB cx d n s
  strW : ∀ n (s : S F) b, R.val ((execRec cx d).strIsWritable n) s = .ok b → b = writableB cx d n s
  boolW : ∀ n (s : S F) b, R.val ((execRec cx d).boolIsWritable n) s = .ok b → b = writableB cx d n s
  enumW : ∀ n (s : S F) b, R.val ((execRec cx d).enumIsWritable n) s = .ok b → b = writableB cx d n s

variable {cx}

theorem nidIsReadable_spec {d : Nat} (ih : AccIH cx d) {p : NodeId} {s : S F} {x : Bool}
    (h : R.val (nidIsReadable cx (execRec cx d) p) s = .ok x) :
    x = (isNumericRef cx p && readableB cx d p s) := by
  unfold nidIsReadable at h
  unfold isNumericRef
  by_cases h1 : isIntKind cx p = true
  · simp only [h1, ↓reduceIte] at h; simp [h1, ih.intR _ _ _ h]
  · by_cases h2 : isFloatKind cx p = true
    · simp only [h1, h2, ↓reduceIte] at h; simp [h2, ih.floatR _ _ _ h]
    · by_cases h3 : isEnumKind cx p = true
      · simp only [h1, h2, h3, ↓reduceIte] at h; simp [h3, ih.enumR _ _ _ h]
      · simp only [h1, h2, h3] at h
        simp at h; simp [h1, h2, h3, h]

theorem nidIsWritable_spec {d : Nat} (ih : AccIH cx d) {p : NodeId} {s : S F} {x : Bool}
    (h : R.val (nidIsWritable cx (execRec cx d) p) s = .ok x) :
    x = (isNumericRef cx p && writableB cx d p s) := by
  unfold nidIsWritable at h
  unfold isNumericRef
  by_cases h1 : isIntKind cx p = true
  · simp only [h1, ↓reduceIte] at h; simp [h1, ih.intW _ _ _ h]
  · by_cases h2 : isFloatKind cx p = true
    · simp only [h1, h2, ↓reduceIte] at h; simp [h2, ih.floatW _ _ _ h]
    · by_cases h3 : isEnumKind cx p = true
      · simp only [h1, h2, h3, ↓reduceIte] at h; simp [h3, ih.enumW _ _ _ h]
      · simp only [h1, h2, h3] at h
        simp at h; simp [h1, h2, h3, h]

theorem isNidReadable_spec {d : Nat} (ih : AccIH cx d) {p : NodeId} {s : S F} {x : Bool}
    (h : R.val (isNidReadable cx (execRec cx d) p) s = .ok x) :
    x = (isFormulaRef cx p && readableB cx d p s) := by
  unfold isNidReadable at h
  unfold isFormulaRef
  by_cases h1 : isIntKind cx p = true
  · simp only [h1, ↓reduceIte] at h; simp [h1, ih.intR _ _ _ h]
  · by_cases h2 : isFloatKind cx p = true
    · simp only [h1, h2, ↓reduceIte] at h; simp [h2, ih.floatR _ _ _ h]
    · by_cases h3 : isBoolKind cx p = true
      · simp only [h1, h2, h3, ↓reduceIte] at h; simp [h3, ih.boolR _ _ _ h]
      · by_cases h4 : isEnumKind cx p = true
        · simp only [h1, h2, h3, h4, ↓reduceIte] at h; simp [h4, ih.enumR _ _ _ h]
        · simp only [h1, h2, h3, h4] at h
          simp at h

theorem isNidWritable_spec {d : Nat} (ih : AccIH cx d) {p : NodeId} {s : S F} {x : Bool}
    (h : R.val (isNidWritable cx (execRec cx d) p) s = .ok x) :
    x = (isFormulaRef cx p && writableB cx d p s) := by
  unfold isNidWritable at h
  unfold isFormulaRef
  by_cases h1 : isIntKind cx p = true
  · simp only [h1, ↓reduceIte] at h; simp [h1, ih.intW _ _ _ h]
  · by_cases h2 : isFloatKind cx p = true
    · simp only [h1, h2, ↓reduceIte] at h; simp [h2, ih.floatW _ _ _ h]
    · by_cases h3 : isBoolKind cx p = true
      · simp only [h1, h2, h3, ↓reduceIte] at h; simp [h3, ih.boolW _ _ _ h]
      · by_cases h4 : isEnumKind cx p = true
        · simp only [h1, h2, h3, h4, ↓reduceIte] at h; simp [h4, ih.enumW _ _ _ h]
        · simp only [h1, h2, h3, h4] at h
          simp at h

theorem slotOrNodeIsReadable_spec {d : Nat} (ih : AccIH cx d) {v : ImmOrPNode SlotId} {s : S F}
    {x : Bool} (h : R.val (slotOrNodeIsReadable cx (execRec cx d) v) s = .ok x) :
    x = slotOrNodeOk cx (readableB cx d) v s := by
  cases v with
  | imm _ => simp [slotOrNodeIsReadable] at h; simp [slotOrNodeOk, h]
  | pnode p => simp only [slotOrNodeIsReadable] at h; simp [slotOrNodeOk, nidIsReadable_spec ih h]

theorem slotOrNodeIsWritable_spec {d : Nat} (ih : AccIH cx d) {v : ImmOrPNode SlotId} {s : S F}
    {x : Bool} (h : R.val (slotOrNodeIsWritable cx (execRec cx d) v) s = .ok x) :
    x = slotOrNodeOk cx (writableB cx d) v s := by
  cases v with
  | imm _ => simp [slotOrNodeIsWritable] at h; simp [slotOrNodeOk, h]
  | pnode p => simp only [slotOrNodeIsWritable] at h; simp [slotOrNodeOk, nidIsWritable_spec ih h]

theorem slotOrNodeStrIsReadable_spec {d : Nat} (ih : AccIH cx d) {v : ImmOrPNode SlotId} {s : S F}
    {x : Bool} (h : R.val (slotOrNodeStrIsReadable cx (execRec cx d) v) s = .ok x) :
    x = strSlotOrNodeOk cx (readableB cx d) v s := by
  cases v with
  | imm _ => simp [slotOrNodeStrIsReadable] at h; simp [strSlotOrNodeOk, h]
  | pnode p =>
    simp only [slotOrNodeStrIsReadable, nidStrIsReadable] at h
    by_cases h1 : isStrKind cx p = true
    · simp only [h1, ↓reduceIte] at h; simp [strSlotOrNodeOk, h1, ih.strR _ _ _ h]
    · simp [h1] at h

theorem slotOrNodeStrIsWritable_spec {d : Nat} (ih : AccIH cx d) {v : ImmOrPNode SlotId} {s : S F}
    {x : Bool} (h : R.val (slotOrNodeStrIsWritable cx (execRec cx d) v) s = .ok x) :
    x = strSlotOrNodeOk cx (writableB cx d) v s := by
  cases v with
  | imm _ => simp [slotOrNodeStrIsWritable] at h; simp [strSlotOrNodeOk, h]
  | pnode p =>
    simp only [slotOrNodeStrIsWritable, nidStrIsWritable] at h
    by_cases h1 : isStrKind cx p = true
    · simp only [h1, ↓reduceIte] at h; simp [strSlotOrNodeOk, h1, ih.strW _ _ _ h]
    · simp [h1] at h

theorem selValue_of_ok {d : Nat} {sel : NodeId} {s : S F} {i : Int}
    (h : R.val (pIndexIndex cx (execRec cx d) sel) s = .ok i) : selValue cx d sel s = some i := by
  unfold selValue; unfold R.val at h; rw [h]

theorem pIndexSelReadable_spec {d : Nat} (ih : AccIH cx d) {sel : NodeId} {s : S F} {x : Bool}
    (h : R.val (pIndexSelReadable cx (execRec cx d) sel) s = .ok x) :
    isIntKind cx sel = true ∧ x = readableB cx d sel s := by
  unfold pIndexSelReadable at h
  by_cases h1 : isIntKind cx sel = true
  · simp only [h1, ↓reduceIte] at h; exact ⟨h1, ih.intR _ _ _ h⟩
  · simp [h1] at h

theorem pIndexIsReadable_spec {d : Nat} (ih : AccIH cx d) {sel : NodeId}
    {entries : List (Int × ImmOrPNode SlotId)} {dflt : ImmOrPNode SlotId} {s : S F} {x : Bool}
    (h : R.val (pIndexIsReadable cx (execRec cx d) sel entries dflt) s = .ok x) :
    x = vkReadable cx d (readableB cx d) (.pIndex sel entries dflt) s := by
  unfold pIndexIsReadable at h
  simp only [R.val_bind] at h
  obtain ⟨sr, hsr, h⟩ := Res.bind_eq_ok h
  obtain ⟨hk, hsr'⟩ := pIndexSelReadable_spec ih hsr
  unfold vkReadable
  cases sr with
  | false => simp at h; simp [hk, ← hsr', h]
  | true =>
    simp only [Bool.not_true, Bool.false_eq_true, ↓reduceIte, R.val_bind] at h
    obtain ⟨i, hi, h⟩ := Res.bind_eq_ok h
    simp [hk, ← hsr', selValue_of_ok hi, slotOrNodeIsReadable_spec ih h]

theorem pIndexIsWritable_spec {d : Nat} (ih : AccIH cx d) {sel : NodeId}
    {entries : List (Int × ImmOrPNode SlotId)} {dflt : ImmOrPNode SlotId} {s : S F} {x : Bool}
    (h : R.val (pIndexIsWritable cx (execRec cx d) sel entries dflt) s = .ok x) :
    x = vkWritable cx d (readableB cx d) (writableB cx d) (.pIndex sel entries dflt) s := by
  unfold pIndexIsWritable at h
  simp only [R.val_bind] at h
  obtain ⟨sr, hsr, h⟩ := Res.bind_eq_ok h
  obtain ⟨hk, hsr'⟩ := pIndexSelReadable_spec ih hsr
  unfold vkWritable
  cases sr with
  | false => simp at h; simp [hk, ← hsr', h]
  | true =>
    simp only [Bool.not_true, Bool.false_eq_true, ↓reduceIte, R.val_bind] at h
    obtain ⟨i, hi, h⟩ := Res.bind_eq_ok h
    simp [hk, ← hsr', selValue_of_ok hi, slotOrNodeIsWritable_spec ih h]

theorem copiesIsWritable_spec {d : Nat} (ih : AccIH cx d) {cs : List NodeId} {b0 : Bool} {s : S F}
    {x : Bool} (h : R.val (copiesIsWritable cx (execRec cx d) cs b0) s = .ok x) :
    x = (b0 && cs.all fun c => isNumericRef cx c && writableB cx d c s) := by
  induction cs generalizing b0 with
  | nil => simp [copiesIsWritable] at h; simp [h]
  | cons c cs ihc =>
    simp only [copiesIsWritable, R.val_bind] at h
    obtain ⟨w, hw, h⟩ := Res.bind_eq_ok h
    have := ihc h
    rw [this, nidIsWritable_spec ih hw]
    simp [Bool.and_assoc]

theorem varsReadable_spec {d : Nat} (ih : AccIH cx d) {vs : List (String × NodeId)} {b0 : Bool}
    {s : S F} {x : Bool} (h : R.val (GenApi.varsReadable cx (execRec cx d) vs b0) s = .ok x) :
    x = (b0 && GenApiSem.varsReadable cx (readableB cx d) vs s) := by
  induction vs generalizing b0 with
  | nil => simp [GenApi.varsReadable] at h; simp [GenApiSem.varsReadable, h]
  | cons v vs ihv =>
    obtain ⟨nm, n⟩ := v
    simp only [GenApi.varsReadable, R.val_bind] at h
    obtain ⟨w, hw, h⟩ := Res.bind_eq_ok h
    have := ihv h
    rw [this, isNidReadable_spec ih hw]
    simp [GenApiSem.varsReadable, Bool.and_assoc]

theorem vkIsReadable_spec {d : Nat} (ih : AccIH cx d) {vk : ValueKind} {s : S F} {x : Bool}
    (h : R.val (vkIsReadable cx (execRec cx d) vk) s = .ok x) :
    x = vkReadable cx d (readableB cx d) vk s := by
  cases vk with
  | value _ => simp [vkIsReadable] at h; simp [vkReadable, h]
  | pValue p cs => simp only [vkIsReadable] at h; simp [vkReadable, nidIsReadable_spec ih h]
  | pIndex sel entries dflt => simp only [vkIsReadable] at h; exact pIndexIsReadable_spec ih h

theorem vkIsWritable_spec {d : Nat} (ih : AccIH cx d) {vk : ValueKind} {s : S F} {x : Bool}
    (h : R.val (vkIsWritable cx (execRec cx d) vk) s = .ok x) :
    x = vkWritable cx d (readableB cx d) (writableB cx d) vk s := by
  cases vk with
  | value _ => simp [vkIsWritable] at h; simp [vkWritable, h]
  | pValue p cs =>
    simp only [vkIsWritable, pValueIsWritable, R.val_bind] at h
    obtain ⟨b, hb, h⟩ := Res.bind_eq_ok h
    rw [copiesIsWritable_spec ih h, nidIsWritable_spec ih hb]
    simp [vkWritable]
  | pIndex sel entries dflt => simp only [vkIsWritable] at h; exact pIndexIsWritable_spec ih h

/-- the `a()? && b()?` shape of every `is_readable` / `is_writable` body -/
theorem and_then_spec {m1 m2 : R F Bool} {s : S F} {x p1 p2 : Bool}
    (h : R.val (do let a ← m1; if !a then pure false else m2) s = .ok x)
    (h1 : ∀ a, R.val m1 s = .ok a → a = p1) (h2 : ∀ b, R.val m2 s = .ok b → b = p2) :
    x = (p1 && p2) := by
  simp only [R.val_bind] at h
  obtain ⟨a, ha, h⟩ := Res.bind_eq_ok h
  have := h1 a ha
  subst this
  cases a with
  | false => simp at h; simp [h]
  | true => simp at h; simp [h2 x h]

theorem regIsReadable_spec {d : Nat} {rb : RegBase} {s : S F} {x : Bool}
    (h : R.val (regIsReadable cx (execRec cx d) rb) s = .ok x) :
    x = (baseReadable cx d rb.base s && rb.accessMode != .wo) := by
  unfold regIsReadable at h
  exact and_then_spec h (fun a ha => base_readable_spec cx ha) (fun b hb => by simpa using hb.symm)

theorem regIsWritable_spec {d : Nat} {rb : RegBase} {s : S F} {x : Bool}
    (h : R.val (regIsWritable cx (execRec cx d) rb) s = .ok x) :
    x = (baseWritable cx d rb.base s && rb.accessMode != .ro) := by
  unfold regIsWritable at h
  exact and_then_spec h (fun a ha => base_writable_spec cx ha) (fun b hb => by simpa using hb.symm)

theorem converterIsReadable_spec {d : Nat} (ih : AccIH cx d) {b : Base} {fm : Formulaic F E}
    {pv : NodeId} {s : S F} {x : Bool}
    (h : R.val (converterIsReadable cx (execRec cx d) b fm pv) s = .ok x) :
    x = (baseReadable cx d b s && (isFormulaRef cx pv && readableB cx d pv s) &&
         GenApiSem.varsReadable cx (readableB cx d) fm.vars s) := by
  unfold converterIsReadable at h
  rw [Bool.and_assoc]
  refine and_then_spec h (fun a ha => base_readable_spec cx ha) (fun y hy => ?_)
  refine and_then_spec hy (fun a ha => isNidReadable_spec ih ha) (fun z hz => ?_)
  simpa using varsReadable_spec ih hz

theorem converterIsWritable_spec {d : Nat} (ih : AccIH cx d) {b : Base} {fm : Formulaic F E}
    {pv : NodeId} {s : S F} {x : Bool}
    (h : R.val (converterIsWritable cx (execRec cx d) b fm pv) s = .ok x) :
    x = (baseWritable cx d b s && (isFormulaRef cx pv && writableB cx d pv s) &&
         GenApiSem.varsReadable cx (readableB cx d) fm.vars s) := by
  unfold converterIsWritable at h
  rw [Bool.and_assoc]
  refine and_then_spec h (fun a ha => base_writable_spec cx ha) (fun y hy => ?_)
  refine and_then_spec hy (fun a ha => isNidWritable_spec ih ha) (fun z hz => ?_)
  simpa using varsReadable_spec ih hz

theorem swissKnifeIsReadable_spec {d : Nat} (ih : AccIH cx d) {b : Base} {fm : Formulaic F E}
    {s : S F} {x : Bool}
    (h : R.val (swissKnifeIsReadable cx (execRec cx d) b fm) s = .ok x) :
    x = (baseReadable cx d b s && GenApiSem.varsReadable cx (readableB cx d) fm.vars s) := by
  unfold swissKnifeIsReadable at h
  refine and_then_spec h (fun a ha => base_readable_spec cx ha) (fun z hz => ?_)
  simpa using varsReadable_spec ih hz

/-! ### per interface -/

theorem intIsReadableF_spec {d : Nat} (ih : AccIH cx d) {n : NodeId} {s : S F} {x : Bool}
    (h : R.val (intIsReadableF cx (execRec cx d) n) s = .ok x) :
    x = readableStep cx d (readableB cx d) n s := by
  unfold intIsReadableF at h
  unfold readableStep
  cases hg : cx.graph n with
  | none => simp [hg] at h
  | some nd =>
    cases nd <;> simp only [hg] at h <;> try (simp at h; done)
    · exact and_then_spec h (fun a ha => base_readable_spec cx ha) (fun y hy => vkIsReadable_spec ih hy)
    · exact regIsReadable_spec h
    · exact regIsReadable_spec h
    · exact converterIsReadable_spec ih h
    · exact swissKnifeIsReadable_spec ih h

theorem intIsWritableF_spec {d : Nat} (ih : AccIH cx d) {n : NodeId} {s : S F} {x : Bool}
    (h : R.val (intIsWritableF cx (execRec cx d) n) s = .ok x) :
    x = writableStep cx d (readableB cx d) (writableB cx d) n s := by
  unfold intIsWritableF at h
  unfold writableStep
  cases hg : cx.graph n with
  | none => simp [hg] at h
  | some nd =>
    cases nd <;> simp only [hg] at h <;> try (simp at h; done)
    · exact and_then_spec h (fun a ha => base_writable_spec cx ha) (fun y hy => vkIsWritable_spec ih hy)
    · exact regIsWritable_spec h
    · exact regIsWritable_spec h
    · exact converterIsWritable_spec ih h
    · simp at h; simp [h]

theorem floatIsReadableF_spec {d : Nat} (ih : AccIH cx d) {n : NodeId} {s : S F} {x : Bool}
    (h : R.val (floatIsReadableF cx (execRec cx d) n) s = .ok x) :
    x = readableStep cx d (readableB cx d) n s := by
  unfold floatIsReadableF at h
  unfold readableStep
  cases hg : cx.graph n with
  | none => simp [hg] at h
  | some nd =>
    cases nd <;> simp only [hg] at h <;> try (simp at h; done)
    · exact and_then_spec h (fun a ha => base_readable_spec cx ha) (fun y hy => vkIsReadable_spec ih hy)
    · exact regIsReadable_spec h
    · exact converterIsReadable_spec ih h
    · exact swissKnifeIsReadable_spec ih h

theorem floatIsWritableF_spec {d : Nat} (ih : AccIH cx d) {n : NodeId} {s : S F} {x : Bool}
    (h : R.val (floatIsWritableF cx (execRec cx d) n) s = .ok x) :
    x = writableStep cx d (readableB cx d) (writableB cx d) n s := by
  unfold floatIsWritableF at h
  unfold writableStep
  cases hg : cx.graph n with
  | none => simp [hg] at h
  | some nd =>
    cases nd <;> simp only [hg] at h <;> try (simp at h; done)
    · exact and_then_spec h (fun a ha => base_writable_spec cx ha) (fun y hy => vkIsWritable_spec ih hy)
    · exact regIsWritable_spec h
    · exact converterIsWritable_spec ih h
    · simp at h; simp [h]

theorem strIsReadableF_spec {d : Nat} (ih : AccIH cx d) {n : NodeId} {s : S F} {x : Bool}
    (h : R.val (strIsReadableF cx (execRec cx d) n) s = .ok x) :
    x = readableStep cx d (readableB cx d) n s := by
  unfold strIsReadableF at h
  unfold readableStep
  cases hg : cx.graph n with
  | none => simp [hg] at h
  | some nd =>
    cases nd <;> simp only [hg] at h <;> try (simp at h; done)
    · exact and_then_spec h (fun a ha => base_readable_spec cx ha) (fun y hy => slotOrNodeStrIsReadable_spec ih hy)
    · exact regIsReadable_spec h

theorem strIsWritableF_spec {d : Nat} (ih : AccIH cx d) {n : NodeId} {s : S F} {x : Bool}
    (h : R.val (strIsWritableF cx (execRec cx d) n) s = .ok x) :
    x = writableStep cx d (readableB cx d) (writableB cx d) n s := by
  unfold strIsWritableF at h
  unfold writableStep
  cases hg : cx.graph n with
  | none => simp [hg] at h
  | some nd =>
    cases nd <;> simp only [hg] at h <;> try (simp at h; done)
    · exact and_then_spec h (fun a ha => base_writable_spec cx ha) (fun y hy => slotOrNodeStrIsWritable_spec ih hy)
    · exact regIsWritable_spec h

theorem boolIsReadableF_spec {d : Nat} (ih : AccIH cx d) {n : NodeId} {s : S F} {x : Bool}
    (h : R.val (boolIsReadableF cx (execRec cx d) n) s = .ok x) :
    x = readableStep cx d (readableB cx d) n s := by
  unfold boolIsReadableF at h
  unfold readableStep
  cases hg : cx.graph n with
  | none => simp [hg] at h
  | some nd =>
    cases nd <;> simp only [hg] at h <;> try (simp at h; done)
    · exact and_then_spec h (fun a ha => base_readable_spec cx ha) (fun y hy => slotOrNodeIsReadable_spec ih hy)

theorem boolIsWritableF_spec {d : Nat} (ih : AccIH cx d) {n : NodeId} {s : S F} {x : Bool}
    (h : R.val (boolIsWritableF cx (execRec cx d) n) s = .ok x) :
    x = writableStep cx d (readableB cx d) (writableB cx d) n s := by
  unfold boolIsWritableF at h
  unfold writableStep
  cases hg : cx.graph n with
  | none => simp [hg] at h
  | some nd =>
    cases nd <;> simp only [hg] at h <;> try (simp at h; done)
    · exact and_then_spec h (fun a ha => base_writable_spec cx ha) (fun y hy => slotOrNodeIsWritable_spec ih hy)

theorem enumIsReadableF_spec {d : Nat} (ih : AccIH cx d) {n : NodeId} {s : S F} {x : Bool}
    (h : R.val (enumIsReadableF cx (execRec cx d) n) s = .ok x) :
    x = readableStep cx d (readableB cx d) n s := by
  unfold enumIsReadableF at h
  unfold readableStep
  cases hg : cx.graph n with
  | none => simp [hg] at h
  | some nd =>
    cases nd <;> simp only [hg] at h <;> try (simp at h; done)
    · exact and_then_spec h (fun a ha => base_readable_spec cx ha) (fun y hy => slotOrNodeIsReadable_spec ih hy)

theorem enumIsWritableF_spec {d : Nat} (ih : AccIH cx d) {n : NodeId} {s : S F} {x : Bool}
    (h : R.val (enumIsWritableF cx (execRec cx d) n) s = .ok x) :
    x = writableStep cx d (readableB cx d) (writableB cx d) n s := by
  unfold enumIsWritableF at h
  unfold writableStep
  cases hg : cx.graph n with
  | none => simp [hg] at h
  | some nd =>
    cases nd <;> simp only [hg] at h <;> try (simp at h; done)
    · exact and_then_spec h (fun a ha => base_writable_spec cx ha) (fun y hy => slotOrNodeIsWritable_spec ih hy)

theorem cmdIsWritableF_spec {d : Nat} (ih : AccIH cx d) {n : NodeId} {s : S F} {x : Bool}
    (h : R.val (cmdIsWritableF cx (execRec cx d) n) s = .ok x) :
    x = writableStep cx d (readableB cx d) (writableB cx d) n s := by
  unfold cmdIsWritableF at h
  unfold writableStep
  cases hg : cx.graph n with
  | none => simp [hg] at h
  | some nd =>
    cases nd <;> simp only [hg] at h <;> try (simp at h; done)
    · exact and_then_spec h (fun a ha => base_writable_spec cx ha) (fun y hy => slotOrNodeIsWritable_spec ih hy)

/-- **The induction**: the hypothesis holds at every depth. -/
theorem accIH (cx : Ctx F E) : ∀ d, AccIH cx d
  | 0 => by
    constructor <;> intro n s b h <;> simp [execRec, Rec.bottom] at h
  | d + 1 => by
    have ih := accIH cx d
    constructor <;> intro n s b h <;> simp only [execRec, step] at h
    · exact intIsReadableF_spec ih h
    · exact floatIsReadableF_spec ih h
    · exact strIsReadableF_spec ih h
    · exact boolIsReadableF_spec ih h
    · exact enumIsReadableF_spec ih h
    · exact intIsWritableF_spec ih h
    · exact floatIsWritableF_spec ih h
    · exact strIsWritableF_spec ih h
    · exact boolIsWritableF_spec ih h
    · exact enumIsWritableF_spec ih h

end CamVerif.C18
