/-
Helper lemmas and specification vocabulary for C14 (`Props/C14.lean`).

* `Stateless o dev`: the device answers every `DeviceControl::read(addr, len)` with `dev addr len`
  (ok / err / panic) whatever its internal state — e.g. a conforming device over a fixed image,
  whose unmapped ranges answer with an error.
* `fetchFrom o dev table`: the `genapi` model specialised to such a device (a pure function);
  `genapi_refines` shows the monadic model returns exactly that.
* `Always x r`: the monadic computation `x` returns `r` from every state.
-/
import CamVerif.Model.GenApiFetch
namespace CamVerif.GenApiFetch
open CamVerif

variable {σ : Type}

/-! ## Res inversion -/

theorem Res.bind_eq_ok {ε α β : Type} {x : Res ε α} {f : α → Res ε β} {b : β}
    (h : (x >>= f) = .ok b) : ∃ a, x = .ok a ∧ f a = .ok b := by
  cases x with
  | ok a => exact ⟨a, rfl, h⟩
  | err e => cases h
  | panic => cases h

/-! ## Outcome of a monadic computation that does not depend on the state -/

/-- From every state satisfying `P`, `x` returns `r` and ends in a state satisfying `P`.
(`P` = `fun _ => True`: the outcome does not depend on the state at all.) -/
def Always (P : St σ → Prop) {α : Type} (x : M σ α) (r : R α) : Prop :=
  ∀ st, P st → ∃ st', x st = (r, st') ∧ P st'

theorem Always.bind {P : St σ → Prop} {α β : Type} {x : M σ α} {f : α → M σ β} {rx : R α} {g : α → R β}
    (hx : Always P x rx) (hf : ∀ a, Always P (f a) (g a)) : Always P (x >>= f) (rx >>= g) := by
  intro st hP
  obtain ⟨st1, h1, hP1⟩ := hx st hP
  show ∃ st', M.bind x f st = _ ∧ _
  simp only [M.bind, h1]
  cases rx with
  | ok a => exact hf a st1 hP1
  | err e => exact ⟨st1, rfl, hP1⟩
  | panic => exact ⟨st1, rfl, hP1⟩

theorem Always.pure {P : St σ → Prop} {α : Type} (a : α) : Always P (Pure.pure a) (.ok a) :=
  fun st h => ⟨st, rfl, h⟩
theorem Always.lift {P : St σ → Prop} {α : Type} (r : R α) : Always P (M.lift r) r :=
  fun st h => ⟨st, rfl, h⟩
theorem Always.fail {P : St σ → Prop} {α : Type} (e : Err) : Always P (M.fail e : M σ α) (.err e) :=
  fun st h => ⟨st, rfl, h⟩

/-- the device answers reads as the pure function `dev`, whatever its state -/
def Stateless (o : Ops σ) (dev : Nat → Nat → R Bytes) : Prop :=
  ∀ a n s, ∃ s', o.read a n s = (dev a n, s')

/-- in every handle state satisfying `P` the device answers reads as the pure function `dev`,
and reading keeps `P` (e.g. `P` = "the device currently shows image `dev`") -/
def StatelessOn (P : St σ → Prop) (o : Ops σ) (dev : Nat → Nat → R Bytes) : Prop :=
  ∀ a n st, P st → ∃ s', o.read a n st.dev = (dev a n, s') ∧ P { st with dev := s' }

theorem Stateless.on {o : Ops σ} {dev : Nat → Nat → R Bytes} (h : Stateless o dev) :
    StatelessOn (fun _ => True) o dev := fun a n st _ => by
  obtain ⟨s', hs⟩ := h a n st.dev
  exact ⟨s', hs, trivial⟩

theorem Always.devRead {P : St σ → Prop} {o : Ops σ} {dev : Nat → Nat → R Bytes}
    (h : StatelessOn P o dev) (a n : Nat) : Always P (devRead o a n) (dev a n) := by
  intro st hP
  obtain ⟨s', hs, hP'⟩ := h a n st hP
  exact ⟨{ st with dev := s' }, by simp [CamVerif.GenApiFetch.devRead, hs], hP'⟩

/-! ## The model specialised to a stateless device -/

def readRegP (dev : Nat → Nat → R Bytes) (base off len : Nat) : R Nat := do
  let a ← regAddr base off
  let bs ← dev a len
  pure (fromLE bs)

def scanEntryP (dev : Nat → Nat → R Bytes) (ent : Nat) (cur : Option Candidate) : R (Option Candidate) := do
  let info ← readRegP dev ent ENTRY_FILE_FORMAT_INFO 4
  let ft ← fileType info
  if ft = .deviceXml then do
    let v ← readRegP dev ent ENTRY_FILE_VERSION 4
    pure (pick cur ⟨ent, decodeVersion v, info⟩)
  else pure cur

def scanP (dev : Nat → Nat → R Bytes) (first : Nat) : (k i : Nat) → Option Candidate → R (Option Candidate)
  | 0, _, cur => pure cur
  | k + 1, i, cur => do
    let cur' ← scanEntryP dev (first + i * ENTRY_LEN) cur
    scanP dev first k (i + 1) cur'

def entriesP (dev : Nat → Nat → R Bytes) (table : Nat) : R (Nat × Nat) := do
  let n ← readRegP dev table 0 8
  if table + 8 + n * 64 ≤ 2 ^ 64 then pure (n, table + 8) else .err .invalidDevice

/-- the stepwise file read on a stateless device -/
def readFileLoopP (dev : Nat → Nat → R Bytes) (addr size : Nat) : (fuel offset : Nat) → Bytes → R Bytes
  | 0, _, buf => pure buf
  | fuel + 1, offset, buf =>
    if offset < size then do
      let step := min XML_READ_STEP (size - offset)
      let a ← (if addr + offset < 2 ^ 64 then .ok (addr + offset) else .err .invalidDevice : R Nat)
      let bs ← dev a step
      readFileLoopP dev addr size fuel (offset + step) (buf ++ bs)
    else pure buf

def readFileP (dev : Nat → Nat → R Bytes) (addr size : Nat) : R Bytes :=
  readFileLoopP dev addr size (size / XML_READ_STEP + 1) 0 []

def sha1HashP (dev : Nat → Nat → R Bytes) (ent : Nat) : R (Option Bytes) := do
  let a ← regAddr ent ENTRY_SHA1_HASH
  let h ← dev a 20
  if h.all (· == 0) then pure none else pure (some h)

def verifyXmlP (sha1 : Bytes → Bytes) (dev : Nat → Nat → R Bytes) (xml : Bytes) (ent : Nat) : R Unit := do
  match ← sha1HashP dev ent with
  | some hash => if sha1 xml = hash then pure () else .err .invalidDevice
  | none => pure ()

/-- everything after the selection, for the selected candidate `c` -/
def fetchSelected (o : Ops σ) (dev : Nat → Nat → R Bytes) (c : Candidate) : R Bytes := do
  let addr ← readRegP dev c.entry ENTRY_REGISTER_ADDRESS 8
  let size ← readRegP dev c.entry ENTRY_FILE_SIZE 8
  let comp ← compressionType c.info
  let buf ← readFileP dev addr size
  verifyXmlP o.sha1 dev buf c.entry
  decodeFile o comp buf

def fetchFrom (o : Ops σ) (dev : Nat → Nat → R Bytes) (table : Nat) : R Bytes := do
  let (n, first) ← entriesP dev table
  let newest ← scanP dev first n 0 none
  match newest with
  | none => .err .invalidDevice
  | some c => fetchSelected o dev c

/-! ## Refinement: the monadic model on a stateless device is the pure function -/

section
variable {P : St σ → Prop} {o : Ops σ} {dev : Nat → Nat → R Bytes} (h : StatelessOn P o dev)
include h

theorem Always.readReg (base off len : Nat) : Always P (readReg o base off len) (readRegP dev base off len) := by
  unfold CamVerif.GenApiFetch.readReg readRegP
  exact Always.bind (Always.lift _) fun a => Always.bind (Always.devRead h a len) fun _ => Always.pure _

theorem Always.scanEntry (ent : Nat) (cur : Option Candidate) :
    Always P (scanEntry o ent cur) (scanEntryP dev ent cur) := by
  unfold CamVerif.GenApiFetch.scanEntry scanEntryP
  refine Always.bind (Always.readReg h _ _ _) fun info => Always.bind (Always.lift _) fun ft => ?_
  by_cases hft : ft = .deviceXml
  · simp only [hft, if_true]
    exact Always.bind (Always.readReg h _ _ _) fun _ => Always.pure _
  · simp only [hft, if_false]
    exact Always.pure _

theorem Always.scan (first : Nat) (k i : Nat) (cur : Option Candidate) :
    Always P (scan o first k i cur) (scanP dev first k i cur) := by
  induction k generalizing i cur with
  | zero => exact Always.pure _
  | succ k ih =>
    unfold CamVerif.GenApiFetch.scan scanP
    exact Always.bind (Always.scanEntry h _ _) fun _ => ih _ _

theorem Always.entries (table : Nat) : Always P (entries o table) (entriesP dev table) := by
  unfold CamVerif.GenApiFetch.entries entriesP
  refine Always.bind (Always.readReg h _ _ _) fun n => ?_
  by_cases hc : table + 8 + n * 64 ≤ 2 ^ 64
  · simp only [hc, if_true]; exact Always.pure _
  · simp only [hc, if_false]; exact Always.fail _

theorem Always.readFileLoop (addr size fuel offset : Nat) (buf : Bytes) :
    Always P (readFileLoop o addr size fuel offset buf) (readFileLoopP dev addr size fuel offset buf) := by
  induction fuel generalizing offset buf with
  | zero => exact Always.pure _
  | succ fuel ih =>
    unfold CamVerif.GenApiFetch.readFileLoop readFileLoopP
    by_cases hlt : offset < size
    · simp only [hlt, if_true]
      exact Always.bind (Always.lift _) fun a => Always.bind (Always.devRead h a _) fun bs => ih _ _
    · simp only [hlt, if_false]; exact Always.pure _

theorem Always.readFile (addr size : Nat) : Always P (readFile o addr size) (readFileP dev addr size) :=
  Always.readFileLoop h addr size _ 0 []

theorem Always.sha1Hash (ent : Nat) : Always P (sha1Hash o ent) (sha1HashP dev ent) := by
  unfold CamVerif.GenApiFetch.sha1Hash sha1HashP
  refine Always.bind (Always.lift _) fun a => Always.bind (Always.devRead h a 20) fun hb => ?_
  by_cases hz : hb.all (· == 0) = true
  · simp only [hz, if_true]; exact Always.pure _
  · simp only [hz]; exact Always.pure _

theorem Always.verifyXml (xml : Bytes) (ent : Nat) :
    Always P (verifyXml o xml ent) (verifyXmlP o.sha1 dev xml ent) := by
  unfold CamVerif.GenApiFetch.verifyXml verifyXmlP
  refine Always.bind (Always.sha1Hash h ent) fun r => ?_
  cases r with
  | none => exact Always.pure _
  | some hash =>
    by_cases hs : o.sha1 xml = hash
    · simp only [hs, if_true]; exact Always.pure _
    · simp only [hs, if_false]; exact Always.fail _

theorem Always.genapiFrom (table : Nat) : Always P (genapiFrom o table) (fetchFrom o dev table) := by
  unfold CamVerif.GenApiFetch.genapiFrom fetchFrom
  refine Always.bind (Always.entries h table) fun nf => ?_
  obtain ⟨n, first⟩ := nf
  refine Always.bind (Always.scan h first n 0 none) fun newest => ?_
  cases newest with
  | none => exact Always.fail _
  | some c =>
    unfold fetchSelected
    exact Always.bind (Always.readReg h _ _ _) fun addr => Always.bind (Always.readReg h _ _ _) fun size =>
      Always.bind (Always.lift _) fun comp => Always.bind (Always.readFile h addr size) fun buf =>
        Always.bind (Always.verifyXml h buf c.entry) fun _ => Always.lift _

end

/-! ## Version order -/

theorem Version.le_iff (a b : Version) : a.le b = true ↔
    a.major < b.major ∨ (a.major = b.major ∧ (a.minor < b.minor ∨ (a.minor = b.minor ∧ a.subminor ≤ b.subminor))) := by
  simp [Version.le]

theorem Version.le_refl (a : Version) : a.le a = true := by
  rw [Version.le_iff]; omega

theorem Version.le_total (a b : Version) : a.le b = true ∨ b.le a = true := by
  rw [Version.le_iff, Version.le_iff]; omega

theorem Version.le_trans {a b c : Version} (h1 : a.le b = true) (h2 : b.le c = true) : a.le c = true := by
  rw [Version.le_iff] at *; omega

/-- `≤` in both directions is equality of the three numbers -/
theorem Version.le_antisymm {a b : Version} (h1 : a.le b = true) (h2 : b.le a = true) : a = b := by
  rw [Version.le_iff] at *
  cases a; cases b; simp only [Version.mk.injEq] at *; omega

/-! ## What the loop reads of entry `i` -/

/-- address of entry `i` -/
def entAddr (first i : Nat) : Nat := first + i * ENTRY_LEN

/-- header of an entry as the loop sees it: `some candidate` for a device XML entry, `none` for a
buffer XML entry; an unreadable header or a reserved file type is an error -/
def header (dev : Nat → Nat → R Bytes) (ent : Nat) : R (Option Candidate) := do
  let info ← readRegP dev ent ENTRY_FILE_FORMAT_INFO 4
  let ft ← fileType info
  if ft = .deviceXml then do
    let v ← readRegP dev ent ENTRY_FILE_VERSION 4
    pure (some ⟨ent, decodeVersion v, info⟩)
  else pure none

/-- effect of one header on the loop variable -/
def applyHeader (cur : Option Candidate) : Option Candidate → Option Candidate
  | some c => pick cur c
  | none => cur

theorem scanEntryP_eq (dev : Nat → Nat → R Bytes) (ent : Nat) (cur : Option Candidate) :
    scanEntryP dev ent cur = (header dev ent >>= fun h => pure (applyHeader cur h)) := by
  unfold scanEntryP header
  cases readRegP dev ent ENTRY_FILE_FORMAT_INFO 4 with
  | err e => rfl
  | panic => rfl
  | ok info =>
    simp only [Res.bind_ok]
    cases fileType info with
    | err e => rfl
    | panic => rfl
    | ok ft =>
      simp only [Res.bind_ok]
      by_cases hft : ft = .deviceXml
      · simp only [hft, if_true]
        cases readRegP dev ent ENTRY_FILE_VERSION 4 <;> rfl
      · simp only [hft, if_false]; rfl

/-- loop invariant: `cur` is the first maximal device-XML candidate among entries `< i` -/
def Newest (dev : Nat → Nat → R Bytes) (first i : Nat) : Option Candidate → Prop
  | none => ∀ j, j < i → header dev (entAddr first j) = .ok none
  | some c => ∃ i0, i0 < i ∧ header dev (entAddr first i0) = .ok (some c) ∧
      (∀ j cj, j < i → header dev (entAddr first j) = .ok (some cj) → cj.version.le c.version = true) ∧
      (∀ j cj, j < i0 → header dev (entAddr first j) = .ok (some cj) → c.version.le cj.version = false)

theorem Newest.step {dev : Nat → Nat → R Bytes} {first i : Nat} {cur : Option Candidate}
    (hinv : Newest dev first i cur) {h : Option Candidate} (hh : header dev (entAddr first i) = .ok h) :
    Newest dev first (i + 1) (applyHeader cur h) := by
  cases h with
  | none =>
    cases cur with
    | none =>
      intro j hj
      by_cases hji : j = i
      · subst hji; exact hh
      · exact hinv j (by omega)
    | some c =>
      obtain ⟨i0, hi0, hc, hmax, hfirst⟩ := hinv
      refine ⟨i0, by omega, hc, ?_, hfirst⟩
      intro j cj hj hcj
      by_cases hji : j = i
      · subst hji; rw [hh] at hcj; cases hcj
      · exact hmax j cj (by omega) hcj
  | some c =>
    cases cur with
    | none =>
      refine ⟨i, by omega, hh, ?_, ?_⟩
      · intro j cj hj hcj
        by_cases hji : j = i
        · subst hji; rw [hh] at hcj; cases hcj; exact Version.le_refl _
        · have := hinv j (by omega); rw [this] at hcj; cases hcj
      · intro j cj hj hcj
        have := hinv j hj; rw [this] at hcj; cases hcj
    | some b =>
      obtain ⟨i0, hi0, hb, hmax, hfirst⟩ := hinv
      simp only [applyHeader, pick]
      by_cases hle : c.version.le b.version = true
      · simp only [hle, if_true]
        refine ⟨i0, by omega, hb, ?_, hfirst⟩
        intro j cj hj hcj
        by_cases hji : j = i
        · subst hji; rw [hh] at hcj; cases hcj; exact hle
        · exact hmax j cj (by omega) hcj
      · simp only [hle]
        have hbc : b.version.le c.version = true := by
          rcases Version.le_total b.version c.version with h | h
          · exact h
          · exact absurd h hle
        refine ⟨i, by omega, hh, ?_, ?_⟩
        · intro j cj hj hcj
          by_cases hji : j = i
          · subst hji; rw [hh] at hcj; cases hcj; exact Version.le_refl _
          · exact Version.le_trans (hmax j cj (by omega) hcj) hbc
        · intro j cj hj hcj
          cases hcle : c.version.le cj.version with
          | false => rfl
          | true => exact absurd (Version.le_trans hcle (hmax j cj hj hcj)) hle

theorem scanP_newest (dev : Nat → Nat → R Bytes) (first : Nat) (k i : Nat) (cur r : Option Candidate)
    (hinv : Newest dev first i cur) (hs : scanP dev first k i cur = .ok r) :
    Newest dev first (i + k) r ∧ ∀ j, i ≤ j → j < i + k → ∃ hj, header dev (entAddr first j) = .ok hj := by
  induction k generalizing i cur with
  | zero =>
    simp only [scanP, Res.pure_eq, Res.ok.injEq] at hs
    subst hs
    exact ⟨hinv, fun j h1 h2 => by omega⟩
  | succ k ih =>
    simp only [scanP] at hs
    obtain ⟨cur', h1, h2⟩ := Res.bind_eq_ok hs
    rw [scanEntryP_eq] at h1
    obtain ⟨hd, h3, h4⟩ := Res.bind_eq_ok h1
    simp only [Res.pure_eq, Res.ok.injEq] at h4
    subst h4
    obtain ⟨g1, g2⟩ := ih (i + 1) _ (hinv.step h3) h2
    refine ⟨by rw [show i + (k + 1) = i + 1 + k by omega]; exact g1, ?_⟩
    intro j hj1 hj2
    by_cases hji : j = i
    · subst hji; exact ⟨hd, h3⟩
    · exact g2 j (by omega) (by omega)



/-! ## Inversion of the post-selection steps -/

theorem sha1HashP_inv {dev : Nat → Nat → R Bytes} {ent : Nat} {r : Option Bytes}
    (h : sha1HashP dev ent = .ok r) :
    ∃ a hb, regAddr ent ENTRY_SHA1_HASH = .ok a ∧ dev a 20 = .ok hb ∧
      r = if hb.all (· == 0) then none else some hb := by
  unfold sha1HashP at h
  obtain ⟨a, h1, h2⟩ := Res.bind_eq_ok h
  obtain ⟨hb, h3, h4⟩ := Res.bind_eq_ok h2
  refine ⟨a, hb, h1, h3, ?_⟩
  by_cases hz : hb.all (· == 0) = true
  · rw [if_pos hz] at h4; rw [if_pos hz]; exact (Res.ok.inj h4).symm
  · rw [if_neg hz] at h4; rw [if_neg hz]; exact (Res.ok.inj h4).symm

theorem verifyXmlP_inv {sha1 : Bytes → Bytes} {dev : Nat → Nat → R Bytes} {xml : Bytes} {ent : Nat}
    (h : verifyXmlP sha1 dev xml ent = .ok ()) :
    ∃ r, sha1HashP dev ent = .ok r ∧ ∀ hash, r = some hash → sha1 xml = hash := by
  unfold verifyXmlP at h
  obtain ⟨r, h1, h2⟩ := Res.bind_eq_ok h
  refine ⟨r, h1, ?_⟩
  intro hash hr
  subst hr
  simp only at h2
  split at h2
  · assumption
  · cases h2

theorem fetchSelected_inv {o : Ops σ} {dev : Nat → Nat → R Bytes} {c : Candidate} {t : Bytes}
    (h : fetchSelected o dev c = .ok t) :
    ∃ addr size comp buf, readRegP dev c.entry ENTRY_REGISTER_ADDRESS 8 = .ok addr ∧
      readRegP dev c.entry ENTRY_FILE_SIZE 8 = .ok size ∧ compressionType c.info = .ok comp ∧
      readFileP dev addr size = .ok buf ∧ verifyXmlP o.sha1 dev buf c.entry = .ok () ∧
      decodeFile o comp buf = .ok t := by
  unfold fetchSelected at h
  obtain ⟨addr, h1, h⟩ := Res.bind_eq_ok h
  obtain ⟨size, h2, h⟩ := Res.bind_eq_ok h
  obtain ⟨comp, h3, h⟩ := Res.bind_eq_ok h
  obtain ⟨buf, h4, h⟩ := Res.bind_eq_ok h
  obtain ⟨u, h5, h⟩ := Res.bind_eq_ok h
  exact ⟨addr, size, comp, buf, h1, h2, h3, h4, h5, h⟩

/-! ## No panics, for any device -/

def NeverPanics {α : Type} (x : M σ α) : Prop := ∀ st, (x st).1 ≠ .panic

theorem NeverPanics.bind {α β : Type} {x : M σ α} {f : α → M σ β}
    (hx : NeverPanics x) (hf : ∀ a, NeverPanics (f a)) : NeverPanics (x >>= f) := by
  intro st
  show (M.bind x f st).1 ≠ _
  simp only [M.bind]
  have := hx st
  cases hxs : x st with
  | mk r st' =>
    rw [hxs] at this
    cases r with
    | ok a => exact hf a st'
    | err e => simp
    | panic => exact absurd rfl this

theorem NeverPanics.pure {α : Type} (a : α) : NeverPanics (σ := σ) (Pure.pure a) := fun _ => by
  show (M.pure a _).1 ≠ _; simp [M.pure]
theorem NeverPanics.fail {α : Type} (e : Err) : NeverPanics (σ := σ) (M.fail e : M σ α) := fun _ => by
  simp [M.fail]
theorem NeverPanics.lift {α : Type} (r : R α) (h : r ≠ .panic) : NeverPanics (σ := σ) (M.lift r) :=
  fun _ => by simpa [M.lift] using h
theorem NeverPanics.get : NeverPanics (σ := σ) M.get := fun _ => by simp [M.get]
theorem NeverPanics.setManifest (a : Nat) : NeverPanics (σ := σ) (setManifest a) := fun _ => by
  simp [CamVerif.GenApiFetch.setManifest]

theorem regAddr_ne_panic (b off : Nat) : regAddr b off ≠ .panic := by
  unfold regAddr; split <;> simp
theorem fileType_ne_panic (i : Nat) : fileType i ≠ .panic := by
  unfold fileType; split <;> (try split) <;> simp
theorem compressionType_ne_panic (i : Nat) : compressionType i ≠ .panic := by
  unfold compressionType; split <;> (try split) <;> simp
theorem decodeFile_ne_panic (o : Ops σ) (c : Compression) (b : Bytes) : decodeFile o c b ≠ .panic := by
  unfold decodeFile
  cases c with
  | uncompressed => simp
  | zip =>
    simp only
    cases o.unzip b with
    | none => simp
    | some ms =>
      simp only
      split
      · simp
      · split <;> simp

section
variable {o : Ops σ} (h : ∀ a n s, (o.read a n s).1 ≠ .panic)
include h

theorem NeverPanics.devRead (a n : Nat) : NeverPanics (devRead o a n) := by
  intro st
  have := h a n st.dev
  simp only [CamVerif.GenApiFetch.devRead]
  exact this

theorem NeverPanics.readReg (b off len : Nat) : NeverPanics (readReg o b off len) := by
  unfold CamVerif.GenApiFetch.readReg
  exact NeverPanics.bind (NeverPanics.lift _ (regAddr_ne_panic _ _)) fun a =>
    NeverPanics.bind (NeverPanics.devRead h a len) fun _ => NeverPanics.pure _

theorem NeverPanics.scanEntry (ent : Nat) (cur : Option Candidate) : NeverPanics (scanEntry o ent cur) := by
  unfold CamVerif.GenApiFetch.scanEntry
  refine NeverPanics.bind (NeverPanics.readReg h _ _ _) fun info =>
    NeverPanics.bind (NeverPanics.lift _ (fileType_ne_panic _)) fun ft => ?_
  by_cases hft : ft = .deviceXml
  · simp only [hft, if_true]
    exact NeverPanics.bind (NeverPanics.readReg h _ _ _) fun _ => NeverPanics.pure _
  · simp only [hft, if_false]; exact NeverPanics.pure _

theorem NeverPanics.scan (first k i : Nat) (cur : Option Candidate) : NeverPanics (scan o first k i cur) := by
  induction k generalizing i cur with
  | zero => exact NeverPanics.pure _
  | succ k ih =>
    unfold CamVerif.GenApiFetch.scan
    exact NeverPanics.bind (NeverPanics.scanEntry h _ _) fun _ => ih _ _

theorem NeverPanics.readFileLoop (addr size fuel offset : Nat) (buf : Bytes) :
    NeverPanics (readFileLoop o addr size fuel offset buf) := by
  induction fuel generalizing offset buf with
  | zero => exact NeverPanics.pure _
  | succ fuel ih =>
    unfold CamVerif.GenApiFetch.readFileLoop
    by_cases hlt : offset < size
    · simp only [hlt, if_true]
      refine NeverPanics.bind (NeverPanics.lift _ ?_) fun a =>
        NeverPanics.bind (NeverPanics.devRead h a _) fun bs => ih _ _
      split <;> simp
    · simp only [hlt, if_false]; exact NeverPanics.pure _

theorem NeverPanics.genapiFrom (table : Nat) : NeverPanics (genapiFrom o table) := by
  unfold CamVerif.GenApiFetch.genapiFrom
  refine NeverPanics.bind ?_ fun nf => ?_
  · unfold CamVerif.GenApiFetch.entries
    refine NeverPanics.bind (NeverPanics.readReg h _ _ _) fun n => ?_
    by_cases hc : table + 8 + n * 64 ≤ 2 ^ 64
    · simp only [hc, if_true]; exact NeverPanics.pure _
    · simp only [hc, if_false]; exact NeverPanics.fail _
  · obtain ⟨n, first⟩ := nf
    refine NeverPanics.bind (NeverPanics.scan h first n 0 none) fun newest => ?_
    cases newest with
    | none => exact NeverPanics.fail _
    | some c =>
      refine NeverPanics.bind (NeverPanics.readReg h _ _ _) fun addr =>
        NeverPanics.bind (NeverPanics.readReg h _ _ _) fun size =>
        NeverPanics.bind (NeverPanics.lift _ (compressionType_ne_panic _)) fun comp =>
        NeverPanics.bind (NeverPanics.readFileLoop h addr size _ 0 []) fun buf => NeverPanics.bind ?_ fun _ =>
        NeverPanics.lift _ (decodeFile_ne_panic o comp buf)
      unfold CamVerif.GenApiFetch.verifyXml
      refine NeverPanics.bind ?_ fun r => ?_
      · unfold CamVerif.GenApiFetch.sha1Hash
        refine NeverPanics.bind (NeverPanics.lift _ (regAddr_ne_panic _ _)) fun a =>
          NeverPanics.bind (NeverPanics.devRead h a 20) fun hb => ?_
        by_cases hz : hb.all (· == 0) = true
        · simp only [hz, if_true]; exact NeverPanics.pure _
        · simp only [hz]; exact NeverPanics.pure _
      · cases r with
        | none => exact NeverPanics.pure _
        | some hash =>
          by_cases hs : o.sha1 buf = hash
          · simp only [hs, if_true]; exact NeverPanics.pure _
          · simp only [hs, if_false]; exact NeverPanics.fail _

theorem NeverPanics.genapi : NeverPanics (genapi o) := by
  unfold CamVerif.GenApiFetch.genapi
  refine NeverPanics.bind ?_ fun t => NeverPanics.genapiFrom h t
  unfold manifestTable
  refine NeverPanics.bind NeverPanics.get fun st => ?_
  cases st.manifest with
  | some a => exact NeverPanics.pure _
  | none =>
    exact NeverPanics.bind (NeverPanics.readReg h _ _ _) fun a =>
      NeverPanics.bind (NeverPanics.setManifest a) fun _ => NeverPanics.pure _

end

/-- a scan over buffer-XML entries only leaves the loop variable unchanged -/
theorem scanP_all_none (dev : Nat → Nat → R Bytes) (first : Nat) (k i : Nat) (cur : Option Candidate)
    (hh : ∀ j, i ≤ j → j < i + k → header dev (entAddr first j) = .ok none) :
    scanP dev first k i cur = .ok cur := by
  induction k generalizing i with
  | zero => rfl
  | succ k ih =>
    have h0 := hh i (Nat.le_refl _) (by omega)
    simp only [entAddr] at h0
    simp only [scanP, scanEntryP_eq, h0, Res.bind_ok, Res.pure_eq, applyHeader]
    exact ih (i + 1) (fun j h1 h2 => hh j (by omega) (by omega))

/-! ## `manifest_table` cache -/

theorem manifestTable_warm (o : Ops σ) (st : St σ) (table : Nat) (hc : st.manifest = some table) :
    manifestTable o st = (.ok table, st) := by
  simp only [manifestTable, bind, M.bind, M.get, hc]
  rfl

theorem manifestTable_cold_ok (o : Ops σ) (st st1 : St σ) (a : Nat) (hc : st.manifest = none)
    (h1 : readReg o 0 ABRM_MANIFEST_TABLE_ADDRESS 8 st = (.ok a, st1)) :
    manifestTable o st = (.ok a, { st1 with manifest := some a }) := by
  simp only [manifestTable, bind, M.bind, M.get, hc, h1]
  rfl

theorem manifestTable_cold_err (o : Ops σ) (st st1 : St σ) (e : Err) (hc : st.manifest = none)
    (h1 : readReg o 0 ABRM_MANIFEST_TABLE_ADDRESS 8 st = (.err e, st1)) :
    manifestTable o st = (.err e, st1) := by
  simp only [manifestTable, bind, M.bind, M.get, hc, h1]

theorem manifestTable_cold_panic (o : Ops σ) (st st1 : St σ) (hc : st.manifest = none)
    (h1 : readReg o 0 ABRM_MANIFEST_TABLE_ADDRESS 8 st = (.panic, st1)) :
    manifestTable o st = (.panic, st1) := by
  simp only [manifestTable, bind, M.bind, M.get, hc, h1]

/-! ## The zip branch -/

theorem decodeFile_zip_iff (o : Ops σ) (buf t : Bytes) :
    decodeFile o .zip buf = .ok t ↔ ∃ xml, o.unzip buf = some [some xml] ∧ t = o.lossy xml := by
  simp only [decodeFile]
  cases hu : o.unzip buf with
  | none => simp
  | some ms =>
    rcases ms with _ | ⟨m, _ | ⟨m2, rest⟩⟩
    · simp
    · cases m with
      | none => simp
      | some xml =>
        simp only [List.length_cons, List.length_nil, Nat.zero_add, ne_eq, not_true_eq_false, if_false,
          Res.ok.injEq, Option.some.injEq, List.cons.injEq, and_true]
        constructor
        · intro h; exact ⟨xml, rfl, h.symm⟩
        · rintro ⟨x, rfl, rfl⟩; rfl
    · simp

theorem decodeFile_zip_err (o : Ops σ) (buf : Bytes)
    (h : ∀ xml, o.unzip buf ≠ some [some xml]) : decodeFile o .zip buf = .err .invalidDevice := by
  simp only [decodeFile]
  cases hu : o.unzip buf with
  | none => rfl
  | some ms =>
    rcases ms with _ | ⟨m, _ | ⟨m2, rest⟩⟩
    · simp
    · cases m with
      | none => simp
      | some xml => exact absurd hu (h xml)
    · simp

/-- the first maximal device-XML candidate is unique -/
theorem Newest.unique {dev : Nat → Nat → R Bytes} {first n : Nat} {r r' : Option Candidate}
    (h : Newest dev first n r) (h' : Newest dev first n r') : r = r' := by
  cases r with
  | none =>
    cases r' with
    | none => rfl
    | some c' =>
      obtain ⟨i', hi', hc', _, _⟩ := h'
      have := h i' hi'
      rw [this] at hc'; cases hc'
  | some c =>
    cases r' with
    | none =>
      obtain ⟨i, hi, hc, _, _⟩ := h
      have := h' i hi
      rw [this] at hc; cases hc
    | some c' =>
      obtain ⟨i, hi, hc, hmax, hfirst⟩ := h
      obtain ⟨i', hi', hc', hmax', hfirst'⟩ := h'
      have hii : i = i' := by
        rcases Nat.lt_trichotomy i i' with hlt | heq | hgt
        · have h1 := hfirst' i c hlt hc
          have h2 := hmax i' c' hi' hc'
          rw [h1] at h2; cases h2
        · exact heq
        · have h1 := hfirst i' c' hgt hc'
          have h2 := hmax' i c hi hc
          rw [h1] at h2; cases h2
      subst hii
      rw [hc] at hc'
      cases hc'; rfl

/-- with every header readable the scan succeeds -/
theorem scanP_ok_of_headers (dev : Nat → Nat → R Bytes) (first : Nat) (k i : Nat) (cur : Option Candidate)
    (hh : ∀ j, i ≤ j → j < i + k → ∃ hj, header dev (entAddr first j) = .ok hj) :
    ∃ r, scanP dev first k i cur = .ok r := by
  induction k generalizing i cur with
  | zero => exact ⟨cur, rfl⟩
  | succ k ih =>
    obtain ⟨h0, hh0⟩ := hh i (Nat.le_refl _) (by omega)
    simp only [entAddr] at hh0
    simp only [scanP, scanEntryP_eq, hh0, Res.bind_ok, Res.pure_eq]
    exact ih (i + 1) _ (fun j h1 h2 => hh j (by omega) (by omega))

/-! ## The stepwise file read reads the advertised range completely -/

/-- the bytes `[a, a+n)` of a memory image -/
def memRange (mem : Nat → UInt8) (a n : Nat) : Bytes := (List.range n).map fun i => mem (a + i)

theorem memRange_add (mem : Nat → UInt8) (a n m : Nat) :
    memRange mem a (n + m) = memRange mem a n ++ memRange mem (a + n) m := by
  simp only [memRange, List.range_add, List.map_append, List.map_map]
  congr 1
  apply List.map_congr_left
  intro i _
  simp [Nat.add_assoc]

/-- `dev` serves every sub-range of the file `[addr, addr+size)` from the image `mem` -/
def ServesFile (dev : Nat → Nat → R Bytes) (mem : Nat → UInt8) (addr size : Nat) : Prop :=
  ∀ off n, 0 < n → off + n ≤ size → dev (addr + off) n = .ok (memRange mem (addr + off) n)

theorem readFileLoopP_mem (dev : Nat → Nat → R Bytes) (mem : Nat → UInt8) (addr size : Nat)
    (hs : ServesFile dev mem addr size) (ha : addr + size ≤ 2 ^ 64)
    (fuel offset : Nat) (ho : offset ≤ size) (hf : size - offset ≤ fuel * XML_READ_STEP) :
    readFileLoopP dev addr size fuel offset (memRange mem addr offset) = .ok (memRange mem addr size) := by
  induction fuel generalizing offset with
  | zero =>
    have : offset = size := by omega
    subst this; rfl
  | succ fuel ih =>
    unfold readFileLoopP
    by_cases hlt : offset < size
    · have hstep : 0 < min XML_READ_STEP (size - offset) := by
        have : 0 < XML_READ_STEP := by decide
        omega
      have hle : offset + min XML_READ_STEP (size - offset) ≤ size := by omega
      simp only [hlt, if_true]
      rw [if_pos (by omega)]
      simp only [Res.bind_ok, hs offset _ hstep hle, ← memRange_add]
      apply ih _ hle
      rw [Nat.succ_mul] at hf
      omega
    · have : offset = size := by omega
      subst this
      simp only [hlt, if_false]; rfl

/-- **read completely**: when the device serves the advertised range from an image, the
stepwise read returns exactly the `size` bytes stored at `addr`, whatever the size. -/
theorem readFileP_mem (dev : Nat → Nat → R Bytes) (mem : Nat → UInt8) (addr size : Nat)
    (hs : ServesFile dev mem addr size) (ha : addr + size ≤ 2 ^ 64) :
    readFileP dev addr size = .ok (memRange mem addr size) := by
  have h := readFileLoopP_mem dev mem addr size hs ha (size / XML_READ_STEP + 1) 0 (Nat.zero_le _) (by
    have := Nat.lt_div_mul_add (a := size) (b := XML_READ_STEP) (by decide)
    rw [Nat.add_mul]; omega)
  simpa [readFileP, memRange] using h

/-- a file of at most one step is one `DeviceControl::read` of exactly `(addr, size)` -/
theorem readFileP_small (dev : Nat → Nat → R Bytes) (addr size : Nat) (h0 : 0 < size)
    (hs : size ≤ XML_READ_STEP) (ha : addr < 2 ^ 64) :
    readFileP dev addr size = dev addr size := by
  have hf : size / XML_READ_STEP + 1 = (size / XML_READ_STEP) + 1 := rfl
  unfold readFileP
  rw [hf]
  unfold readFileLoopP
  simp only [h0, if_true, Nat.add_zero, Nat.sub_zero, Nat.min_eq_right hs, ha, Res.bind_ok, List.nil_append, Nat.zero_add]
  cases dev addr size with
  | err e => rfl
  | panic => rfl
  | ok bs =>
    simp only [Res.bind_ok]
    cases hq : size / XML_READ_STEP with
    | zero => rfl
    | succ k => unfold readFileLoopP; simp

/-- an advertised size of 0 causes no device access -/
theorem readFileP_zero (dev : Nat → Nat → R Bytes) (addr : Nat) : readFileP dev addr 0 = .ok [] := by
  simp [readFileP, readFileLoopP]

end CamVerif.GenApiFetch
