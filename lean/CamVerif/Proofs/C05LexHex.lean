/-
Helper lemmas for C05 (character level, second part): a generic composition lemma for the
lexer (any pieces whose characters lex to their token when followed by white space), and
hexadecimal literals as such pieces.
-/
import CamVerif.Proofs.C05Lex
import CamVerif.Spec.FormulaLit
set_option linter.unusedSectionVars false
set_option linter.unusedSimpArgs false
set_option linter.unusedVariables false
namespace CamVerif.Formula.Proofs
open CamVerif CamVerif.Formula CamVerif.Formula.Spec

variable {F : Type} [FloatOps F]

/-! ### generic composition -/

/-- `chars`, followed by any white-space character, lex to exactly the token `t`. -/
def LexesAs (chars : List Char) (t : Tok F) : Prop :=
  ∀ sp rest, isSpace sp = true →
    (lexOne (chars ++ sp :: rest) : Option (Tok F × List Char)) = some (t, sp :: rest) ∧
      StartsNonSpace (chars ++ sp :: rest)

structure Raw (F : Type) where
  tok : Tok F
  chars : List Char
  gap : List Char

def Raw.Ok (p : Raw F) : Prop :=
  LexesAs p.chars p.tok ∧ p.tok ≠ .bad ∧ p.tok ≠ .nofuel ∧ GoodGap p.gap ∧ ∀ c ∈ p.chars, c.toNat < 128

def rawBody (ps : List (Raw F)) : List Char := ps.flatMap (fun p => p.chars ++ p.gap)

theorem rawBody_length (ps : List (Raw F)) (h : ∀ p ∈ ps, p.Ok) : ps.length ≤ (rawBody ps).length := by
  induction ps with
  | nil => simp [rawBody]
  | cons p ps ih =>
    have hp := (h p (by simp)).2.2.2.1.1
    have := ih (fun q hq => h q (by simp [hq]))
    have hl : 0 < p.gap.length := List.length_pos_iff.mpr hp
    simp only [rawBody, List.flatMap_cons, List.length_append, List.length_cons] at this ⊢
    omega

theorem lexAux_raw (ps : List (Raw F)) (h : ∀ p ∈ ps, p.Ok) :
    ∀ (g0 : List Char) (fuel : Nat), g0.all isSpace = true → ps.length < fuel →
      (lexAux fuel (g0 ++ rawBody ps) : List (Tok F)) = ps.map (·.tok) := by
  induction ps with
  | nil =>
    intro g0 fuel hg hf
    cases fuel with
    | zero => omega
    | succ f =>
      have : skipSpace (g0 ++ rawBody ([] : List (Raw F))) = [] := skipSpace_gap g0 [] hg (Or.inl rfl)
      simp [lexAux, this, lexOne, nextChar]
  | cons p ps ih =>
    intro g0 fuel hg hf
    cases fuel with
    | zero => omega
    | succ f =>
      obtain ⟨hlex, hnb, hnf, ⟨hgap, hgs⟩, _⟩ := h p (by simp)
      cases hgp : p.gap with
      | nil => exact absurd hgp hgap
      | cons sp g =>
        rw [hgp] at hgs
        have hs : isSpace sp = true := by simpa using (List.all_eq_true.mp hgs) sp (by simp)
        have hb : rawBody (p :: ps) = p.chars ++ sp :: (g ++ rawBody ps) := by
          simp [rawBody, hgp]
        obtain ⟨h1, h2⟩ := hlex sp (g ++ rawBody ps) hs
        have hk : skipSpace (g0 ++ rawBody (p :: ps)) = p.chars ++ sp :: (g ++ rawBody ps) := by
          rw [hb]; exact skipSpace_gap g0 _ hg (Or.inr h2)
        have hrec := ih (fun q hq => h q (by simp [hq])) (sp :: g) f hgs (by simpa using hf)
        simp only [List.cons_append] at hrec
        unfold lexAux
        rw [hk, h1]
        cases htok : p.tok with
        | sym s => simp [hrec, htok]
        | ident s => simp [hrec, htok]
        | int i => simp [hrec, htok]
        | float x => simp [hrec, htok]
        | bad => exact absurd htok hnb
        | nofuel => exact absurd htok hnf

theorem lex_raw (lead : List Char) (ps : List (Raw F)) (hl : lead.all isSpace = true)
    (h : ∀ p ∈ ps, p.Ok) : (lex (lead ++ rawBody ps) : List (Tok F)) = ps.map (·.tok) := by
  have hb := rawBody_length ps h
  unfold lex
  exact lexAux_raw ps h lead _ hl (by simp only [List.length_append]; omega)

theorem parseChars_raw (lead : List Char) (ps : List (Raw F)) (hl : lead.all isSpace = true)
    (h : ∀ p ∈ ps, p.Ok) :
    (parseChars (lead ++ rawBody ps) : R (Expr F)) = parseToks (ps.map (·.tok)) := by
  have hascii : (lead ++ rawBody ps).any (fun c => decide (c.toNat ≥ 128)) = false := by
    rw [List.any_eq_false]
    intro c hc
    rw [List.mem_append] at hc
    have : c.toNat < 128 := by
      rcases hc with hc | hc
      · exact space_ascii lead hl c hc
      · simp only [rawBody, List.mem_flatMap, List.mem_append] at hc
        obtain ⟨p, hp, hc | hc⟩ := hc
        · exact (h p hp).2.2.2.2 c hc
        · exact space_ascii p.gap (h p hp).2.2.2.1.2 c hc
    simp; omega
  unfold parseChars
  simp only [hascii, Bool.false_eq_true, if_false, lex_raw lead ps hl h]
  split
  · next hc =>
    exfalso
    obtain ⟨t, ht, hm⟩ := List.any_eq_true.mp hc
    obtain ⟨p, hp, rfl⟩ := List.mem_map.mp ht
    have := (h p hp).2.2.1
    cases hpt : p.tok <;> simp_all
  · rfl

/-! ### hexadecimal digits -/

theorem hexDigit_facts : ∀ k, k < 16 →
    (isHexDigit (hexDigitChar true k) = true ∧ hexDigitVal (hexDigitChar true k) = k) ∧
    (isHexDigit (hexDigitChar false k) = true ∧ hexDigitVal (hexDigitChar false k) = k) := by decide

theorem hexDigit_fact (b : Bool) (k : Nat) (h : k < 16) :
    isHexDigit (hexDigitChar b k) = true ∧ hexDigitVal (hexDigitChar b k) = k := by
  cases b
  · exact (hexDigit_facts k h).2
  · exact (hexDigit_facts k h).1

def valLE16 (l : List Char) : Nat := l.foldr (fun c a => a * 16 + hexDigitVal c) 0

theorem hexToNat_reverse (l : List Char) : hexToNat l.reverse = valLE16 l := by
  simp [hexToNat, valLE16, List.foldl_reverse]

theorem hexRev_ok (up : Nat → Bool) (fuel : Nat) : ∀ n, n < fuel →
    valLE16 (hexRev up fuel n) = n ∧ (∀ c ∈ hexRev up fuel n, isHexDigit c = true) ∧ hexRev up fuel n ≠ [] := by
  induction fuel with
  | zero => intro n h; omega
  | succ f ih =>
    intro n h
    unfold hexRev
    by_cases h16 : n < 16
    · have := hexDigit_fact (up f) n h16
      simp [h16, valLE16, this.1, this.2]
    · have hd := hexDigit_fact (up f) (n % 16) (by omega)
      obtain ⟨h1, h2, _⟩ := ih (n / 16) (by omega)
      simp only [h16, if_false]
      refine ⟨?_, ?_, by simp⟩
      · simp only [valLE16, List.foldr_cons] at h1 ⊢
        rw [h1, hd.2]; omega
      · intro c hc
        rcases List.mem_cons.mp hc with rfl | hc
        · exact hd.1
        · exact h2 c hc

theorem hexDigits_ok (up : Nat → Bool) (n : Nat) :
    hexToNat (hexDigits up n) = n ∧ (∀ c ∈ hexDigits up n, isHexDigit c = true) ∧ hexDigits up n ≠ [] := by
  obtain ⟨h1, h2, h3⟩ := hexRev_ok up (n + 1) n (by omega)
  refine ⟨by rw [hexDigits, hexToNat_reverse, h1], fun c hc => h2 c (by simpa [hexDigits] using hc), ?_⟩
  simpa [hexDigits] using h3

theorem hexToNat_append (a b : List Char) :
    hexToNat (a ++ b) = b.foldl (fun x c => x * 16 + hexDigitVal c) (hexToNat a) := by
  simp [hexToNat, List.foldl_append]

theorem hexToNat_zeros (z : Nat) : hexToNat (List.replicate z '0') = 0 := by
  induction z with
  | zero => rfl
  | succ z ih =>
    rw [List.replicate_succ', hexToNat_append, ih]
    decide

/-- leading zeros do not change the value -/
theorem hexToNat_leading_zeros (z : Nat) (hs : List Char) :
    hexToNat (List.replicate z '0' ++ hs) = hexToNat hs := by
  rw [hexToNat_append, hexToNat_zeros]; rfl

theorem foldl_hex_ge (l : List Char) (a : Nat) :
    a * 16 ^ l.length ≤ l.foldl (fun x c => x * 16 + hexDigitVal c) a := by
  induction l generalizing a with
  | nil => simp
  | cons c l ih =>
    simp only [List.foldl_cons, List.length_cons]
    have := ih (a * 16 + hexDigitVal c)
    have h2 : a * 16 ^ (l.length + 1) = (a * 16) * 16 ^ l.length := by
      rw [Nat.pow_succ, Nat.mul_assoc, Nat.mul_comm (16 ^ l.length) 16]
    rw [h2]
    exact Nat.le_trans (Nat.mul_le_mul_right _ (Nat.le_add_right _ _)) this

/-- more than 16 significant digits: the value does not fit in 64 bits -/
theorem hexToNat_too_long (d : Char) (tl : List Char) (hd : 1 ≤ hexDigitVal d) (hl : 16 ≤ tl.length) :
    2 ^ 64 ≤ hexToNat (d :: tl) := by
  have h := foldl_hex_ge tl (0 * 16 + hexDigitVal d)
  have h1 : hexToNat (d :: tl) = tl.foldl (fun x c => x * 16 + hexDigitVal c) (0 * 16 + hexDigitVal d) := rfl
  rw [h1]
  refine Nat.le_trans ?_ h
  have h16 : (16 : Nat) ^ 16 ≤ 16 ^ tl.length := Nat.pow_le_pow_right (by decide) hl
  have : (2 : Nat) ^ 64 = 16 ^ 16 := by decide
  rw [this]
  calc 16 ^ 16 ≤ 16 ^ tl.length := h16
    _ = 1 * 16 ^ tl.length := by rw [Nat.one_mul]
    _ ≤ (0 * 16 + hexDigitVal d) * 16 ^ tl.length := Nat.mul_le_mul_right _ (by omega)

theorem space_not_hexDigit (c : Char) (h : isSpace c = true) : isHexDigit c = false :=
  of_space isHexDigit (by decide) c h

theorem hexDigit_ascii (c : Char) (h : isHexDigit c = true) : c.toNat < 128 := by
  simp only [isHexDigit, Bool.or_eq_true, Bool.and_eq_true, decide_eq_true_eq] at h
  rcases h with (h | ⟨_, h2⟩) | ⟨_, h2⟩
  · have := digit_range c h; omega
  · rw [Char.le_def] at h2; exact Nat.lt_of_le_of_lt h2 (by decide)
  · rw [Char.le_def] at h2; exact Nat.lt_of_le_of_lt h2 (by decide)

/-! ### the lexer on a hexadecimal literal -/

theorem lexOne_hex (bigX : Bool) (hs : List Char) (sp : Char) (rest : List Char)
    (hne : hs ≠ []) (hall : hs.all isHexDigit = true) (hs' : isSpace sp = true) :
    (lexOne ('0' :: (if bigX then 'X' else 'x') :: hs ++ sp :: rest) : Option (Tok F × List Char)) =
      some (hexTok false (hexToNat hs), sp :: rest) ∧
      StartsNonSpace ('0' :: (if bigX then 'X' else 'x') :: hs ++ sp :: rest) := by
  have hsp : nextChar (sp :: rest) = some (sp, rest) :=
    nextChar_plain sp rest (ne_of_pred isSpace sp '&' hs' (by decide))
  have hew : ∀ n, hs.length ≤ n → eatWhile isHexDigit n (hs ++ sp :: rest) = (hs, sp :: rest) := by
    intro n hn
    apply eatWhile_pre
    · exact hn
    · intro x hx
      have h1 : isHexDigit x = true := by simpa using (List.all_eq_true.mp hall) x hx
      exact ⟨h1, ne_of_pred isHexDigit x '&' h1 (by decide)⟩
    · exact Or.inr ⟨sp, rest, hsp, space_not_hexDigit sp hs'⟩
  have hem : hs.isEmpty = false := by cases hs <;> simp_all
  have hn0 : ∀ r, nextChar ('0' :: r) = some ('0', r) := fun r => nextChar_plain '0' r (by decide)
  have hnx : ∀ r, nextChar ('x' :: r) = some ('x', r) := fun r => nextChar_plain 'x' r (by decide)
  have hnX : ∀ r, nextChar ('X' :: r) = some ('X', r) := fun r => nextChar_plain 'X' r (by decide)
  have hd0 : isDigit '0' = true := by decide
  have ha0 : isAlpha '0' = false := by decide
  refine ⟨?_, '0', _, hn0 _, by decide⟩
  cases bigX
  · simp only [Bool.false_eq_true, if_false, List.cons_append, lexOne, hn0, eatChar, hnx]
    simp [hd0, ha0, hem, hew _ (show hs.length ≤ hs.length + (rest.length + 1) + 1 + 1 by omega)]
  · simp only [if_true, List.cons_append, lexOne, hn0, eatChar, hnX]
    simp [hd0, ha0, hem, hew _ (show hs.length ≤ hs.length + (rest.length + 1) + 1 + 1 by omega)]

theorem lexesAs_hex (bigX : Bool) (zeros : Nat) (up : Nat → Bool) (v : BitVec 64) :
    LexesAs (F := F) (hexChars bigX zeros up v.toNat) (.int v) := by
  intro sp rest hs
  obtain ⟨h1, h2, h3⟩ := hexDigits_ok up v.toNat
  have hall : (List.replicate zeros '0' ++ hexDigits up v.toNat).all isHexDigit = true := by
    rw [List.all_eq_true]
    intro c hc
    rcases List.mem_append.mp hc with hc | hc
    · rw [(List.mem_replicate.mp hc).2]; decide
    · exact h2 c hc
  have hne : List.replicate zeros '0' ++ hexDigits up v.toNat ≠ [] := by
    intro h; exact h3 (List.append_eq_nil_iff.mp h).2
  have := lexOne_hex (F := F) bigX _ sp rest hne hall hs
  rw [hexToNat_leading_zeros, h1] at this
  have hv : (hexTok false v.toNat : Tok F) = .int v := by
    simp [hexTok, v.isLt]
  rw [hv] at this
  simpa [hexChars] using this

theorem hexChars_ascii (bigX : Bool) (zeros : Nat) (up : Nat → Bool) (n : Nat) :
    ∀ c ∈ hexChars bigX zeros up n, c.toNat < 128 := by
  intro c hc
  simp only [hexChars, List.mem_cons, List.mem_append] at hc
  rcases hc with rfl | rfl | hc | hc
  · decide
  · cases bigX <;> decide
  · rw [(List.mem_replicate.mp hc).2]; decide
  · exact hexDigit_ascii c ((hexDigits_ok up n).2.1 c hc)

end CamVerif.Formula.Proofs
