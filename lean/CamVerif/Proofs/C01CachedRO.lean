/-
C01 with caching ON, part 3: reads never write (any node kind, any addressing), and the raw
round trip through a register with any addressing (`pIndex`) while its address is stable.
-/
import CamVerif.Proofs.C01CachedMore
namespace CamVerif.Proofs.C01Cached
open CamVerif CamVerif.Cache CamVerif.C04 CamVerif.Spec.Codec

/-! ## reads never write (any node kind, any addressing, default cache store) -/

/-- `m` only reads: device memory is unchanged and the log grows only by read entries -/
def RO {α : Type} (m : M Store α) : Prop :=
  ∀ s, (m s).2.dev.mem = s.dev.mem ∧ (m s).2.dev.noAccess = s.dev.noAccess ∧
    ∃ pre, (m s).2.dev.log = pre ++ s.dev.log ∧ ∀ x ∈ pre, x.write = false

theorem ro_same {α : Type} {m : M Store α} (h : ∀ s, (m s).2.dev = s.dev) : RO m :=
  fun s => ⟨by rw [h], by rw [h], [], by rw [h]; rfl, fun _ hx => by cases hx⟩

theorem ro_pure {α : Type} (a : α) : RO (M.pure a : M Store α) := ro_same (fun _ => rfl)
theorem ro_lift {α : Type} (r : R α) : RO (M.lift r : M Store α) := ro_same (fun _ => rfl)
theorem ro_fail {α : Type} (e : Err) : RO (M.fail e : M Store α) := ro_same (fun _ => rfl)
theorem ro_panic {α : Type} : RO (M.panic : M Store α) := ro_same (fun _ => rfl)

theorem ro_bind {α β : Type} {m : M Store α} {f : α → M Store β} (hm : RO m)
    (hf : ∀ a, RO (f a)) : RO (m >>= f) := by
  intro s
  rw [bind_apply]
  obtain ⟨hmem, hna, pre, hpre, hall⟩ := hm s
  cases h : (m s).1 with
  | ok a =>
    obtain ⟨hmem', hna', pre', hpre', hall'⟩ := hf a (m s).2
    refine ⟨by dsimp only; rw [hmem', hmem], by dsimp only; rw [hna', hna], pre' ++ pre,
      by dsimp only; rw [hpre', hpre, List.append_assoc], fun x hx => ?_⟩
    rcases List.mem_append.mp hx with hx | hx
    · exact hall' x hx
    · exact hall x hx
  | err e => exact ⟨hmem, hna, pre, hpre, hall⟩
  | panic => exact ⟨hmem, hna, pre, hpre, hall⟩

variable {p : Profile} {g : Graph}

theorem ro_readAndCache (n : NodeId) (r : Reg) (a : Int) (buflen : Nat) :
    RO (readAndCache defaultCache g n r a buflen) := by
  intro s
  rw [readAndCache_eq]
  split
  · exact ⟨rfl, rfl, [], rfl, fun _ hx => by cases hx⟩
  split
  · split
    · refine ⟨rfl, rfl, [_], rfl, fun x hx => ?_⟩
      rw [List.mem_singleton] at hx; rw [hx]
    · refine ⟨rfl, rfl, [_], rfl, fun x hx => ?_⟩
      rw [List.mem_singleton] at hx; rw [hx]
  · exact ⟨rfl, rfl, [], rfl, fun _ hx => by cases hx⟩

theorem ro_cachedRead (n : NodeId) (r : Reg) (a : Int) : RO (cachedRead defaultCache g n r a) := by
  intro s
  unfold cachedRead
  split
  · exact ⟨rfl, rfl, [], rfl, fun _ hx => by cases hx⟩
  · exact ro_readAndCache n r a r.len s

theorem ro_regAddr {ev : NodeId → M Store Int} (hev : ∀ m, RO (ev m)) (r : Reg) :
    RO (regAddr p ev r) := by
  unfold regAddr
  cases r.sel with
  | none => exact ro_pure _
  | some so =>
    obtain ⟨s, off⟩ := so
    exact ro_bind (hev s) (fun k => ro_bind (ro_lift _) (fun _ => ro_lift _))

theorem ro_withCacheOrRead {ev : NodeId → M Store Int} (hev : ∀ m, RO (ev m)) (n : NodeId)
    (r : Reg) : RO (withCacheOrRead defaultCache p g ev n r) := by
  unfold withCacheOrRead
  exact ro_bind (ro_regAddr hev r) (fun a => ro_cachedRead n r a)

theorem ro_evalInt (fuel : Nat) : ∀ n, RO (evalInt defaultCache p g fuel n) := by
  induction fuel with
  | zero => intro n; simp only [evalInt]; exact ro_panic
  | succ f ih =>
    intro n
    simp only [evalInt]
    cases g[n]? with
    | none => exact ro_panic
    | some nd =>
      cases nd with
      | port => exact ro_fail _
      | command _ _ => exact ro_fail _
      | integer pv _ => exact ih pv
      | enumeration pv _ => exact ih pv
      | boolean _ _ _ => exact ro_fail _
      | ctls _ => exact ro_fail _
      | reg r =>
        dsimp only
        cases r.kind with
        | int e s =>
          exact ro_bind (ro_withCacheOrRead ih n r) (fun _ => ro_lift _)
        | masked e s lsb msb =>
          dsimp only
          refine ro_bind (ro_withCacheOrRead ih n r) (fun _ => ?_)
          refine ro_bind (ro_lift _) (fun _ => ?_)
          refine ro_bind (ro_lift _) (fun lw => ?_)
          obtain ⟨l, w⟩ := lw
          exact ro_pure _
        | float _ => exact ro_fail _
        | string => exact ro_fail _
        | raw => exact ro_fail _

/-- **reads_never_write_cached**: `value()` of ANY node (register of any kind with any
addressing, Integer, Enumeration, Boolean feature), raw `IRegister::read` and
`IRegister::address`, in any state: device memory is unchanged and every access added to the
log is a read -/
theorem reads_never_write_cached (s : St Store) (op : Op)
    (hop : (∃ n, op = .value n) ∨ (∃ n l, op = .read n l) ∨ (∃ n, op = .address n)) :
    (run defaultCache p g s op).2.dev.mem = s.dev.mem ∧
    (run defaultCache p g s op).2.dev.noAccess = s.dev.noAccess ∧
    ∃ pre, (run defaultCache p g s op).2.dev.log = pre ++ s.dev.log ∧ ∀ x ∈ pre, x.write = false := by
  have hev := ro_evalInt (p := p) (g := g) (fuelOf g)
  rcases hop with ⟨n, rfl⟩ | ⟨n, l, rfl⟩ | ⟨n, rfl⟩
  · simp only [run, evalOp, opValue]
    cases g[n]? with
    | none => exact ro_fail _ s
    | some nd =>
      cases nd with
      | port => exact ro_fail _ s
      | command _ _ => exact ro_fail _ s
      | ctls _ => exact ro_fail _ s
      | integer pv cs => exact ro_bind (hev n) (fun _ => ro_pure _) s
      | enumeration pv vs => exact ro_bind (hev n) (fun _ => ro_pure _) s
      | boolean pv on off =>
        refine ro_bind (hev pv) (fun v => ?_) s
        split
        · exact ro_pure _
        split
        · exact ro_pure _
        · exact ro_fail _
      | reg r =>
        dsimp only
        cases r.kind with
        | int e sg => exact ro_bind (hev n) (fun _ => ro_pure _) s
        | masked e sg lsb msb => exact ro_bind (hev n) (fun _ => ro_pure _) s
        | float e => exact ro_bind (ro_withCacheOrRead hev n r) (fun _ => ro_lift _) s
        | string => exact ro_bind (ro_withCacheOrRead hev n r) (fun _ => ro_pure _) s
        | raw => exact ro_fail _ s
  · simp only [run, evalOp, opRead]
    cases g[n]? with
    | none => exact ro_fail _ s
    | some nd =>
      cases nd with
      | reg r =>
        exact ro_bind (ro_regAddr hev r)
          (fun a => ro_bind (ro_readAndCache n r a l) (fun _ => ro_pure _)) s
      | _ => exact ro_fail _ s
  · simp only [run, evalOp, opAddress]
    cases g[n]? with
    | none => exact ro_fail _ s
    | some nd =>
      cases nd with
      | reg r => exact ro_bind (ro_regAddr hev r) (fun _ => ro_pure _) s
      | _ => exact ro_fail _ s

/-- **cached_raw_roundtrip_dyn** (ANY addressing): after a successful raw write, if
`IRegister::address` still evaluates to the same address (the write did not move the
register, e.g. by overwriting its own selector), `IRegister::read` returns the written bytes -/
theorem cached_raw_roundtrip_dyn {s s' : St Store} {n : NodeId} {r : Reg}
    (hn : g[n]? = some (.reg r)) {buf : Bytes} {u : Val}
    (h : run defaultCache p g s (.write n buf) = (.ok u, s'))
    (hstable : (run defaultCache p g s' (.address n)).1 = (run defaultCache p g s (.address n)).1) :
    (run defaultCache p g s' (.read n r.len)).1 = .ok (.bytes buf) := by
  obtain ⟨_, a, _, haddr, _, hpk⟩ := cached_write_footprint_dyn hn h
  -- the port is a port (the write went through it)
  have hport : g[r.port]? = some .port := by
    simp only [run, evalOp, opWrite, hn] at h
    obtain ⟨_, hu, h2⟩ := bind_ok_inv h
    obtain ⟨_, hs'⟩ := pure_ok_inv h2
    have hw' := pair_eta hu
    obtain ⟨_, a', _, hw⟩ := writeAndCache_inv hw'
    rw [writeAt_eq] at hw
    split at hw
    · assumption
    · cases hw
  rw [haddr] at hstable
  have ha' : (regAddr p (evalInt defaultCache p g (fuelOf g)) r s').1 = .ok a := by
    simp only [run, evalOp, opAddress, hn] at hstable
    rw [bind_apply] at hstable
    cases hr : (regAddr p (evalInt defaultCache p g (fuelOf g)) r s').1 with
    | ok a2 =>
      rw [hr] at hstable
      have : a2 = a := by
        have h3 : (Res.ok (Val.int a2) : R Val) = .ok (.int a) := hstable
        injection h3 with h3; injection h3
      rw [this]
    | err e => rw [hr] at hstable; cases hstable
    | panic => rw [hr] at hstable; cases hstable
  obtain ⟨hmem, hna, _⟩ := ro_regAddr (p := p) (ro_evalInt (p := p) (g := g) (fuelOf g)) r s'
  have hpk' : (regAddr p (evalInt defaultCache p g (fuelOf g)) r s').2.dev.peek a r.len = some buf := by
    rw [← hpk]
    unfold Dev.peek Dev.readOk
    rw [hmem, hna]
  simp only [run, evalOp, opRead, hn]
  rw [bind_apply, ha']
  dsimp only
  rw [bind_apply, readAndCache_eq, if_neg (by simp), if_pos hport, hpk']
  rfl

end CamVerif.Proofs.C01Cached
