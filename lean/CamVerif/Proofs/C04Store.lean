/-
C04 helper lemmas, part 1: association lists, the `DefaultCacheStore` model as a finite map
(`get` after every operation), the invalidator table built by the parser, and the device
memory frame lemmas.
-/
import CamVerif.Spec.CacheSpec
namespace CamVerif.C04
open CamVerif CamVerif.Cache

/-! ### association lists -/

theorem alGet_alSet {κ ν : Type} [DecidableEq κ] (k k' : κ) (v : ν) (l : List (κ × ν)) :
    alGet k' (alSet k v l) = if k' = k then some v else alGet k' l := by
  induction l with
  | nil =>
    simp only [alSet, alGet]
    by_cases h : k = k'
    · simp [h]
    · have : ¬ k' = k := fun e => h e.symm
      simp [h, this]
  | cons hd tl ih =>
    obtain ⟨k0, v0⟩ := hd
    simp only [alSet]
    by_cases h0 : k0 = k
    · subst h0
      simp only [if_true, alGet]
      by_cases h1 : k0 = k'
      · simp [h1]
      · have : ¬ k' = k0 := fun e => h1 e.symm
        simp [h1, this]
    · simp only [h0, if_false, alGet]
      by_cases h1 : k0 = k'
      · subst h1
        simp [h0]
      · simp only [h1, if_false, ih]

theorem alGet_alModify {κ ν : Type} [DecidableEq κ] (k k' : κ) (f : ν → ν) (l : List (κ × ν)) :
    alGet k' (alModify k f l) = if k' = k then (alGet k' l).map f else alGet k' l := by
  induction l with
  | nil => simp [alModify, alGet]
  | cons hd tl ih =>
    obtain ⟨k0, v0⟩ := hd
    simp only [alModify]
    by_cases h0 : k0 = k
    · subst h0
      simp only [if_true, alGet]
      by_cases h1 : k0 = k'
      · simp [h1]
      · have : ¬ k' = k0 := fun e => h1 e.symm
        simp [h1, this]
    · simp only [h0, if_false, alGet]
      by_cases h1 : k0 = k'
      · subst h1
        simp [h0]
      · simp only [h1, if_false, ih]

theorem alGet_append_none {κ ν : Type} [DecidableEq κ] (k : κ) (l l' : List (κ × ν))
    (h : alGet k l = none) : alGet k (l ++ l') = alGet k l' := by
  induction l with
  | nil => rfl
  | cons hd tl ih =>
    obtain ⟨k0, v0⟩ := hd
    simp only [alGet] at h
    simp only [List.cons_append, alGet]
    by_cases h0 : k0 = k
    · simp [h0] at h
    · simp only [h0, if_false] at h ⊢
      exact ih h

theorem alGet_append_some {κ ν : Type} [DecidableEq κ] (k : κ) (l l' : List (κ × ν)) (v : ν)
    (h : alGet k l = some v) : alGet k (l ++ l') = some v := by
  induction l with
  | nil => simp [alGet] at h
  | cons hd tl ih =>
    obtain ⟨k0, v0⟩ := hd
    simp only [alGet] at h
    simp only [List.cons_append, alGet]
    by_cases h0 : k0 = k
    · simpa [h0] using h
    · simp only [h0, if_false] at h ⊢
      exact ih h

/-! ### the store as a finite map -/

theorem get_cache (s : Store) (n : NodeId) (a : Int) (l : Nat) (d : Bytes)
    (n' : NodeId) (a' : Int) (l' : Nat) :
    (s.cache n a l d).get n' a' l' =
      if n' = n ∧ a' = a ∧ l' = l then some d else s.get n' a' l' := by
  unfold Store.cache Store.get
  cases h : alGet n s.store with
  | some l1 =>
    simp only [alGet_alModify]
    by_cases hn : n' = n
    · subst hn
      simp only [if_true, h, Option.map_some, alGet_alSet, true_and]
      by_cases hk : (a', l') = (a, l)
      · have := Prod.mk.inj hk
        simp [this.1, this.2]
      · have : ¬ (a' = a ∧ l' = l) := fun ⟨h1, h2⟩ => hk (by rw [h1, h2])
        simp [hk, this]
    · simp [hn]
  | none =>
    simp only
    by_cases hn : n' = n
    · subst hn
      rw [alGet_append_none _ _ _ h]
      simp only [alGet, if_true, h, true_and]
      by_cases hk : (a, l) = (a', l')
      · have := Prod.mk.inj hk
        simp [this.1, this.2]
      · have : ¬ (a' = a ∧ l' = l) := fun ⟨h1, h2⟩ => hk (by rw [h1, h2])
        simp [hk, this]
    · simp only [hn, false_and, if_false]
      cases h' : alGet n' s.store with
      | some l1 => rw [alGet_append_some _ _ _ _ h']
      | none =>
        rw [alGet_append_none _ _ _ h']
        have hne : ¬ n = n' := fun e => hn e.symm
        simp [alGet, hne]

@[simp] theorem invalidators_cache (s : Store) (n : NodeId) (a : Int) (l : Nat) (d : Bytes) :
    (s.cache n a l d).invalidators = s.invalidators := by
  unfold Store.cache; split <;> rfl

@[simp] theorem invalidators_invalidateOf (s : Store) (n : NodeId) :
    (s.invalidateOf n).invalidators = s.invalidators := rfl

@[simp] theorem invalidators_clear (s : Store) : s.clear.invalidators = s.invalidators := rfl

theorem get_invalidateOf (s : Store) (n n' : NodeId) (a : Int) (l : Nat) :
    (s.invalidateOf n).get n' a l = if n' = n then none else s.get n' a l := by
  unfold Store.invalidateOf Store.get
  simp only [alGet_alModify]
  by_cases hn : n' = n
  · subst hn
    cases h : alGet n' s.store <;> simp [alGet]
  · simp [hn]

theorem foldl_invalidateOf_invalidators (ts : List NodeId) (s : Store) :
    (ts.foldl Store.invalidateOf s).invalidators = s.invalidators := by
  induction ts generalizing s with
  | nil => rfl
  | cons t ts ih => simp only [List.foldl_cons, ih, invalidators_invalidateOf]

theorem get_foldl_invalidateOf (ts : List NodeId) (s : Store) (n : NodeId) (a : Int) (l : Nat) :
    (ts.foldl Store.invalidateOf s).get n a l = if n ∈ ts then none else s.get n a l := by
  induction ts generalizing s with
  | nil => simp
  | cons t ts ih =>
    simp only [List.foldl_cons, ih, get_invalidateOf, List.mem_cons]
    by_cases h1 : n ∈ ts
    · simp [h1]
    · by_cases h2 : n = t
      · simp [h2]
      · simp [h1, h2]

@[simp] theorem invalidators_invalidateBy (s : Store) (n : NodeId) :
    (s.invalidateBy n).invalidators = s.invalidators := by
  unfold Store.invalidateBy; exact foldl_invalidateOf_invalidators _ _

theorem get_invalidateBy (s : Store) (m n : NodeId) (a : Int) (l : Nat) :
    (s.invalidateBy m).get n a l = if n ∈ s.targets m then none else s.get n a l := by
  unfold Store.invalidateBy; exact get_foldl_invalidateOf _ _ _ _ _

theorem get_clear (s : Store) (n : NodeId) (a : Int) (l : Nat) : s.clear.get n a l = none := by
  simp [Store.clear, Store.get, alGet]

theorem targets_congr {s s' : Store} (h : s'.invalidators = s.invalidators) (m : NodeId) :
    s'.targets m = s.targets m := by
  unfold Store.targets; rw [h]

/-! ### the table registered by the parser -/

theorem targets_storeInvalidator (s : Store) (inv i m : NodeId) :
    (s.storeInvalidator inv i).targets m =
      if m = inv then s.targets inv ++ [i] else s.targets m := by
  unfold Store.storeInvalidator Store.targets
  simp only [alGet_alSet]
  split <;> simp_all

theorem mem_targets_foldl (invs : List NodeId) (s : Store) (i m t : NodeId) :
    t ∈ (invs.foldl (fun s inv => s.storeInvalidator inv i) s).targets m ↔
      t ∈ s.targets m ∨ (m ∈ invs ∧ t = i) := by
  induction invs generalizing s with
  | nil => simp
  | cons x xs ih =>
    simp only [List.foldl_cons, ih, targets_storeInvalidator, List.mem_cons]
    by_cases hm : m = x
    · subst hm
      simp only [if_true, List.mem_append, List.mem_singleton, true_or, true_and]
      constructor
      · rintro ((h | h) | h)
        · exact Or.inl h
        · exact Or.inr h
        · exact Or.inr h.2
      · rintro (h | h)
        · exact Or.inl (Or.inl h)
        · exact Or.inl (Or.inr h)
    · simp [hm]

theorem get_foldl_storeInvalidator (invs : List NodeId) (s : Store) (i : NodeId) :
    (invs.foldl (fun s inv => s.storeInvalidator inv i) s).store = s.store := by
  induction invs generalizing s with
  | nil => rfl
  | cons x xs ih => simp only [List.foldl_cons, ih]; rfl

theorem buildStoreAux_store (ns : List Node) (i : NodeId) (s : Store) :
    (buildStoreAux ns i s).store = s.store := by
  induction ns generalizing i s with
  | nil => rfl
  | cons nd rest ih =>
    cases nd <;> simp only [buildStoreAux, ih, get_foldl_storeInvalidator]

theorem buildStoreAux_mono (ns : List Node) (i : NodeId) (s : Store) (m t : NodeId)
    (h : t ∈ s.targets m) : t ∈ (buildStoreAux ns i s).targets m := by
  induction ns generalizing i s with
  | nil => exact h
  | cons nd rest ih =>
    cases nd with
    | reg r =>
      simp only [buildStoreAux]
      exact ih _ _ ((mem_targets_foldl _ _ _ _ _).mpr (Or.inl h))
    | port => exact ih _ _ h
    | integer _ _ => exact ih _ _ h
    | command _ _ => exact ih _ _ h
    | boolean _ _ _ => exact ih _ _ h
    | ctls _ => exact ih _ _ h
    | enumeration _ _ => exact ih _ _ h

theorem buildStoreAux_table (ns : List Node) (i : Nat) (s : Store) (j : Nat) (r : Reg)
    (m : NodeId) (hj : ns[j]? = some (.reg r)) (hm : m ∈ r.invs) :
    (i + j) ∈ (buildStoreAux ns i s).targets m := by
  induction ns generalizing i s j with
  | nil => simp at hj
  | cons nd rest ih =>
    cases j with
    | zero =>
      simp only [List.getElem?_cons_zero, Option.some.injEq] at hj
      subst hj
      simp only [buildStoreAux, Nat.add_zero]
      exact buildStoreAux_mono _ _ _ _ _ ((mem_targets_foldl _ _ _ _ _).mpr (Or.inr ⟨hm, rfl⟩))
    | succ j =>
      simp only [List.getElem?_cons_succ] at hj
      have := fun s => ih (i + 1) s j hj
      have e : i + (j + 1) = i + 1 + j := by omega
      rw [e]
      cases nd <;> simp only [buildStoreAux] <;> exact this _

theorem buildStore_table (g : Graph) : TableOk g (buildStore g) := by
  intro t r m ht hm
  have := buildStoreAux_table g 0 ⟨[], []⟩ t r m ht hm
  simpa [buildStore] using this

theorem buildStore_get (g : Graph) (n : NodeId) (a : Int) (l : Nat) :
    (buildStore g).get n a l = none := by
  unfold buildStore Store.get
  rw [buildStoreAux_store]
  simp [alGet]

/-! ### device memory frame lemmas -/

theorem getElem?_slice (m : Bytes) (a l i : Nat) :
    (slice m a l)[i]? = if i < l then m[a + i]? else none := by
  unfold slice
  rw [List.getElem?_take]
  split
  · rw [List.getElem?_drop]
  · rfl

theorem getElem?_patch (m : Bytes) (a : Nat) (d : Bytes) (j : Nat) (h : a + d.length ≤ m.length) :
    (patch m a d)[j]? =
      if j < a then m[j]? else if j < a + d.length then d[j - a]? else m[j]? := by
  unfold patch
  have hta : (m.take a).length = a := by rw [List.length_take]; omega
  rw [List.append_assoc]
  by_cases h1 : j < a
  · rw [List.getElem?_append_left (by omega)]
    simp [h1]
  · rw [List.getElem?_append_right (by omega)]
    simp only [hta, h1, if_false]
    by_cases h2 : j < a + d.length
    · rw [List.getElem?_append_left (by omega)]
      simp [h2]
    · rw [List.getElem?_append_right (by omega)]
      simp only [h2, if_false, List.getElem?_drop]
      congr 1
      omega

theorem length_patch (m : Bytes) (a : Nat) (d : Bytes) (h : a + d.length ≤ m.length) :
    (patch m a d).length = m.length := by
  unfold patch
  simp only [List.length_append, List.length_take, List.length_drop]
  omega

theorem slice_patch_same (m : Bytes) (a : Nat) (d : Bytes) (h : a + d.length ≤ m.length) :
    slice (patch m a d) a d.length = d := by
  apply List.ext_getElem?
  intro i
  rw [getElem?_slice, getElem?_patch _ _ _ _ h]
  by_cases hi : i < d.length
  · have h1 : ¬ a + i < a := by omega
    have h2 : a + i < a + d.length := by omega
    simp only [hi, h1, h2, if_true, if_false]
    congr 1
    omega
  · simp only [hi, if_false]
    exact (List.getElem?_eq_none (by omega)).symm

theorem slice_patch_disjoint (m : Bytes) (a : Nat) (d : Bytes) (a' l' : Nat)
    (h : a + d.length ≤ m.length) (hd : a' + l' ≤ a ∨ a + d.length ≤ a') :
    slice (patch m a d) a' l' = slice m a' l' := by
  apply List.ext_getElem?
  intro i
  rw [getElem?_slice, getElem?_slice, getElem?_patch _ _ _ _ h]
  by_cases hi : i < l'
  · simp only [hi, if_true]
    rcases hd with hd | hd
    · have : a' + i < a := by omega
      simp [this]
    · have h1 : ¬ a' + i < a := by omega
      have h2 : ¬ a' + i < a + d.length := by omega
      simp [h1, h2]
  · simp [hi]

end CamVerif.C04
