/-
C03 helper lemmas: monotonicity of the interpreter in its fuel.  `m₁ ≤ m₂` ("`m₂` refines
`m₁`"): wherever `m₁` does not run out of fuel, `m₂` does exactly the same.
-/
import CamVerif.Proofs.GenApiLemmas
namespace CamVerif.C03
open CamVerif CamVerif.GenApi

variable {F E α β : Type}

structure RLe (m1 m2 : R F α) : Prop where
  le : ∀ s, (m1 s).1 ≠ .err .outOfFuel → m1 s = m2 s
structure MLe (m1 m2 : M F α) : Prop where
  le : ∀ s, (m1 s).1 ≠ .err .outOfFuel → m1 s = m2 s

theorem RLe.refl (m : R F α) : RLe m m := ⟨fun _ _ => rfl⟩
theorem MLe.refl (m : M F α) : MLe m m := ⟨fun _ _ => rfl⟩

theorem RLe.bind {m1 m2 : R F α} {f1 f2 : α → R F β} (hm : RLe m1 m2) (hf : ∀ a, RLe (f1 a) (f2 a)) :
    RLe (m1 >>= f1) (m2 >>= f2) := by
  constructor
  intro s h
  show R.bind m1 f1 s = R.bind m2 f2 s
  change (R.bind m1 f1 s).1 ≠ _ at h
  unfold R.bind at h ⊢
  cases h1 : m1 s with
  | mk r l =>
    rw [h1] at h
    cases r with
    | ok a =>
      rw [← hm.le s (by rw [h1]; simp), h1]
      simp only at h ⊢
      have : (f1 a s).1 ≠ .err .outOfFuel := by
        cases hf1 : f1 a s; rw [hf1] at h; exact h
      rw [(hf a).le s this]
    | err e =>
      simp only at h
      rw [← hm.le s (by rw [h1]; simpa using h), h1]
    | panic => rw [← hm.le s (by rw [h1]; simp), h1]

theorem MLe.bind {m1 m2 : M F α} {f1 f2 : α → M F β} (hm : MLe m1 m2) (hf : ∀ a, MLe (f1 a) (f2 a)) :
    MLe (m1 >>= f1) (m2 >>= f2) := by
  constructor
  intro s h
  show M.bind m1 f1 s = M.bind m2 f2 s
  change (M.bind m1 f1 s).1 ≠ _ at h
  unfold M.bind at h ⊢
  cases h1 : m1 s with
  | mk r rest =>
    obtain ⟨s', l⟩ := rest
    rw [h1] at h
    cases r with
    | ok a =>
      rw [← hm.le s (by rw [h1]; simp), h1]
      simp only at h ⊢
      have : (f1 a s').1 ≠ .err .outOfFuel := by
        cases hf1 : f1 a s' with
        | mk r2 rest2 => obtain ⟨s2, l2⟩ := rest2; rw [hf1] at h; exact h
      rw [(hf a).le s' this]
    | err e =>
      simp only at h
      rw [← hm.le s (by rw [h1]; simpa using h), h1]
    | panic => rw [← hm.le s (by rw [h1]; simp), h1]

theorem MLe.ofR {m1 m2 : R F α} (hm : RLe m1 m2) : MLe (M.ofR m1) (M.ofR m2) := by
  constructor
  intro s h
  unfold M.ofR at h ⊢
  have : (m1 s).1 ≠ .err .outOfFuel := by
    cases h1 : m1 s; rw [h1] at h; exact h
  rw [hm.le s this]

/-- pointwise refinement of the interface calls -/
structure RecLe (r1 r2 : Rec F) : Prop where
  intValue : ∀ n, RLe (r1.intValue n) (r2.intValue n)
  intMin : ∀ n, RLe (r1.intMin n) (r2.intMin n)
  intMax : ∀ n, RLe (r1.intMax n) (r2.intMax n)
  intInc : ∀ n, RLe (r1.intInc n) (r2.intInc n)
  intIsReadable : ∀ n, RLe (r1.intIsReadable n) (r2.intIsReadable n)
  intIsWritable : ∀ n, RLe (r1.intIsWritable n) (r2.intIsWritable n)
  floatValue : ∀ n, RLe (r1.floatValue n) (r2.floatValue n)
  floatMin : ∀ n, RLe (r1.floatMin n) (r2.floatMin n)
  floatMax : ∀ n, RLe (r1.floatMax n) (r2.floatMax n)
  floatInc : ∀ n, RLe (r1.floatInc n) (r2.floatInc n)
  floatIsReadable : ∀ n, RLe (r1.floatIsReadable n) (r2.floatIsReadable n)
  floatIsWritable : ∀ n, RLe (r1.floatIsWritable n) (r2.floatIsWritable n)
  strValue : ∀ n, RLe (r1.strValue n) (r2.strValue n)
  strMaxLength : ∀ n, RLe (r1.strMaxLength n) (r2.strMaxLength n)
  strIsReadable : ∀ n, RLe (r1.strIsReadable n) (r2.strIsReadable n)
  strIsWritable : ∀ n, RLe (r1.strIsWritable n) (r2.strIsWritable n)
  boolValue : ∀ n, RLe (r1.boolValue n) (r2.boolValue n)
  boolIsReadable : ∀ n, RLe (r1.boolIsReadable n) (r2.boolIsReadable n)
  boolIsWritable : ∀ n, RLe (r1.boolIsWritable n) (r2.boolIsWritable n)
  enumCurrentValue : ∀ n, RLe (r1.enumCurrentValue n) (r2.enumCurrentValue n)
  enumCurrentEntry : ∀ n, RLe (r1.enumCurrentEntry n) (r2.enumCurrentEntry n)
  enumIsReadable : ∀ n, RLe (r1.enumIsReadable n) (r2.enumIsReadable n)
  enumIsWritable : ∀ n, RLe (r1.enumIsWritable n) (r2.enumIsWritable n)
  intSet : ∀ n v, MLe (r1.intSet n v) (r2.intSet n v)
  floatSet : ∀ n v, MLe (r1.floatSet n v) (r2.floatSet n v)
  strSet : ∀ n v, MLe (r1.strSet n v) (r2.strSet n v)
  boolSet : ∀ n v, MLe (r1.boolSet n v) (r2.boolSet n v)
  enumSetByValue : ∀ n v, MLe (r1.enumSetByValue n v) (r2.enumSetByValue n v)

/- `le_auto h [lemmas]` closes / decomposes refinement goals: reflexivity, the hypothesis on
the interface calls, binds, lifts, case splits, and the listed lemmas about helpers. -/
open Lean in
syntax "le_auto " ident (" [" term,* "]")? : tactic
open Lean in
macro_rules
  | `(tactic| le_auto $h:ident) => `(tactic| le_auto $h [])
  | `(tactic| le_auto $h:ident [$ts,*]) => do
    let mut alts : Array (TSyntax `tactic) := #[← `(tactic| fail "no lemma applies")]
    for t in ts.getElems do
      alts := alts.push (← `(tactic| exact $t $h _))
      alts := alts.push (← `(tactic| exact $t $h _ _))
      alts := alts.push (← `(tactic| exact $t $h _ _ _))
      alts := alts.push (← `(tactic| exact $t $h _ _ _ _))
      alts := alts.push (← `(tactic| exact $t $h _ _ _ _ _))
      alts := alts.push (← `(tactic| exact $t $h))
    `(tactic|
      repeat' (first
      | exact RLe.refl _ | exact MLe.refl _
      | exact ($h).intValue _
      | exact ($h).intMin _
      | exact ($h).intMax _
      | exact ($h).intInc _
      | exact ($h).intIsReadable _
      | exact ($h).intIsWritable _
      | exact ($h).floatValue _
      | exact ($h).floatMin _
      | exact ($h).floatMax _
      | exact ($h).floatInc _
      | exact ($h).floatIsReadable _
      | exact ($h).floatIsWritable _
      | exact ($h).strValue _
      | exact ($h).strMaxLength _
      | exact ($h).strIsReadable _
      | exact ($h).strIsWritable _
      | exact ($h).boolValue _
      | exact ($h).boolIsReadable _
      | exact ($h).boolIsWritable _
      | exact ($h).enumCurrentValue _
      | exact ($h).enumCurrentEntry _
      | exact ($h).enumIsReadable _
      | exact ($h).enumIsWritable _
      | exact ($h).intSet _ _
      | exact ($h).floatSet _ _
      | exact ($h).strSet _ _
      | exact ($h).boolSet _ _
      | exact ($h).enumSetByValue _ _
      | (first $[| $alts:tactic]*)
      | apply RLe.bind | apply MLe.bind | apply MLe.ofR
      | intro _
      | split))

section
variable {cx : Ctx F E} {r1 r2 : Rec F}

theorem nidIntValue_le (h : RecLe r1 r2) (n : NodeId) :
    RLe (nidIntValue cx r1 n) (nidIntValue cx r2 n) := by
  unfold nidIntValue; le_auto h []

theorem nidIntSet_le (h : RecLe r1 r2) (n : NodeId) (v : Int) :
    MLe (nidIntSet cx r1 n v) (nidIntSet cx r2 n v) := by
  unfold nidIntSet; le_auto h []

theorem nidFloatValue_le (h : RecLe r1 r2) (n : NodeId) :
    RLe (nidFloatValue cx r1 n) (nidFloatValue cx r2 n) := by
  unfold nidFloatValue; le_auto h []

theorem nidFloatSet_le (h : RecLe r1 r2) (n : NodeId) (v : F) :
    MLe (nidFloatSet cx r1 n v) (nidFloatSet cx r2 n v) := by
  unfold nidFloatSet; le_auto h []

theorem nidIsReadable_le (h : RecLe r1 r2) (n : NodeId) :
    RLe (nidIsReadable cx r1 n) (nidIsReadable cx r2 n) := by
  unfold nidIsReadable; le_auto h []

theorem nidIsWritable_le (h : RecLe r1 r2) (n : NodeId) :
    RLe (nidIsWritable cx r1 n) (nidIsWritable cx r2 n) := by
  unfold nidIsWritable; le_auto h []

theorem nidStrValue_le (h : RecLe r1 r2) (n : NodeId) :
    RLe (nidStrValue cx r1 n) (nidStrValue cx r2 n) := by
  unfold nidStrValue; le_auto h []

theorem nidStrSet_le (h : RecLe r1 r2) (n : NodeId) (v : Bytes) :
    MLe (nidStrSet cx r1 n v) (nidStrSet cx r2 n v) := by
  unfold nidStrSet; le_auto h []

theorem nidStrIsReadable_le (h : RecLe r1 r2) (n : NodeId) :
    RLe (nidStrIsReadable cx r1 n) (nidStrIsReadable cx r2 n) := by
  unfold nidStrIsReadable; le_auto h []

theorem nidStrIsWritable_le (h : RecLe r1 r2) (n : NodeId) :
    RLe (nidStrIsWritable cx r1 n) (nidStrIsWritable cx r2 n) := by
  unfold nidStrIsWritable; le_auto h []

theorem immIntValue_le (h : RecLe r1 r2) (a : ImmOrPNode Int) :
    RLe (immIntValue cx r1 a) (immIntValue cx r2 a) := by
  unfold immIntValue; le_auto h [nidIntValue_le]

theorem immFloatValue_le (h : RecLe r1 r2) (a : ImmOrPNode F) :
    RLe (immFloatValue cx r1 a) (immFloatValue cx r2 a) := by
  unfold immFloatValue; le_auto h [nidFloatValue_le]

theorem slotOrNodeIntValue_le (h : RecLe r1 r2) (a : ImmOrPNode SlotId) :
    RLe (slotOrNodeIntValue cx r1 a) (slotOrNodeIntValue cx r2 a) := by
  unfold slotOrNodeIntValue; le_auto h [nidIntValue_le]

theorem slotOrNodeIntSet_le (h : RecLe r1 r2) (a : ImmOrPNode SlotId) (v : Int) :
    MLe (slotOrNodeIntSet cx r1 a v) (slotOrNodeIntSet cx r2 a v) := by
  unfold slotOrNodeIntSet; le_auto h [nidIntSet_le]

theorem slotOrNodeFloatValue_le (h : RecLe r1 r2) (a : ImmOrPNode SlotId) :
    RLe (slotOrNodeFloatValue cx r1 a) (slotOrNodeFloatValue cx r2 a) := by
  unfold slotOrNodeFloatValue; le_auto h [nidFloatValue_le]

theorem slotOrNodeFloatSet_le (h : RecLe r1 r2) (a : ImmOrPNode SlotId) (v : F) :
    MLe (slotOrNodeFloatSet cx r1 a v) (slotOrNodeFloatSet cx r2 a v) := by
  unfold slotOrNodeFloatSet; le_auto h [nidFloatSet_le]

theorem slotOrNodeIsReadable_le (h : RecLe r1 r2) (a : ImmOrPNode SlotId) :
    RLe (slotOrNodeIsReadable cx r1 a) (slotOrNodeIsReadable cx r2 a) := by
  unfold slotOrNodeIsReadable; le_auto h [nidIsReadable_le]

theorem slotOrNodeIsWritable_le (h : RecLe r1 r2) (a : ImmOrPNode SlotId) :
    RLe (slotOrNodeIsWritable cx r1 a) (slotOrNodeIsWritable cx r2 a) := by
  unfold slotOrNodeIsWritable; le_auto h [nidIsWritable_le]

theorem slotOrNodeStrValue_le (h : RecLe r1 r2) (a : ImmOrPNode SlotId) :
    RLe (slotOrNodeStrValue cx r1 a) (slotOrNodeStrValue cx r2 a) := by
  unfold slotOrNodeStrValue; le_auto h [nidStrValue_le]

theorem slotOrNodeStrSet_le (h : RecLe r1 r2) (a : ImmOrPNode SlotId) (v : Bytes) :
    MLe (slotOrNodeStrSet cx r1 a v) (slotOrNodeStrSet cx r2 a v) := by
  unfold slotOrNodeStrSet; le_auto h [nidStrSet_le]

theorem slotOrNodeStrIsReadable_le (h : RecLe r1 r2) (a : ImmOrPNode SlotId) :
    RLe (slotOrNodeStrIsReadable cx r1 a) (slotOrNodeStrIsReadable cx r2 a) := by
  unfold slotOrNodeStrIsReadable; le_auto h [nidStrIsReadable_le]

theorem slotOrNodeStrIsWritable_le (h : RecLe r1 r2) (a : ImmOrPNode SlotId) :
    RLe (slotOrNodeStrIsWritable cx r1 a) (slotOrNodeStrIsWritable cx r2 a) := by
  unfold slotOrNodeStrIsWritable; le_auto h [nidStrIsWritable_le]

theorem copiesIntSet_le (h : RecLe r1 r2) (cs : List NodeId) (v : Int) :
    MLe (copiesIntSet cx r1 cs v) (copiesIntSet cx r2 cs v) := by
  induction cs generalizing v with
  | nil => unfold copiesIntSet; exact MLe.refl _
  | cons x xs ih =>
    unfold copiesIntSet
    le_auto h [nidIntSet_le]
    all_goals first | exact ih _ | exact ih _ _

theorem copiesFloatSet_le (h : RecLe r1 r2) (cs : List NodeId) (v : F) :
    MLe (copiesFloatSet cx r1 cs v) (copiesFloatSet cx r2 cs v) := by
  induction cs generalizing v with
  | nil => unfold copiesFloatSet; exact MLe.refl _
  | cons x xs ih =>
    unfold copiesFloatSet
    le_auto h [nidFloatSet_le]
    all_goals first | exact ih _ | exact ih _ _

theorem copiesIsWritable_le (h : RecLe r1 r2) (cs : List NodeId) (b : Bool) :
    RLe (copiesIsWritable cx r1 cs b) (copiesIsWritable cx r2 cs b) := by
  induction cs generalizing b with
  | nil => unfold copiesIsWritable; exact RLe.refl _
  | cons x xs ih =>
    unfold copiesIsWritable
    le_auto h [nidIsWritable_le]
    all_goals first | exact ih _ | exact ih _ _

theorem pValueIntSet_le (h : RecLe r1 r2) (p : NodeId) (cs : List NodeId) (v : Int) :
    MLe (pValueIntSet cx r1 p cs v) (pValueIntSet cx r2 p cs v) := by
  unfold pValueIntSet; le_auto h [nidIntSet_le, copiesIntSet_le]

theorem pValueFloatSet_le (h : RecLe r1 r2) (p : NodeId) (cs : List NodeId) (v : F) :
    MLe (pValueFloatSet cx r1 p cs v) (pValueFloatSet cx r2 p cs v) := by
  unfold pValueFloatSet; le_auto h [nidFloatSet_le, copiesFloatSet_le]

theorem pValueIsWritable_le (h : RecLe r1 r2) (p : NodeId) (cs : List NodeId) :
    RLe (pValueIsWritable cx r1 p cs) (pValueIsWritable cx r2 p cs) := by
  unfold pValueIsWritable; le_auto h [nidIsWritable_le, copiesIsWritable_le]

theorem pIndexIndex_le (h : RecLe r1 r2) (sel : NodeId) :
    RLe (pIndexIndex cx r1 sel) (pIndexIndex cx r2 sel) := by
  unfold pIndexIndex; le_auto h []

theorem pIndexSelReadable_le (h : RecLe r1 r2) (sel : NodeId) :
    RLe (pIndexSelReadable cx r1 sel) (pIndexSelReadable cx r2 sel) := by
  unfold pIndexSelReadable; le_auto h []

theorem pIndexIsReadable_le (h : RecLe r1 r2) (sel : NodeId) (es : List (Int × ImmOrPNode SlotId)) (d : ImmOrPNode SlotId) :
    RLe (pIndexIsReadable cx r1 sel es d) (pIndexIsReadable cx r2 sel es d) := by
  unfold pIndexIsReadable; le_auto h [pIndexSelReadable_le, pIndexIndex_le, slotOrNodeIsReadable_le, nidIsReadable_le]

theorem pIndexIsWritable_le (h : RecLe r1 r2) (sel : NodeId) (es : List (Int × ImmOrPNode SlotId)) (d : ImmOrPNode SlotId) :
    RLe (pIndexIsWritable cx r1 sel es d) (pIndexIsWritable cx r2 sel es d) := by
  unfold pIndexIsWritable; le_auto h [pIndexSelReadable_le, pIndexIndex_le, slotOrNodeIsWritable_le, nidIsWritable_le]

theorem vkIntValue_le (h : RecLe r1 r2) (vk : ValueKind) :
    RLe (vkIntValue cx r1 vk) (vkIntValue cx r2 vk) := by
  unfold vkIntValue; le_auto h [nidIntValue_le, pIndexIndex_le, slotOrNodeIntValue_le]

theorem vkIntSet_le (h : RecLe r1 r2) (vk : ValueKind) (v : Int) :
    MLe (vkIntSet cx r1 vk v) (vkIntSet cx r2 vk v) := by
  unfold vkIntSet; le_auto h [pValueIntSet_le, nidIntSet_le, copiesIntSet_le, pIndexIndex_le, slotOrNodeIntSet_le]

theorem vkFloatValue_le (h : RecLe r1 r2) (vk : ValueKind) :
    RLe (vkFloatValue cx r1 vk) (vkFloatValue cx r2 vk) := by
  unfold vkFloatValue; le_auto h [nidFloatValue_le, pIndexIndex_le, slotOrNodeFloatValue_le]

theorem vkFloatSet_le (h : RecLe r1 r2) (vk : ValueKind) (v : F) :
    MLe (vkFloatSet cx r1 vk v) (vkFloatSet cx r2 vk v) := by
  unfold vkFloatSet; le_auto h [pValueFloatSet_le, nidFloatSet_le, copiesFloatSet_le, pIndexIndex_le, slotOrNodeFloatSet_le]

theorem vkIsReadable_le (h : RecLe r1 r2) (vk : ValueKind) :
    RLe (vkIsReadable cx r1 vk) (vkIsReadable cx r2 vk) := by
  unfold vkIsReadable; le_auto h [nidIsReadable_le, pIndexIsReadable_le, pIndexSelReadable_le, pIndexIndex_le, slotOrNodeIsReadable_le]

theorem vkIsWritable_le (h : RecLe r1 r2) (vk : ValueKind) :
    RLe (vkIsWritable cx r1 vk) (vkIsWritable cx r2 vk) := by
  unfold vkIsWritable; le_auto h [pValueIsWritable_le, nidIsWritable_le, copiesIsWritable_le, pIndexIsWritable_le, pIndexSelReadable_le, pIndexIndex_le, slotOrNodeIsWritable_le]

theorem boolFromId_le (h : RecLe r1 r2) (n : NodeId) :
    RLe (boolFromId cx r1 n) (boolFromId cx r2 n) := by
  unfold boolFromId; le_auto h []

theorem baseIsImplemented_le (h : RecLe r1 r2) (b : Base) :
    RLe (baseIsImplemented cx r1 b) (baseIsImplemented cx r2 b) := by
  unfold baseIsImplemented; le_auto h [boolFromId_le]

theorem baseIsAvailable_le (h : RecLe r1 r2) (b : Base) :
    RLe (baseIsAvailable cx r1 b) (baseIsAvailable cx r2 b) := by
  unfold baseIsAvailable; le_auto h [boolFromId_le]

theorem baseIsLocked_le (h : RecLe r1 r2) (b : Base) :
    RLe (baseIsLocked cx r1 b) (baseIsLocked cx r2 b) := by
  unfold baseIsLocked; le_auto h [boolFromId_le]

theorem baseIsReadable_le (h : RecLe r1 r2) (b : Base) :
    RLe (baseIsReadable cx r1 b) (baseIsReadable cx r2 b) := by
  unfold baseIsReadable; le_auto h [baseIsImplemented_le, boolFromId_le, baseIsAvailable_le]

theorem baseIsWritable_le (h : RecLe r1 r2) (b : Base) :
    RLe (baseIsWritable cx r1 b) (baseIsWritable cx r2 b) := by
  unfold baseIsWritable; le_auto h [baseIsImplemented_le, boolFromId_le, baseIsAvailable_le, baseIsLocked_le]

theorem addrKindValue_le (h : RecLe r1 r2) (k : AddressKind) :
    RLe (addrKindValue cx r1 k) (addrKindValue cx r2 k) := by
  unfold addrKindValue; le_auto h [immIntValue_le, nidIntValue_le]

theorem sumAddrs_le (h : RecLe r1 r2) (ks : List AddressKind) (acc : Int) :
    RLe (sumAddrs cx r1 ks acc) (sumAddrs cx r2 ks acc) := by
  induction ks generalizing acc with
  | nil => unfold sumAddrs; exact RLe.refl _
  | cons x xs ih =>
    unfold sumAddrs
    le_auto h [addrKindValue_le, immIntValue_le, nidIntValue_le]
    all_goals first | exact ih _ | exact ih _ _

theorem regAddress_le (h : RecLe r1 r2) (rb : RegBase) :
    RLe (regAddress cx r1 rb) (regAddress cx r2 rb) := by
  unfold regAddress; le_auto h [sumAddrs_le, addrKindValue_le, immIntValue_le, nidIntValue_le]

theorem regLength_le (h : RecLe r1 r2) (rb : RegBase) :
    RLe (regLength cx r1 rb) (regLength cx r2 rb) := by
  unfold regLength; le_auto h [immIntValue_le, nidIntValue_le]

theorem withRead_le {α : Type} (h : RecLe r1 r2) (rb : RegBase) (f : Bytes → Res Err α) :
    RLe (withRead cx r1 rb f) (withRead cx r2 rb f) := by
  unfold withRead; le_auto h [regLength_le, immIntValue_le, nidIntValue_le, regAddress_le, sumAddrs_le, addrKindValue_le]

theorem writeAndCache_le (h : RecLe r1 r2) (rb : RegBase) (buf : Bytes) :
    MLe (writeAndCache cx r1 rb buf) (writeAndCache cx r2 rb buf) := by
  unfold writeAndCache; le_auto h [regLength_le, immIntValue_le, nidIntValue_le, regAddress_le, sumAddrs_le, addrKindValue_le]

theorem regIsReadable_le (h : RecLe r1 r2) (rb : RegBase) :
    RLe (regIsReadable cx r1 rb) (regIsReadable cx r2 rb) := by
  unfold regIsReadable; le_auto h [baseIsReadable_le, baseIsImplemented_le, boolFromId_le, baseIsAvailable_le]

theorem regIsWritable_le (h : RecLe r1 r2) (rb : RegBase) :
    RLe (regIsWritable cx r1 rb) (regIsWritable cx r2 rb) := by
  unfold regIsWritable; le_auto h [baseIsWritable_le, baseIsImplemented_le, boolFromId_le, baseIsAvailable_le, baseIsLocked_le]

theorem regRead_le (h : RecLe r1 r2) (rb : RegBase) (bufLen : Nat) :
    RLe (regRead cx r1 rb bufLen) (regRead cx r2 rb bufLen) := by
  unfold regRead; le_auto h [regLength_le, immIntValue_le, nidIntValue_le, regAddress_le, sumAddrs_le, addrKindValue_le]

theorem intRegValue_le (h : RecLe r1 r2) (rb : RegBase) (sg : Sign) (en : Endian) :
    RLe (intRegValue cx r1 rb sg en) (intRegValue cx r2 rb sg en) := by
  unfold intRegValue; le_auto h [withRead_le, regLength_le, immIntValue_le, nidIntValue_le, regAddress_le, sumAddrs_le, addrKindValue_le]

theorem intRegSet_le (h : RecLe r1 r2) (rb : RegBase) (sg : Sign) (en : Endian) (v : Int) :
    MLe (intRegSet cx r1 rb sg en v) (intRegSet cx r2 rb sg en v) := by
  unfold intRegSet; le_auto h [regLength_le, immIntValue_le, nidIntValue_le, writeAndCache_le, regAddress_le, sumAddrs_le, addrKindValue_le]

theorem maskedValue_le (h : RecLe r1 r2) (rb : RegBase) (mk : BitMask) (sg : Sign) (en : Endian) :
    RLe (maskedValue cx r1 rb mk sg en) (maskedValue cx r2 rb mk sg en) := by
  unfold maskedValue; le_auto h [withRead_le, regLength_le, immIntValue_le, nidIntValue_le, regAddress_le, sumAddrs_le, addrKindValue_le]

theorem maskedSet_le (h : RecLe r1 r2) (rb : RegBase) (mk : BitMask) (sg : Sign) (en : Endian) (v : Int) :
    MLe (maskedSet cx r1 rb mk sg en v) (maskedSet cx r2 rb mk sg en v) := by
  unfold maskedSet; le_auto h [withRead_le, regLength_le, immIntValue_le, nidIntValue_le, regAddress_le, sumAddrs_le, addrKindValue_le, writeAndCache_le]

theorem maskedMin_le (h : RecLe r1 r2) (rb : RegBase) (mk : BitMask) (sg : Sign) (en : Endian) :
    RLe (maskedMin cx r1 rb mk sg en) (maskedMin cx r2 rb mk sg en) := by
  unfold maskedMin; le_auto h [regLength_le, immIntValue_le, nidIntValue_le]

theorem maskedMax_le (h : RecLe r1 r2) (rb : RegBase) (mk : BitMask) (sg : Sign) (en : Endian) :
    RLe (maskedMax cx r1 rb mk sg en) (maskedMax cx r2 rb mk sg en) := by
  unfold maskedMax; le_auto h [regLength_le, immIntValue_le, nidIntValue_le]

theorem floatRegValue_le (h : RecLe r1 r2) (rb : RegBase) (en : Endian) :
    RLe (floatRegValue cx r1 rb en) (floatRegValue cx r2 rb en) := by
  unfold floatRegValue; le_auto h [withRead_le, regLength_le, immIntValue_le, nidIntValue_le, regAddress_le, sumAddrs_le, addrKindValue_le]

theorem floatRegSet_le (h : RecLe r1 r2) (rb : RegBase) (en : Endian) (v : F) :
    MLe (floatRegSet cx r1 rb en v) (floatRegSet cx r2 rb en v) := by
  unfold floatRegSet; le_auto h [regLength_le, immIntValue_le, nidIntValue_le, writeAndCache_le, regAddress_le, sumAddrs_le, addrKindValue_le]

theorem strRegValue_le (h : RecLe r1 r2) (rb : RegBase) :
    RLe (strRegValue cx r1 rb) (strRegValue cx r2 rb) := by
  unfold strRegValue; le_auto h [withRead_le, regLength_le, immIntValue_le, nidIntValue_le, regAddress_le, sumAddrs_le, addrKindValue_le]

theorem strRegSet_le (h : RecLe r1 r2) (rb : RegBase) (v : Bytes) :
    MLe (strRegSet cx r1 rb v) (strRegSet cx r2 rb v) := by
  unfold strRegSet; le_auto h [regLength_le, immIntValue_le, nidIntValue_le, writeAndCache_le, regAddress_le, sumAddrs_le, addrKindValue_le]

theorem exprFromNid_le (h : RecLe r1 r2) (n : NodeId) :
    RLe (exprFromNid cx r1 n) (exprFromNid cx r2 n) := by
  unfold exprFromNid; le_auto h []

theorem varGetValue_le (h : RecLe r1 r2) (k : VarKind) (n : NodeId) :
    RLe (varGetValue cx r1 k n) (varGetValue cx r2 k n) := by
  unfold varGetValue; le_auto h [exprFromNid_le]

theorem collectVars_le (h : RecLe r1 r2) (vs : List (String × NodeId)) (env : Env E) :
    RLe (collectVars cx r1 vs env) (collectVars cx r2 vs env) := by
  induction vs generalizing env with
  | nil => unfold collectVars; exact RLe.refl _
  | cons x xs ih =>
    unfold collectVars
    le_auto h [varGetValue_le, exprFromNid_le]
    all_goals first | exact ih _ | exact ih _ _

theorem collectEnv_le (h : RecLe r1 r2) (fm : Formulaic F E) (env0 : Env E) :
    RLe (collectEnv cx r1 fm env0) (collectEnv cx r2 fm env0) := by
  unfold collectEnv; le_auto h [collectVars_le, varGetValue_le, exprFromNid_le]

theorem isNidReadable_le (h : RecLe r1 r2) (n : NodeId) :
    RLe (isNidReadable cx r1 n) (isNidReadable cx r2 n) := by
  unfold isNidReadable; le_auto h []

theorem isNidWritable_le (h : RecLe r1 r2) (n : NodeId) :
    RLe (isNidWritable cx r1 n) (isNidWritable cx r2 n) := by
  unfold isNidWritable; le_auto h []

theorem varsReadable_le (h : RecLe r1 r2) (vs : List (String × NodeId)) (b : Bool) :
    RLe (GenApi.varsReadable cx r1 vs b) (GenApi.varsReadable cx r2 vs b) := by
  induction vs generalizing b with
  | nil => unfold GenApi.varsReadable; exact RLe.refl _
  | cons x xs ih =>
    unfold GenApi.varsReadable
    le_auto h [isNidReadable_le]
    all_goals first | exact ih _ | exact ih _ _

theorem setEvalResult_le (h : RecLe r1 r2) (n : NodeId) (res : EvalResult F) :
    MLe (setEvalResult cx r1 n res) (setEvalResult cx r2 n res) := by
  unfold setEvalResult; le_auto h []

theorem converterEvalFrom_le (h : RecLe r1 r2) (fm : Formulaic F E) (ff : E) (pv : NodeId) :
    RLe (converterEvalFrom cx r1 fm ff pv) (converterEvalFrom cx r2 fm ff pv) := by
  unfold converterEvalFrom; le_auto h [exprFromNid_le, collectEnv_le, collectVars_le, varGetValue_le]

theorem converterSet_le (h : RecLe r1 r2) (fm : Formulaic F E) (ft : E) (pv : NodeId) (fr : E) :
    MLe (converterSet cx r1 fm ft pv fr) (converterSet cx r2 fm ft pv fr) := by
  unfold converterSet; le_auto h [collectEnv_le, collectVars_le, varGetValue_le, exprFromNid_le, setEvalResult_le]

theorem swissKnifeEval_le (h : RecLe r1 r2) (fm : Formulaic F E) (f : E) :
    RLe (swissKnifeEval cx r1 fm f) (swissKnifeEval cx r2 fm f) := by
  unfold swissKnifeEval; le_auto h [collectEnv_le, collectVars_le, varGetValue_le, exprFromNid_le]

theorem converterIsReadable_le (h : RecLe r1 r2) (b : Base) (fm : Formulaic F E) (pv : NodeId) :
    RLe (converterIsReadable cx r1 b fm pv) (converterIsReadable cx r2 b fm pv) := by
  unfold converterIsReadable; le_auto h [baseIsReadable_le, baseIsImplemented_le, boolFromId_le, baseIsAvailable_le, isNidReadable_le, varsReadable_le]

theorem converterIsWritable_le (h : RecLe r1 r2) (b : Base) (fm : Formulaic F E) (pv : NodeId) :
    RLe (converterIsWritable cx r1 b fm pv) (converterIsWritable cx r2 b fm pv) := by
  unfold converterIsWritable; le_auto h [baseIsWritable_le, baseIsImplemented_le, boolFromId_le, baseIsAvailable_le, baseIsLocked_le, isNidWritable_le, varsReadable_le, isNidReadable_le]

theorem swissKnifeIsReadable_le (h : RecLe r1 r2) (b : Base) (fm : Formulaic F E) :
    RLe (swissKnifeIsReadable cx r1 b fm) (swissKnifeIsReadable cx r2 b fm) := by
  unfold swissKnifeIsReadable; le_auto h [baseIsReadable_le, baseIsImplemented_le, boolFromId_le, baseIsAvailable_le, varsReadable_le, isNidReadable_le]

theorem enumCurrentEntryOf_le (h : RecLe r1 r2) (es : List NodeId) (value : ImmOrPNode SlotId) :
    RLe (enumCurrentEntryOf cx r1 es value) (enumCurrentEntryOf cx r2 es value) := by
  unfold enumCurrentEntryOf; le_auto h [slotOrNodeIntValue_le, nidIntValue_le]

theorem enumSetByValueOf_le (h : RecLe r1 r2) (es : List NodeId) (value : ImmOrPNode SlotId) (v : Int) :
    MLe (enumSetByValueOf cx r1 es value v) (enumSetByValueOf cx r2 es value v) := by
  unfold enumSetByValueOf; le_auto h [slotOrNodeIntSet_le, nidIntSet_le]

theorem boolValueOf_le (h : RecLe r1 r2) (value : ImmOrPNode SlotId) (onV : Int) (offV : Int) :
    RLe (boolValueOf cx r1 value onV offV) (boolValueOf cx r2 value onV offV) := by
  unfold boolValueOf; le_auto h [slotOrNodeIntValue_le, nidIntValue_le]

theorem commandExecute_le (h : RecLe r1 r2) (value : ImmOrPNode SlotId) (cmd : ImmOrPNode SlotId) :
    MLe (commandExecute cx r1 value cmd) (commandExecute cx r2 value cmd) := by
  unfold commandExecute; le_auto h [slotOrNodeIntValue_le, nidIntValue_le, slotOrNodeIntSet_le, nidIntSet_le]

theorem commandIsDone_le (h : RecLe r1 r2) (value : ImmOrPNode SlotId) (cmd : ImmOrPNode SlotId) :
    RLe (commandIsDone cx r1 value cmd) (commandIsDone cx r2 value cmd) := by
  unfold commandIsDone; le_auto h [nidIsReadable_le, slotOrNodeIntValue_le, nidIntValue_le]

theorem intValueF_le (h : RecLe r1 r2) (n : NodeId) :
    RLe (intValueF cx r1 n) (intValueF cx r2 n) := by
  unfold intValueF; le_auto h [vkIntValue_le, nidIntValue_le, pIndexIndex_le, slotOrNodeIntValue_le, intRegValue_le, withRead_le, regLength_le, immIntValue_le, regAddress_le, sumAddrs_le, addrKindValue_le, maskedValue_le, converterEvalFrom_le, exprFromNid_le, collectEnv_le, collectVars_le, varGetValue_le, swissKnifeEval_le]

theorem intSetF_le (h : RecLe r1 r2) (n : NodeId) (v : Int) :
    MLe (intSetF cx r1 n v) (intSetF cx r2 n v) := by
  unfold intSetF; le_auto h [vkIntSet_le, pValueIntSet_le, nidIntSet_le, copiesIntSet_le, pIndexIndex_le, slotOrNodeIntSet_le, intRegSet_le, regLength_le, immIntValue_le, nidIntValue_le, writeAndCache_le, regAddress_le, sumAddrs_le, addrKindValue_le, maskedSet_le, withRead_le, converterSet_le, collectEnv_le, collectVars_le, varGetValue_le, exprFromNid_le, setEvalResult_le]

theorem intMinF_le (h : RecLe r1 r2) (n : NodeId) :
    RLe (intMinF cx r1 n) (intMinF cx r2 n) := by
  unfold intMinF; le_auto h [slotOrNodeIntValue_le, nidIntValue_le, maskedMin_le, regLength_le, immIntValue_le, swissKnifeEval_le, collectEnv_le, collectVars_le, varGetValue_le, exprFromNid_le]

theorem intMaxF_le (h : RecLe r1 r2) (n : NodeId) :
    RLe (intMaxF cx r1 n) (intMaxF cx r2 n) := by
  unfold intMaxF; le_auto h [slotOrNodeIntValue_le, nidIntValue_le, maskedMax_le, regLength_le, immIntValue_le, swissKnifeEval_le, collectEnv_le, collectVars_le, varGetValue_le, exprFromNid_le]

theorem intIncF_le (h : RecLe r1 r2) (n : NodeId) :
    RLe (intIncF cx r1 n) (intIncF cx r2 n) := by
  unfold intIncF; le_auto h [immIntValue_le, nidIntValue_le]

theorem intSetMinF_le (h : RecLe r1 r2) (n : NodeId) (v : Int) :
    MLe (intSetMinF cx r1 n v) (intSetMinF cx r2 n v) := by
  unfold intSetMinF; le_auto h [slotOrNodeIntSet_le, nidIntSet_le]

theorem intSetMaxF_le (h : RecLe r1 r2) (n : NodeId) (v : Int) :
    MLe (intSetMaxF cx r1 n v) (intSetMaxF cx r2 n v) := by
  unfold intSetMaxF; le_auto h [slotOrNodeIntSet_le, nidIntSet_le]

theorem intIsReadableF_le (h : RecLe r1 r2) (n : NodeId) :
    RLe (intIsReadableF cx r1 n) (intIsReadableF cx r2 n) := by
  unfold intIsReadableF; le_auto h [baseIsReadable_le, baseIsImplemented_le, boolFromId_le, baseIsAvailable_le, vkIsReadable_le, nidIsReadable_le, pIndexIsReadable_le, pIndexSelReadable_le, pIndexIndex_le, slotOrNodeIsReadable_le, regIsReadable_le, converterIsReadable_le, isNidReadable_le, varsReadable_le, swissKnifeIsReadable_le]

theorem intIsWritableF_le (h : RecLe r1 r2) (n : NodeId) :
    RLe (intIsWritableF cx r1 n) (intIsWritableF cx r2 n) := by
  unfold intIsWritableF; le_auto h [baseIsWritable_le, baseIsImplemented_le, boolFromId_le, baseIsAvailable_le, baseIsLocked_le, vkIsWritable_le, pValueIsWritable_le, nidIsWritable_le, copiesIsWritable_le, pIndexIsWritable_le, pIndexSelReadable_le, pIndexIndex_le, slotOrNodeIsWritable_le, regIsWritable_le, converterIsWritable_le, isNidWritable_le, varsReadable_le, isNidReadable_le]

theorem floatValueF_le (h : RecLe r1 r2) (n : NodeId) :
    RLe (floatValueF cx r1 n) (floatValueF cx r2 n) := by
  unfold floatValueF; le_auto h [vkFloatValue_le, nidFloatValue_le, pIndexIndex_le, slotOrNodeFloatValue_le, floatRegValue_le, withRead_le, regLength_le, immIntValue_le, nidIntValue_le, regAddress_le, sumAddrs_le, addrKindValue_le, converterEvalFrom_le, exprFromNid_le, collectEnv_le, collectVars_le, varGetValue_le, swissKnifeEval_le]

theorem floatSetF_le (h : RecLe r1 r2) (n : NodeId) (v : F) :
    MLe (floatSetF cx r1 n v) (floatSetF cx r2 n v) := by
  unfold floatSetF; le_auto h [vkFloatSet_le, pValueFloatSet_le, nidFloatSet_le, copiesFloatSet_le, pIndexIndex_le, slotOrNodeFloatSet_le, floatRegSet_le, regLength_le, immIntValue_le, nidIntValue_le, writeAndCache_le, regAddress_le, sumAddrs_le, addrKindValue_le, converterSet_le, collectEnv_le, collectVars_le, varGetValue_le, exprFromNid_le, setEvalResult_le]

theorem floatMinF_le (h : RecLe r1 r2) (n : NodeId) :
    RLe (floatMinF cx r1 n) (floatMinF cx r2 n) := by
  unfold floatMinF; le_auto h [slotOrNodeFloatValue_le, nidFloatValue_le, swissKnifeEval_le, collectEnv_le, collectVars_le, varGetValue_le, exprFromNid_le]

theorem floatMaxF_le (h : RecLe r1 r2) (n : NodeId) :
    RLe (floatMaxF cx r1 n) (floatMaxF cx r2 n) := by
  unfold floatMaxF; le_auto h [slotOrNodeFloatValue_le, nidFloatValue_le, swissKnifeEval_le, collectEnv_le, collectVars_le, varGetValue_le, exprFromNid_le]

theorem floatIncF_le (h : RecLe r1 r2) (n : NodeId) :
    RLe (floatIncF cx r1 n) (floatIncF cx r2 n) := by
  unfold floatIncF; le_auto h [immFloatValue_le, nidFloatValue_le]

theorem floatSetMinF_le (h : RecLe r1 r2) (n : NodeId) (v : F) :
    MLe (floatSetMinF cx r1 n v) (floatSetMinF cx r2 n v) := by
  unfold floatSetMinF; le_auto h [slotOrNodeFloatSet_le, nidFloatSet_le]

theorem floatSetMaxF_le (h : RecLe r1 r2) (n : NodeId) (v : F) :
    MLe (floatSetMaxF cx r1 n v) (floatSetMaxF cx r2 n v) := by
  unfold floatSetMaxF; le_auto h [slotOrNodeFloatSet_le, nidFloatSet_le]

theorem floatIsReadableF_le (h : RecLe r1 r2) (n : NodeId) :
    RLe (floatIsReadableF cx r1 n) (floatIsReadableF cx r2 n) := by
  unfold floatIsReadableF; le_auto h [baseIsReadable_le, baseIsImplemented_le, boolFromId_le, baseIsAvailable_le, vkIsReadable_le, nidIsReadable_le, pIndexIsReadable_le, pIndexSelReadable_le, pIndexIndex_le, slotOrNodeIsReadable_le, regIsReadable_le, converterIsReadable_le, isNidReadable_le, varsReadable_le, swissKnifeIsReadable_le]

theorem floatIsWritableF_le (h : RecLe r1 r2) (n : NodeId) :
    RLe (floatIsWritableF cx r1 n) (floatIsWritableF cx r2 n) := by
  unfold floatIsWritableF; le_auto h [baseIsWritable_le, baseIsImplemented_le, boolFromId_le, baseIsAvailable_le, baseIsLocked_le, vkIsWritable_le, pValueIsWritable_le, nidIsWritable_le, copiesIsWritable_le, pIndexIsWritable_le, pIndexSelReadable_le, pIndexIndex_le, slotOrNodeIsWritable_le, regIsWritable_le, converterIsWritable_le, isNidWritable_le, varsReadable_le, isNidReadable_le]

theorem strValueF_le (h : RecLe r1 r2) (n : NodeId) :
    RLe (strValueF cx r1 n) (strValueF cx r2 n) := by
  unfold strValueF; le_auto h [slotOrNodeStrValue_le, nidStrValue_le, strRegValue_le, withRead_le, regLength_le, immIntValue_le, nidIntValue_le, regAddress_le, sumAddrs_le, addrKindValue_le]

theorem strSetF_le (h : RecLe r1 r2) (n : NodeId) (v : Bytes) :
    MLe (strSetF cx r1 n v) (strSetF cx r2 n v) := by
  unfold strSetF; le_auto h [slotOrNodeStrSet_le, nidStrSet_le, strRegSet_le, regLength_le, immIntValue_le, nidIntValue_le, writeAndCache_le, regAddress_le, sumAddrs_le, addrKindValue_le]

theorem strMaxLengthF_le (h : RecLe r1 r2) (n : NodeId) :
    RLe (strMaxLengthF cx r1 n) (strMaxLengthF cx r2 n) := by
  unfold strMaxLengthF; le_auto h [regLength_le, immIntValue_le, nidIntValue_le]

theorem strIsReadableF_le (h : RecLe r1 r2) (n : NodeId) :
    RLe (strIsReadableF cx r1 n) (strIsReadableF cx r2 n) := by
  unfold strIsReadableF; le_auto h [baseIsReadable_le, baseIsImplemented_le, boolFromId_le, baseIsAvailable_le, slotOrNodeStrIsReadable_le, nidStrIsReadable_le, regIsReadable_le]

theorem strIsWritableF_le (h : RecLe r1 r2) (n : NodeId) :
    RLe (strIsWritableF cx r1 n) (strIsWritableF cx r2 n) := by
  unfold strIsWritableF; le_auto h [baseIsWritable_le, baseIsImplemented_le, boolFromId_le, baseIsAvailable_le, baseIsLocked_le, slotOrNodeStrIsWritable_le, nidStrIsWritable_le, regIsWritable_le]

theorem boolValueF_le (h : RecLe r1 r2) (n : NodeId) :
    RLe (boolValueF cx r1 n) (boolValueF cx r2 n) := by
  unfold boolValueF; le_auto h [boolValueOf_le, slotOrNodeIntValue_le, nidIntValue_le]

theorem boolSetF_le (h : RecLe r1 r2) (n : NodeId) (v : Bool) :
    MLe (boolSetF cx r1 n v) (boolSetF cx r2 n v) := by
  unfold boolSetF; le_auto h [slotOrNodeIntSet_le, nidIntSet_le]

theorem boolIsReadableF_le (h : RecLe r1 r2) (n : NodeId) :
    RLe (boolIsReadableF cx r1 n) (boolIsReadableF cx r2 n) := by
  unfold boolIsReadableF; le_auto h [baseIsReadable_le, baseIsImplemented_le, boolFromId_le, baseIsAvailable_le, slotOrNodeIsReadable_le, nidIsReadable_le]

theorem boolIsWritableF_le (h : RecLe r1 r2) (n : NodeId) :
    RLe (boolIsWritableF cx r1 n) (boolIsWritableF cx r2 n) := by
  unfold boolIsWritableF; le_auto h [baseIsWritable_le, baseIsImplemented_le, boolFromId_le, baseIsAvailable_le, baseIsLocked_le, slotOrNodeIsWritable_le, nidIsWritable_le]

theorem enumCurrentValueF_le (h : RecLe r1 r2) (n : NodeId) :
    RLe (enumCurrentValueF cx r1 n) (enumCurrentValueF cx r2 n) := by
  unfold enumCurrentValueF; le_auto h [slotOrNodeIntValue_le, nidIntValue_le]

theorem enumCurrentEntryF_le (h : RecLe r1 r2) (n : NodeId) :
    RLe (enumCurrentEntryF cx r1 n) (enumCurrentEntryF cx r2 n) := by
  unfold enumCurrentEntryF; le_auto h [enumCurrentEntryOf_le, slotOrNodeIntValue_le, nidIntValue_le]

theorem enumSetByValueF_le (h : RecLe r1 r2) (n : NodeId) (v : Int) :
    MLe (enumSetByValueF cx r1 n v) (enumSetByValueF cx r2 n v) := by
  unfold enumSetByValueF; le_auto h [enumSetByValueOf_le, slotOrNodeIntSet_le, nidIntSet_le]

theorem enumSetByNameF_le (h : RecLe r1 r2) (n : NodeId) (nm : String) :
    MLe (enumSetByNameF cx r1 n nm) (enumSetByNameF cx r2 n nm) := by
  unfold enumSetByNameF; le_auto h [enumSetByValueOf_le, slotOrNodeIntSet_le, nidIntSet_le]

theorem enumIsReadableF_le (h : RecLe r1 r2) (n : NodeId) :
    RLe (enumIsReadableF cx r1 n) (enumIsReadableF cx r2 n) := by
  unfold enumIsReadableF; le_auto h [baseIsReadable_le, baseIsImplemented_le, boolFromId_le, baseIsAvailable_le, slotOrNodeIsReadable_le, nidIsReadable_le]

theorem enumIsWritableF_le (h : RecLe r1 r2) (n : NodeId) :
    RLe (enumIsWritableF cx r1 n) (enumIsWritableF cx r2 n) := by
  unfold enumIsWritableF; le_auto h [baseIsWritable_le, baseIsImplemented_le, boolFromId_le, baseIsAvailable_le, baseIsLocked_le, slotOrNodeIsWritable_le, nidIsWritable_le]

theorem cmdExecuteF_le (h : RecLe r1 r2) (n : NodeId) :
    MLe (cmdExecuteF cx r1 n) (cmdExecuteF cx r2 n) := by
  unfold cmdExecuteF; le_auto h [commandExecute_le, slotOrNodeIntValue_le, nidIntValue_le, slotOrNodeIntSet_le, nidIntSet_le]

theorem cmdIsDoneF_le (h : RecLe r1 r2) (n : NodeId) :
    RLe (cmdIsDoneF cx r1 n) (cmdIsDoneF cx r2 n) := by
  unfold cmdIsDoneF; le_auto h [commandIsDone_le, nidIsReadable_le, slotOrNodeIntValue_le, nidIntValue_le]

theorem cmdIsWritableF_le (h : RecLe r1 r2) (n : NodeId) :
    RLe (cmdIsWritableF cx r1 n) (cmdIsWritableF cx r2 n) := by
  unfold cmdIsWritableF; le_auto h [baseIsWritable_le, baseIsImplemented_le, boolFromId_le, baseIsAvailable_le, baseIsLocked_le, slotOrNodeIsWritable_le, nidIsWritable_le]

theorem regReadF_le (h : RecLe r1 r2) (n : NodeId) (bufLen : Nat) :
    RLe (regReadF cx r1 n bufLen) (regReadF cx r2 n bufLen) := by
  unfold regReadF; le_auto h [regRead_le, regLength_le, immIntValue_le, nidIntValue_le, regAddress_le, sumAddrs_le, addrKindValue_le]

theorem regWriteF_le (h : RecLe r1 r2) (n : NodeId) (data : Bytes) :
    MLe (regWriteF cx r1 n data) (regWriteF cx r2 n data) := by
  unfold regWriteF; le_auto h [writeAndCache_le, regLength_le, immIntValue_le, nidIntValue_le, regAddress_le, sumAddrs_le, addrKindValue_le]

theorem regAddressF_le (h : RecLe r1 r2) (n : NodeId) :
    RLe (regAddressF cx r1 n) (regAddressF cx r2 n) := by
  unfold regAddressF; le_auto h [regAddress_le, sumAddrs_le, addrKindValue_le, immIntValue_le, nidIntValue_le]

theorem regLengthF_le (h : RecLe r1 r2) (n : NodeId) :
    RLe (regLengthF cx r1 n) (regLengthF cx r2 n) := by
  unfold regLengthF; le_auto h [regLength_le, immIntValue_le, nidIntValue_le]

theorem isImplementedF_le (h : RecLe r1 r2) (n : NodeId) :
    RLe (isImplementedF cx r1 n) (isImplementedF cx r2 n) := by
  unfold isImplementedF; le_auto h [baseIsImplemented_le, boolFromId_le]

theorem isAvailableF_le (h : RecLe r1 r2) (n : NodeId) :
    RLe (isAvailableF cx r1 n) (isAvailableF cx r2 n) := by
  unfold isAvailableF; le_auto h [baseIsAvailable_le, boolFromId_le]

theorem isLockedF_le (h : RecLe r1 r2) (n : NodeId) :
    RLe (isLockedF cx r1 n) (isLockedF cx r2 n) := by
  unfold isLockedF; le_auto h [baseIsLocked_le, boolFromId_le]

theorem isReadableF_le (h : RecLe r1 r2) (n : NodeId) :
    RLe (isReadableF cx r1 n) (isReadableF cx r2 n) := by
  unfold isReadableF; le_auto h [intIsReadableF_le, baseIsReadable_le, baseIsImplemented_le, boolFromId_le, baseIsAvailable_le, vkIsReadable_le, nidIsReadable_le, pIndexIsReadable_le, pIndexSelReadable_le, pIndexIndex_le, slotOrNodeIsReadable_le, regIsReadable_le, converterIsReadable_le, isNidReadable_le, varsReadable_le, swissKnifeIsReadable_le, floatIsReadableF_le, strIsReadableF_le, slotOrNodeStrIsReadable_le, nidStrIsReadable_le, boolIsReadableF_le, enumIsReadableF_le]

theorem isWritableF_le (h : RecLe r1 r2) (n : NodeId) :
    RLe (isWritableF cx r1 n) (isWritableF cx r2 n) := by
  unfold isWritableF; le_auto h [intIsWritableF_le, baseIsWritable_le, baseIsImplemented_le, boolFromId_le, baseIsAvailable_le, baseIsLocked_le, vkIsWritable_le, pValueIsWritable_le, nidIsWritable_le, copiesIsWritable_le, pIndexIsWritable_le, pIndexSelReadable_le, pIndexIndex_le, slotOrNodeIsWritable_le, regIsWritable_le, converterIsWritable_le, isNidWritable_le, varsReadable_le, isNidReadable_le, floatIsWritableF_le, strIsWritableF_le, slotOrNodeStrIsWritable_le, nidStrIsWritable_le, boolIsWritableF_le, enumIsWritableF_le, cmdIsWritableF_le]

/-- one unfolding preserves refinement -/
theorem step_le (h : RecLe r1 r2) : RecLe (step cx r1) (step cx r2) where
  intValue := fun n => intValueF_le h n
  intMin := fun n => intMinF_le h n
  intMax := fun n => intMaxF_le h n
  intInc := fun n => intIncF_le h n
  intIsReadable := fun n => intIsReadableF_le h n
  intIsWritable := fun n => intIsWritableF_le h n
  floatValue := fun n => floatValueF_le h n
  floatMin := fun n => floatMinF_le h n
  floatMax := fun n => floatMaxF_le h n
  floatInc := fun n => floatIncF_le h n
  floatIsReadable := fun n => floatIsReadableF_le h n
  floatIsWritable := fun n => floatIsWritableF_le h n
  strValue := fun n => strValueF_le h n
  strMaxLength := fun n => strMaxLengthF_le h n
  strIsReadable := fun n => strIsReadableF_le h n
  strIsWritable := fun n => strIsWritableF_le h n
  boolValue := fun n => boolValueF_le h n
  boolIsReadable := fun n => boolIsReadableF_le h n
  boolIsWritable := fun n => boolIsWritableF_le h n
  enumCurrentValue := fun n => enumCurrentValueF_le h n
  enumCurrentEntry := fun n => enumCurrentEntryF_le h n
  enumIsReadable := fun n => enumIsReadableF_le h n
  enumIsWritable := fun n => enumIsWritableF_le h n
  intSet := fun n v => intSetF_le h n v
  floatSet := fun n v => floatSetF_le h n v
  strSet := fun n v => strSetF_le h n v
  boolSet := fun n v => boolSetF_le h n v
  enumSetByValue := fun n v => enumSetByValueF_le h n v

end

theorem RLe.trans {m1 m2 m3 : R F α} (h12 : RLe m1 m2) (h23 : RLe m2 m3) : RLe m1 m3 :=
  ⟨fun s h => by
    have e := h12.le s h
    rw [e]
    exact h23.le s (by rw [← e]; exact h)⟩

theorem MLe.trans {m1 m2 m3 : M F α} (h12 : MLe m1 m2) (h23 : MLe m2 m3) : MLe m1 m3 :=
  ⟨fun s h => by
    have e := h12.le s h
    rw [e]
    exact h23.le s (by rw [← e]; exact h)⟩

theorem RecLe.trans {r1 r2 r3 : Rec F} (h12 : RecLe r1 r2) (h23 : RecLe r2 r3) : RecLe r1 r3 where
  intValue := fun n => (h12.intValue n).trans (h23.intValue n)
  intMin := fun n => (h12.intMin n).trans (h23.intMin n)
  intMax := fun n => (h12.intMax n).trans (h23.intMax n)
  intInc := fun n => (h12.intInc n).trans (h23.intInc n)
  intIsReadable := fun n => (h12.intIsReadable n).trans (h23.intIsReadable n)
  intIsWritable := fun n => (h12.intIsWritable n).trans (h23.intIsWritable n)
  floatValue := fun n => (h12.floatValue n).trans (h23.floatValue n)
  floatMin := fun n => (h12.floatMin n).trans (h23.floatMin n)
  floatMax := fun n => (h12.floatMax n).trans (h23.floatMax n)
  floatInc := fun n => (h12.floatInc n).trans (h23.floatInc n)
  floatIsReadable := fun n => (h12.floatIsReadable n).trans (h23.floatIsReadable n)
  floatIsWritable := fun n => (h12.floatIsWritable n).trans (h23.floatIsWritable n)
  strValue := fun n => (h12.strValue n).trans (h23.strValue n)
  strMaxLength := fun n => (h12.strMaxLength n).trans (h23.strMaxLength n)
  strIsReadable := fun n => (h12.strIsReadable n).trans (h23.strIsReadable n)
  strIsWritable := fun n => (h12.strIsWritable n).trans (h23.strIsWritable n)
  boolValue := fun n => (h12.boolValue n).trans (h23.boolValue n)
  boolIsReadable := fun n => (h12.boolIsReadable n).trans (h23.boolIsReadable n)
  boolIsWritable := fun n => (h12.boolIsWritable n).trans (h23.boolIsWritable n)
  enumCurrentValue := fun n => (h12.enumCurrentValue n).trans (h23.enumCurrentValue n)
  enumCurrentEntry := fun n => (h12.enumCurrentEntry n).trans (h23.enumCurrentEntry n)
  enumIsReadable := fun n => (h12.enumIsReadable n).trans (h23.enumIsReadable n)
  enumIsWritable := fun n => (h12.enumIsWritable n).trans (h23.enumIsWritable n)
  intSet := fun n v => (h12.intSet n v).trans (h23.intSet n v)
  floatSet := fun n v => (h12.floatSet n v).trans (h23.floatSet n v)
  strSet := fun n v => (h12.strSet n v).trans (h23.strSet n v)
  boolSet := fun n v => (h12.boolSet n v).trans (h23.boolSet n v)
  enumSetByValue := fun n v => (h12.enumSetByValue n v).trans (h23.enumSetByValue n v)

theorem RecLe.rfl' (r : Rec F) : RecLe r r where
  intValue := fun _ => RLe.refl _
  intMin := fun _ => RLe.refl _
  intMax := fun _ => RLe.refl _
  intInc := fun _ => RLe.refl _
  intIsReadable := fun _ => RLe.refl _
  intIsWritable := fun _ => RLe.refl _
  floatValue := fun _ => RLe.refl _
  floatMin := fun _ => RLe.refl _
  floatMax := fun _ => RLe.refl _
  floatInc := fun _ => RLe.refl _
  floatIsReadable := fun _ => RLe.refl _
  floatIsWritable := fun _ => RLe.refl _
  strValue := fun _ => RLe.refl _
  strMaxLength := fun _ => RLe.refl _
  strIsReadable := fun _ => RLe.refl _
  strIsWritable := fun _ => RLe.refl _
  boolValue := fun _ => RLe.refl _
  boolIsReadable := fun _ => RLe.refl _
  boolIsWritable := fun _ => RLe.refl _
  enumCurrentValue := fun _ => RLe.refl _
  enumCurrentEntry := fun _ => RLe.refl _
  enumIsReadable := fun _ => RLe.refl _
  enumIsWritable := fun _ => RLe.refl _
  intSet := fun _ _ => MLe.refl _
  floatSet := fun _ _ => MLe.refl _
  strSet := fun _ _ => MLe.refl _
  boolSet := fun _ _ => MLe.refl _
  enumSetByValue := fun _ _ => MLe.refl _

/-- without fuel every call answers `outOfFuel`, so anything refines it -/
theorem bottom_le (r : Rec F) : RecLe (Rec.bottom F) r where
  intValue := fun _ => ⟨fun _ h => absurd rfl h⟩
  intMin := fun _ => ⟨fun _ h => absurd rfl h⟩
  intMax := fun _ => ⟨fun _ h => absurd rfl h⟩
  intInc := fun _ => ⟨fun _ h => absurd rfl h⟩
  intIsReadable := fun _ => ⟨fun _ h => absurd rfl h⟩
  intIsWritable := fun _ => ⟨fun _ h => absurd rfl h⟩
  floatValue := fun _ => ⟨fun _ h => absurd rfl h⟩
  floatMin := fun _ => ⟨fun _ h => absurd rfl h⟩
  floatMax := fun _ => ⟨fun _ h => absurd rfl h⟩
  floatInc := fun _ => ⟨fun _ h => absurd rfl h⟩
  floatIsReadable := fun _ => ⟨fun _ h => absurd rfl h⟩
  floatIsWritable := fun _ => ⟨fun _ h => absurd rfl h⟩
  strValue := fun _ => ⟨fun _ h => absurd rfl h⟩
  strMaxLength := fun _ => ⟨fun _ h => absurd rfl h⟩
  strIsReadable := fun _ => ⟨fun _ h => absurd rfl h⟩
  strIsWritable := fun _ => ⟨fun _ h => absurd rfl h⟩
  boolValue := fun _ => ⟨fun _ h => absurd rfl h⟩
  boolIsReadable := fun _ => ⟨fun _ h => absurd rfl h⟩
  boolIsWritable := fun _ => ⟨fun _ h => absurd rfl h⟩
  enumCurrentValue := fun _ => ⟨fun _ h => absurd rfl h⟩
  enumCurrentEntry := fun _ => ⟨fun _ h => absurd rfl h⟩
  enumIsReadable := fun _ => ⟨fun _ h => absurd rfl h⟩
  enumIsWritable := fun _ => ⟨fun _ h => absurd rfl h⟩
  intSet := fun _ _ => ⟨fun _ h => absurd rfl h⟩
  floatSet := fun _ _ => ⟨fun _ h => absurd rfl h⟩
  strSet := fun _ _ => ⟨fun _ h => absurd rfl h⟩
  boolSet := fun _ _ => ⟨fun _ h => absurd rfl h⟩
  enumSetByValue := fun _ _ => ⟨fun _ h => absurd rfl h⟩

theorem execRec_le_succ (cx : Ctx F E) : ∀ d, RecLe (execRec cx d) (execRec cx (d + 1))
  | 0 => bottom_le _
  | d + 1 => step_le (execRec_le_succ cx d)

theorem execRec_le (cx : Ctx F E) (d k : Nat) : RecLe (execRec cx d) (execRec cx (d + k)) := by
  induction k with
  | zero => exact RecLe.rfl' _
  | succ k ih => exact ih.trans (execRec_le_succ cx (d + k))

theorem runR_le {m1 m2 : R F α} (h : RLe m1 m2) (f : α → Val F) (st : St F)
    (hne : (runR m1 f st).1 ≠ .err .outOfFuel) : runR m1 f st = runR m2 f st := by
  unfold runR at hne ⊢
  have : (m1 st.s).1 ≠ .err .outOfFuel := by
    cases h1 : m1 st.s with
    | mk r l => rw [h1] at hne; cases r <;> simpa using hne
  rw [h.le st.s this]

theorem runM_le {m1 m2 : M F Unit} (h : MLe m1 m2) (st : St F)
    (hne : (runM m1 st).1 ≠ .err .outOfFuel) : runM m1 st = runM m2 st := by
  unfold runM at hne ⊢
  have : (m1 st.s).1 ≠ .err .outOfFuel := by
    cases h1 : m1 st.s with
    | mk r rest => obtain ⟨s', l⟩ := rest; rw [h1] at hne; cases r <;> simpa using hne
  rw [h.le st.s this]

/-- a request answered without running out of fuel is answered identically with more -/
theorem top_le {cx : Ctx F E} {r1 r2 : Rec F} (h : RecLe r1 r2) (req : Req F) (st : St F)
    (hne : (top cx r1 req st).1 ≠ .err .outOfFuel) : top cx r1 req st = top cx r2 req st := by
  cases req <;> simp only [top] at hne ⊢ <;>
    first
    | exact runR_le (by first
        | exact intValueF_le h _ | exact intMinF_le h _ | exact intMaxF_le h _ | exact intIncF_le h _
        | exact floatValueF_le h _ | exact floatMinF_le h _ | exact floatMaxF_le h _ | exact floatIncF_le h _
        | exact strValueF_le h _ | exact strMaxLengthF_le h _ | exact boolValueF_le h _
        | exact enumCurrentValueF_le h _ | exact enumCurrentEntryF_le h _ | exact RLe.refl _
        | exact cmdIsDoneF_le h _ | exact regReadF_le h _ _ | exact regAddressF_le h _ | exact regLengthF_le h _
        | exact isReadableF_le h _ | exact isWritableF_le h _ | exact isImplementedF_le h _
        | exact isAvailableF_le h _ | exact isLockedF_le h _) _ _ hne
    | exact runM_le (by first
        | exact intSetF_le h _ _ | exact intSetMinF_le h _ _ | exact intSetMaxF_le h _ _
        | exact floatSetF_le h _ _ | exact floatSetMinF_le h _ _ | exact floatSetMaxF_le h _ _
        | exact strSetF_le h _ _ | exact boolSetF_le h _ _ | exact enumSetByValueF_le h _ _
        | exact enumSetByNameF_le h _ _ | exact cmdExecuteF_le h _ | exact regWriteF_le h _ _) _ hne

end CamVerif.C03
