/-
C01 with caching ON, part 5: StringReg / FloatReg round trips through registers with ANY
addressing (`pIndex`), stated against the observable `IRegister::address`.
-/
import CamVerif.Proofs.C01CachedDyn
namespace CamVerif.Proofs.C01Cached
open CamVerif CamVerif.Cache CamVerif.C04 CamVerif.Spec.Codec

variable {p : Profile} {g : Graph}

/-- `IRegister::address` returning `a` means the address evaluation yields `a` -/
theorem address_op_inv {s : St Store} {n : NodeId} {r : Reg} (hn : g[n]? = some (.reg r)) {a : Int}
    (h : (run defaultCache p g s (.address n)).1 = .ok (.int a)) :
    (regAddr p (evalInt defaultCache p g (fuelOf g)) r s).1 = .ok a := by
  simp only [run, evalOp, opAddress, hn] at h
  rw [bind_apply] at h
  cases hr : (regAddr p (evalInt defaultCache p g (fuelOf g)) r s).1 with
  | ok a2 =>
    rw [hr] at h
    have : a2 = a := by
      have h3 : (Res.ok (Val.int a2) : R Val) = .ok (.int a) := h
      injection h3 with h3; injection h3
    rw [this]
  | err e => rw [hr] at h; cases h
  | panic => rw [hr] at h; cases h

/-- **cached_string_roundtrip_dyn** -/
theorem cached_string_roundtrip_dyn {s s' : St Store} {n : NodeId} {r : Reg}
    (hn : g[n]? = some (.reg r)) (hk : r.kind = .string) {str : Bytes} {u : Val}
    (h : run defaultCache p g s (.setValue n (.str str)) = (.ok u, s')) :
    Representable r.len str ∧
    ∃ a pre, s'.dev.log = ⟨true, a, r.len, strImage r.len str, true⟩ :: (pre ++ s.dev.log) ∧
      ((run defaultCache p g s' (.address n)).1 = .ok (.int a) →
        (run defaultCache p g s' (.value n)).1 = .ok (.str str)) := by
  simp only [run, evalOp, opSetValue, hn, hk] at h
  obtain ⟨buf, hb, h2⟩ := bind_ok_inv h
  have hb' : Cache.bytesFromStr str r.len = .ok buf := hb
  obtain ⟨hrep, rfl⟩ := (cache_bytesFromStr_ok_iff _ _ _).mp hb'
  obtain ⟨_, _, h3⟩ := bind_ok_inv h2
  obtain ⟨_, hw, h4⟩ := bind_ok_inv h3
  obtain ⟨_, hs'⟩ := pure_ok_inv h4
  have hw' := pair_eta hw
  rw [← hs'] at hw'
  obtain ⟨hlen, a, ha, hwa⟩ := writeAndCache_inv hw'
  obtain ⟨hlog, _, _⟩ := writeAt_ok_effect hwa
  obtain ⟨hcoh, hport⟩ := writeAt_ok_coh hlen hwa
  obtain ⟨pre, hpre⟩ := grows_regAddr p (grows_evalInt defaultCache p g (fuelOf g)) r
    (⟨Store.invalidateBy s.cache n, s.dev⟩ : St Store)
  refine ⟨hrep, a, pre, ?_, ?_⟩
  · rw [hlog, hlen]
    congr 1
  · intro hst
    have hw2 := wcor_of_coh (p := p) hport hcoh (address_op_inv hn hst)
    simp only [run, evalOp, opValue, hn, hk]
    rw [bind_apply, hw2]
    show Res.ok (Val.str (Cache.strFromSlice (strImage r.len str))) = _
    rw [strFromSlice_strImage _ _ hrep]

/-- **cached_float_roundtrip_dyn** (bit-pattern level) -/
theorem cached_float_roundtrip_dyn {s s' : St Store} {n : NodeId} {r : Reg}
    (hn : g[n]? = some (.reg r)) {e : Cache.Endian} (hk : r.kind = .float e) {w bits : Nat}
    {u : Val} (h : run defaultCache p g s (.setValue n (.flt w bits)) = (.ok u, s')) :
    ∃ buf, Cache.bytesFromFloat bits r.len e = .ok buf ∧ buf.length = r.len ∧
    ∃ a pre, s'.dev.log = ⟨true, a, r.len, buf, true⟩ :: (pre ++ s.dev.log) ∧
      ((run defaultCache p g s' (.address n)).1 = .ok (.int a) →
        (run defaultCache p g s' (.value n)).1 = Cache.floatFromSlice buf e) := by
  simp only [run, evalOp, opSetValue, hn, hk] at h
  obtain ⟨_, _, h2⟩ := bind_ok_inv h
  obtain ⟨buf, hb, h3⟩ := bind_ok_inv h2
  have hb' : Cache.bytesFromFloat bits r.len e = .ok buf := hb
  obtain ⟨_, hw, h4⟩ := bind_ok_inv h3
  obtain ⟨_, hs'⟩ := pure_ok_inv h4
  have hw' := pair_eta hw
  rw [← hs'] at hw'
  obtain ⟨hlen, a, ha, hwa⟩ := writeAndCache_inv hw'
  obtain ⟨hlog, _, _⟩ := writeAt_ok_effect hwa
  obtain ⟨hcoh, hport⟩ := writeAt_ok_coh hlen hwa
  obtain ⟨pre, hpre⟩ := grows_regAddr p (grows_evalInt defaultCache p g (fuelOf g)) r
    (⟨Store.invalidateBy s.cache n, s.dev⟩ : St Store)
  refine ⟨buf, hb', hlen, a, pre, ?_, ?_⟩
  · rw [hlog, hlen]
    congr 1
  · intro hst
    have hw2 := wcor_of_coh (p := p) hport hcoh (address_op_inv hn hst)
    simp only [run, evalOp, opValue, hn, hk]
    rw [bind_apply, hw2]
    rfl

end CamVerif.Proofs.C01Cached
